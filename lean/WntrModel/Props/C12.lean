/-
C12 — writing a model to an EPANET INP file and reading it back preserves it.

Part A (tables regenerated from wntr/epanet/io.py on every run, `Gen/SchemaInp.lean`):
* `inp_fields_paired`      every attribute/slot of the specification is present in its section writer AND its reader,
                           and the conversion calls on the two sides have opposite directions and the same optional arguments;
* `inp_conversions_claimed` no `to_si`/`from_si` call in any section writer or reader is outside the specification;
* `inp_field_roundtrip`    for every such pair, every one of the ten flow units (and SI), every mass unit, reaction order
                           and Darcy flag, and EVERY value: reading back what was written gives the value (C17's inverse theorem;
                           different parameters on the two sides must have equal conversion factors — decided on `Gen/Units.lean`);
* `inp_attribute_coverage` every attribute `to_dict` emits (`Gen/SchemaDict.lean`, + the option groups) that the statement does
                           not put outside is carried by a field of the specification;
* `option_keywords_roundtrip` the option/time keywords written (2.2 and 2.0) are recognised by the readers; 2.0 omits exactly
                           the 2.2-specific ones.
Part B (`Model/InpText.lean`, tied by `Drivers/InpDriver.lean`): the text of controls and rules, `parse (print c) = c`.
-/
import WntrModel.Model.InpText
import WntrModel.Model.Units
import WntrModel.Gen.SchemaInp
import WntrModel.Gen.SchemaDict
import WntrModel.Gen.Units
import WntrModel.Props.C17
import Mathlib.Data.List.Basic
import Mathlib.Tactic.Ring
import Mathlib.Tactic.Linarith

namespace Wntr.InpSchema

open Wntr.Units

/-! ### A.1 the specification is matched by the code -/

def FieldsPaired : Prop := (Gen.fields.filter fun f => !f.ok Gen.table) = []

/-- **`inp_fields_paired`** — when a writer or reader stops carrying an attribute, changes the direction of a conversion
or its optional arguments, this fails and the offending fields are the value of the left-hand side -/
theorem inp_fields_paired : FieldsPaired := by
  unfold FieldsPaired
  decide +kernel

/-- **`inp_conversions_claimed`** — every conversion call of the section writers/readers belongs to a specified field -/
theorem inp_conversions_claimed :
    ((unclaimed Gen.fields Gen.rows).filter fun x => !(Gen.readerOnly.any fun a => x.has false a)) = [] := by
  decide +kernel

/-! ### A.2 conversion classes -/

def sub (c : Conv) : List Entry := Units.Gen.table.filter fun e => e.hyd == c.hyd && e.param == c.param

abbrev Slot := Nat × Nat × Nat × Bool
def slotOf (e : Entry) : Slot := (e.unit, e.mass, e.order, e.dw)
def sameSlot (a b : Entry) : Bool := slotOf a == slotOf b

/-- per unit context (flow unit, mass unit, reaction order, Darcy flag) the two conversion factors of a parameter -/
def slotTab (c : Conv) : List (Slot × (Rat × Rat)) :=
  (sub c).map fun e => (slotOf e, (factor e.toSteps, factor e.fromSteps))

def uniqKeys {κ ν : Type} [BEq κ] : List (κ × ν) → Bool
  | [] => true
  | kv :: t => !(t.any fun x => x.1 == kv.1) && uniqKeys t

theorem uniqKeys_inj {κ ν : Type} [BEq κ] [LawfulBEq κ] (l : List (κ × ν)) (h : uniqKeys l = true) (k : κ) (v v' : ν)
    (h1 : (k, v) ∈ l) (h2 : (k, v') ∈ l) : v = v' := by
  induction l with
  | nil => cases h1
  | cons a t ih =>
    simp only [uniqKeys, Bool.and_eq_true, Bool.not_eq_true', List.any_eq_false] at h
    rcases List.mem_cons.mp h1 with e1 | e1 <;> rcases List.mem_cons.mp h2 with e2 | e2
    · rw [← e1] at e2; exact (Prod.mk.inj e2).2.symm
    · exact absurd (by simp [← e1] : ((k, v').1 == a.1) = true) (by simpa using h.1 _ e2)
    · exact absurd (by simp [← e2] : ((k, v).1 == a.1) = true) (by simpa using h.1 _ e1)
    · exact ih h.2 e1 e2

/-- the parameter used on the reading side converts exactly like the one used on the writing side, in every unit system:
the same unit contexts with the same factors, each context once -/
def pairOk (p : Conv × Conv) : Bool :=
  !(sub p.1).isEmpty && decide (slotTab p.1 = slotTab p.2) && uniqKeys (slotTab p.1)

theorem conv_pairs_ok : (convPairs Gen.fields Gen.table).all pairOk = true := by decide +kernel

theorem factors_of_pairOk (p : Conv × Conv) (hp : pairOk p = true) (ew er : Entry) (hew : ew ∈ sub p.1) (her : er ∈ sub p.2)
    (hs : sameSlot ew er = true) :
    factor er.toSteps = factor ew.toSteps ∧ factor er.fromSteps = factor ew.fromSteps := by
  simp only [pairOk, Bool.and_eq_true, decide_eq_true_eq] at hp
  have h1 : (slotOf ew, (factor ew.toSteps, factor ew.fromSteps)) ∈ slotTab p.1 := List.mem_map.mpr ⟨ew, hew, rfl⟩
  have h2 : (slotOf er, (factor er.toSteps, factor er.fromSteps)) ∈ slotTab p.2 := List.mem_map.mpr ⟨er, her, rfl⟩
  rw [← hp.1.2] at h2
  have hk : slotOf ew = slotOf er := by simpa [sameSlot] using hs
  rw [← hk] at h2
  have := uniqKeys_inj _ hp.2 _ _ _ h1 h2
  exact ⟨(Prod.mk.inj this).1.symm, (Prod.mk.inj this).2.symm⟩

theorem mem_all_of_mem_sec (t : Table) (id : Nat) (a : Row) (h : a ∈ t.sec id) : a ∈ t.all := by
  unfold Table.sec at h
  split at h
  · rename_i p hp
    exact List.mem_flatMap.mpr ⟨p, List.mem_of_find?_eq_some hp, h⟩
  · cases h

/-- what the file carries / what the reader stores -/
def send (c : Conv) (e : Entry) (x : Rat) : Rat := if c.toSI then e.toSI x else e.fromSI x

theorem mem_sub {c : Conv} {e : Entry} (h : e ∈ sub c) : e ∈ Units.Gen.table := (List.mem_filter.mp h).1

/-- generic lift: equal factors + C17's inverse theorem, for every value -/
theorem roundtrip_of_factors (ew er : Entry) (hw : ew ∈ Units.Gen.table)
    (h1 : factor er.toSteps = factor ew.toSteps) (h2 : factor er.fromSteps = factor ew.fromSteps) (x : Rat) :
    |er.toSI (ew.fromSI x) - x| ≤ epsInv * |x| ∧ |er.fromSI (ew.toSI x) - x| ≤ epsInv * |x| := by
  constructor
  · have h := toSI_fromSI ew hw x
    have e1 : er.toSI (ew.fromSI x) = ew.toSI (ew.fromSI x) := by
      simp only [Entry.toSI, applySteps_eq_mul_factor, h1]
    rw [e1]; exact h
  · have h := fromSI_toSI ew hw x
    have e1 : er.fromSI (ew.toSI x) = ew.fromSI (ew.toSI x) := by
      simp only [Entry.fromSI, applySteps_eq_mul_factor, h2]
    rw [e1]; exact h

/-- **`inp_field_roundtrip`** — for every field of the specification, every writer row / reader row of the CURRENT code
that belongs to it, every flow unit × mass unit × reaction order × Darcy flag (the table entries `ew`, `er` of the two
parameters for the same unit context) and EVERY value `x`: what the reader stores is `x` up to the rounding of the
conversion constants (1e-14 relative). -/
theorem inp_field_roundtrip (f : Field) (hf : f ∈ Gen.fields) (a b : Row) (ha : a ∈ f.wRows Gen.table) (hb : b ∈ f.rRows Gen.table)
    (cw cr : Conv) (hcw : a.conv = some cw) (hcr : b.conv = some cr)
    (ew er : Entry) (hew : ew ∈ sub cw) (her : er ∈ sub cr) (hslot : sameSlot ew er = true) (x : Rat) :
    cw.toSI ≠ cr.toSI ∧ |send cr er (send cw ew x) - x| ≤ epsInv * |x| := by
  -- the pair (cw, cr) is one of the decided pairs
  have hmem : (cw, cr) ∈ convPairs Gen.fields Gen.table := by
    unfold convPairs
    rw [List.mem_eraseDups]
    rw [List.mem_flatMap]
    refine ⟨f, hf, ?_⟩
    rw [List.mem_flatMap]
    refine ⟨a, ha, ?_⟩
    rw [List.mem_filterMap]
    exact ⟨b, hb, by simp [hcw, hcr]⟩
  have hp := List.all_eq_true.mp conv_pairs_ok _ hmem
  have hfac := factors_of_pairOk (cw, cr) hp ew er hew her hslot
  -- the shape: opposite directions
  have hok : f.ok Gen.table = true := by
    by_contra hbad
    have : f ∈ Gen.fields.filter fun f => !f.ok Gen.table := List.mem_filter.mpr ⟨hf, by simpa using hbad⟩
    rw [inp_fields_paired] at this
    cases this
  have hshape : cw.shapeOk cr = true := by
    simp only [Field.ok, Bool.and_eq_true, List.all_eq_true] at hok
    have hac : a.const = false := by
      cases hc : a.const with
      | false => rfl
      | true => exact absurd hcw (by
          -- a literal has no conversion: rows with `const` never carry one (decided below)
          have := const_rows_plain a (mem_all_of_mem_sec _ _ _ (List.mem_filter.mp ha).1) hc
          simp [this])
    have hbc : b.const = false := by
      cases hc : b.const with
      | false => rfl
      | true => exact absurd hcr (by
          have := const_rows_plain b (mem_all_of_mem_sec _ _ _ (List.mem_filter.mp hb).1) hc
          simp [this])
    have := hok.2 a (List.mem_filter.mpr ⟨ha, by simp [hac]⟩) b (List.mem_filter.mpr ⟨hb, by simp [hbc]⟩)
    simpa [rowsCompat, hcw, hcr] using this
  have hdir : cw.toSI ≠ cr.toSI := by
    simp only [Conv.shapeOk, Bool.and_eq_true, bne_iff_ne] at hshape
    exact hshape.1.1.1.1
  refine ⟨hdir, ?_⟩
  have hrt := roundtrip_of_factors ew er (mem_sub hew) hfac.1 hfac.2 x
  cases hcwd : cw.toSI with
  | false =>
    have : cr.toSI = true := by cases h : cr.toSI with | true => rfl | false => exact absurd (hcwd.trans h.symm) hdir
    simp only [send, hcwd, this, if_true, Bool.false_eq_true, if_false]
    exact hrt.1
  | true =>
    have : cr.toSI = false := by cases h : cr.toSI with | false => rfl | true => exact absurd (hcwd.trans h.symm) hdir
    simp only [send, hcwd, this, if_true, Bool.false_eq_true, if_false]
    exact hrt.2
where
  const_rows_plain (r : Row) (hr : r ∈ Gen.table.all) (hc : r.const = true) : r.conv = none := by
    have h : (Gen.table.all.all fun r => !r.const || r.conv.isNone) = true := by decide +kernel
    have := List.all_eq_true.mp h r hr
    simp only [hc, Bool.not_true, Bool.false_or, Option.isNone_iff_eq_none] at this
    exact this

/-- non-vacuity: the tank level fields really pair two DIFFERENT parameters (written as HydraulicHead, read as Length),
and the energy prices run in the opposite direction (written with `to_si`, read with `from_si`) -/
example : (convPairs Gen.fields Gen.table).any (fun p => p.1.param != p.2.param) = true ∧
    (convPairs Gen.fields Gen.table).any (fun p => p.1.toSI) = true := by
  constructor <;> decide +kernel

/-- a reader that used `HydParam.Length` where the writer uses `PipeDiameter` would be rejected: ft vs inch -/
example : pairOk ({ toSI := false, hyd := true, param := 6, dw := false, order := "", mass := false },
                  { toSI := true, hyd := true, param := 5, dw := false, order := "", mass := false }) = false := by
  decide +kernel

/-! ### A.3 coverage of the definition attributes -/

/-- the class names of `Gen/SchemaDict.lean` with their emitted keys, plus the option groups -/
def emittedKeys : List (String × List String) :=
  (Wntr.Schema.Gen.tables.map fun t => (t.cls, t.emitted)) ++ Gen.optionKeys

/-- attributes that `to_dict` emits, that the statement does not put outside, and that no specified field carries -/
def missingFor (cls : String) (keys : List String) : List (String × String) :=
  let carried := (Gen.fields.filter fun f => f.cls == cls).map (·.key)
  let out := (Gen.outside.filter fun ck => ck.1 == cls).map (·.2)
  (keys.filter fun k => !out.contains k && !carried.contains k).map fun k => (cls, k)

def missingAttrs : List (String × String) := emittedKeys.flatMap fun ck => missingFor ck.1 ck.2

/-- **`inp_attribute_coverage`** (with `inp_fields_paired`: each of those fields is written by its section and read back
into the same attribute by the current code) -/
theorem inp_attribute_coverage : missingAttrs = [] := by decide +kernel

/-- everything that is put outside is named: the list only contains attributes that exist -/
theorem outside_are_attributes : (Gen.outside.all fun ck => emittedKeys.any fun e => e.1 == ck.1 && e.2.contains ck.2) = true := by
  decide +kernel

/-! ### A.4 option keywords per version -/

/-- the keywords EPANET 2.2 added to [OPTIONS] (EPANET 2.2 users manual, appendix C) that WNTR writes -/
def v22Keywords : List (String × List String) :=
  [("OPTIONS", ["HEADERROR"]), ("OPTIONS", ["FLOWCHANGE"]), ("OPTIONS", ["DEMAND", "MODEL"]), ("OPTIONS", ["MINIMUM", "PRESSURE"]),
   ("OPTIONS", ["PRESSURE", "EXPONENT"]), ("OPTIONS", ["REQUIRED", "PRESSURE"])]

/-- a written keyword is recognised when the reader dispatches on one of its words (the [TIMES] reader stores every
two-word keyword it does not know generically) -/
def recognised (kw : String × List String) : Bool :=
  kw.2.any (fun w => Gen.kwRead.contains (kw.1, [w])) || (kw.1 == "TIMES" && Gen.kwRead.contains ("TIMES", ["*"]))

/-- **`option_keywords_roundtrip`** — per version: every keyword written is read; 2.0 writes the 2.2 list minus exactly the
2.2-specific keywords -/
theorem option_keywords_roundtrip :
    Gen.kwWritten22.all recognised = true ∧ Gen.kwWritten20.all recognised = true ∧
    Gen.kwWritten20 = Gen.kwWritten22.filter (fun k => !v22Keywords.contains k) ∧
    v22Keywords.all Gen.kwWritten22.contains = true := by
  refine ⟨?_, ?_, ?_, ?_⟩ <;> decide +kernel

end Wntr.InpSchema
