/-
C06 — tank volumes integrate their net inflow and stay within their limits.

Over M7 `Tank` (update_tank_heads, numpy.interp with clamping, TankLevelCondition.evaluate, _get_all_tank_controls):
  * `cylinder_euler_exact`            A·(h' − h_prev) = q·dt
  * `cur_level_eq`, `update_independent_of_head`   the `cur_level` reconstruction is `_prev_head − elevation`; the update is a
                                      function of `_prev_head` only (idempotence of repeated calls within one step)
  * `interp_inverse` (Lemmas) ⇒ `volcurve_euler_exact`   inside the curve the stored volume changes by q·dt
  * `VolcurveEulerFull` is FALSE of the code (`volcurve_euler_counterexample`): interp clamps the tentative volume
  * `level_trace_is_integral`, `volume_trace_is_integral_partial`   along any sequence of accepted steps, each preceded by any
                                      number of tentative calls (partial steps, rule instants)
  * `first_level_is_init`
  * `limit_overshoot_bound` (+ `_max`, `_min`)   the step a crossing level condition asks for leaves the level at or past the
                                      threshold by less than one second of flow (backtrack floor)
  * `LimitBoundFull` is FALSE for volume-curve tanks (`limit_bound_counterexample`), `limit_overshoot_bound_curve_partial`
  * run level (M5c `TankRun`, arbitrary `solve`): `rows_chain_along_run`, `level_trace_is_integral_run`,
    `volume_trace_is_integral_run_partial`; `presolve_time_le` (the presolve pass cuts the step at a due closing control whose
    closing the tracker sees), `limit_one_sided_min`, `limits_hold_along_run` (under Hflow / Hcut / Hint, see there)
  * extrapolating curve lookup (repair fixes/C06-volcurve-extrapolate, `Tank.extrap = true`): `volcurve_euler_exact_extrap`,
    `volcurve_euler_full_extrap : VolcurveEulerFull true`, `limit_overshoot_bound_curve_extrap`, `limit_bound_full_extrap`
  * `min_close_control_exists`, `max_close_control_exists`   every link that can carry water out of (into) the tank has a
                                      pre-and-postsolve close control at the min (max) head
-/
import WntrModel.Model.Tank
import WntrModel.Lemmas.TankInterp
import WntrModel.Lemmas.TankRun
import WntrModel.Lemmas.ControlsLimit
import Mathlib.Tactic.Ring
import Mathlib.Tactic.Linarith
import Mathlib.Tactic.FieldSimp
import Mathlib.Tactic.NormNum
import Mathlib.Tactic.Push
import Mathlib.Algebra.Order.Field.Rat
namespace Wntr.C06
open Wntr.Tank

/-! ### the Euler step -/

/-- the reference level `update_tank_heads` reconstructs is `_prev_head − elevation`, whatever `_head` currently is -/
theorem cur_level_eq (t : Tank) (prev head : Rat) : curLevel t prev head = prev - t.elev := by
  unfold curLevel level
  by_cases h : head = prev
  · subst h; simp
  · have : (head == prev) = false := by simpa using h
    simp only [this]; simp

/-- the new head depends on `_prev_head`, the stored demand and `dt` only — not on the current `_head`:
calling `update_tank_heads` several times between two solves is idempotent -/
theorem update_independent_of_head (pi : Rat) (t : Tank) (prev h1 h2 q dt : Rat) :
    updateHead pi t prev h1 q dt = updateHead pi t prev h2 q dt := by
  unfold updateHead
  cases t.curve with
  | none => rfl
  | some c => simp only [cur_level_eq]

/-- cylinder: the Euler step is exact, `A·(h' − h_prev) = q·dt` with `A = π/4·d²` -/
theorem cylinder_euler_exact (pi : Rat) (t : Tank) (hc : t.curve = none) (hpi : 0 < pi) (hd : t.diam ≠ 0)
    (prev head q dt : Rat) :
    area pi t * (updateHead pi t prev head q dt - prev) = q * dt := by
  unfold updateHead area
  rw [hc]
  have hpi' : pi ≠ 0 := ne_of_gt hpi
  field_simp
  ring

example : area 3 ⟨0, 0, 5, 2, none, false⟩ * (updateHead 3 ⟨0, 0, 5, 2, none, false⟩ 1 1 (1/2) 6 - 1) = 1/2 * 6 :=
  cylinder_euler_exact 3 _ rfl (by norm_num) (by norm_num) 1 1 (1/2) 6

/-- with a leak: the demand `store_results_in_network` stores is `Σin − Σout − leak`; `update_tank_heads` integrates it as it is,
so the stored volume changes by `(Σin − Σout − leak)·dt` — the leak is taken out exactly once -/
theorem cylinder_euler_exact_leak (pi : Rat) (t : Tank) (hc : t.curve = none) (hpi : 0 < pi) (hd : t.diam ≠ 0)
    (prev head qin qout leak dt : Rat) :
    area pi t * (updateHead pi t prev head (tankDemand qin qout leak) dt - prev) = (qin - qout - leak) * dt := by
  rw [cylinder_euler_exact pi t hc hpi hd]; rfl

/-- the leak-explicit oracle accepts exactly this identity: rows produced by the model pass `integralOkPairLeak` with zero
tolerances -/
theorem integral_oracle_accepts_model (pi : Rat) (t : Tank) (hc : t.curve = none) (hpi : 0 < pi) (hd : t.diam ≠ 0)
    (t0 t1 h0 linkNet leak : Rat) (hdt : 0 ≤ t1 - t0) :
    integralOkPairLeak pi t 0 0 0 ⟨t0, h0, tankDemand linkNet 0 leak, leak, linkNet⟩
      ⟨t1, updateHead pi t h0 h0 (tankDemand linkNet 0 leak) (t1 - t0), 0, 0, 0⟩ = true := by
  have e := cylinder_euler_exact pi t hc hpi hd h0 h0 (tankDemand linkNet 0 leak) (t1 - t0)
  have ev : volumeAt pi t (updateHead pi t h0 h0 (tankDemand linkNet 0 leak) (t1 - t0)) - volumeAt pi t h0
      = tankDemand linkNet 0 leak * (t1 - t0) := by
    simp only [volumeAt, getVolume, hc, level]
    linarith
  simp only [integralOkPairLeak, ev]
  simp [absR]

/-- the level stored after the update of a volume-curve tank -/
theorem volcurve_new_level (pi : Rat) (t : Tank) (c : List (Rat × Rat)) (hc : t.curve = some c) (prev head q dt : Rat) :
    level t (updateHead pi t prev head q dt)
      = cinterp t.extrap (cinterp t.extrap (prev - t.elev) c + q * dt) (swapPts c) := by
  unfold updateHead level
  rw [hc]
  simp only [cur_level_eq]
  ring

/-- volume curve: while the tentative volume `V0 + q·dt` stays inside the curve the stored volume changes by exactly `q·dt` -/
theorem volcurve_euler_exact (pi : Rat) (t : Tank) (c : List (Rat × Rat)) (hc : t.curve = some c) (hx : t.extrap = false)
    (hI : IncrCurve c) (prev head q dt : Rat)
    (h0 : curveLoY c ≤ getVolume pi t (prev - t.elev) + q * dt)
    (h1 : getVolume pi t (prev - t.elev) + q * dt ≤ curveHiY c) :
    getVolume pi t (level t (updateHead pi t prev head q dt)) = getVolume pi t (prev - t.elev) + q * dt := by
  rw [volcurve_new_level pi t c hc]
  unfold getVolume at *
  rw [hc] at *
  simp only [hx, cinterp, Bool.false_eq_true, if_false] at *
  exact interp_inverse hI h0 h1

/-- `interp_inverse` (proved in Lemmas/TankInterp): on a strictly increasing curve, for a volume inside its range, the
level the code looks up (`np.interp(V, volume_y, level_x)`) has exactly that volume, and vice versa -/
theorem interp_inverse_volume {c : List (Rat × Rat)} (hI : IncrCurve c) {v : Rat} (h0 : curveLoY c ≤ v) (h1 : v ≤ curveHiY c) :
    interp (interp v (swapPts c)) c = v := Wntr.Tank.interp_inverse hI h0 h1

theorem interp_inverse_level {c : List (Rat × Rat)} (hI : IncrCurve c) {l : Rat} (h0 : curveLoX c ≤ l) (h1 : l ≤ curveHiX c) :
    interp (interp l c) (swapPts c) = l := Wntr.Tank.interp_inverse' hI h0 h1

def demoCurve : List (Rat × Rat) := [(0, 0), (2, 100), (4, 400), (6, 500)]
def demoTank : Tank := ⟨0, 1/2, 11/2, 10, some demoCurve, false⟩

theorem demoCurve_incr : IncrCurve demoCurve := by
  simp only [demoCurve, IncrCurve, Incr]; norm_num

example : getVolume 3 demoTank (level demoTank (updateHead 3 demoTank 3 3 (1/100) 3600)) = getVolume 3 demoTank (3 - demoTank.elev) + 1/100 * 3600 := by
  apply volcurve_euler_exact 3 demoTank demoCurve rfl rfl demoCurve_incr
  · simp [getVolume, cinterp, demoTank, demoCurve, interp, interpFrom, curveLoY]; norm_num
  · simp [getVolume, cinterp, demoTank, demoCurve, interp, interpFrom, curveHiY, lastY]; norm_num

/-- the full-strength statement: for a tank as `add_tank` admits it (strictly increasing curve covering `[min, max]`,
previous level within the limits) the Euler step conserves volume. -/
def VolcurveEulerFull (mode : Bool) : Prop :=
  ∀ (pi : Rat) (t : Tank) (c : List (Rat × Rat)) (prev head q dt : Rat),
    t.extrap = mode → 0 < pi → t.curve = some c → IncrCurve c → curveLoX c ≤ t.minLevel → t.maxLevel ≤ curveHiX c →
    t.minLevel < t.maxLevel → t.minLevel ≤ prev - t.elev → prev - t.elev ≤ t.maxLevel → 0 ≤ dt →
    getVolume pi t (level t (updateHead pi t prev head q dt)) = getVolume pi t (prev - t.elev) + q * dt

/-- FALSE of the code: curve (0,0),(2,100),(4,400),(6,500), level 4.5, inflow 0.1 m³/s, one hour: V0 + q·dt = 785 m³
leaves the curve, interp clamps to level 6 (500 m³) -/
theorem volcurve_euler_counterexample : ¬ VolcurveEulerFull false := by
  intro h
  have := h 3 demoTank demoCurve (9/2) (9/2) (1/10) 3600 rfl (by norm_num) rfl demoCurve_incr
    (by simp [curveLoX, demoCurve, demoTank]) (by simp [curveHiX, lastX, demoCurve, demoTank]; norm_num)
    (by simp [demoTank]; norm_num) (by simp [demoTank]; norm_num) (by simp [demoTank]; norm_num) (by norm_num)
  revert this
  decide +kernel

/-- with the end segments continued (repair `fixes/C06-volcurve-extrapolate`) the Euler step of a volume-curve tank is exact for
EVERY inflow and step length — no "inside the curve" hypothesis -/
theorem volcurve_euler_exact_extrap (pi : Rat) (t : Tank) (c : List (Rat × Rat)) (hc : t.curve = some c) (hx : t.extrap = true)
    (hI : IncrCurve c) (h2 : curveLoX c < curveHiX c) (prev head q dt : Rat) :
    getVolume pi t (level t (updateHead pi t prev head q dt)) = getVolume pi t (prev - t.elev) + q * dt := by
  rw [volcurve_new_level pi t c hc]
  unfold getVolume
  rw [hc]
  simp only [hx, cinterp, if_true]
  exact interpX_inverse hI h2 _

/-- the full-strength statement HOLDS for the repaired lookup -/
theorem volcurve_euler_full_extrap : VolcurveEulerFull true := by
  intro pi t c prev head q dt hx _ hc hI hlo hhi hlt _ _ _
  exact volcurve_euler_exact_extrap pi t c hc hx hI (by linarith) prev head q dt

example : getVolume 3 { demoTank with extrap := true } (level demoTank (updateHead 3 { demoTank with extrap := true } (9/2) (9/2) (1/10) 3600))
    = 425 + 1/10 * 3600 := by decide +kernel

/-! ### the level trace -/

/-- one accepted step: the `dt`s of the tentative calls made before the step is fixed (full hydraulic step, rule
instants, …), the accepted `dt`, and the stored demand `q` they all use -/
structure Step where
  tentative : List Rat
  dt : Rat
  q : Rat

/-- heads after the calls of one step: every call recomputes `_head` from the same `_prev_head` -/
def stepHead (pi : Rat) (t : Tank) (prev : Rat) (s : Step) : Rat :=
  updateHead pi t prev (s.tentative.foldl (fun h d => updateHead pi t prev h s.q d) prev) s.q s.dt

/-- `update_network_previous_values`: `_prev_head := head` after each accepted step -/
def trace (pi : Rat) (t : Tank) (h0 : Rat) (steps : List Step) : Rat := steps.foldl (stepHead pi t) h0

def inflow (steps : List Step) : Rat := (steps.map fun s => s.q * s.dt).sum

theorem stepHead_eq (pi : Rat) (t : Tank) (prev : Rat) (s : Step) :
    stepHead pi t prev s = updateHead pi t prev prev s.q s.dt :=
  update_independent_of_head pi t prev _ prev s.q s.dt

/-- `first_level_is_init`: before any step the level is `init_level` -/
theorem first_level_is_init (pi : Rat) (t : Tank) (init : Rat) : level t (trace pi t (initHead t init) []) = init := by
  simp [trace, level, initHead]

/-- cylinder: along ANY sequence of accepted steps (partial ones included, any tentative calls in between) the level
change times the area is the integral of the reported net inflow -/
theorem level_trace_is_integral (pi : Rat) (t : Tank) (hc : t.curve = none) (hpi : 0 < pi) (hd : t.diam ≠ 0)
    (h0 : Rat) (steps : List Step) :
    area pi t * (trace pi t h0 steps - h0) = inflow steps := by
  induction steps generalizing h0 with
  | nil => simp [trace, inflow]
  | cons s rest ih =>
    have e := cylinder_euler_exact pi t hc hpi hd h0 h0 s.q s.dt
    have ih' := ih (stepHead pi t h0 s)
    simp only [trace, List.foldl_cons, inflow, List.map_cons, List.sum_cons] at *
    rw [stepHead_eq] at *
    linarith

example : area 3 ⟨0, 0, 5, 2, none, false⟩ * (trace 3 ⟨0, 0, 5, 2, none, false⟩ 1 [⟨[3600, 360], 250, 1/100⟩, ⟨[], 3350, -1/50⟩] - 1)
    = 1/100 * 250 + (-1/50 * 3350 + 0) :=
  level_trace_is_integral 3 _ rfl (by norm_num) (by norm_num) 1 _

/-- every accepted step keeps the tentative volume inside the curve -/
def InsideAll (pi : Rat) (t : Tank) (c : List (Rat × Rat)) : Rat → List Step → Prop
  | _, [] => True
  | h, s :: rest =>
    curveLoY c ≤ getVolume pi t (h - t.elev) + s.q * s.dt ∧ getVolume pi t (h - t.elev) + s.q * s.dt ≤ curveHiY c
      ∧ InsideAll pi t c (stepHead pi t h s) rest

/-- volume curve, under "every accepted step stays inside the curve": stored volume change = integral of net inflow -/
theorem volume_trace_is_integral_partial (pi : Rat) (t : Tank) (c : List (Rat × Rat)) (hc : t.curve = some c)
    (hx : t.extrap = false) (hI : IncrCurve c) (h0 : Rat) (steps : List Step) (hin : InsideAll pi t c h0 steps) :
    getVolume pi t (level t (trace pi t h0 steps)) - getVolume pi t (level t h0) = inflow steps := by
  induction steps generalizing h0 with
  | nil => simp [trace, inflow]
  | cons s rest ih =>
    obtain ⟨a, b, r⟩ := hin
    have e := volcurve_euler_exact pi t c hc hx hI h0 h0 s.q s.dt a b
    have ih' := ih (stepHead pi t h0 s) r
    simp only [trace, List.foldl_cons, inflow, List.map_cons, List.sum_cons] at *
    rw [stepHead_eq] at *
    simp only [level] at *
    linarith

/-! ### the level trace along the run -/

open Wntr.TankRun in
/-- along the whole run (M5c `TankRun.run`, arbitrary `solve`, partial steps, re-solves within a step, any number of
`update_tank_heads` calls): every saved row follows the previous one by ONE Euler step from the previous row's heads with the
previous row's reported demands over the elapsed time -/
theorem rows_chain_along_run (cfg : Cfg) (n : Nat) (links : Controls.Links) (heads lasts : List Rat) :
    Chain cfg (run cfg n (init links heads lasts)).rows :=
  (run_chain cfg n _ (by simp [init, Chain]) (by simp [init, Synced])).1

open Wntr.TankRun in
/-- `level_trace_is_integral` for consecutive reported rows of the run, cylinder tank `i`:
`A·(h₂ − h₁) = q₁·(t₂ − t₁)` with `q₁` the demand REPORTED at the earlier row -/
theorem level_trace_is_integral_run (cfg : Cfg) (r2 r1 : TankRun.Row) (hF : Follows cfg r2 r1) (i : Nat) (t : Tank)
    (ht : cfg.tanks[i]? = some t) (hc : t.curve = none) (hpi : 0 < cfg.pi) (hd : t.diam ≠ 0) (h1 q h2 : Rat)
    (e1 : r1.heads[i]? = some h1) (eq : r1.demand[i]? = some q) (e2 : r2.heads[i]? = some h2) :
    area cfg.pi t * (h2 - h1) = q * ((r2.time - r1.time : Int) : Rat) := by
  obtain ⟨hs, hF⟩ := hF
  rw [hF] at e2
  obtain ⟨t', p, h, q', a, b, _, d, e⟩ := updHeads_get_inv _ _ _ _ _ _ _ _ e2
  rw [ht] at a; rw [e1] at b; rw [eq] at d
  cases a; cases b; cases d
  rw [e]
  exact cylinder_euler_exact cfg.pi t hc hpi hd h1 h q _

open Wntr.TankRun in
/-- the same for a volume-curve tank while the step stays inside the curve -/
theorem volume_trace_is_integral_run_partial (cfg : Cfg) (r2 r1 : TankRun.Row) (hF : Follows cfg r2 r1) (i : Nat) (t : Tank)
    (c : List (Rat × Rat)) (ht : cfg.tanks[i]? = some t) (hc : t.curve = some c) (hx : t.extrap = false) (hI : IncrCurve c)
    (h1 q h2 : Rat)
    (e1 : r1.heads[i]? = some h1) (eq : r1.demand[i]? = some q) (e2 : r2.heads[i]? = some h2)
    (hin0 : curveLoY c ≤ getVolume cfg.pi t (h1 - t.elev) + q * ((r2.time - r1.time : Int) : Rat))
    (hin1 : getVolume cfg.pi t (h1 - t.elev) + q * ((r2.time - r1.time : Int) : Rat) ≤ curveHiY c) :
    getVolume cfg.pi t (level t h2) - getVolume cfg.pi t (level t h1) = q * ((r2.time - r1.time : Int) : Rat) := by
  obtain ⟨hs, hF⟩ := hF
  rw [hF] at e2
  obtain ⟨t', p, h, q', a, b, _, d, e⟩ := updHeads_get_inv _ _ _ _ _ _ _ _ e2
  rw [ht] at a; rw [e1] at b; rw [eq] at d
  cases a; cases b; cases d
  rw [e, volcurve_euler_exact cfg.pi t c hc hx hI h1 h q _ hin0 hin1]
  simp [level]

/-! ### limits: the backtrack floor -/

/-- the level condition sees a crossing: it holds on the tentative head `cur` and did not hold on `_last_value` -/
def Crossing (t : Tank) (c : LevelCond) (cur last : Rat) : Prop :=
  (foldRel c.rel).holds (attrValue t cur c.attr) c.thr = true ∧ (foldRel c.rel).holds last c.thr = false

/-- what `TankLevelCondition.evaluate` leaves behind at a crossing of a cylindrical tank -/
theorem backtrack_cylinder (pi : Rat) (t : Tank) (hc : t.curve = none) (c : LevelCond) (cur q last : Rat) (hq : q ≠ 0)
    (hX : Crossing t c cur last) :
    evalLevel pi t c cur (some q) last =
      ⟨true, ((attrValue t cur c.attr - c.thr) * pi / 4 * (t.diam * t.diam) / q).floor, attrValue t cur c.attr, false⟩ := by
  obtain ⟨h1, h2⟩ := hX
  have hq' : (q == 0) = false := by simpa using hq
  simp [evalLevel, h1, h2, hc, hq']

/-- without a crossing there is no backtrack and `_last_value` becomes the current value -/
theorem no_crossing_no_backtrack (pi : Rat) (t : Tank) (c : LevelCond) (cur : Rat) (q : Option Rat) (last : Rat)
    (h : ¬ Crossing t c cur last) :
    (evalLevel pi t c cur q last).back = 0 ∧ (evalLevel pi t c cur q last).last = attrValue t cur c.attr
      ∧ (evalLevel pi t c cur q last).raised = false := by
  unfold Crossing at h
  unfold evalLevel
  by_cases h1 : (foldRel c.rel).holds (attrValue t cur c.attr) c.thr = true
  · have h2 : (foldRel c.rel).holds last c.thr = true := by
      by_contra hh; exact h ⟨h1, by simpa using hh⟩
    simp [h1, h2]
  · have h1' : (foldRel c.rel).holds (attrValue t cur c.attr) c.thr = false := by simpa using h1
    simp [h1']

theorem attrValue_shift (t : Tank) (a : Attr) (h d : Rat) : attrValue t (h + d) a = attrValue t h a + d := by
  cases a <;> simp [attrValue] <;> ring

/-- `limit_overshoot_bound`: cylinder, crossing at the tentative step `dt`; with the backtrack `b` the condition asks for,
the accepted head (step `dt − b`) is at or past the threshold in the direction of the flow by LESS than one second of flow:
`0 ≤ (value − θ)·A/q < 1`.  Holds for every level condition, in particular the internal min/max-head controls. -/
theorem limit_overshoot_bound (pi : Rat) (t : Tank) (hc : t.curve = none) (hpi : 0 < pi) (hd : t.diam ≠ 0)
    (c : LevelCond) (prev q dt last : Rat) (hq : q ≠ 0)
    (hX : Crossing t c (updateHead pi t prev prev q dt) last) :
    let b := (evalLevel pi t c (updateHead pi t prev prev q dt) (some q) last).back
    let acc := acceptedHead pi t prev q dt b
    0 ≤ (attrValue t acc c.attr - c.thr) * area pi t / q ∧ (attrValue t acc c.attr - c.thr) * area pi t / q < 1 := by
  intro b acc
  have hb : b = ((attrValue t (updateHead pi t prev prev q dt) c.attr - c.thr) * pi / 4 * (t.diam * t.diam) / q).floor := by
    show (evalLevel pi t c (updateHead pi t prev prev q dt) (some q) last).back = _
    rw [backtrack_cylinder pi t hc c _ q last hq hX]
  set x := (attrValue t (updateHead pi t prev prev q dt) c.attr - c.thr) * pi / 4 * (t.diam * t.diam) / q with hx
  have hpi' : pi ≠ 0 := ne_of_gt hpi
  have key : (attrValue t acc c.attr - c.thr) * area pi t / q = x - (b : Rat) := by
    have hacc : acc = updateHead pi t prev prev q dt + (-(4 * (q * (b : Rat)) / (pi * (t.diam * t.diam)))) := by
      show acceptedHead pi t prev q dt b = _
      unfold acceptedHead updateHead
      rw [hc]
      field_simp
      ring
    rw [hacc, attrValue_shift, hx]
    unfold area
    field_simp
    ring
  rw [key, hb]
  have f1 := Rat.floor_le x
  have f2 := Rat.lt_floor_add_one x
  have f3 : ((x.floor + 1 : Int) : Rat) = (x.floor : Rat) + 1 := by push_cast; ring
  rw [f3] at f2
  constructor <;> linarith

/-- filling (`q > 0`): the accepted value lies in `[θ, θ + q/A)` -/
theorem limit_overshoot_max (pi : Rat) (t : Tank) (hc : t.curve = none) (hpi : 0 < pi) (hd : t.diam ≠ 0)
    (c : LevelCond) (prev q dt last : Rat) (hq : 0 < q)
    (hX : Crossing t c (updateHead pi t prev prev q dt) last) :
    let acc := acceptedHead pi t prev q dt (evalLevel pi t c (updateHead pi t prev prev q dt) (some q) last).back
    c.thr ≤ attrValue t acc c.attr ∧ attrValue t acc c.attr < c.thr + q / area pi t := by
  intro acc
  obtain ⟨l, u⟩ := limit_overshoot_bound pi t hc hpi hd c prev q dt last (ne_of_gt hq) hX
  have hA : 0 < area pi t := by
    unfold area
    have : 0 < t.diam * t.diam := by
      rcases lt_or_gt_of_ne hd with h | h
      · exact mul_pos_of_neg_of_neg h h
      · exact mul_pos h h
    exact mul_pos (div_pos hpi (by norm_num)) this
  have hdiv : 0 < area pi t / q := div_pos hA hq
  have e : (attrValue t acc c.attr - c.thr) * area pi t / q = (attrValue t acc c.attr - c.thr) * (area pi t / q) := by ring
  rw [e] at l u
  constructor
  · by_contra hh
    have : attrValue t acc c.attr - c.thr < 0 := by linarith [not_le.mp hh]
    have := mul_neg_of_neg_of_pos this hdiv
    linarith
  · have h2 : attrValue t acc c.attr - c.thr < q / area pi t := by
      have := (lt_div_iff₀ hdiv).mpr (by simpa using u)
      rwa [one_div_div] at this
    linarith

/-- draining (`q < 0`): the accepted value lies in `(θ + q/A, θ]` -/
theorem limit_overshoot_min (pi : Rat) (t : Tank) (hc : t.curve = none) (hpi : 0 < pi) (hd : t.diam ≠ 0)
    (c : LevelCond) (prev q dt last : Rat) (hq : q < 0)
    (hX : Crossing t c (updateHead pi t prev prev q dt) last) :
    let acc := acceptedHead pi t prev q dt (evalLevel pi t c (updateHead pi t prev prev q dt) (some q) last).back
    attrValue t acc c.attr ≤ c.thr ∧ c.thr + q / area pi t < attrValue t acc c.attr := by
  intro acc
  obtain ⟨l, u⟩ := limit_overshoot_bound pi t hc hpi hd c prev q dt last (ne_of_lt hq) hX
  have hA : 0 < area pi t := by
    unfold area
    have : 0 < t.diam * t.diam := by
      rcases lt_or_gt_of_ne hd with h | h
      · exact mul_pos_of_neg_of_neg h h
      · exact mul_pos h h
    exact mul_pos (div_pos hpi (by norm_num)) this
  have hqn : q ≠ 0 := ne_of_lt hq
  have hAn : area pi t ≠ 0 := ne_of_gt hA
  have hdiv : area pi t / q < 0 := by
    rw [div_eq_mul_inv]
    exact mul_neg_of_pos_of_neg hA (inv_lt_zero.mpr hq)
  have e : (attrValue t acc c.attr - c.thr) * area pi t / q = (attrValue t acc c.attr - c.thr) * (area pi t / q) := by ring
  rw [e] at l u
  constructor
  · by_contra hh
    have : 0 < attrValue t acc c.attr - c.thr := by linarith [not_le.mp hh]
    have := mul_neg_of_pos_of_neg this hdiv
    linarith
  · by_contra hh
    have h3 : attrValue t acc c.attr - c.thr ≤ q / area pi t := by linarith [not_lt.mp hh]
    have h4 : (q / area pi t) * (area pi t / q) ≤ (attrValue t acc c.attr - c.thr) * (area pi t / q) :=
      mul_le_mul_of_nonpos_right h3 (le_of_lt hdiv)
    have h5 : (q / area pi t) * (area pi t / q) = 1 := by
      field_simp
    linarith

example : Crossing ⟨0, 0, 5, 2, none, false⟩ ⟨.level, .ge, 3⟩ (updateHead 3 ⟨0, 0, 5, 2, none, false⟩ 2 2 (1/100) 3600) 2 := by
  unfold Crossing; decide +kernel

/-- level of a threshold / value of the condition's attribute -/
def levelOf (t : Tank) (a : Attr) (v : Rat) : Rat :=
  match a with
  | .head => v - t.elev
  | _ => v

/-- the full-strength statement in volume terms, for cylinder AND volume-curve tanks as `add_tank` admits them: the step
a crossing level condition asks for leaves the stored volume at or past the threshold volume by less than one second of flow -/
def LimitBoundFull (mode : Bool) : Prop :=
  ∀ (pi : Rat) (t : Tank) (c : LevelCond) (prev q dt last : Rat),
    t.extrap = mode → 0 < pi → t.diam ≠ 0 → q ≠ 0 → 0 ≤ dt → c.attr ≠ .pressure →
    (∀ crv, t.curve = some crv → IncrCurve crv ∧ curveLoX crv ≤ t.minLevel ∧ t.maxLevel ≤ curveHiX crv) →
    t.minLevel < t.maxLevel → t.minLevel ≤ prev - t.elev → prev - t.elev ≤ t.maxLevel →
    t.minLevel ≤ levelOf t c.attr c.thr → levelOf t c.attr c.thr ≤ t.maxLevel →
    Crossing t c (updateHead pi t prev prev q dt) last →
    let b := (evalLevel pi t c (updateHead pi t prev prev q dt) (some q) last).back
    let acc := acceptedHead pi t prev q dt b
    0 ≤ (getVolume pi t (level t acc) - getVolume pi t (levelOf t c.attr c.thr)) / q
      ∧ (getVolume pi t (level t acc) - getVolume pi t (levelOf t c.attr c.thr)) / q < 1

/-- FALSE of the code: the max-head control of the demo tank (max_level 5.5) at level 4.5 with 0.1 m³/s inflow and a one-hour
step: the tentative level is clamped to 6 (500 m³), the backtrack is ⌊(500 − 475)/0.1⌋ = 250 s instead of 3100 s, the accepted
step of 3350 s again ends at level 6: 250 seconds of flow past the limit. -/
theorem limit_bound_counterexample : ¬ LimitBoundFull false := by
  intro h
  have := h 3 demoTank ⟨.head, .ge, 11/2⟩ (9/2) (1/10) 3600 (9/2) rfl (by norm_num) (by simp [demoTank]) (by norm_num) (by norm_num)
    (by simp)
    (by
      intro crv hcrv
      have : crv = demoCurve := by simpa [demoTank] using hcrv.symm
      subst this
      refine ⟨demoCurve_incr, ?_, ?_⟩
      · simp [curveLoX, demoCurve, demoTank]
      · simp [curveHiX, lastX, demoCurve, demoTank]; norm_num)
    (by simp [demoTank]; norm_num) (by simp [demoTank]; norm_num) (by simp [demoTank]; norm_num)
    (by simp [demoTank, levelOf]; norm_num) (by simp [demoTank, levelOf])
    (by unfold Crossing; decide +kernel)
  revert this
  decide +kernel

/-- core of the volume-curve bound, given that the tentative and the accepted step conserve volume (either mode) -/
theorem limit_bound_curve_core (pi : Rat) (t : Tank) (crv : List (Rat × Rat)) (hc : t.curve = some crv)
    (c : LevelCond) (hattr : c.attr ≠ .pressure) (prev q dt last : Rat) (hq : q ≠ 0)
    (hX : Crossing t c (updateHead pi t prev prev q dt) last)
    (hvt : getVolume pi t (level t (updateHead pi t prev prev q dt)) = getVolume pi t (prev - t.elev) + q * dt)
    (hva : ∀ b : Int, b = (evalLevel pi t c (updateHead pi t prev prev q dt) (some q) last).back →
      getVolume pi t (level t (updateHead pi t prev prev q (dt - (b : Rat)))) = getVolume pi t (prev - t.elev) + q * (dt - (b : Rat))) :
    let b := (evalLevel pi t c (updateHead pi t prev prev q dt) (some q) last).back
    let acc := acceptedHead pi t prev q dt b
    0 ≤ (getVolume pi t (level t acc) - getVolume pi t (levelOf t c.attr c.thr)) / q
      ∧ (getVolume pi t (level t acc) - getVolume pi t (levelOf t c.attr c.thr)) / q < 1 := by
  intro b acc
  obtain ⟨h1, h2⟩ := hX
  have hq' : (q == 0) = false := by simpa using hq
  have hva := hva b rfl
  have hb : b = ((getVolume pi t (level t (updateHead pi t prev prev q dt)) - getVolume pi t (levelOf t c.attr c.thr)) / q).floor := by
    show (evalLevel pi t c (updateHead pi t prev prev q dt) (some q) last).back = _
    cases ha : c.attr with
    | pressure => exact absurd ha hattr
    | head =>
      have h1' : (foldRel c.rel).holds (updateHead pi t prev prev q dt) c.thr = true := by simpa [ha, attrValue] using h1
      simp [evalLevel, h1', h2, hc, hq', ha, getVolume, levelOf, level, attrValue]
    | level =>
      have h1' : (foldRel c.rel).holds (updateHead pi t prev prev q dt - t.elev) c.thr = true := by simpa [ha, attrValue] using h1
      simp [evalLevel, h1', h2, hc, hq', ha, getVolume, levelOf, level, attrValue]
  set x := (getVolume pi t (level t (updateHead pi t prev prev q dt)) - getVolume pi t (levelOf t c.attr c.thr)) / q with hx
  have key : (getVolume pi t (level t acc) - getVolume pi t (levelOf t c.attr c.thr)) / q = x - (b : Rat) := by
    show (getVolume pi t (level t (acceptedHead pi t prev q dt b)) - _) / q = _
    unfold acceptedHead
    rw [hva, hx, hvt]
    field_simp
    ring
  rw [key, hb]
  have f1 := Rat.floor_le x
  have f2 := Rat.lt_floor_add_one x
  have f3 : ((x.floor + 1 : Int) : Rat) = (x.floor : Rat) + 1 := by push_cast; ring
  rw [f3] at f2
  constructor <;> linarith

/-- volume curve with the clamping lookup, under "tentative and accepted volumes inside the curve" -/
theorem limit_overshoot_bound_curve_partial (pi : Rat) (t : Tank) (crv : List (Rat × Rat)) (hc : t.curve = some crv)
    (hx : t.extrap = false) (hI : IncrCurve crv) (c : LevelCond) (hattr : c.attr ≠ .pressure) (prev q dt last : Rat) (hq : q ≠ 0)
    (hX : Crossing t c (updateHead pi t prev prev q dt) last)
    (ht0 : curveLoY crv ≤ getVolume pi t (prev - t.elev) + q * dt)
    (ht1 : getVolume pi t (prev - t.elev) + q * dt ≤ curveHiY crv)
    (hacc : let b := (evalLevel pi t c (updateHead pi t prev prev q dt) (some q) last).back
            curveLoY crv ≤ getVolume pi t (prev - t.elev) + q * (dt - (b : Rat))
              ∧ getVolume pi t (prev - t.elev) + q * (dt - (b : Rat)) ≤ curveHiY crv) :
    let b := (evalLevel pi t c (updateHead pi t prev prev q dt) (some q) last).back
    let acc := acceptedHead pi t prev q dt b
    0 ≤ (getVolume pi t (level t acc) - getVolume pi t (levelOf t c.attr c.thr)) / q
      ∧ (getVolume pi t (level t acc) - getVolume pi t (levelOf t c.attr c.thr)) / q < 1 :=
  limit_bound_curve_core pi t crv hc c hattr prev q dt last hq hX
    (volcurve_euler_exact pi t crv hc hx hI prev prev q dt ht0 ht1)
    (fun b hb => by subst hb; exact volcurve_euler_exact pi t crv hc hx hI prev prev q _ hacc.1 hacc.2)

/-- volume curve with the repaired (extrapolating) lookup: the bound holds without any "inside the curve" hypothesis -/
theorem limit_overshoot_bound_curve_extrap (pi : Rat) (t : Tank) (crv : List (Rat × Rat)) (hc : t.curve = some crv)
    (hx : t.extrap = true) (hI : IncrCurve crv) (h2 : curveLoX crv < curveHiX crv) (c : LevelCond) (hattr : c.attr ≠ .pressure)
    (prev q dt last : Rat) (hq : q ≠ 0) (hX : Crossing t c (updateHead pi t prev prev q dt) last) :
    let b := (evalLevel pi t c (updateHead pi t prev prev q dt) (some q) last).back
    let acc := acceptedHead pi t prev q dt b
    0 ≤ (getVolume pi t (level t acc) - getVolume pi t (levelOf t c.attr c.thr)) / q
      ∧ (getVolume pi t (level t acc) - getVolume pi t (levelOf t c.attr c.thr)) / q < 1 :=
  limit_bound_curve_core pi t crv hc c hattr prev q dt last hq hX
    (volcurve_euler_exact_extrap pi t crv hc hx hI h2 prev prev q dt)
    (fun b _ => volcurve_euler_exact_extrap pi t crv hc hx hI h2 prev prev q _)

/-- the full-strength limit statement HOLDS for the repaired lookup (cylinder and volume-curve tanks alike) -/
theorem limit_bound_full_extrap : LimitBoundFull true := by
  intro pi t c prev q dt last hx hpi hd hq _ hattr hwf hlt _ _ _ _ hX
  cases hc : t.curve with
  | none =>
    have hb := limit_overshoot_bound pi t hc hpi hd c prev q dt last hq hX
    simp only at hb ⊢
    have e : ∀ acc : Rat, (getVolume pi t (level t acc) - getVolume pi t (levelOf t c.attr c.thr)) / q
        = (attrValue t acc c.attr - c.thr) * area pi t / q := by
      intro acc
      cases ha : c.attr with
      | pressure => exact absurd ha hattr
      | head => simp [getVolume, hc, level, levelOf, attrValue]; ring
      | level => simp [getVolume, hc, level, levelOf, attrValue]; ring
    rw [e]
    exact hb
  | some crv =>
    obtain ⟨hI, hlo, hhi⟩ := hwf crv hc
    exact limit_overshoot_bound_curve_extrap pi t crv hc hx hI (by linarith) c hattr prev q dt last hq hX

/-! ### limits along the run -/

open Wntr.Controls in
/-- the presolve pass (not the first step) accepts a time no later than `t − d.back` for a due closing control `d` of a link
whose closing the tracker sees (`Closes`: an open tracked pipe or pump — `closes_of_open_nonvalve`) -/
theorem presolve_time_le (tracked : List (Nat × Watch)) (due : List Due) (ls : Links) (t : Int) (d : Due) (hd : d ∈ due)
    (hf : d.ctl.act.field = .internal) (hv : d.ctl.act.value = 0) (hlt : d.ctl.act.link < ls.length)
    (hcl : Closes tracked ls d.ctl.act.link)
    (hint : ∀ e ∈ due, e.ctl.hits d.ctl.act.link .internal → e.ctl.act.value = 0) :
    (presolve tracked false due ls t).2 ≤ t - d.back := by
  unfold presolve
  simp only [Bool.false_eq_true, if_false]
  have hperm : ∀ x, x ∈ sortDue due ↔ x ∈ due := fun x => by
    unfold sortDue
    rw [(sortBy_perm _ _).mem_iff, (sortBy_perm _ _).mem_iff]
  have hsorted : (sortDue due).Pairwise (fun a b => b.back ≤ a.back) :=
    (sortBy_sorted (fun d : Due => - d.back) _).imp (fun h => by omega)
  exact presolveLoop_time_le tracked ls _ hcl _ _ ls t d (le_refl _) hsorted ((hperm d).mpr hd) rfl hf hv hlt rfl
    (fun e he => hint e ((hperm e).mp he))

/-- draining cylinder (`q < 0`): any accepted step cut by AT LEAST the backtrack `⌊(value − θ)·A/q⌋` leaves the value above
`θ + q/A` — less than one second of flow below the threshold -/
theorem limit_one_sided_min (pi : Rat) (t : Tank) (hc : t.curve = none) (hpi : 0 < pi) (hd : t.diam ≠ 0) (a : Attr)
    (thr prev q dt : Rat) (hq : q < 0) (B : Int)
    (hB : ((attrValue t (updateHead pi t prev prev q dt) a - thr) * pi / 4 * (t.diam * t.diam) / q).floor ≤ B) :
    thr + q / area pi t < attrValue t (acceptedHead pi t prev q dt B) a := by
  set x := (attrValue t (updateHead pi t prev prev q dt) a - thr) * pi / 4 * (t.diam * t.diam) / q with hx
  have hpi' : pi ≠ 0 := ne_of_gt hpi
  have hqn : q ≠ 0 := ne_of_lt hq
  have hA : 0 < area pi t := by
    unfold area
    have : 0 < t.diam * t.diam := by
      rcases lt_or_gt_of_ne hd with h | h
      · exact mul_pos_of_neg_of_neg h h
      · exact mul_pos h h
    exact mul_pos (div_pos hpi (by norm_num)) this
  have key : (attrValue t (acceptedHead pi t prev q dt B) a - thr) * area pi t / q = x - (B : Rat) := by
    have hacc : acceptedHead pi t prev q dt B
        = updateHead pi t prev prev q dt + (-(4 * (q * (B : Rat)) / (pi * (t.diam * t.diam)))) := by
      unfold acceptedHead updateHead
      rw [hc]
      field_simp
      ring
    rw [hacc, attrValue_shift, hx]
    unfold area
    field_simp
    ring
  have f2 := Rat.lt_floor_add_one x
  have f3 : ((x.floor + 1 : Int) : Rat) = (x.floor : Rat) + 1 := by push_cast; ring
  rw [f3] at f2
  have hBr : (x.floor : Rat) ≤ (B : Rat) := by exact_mod_cast hB
  have hlt1 : (attrValue t (acceptedHead pi t prev q dt B) a - thr) * area pi t / q < 1 := by rw [key]; linarith
  -- multiply by q/A < 0
  have hAn : area pi t ≠ 0 := ne_of_gt hA
  by_contra hh
  have h3 : attrValue t (acceptedHead pi t prev q dt B) a - thr ≤ q / area pi t := by linarith [not_lt.mp hh]
  have hdiv : area pi t / q < 0 := by
    rw [div_eq_mul_inv]; exact mul_neg_of_pos_of_neg hA (inv_lt_zero.mpr hq)
  have h4 : (q / area pi t) * (area pi t / q) ≤ (attrValue t (acceptedHead pi t prev q dt B) a - thr) * (area pi t / q) :=
    mul_le_mul_of_nonpos_right h3 (le_of_lt hdiv)
  have h5 : (q / area pi t) * (area pi t / q) = 1 := by field_simp
  have e : (attrValue t (acceptedHead pi t prev q dt B) a - thr) * area pi t / q
      = (attrValue t (acceptedHead pi t prev q dt B) a - thr) * (area pi t / q) := by ring
  rw [e] at hlt1
  linarith

/-- `limits_hold_along_run` (min side, levels of one cylindrical tank along consecutive reported rows, oldest first as
`(time, level, demand)`): if
  (Hflow) a tank at or below `min` does not discharge at a reported row  — hydraulics: C02 `closed_link_zero_flow` + flow
          follows the head difference, which the re-open rule `tank.head ≤ other.head` relies on;
  (Hcut)  a draining tank above `min` is cut by the presolve pass so that the next level is above `min + q/A`
          — `presolve_time_le` + `limit_one_sided_min` deliver this whenever the min-close control is due with the backtrack
          computed from the accepted level and some link it closes is an open tracked pipe/pump (`closes_of_open_nonvalve`);
  (Hint)  levels integrate the reported demand (`level_trace_is_integral_run`),
then every level stays above `min − Q/A·1 s`, `Q` a bound of the reported flows. -/
theorem limits_hold_along_run (A mn Q : Rat) (hA : 0 < A) (hQ : 0 ≤ Q) :
    ∀ (rows : List (Rat × Rat × Rat)) (l0 q0 t0 : Rat), mn - Q / A ≤ l0 →
      List.IsChain (fun (a b : Rat × Rat × Rat) =>
        a.1 ≤ b.1 ∧ A * (b.2.1 - a.2.1) = a.2.2 * (b.1 - a.1)            -- Hint, time moves forward
        ∧ (a.2.1 ≤ mn → 0 ≤ a.2.2)                                        -- Hflow
        ∧ (mn < a.2.1 → a.2.2 < 0 → mn + a.2.2 / A < b.2.1)               -- Hcut
        ∧ -Q ≤ a.2.2) ((t0, l0, q0) :: rows) →
      ∀ r ∈ (t0, l0, q0) :: rows, mn - Q / A ≤ r.2.1 := by
  intro rows
  induction rows with
  | nil => intro l0 q0 t0 h0 _ r hr; simp at hr; rw [hr]; exact h0
  | cons b rest ih =>
    intro l0 q0 t0 h0 hch r hr
    rw [List.isChain_cons_cons] at hch
    obtain ⟨⟨ht, hint, hflow, hcut, hqb⟩, hrest⟩ := hch
    rcases List.mem_cons.mp hr with e | e
    · rw [e]; exact h0
    · obtain ⟨tb, lb, qb⟩ := b
      simp only at ht hint hflow hcut hqb
      have hb : mn - Q / A ≤ lb := by
        have hdt : 0 ≤ tb - t0 := by linarith
        by_cases hq : 0 ≤ q0
        · have : 0 ≤ A * (lb - l0) := by rw [hint]; exact mul_nonneg hq hdt
          have : 0 ≤ lb - l0 := by
            by_contra hh
            have := mul_neg_of_pos_of_neg hA (not_le.mp hh)
            linarith
          linarith
        · have hq' : q0 < 0 := not_le.mp hq
          have hl : mn < l0 := by
            by_contra hh
            exact hq (hflow (not_lt.mp hh))
          have h1 := hcut hl hq'
          have : -(Q / A) ≤ q0 / A := by
            rw [← neg_div]; exact div_le_div_of_nonneg_right hqb (le_of_lt hA)
          linarith
      exact ih lb qb tb hb hrest r e

/-! ### which links the limit controls close -/

/-- min level: every link that can carry water OUT of the tank (anything but a pump or CV pipe ending at the tank) gets a
pre-and-postsolve close control `tank.head ≤ min_level + elevation` of priority medium -/
theorem min_close_control_exists (t : Tank) (htol : Rat) (links : List TLink) (l : TLink) (hl : l ∈ links)
    (hout : ¬ (l.kind = .pump ∧ l.startIsTank = false) ∧ ¬ (l.kind = .pipe ∧ l.cv = true ∧ l.startIsTank = false)) :
    (⟨l.id, 0, .le, t.minLevel + t.elev, none, 3, true⟩ : TCtl) ∈ tankControls t htol links := by
  unfold tankControls
  apply List.mem_append_left
  rw [List.mem_flatMap]
  refine ⟨l, hl, ?_⟩
  obtain ⟨h1, h2⟩ := hout
  unfold minBlock
  cases hk : l.kind <;> cases hcv : l.cv <;> cases hs : l.startIsTank <;> simp_all

/-- max level: every link that can carry water INTO the tank (anything but a pump or CV pipe starting at the tank) gets a
pre-and-postsolve close control `tank.head ≥ max_level + elevation` -/
theorem max_close_control_exists (t : Tank) (htol : Rat) (links : List TLink) (l : TLink) (hl : l ∈ links)
    (hin : ¬ (l.kind = .pump ∧ l.startIsTank = true) ∧ ¬ (l.kind = .pipe ∧ l.cv = true ∧ l.startIsTank = true)) :
    (⟨l.id, 0, .ge, t.maxLevel + t.elev, none, 3, true⟩ : TCtl) ∈ tankControls t htol links := by
  unfold tankControls
  apply List.mem_append_right
  rw [List.mem_flatMap]
  refine ⟨l, hl, ?_⟩
  obtain ⟨h1, h2⟩ := hin
  unfold maxBlock
  cases hk : l.kind <;> cases hcv : l.cv <;> cases hs : l.startIsTank <;> simp_all

example : (⟨7, 0, .le, 1 + 20, none, 3, true⟩ : TCtl) ∈ tankControls ⟨20, 1, 5, 3, none, false⟩ (1/10000) [⟨7, .pump, false, true, 2⟩] :=
  min_close_control_exists _ _ _ ⟨7, .pump, false, true, 2⟩ (by simp) (by simp)

end Wntr.C06
