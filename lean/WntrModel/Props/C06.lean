/-
C06 — tank volumes integrate their net inflow and stay within their limits.

Over M7 `Tank` (update_tank_heads, numpy.interp with clamping, TankLevelCondition.evaluate, _get_all_tank_controls):
  * `cylinder_euler_exact`            A·(h' − h_prev) = q·dt
  * `cur_level_eq`, `update_independent_of_head`   the `cur_level` reconstruction is `_prev_head − elevation`; the update is a
                                      function of `_prev_head` only (idempotence of repeated calls within one step)
  * `interp_inverse` (Lemmas) ⇒ `volcurve_euler_exact`   inside the curve the stored volume changes by q·dt
  * `VolcurveEulerFull` is FALSE of the code (`volcurve_euler_counterexample`): interp clamps the tentative volume
  * `level_trace_is_integral`, `volume_trace_is_integral_partial`   along any sequence of accepted steps, each preceded by any
                                      number of tentative calls (partial steps, rule instants)
  * `first_level_is_init`
  * `limit_overshoot_bound` (+ `_max`, `_min`)   the step a crossing level condition asks for leaves the level at or past the
                                      threshold by less than one second of flow (backtrack floor)
  * `LimitBoundFull` is FALSE for volume-curve tanks (`limit_bound_counterexample`), `limit_overshoot_bound_curve_partial`
  * run level (M5c `TankRun`, arbitrary `solve`): `rows_chain_along_run`, `level_trace_is_integral_run`,
    `volume_trace_is_integral_run_partial`; `presolve_time_le` (the presolve pass cuts the step at a due closing control whose
    closing the tracker sees), `limit_one_sided_min`, `limits_hold_along_run` (under Hflow / Hcut / Hint, see there)
  * extrapolating curve lookup (repair fixes/C06-volcurve-extrapolate, `Tank.extrap = true`): `volcurve_euler_exact_extrap`,
    `volcurve_euler_full_extrap : VolcurveEulerFull true`, `limit_overshoot_bound_curve_extrap`, `limit_bound_full_extrap`
  * `min_close_control_exists`, `max_close_control_exists`   every link that can carry water out of (into) the tank has a
                                      pre-and-postsolve close control at the min (max) head
-/
import WntrModel.Model.Tank
import WntrModel.Lemmas.TankInterp
import WntrModel.Lemmas.TankRun
import WntrModel.Lemmas.ControlsLimit
import WntrModel.Lemmas.TankRound
import Mathlib.Tactic.Ring
import Mathlib.Tactic.Linarith
import Mathlib.Tactic.FieldSimp
import Mathlib.Tactic.NormNum
import Mathlib.Tactic.Push
import Mathlib.Algebra.Order.Field.Rat
namespace Wntr.C06
open Wntr.Tank

/-! ### the Euler step -/

/-- the reference level `update_tank_heads` reconstructs is `_prev_head − elevation`, whatever `_head` currently is -/
theorem cur_level_eq (t : Tank) (prev head : Rat) : curLevel t prev head = prev - t.elev := by
  unfold curLevel level
  by_cases h : head = prev
  · subst h; simp
  · have : (head == prev) = false := by simpa using h
    simp only [this]; simp

/-- the new head depends on `_prev_head`, the stored demand and `dt` only — not on the current `_head`:
calling `update_tank_heads` several times between two solves is idempotent -/
theorem update_independent_of_head (pi : Rat) (t : Tank) (prev h1 h2 q dt : Rat) :
    updateHead pi t prev h1 q dt = updateHead pi t prev h2 q dt := by
  unfold updateHead
  cases t.curve with
  | none => rfl
  | some c => simp only [cur_level_eq]

/-- cylinder: the Euler step is exact, `A·(h' − h_prev) = q·dt` with `A = π/4·d²` -/
theorem cylinder_euler_exact (pi : Rat) (t : Tank) (hc : t.curve = none) (hpi : 0 < pi) (hd : t.diam ≠ 0)
    (prev head q dt : Rat) :
    area pi t * (updateHead pi t prev head q dt - prev) = q * dt := by
  unfold updateHead area
  rw [hc]
  have hpi' : pi ≠ 0 := ne_of_gt hpi
  field_simp
  ring

example : area 3 ⟨0, 0, 5, 2, none, false⟩ * (updateHead 3 ⟨0, 0, 5, 2, none, false⟩ 1 1 (1/2) 6 - 1) = 1/2 * 6 :=
  cylinder_euler_exact 3 _ rfl (by norm_num) (by norm_num) 1 1 (1/2) 6

/-- with a leak: the demand `store_results_in_network` stores is `Σin − Σout − leak`; `update_tank_heads` integrates it as it is,
so the stored volume changes by `(Σin − Σout − leak)·dt` — the leak is taken out exactly once -/
theorem cylinder_euler_exact_leak (pi : Rat) (t : Tank) (hc : t.curve = none) (hpi : 0 < pi) (hd : t.diam ≠ 0)
    (prev head qin qout leak dt : Rat) :
    area pi t * (updateHead pi t prev head (tankDemand qin qout leak) dt - prev) = (qin - qout - leak) * dt := by
  rw [cylinder_euler_exact pi t hc hpi hd]; rfl

/-- the leak-explicit oracle accepts exactly this identity: rows produced by the model pass `integralOkPairLeak` with zero
tolerances -/
theorem integral_oracle_accepts_model (pi : Rat) (t : Tank) (hc : t.curve = none) (hpi : 0 < pi) (hd : t.diam ≠ 0)
    (t0 t1 h0 linkNet leak : Rat) (hdt : 0 ≤ t1 - t0) :
    integralOkPairLeak pi t 0 0 0 ⟨t0, h0, tankDemand linkNet 0 leak, leak, linkNet⟩
      ⟨t1, updateHead pi t h0 h0 (tankDemand linkNet 0 leak) (t1 - t0), 0, 0, 0⟩ = true := by
  have e := cylinder_euler_exact pi t hc hpi hd h0 h0 (tankDemand linkNet 0 leak) (t1 - t0)
  have ev : volumeAt pi t (updateHead pi t h0 h0 (tankDemand linkNet 0 leak) (t1 - t0)) - volumeAt pi t h0
      = tankDemand linkNet 0 leak * (t1 - t0) := by
    simp only [volumeAt, getVolume, hc, level]
    linarith
  simp only [integralOkPairLeak, ev]
  simp [absR]

/-- the level stored after the update of a volume-curve tank -/
theorem volcurve_new_level (pi : Rat) (t : Tank) (c : List (Rat × Rat)) (hc : t.curve = some c) (prev head q dt : Rat) :
    level t (updateHead pi t prev head q dt)
      = cinterp t.extrap (cinterp t.extrap (prev - t.elev) c + q * dt) (swapPts c) := by
  unfold updateHead level
  rw [hc]
  simp only [cur_level_eq]
  ring

/-- volume curve: while the tentative volume `V0 + q·dt` stays inside the curve the stored volume changes by exactly `q·dt` -/
theorem volcurve_euler_exact (pi : Rat) (t : Tank) (c : List (Rat × Rat)) (hc : t.curve = some c) (hx : t.extrap = false)
    (hI : IncrCurve c) (prev head q dt : Rat)
    (h0 : curveLoY c ≤ getVolume pi t (prev - t.elev) + q * dt)
    (h1 : getVolume pi t (prev - t.elev) + q * dt ≤ curveHiY c) :
    getVolume pi t (level t (updateHead pi t prev head q dt)) = getVolume pi t (prev - t.elev) + q * dt := by
  rw [volcurve_new_level pi t c hc]
  unfold getVolume at *
  rw [hc] at *
  simp only [hx, cinterp, Bool.false_eq_true, if_false] at *
  exact interp_inverse hI h0 h1

/-- `interp_inverse` (proved in Lemmas/TankInterp): on a strictly increasing curve, for a volume inside its range, the
level the code looks up (`np.interp(V, volume_y, level_x)`) has exactly that volume, and vice versa -/
theorem interp_inverse_volume {c : List (Rat × Rat)} (hI : IncrCurve c) {v : Rat} (h0 : curveLoY c ≤ v) (h1 : v ≤ curveHiY c) :
    interp (interp v (swapPts c)) c = v := Wntr.Tank.interp_inverse hI h0 h1

theorem interp_inverse_level {c : List (Rat × Rat)} (hI : IncrCurve c) {l : Rat} (h0 : curveLoX c ≤ l) (h1 : l ≤ curveHiX c) :
    interp (interp l c) (swapPts c) = l := Wntr.Tank.interp_inverse' hI h0 h1

def demoCurve : List (Rat × Rat) := [(0, 0), (2, 100), (4, 400), (6, 500)]
def demoTank : Tank := ⟨0, 1/2, 11/2, 10, some demoCurve, false⟩

theorem demoCurve_incr : IncrCurve demoCurve := by
  simp only [demoCurve, IncrCurve, Incr]; norm_num

example : getVolume 3 demoTank (level demoTank (updateHead 3 demoTank 3 3 (1/100) 3600)) = getVolume 3 demoTank (3 - demoTank.elev) + 1/100 * 3600 := by
  apply volcurve_euler_exact 3 demoTank demoCurve rfl rfl demoCurve_incr
  · simp [getVolume, cinterp, demoTank, demoCurve, interp, interpFrom, curveLoY]; norm_num
  · simp [getVolume, cinterp, demoTank, demoCurve, interp, interpFrom, curveHiY, lastY]; norm_num

/-- the full-strength statement: for a tank as `add_tank` admits it (strictly increasing curve covering `[min, max]`,
previous level within the limits) the Euler step conserves volume. -/
def VolcurveEulerFull (mode : Bool) : Prop :=
  ∀ (pi : Rat) (t : Tank) (c : List (Rat × Rat)) (prev head q dt : Rat),
    t.extrap = mode → 0 < pi → t.curve = some c → IncrCurve c → curveLoX c ≤ t.minLevel → t.maxLevel ≤ curveHiX c →
    t.minLevel < t.maxLevel → t.minLevel ≤ prev - t.elev → prev - t.elev ≤ t.maxLevel → 0 ≤ dt →
    getVolume pi t (level t (updateHead pi t prev head q dt)) = getVolume pi t (prev - t.elev) + q * dt

/-- FALSE of the code: curve (0,0),(2,100),(4,400),(6,500), level 4.5, inflow 0.1 m³/s, one hour: V0 + q·dt = 785 m³
leaves the curve, interp clamps to level 6 (500 m³) -/
theorem volcurve_euler_counterexample : ¬ VolcurveEulerFull false := by
  intro h
  have := h 3 demoTank demoCurve (9/2) (9/2) (1/10) 3600 rfl (by norm_num) rfl demoCurve_incr
    (by simp [curveLoX, demoCurve, demoTank]) (by simp [curveHiX, lastX, demoCurve, demoTank]; norm_num)
    (by simp [demoTank]; norm_num) (by simp [demoTank]; norm_num) (by simp [demoTank]; norm_num) (by norm_num)
  revert this
  decide +kernel

/-- with the end segments continued (repair `fixes/C06-volcurve-extrapolate`) the Euler step of a volume-curve tank is exact for
EVERY inflow and step length — no "inside the curve" hypothesis -/
theorem volcurve_euler_exact_extrap (pi : Rat) (t : Tank) (c : List (Rat × Rat)) (hc : t.curve = some c) (hx : t.extrap = true)
    (hI : IncrCurve c) (h2 : curveLoX c < curveHiX c) (prev head q dt : Rat) :
    getVolume pi t (level t (updateHead pi t prev head q dt)) = getVolume pi t (prev - t.elev) + q * dt := by
  rw [volcurve_new_level pi t c hc]
  unfold getVolume
  rw [hc]
  simp only [hx, cinterp, if_true]
  exact interpX_inverse hI h2 _

/-- the full-strength statement HOLDS for the repaired lookup -/
theorem volcurve_euler_full_extrap : VolcurveEulerFull true := by
  intro pi t c prev head q dt hx _ hc hI hlo hhi hlt _ _ _
  exact volcurve_euler_exact_extrap pi t c hc hx hI (by linarith) prev head q dt

example : getVolume 3 { demoTank with extrap := true } (level demoTank (updateHead 3 { demoTank with extrap := true } (9/2) (9/2) (1/10) 3600))
    = 425 + 1/10 * 3600 := by decide +kernel

/-! ### the level trace -/

/-- one accepted step: the `dt`s of the tentative calls made before the step is fixed (full hydraulic step, rule
instants, …), the accepted `dt`, and the stored demand `q` they all use -/
structure Step where
  tentative : List Rat
  dt : Rat
  q : Rat

/-- heads after the calls of one step: every call recomputes `_head` from the same `_prev_head` -/
def stepHead (pi : Rat) (t : Tank) (prev : Rat) (s : Step) : Rat :=
  updateHead pi t prev (s.tentative.foldl (fun h d => updateHead pi t prev h s.q d) prev) s.q s.dt

/-- `update_network_previous_values`: `_prev_head := head` after each accepted step -/
def trace (pi : Rat) (t : Tank) (h0 : Rat) (steps : List Step) : Rat := steps.foldl (stepHead pi t) h0

def inflow (steps : List Step) : Rat := (steps.map fun s => s.q * s.dt).sum

theorem stepHead_eq (pi : Rat) (t : Tank) (prev : Rat) (s : Step) :
    stepHead pi t prev s = updateHead pi t prev prev s.q s.dt :=
  update_independent_of_head pi t prev _ prev s.q s.dt

/-- `first_level_is_init`: before any step the level is `init_level` -/
theorem first_level_is_init (pi : Rat) (t : Tank) (init : Rat) : level t (trace pi t (initHead t init) []) = init := by
  simp [trace, level, initHead]

/-- cylinder: along ANY sequence of accepted steps (partial ones included, any tentative calls in between) the level
change times the area is the integral of the reported net inflow -/
theorem level_trace_is_integral (pi : Rat) (t : Tank) (hc : t.curve = none) (hpi : 0 < pi) (hd : t.diam ≠ 0)
    (h0 : Rat) (steps : List Step) :
    area pi t * (trace pi t h0 steps - h0) = inflow steps := by
  induction steps generalizing h0 with
  | nil => simp [trace, inflow]
  | cons s rest ih =>
    have e := cylinder_euler_exact pi t hc hpi hd h0 h0 s.q s.dt
    have ih' := ih (stepHead pi t h0 s)
    simp only [trace, List.foldl_cons, inflow, List.map_cons, List.sum_cons] at *
    rw [stepHead_eq] at *
    linarith

example : area 3 ⟨0, 0, 5, 2, none, false⟩ * (trace 3 ⟨0, 0, 5, 2, none, false⟩ 1 [⟨[3600, 360], 250, 1/100⟩, ⟨[], 3350, -1/50⟩] - 1)
    = 1/100 * 250 + (-1/50 * 3350 + 0) :=
  level_trace_is_integral 3 _ rfl (by norm_num) (by norm_num) 1 _

/-- every accepted step keeps the tentative volume inside the curve -/
def InsideAll (pi : Rat) (t : Tank) (c : List (Rat × Rat)) : Rat → List Step → Prop
  | _, [] => True
  | h, s :: rest =>
    curveLoY c ≤ getVolume pi t (h - t.elev) + s.q * s.dt ∧ getVolume pi t (h - t.elev) + s.q * s.dt ≤ curveHiY c
      ∧ InsideAll pi t c (stepHead pi t h s) rest

/-- volume curve, under "every accepted step stays inside the curve": stored volume change = integral of net inflow -/
theorem volume_trace_is_integral_partial (pi : Rat) (t : Tank) (c : List (Rat × Rat)) (hc : t.curve = some c)
    (hx : t.extrap = false) (hI : IncrCurve c) (h0 : Rat) (steps : List Step) (hin : InsideAll pi t c h0 steps) :
    getVolume pi t (level t (trace pi t h0 steps)) - getVolume pi t (level t h0) = inflow steps := by
  induction steps generalizing h0 with
  | nil => simp [trace, inflow]
  | cons s rest ih =>
    obtain ⟨a, b, r⟩ := hin
    have e := volcurve_euler_exact pi t c hc hx hI h0 h0 s.q s.dt a b
    have ih' := ih (stepHead pi t h0 s) r
    simp only [trace, List.foldl_cons, inflow, List.map_cons, List.sum_cons] at *
    rw [stepHead_eq] at *
    simp only [level] at *
    linarith

/-- volume curve with the extrapolating lookup (the code since 53f21792): stored volume change = integral of the reported net
inflow along ANY sequence of accepted steps — the "inside the curve" hypothesis of `volume_trace_is_integral_partial` is gone -/
theorem volume_trace_is_integral (pi : Rat) (t : Tank) (c : List (Rat × Rat)) (hc : t.curve = some c)
    (hx : t.extrap = true) (hI : IncrCurve c) (h2 : curveLoX c < curveHiX c) (h0 : Rat) (steps : List Step) :
    getVolume pi t (level t (trace pi t h0 steps)) - getVolume pi t (level t h0) = inflow steps := by
  induction steps generalizing h0 with
  | nil => simp [trace, inflow]
  | cons s rest ih =>
    have e := volcurve_euler_exact_extrap pi t c hc hx hI h2 h0 h0 s.q s.dt
    have ih' := ih (stepHead pi t h0 s)
    simp only [trace, List.foldl_cons, inflow, List.map_cons, List.sum_cons] at *
    rw [stepHead_eq] at *
    simp only [level] at *
    linarith

/-! ### the level trace along the run -/

open Wntr.TankRun in
/-- along the whole run (M5c `TankRun.run`, arbitrary `solve`, partial steps, re-solves within a step, any number of
`update_tank_heads` calls): every saved row follows the previous one by ONE Euler step from the previous row's heads with the
previous row's reported demands over the elapsed time -/
theorem rows_chain_along_run (cfg : Cfg) (n : Nat) (links : Controls.Links) (heads lasts : List Rat) :
    Chain cfg (run cfg n (init links heads lasts)).rows :=
  (run_chain cfg n _ (by simp [init, Chain]) (by simp [init, Synced])).1

open Wntr.TankRun in
/-- `level_trace_is_integral` for consecutive reported rows of the run, cylinder tank `i`:
`A·(h₂ − h₁) = q₁·(t₂ − t₁)` with `q₁` the demand REPORTED at the earlier row -/
theorem level_trace_is_integral_run (cfg : Cfg) (r2 r1 : TankRun.Row) (hF : Follows cfg r2 r1) (i : Nat) (t : Tank)
    (ht : cfg.tanks[i]? = some t) (hc : t.curve = none) (hpi : 0 < cfg.pi) (hd : t.diam ≠ 0) (h1 q h2 : Rat)
    (e1 : r1.heads[i]? = some h1) (eq : r1.demand[i]? = some q) (e2 : r2.heads[i]? = some h2) :
    area cfg.pi t * (h2 - h1) = q * ((r2.time - r1.time : Int) : Rat) := by
  obtain ⟨hs, hF⟩ := hF
  rw [hF] at e2
  obtain ⟨t', p, h, q', a, b, _, d, e⟩ := updHeads_get_inv _ _ _ _ _ _ _ _ e2
  rw [ht] at a; rw [e1] at b; rw [eq] at d
  cases a; cases b; cases d
  rw [e]
  exact cylinder_euler_exact cfg.pi t hc hpi hd h1 h q _

open Wntr.TankRun in
/-- the same for a volume-curve tank while the step stays inside the curve -/
theorem volume_trace_is_integral_run_partial (cfg : Cfg) (r2 r1 : TankRun.Row) (hF : Follows cfg r2 r1) (i : Nat) (t : Tank)
    (c : List (Rat × Rat)) (ht : cfg.tanks[i]? = some t) (hc : t.curve = some c) (hx : t.extrap = false) (hI : IncrCurve c)
    (h1 q h2 : Rat)
    (e1 : r1.heads[i]? = some h1) (eq : r1.demand[i]? = some q) (e2 : r2.heads[i]? = some h2)
    (hin0 : curveLoY c ≤ getVolume cfg.pi t (h1 - t.elev) + q * ((r2.time - r1.time : Int) : Rat))
    (hin1 : getVolume cfg.pi t (h1 - t.elev) + q * ((r2.time - r1.time : Int) : Rat) ≤ curveHiY c) :
    getVolume cfg.pi t (level t h2) - getVolume cfg.pi t (level t h1) = q * ((r2.time - r1.time : Int) : Rat) := by
  obtain ⟨hs, hF⟩ := hF
  rw [hF] at e2
  obtain ⟨t', p, h, q', a, b, _, d, e⟩ := updHeads_get_inv _ _ _ _ _ _ _ _ e2
  rw [ht] at a; rw [e1] at b; rw [eq] at d
  cases a; cases b; cases d
  rw [e, volcurve_euler_exact cfg.pi t c hc hx hI h1 h q _ hin0 hin1]
  simp [level]

open Wntr.TankRun in
/-- consecutive reported rows of the run, volume-curve tank with the extrapolating lookup: full strength, no hypothesis on
where the step ends -/
theorem volume_trace_is_integral_run (cfg : Cfg) (r2 r1 : TankRun.Row) (hF : Follows cfg r2 r1) (i : Nat) (t : Tank)
    (c : List (Rat × Rat)) (ht : cfg.tanks[i]? = some t) (hc : t.curve = some c) (hx : t.extrap = true) (hI : IncrCurve c)
    (h2c : curveLoX c < curveHiX c) (h1 q h2 : Rat)
    (e1 : r1.heads[i]? = some h1) (eq : r1.demand[i]? = some q) (e2 : r2.heads[i]? = some h2) :
    getVolume cfg.pi t (level t h2) - getVolume cfg.pi t (level t h1) = q * ((r2.time - r1.time : Int) : Rat) := by
  obtain ⟨hs, hF⟩ := hF
  rw [hF] at e2
  obtain ⟨t', p, h, q', a, b, _, d, e⟩ := updHeads_get_inv _ _ _ _ _ _ _ _ e2
  rw [ht] at a; rw [e1] at b; rw [eq] at d
  cases a; cases b; cases d
  rw [e, volcurve_euler_exact_extrap cfg.pi t c hc hx hI h2c h1 h q _]
  simp [level]

/-! ### limits: the backtrack floor -/

/-- the level condition sees a crossing: it holds on the tentative head `cur` and did not hold on `_last_value` -/
def Crossing (t : Tank) (c : LevelCond) (cur last : Rat) : Prop :=
  (foldRel c.rel).holds (attrValue t cur c.attr) c.thr = true ∧ (foldRel c.rel).holds last c.thr = false

/-- what `TankLevelCondition.evaluate` leaves behind at a crossing of a cylindrical tank -/
theorem backtrack_cylinder (pi : Rat) (t : Tank) (hc : t.curve = none) (c : LevelCond) (cur q last : Rat) (hq : q ≠ 0)
    (hX : Crossing t c cur last) :
    evalLevel pi t c cur (some q) last =
      ⟨true, ((attrValue t cur c.attr - c.thr) * pi / 4 * (t.diam * t.diam) / q).floor, attrValue t cur c.attr, false⟩ := by
  obtain ⟨h1, h2⟩ := hX
  have hq' : (q == 0) = false := by simpa using hq
  simp [evalLevel, h1, h2, hc, hq']

/-- without a crossing there is no backtrack and `_last_value` becomes the current value -/
theorem no_crossing_no_backtrack (pi : Rat) (t : Tank) (c : LevelCond) (cur : Rat) (q : Option Rat) (last : Rat)
    (h : ¬ Crossing t c cur last) :
    (evalLevel pi t c cur q last).back = 0 ∧ (evalLevel pi t c cur q last).last = attrValue t cur c.attr
      ∧ (evalLevel pi t c cur q last).raised = false := by
  unfold Crossing at h
  unfold evalLevel
  by_cases h1 : (foldRel c.rel).holds (attrValue t cur c.attr) c.thr = true
  · have h2 : (foldRel c.rel).holds last c.thr = true := by
      by_contra hh; exact h ⟨h1, by simpa using hh⟩
    simp [h1, h2]
  · have h1' : (foldRel c.rel).holds (attrValue t cur c.attr) c.thr = false := by simpa using h1
    simp [h1']

theorem attrValue_shift (t : Tank) (a : Attr) (h d : Rat) : attrValue t (h + d) a = attrValue t h a + d := by
  cases a <;> simp [attrValue] <;> ring

/-- `limit_overshoot_bound`: cylinder, crossing at the tentative step `dt`; with the backtrack `b` the condition asks for,
the accepted head (step `dt − b`) is at or past the threshold in the direction of the flow by LESS than one second of flow:
`0 ≤ (value − θ)·A/q < 1`.  Holds for every level condition, in particular the internal min/max-head controls. -/
theorem limit_overshoot_bound (pi : Rat) (t : Tank) (hc : t.curve = none) (hpi : 0 < pi) (hd : t.diam ≠ 0)
    (c : LevelCond) (prev q dt last : Rat) (hq : q ≠ 0)
    (hX : Crossing t c (updateHead pi t prev prev q dt) last) :
    let b := (evalLevel pi t c (updateHead pi t prev prev q dt) (some q) last).back
    let acc := acceptedHead pi t prev q dt b
    0 ≤ (attrValue t acc c.attr - c.thr) * area pi t / q ∧ (attrValue t acc c.attr - c.thr) * area pi t / q < 1 := by
  intro b acc
  have hb : b = ((attrValue t (updateHead pi t prev prev q dt) c.attr - c.thr) * pi / 4 * (t.diam * t.diam) / q).floor := by
    show (evalLevel pi t c (updateHead pi t prev prev q dt) (some q) last).back = _
    rw [backtrack_cylinder pi t hc c _ q last hq hX]
  set x := (attrValue t (updateHead pi t prev prev q dt) c.attr - c.thr) * pi / 4 * (t.diam * t.diam) / q with hx
  have hpi' : pi ≠ 0 := ne_of_gt hpi
  have key : (attrValue t acc c.attr - c.thr) * area pi t / q = x - (b : Rat) := by
    have hacc : acc = updateHead pi t prev prev q dt + (-(4 * (q * (b : Rat)) / (pi * (t.diam * t.diam)))) := by
      show acceptedHead pi t prev q dt b = _
      unfold acceptedHead updateHead
      rw [hc]
      field_simp
      ring
    rw [hacc, attrValue_shift, hx]
    unfold area
    field_simp
    ring
  rw [key, hb]
  have f1 := Rat.floor_le x
  have f2 := Rat.lt_floor_add_one x
  have f3 : ((x.floor + 1 : Int) : Rat) = (x.floor : Rat) + 1 := by push_cast; ring
  rw [f3] at f2
  constructor <;> linarith

/-- filling (`q > 0`): the accepted value lies in `[θ, θ + q/A)` -/
theorem limit_overshoot_max (pi : Rat) (t : Tank) (hc : t.curve = none) (hpi : 0 < pi) (hd : t.diam ≠ 0)
    (c : LevelCond) (prev q dt last : Rat) (hq : 0 < q)
    (hX : Crossing t c (updateHead pi t prev prev q dt) last) :
    let acc := acceptedHead pi t prev q dt (evalLevel pi t c (updateHead pi t prev prev q dt) (some q) last).back
    c.thr ≤ attrValue t acc c.attr ∧ attrValue t acc c.attr < c.thr + q / area pi t := by
  intro acc
  obtain ⟨l, u⟩ := limit_overshoot_bound pi t hc hpi hd c prev q dt last (ne_of_gt hq) hX
  have hA : 0 < area pi t := by
    unfold area
    have : 0 < t.diam * t.diam := by
      rcases lt_or_gt_of_ne hd with h | h
      · exact mul_pos_of_neg_of_neg h h
      · exact mul_pos h h
    exact mul_pos (div_pos hpi (by norm_num)) this
  have hdiv : 0 < area pi t / q := div_pos hA hq
  have e : (attrValue t acc c.attr - c.thr) * area pi t / q = (attrValue t acc c.attr - c.thr) * (area pi t / q) := by ring
  rw [e] at l u
  constructor
  · by_contra hh
    have : attrValue t acc c.attr - c.thr < 0 := by linarith [not_le.mp hh]
    have := mul_neg_of_neg_of_pos this hdiv
    linarith
  · have h2 : attrValue t acc c.attr - c.thr < q / area pi t := by
      have := (lt_div_iff₀ hdiv).mpr (by simpa using u)
      rwa [one_div_div] at this
    linarith

/-- draining (`q < 0`): the accepted value lies in `(θ + q/A, θ]` -/
theorem limit_overshoot_min (pi : Rat) (t : Tank) (hc : t.curve = none) (hpi : 0 < pi) (hd : t.diam ≠ 0)
    (c : LevelCond) (prev q dt last : Rat) (hq : q < 0)
    (hX : Crossing t c (updateHead pi t prev prev q dt) last) :
    let acc := acceptedHead pi t prev q dt (evalLevel pi t c (updateHead pi t prev prev q dt) (some q) last).back
    attrValue t acc c.attr ≤ c.thr ∧ c.thr + q / area pi t < attrValue t acc c.attr := by
  intro acc
  obtain ⟨l, u⟩ := limit_overshoot_bound pi t hc hpi hd c prev q dt last (ne_of_lt hq) hX
  have hA : 0 < area pi t := by
    unfold area
    have : 0 < t.diam * t.diam := by
      rcases lt_or_gt_of_ne hd with h | h
      · exact mul_pos_of_neg_of_neg h h
      · exact mul_pos h h
    exact mul_pos (div_pos hpi (by norm_num)) this
  have hqn : q ≠ 0 := ne_of_lt hq
  have hAn : area pi t ≠ 0 := ne_of_gt hA
  have hdiv : area pi t / q < 0 := by
    rw [div_eq_mul_inv]
    exact mul_neg_of_pos_of_neg hA (inv_lt_zero.mpr hq)
  have e : (attrValue t acc c.attr - c.thr) * area pi t / q = (attrValue t acc c.attr - c.thr) * (area pi t / q) := by ring
  rw [e] at l u
  constructor
  · by_contra hh
    have : 0 < attrValue t acc c.attr - c.thr := by linarith [not_le.mp hh]
    have := mul_neg_of_pos_of_neg this hdiv
    linarith
  · by_contra hh
    have h3 : attrValue t acc c.attr - c.thr ≤ q / area pi t := by linarith [not_lt.mp hh]
    have h4 : (q / area pi t) * (area pi t / q) ≤ (attrValue t acc c.attr - c.thr) * (area pi t / q) :=
      mul_le_mul_of_nonpos_right h3 (le_of_lt hdiv)
    have h5 : (q / area pi t) * (area pi t / q) = 1 := by
      field_simp
    linarith

example : Crossing ⟨0, 0, 5, 2, none, false⟩ ⟨.level, .ge, 3⟩ (updateHead 3 ⟨0, 0, 5, 2, none, false⟩ 2 2 (1/100) 3600) 2 := by
  unfold Crossing; decide +kernel

/-- level of a threshold / value of the condition's attribute -/
def levelOf (t : Tank) (a : Attr) (v : Rat) : Rat :=
  match a with
  | .head => v - t.elev
  | _ => v

/-- the full-strength statement in volume terms, for cylinder AND volume-curve tanks as `add_tank` admits them: the step
a crossing level condition asks for leaves the stored volume at or past the threshold volume by less than one second of flow -/
def LimitBoundFull (mode : Bool) : Prop :=
  ∀ (pi : Rat) (t : Tank) (c : LevelCond) (prev q dt last : Rat),
    t.extrap = mode → 0 < pi → t.diam ≠ 0 → q ≠ 0 → 0 ≤ dt → c.attr ≠ .pressure →
    (∀ crv, t.curve = some crv → IncrCurve crv ∧ curveLoX crv ≤ t.minLevel ∧ t.maxLevel ≤ curveHiX crv) →
    t.minLevel < t.maxLevel → t.minLevel ≤ prev - t.elev → prev - t.elev ≤ t.maxLevel →
    t.minLevel ≤ levelOf t c.attr c.thr → levelOf t c.attr c.thr ≤ t.maxLevel →
    Crossing t c (updateHead pi t prev prev q dt) last →
    let b := (evalLevel pi t c (updateHead pi t prev prev q dt) (some q) last).back
    let acc := acceptedHead pi t prev q dt b
    0 ≤ (getVolume pi t (level t acc) - getVolume pi t (levelOf t c.attr c.thr)) / q
      ∧ (getVolume pi t (level t acc) - getVolume pi t (levelOf t c.attr c.thr)) / q < 1

/-- FALSE of the code: the max-head control of the demo tank (max_level 5.5) at level 4.5 with 0.1 m³/s inflow and a one-hour
step: the tentative level is clamped to 6 (500 m³), the backtrack is ⌊(500 − 475)/0.1⌋ = 250 s instead of 3100 s, the accepted
step of 3350 s again ends at level 6: 250 seconds of flow past the limit. -/
theorem limit_bound_counterexample : ¬ LimitBoundFull false := by
  intro h
  have := h 3 demoTank ⟨.head, .ge, 11/2⟩ (9/2) (1/10) 3600 (9/2) rfl (by norm_num) (by simp [demoTank]) (by norm_num) (by norm_num)
    (by simp)
    (by
      intro crv hcrv
      have : crv = demoCurve := by simpa [demoTank] using hcrv.symm
      subst this
      refine ⟨demoCurve_incr, ?_, ?_⟩
      · simp [curveLoX, demoCurve, demoTank]
      · simp [curveHiX, lastX, demoCurve, demoTank]; norm_num)
    (by simp [demoTank]; norm_num) (by simp [demoTank]; norm_num) (by simp [demoTank]; norm_num)
    (by simp [demoTank, levelOf]; norm_num) (by simp [demoTank, levelOf])
    (by unfold Crossing; decide +kernel)
  revert this
  decide +kernel

/-- core of the volume-curve bound, given that the tentative and the accepted step conserve volume (either mode) -/
theorem limit_bound_curve_core (pi : Rat) (t : Tank) (crv : List (Rat × Rat)) (hc : t.curve = some crv)
    (c : LevelCond) (hattr : c.attr ≠ .pressure) (prev q dt last : Rat) (hq : q ≠ 0)
    (hX : Crossing t c (updateHead pi t prev prev q dt) last)
    (hvt : getVolume pi t (level t (updateHead pi t prev prev q dt)) = getVolume pi t (prev - t.elev) + q * dt)
    (hva : ∀ b : Int, b = (evalLevel pi t c (updateHead pi t prev prev q dt) (some q) last).back →
      getVolume pi t (level t (updateHead pi t prev prev q (dt - (b : Rat)))) = getVolume pi t (prev - t.elev) + q * (dt - (b : Rat))) :
    let b := (evalLevel pi t c (updateHead pi t prev prev q dt) (some q) last).back
    let acc := acceptedHead pi t prev q dt b
    0 ≤ (getVolume pi t (level t acc) - getVolume pi t (levelOf t c.attr c.thr)) / q
      ∧ (getVolume pi t (level t acc) - getVolume pi t (levelOf t c.attr c.thr)) / q < 1 := by
  intro b acc
  obtain ⟨h1, h2⟩ := hX
  have hq' : (q == 0) = false := by simpa using hq
  have hva := hva b rfl
  have hb : b = ((getVolume pi t (level t (updateHead pi t prev prev q dt)) - getVolume pi t (levelOf t c.attr c.thr)) / q).floor := by
    show (evalLevel pi t c (updateHead pi t prev prev q dt) (some q) last).back = _
    cases ha : c.attr with
    | pressure => exact absurd ha hattr
    | head =>
      have h1' : (foldRel c.rel).holds (updateHead pi t prev prev q dt) c.thr = true := by simpa [ha, attrValue] using h1
      simp [evalLevel, h1', h2, hc, hq', ha, getVolume, levelOf, level, attrValue]
    | level =>
      have h1' : (foldRel c.rel).holds (updateHead pi t prev prev q dt - t.elev) c.thr = true := by simpa [ha, attrValue] using h1
      simp [evalLevel, h1', h2, hc, hq', ha, getVolume, levelOf, level, attrValue]
  set x := (getVolume pi t (level t (updateHead pi t prev prev q dt)) - getVolume pi t (levelOf t c.attr c.thr)) / q with hx
  have key : (getVolume pi t (level t acc) - getVolume pi t (levelOf t c.attr c.thr)) / q = x - (b : Rat) := by
    show (getVolume pi t (level t (acceptedHead pi t prev q dt b)) - _) / q = _
    unfold acceptedHead
    rw [hva, hx, hvt]
    field_simp
    ring
  rw [key, hb]
  have f1 := Rat.floor_le x
  have f2 := Rat.lt_floor_add_one x
  have f3 : ((x.floor + 1 : Int) : Rat) = (x.floor : Rat) + 1 := by push_cast; ring
  rw [f3] at f2
  constructor <;> linarith

/-- volume curve with the clamping lookup, under "tentative and accepted volumes inside the curve" -/
theorem limit_overshoot_bound_curve_partial (pi : Rat) (t : Tank) (crv : List (Rat × Rat)) (hc : t.curve = some crv)
    (hx : t.extrap = false) (hI : IncrCurve crv) (c : LevelCond) (hattr : c.attr ≠ .pressure) (prev q dt last : Rat) (hq : q ≠ 0)
    (hX : Crossing t c (updateHead pi t prev prev q dt) last)
    (ht0 : curveLoY crv ≤ getVolume pi t (prev - t.elev) + q * dt)
    (ht1 : getVolume pi t (prev - t.elev) + q * dt ≤ curveHiY crv)
    (hacc : let b := (evalLevel pi t c (updateHead pi t prev prev q dt) (some q) last).back
            curveLoY crv ≤ getVolume pi t (prev - t.elev) + q * (dt - (b : Rat))
              ∧ getVolume pi t (prev - t.elev) + q * (dt - (b : Rat)) ≤ curveHiY crv) :
    let b := (evalLevel pi t c (updateHead pi t prev prev q dt) (some q) last).back
    let acc := acceptedHead pi t prev q dt b
    0 ≤ (getVolume pi t (level t acc) - getVolume pi t (levelOf t c.attr c.thr)) / q
      ∧ (getVolume pi t (level t acc) - getVolume pi t (levelOf t c.attr c.thr)) / q < 1 :=
  limit_bound_curve_core pi t crv hc c hattr prev q dt last hq hX
    (volcurve_euler_exact pi t crv hc hx hI prev prev q dt ht0 ht1)
    (fun b hb => by subst hb; exact volcurve_euler_exact pi t crv hc hx hI prev prev q _ hacc.1 hacc.2)

/-- volume curve with the repaired (extrapolating) lookup: the bound holds without any "inside the curve" hypothesis -/
theorem limit_overshoot_bound_curve_extrap (pi : Rat) (t : Tank) (crv : List (Rat × Rat)) (hc : t.curve = some crv)
    (hx : t.extrap = true) (hI : IncrCurve crv) (h2 : curveLoX crv < curveHiX crv) (c : LevelCond) (hattr : c.attr ≠ .pressure)
    (prev q dt last : Rat) (hq : q ≠ 0) (hX : Crossing t c (updateHead pi t prev prev q dt) last) :
    let b := (evalLevel pi t c (updateHead pi t prev prev q dt) (some q) last).back
    let acc := acceptedHead pi t prev q dt b
    0 ≤ (getVolume pi t (level t acc) - getVolume pi t (levelOf t c.attr c.thr)) / q
      ∧ (getVolume pi t (level t acc) - getVolume pi t (levelOf t c.attr c.thr)) / q < 1 :=
  limit_bound_curve_core pi t crv hc c hattr prev q dt last hq hX
    (volcurve_euler_exact_extrap pi t crv hc hx hI h2 prev prev q dt)
    (fun b _ => volcurve_euler_exact_extrap pi t crv hc hx hI h2 prev prev q _)

/-- the full-strength limit statement HOLDS for the repaired lookup (cylinder and volume-curve tanks alike) -/
theorem limit_bound_full_extrap : LimitBoundFull true := by
  intro pi t c prev q dt last hx hpi hd hq _ hattr hwf hlt _ _ _ _ hX
  cases hc : t.curve with
  | none =>
    have hb := limit_overshoot_bound pi t hc hpi hd c prev q dt last hq hX
    simp only at hb ⊢
    have e : ∀ acc : Rat, (getVolume pi t (level t acc) - getVolume pi t (levelOf t c.attr c.thr)) / q
        = (attrValue t acc c.attr - c.thr) * area pi t / q := by
      intro acc
      cases ha : c.attr with
      | pressure => exact absurd ha hattr
      | head => simp [getVolume, hc, level, levelOf, attrValue]; ring
      | level => simp [getVolume, hc, level, levelOf, attrValue]; ring
    rw [e]
    exact hb
  | some crv =>
    obtain ⟨hI, hlo, hhi⟩ := hwf crv hc
    exact limit_overshoot_bound_curve_extrap pi t crv hc hx hI (by linarith) c hattr prev q dt last hq hX

/-! ### limits along the run -/

open Wntr.Controls in
/-- the presolve pass (not the first step) accepts a time no later than `t − d.back` for a due closing control `d` of a link
whose closing the tracker sees (`Closes`: an open tracked pipe or pump — `closes_of_open_nonvalve`) -/
theorem presolve_time_le (tracked : List (Nat × Watch)) (due : List Due) (ls : Links) (t : Int) (d : Due) (hd : d ∈ due)
    (hf : d.ctl.act.field = .internal) (hv : d.ctl.act.value = 0) (hlt : d.ctl.act.link < ls.length)
    (hcl : Closes tracked ls d.ctl.act.link)
    (hint : ∀ e ∈ due, e.ctl.hits d.ctl.act.link .internal → e.ctl.act.value = 0) :
    (presolve tracked false due ls t).2 ≤ t - d.back := by
  unfold presolve
  simp only [Bool.false_eq_true, if_false]
  have hperm : ∀ x, x ∈ sortDue due ↔ x ∈ due := fun x => by
    unfold sortDue
    rw [(sortBy_perm _ _).mem_iff, (sortBy_perm _ _).mem_iff]
  have hsorted : (sortDue due).Pairwise (fun a b => b.back ≤ a.back) :=
    (sortBy_sorted (fun d : Due => - d.back) _).imp (fun h => by omega)
  exact presolveLoop_time_le tracked ls _ hcl _ _ ls t d (le_refl _) hsorted ((hperm d).mpr hd) rfl hf hv hlt rfl
    (fun e he => hint e ((hperm e).mp he))

/-- draining cylinder (`q < 0`): any accepted step cut by AT LEAST the backtrack `⌊(value − θ)·A/q⌋` leaves the value above
`θ + q/A` — less than one second of flow below the threshold -/
theorem limit_one_sided_min (pi : Rat) (t : Tank) (hc : t.curve = none) (hpi : 0 < pi) (hd : t.diam ≠ 0) (a : Attr)
    (thr prev q dt : Rat) (hq : q < 0) (B : Int)
    (hB : ((attrValue t (updateHead pi t prev prev q dt) a - thr) * pi / 4 * (t.diam * t.diam) / q).floor ≤ B) :
    thr + q / area pi t < attrValue t (acceptedHead pi t prev q dt B) a := by
  set x := (attrValue t (updateHead pi t prev prev q dt) a - thr) * pi / 4 * (t.diam * t.diam) / q with hx
  have hpi' : pi ≠ 0 := ne_of_gt hpi
  have hqn : q ≠ 0 := ne_of_lt hq
  have hA : 0 < area pi t := by
    unfold area
    have : 0 < t.diam * t.diam := by
      rcases lt_or_gt_of_ne hd with h | h
      · exact mul_pos_of_neg_of_neg h h
      · exact mul_pos h h
    exact mul_pos (div_pos hpi (by norm_num)) this
  have key : (attrValue t (acceptedHead pi t prev q dt B) a - thr) * area pi t / q = x - (B : Rat) := by
    have hacc : acceptedHead pi t prev q dt B
        = updateHead pi t prev prev q dt + (-(4 * (q * (B : Rat)) / (pi * (t.diam * t.diam)))) := by
      unfold acceptedHead updateHead
      rw [hc]
      field_simp
      ring
    rw [hacc, attrValue_shift, hx]
    unfold area
    field_simp
    ring
  have f2 := Rat.lt_floor_add_one x
  have f3 : ((x.floor + 1 : Int) : Rat) = (x.floor : Rat) + 1 := by push_cast; ring
  rw [f3] at f2
  have hBr : (x.floor : Rat) ≤ (B : Rat) := by exact_mod_cast hB
  have hlt1 : (attrValue t (acceptedHead pi t prev q dt B) a - thr) * area pi t / q < 1 := by rw [key]; linarith
  -- multiply by q/A < 0
  have hAn : area pi t ≠ 0 := ne_of_gt hA
  by_contra hh
  have h3 : attrValue t (acceptedHead pi t prev q dt B) a - thr ≤ q / area pi t := by linarith [not_lt.mp hh]
  have hdiv : area pi t / q < 0 := by
    rw [div_eq_mul_inv]; exact mul_neg_of_pos_of_neg hA (inv_lt_zero.mpr hq)
  have h4 : (q / area pi t) * (area pi t / q) ≤ (attrValue t (acceptedHead pi t prev q dt B) a - thr) * (area pi t / q) :=
    mul_le_mul_of_nonpos_right h3 (le_of_lt hdiv)
  have h5 : (q / area pi t) * (area pi t / q) = 1 := by field_simp
  have e : (attrValue t (acceptedHead pi t prev q dt B) a - thr) * area pi t / q
      = (attrValue t (acceptedHead pi t prev q dt B) a - thr) * (area pi t / q) := by ring
  rw [e] at hlt1
  linarith

/-- filling cylinder (`q > 0`): any accepted step cut by at least the backtrack leaves the value below `θ + q/A` -/
theorem limit_one_sided_max (pi : Rat) (t : Tank) (hc : t.curve = none) (hpi : 0 < pi) (hd : t.diam ≠ 0) (a : Attr)
    (thr prev q dt : Rat) (hq : 0 < q) (B : Int)
    (hB : ((attrValue t (updateHead pi t prev prev q dt) a - thr) * pi / 4 * (t.diam * t.diam) / q).floor ≤ B) :
    attrValue t (acceptedHead pi t prev q dt B) a < thr + q / area pi t := by
  set x := (attrValue t (updateHead pi t prev prev q dt) a - thr) * pi / 4 * (t.diam * t.diam) / q with hx
  have hpi' : pi ≠ 0 := ne_of_gt hpi
  have hqn : q ≠ 0 := ne_of_gt hq
  have hA : 0 < area pi t := by
    unfold area
    have : 0 < t.diam * t.diam := by
      rcases lt_or_gt_of_ne hd with h | h
      · exact mul_pos_of_neg_of_neg h h
      · exact mul_pos h h
    exact mul_pos (div_pos hpi (by norm_num)) this
  have key : (attrValue t (acceptedHead pi t prev q dt B) a - thr) * area pi t / q = x - (B : Rat) := by
    have hacc : acceptedHead pi t prev q dt B
        = updateHead pi t prev prev q dt + (-(4 * (q * (B : Rat)) / (pi * (t.diam * t.diam)))) := by
      unfold acceptedHead updateHead
      rw [hc]
      field_simp
      ring
    rw [hacc, attrValue_shift, hx]
    unfold area
    field_simp
    ring
  have f2 := Rat.lt_floor_add_one x
  have f3 : ((x.floor + 1 : Int) : Rat) = (x.floor : Rat) + 1 := by push_cast; ring
  rw [f3] at f2
  have hBr : (x.floor : Rat) ≤ (B : Rat) := by exact_mod_cast hB
  have hlt1 : (attrValue t (acceptedHead pi t prev q dt B) a - thr) * area pi t / q < 1 := by rw [key]; linarith
  have hAn : area pi t ≠ 0 := ne_of_gt hA
  have hdiv : 0 < area pi t / q := div_pos hA hq
  have e : (attrValue t (acceptedHead pi t prev q dt B) a - thr) * area pi t / q
      = (attrValue t (acceptedHead pi t prev q dt B) a - thr) * (area pi t / q) := by ring
  rw [e] at hlt1
  by_contra hh
  have h3 : q / area pi t ≤ attrValue t (acceptedHead pi t prev q dt B) a - thr := by linarith [not_lt.mp hh]
  have h4 : (q / area pi t) * (area pi t / q) ≤ (attrValue t (acceptedHead pi t prev q dt B) a - thr) * (area pi t / q) :=
    mul_le_mul_of_nonneg_right h3 (le_of_lt hdiv)
  have h5 : (q / area pi t) * (area pi t / q) = 1 := by field_simp
  linarith

open Wntr.TankRun Wntr.Controls in
/-- `step_limit_min` — Hcut DERIVED for one step of `TankRun.step` (not the first step): cylindrical tank `i` draining
(`q < 0`) and not at its minimum at the previous accepted step; its min-level close control `ctls[j]` (presolve, condition
`head ≤ min_level + elevation`, action `_internal_status(link k) := Closed`) has `_last_value` = the previous accepted head; link `k`
is one whose closing the tracker sees (`closes_of_open_nonvalve`: an open tracked pipe/pump); every presolve writer of that
`_internal_status` closes; the due backtracks are non-negative.  Then the head saved by this step is above
`min_head + q/A` — less than one second of flow below the minimum. -/
theorem step_limit_min (cfg : Cfg) (s : St) (r : TankRun.Row) (hrow : (step cfg s).rows = r :: s.rows)
    (hfirst : s.first = false) (hnr : cfg.rules = []) (i j k : Nat) (t : Tank) (rc : TankRun.RCtl)
    (ht : cfg.tanks[i]? = some t) (hcyl : t.curve = none) (hpi : 0 < cfg.pi) (hd : t.diam ≠ 0)
    (hrc : cfg.ctls[j]? = some rc) (hpre : rc.pre = true)
    (hcond : rc.cond = TankRun.Cond.level i ⟨.head, .le, t.minLevel + t.elev⟩) (hact : rc.ctl.act = ⟨k, .internal, 0⟩)
    (p hcur q : Rat) (dem : List Rat) (hp : s.prevHeads[i]? = some p) (hh : s.heads[i]? = some hcur)
    (hdem : s.demand = some dem) (hq : dem[i]? = some q) (hneg : q < 0)
    (hlast : s.lasts.getD j 0 = p) (hnot : Rel.le.holds p (t.minLevel + t.elev) = false)
    (hcl : Closes cfg.tracked s.links k) (hk : k < s.links.length)
    (hint : ∀ rc' : TankRun.RCtl, rc' ∈ cfg.ctls → rc'.pre = true → rc'.ctl.hits k .internal → rc'.ctl.act.value = 0)
    (hback : ∀ d ∈ (preCheck cfg s).1, 0 ≤ d.back) :
    ∃ h2, r.heads[i]? = some h2 ∧ t.minLevel + t.elev + q / area cfg.pi t < h2 := by
  -- the row of this step
  have hr : r.time = (preResult cfg s).2 ∧ r.heads = acceptedHeads cfg s := by
    rcases step_rows cfg s with e | ⟨r', e, _, h1, h2, _⟩
    · rw [e] at hrow; simp at hrow
    · rw [e] at hrow
      have : r' = r := by simpa using hrow
      subst this; exact ⟨h1, h2⟩
  set θ := t.minLevel + t.elev with hθ
  set dt0 : Rat := ((s.simTime - s.prevTime : Int) : Rat) with hdt0
  -- tentative and accepted head of tank i
  have htent : (tentativeHeads cfg s)[i]? = some (updateHead cfg.pi t p p q dt0) := by
    unfold tentativeHeads
    simp only [hfirst, Bool.false_eq_true, if_false, hdem, Option.getD_some]
    obtain ⟨h, e1, e2⟩ := updHeads_get cfg.pi cfg.tanks s.prevHeads s.heads dem dt0 i t p q ht hp hq
      (by have := List.getElem?_eq_some_iff.mp hh; exact this.1)
    rw [e2, update_independent_of_head cfg.pi t p h p q dt0]
  set t1 := (preResult cfg s).2 with ht1
  have hacc : (acceptedHeads cfg s)[i]? = some (updateHead cfg.pi t p p q (((t1 - s.prevTime : Int)) : Rat)) := by
    unfold acceptedHeads
    simp only [hfirst, Bool.false_eq_true, if_false, hdem, Option.getD_some]
    obtain ⟨h, e1, e2⟩ := updHeads_get cfg.pi cfg.tanks s.prevHeads (tentativeHeads cfg s) dem (((t1 - s.prevTime : Int)) : Rat) i t p q ht hp hq
      (by have := List.getElem?_eq_some_iff.mp htent; exact this.1)
    rw [e2, update_independent_of_head cfg.pi t p h p q _]
  refine ⟨_, by rw [hr.2]; exact hacc, ?_⟩
  set B : Int := s.simTime - t1 with hB
  have hdt1 : (((t1 - s.prevTime : Int)) : Rat) = dt0 - (B : Rat) := by rw [hdt0, hB]; push_cast; ring
  have hpre_eq : preResult cfg s = presolve cfg.tracked false (preCheck cfg s).1 s.links s.simTime := by
    unfold preResult preResultR; simp [hnr, hfirst]
  set hT := updateHead cfg.pi t p p q dt0 with hhT
  have hA : 0 < area cfg.pi t := by
    unfold area
    have : 0 < t.diam * t.diam := by
      rcases lt_or_gt_of_ne hd with h | h
      · exact mul_pos_of_neg_of_neg h h
      · exact mul_pos h h
    exact mul_pos (div_pos hpi (by norm_num)) this
  by_cases hhold : Rel.le.holds hT θ = true
  · -- crossing: the close control is due with the backtrack of the crossing
    have hX : Crossing t ⟨.head, .le, θ⟩ hT p := ⟨by simpa [foldRel, attrValue] using hhold, by simpa [foldRel] using hnot⟩
    have hev := backtrack_cylinder cfg.pi t hcyl ⟨.head, .le, θ⟩ hT q p (ne_of_lt hneg) hX
    have hcs := (check_spec cfg (·.pre) (tentativeHeads cfg s) s.demand none s.prevTime s.simTime cfg.ctls s.lasts j rc hrc hpre).2
    rw [hlast, hcond] at hcs
    simp only [evalCond, ht, htent, hdem, demandOf, Option.bind_some, hq] at hcs
    rw [hev] at hcs
    have hdue := hcs rfl
    have hle := presolve_time_le cfg.tracked (preCheck cfg s).1 s.links s.simTime
      (⟨rc.ctl, ((attrValue t hT .head - θ) * cfg.pi / 4 * (t.diam * t.diam) / q).floor⟩ : Due) (by unfold preCheck; rw [hdem]; exact hdue)
      (by show rc.ctl.act.field = _; rw [hact]) (by show rc.ctl.act.value = _; rw [hact])
      (by show rc.ctl.act.link < _; rw [hact]; exact hk) (by show Closes _ _ rc.ctl.act.link; rw [hact]; exact hcl)
      (by
        intro e he hh'
        obtain ⟨rc', hr', hp', he'⟩ := check_due_src cfg (·.pre) _ _ _ _ _ cfg.ctls s.lasts e he
        have hl : rc.ctl.act.link = k := by rw [hact]
        change e.ctl.hits rc.ctl.act.link .internal at hh'
        rw [hl, he'] at hh'
        rw [he']
        exact hint rc' hr' hp' hh')
    rw [← hpre_eq] at hle
    simp only [attrValue] at hle
    have hBge : ((attrValue t (updateHead cfg.pi t p p q dt0) .head - θ) * cfg.pi / 4 * (t.diam * t.diam) / q).floor ≤ B := by
      simp only [attrValue] at hle ⊢; rw [hB, ← hhT]; omega
    have := limit_one_sided_min cfg.pi t hcyl hpi hd .head θ p q dt0 hneg B hBge
    simp only [attrValue, acceptedHead] at this
    rw [hdt1]; exact this
  · -- no crossing: the tentative head is above the minimum and the accepted step is not longer than the tentative one
    have hgt : θ < hT := not_holds_le (by simpa using hhold)
    have hB0 : 0 ≤ B := by
      have := presolve_time_le_t cfg.tracked s.first (preCheck cfg s).1 s.links s.simTime hback
      rw [hB, ht1]; unfold preResult preResultR; simp only [hnr, List.isEmpty_nil, if_true]; omega
    have hBr : (0 : Rat) ≤ (B : Rat) := by exact_mod_cast hB0
    have hmono : hT ≤ updateHead cfg.pi t p p q (dt0 - (B : Rat)) := by
      rw [hhT]
      unfold updateHead
      rw [hcyl]
      have hpos : 0 < cfg.pi * (t.diam * t.diam) := by
        have : 0 < t.diam * t.diam := by
          rcases lt_or_gt_of_ne hd with h | h
          · exact mul_pos_of_neg_of_neg h h
          · exact mul_pos h h
        exact mul_pos hpi this
      have : 4 * (q * dt0) / (cfg.pi * (t.diam * t.diam)) ≤ 4 * (q * (dt0 - (B : Rat))) / (cfg.pi * (t.diam * t.diam)) := by
        apply div_le_div_of_nonneg_right _ (le_of_lt hpos)
        nlinarith
      linarith
    have hqa : q / area cfg.pi t < 0 := by
      rw [div_eq_mul_inv]; exact mul_neg_of_neg_of_pos hneg (inv_pos.mpr hA)
    rw [hdt1]
    linarith

open Wntr.TankRun Wntr.Controls in
/-- `step_limit_max` — Hcut DERIVED for one step of `TankRun.step` (not the first step): cylindrical tank `i` filling
(`0 < q`) and not at its maximum at the previous accepted step; its max-level close control `ctls[j]` (presolve, condition
`head ≥ max_level + elevation`, action `_internal_status(link k) := Closed`) has `_last_value` = the previous accepted head; link `k`
is one whose closing the tracker sees (`closes_of_open_nonvalve`: an open tracked pipe/pump); every presolve writer of that
`_internal_status` closes; the due backtracks are non-negative.  Then the head saved by this step is below
`max_head + q/A` — less than one second of flow above the maximum. -/
theorem step_limit_max (cfg : Cfg) (s : St) (r : TankRun.Row) (hrow : (step cfg s).rows = r :: s.rows)
    (hfirst : s.first = false) (hnr : cfg.rules = []) (i j k : Nat) (t : Tank) (rc : TankRun.RCtl)
    (ht : cfg.tanks[i]? = some t) (hcyl : t.curve = none) (hpi : 0 < cfg.pi) (hd : t.diam ≠ 0)
    (hrc : cfg.ctls[j]? = some rc) (hpre : rc.pre = true)
    (hcond : rc.cond = TankRun.Cond.level i ⟨.head, .ge, t.maxLevel + t.elev⟩) (hact : rc.ctl.act = ⟨k, .internal, 0⟩)
    (p hcur q : Rat) (dem : List Rat) (hp : s.prevHeads[i]? = some p) (hh : s.heads[i]? = some hcur)
    (hdem : s.demand = some dem) (hq : dem[i]? = some q) (hneg : 0 < q)
    (hlast : s.lasts.getD j 0 = p) (hnot : Rel.ge.holds p (t.maxLevel + t.elev) = false)
    (hcl : Closes cfg.tracked s.links k) (hk : k < s.links.length)
    (hint : ∀ rc' : TankRun.RCtl, rc' ∈ cfg.ctls → rc'.pre = true → rc'.ctl.hits k .internal → rc'.ctl.act.value = 0)
    (hback : ∀ d ∈ (preCheck cfg s).1, 0 ≤ d.back) :
    ∃ h2, r.heads[i]? = some h2 ∧ h2 < t.maxLevel + t.elev + q / area cfg.pi t := by
  -- the row of this step
  have hr : r.time = (preResult cfg s).2 ∧ r.heads = acceptedHeads cfg s := by
    rcases step_rows cfg s with e | ⟨r', e, _, h1, h2, _⟩
    · rw [e] at hrow; simp at hrow
    · rw [e] at hrow
      have : r' = r := by simpa using hrow
      subst this; exact ⟨h1, h2⟩
  set θ := t.maxLevel + t.elev with hθ
  set dt0 : Rat := ((s.simTime - s.prevTime : Int) : Rat) with hdt0
  -- tentative and accepted head of tank i
  have htent : (tentativeHeads cfg s)[i]? = some (updateHead cfg.pi t p p q dt0) := by
    unfold tentativeHeads
    simp only [hfirst, Bool.false_eq_true, if_false, hdem, Option.getD_some]
    obtain ⟨h, e1, e2⟩ := updHeads_get cfg.pi cfg.tanks s.prevHeads s.heads dem dt0 i t p q ht hp hq
      (by have := List.getElem?_eq_some_iff.mp hh; exact this.1)
    rw [e2, update_independent_of_head cfg.pi t p h p q dt0]
  set t1 := (preResult cfg s).2 with ht1
  have hacc : (acceptedHeads cfg s)[i]? = some (updateHead cfg.pi t p p q (((t1 - s.prevTime : Int)) : Rat)) := by
    unfold acceptedHeads
    simp only [hfirst, Bool.false_eq_true, if_false, hdem, Option.getD_some]
    obtain ⟨h, e1, e2⟩ := updHeads_get cfg.pi cfg.tanks s.prevHeads (tentativeHeads cfg s) dem (((t1 - s.prevTime : Int)) : Rat) i t p q ht hp hq
      (by have := List.getElem?_eq_some_iff.mp htent; exact this.1)
    rw [e2, update_independent_of_head cfg.pi t p h p q _]
  refine ⟨_, by rw [hr.2]; exact hacc, ?_⟩
  set B : Int := s.simTime - t1 with hB
  have hdt1 : (((t1 - s.prevTime : Int)) : Rat) = dt0 - (B : Rat) := by rw [hdt0, hB]; push_cast; ring
  have hpre_eq : preResult cfg s = presolve cfg.tracked false (preCheck cfg s).1 s.links s.simTime := by
    unfold preResult preResultR; simp [hnr, hfirst]
  set hT := updateHead cfg.pi t p p q dt0 with hhT
  have hA : 0 < area cfg.pi t := by
    unfold area
    have : 0 < t.diam * t.diam := by
      rcases lt_or_gt_of_ne hd with h | h
      · exact mul_pos_of_neg_of_neg h h
      · exact mul_pos h h
    exact mul_pos (div_pos hpi (by norm_num)) this
  by_cases hhold : Rel.ge.holds hT θ = true
  · -- crossing: the close control is due with the backtrack of the crossing
    have hX : Crossing t ⟨.head, .ge, θ⟩ hT p := ⟨by simpa [foldRel, attrValue] using hhold, by simpa [foldRel] using hnot⟩
    have hev := backtrack_cylinder cfg.pi t hcyl ⟨.head, .ge, θ⟩ hT q p (ne_of_gt hneg) hX
    have hcs := (check_spec cfg (·.pre) (tentativeHeads cfg s) s.demand none s.prevTime s.simTime cfg.ctls s.lasts j rc hrc hpre).2
    rw [hlast, hcond] at hcs
    simp only [evalCond, ht, htent, hdem, demandOf, Option.bind_some, hq] at hcs
    rw [hev] at hcs
    have hdue := hcs rfl
    have hle := presolve_time_le cfg.tracked (preCheck cfg s).1 s.links s.simTime
      (⟨rc.ctl, ((attrValue t hT .head - θ) * cfg.pi / 4 * (t.diam * t.diam) / q).floor⟩ : Due) (by unfold preCheck; rw [hdem]; exact hdue)
      (by show rc.ctl.act.field = _; rw [hact]) (by show rc.ctl.act.value = _; rw [hact])
      (by show rc.ctl.act.link < _; rw [hact]; exact hk) (by show Closes _ _ rc.ctl.act.link; rw [hact]; exact hcl)
      (by
        intro e he hh'
        obtain ⟨rc', hr', hp', he'⟩ := check_due_src cfg (·.pre) _ _ _ _ _ cfg.ctls s.lasts e he
        have hl : rc.ctl.act.link = k := by rw [hact]
        change e.ctl.hits rc.ctl.act.link .internal at hh'
        rw [hl, he'] at hh'
        rw [he']
        exact hint rc' hr' hp' hh')
    rw [← hpre_eq] at hle
    simp only [attrValue] at hle
    have hBge : ((attrValue t (updateHead cfg.pi t p p q dt0) .head - θ) * cfg.pi / 4 * (t.diam * t.diam) / q).floor ≤ B := by
      simp only [attrValue] at hle ⊢; rw [hB, ← hhT]; omega
    have := limit_one_sided_max cfg.pi t hcyl hpi hd .head θ p q dt0 hneg B hBge
    simp only [attrValue, acceptedHead] at this
    rw [hdt1]; exact this
  · -- no crossing: the tentative head is above the minimum and the accepted step is not longer than the tentative one
    have hgt : hT < θ := not_holds_ge (by simpa using hhold)
    have hB0 : 0 ≤ B := by
      have := presolve_time_le_t cfg.tracked s.first (preCheck cfg s).1 s.links s.simTime hback
      rw [hB, ht1]; unfold preResult preResultR; simp only [hnr, List.isEmpty_nil, if_true]; omega
    have hBr : (0 : Rat) ≤ (B : Rat) := by exact_mod_cast hB0
    have hmono : updateHead cfg.pi t p p q (dt0 - (B : Rat)) ≤ hT := by
      rw [hhT]
      unfold updateHead
      rw [hcyl]
      have hpos : 0 < cfg.pi * (t.diam * t.diam) := by
        have : 0 < t.diam * t.diam := by
          rcases lt_or_gt_of_ne hd with h | h
          · exact mul_pos_of_neg_of_neg h h
          · exact mul_pos h h
        exact mul_pos hpi this
      have : 4 * (q * (dt0 - (B : Rat))) / (cfg.pi * (t.diam * t.diam)) ≤ 4 * (q * dt0) / (cfg.pi * (t.diam * t.diam)) := by
        apply div_le_div_of_nonneg_right _ (le_of_lt hpos)
        nlinarith
      linarith
    have hqa : 0 < q / area cfg.pi t := div_pos hneg hA
    rw [hdt1]
    linarith

open Wntr.TankRun Wntr.Controls in
/-- the head of cylindrical tank `i` saved by a step that is not the first one -/
theorem step_head (cfg : Cfg) (s : St) (r : TankRun.Row) (hrow : (step cfg s).rows = r :: s.rows) (hfirst : s.first = false)
    (i : Nat) (t : Tank) (ht : cfg.tanks[i]? = some t) (p hcur q : Rat) (dem : List Rat) (hp : s.prevHeads[i]? = some p)
    (hh : s.heads[i]? = some hcur) (hdem : s.demand = some dem) (hq : dem[i]? = some q) :
    r.heads[i]? = some (updateHead cfg.pi t p p q ((((preResult cfg s).2 - s.prevTime : Int)) : Rat)) := by
  have hr : r.heads = acceptedHeads cfg s := by
    rcases step_rows cfg s with e | ⟨r', e, _, _, h2, _⟩
    · rw [e] at hrow; simp at hrow
    · rw [e] at hrow
      have : r' = r := by simpa using hrow
      subst this; exact h2
  have htent : ∃ h, (tentativeHeads cfg s)[i]? = some h := by
    unfold tentativeHeads
    simp only [hfirst, Bool.false_eq_true, if_false, hdem, Option.getD_some]
    obtain ⟨h, _, e2⟩ := updHeads_get cfg.pi cfg.tanks s.prevHeads s.heads dem _ i t p q ht hp hq
      (by have := List.getElem?_eq_some_iff.mp hh; exact this.1)
    exact ⟨_, e2⟩
  obtain ⟨hT, htent⟩ := htent
  rw [hr]
  unfold acceptedHeads
  simp only [hfirst, Bool.false_eq_true, if_false, hdem, Option.getD_some]
  obtain ⟨h, _, e2⟩ := updHeads_get cfg.pi cfg.tanks s.prevHeads (tentativeHeads cfg s) dem
    ((((preResult cfg s).2 - s.prevTime : Int)) : Rat) i t p q ht hp hq
    (by have := List.getElem?_eq_some_iff.mp htent; exact this.1)
  rw [e2, update_independent_of_head cfg.pi t p h p q _]

namespace RunLimits
open Wntr.TankRun Wntr.Controls

/-- states reachable from `s0` by `TankRun.step` -/
inductive Reach (cfg : Cfg) (s0 : St) : St → Prop
  | refl : Reach cfg s0 s0
  | step {s : St} : Reach cfg s0 s → Reach cfg s0 (TankRun.step cfg s)

/-- static facts: tank `i` is cylindrical, `ctls[j]` is its min-level close control on link `k` (pre-and-postsolve) and every
presolve writer of that link's `_internal_status` closes it (true of `_get_all_tank_controls`: `min_close_control_exists`) -/
structure MinSetup (cfg : Cfg) (i j k : Nat) (t : Tank) (rc : TankRun.RCtl) : Prop where
  ht : cfg.tanks[i]? = some t
  hcyl : t.curve = none
  hpi : 0 < cfg.pi
  hd : t.diam ≠ 0
  hnr : cfg.rules = []
  hrc : cfg.ctls[j]? = some rc
  hpre : rc.pre = true
  hpost : rc.post = true
  hcond : rc.cond = TankRun.Cond.level i ⟨.head, .le, t.minLevel + t.elev⟩
  hact : rc.ctl.act = ⟨k, .internal, 0⟩
  hint : ∀ rc' : TankRun.RCtl, rc' ∈ cfg.ctls → rc'.pre = true → rc'.ctl.hits k .internal → rc'.ctl.act.value = 0

/-- what is assumed of a reachable, non-first, non-failed state — everything here is about the SOLVE or about time:
  * `flow`   (Hflow) a tank whose min-level condition holds on the accepted head does not discharge: `0 ≤ q`;
  * `open_`  a discharging tank has link `k` open and visible to the tracker — the contrapositive of "closed links carry zero
             flow" (C02 `closed_link_zero_flow`) for a tank whose outflow goes through `k`, plus `closes_of_open_nonvalve`;
  * `bound`  `Q` bounds the flow; `backs` the due backtracks are ≥ 0; `time` the accepted time is not before the previous one -/
structure Good (cfg : Cfg) (i k : Nat) (θ Q : Rat) (s : St) : Prop where
  dem : ∃ dem q, s.demand = some dem ∧ dem[i]? = some q ∧ -Q ≤ q
    ∧ (∀ p, s.prevHeads[i]? = some p → Rel.le.holds p θ = true → 0 ≤ q)
    ∧ (q < 0 → Closes cfg.tracked s.links k ∧ k < s.links.length)
  backs : ∀ d ∈ (preCheck cfg s).1, 0 ≤ d.back
  time : s.prevTime ≤ (preResult cfg s).2

/-- `limits_hold_along_run_min`: Hcut is DERIVED (from `step_limit_min`, with the invariant `_last_value` = accepted head carried
along the run by `step_lasts`); what remains assumed is `Good` — Hflow, "a discharging tank has its outflow link open", and the two
time facts.  Then every head of tank `i` saved along the whole run is above `min_head − Q/A`. -/
theorem limits_hold_along_run_min (cfg : Cfg) (links : Links) (heads lasts : List Rat) (i j k : Nat) (t : Tank) (rc : TankRun.RCtl)
    (S : MinSetup cfg i j k t rc) (Q : Rat) (hQ : 0 ≤ Q)
    (h0 : ∃ h, heads[i]? = some h ∧ t.minLevel + t.elev - Q / area cfg.pi t ≤ h)
    (Hgood : ∀ s, Reach cfg (init links heads lasts) s → s.first = false → s.error = false →
      Good cfg i k (t.minLevel + t.elev) Q s) :
    ∀ n, ∀ r ∈ (run cfg n (init links heads lasts)).rows, ∀ h, r.heads[i]? = some h →
      t.minLevel + t.elev - Q / area cfg.pi t ≤ h := by
  set θ := t.minLevel + t.elev with hθ
  set A := area cfg.pi t with hAdef
  have hA : 0 < A := by
    rw [hAdef]; unfold area
    have : 0 < t.diam * t.diam := by
      rcases lt_or_gt_of_ne S.hd with h | h
      · exact mul_pos_of_neg_of_neg h h
      · exact mul_pos h h
    exact mul_pos (div_pos S.hpi (by norm_num)) this
  -- invariant
  let J : St → Prop := fun s =>
    Reach cfg (init links heads lasts) s ∧ (∀ r ∈ s.rows, ∀ h, r.heads[i]? = some h → θ - Q / A ≤ h)
    ∧ ((s.first = true ∧ ∃ h, s.heads[i]? = some h ∧ θ - Q / A ≤ h)
       ∨ (s.first = false ∧ ∃ p, s.prevHeads[i]? = some p ∧ s.heads[i]? = some p ∧ s.lasts.getD j 0 = p ∧ θ - Q / A ≤ p))
  have hstep : ∀ s, J s → s.error = false → J (TankRun.step cfg s) := by
    intro s ⟨hreach, hrows, hst⟩ herr
    refine ⟨Reach.step hreach, ?_⟩
    rcases step_rows cfg s with e | ⟨r, e, _, _, hrh, _, _, hph, _, hfs, _, hhs⟩
    · rw [e]; exact ⟨hrows, hst⟩
    · -- a row was produced: bound its head
      have hbound : ∀ h, r.heads[i]? = some h → θ - Q / A ≤ h := by
        intro h hh
        rcases hst with ⟨hf, h', hh', hb'⟩ | ⟨hf, p, hp, hhp, hl, hb⟩
        · have : r.heads = s.heads := by rw [hrh]; unfold acceptedHeads; simp [hf]
          rw [this, hh'] at hh; cases hh; exact hb'
        · obtain ⟨⟨dem, q, hdem, hq, hQb, hflow, hopen⟩, hbacks, htime⟩ := Hgood s hreach hf herr
          have hhd := step_head cfg s r e hf i t S.ht p p q dem hp hhp hdem hq
          rw [hhd] at hh; cases hh
          by_cases hneg : q < 0
          · have hnot : Rel.le.holds p θ = false := by
              by_contra hc
              have := hflow p hp (by simpa using hc)
              linarith
            obtain ⟨hcl, hk⟩ := hopen hneg
            obtain ⟨h2, e2, hlt⟩ := step_limit_min cfg s r e hf S.hnr i j k t rc S.ht S.hcyl S.hpi S.hd S.hrc S.hpre S.hcond S.hact
              p p q dem hp hhp hdem hq hneg hl hnot hcl hk S.hint hbacks
            rw [hhd] at e2; cases e2
            have : -(Q / A) ≤ q / A := by rw [← neg_div]; exact div_le_div_of_nonneg_right hQb (le_of_lt hA)
            linarith
          · -- filling or still: the head does not fall
            have hq0 : 0 ≤ q := not_lt.mp hneg
            have hdt : (0 : Rat) ≤ ((((preResult cfg s).2 - s.prevTime : Int)) : Rat) := by
              have : 0 ≤ (preResult cfg s).2 - s.prevTime := by omega
              exact_mod_cast this
            have : p ≤ updateHead cfg.pi t p p q ((((preResult cfg s).2 - s.prevTime : Int)) : Rat) := by
              unfold updateHead
              rw [S.hcyl]
              have hpos : 0 < cfg.pi * (t.diam * t.diam) := by
                have : 0 < t.diam * t.diam := by
                  rcases lt_or_gt_of_ne S.hd with h | h
                  · exact mul_pos_of_neg_of_neg h h
                  · exact mul_pos h h
                exact mul_pos S.hpi this
              have : 0 ≤ 4 * (q * ((((preResult cfg s).2 - s.prevTime : Int)) : Rat)) / (cfg.pi * (t.diam * t.diam)) :=
                div_nonneg (by positivity) (le_of_lt hpos)
              linarith
            linarith
      refine ⟨?_, ?_⟩
      · rw [e]; intro x hx h hh
        rcases List.mem_cons.mp hx with e' | e'
        · rw [e'] at hh; exact hbound h hh
        · exact hrows x e' h hh
      · right
        refine ⟨hfs, ?_⟩
        -- tank i has a head in the new row
        have hex : ∃ h, r.heads[i]? = some h := by
          rcases hst with ⟨hf, h', hh', _⟩ | ⟨hf, p, hp, hhp, _, _⟩
          · have : r.heads = s.heads := by rw [hrh]; unfold acceptedHeads; simp [hf]
            exact ⟨h', by rw [this]; exact hh'⟩
          · obtain ⟨⟨dem, q, hdem, hq, _⟩, _, _⟩ := Hgood s hreach hf herr
            exact ⟨_, step_head cfg s r e hf i t S.ht p p q dem hp hhp hdem hq⟩
        obtain ⟨h, hh⟩ := hex
        have hl := step_lasts cfg s r e j i rc ⟨.head, .le, θ⟩ t h S.hrc S.hpost S.hcond S.ht S.hcyl hh
        refine ⟨h, by rw [hph]; exact hh, by rw [hhs]; exact hh, ?_, hbound h hh⟩
        simp only [attrValue] at hl
        rw [List.getD_eq_getElem?_getD, hl]; rfl
  have hrun : ∀ n s, J s → ∀ r ∈ (run cfg n s).rows, ∀ h, r.heads[i]? = some h → θ - Q / A ≤ h := by
    intro n
    induction n with
    | zero => intro s hj; exact hj.2.1
    | succ m ih =>
      intro s hj
      unfold run
      split
      · exact hj.2.1
      · rename_i hc
        have herr : s.error = false := by
          simp only [Bool.or_eq_true, decide_eq_true_eq, not_or] at hc
          simpa using hc.1
        exact ih _ (hstep s hj herr)
  intro n
  apply hrun n
  refine ⟨Reach.refl, by simp [init], Or.inl ⟨by simp [init], ?_⟩⟩
  obtain ⟨h, hh, hb⟩ := h0
  exact ⟨h, by simpa [init] using hh, hb⟩

/-- the same for the max-level close control (`head ≥ max_level + elevation`) -/
structure MaxSetup (cfg : Cfg) (i j k : Nat) (t : Tank) (rc : TankRun.RCtl) : Prop where
  ht : cfg.tanks[i]? = some t
  hcyl : t.curve = none
  hpi : 0 < cfg.pi
  hd : t.diam ≠ 0
  hnr : cfg.rules = []
  hrc : cfg.ctls[j]? = some rc
  hpre : rc.pre = true
  hpost : rc.post = true
  hcond : rc.cond = TankRun.Cond.level i ⟨.head, .ge, t.maxLevel + t.elev⟩
  hact : rc.ctl.act = ⟨k, .internal, 0⟩
  hint : ∀ rc' : TankRun.RCtl, rc' ∈ cfg.ctls → rc'.pre = true → rc'.ctl.hits k .internal → rc'.ctl.act.value = 0

/-- what is assumed of a reachable, non-first, non-failed state — everything here is about the SOLVE or about time:
  * `flow`   (Hflow) a tank whose max-level condition holds on the accepted head does not fill: `q ≤ 0`;
  * `open_`  a filling tank has link `k` open and visible to the tracker — the contrapositive of "closed links carry zero
             flow" (C02 `closed_link_zero_flow`) for a tank whose outflow goes through `k`, plus `closes_of_open_nonvalve`;
  * `bound`  `Q` bounds the flow; `backs` the due backtracks are ≥ 0; `time` the accepted time is not before the previous one -/
structure GoodMax (cfg : Cfg) (i k : Nat) (θ Q : Rat) (s : St) : Prop where
  dem : ∃ dem q, s.demand = some dem ∧ dem[i]? = some q ∧ q ≤ Q
    ∧ (∀ p, s.prevHeads[i]? = some p → Rel.ge.holds p θ = true → q ≤ 0)
    ∧ (0 < q → Closes cfg.tracked s.links k ∧ k < s.links.length)
  backs : ∀ d ∈ (preCheck cfg s).1, 0 ≤ d.back
  time : s.prevTime ≤ (preResult cfg s).2

/-- `limits_hold_along_run_max`: Hcut is DERIVED (from `step_limit_max`, with the invariant `_last_value` = accepted head carried
along the run by `step_lasts`); what remains assumed is `Good` — Hflow, "a discharging tank has its outflow link open", and the two
time facts.  Then every head of tank `i` saved along the whole run is below `max_head + Q/A`. -/
theorem limits_hold_along_run_max (cfg : Cfg) (links : Links) (heads lasts : List Rat) (i j k : Nat) (t : Tank) (rc : TankRun.RCtl)
    (S : MaxSetup cfg i j k t rc) (Q : Rat) (hQ : 0 ≤ Q)
    (h0 : ∃ h, heads[i]? = some h ∧ h ≤ t.maxLevel + t.elev + Q / area cfg.pi t)
    (Hgood : ∀ s, Reach cfg (init links heads lasts) s → s.first = false → s.error = false →
      GoodMax cfg i k (t.maxLevel + t.elev) Q s) :
    ∀ n, ∀ r ∈ (run cfg n (init links heads lasts)).rows, ∀ h, r.heads[i]? = some h →
      h ≤ t.maxLevel + t.elev + Q / area cfg.pi t := by
  set θ := t.maxLevel + t.elev with hθ
  set A := area cfg.pi t with hAdef
  have hA : 0 < A := by
    rw [hAdef]; unfold area
    have : 0 < t.diam * t.diam := by
      rcases lt_or_gt_of_ne S.hd with h | h
      · exact mul_pos_of_neg_of_neg h h
      · exact mul_pos h h
    exact mul_pos (div_pos S.hpi (by norm_num)) this
  -- invariant
  let J : St → Prop := fun s =>
    Reach cfg (init links heads lasts) s ∧ (∀ r ∈ s.rows, ∀ h, r.heads[i]? = some h → h ≤ θ + Q / A)
    ∧ ((s.first = true ∧ ∃ h, s.heads[i]? = some h ∧ h ≤ θ + Q / A)
       ∨ (s.first = false ∧ ∃ p, s.prevHeads[i]? = some p ∧ s.heads[i]? = some p ∧ s.lasts.getD j 0 = p ∧ p ≤ θ + Q / A))
  have hstep : ∀ s, J s → s.error = false → J (TankRun.step cfg s) := by
    intro s ⟨hreach, hrows, hst⟩ herr
    refine ⟨Reach.step hreach, ?_⟩
    rcases step_rows cfg s with e | ⟨r, e, _, _, hrh, _, _, hph, _, hfs, _, hhs⟩
    · rw [e]; exact ⟨hrows, hst⟩
    · -- a row was produced: bound its head
      have hbound : ∀ h, r.heads[i]? = some h → h ≤ θ + Q / A := by
        intro h hh
        rcases hst with ⟨hf, h', hh', hb'⟩ | ⟨hf, p, hp, hhp, hl, hb⟩
        · have : r.heads = s.heads := by rw [hrh]; unfold acceptedHeads; simp [hf]
          rw [this, hh'] at hh; cases hh; exact hb'
        · obtain ⟨⟨dem, q, hdem, hq, hQb, hflow, hopen⟩, hbacks, htime⟩ := Hgood s hreach hf herr
          have hhd := step_head cfg s r e hf i t S.ht p p q dem hp hhp hdem hq
          rw [hhd] at hh; cases hh
          by_cases hneg : 0 < q
          · have hnot : Rel.ge.holds p θ = false := by
              by_contra hc
              have := hflow p hp (by simpa using hc)
              linarith
            obtain ⟨hcl, hk⟩ := hopen hneg
            obtain ⟨h2, e2, hlt⟩ := step_limit_max cfg s r e hf S.hnr i j k t rc S.ht S.hcyl S.hpi S.hd S.hrc S.hpre S.hcond S.hact
              p p q dem hp hhp hdem hq hneg hl hnot hcl hk S.hint hbacks
            rw [hhd] at e2; cases e2
            have : q / A ≤ Q / A := div_le_div_of_nonneg_right hQb (le_of_lt hA)
            linarith
          · -- draining or still: the head does not rise
            have hq0 : q ≤ 0 := not_lt.mp hneg
            have hdt : (0 : Rat) ≤ ((((preResult cfg s).2 - s.prevTime : Int)) : Rat) := by
              have : 0 ≤ (preResult cfg s).2 - s.prevTime := by omega
              exact_mod_cast this
            have : updateHead cfg.pi t p p q ((((preResult cfg s).2 - s.prevTime : Int)) : Rat) ≤ p := by
              unfold updateHead
              rw [S.hcyl]
              have hpos : 0 < cfg.pi * (t.diam * t.diam) := by
                have : 0 < t.diam * t.diam := by
                  rcases lt_or_gt_of_ne S.hd with h | h
                  · exact mul_pos_of_neg_of_neg h h
                  · exact mul_pos h h
                exact mul_pos S.hpi this
              have : 4 * (q * ((((preResult cfg s).2 - s.prevTime : Int)) : Rat)) / (cfg.pi * (t.diam * t.diam)) ≤ 0 :=
                div_nonpos_of_nonpos_of_nonneg (by nlinarith) (le_of_lt hpos)
              linarith
            linarith
      refine ⟨?_, ?_⟩
      · rw [e]; intro x hx h hh
        rcases List.mem_cons.mp hx with e' | e'
        · rw [e'] at hh; exact hbound h hh
        · exact hrows x e' h hh
      · right
        refine ⟨hfs, ?_⟩
        -- tank i has a head in the new row
        have hex : ∃ h, r.heads[i]? = some h := by
          rcases hst with ⟨hf, h', hh', _⟩ | ⟨hf, p, hp, hhp, _, _⟩
          · have : r.heads = s.heads := by rw [hrh]; unfold acceptedHeads; simp [hf]
            exact ⟨h', by rw [this]; exact hh'⟩
          · obtain ⟨⟨dem, q, hdem, hq, _⟩, _, _⟩ := Hgood s hreach hf herr
            exact ⟨_, step_head cfg s r e hf i t S.ht p p q dem hp hhp hdem hq⟩
        obtain ⟨h, hh⟩ := hex
        have hl := step_lasts cfg s r e j i rc ⟨.head, .ge, θ⟩ t h S.hrc S.hpost S.hcond S.ht S.hcyl hh
        refine ⟨h, by rw [hph]; exact hh, by rw [hhs]; exact hh, ?_, hbound h hh⟩
        simp only [attrValue] at hl
        rw [List.getD_eq_getElem?_getD, hl]; rfl
  have hrun : ∀ n s, J s → ∀ r ∈ (run cfg n s).rows, ∀ h, r.heads[i]? = some h → h ≤ θ + Q / A := by
    intro n
    induction n with
    | zero => intro s hj; exact hj.2.1
    | succ m ih =>
      intro s hj
      unfold run
      split
      · exact hj.2.1
      · rename_i hc
        have herr : s.error = false := by
          simp only [Bool.or_eq_true, decide_eq_true_eq, not_or] at hc
          simpa using hc.1
        exact ih _ (hstep s hj herr)
  intro n
  apply hrun n
  refine ⟨Reach.refl, by simp [init], Or.inl ⟨by simp [init], ?_⟩⟩
  obtain ⟨h, hh, hb⟩ := h0
  exact ⟨h, by simpa [init] using hh, hb⟩

end RunLimits

/-- leaks: `Sol.demand` / the reported demand is NET of the leak (`tankDemand`).  With every link at the tank closed (zero link
flow) an active leak still gives a negative demand, so `Good.dem`'s Hflow clause is FALSE for a leaking tank at its minimum: a
leaking tank may legitimately drain below `min_level` and `limits_hold_along_run_min` does not (and must not) apply to it; the
integral statements (`level_trace_is_integral_run`, `cylinder_euler_exact_leak`) do.  The overflow flag does not occur in the
model at all (`tankControls` has no such input): the limit theorems hold for overflow tanks exactly as for the others. -/
theorem leaking_tank_discharges_with_closed_links (leak : Rat) (h : 0 < leak) : tankDemand 0 0 leak < 0 := by
  unfold tankDemand; linarith

/-- `limits_hold_along_run` (min side, levels of one cylindrical tank along consecutive reported rows, oldest first as
`(time, level, demand)`): if
  (Hflow) a tank at or below `min` does not discharge at a reported row  — hydraulics: C02 `closed_link_zero_flow` + flow
          follows the head difference, which the re-open rule `tank.head ≤ other.head` relies on;
  (Hcut)  a draining tank above `min` is cut by the presolve pass so that the next level is above `min + q/A`
          — `presolve_time_le` + `limit_one_sided_min` deliver this whenever the min-close control is due with the backtrack
          computed from the accepted level and some link it closes is an open tracked pipe/pump (`closes_of_open_nonvalve`);
  (Hint)  levels integrate the reported demand (`level_trace_is_integral_run`),
then every level stays above `min − Q/A·1 s`, `Q` a bound of the reported flows. -/
theorem limits_hold_along_run (A mn Q : Rat) (hA : 0 < A) (_hQ : 0 ≤ Q) :
    ∀ (rows : List (Rat × Rat × Rat)) (l0 q0 t0 : Rat), mn - Q / A ≤ l0 →
      List.IsChain (fun (a b : Rat × Rat × Rat) =>
        a.1 ≤ b.1 ∧ A * (b.2.1 - a.2.1) = a.2.2 * (b.1 - a.1)            -- Hint, time moves forward
        ∧ (a.2.1 ≤ mn → 0 ≤ a.2.2)                                        -- Hflow
        ∧ (mn < a.2.1 → a.2.2 < 0 → mn + a.2.2 / A < b.2.1)               -- Hcut
        ∧ -Q ≤ a.2.2) ((t0, l0, q0) :: rows) →
      ∀ r ∈ (t0, l0, q0) :: rows, mn - Q / A ≤ r.2.1 := by
  intro rows
  induction rows with
  | nil => intro l0 q0 t0 h0 _ r hr; simp at hr; rw [hr]; exact h0
  | cons b rest ih =>
    intro l0 q0 t0 h0 hch r hr
    rw [List.isChain_cons_cons] at hch
    obtain ⟨⟨ht, hint, hflow, hcut, hqb⟩, hrest⟩ := hch
    rcases List.mem_cons.mp hr with e | e
    · rw [e]; exact h0
    · obtain ⟨tb, lb, qb⟩ := b
      simp only at ht hint hflow hcut hqb
      have hb : mn - Q / A ≤ lb := by
        have hdt : 0 ≤ tb - t0 := by linarith
        by_cases hq : 0 ≤ q0
        · have : 0 ≤ A * (lb - l0) := by rw [hint]; exact mul_nonneg hq hdt
          have : 0 ≤ lb - l0 := by
            by_contra hh
            have := mul_neg_of_pos_of_neg hA (not_le.mp hh)
            linarith
          linarith
        · have hq' : q0 < 0 := not_le.mp hq
          have hl : mn < l0 := by
            by_contra hh
            exact hq (hflow (not_lt.mp hh))
          have h1 := hcut hl hq'
          have : -(Q / A) ≤ q0 / A := by
            rw [← neg_div]; exact div_le_div_of_nonneg_right hqb (le_of_lt hA)
          linarith
      exact ih lb qb tb hb hrest r e

/-! ### which links the limit controls close -/

/-- min level: every link that can carry water OUT of the tank (anything but a pump or CV pipe ending at the tank) gets a
pre-and-postsolve close control `tank.head ≤ min_level + elevation` of priority medium -/
theorem min_close_control_exists (t : Tank) (htol : Rat) (links : List TLink) (l : TLink) (hl : l ∈ links)
    (hout : ¬ (l.kind = .pump ∧ l.startIsTank = false) ∧ ¬ (l.kind = .pipe ∧ l.cv = true ∧ l.startIsTank = false)) :
    (⟨l.id, 0, .le, t.minLevel + t.elev, none, 3, true⟩ : TCtl) ∈ tankControls t htol links := by
  unfold tankControls
  apply List.mem_append_left
  rw [List.mem_flatMap]
  refine ⟨l, hl, ?_⟩
  obtain ⟨h1, h2⟩ := hout
  unfold minBlock
  cases hk : l.kind <;> cases hcv : l.cv <;> cases hs : l.startIsTank <;> simp_all

/-- max level: every link that can carry water INTO the tank (anything but a pump or CV pipe starting at the tank) gets a
pre-and-postsolve close control `tank.head ≥ max_level + elevation` -/
theorem max_close_control_exists (t : Tank) (htol : Rat) (links : List TLink) (l : TLink) (hl : l ∈ links)
    (hin : ¬ (l.kind = .pump ∧ l.startIsTank = true) ∧ ¬ (l.kind = .pipe ∧ l.cv = true ∧ l.startIsTank = true)) :
    (⟨l.id, 0, .ge, t.maxLevel + t.elev, none, 3, true⟩ : TCtl) ∈ tankControls t htol links := by
  unfold tankControls
  apply List.mem_append_right
  rw [List.mem_flatMap]
  refine ⟨l, hl, ?_⟩
  obtain ⟨h1, h2⟩ := hin
  unfold maxBlock
  cases hk : l.kind <;> cases hcv : l.cv <;> cases hs : l.startIsTank <;> simp_all

example : (⟨7, 0, .le, 1 + 20, none, 3, true⟩ : TCtl) ∈ tankControls ⟨20, 1, 5, 3, none, false⟩ (1/10000) [⟨7, .pump, false, true, 2⟩] :=
  min_close_control_exists _ _ _ ⟨7, .pump, false, true, 2⟩ (by simp) (by simp)

end Wntr.C06
