/- GENERATED on every run by harness/translate/c14_registry_calls.py from wntr/network/{base,model,elements}.py (ast only).
   Do not edit.  See that file for what each table means. -/
namespace Wntr.Gen.RegistryCalls

/-- (site, call, registry, key expression, user expression), in source order per site -/
def usageCalls : List (String × String × String × String × String) := [
  ("Link.__init__", "add_usage", "node", "start_node_name", "(link_name, self.link_type)"),
  ("Link.__init__", "add_usage", "node", "end_node_name", "(link_name, self.link_type)"),
  ("Link.start_node.setter", "remove_usage", "node", "self.start_node_name", "(self._link_name, self.link_type)"),
  ("Link.start_node.setter", "add_usage", "node", "node.name", "(self._link_name, self.link_type)"),
  ("Link.end_node.setter", "remove_usage", "node", "self.end_node_name", "(self._link_name, self.link_type)"),
  ("Link.end_node.setter", "add_usage", "node", "node.name", "(self._link_name, self.link_type)"),
  ("WaterNetworkModel.add_source", "add_usage", "pattern", "source.strength_timeseries.pattern_name", "(source.name, 'Source')"),
  ("WaterNetworkModel.add_source", "add_usage", "node", "source.node_name", "(source.name, 'Source')"),
  ("WaterNetworkModel.remove_source", "remove_usage", "pattern", "source.strength_timeseries.pattern_name", "(source.name, 'Source')"),
  ("WaterNetworkModel.remove_source", "remove_usage", "node", "source.node_name", "(source.name, 'Source')"),
  ("CurveRegistry.__setitem__", "set_curve_type", "curve", "key", "value.curve_type"),
  ("SourceRegistry.__delitem__", "remove_usage", "pattern", "source.strength_timeseries.pattern_name", "(source.name, 'Source')"),
  ("SourceRegistry.__delitem__", "remove_usage", "node", "source.node_name", "(source.name, 'Source')"),
  ("NodeRegistry.__delitem__", "remove_usage", "pattern", "pat_name", "(node.name, 'Junction')"),
  ("NodeRegistry.__delitem__", "remove_usage", "pattern", "node.head_pattern_name", "(node.name, 'Reservoir')"),
  ("NodeRegistry.__delitem__", "remove_usage", "curve", "node.vol_curve_name", "(node.name, 'Tank')"),
  ("LinkRegistry.__delitem__", "remove_usage", "node", "link.start_node_name", "(link.name, link.link_type)"),
  ("LinkRegistry.__delitem__", "remove_usage", "node", "link.end_node_name", "(link.name, link.link_type)"),
  ("LinkRegistry.__delitem__", "remove_usage", "curve", "link.headloss_curve_name", "(link.name, 'Valve')"),
  ("LinkRegistry.__delitem__", "remove_usage", "pattern", "link.speed_pattern_name", "(link.name, 'Pump')"),
  ("LinkRegistry.__delitem__", "remove_usage", "curve", "link.pump_curve_name", "(link.name, 'Pump')"),
  ("Junction.add_demand", "add_usage", "pattern", "key", "(self.name, 'Junction')"),
  ("Junction.add_fire_fighting_demand", "add_usage", "pattern", "pattern_name", "(self.name, 'Junction')"),
  ("Junction.remove_fire_fighting_demand", "remove_usage", "pattern", "pattern_name", "(self.name, 'Junction')"),
  ("Tank.vol_curve_name.setter", "remove_usage", "curve", "self._vol_curve_name", "(self._name, 'Tank')"),
  ("Tank.vol_curve_name.setter", "add_usage", "curve", "name", "(self._name, 'Tank')"),
  ("Reservoir.head_pattern_name.setter", "remove_usage", "pattern", "self._head_timeseries.pattern_name", "(self.name, 'Reservoir')"),
  ("Reservoir.head_pattern_name.setter", "add_usage", "pattern", "name", "(self.name, 'Reservoir')"),
  ("Pump.speed_pattern_name.setter", "remove_usage", "pattern", "self._speed_timeseries.pattern_name", "(self.name, 'Pump')"),
  ("Pump.speed_pattern_name.setter", "add_usage", "pattern", "name", "(self.name, 'Pump')"),
  ("HeadPump.pump_curve_name.setter", "remove_usage", "curve", "self._pump_curve_name", "(self._link_name, 'Pump')"),
  ("HeadPump.pump_curve_name.setter", "add_usage", "curve", "name", "(self._link_name, 'Pump')"),
  ("HeadPump.pump_curve_name.setter", "set_curve_type", "curve", "name", "'HEAD'"),
  ("PowerPump.power.setter", "remove_usage", "curve", "self._pump_curve_name", "(self._link_name, 'Pump')"),
  ("GPValve.headloss_curve_name.setter", "remove_usage", "curve", "self._headloss_curve_name", "(self._link_name, 'Valve')"),
  ("GPValve.headloss_curve_name.setter", "add_usage", "curve", "name", "(self._link_name, 'Valve')"),
  ("GPValve.headloss_curve_name.setter", "set_curve_type", "curve", "name", "'HEADLOSS'"),
  ("Demands._edit", "remove_usage", "pattern", "p", "self._user"),
  ("Demands._edit", "add_usage", "pattern", "p", "self._user"),
  ("Source.__init__", "add_usage", "pattern", "self._strength_timeseries.pattern_name", "(name, 'Source')"),
  ("Source.__init__", "add_usage", "node", "node_name", "(name, 'Source')"),
  ("Source.name.setter", "remove_usage", "pattern", "pat", "(self._name, 'Source')"),
  ("Source.name.setter", "add_usage", "pattern", "pat", "(value, 'Source')"),
  ("Source.name.setter", "remove_usage", "node", "self._node_name", "(self._name, 'Source')"),
  ("Source.name.setter", "add_usage", "node", "self._node_name", "(value, 'Source')"),
  ("Source.node_name.setter", "remove_usage", "node", "self._node_name", "(self._name, 'Source')"),
  ("Source.node_name.setter", "add_usage", "node", "value", "(self._name, 'Source')")
]

/-- element class ↦ typed sets `__setitem__` adds the key to -/
def typedAdds : List (String × List String) := [
  ("Junction", ["_junctions"]),
  ("Tank", ["_tanks"]),
  ("Reservoir", ["_reservoirs"]),
  ("Pipe", ["_pipes"]),
  ("HeadPump", ["_pumps", "_head_pumps"]),
  ("PowerPump", ["_pumps", "_power_pumps"]),
  ("PRValve", ["_valves", "_prvs"]),
  ("PSValve", ["_valves", "_psvs"]),
  ("PBValve", ["_valves", "_pbvs"]),
  ("TCValve", ["_valves", "_tcvs"]),
  ("FCValve", ["_valves", "_fcvs"]),
  ("GPValve", ["_valves", "_gpvs"])
]

/-- registry ↦ typed sets `__delitem__` discards the key from, in order -/
def typedDiscards : List (String × List String) := [
  ("NodeRegistry", ["_junctions", "_reservoirs", "_tanks"]),
  ("LinkRegistry", ["_pipes", "_pumps", "_head_pumps", "_power_pumps", "_prvs", "_psvs", "_pbvs", "_tcvs", "_fcvs", "_gpvs", "_valves"]),
  ("CurveRegistry", ["_pump_curves", "_efficiency_curves", "_headloss_curves", "_volume_curves"])
]

/-- curve type ↦ typed set `set_curve_type` adds the key to -/
def curveTypeSets : List (String × List String) := [
  ("HEAD", ["_pump_curves"]),
  ("HEADLOSS", ["_headloss_curves"]),
  ("VOLUME", ["_volume_curves"]),
  ("EFFICIENCY", ["_efficiency_curves"])
]

end Wntr.Gen.RegistryCalls
