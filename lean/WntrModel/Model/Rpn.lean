/-
M6 (C15) — the expression layer of `wntr.sim.aml`, mirrored from `expr.py` / `evaluator.cpp`:

* `step/run/evalRpn`   the C++ `_evaluate` stack machine (opcodes −1 … −18, leaves by non-negative index);
* `toRpn`              RPN of a tree (`Expr`), what `get_rpn` denotes;
* `OpList`             the PYTHON representation: `expression._operators[:_n_opers]`, a list of operator OBJECTS
                       (identity = `id`) in which an operator that is used twice occurs twice; operands are
                       leaves or operator objects;
* `foldAlg`            the one loop shape shared by `expression.evaluate`, `get_rpn`, `diff_up_symbolic`
                       (`for oper in self.operators(): oper.f(dict)`), instantiated by `algEval`, `algTree`,
                       `algRpn` (repaired `get_rpn`: every operator gets its OWN list), `algS`;
* `getRpnAliased`      `get_rpn` AS CODED before the repair (lists aliased through `rpn_map[self] = _rpn = rpn_map[operand]`),
                       with an explicit heap of mutable lists — kept to exhibit the defect;
* `SVal`, `sAdd …`     the operator overloads of `ExpressionBase` with their shortcuts (`x+0`, `x*1`, `x*0`, `x**0`, `0/x`,
                       Float∘Float folding, reflected operators) on "python number | aml object";
* `D`                  the formal derivative;
* `reverseSd`          `expression.reverse_sd` (repaired: each operator visited once, in first-occurrence order) and
                       `reverseSdAsCoded` (visits every occurrence).
Python exceptions (KeyError on a dict) are `none`. This file is import-free apart from the shared `Expr`.
-/
import WntrModel.Model.Expr
namespace Wntr.Aml

/-! ## 1. opcodes and the C++ stack machine -/

def Bin.code : Bin → Int
  | .add => -1 | .sub => -2 | .mul => -3 | .div => -4 | .pow => -5

def Un.code : Un → Int
  | .abs => -6 | .sign => -7 | .exp => -10 | .log => -11 | .neg => -12 | .sin => -13
  | .cos => -14 | .tan => -15 | .asin => -16 | .acos => -17 | .atan => -18

def codeIfElse : Int := -8
def codeIneq : Int := -9

def decodeBin (t : Int) : Option Bin :=
  if t = -1 then some .add else if t = -2 then some .sub else if t = -3 then some .mul
  else if t = -4 then some .div else if t = -5 then some .pow else none

def decodeUn (t : Int) : Option Un :=
  if t = -6 then some .abs else if t = -7 then some .sign else if t = -10 then some .exp
  else if t = -11 then some .log else if t = -12 then some .neg else if t = -13 then some .sin
  else if t = -14 then some .cos else if t = -15 then some .tan else if t = -16 then some .asin
  else if t = -17 then some .acos else if t = -18 then some .atan else none

/-- one iteration of the `for` loop of `_evaluate`; the stack is a list with its top at the head.
`none` = stack underflow (undefined behaviour in C++) or `"Operation not recognized"`. -/
def step (O : Ops α) (vals : Nat → α) (s : List α) (t : Int) : Option (List α) :=
  if 0 ≤ t then some (vals t.toNat :: s)
  else match decodeBin t with
    | some op => (match s with | a2 :: a1 :: r => some (O.bin op a1 a2 :: r) | _ => none)
    | none => match decodeUn t with
      | some op => (match s with | a :: r => some (O.un op a :: r) | _ => none)
      | none =>
        if t = codeIfElse then
          (match s with | a2 :: a1 :: a :: r => some ((if O.isOne a then a1 else a2) :: r) | _ => none)
        else if t = codeIneq then
          (match s with | a2 :: a1 :: a :: r => some (O.ofBool (O.le a1 a && O.le a a2) :: r) | _ => none)
        else none

def run (O : Ops α) (vals : Nat → α) : List Int → List α → Option (List α)
  | [], s => some s
  | t :: ts, s => (step O vals s t).bind (run O vals ts)

/-- `_evaluate(stack, rpn, values)`: run, then `--stack_ndx; return stack[stack_ndx]` -/
def evalRpn (O : Ops α) (vals : Nat → α) (rpn : List Int) : Option α :=
  (run O vals rpn []).bind List.head?

/-! ## 2. trees → RPN -/

/-- leaves as the C++ constraint sees them; the bounds of an inequality are `Float(±inf)` leaves when absent -/
inductive TLeaf where
  | var (i : Nat) | param (i : Nat) | const (q : Rat) | negInf | posInf
  deriving Repr, DecidableEq, Inhabited

/-- the two infinite doubles -/
structure InfVals (α : Type) where
  negInf : α
  posInf : α

def leafVal (O : Ops α) (I : InfVals α) (env : Env α) : TLeaf → α
  | .var i => env.var i
  | .param i => env.param i
  | .const q => O.ofRat q
  | .negInf => I.negInf
  | .posInf => I.posInf

def lbLeaf : Option Rat → TLeaf | some q => .const q | none => .negInf
def ubLeaf : Option Rat → TLeaf | some q => .const q | none => .posInf

def toRpn (ndx : TLeaf → Nat) : Expr → List Int
  | .var i => [(ndx (.var i) : Int)]
  | .param i => [(ndx (.param i) : Int)]
  | .const q => [(ndx (.const q) : Int)]
  | .bin op a b => toRpn ndx a ++ toRpn ndx b ++ [op.code]
  | .un op a => toRpn ndx a ++ [op.code]
  | .ifElse c t e => toRpn ndx c ++ toRpn ndx t ++ toRpn ndx e ++ [codeIfElse]
  | .ineq b lb ub => toRpn ndx b ++ [(ndx (lbLeaf lb) : Int), (ndx (ubLeaf ub) : Int), codeIneq]

/-! ## 3. the Python operator lists -/

inductive FVal where
  | fin (q : Rat) | negInf | posInf
  deriving Repr, DecidableEq, Inhabited

/-- a leaf OBJECT: `Var`/`Param` by their index in the harness' pools, `Float` objects by identity `id` -/
inductive PLeaf where
  | var (i : Nat) | param (i : Nat) | flt (id : Nat) (v : FVal)
  deriving Repr, DecidableEq, Inhabited

inductive Operand where
  | leaf (l : PLeaf) | op (id : Nat)
  deriving Repr, DecidableEq, Inhabited

inductive PyOp where
  | bin (op : Bin) (a b : Operand)
  | un (op : Un) (a : Operand)
  | ifElse (c t e : Operand)
  | ineq (body : Operand) (lb ub : PLeaf)
  deriving Repr, DecidableEq, Inhabited

/-- an Operator object -/
structure PyNode where
  id : Nat
  op : PyOp
  deriving Repr, DecidableEq, Inhabited

/-- `expression._operators[:_n_opers]` -/
abbrev OpList := List PyNode

def FVal.bound : FVal → Option Rat | .fin q => some q | _ => none
def PLeaf.bound : PLeaf → Option Rat | .flt _ v => v.bound | _ => none

def PLeaf.toTLeaf : PLeaf → TLeaf
  | .var i => .var i | .param i => .param i
  | .flt _ (.fin q) => .const q | .flt _ .negInf => .negInf | .flt _ .posInf => .posInf

/-- the tree a leaf denotes (an infinite `Float` only makes sense as a bound; elsewhere it is read as 0 and excluded
by the harness' generators) -/
def PLeaf.toExpr : PLeaf → Expr
  | .var i => .var i | .param i => .param i
  | .flt _ (.fin q) => .const q | .flt _ _ => .const 0

/-- how one pass over the operator list combines the entries of its dictionary -/
structure Alg (β : Type) where
  leaf : PLeaf → β
  bin : Bin → β → β → β
  un : Un → β → β
  ifElse : β → β → β → β
  ineq : β → PLeaf → PLeaf → β

/-- `val_dict[operand]` / `operand.value` -/
def Alg.operand (A : Alg β) (m : List (Nat × β)) : Operand → Option β
  | .leaf l => some (A.leaf l)
  | .op i => m.lookup i

def Alg.node (A : Alg β) (m : List (Nat × β)) : PyOp → Option β
  | .bin op a b => do let x ← A.operand m a; let y ← A.operand m b; pure (A.bin op x y)
  | .un op a => do let x ← A.operand m a; pure (A.un op x)
  | .ifElse c t e => do
      let x ← A.operand m c; let y ← A.operand m t; let z ← A.operand m e; pure (A.ifElse x y z)
  | .ineq b lb ub => do let x ← A.operand m b; pure (A.ineq x lb ub)

/-- `for oper in self.operators(): oper.f(d)` with `d[oper] = …` (a later entry shadows an earlier one) -/
def foldAlg (A : Alg β) : OpList → List (Nat × β) → Option (List (Nat × β))
  | [], m => some m
  | n :: rest, m => (A.node m n.op).bind fun x => foldAlg A rest ((n.id, x) :: m)

/-- `d[self.last_node()]` after the pass -/
def runAlg (A : Alg β) (ops : OpList) : Option β :=
  (foldAlg A ops []).bind fun m => ops.getLast?.bind fun n => m.lookup n.id

def algTree : Alg Expr where
  leaf := PLeaf.toExpr
  bin := .bin
  un := .un
  ifElse := .ifElse
  ineq := fun b lb ub => .ineq b lb.bound ub.bound

/-- the tree an operator list denotes -/
def denote (ops : OpList) : Option Expr := runAlg algTree ops

def algEval (O : Ops α) (env : Env α) : Alg α where
  leaf := fun l => eval O env l.toExpr
  bin := O.bin
  un := O.un
  ifElse := fun c t e => if O.isOne c then t else e
  ineq := fun v lb ub =>
    O.ofBool ((match lb.bound with | none => true | some l => O.le (O.ofRat l) v) &&
              (match ub.bound with | none => true | some u => O.le v (O.ofRat u)))

/-- `expression.evaluate()` -/
def pyEvaluate (O : Ops α) (env : Env α) (ops : OpList) : Option α := runAlg (algEval O env) ops

/-- repaired `get_rpn`: `rpn_map[self]` is a fresh list `rpn(operand1) ++ rpn(operand2) ++ [opcode]` in all four
leaf/non-leaf cases of the code (`insert(0, …)`, `append`, `extend` on a COPY) -/
def algRpn (ndx : PLeaf → Nat) : Alg (List Int) where
  leaf := fun l => [(ndx l : Int)]
  bin := fun op a b => a ++ b ++ [op.code]
  un := fun op a => a ++ [op.code]
  ifElse := fun c t e => c ++ t ++ e ++ [codeIfElse]
  ineq := fun b lb ub => b ++ [(ndx lb : Int), (ndx ub : Int), codeIneq]

def getRpn (ndx : PLeaf → Nat) (ops : OpList) : Option (List Int) := runAlg (algRpn ndx) ops

/-- every operator operand was defined by an earlier element of the list (what Python needs not to raise KeyError) -/
def operandOk (seen : List Nat) : Operand → Bool
  | .leaf _ => true
  | .op i => seen.contains i

def PyOp.operands : PyOp → List Operand
  | .bin _ a b => [a, b] | .un _ a => [a] | .ifElse c t e => [c, t, e] | .ineq b _ _ => [b]

def wellFormedFrom (seen : List Nat) : OpList → Bool
  | [] => true
  | n :: rest => n.op.operands.all (operandOk seen) && wellFormedFrom (n.id :: seen) rest

def wellFormed (ops : OpList) : Bool := wellFormedFrom [] ops

/-- the same object has the same fields wherever it occurs -/
def consistent (ops : OpList) : Prop := ∀ a ∈ ops, ∀ b ∈ ops, a.id = b.id → a.op = b.op

/-! ### `get_rpn` as coded before the repair: aliased mutable lists

`heap[r]` is a Python list object; `rpn_map[node]` holds a reference `r`. The non-leaf cases reuse the operand's list
object and mutate it in place. -/

structure AState where
  heap : List (List Int) := []
  rmap : List (Nat × Nat) := []   -- operator id ↦ reference

def AState.alloc (s : AState) (l : List Int) : AState × Nat :=
  ({ s with heap := s.heap ++ [l] }, s.heap.length)

def AState.get (s : AState) (r : Nat) : List Int := s.heap.getD r []

def AState.modify (s : AState) (r : Nat) (f : List Int → List Int) : AState :=
  { s with heap := s.heap.set r (f (s.get r)) }

def AState.bind (s : AState) (id r : Nat) : AState := { s with rmap := (id, r) :: s.rmap }

def aliasedNode (ndx : PLeaf → Nat) (s : AState) (id : Nat) : PyOp → Option AState
  | .bin op a b =>
    match a, b with
    | .leaf la, .leaf lb =>
      let (s, r) := s.alloc [(ndx la : Int), (ndx lb : Int), op.code]; some (s.bind id r)
    | .op ia, .leaf lb => do
      let r ← s.rmap.lookup ia
      pure ((s.modify r fun l => l ++ [(ndx lb : Int), op.code]).bind id r)
    | .leaf la, .op ib => do
      let r ← s.rmap.lookup ib
      pure ((s.modify r fun l => (ndx la : Int) :: l ++ [op.code]).bind id r)
    | .op ia, .op ib => do
      let r ← s.rmap.lookup ia
      let r2 ← s.rmap.lookup ib
      let other := s.get r2          -- `_rpn.extend(rpn_map[self._operand2])` (reads the list at that moment)
      pure ((s.modify r fun l => l ++ other ++ [op.code]).bind id r)
  | .un op a =>
    match a with
    | .leaf la => let (s, r) := s.alloc [(ndx la : Int), op.code]; some (s.bind id r)
    | .op ia => do
      let r ← s.rmap.lookup ia
      pure ((s.modify r fun l => l ++ [op.code]).bind id r)
  | .ifElse c t e => do
    let (s, r) ← (match c with
      | .leaf lc => some (s.alloc [(ndx lc : Int)])
      | .op ic => (s.rmap.lookup ic).map fun r => (s, r))
    let s ← (match t with
      | .leaf lt => some (s.modify r fun l => l ++ [(ndx lt : Int)])
      | .op it => (s.rmap.lookup it).map fun r2 => let o := s.get r2; s.modify r fun l => l ++ o)
    let s ← (match e with
      | .leaf le => some (s.modify r fun l => l ++ [(ndx le : Int)])
      | .op ie => (s.rmap.lookup ie).map fun r2 => let o := s.get r2; s.modify r fun l => l ++ o)
    pure ((s.modify r fun l => l ++ [codeIfElse]).bind id r)
  | .ineq b lb ub => do
    let (s, r) ← (match b with
      | .leaf l => some (s.alloc [(ndx l : Int)])
      | .op ib => (s.rmap.lookup ib).map fun r => (s, r))
    pure ((s.modify r fun l => l ++ [(ndx lb : Int), (ndx ub : Int), codeIneq]).bind id r)

def aliasedFold (ndx : PLeaf → Nat) : OpList → AState → Option AState
  | [], s => some s
  | n :: rest, s => (aliasedNode ndx s n.id n.op).bind (aliasedFold ndx rest)

def getRpnAliased (ndx : PLeaf → Nat) (ops : OpList) : Option (List Int) :=
  (aliasedFold ndx ops {}).bind fun s => ops.getLast?.bind fun n => (s.rmap.lookup n.id).map s.get

/-! ## 4. the operator overloads (constant folding) -/

/-- what a Python-level value of the AML can be: a native number or an aml object (`ex (.const q)` = a `Float` object) -/
inductive SVal where
  | num (q : Rat)
  | ex (e : Expr)
  deriving Repr, DecidableEq, Inhabited

def SVal.toExpr : SVal → Expr | .num q => .const q | .ex e => e

/-- natural-number exponent of a rational, when the exponent is one -/
def ratNatPow (x : Rat) : Nat → Rat
  | 0 => 1
  | n + 1 => ratNatPow x n * x

/-- `operator.<op>(x, y)` on native numbers where the result is again rational; otherwise `none`
(division by zero raises in Python; a non-natural power is not rational: the model then keeps the node unfolded) -/
def ratBin : Bin → Rat → Rat → Option Rat
  | .add, x, y => some (x + y)
  | .sub, x, y => some (x - y)
  | .mul, x, y => some (x * y)
  | .div, x, y => if y = 0 then none else some (x / y)
  | .pow, x, y => if y.den = 1 ∧ 0 ≤ y.num then some (ratNatPow x y.num.toNat) else none

def ratUn : Un → Rat → Option Rat
  | .neg, x => some (-x)
  | .abs, x => some (if 0 ≤ x then x else -x)
  | .sign, x => some (if 0 ≤ x then 1 else -1)
  | _, _ => none

/-- `a._binary_operation_helper(b, cls)` with both operands aml objects:
Float∘Float is folded to a native number (`cls.operation(self.value, other.value)`) -/
def sBinObj (op : Bin) (a b : Expr) : SVal :=
  match a, b with
  | .const x, .const y => (match ratBin op x y with | some r => .num r | none => .ex (.bin op a b))
  | _, _ => .ex (.bin op a b)

/-- `obj <op> number` after the shortcuts: `_binary_operation_helper(other)` with a native `other` -/
def sBinObjNum (op : Bin) (a : Expr) (y : Rat) : SVal :=
  match a with
  | .const x => (match ratBin op x y with | some r => .num r | none => .ex (.bin op a (.const y)))
  | _ => .ex (.bin op a (.const y))

def sNumNum (op : Bin) (x y : Rat) : SVal :=
  match ratBin op x y with | some r => .num r | none => .ex (.bin op (.const x) (.const y))

/-- `__add__` / `__radd__` -/
def sAdd : SVal → SVal → SVal
  | .num x, .num y => sNumNum .add x y
  | .ex a, .num y => if y = 0 then .ex a else sBinObjNum .add a y
  | .num x, .ex b => if x = 0 then .ex b else sBinObj .add (.const x) b
  | .ex a, .ex b => sBinObj .add a b

def sNeg : SVal → SVal
  | .num x => .num (-x)
  | .ex (.const x) => .num (-x)                 -- `Float._unary_operation_helper` folds
  | .ex a => .ex (.un .neg a)

/-- `__sub__` / `__rsub__` (`0 - x` is `-x`) -/
def sSub : SVal → SVal → SVal
  | .num x, .num y => sNumNum .sub x y
  | .ex a, .num y => if y = 0 then .ex a else sBinObjNum .sub a y
  | .num x, .ex b => if x = 0 then sNeg (.ex b) else sBinObj .sub (.const x) b
  | .ex a, .ex b => sBinObj .sub a b

/-- `__mul__` / `__rmul__` -/
def sMul : SVal → SVal → SVal
  | .num x, .num y => sNumNum .mul x y
  | .ex a, .num y => if y = 0 then .num 0 else if y = 1 then .ex a else sBinObjNum .mul a y
  | .num x, .ex b => if x = 0 then .num 0 else if x = 1 then .ex b else sBinObj .mul (.const x) b
  | .ex a, .ex b => sBinObj .mul a b

/-- `__truediv__` / `__rtruediv__`; `none` = `ValueError('Divide by 0')` / ZeroDivisionError -/
def sDiv : SVal → SVal → Option SVal
  | .num x, .num y => if y = 0 then none else some (sNumNum .div x y)
  | .ex a, .num y => if y = 0 then none else if y = 1 then some (.ex a) else
      (match a with
       | .const x => some (sNumNum .div x y)
       | _ => some (.ex (.bin .div a (.const y))))
  | .num x, .ex b => if x = 0 then some (.num 0) else
      (match b with
       | .const y => if y = 0 then none else some (sNumNum .div x y)
       | _ => some (.ex (.bin .div (.const x) b)))
  | .ex a, .ex b =>
      (match a, b with
       | .const x, .const y => if y = 0 then none else some (sNumNum .div x y)
       | _, _ => some (.ex (.bin .div a b)))

/-- `__pow__` / `__rpow__` -/
def sPow : SVal → SVal → SVal
  | .num x, .num y => sNumNum .pow x y
  | .ex a, .num y => if y = 0 then .num 1 else if y = 1 then .ex a else sBinObjNum .pow a y
  | .num x, .ex b => if x = 0 then .num 0 else if x = 1 then .num 1 else sBinObj .pow (.const x) b
  | .ex a, .ex b => sBinObj .pow a b

/-- `exp(val)`, `log(val)`, …, `abs`, `sign`: native numbers and `Float` objects are folded when the result is rational -/
def sUn (op : Un) : SVal → SVal
  | .num x => (match ratUn op x with | some r => .num r | none => .ex (.un op (.const x)))
  | .ex (.const x) => (match ratUn op x with | some r => .num r | none => .ex (.un op (.const x)))
  | .ex a => .ex (.un op a)

/-- `inequality(body, lb, ub)` with numeric bounds -/
def sIneq (b : SVal) (lb ub : Option Rat) : SVal :=
  match b with
  | .num x => .num (if (match lb with | none => true | some l => decide (l ≤ x)) &&
                        (match ub with | none => true | some u => decide (x ≤ u))
                    then 1 else 0)
  | .ex e => .ex (.ineq e lb ub)

/-- `if_else(c, t, e)`: a native condition selects eagerly; native branches become `Float` objects -/
def sIfElse (c t e : SVal) : SVal :=
  match c with
  | .num x => if x = 0 then e else t
  | .ex ce => .ex (.ifElse ce t.toExpr e.toExpr)

def sBin : Bin → SVal → SVal → Option SVal
  | .add, a, b => some (sAdd a b)
  | .sub, a, b => some (sSub a b)
  | .mul, a, b => some (sMul a b)
  | .div, a, b => sDiv a b
  | .pow, a, b => some (sPow a b)

/-! ## 5. formal derivative -/

def Expr.isConstLeaf : Expr → Bool
  | .param _ => true | .const _ => true | _ => false

/-- ∂/∂(var v), shaped like the `diff_down` rules (`abs' = if x ≥ 0 then 1 else −1`, `sign' = 0`, inequality' = 0,
`if_else` branch-wise; for `a ** b` with `b` a parameter/constant leaf the `log` term is absent as in the code) -/
def D (v : Nat) : Expr → Expr
  | .var i => .const (if i = v then 1 else 0)
  | .param _ => .const 0
  | .const _ => .const 0
  | .bin .add a b => .bin .add (D v a) (D v b)
  | .bin .sub a b => .bin .sub (D v a) (D v b)
  | .bin .mul a b => .bin .add (.bin .mul b (D v a)) (.bin .mul a (D v b))
  | .bin .div a b => .bin .sub (.bin .div (D v a) b) (.bin .mul (.bin .div a (.bin .pow b (.const 2))) (D v b))
  | .bin .pow a b =>
    let da := .bin .mul (.bin .mul b (.bin .pow a (.bin .sub b (.const 1)))) (D v a)
    if b.isConstLeaf then da
    else .bin .add da (.bin .mul (.bin .mul (.bin .pow a b) (.un .log a)) (D v b))
  | .un .neg a => .un .neg (D v a)
  | .un .abs a => .bin .mul (.ifElse (.ineq a (some 0) none) (.const 1) (.const (-1))) (D v a)
  | .un .sign _ => .const 0
  | .un .exp a => .bin .mul (.un .exp a) (D v a)
  | .un .log a => .bin .div (D v a) a
  | .un .sin a => .bin .mul (.un .cos a) (D v a)
  | .un .cos a => .un .neg (.bin .mul (.un .sin a) (D v a))
  | .un .tan a => .bin .div (D v a) (.bin .pow (.un .cos a) (.const 2))
  | .un .asin a => .bin .div (D v a) (.bin .pow (.bin .sub (.const 1) (.bin .pow a (.const 2))) (.const (1/2)))
  | .un .acos a => .un .neg (.bin .div (D v a) (.bin .pow (.bin .sub (.const 1) (.bin .pow a (.const 2))) (.const (1/2))))
  | .un .atan a => .bin .div (D v a) (.bin .add (.const 1) (.bin .pow a (.const 2)))
  | .ifElse c t e => .ifElse c (D v t) (D v e)
  | .ineq _ _ _ => .const 0

/-! ## 6. `reverse_sd` -/

/-- `diff_up_symbolic`'s `val_dict`: `self.operation(val1, val2)` through the overloads; an entry is `none` when the
overload raised (division of native numbers by zero) -/
def algS : Alg (Option SVal) where
  leaf := fun l => some (.ex l.toExpr)
  bin := fun op a b => do let x ← a; let y ← b; sBin op x y
  un := fun op a => a.map (sUn op)
  ifElse := fun c t e => do let x ← c; let y ← t; let z ← e; pure (sIfElse x y z)
  ineq := fun b lb ub => b.map fun x => sIneq x lb.bound ub.bound

abbrev DerMap := List (Operand × SVal)
abbrev ValMap := List (Nat × Option SVal)

/-- `val_dict[operand]` in `diff_down` -/
def valOf (vm : ValMap) (o : Operand) : Option SVal := (algS.operand vm o).bind id

/-- `der_dict[k] += x` -/
def addTo (d : DerMap) (k : Operand) (x : SVal) : Option DerMap :=
  (d.lookup k).map fun c => (k, sAdd c x) :: d

/-- `der_dict[k] -= x` -/
def subFrom (d : DerMap) (k : Operand) (x : SVal) : Option DerMap :=
  (d.lookup k).map fun c => (k, sSub c x) :: d

/-- the operands whose `der_dict` entry `diff_up*` initialises (the bounds of an inequality are not among them) -/
def initDer (ops : OpList) : DerMap :=
  ops.flatMap fun n => n.op.operands.map fun o => (o, SVal.num 0)

/-- `Operator.diff_down(val_dict, der_dict)` of every operator class -/
def diffDown (vm : ValMap) (d : DerMap) (n : PyNode) : Option DerMap := do
  let der ← d.lookup (.op n.id)
  match n.op with
  | .bin .add a b => do
      let d ← addTo d a der
      addTo d b der
  | .bin .sub a b => do
      let d ← addTo d a der
      subFrom d b der
  | .bin .mul a b => do
      let v1 ← valOf vm a; let v2 ← valOf vm b
      let d ← addTo d a (sMul der v2)
      addTo d b (sMul der v1)
  | .bin .div a b => do
      let v1 ← valOf vm a; let v2 ← valOf vm b
      let t1 ← sDiv der v2
      let d ← addTo d a t1
      let t2 ← sDiv (sMul der v1) (sPow v2 (.num 2))
      subFrom d b t2
  | .bin .pow a b => do
      let v1 ← valOf vm a; let v2 ← valOf vm b
      let d ← addTo d a (sMul (sMul der v2) (sPow v1 (sSub v2 (.num 1))))
      match b with
      | .leaf (.param _) => pure d
      | .leaf (.flt _ _) => pure d
      | _ => addTo d b (sMul (sMul der (sPow v1 v2)) (sUn .log v1))
  | .un .neg a => subFrom d a der
  | .un .abs a => do
      let v ← valOf vm a
      addTo d a (sMul der (sIfElse (sIneq v (some 0) none) (.ex (.const 1)) (.ex (.const (-1)))))
  | .un .sign _ => pure d
  | .un .exp a => do
      let v ← valOf vm a
      addTo d a (sMul der (sUn .exp v))
  | .un .log a => do
      let v ← valOf vm a
      let t ← sDiv der v
      addTo d a t
  | .un .sin a => do
      let v ← valOf vm a
      addTo d a (sMul der (sUn .cos v))
  | .un .cos a => do
      let v ← valOf vm a
      subFrom d a (sMul der (sUn .sin v))
  | .un .tan a => do
      let v ← valOf vm a
      let t ← sDiv der (sPow (sUn .cos v) (.num 2))
      addTo d a t
  | .un .asin a => do
      let v ← valOf vm a
      let t ← sDiv der (sPow (sSub (.num 1) (sPow v (.num 2))) (.num (1/2)))
      addTo d a t
  | .un .acos a => do
      let v ← valOf vm a
      let t ← sDiv der (sPow (sSub (.num 1) (sPow v (.num 2))) (.num (1/2)))
      subFrom d a t
  | .un .atan a => do
      let v ← valOf vm a
      let t ← sDiv der (sAdd (.num 1) (sPow v (.num 2)))
      addTo d a t
  | .ifElse c t e => do
      let cv ← valOf vm c
      let d ← addTo d t (sIfElse cv der (.num 0))
      addTo d e (sIfElse cv (.num 0) der)
  | .ineq _ _ _ => pure d

def sweep (vm : ValMap) : List PyNode → DerMap → Option DerMap
  | [], d => some d
  | n :: rest, d => (diffDown vm d n).bind (sweep vm rest)

/-- each operator once, at its first occurrence (`list(OrderedDict.fromkeys(self.operators()))`) -/
def uniqueOps : OpList → List Nat → OpList
  | [], _ => []
  | n :: rest, seen => if seen.contains n.id then uniqueOps rest seen else n :: uniqueOps rest (n.id :: seen)

/-- the body shared by the repaired and the as-coded `reverse_sd`: `u` is the list of operators that is traversed -/
def reverseSdOn (ops u : OpList) : Option DerMap := do
  let vm ← foldAlg algS u []
  let last ← ops.getLast?
  sweep vm u.reverse ((.op last.id, .num 1) :: initDer u)

/-- `expression.reverse_sd()` (repaired) -/
def reverseSd (ops : OpList) : Option DerMap := reverseSdOn ops (uniqueOps ops [])

/-- `expression.reverse_sd()` as coded before the repair: every OCCURRENCE of an operator is visited -/
def reverseSdAsCoded (ops : OpList) : Option DerMap := reverseSdOn ops ops

/-- `jac[v]` -/
def jacOf (d : DerMap) (v : Nat) : Option SVal := d.lookup (.leaf (.var v))

end Wntr.Aml
