/-
`Engines` — what can be said IN LOGIC about "WNTRSimulator and EpanetSimulator agree" (C03).

EPANET is a closed shared object, so the numbers it produces are outside the model.  This file models
  * a hydraulic state as both engines REPORT it (link flows, node heads, junction demands, all exact rationals:
    reported doubles are rationals) and the certificate `IsSolution`: every mass-balance row and every link row
    of the network is within `tol`.  The mass-balance row is the `massBalanceRow` of `Model/LinkRows.lean`
    (`D − Σ INLET + Σ OUTLET`); a link row is either the closed row `q` or `h_start − h_end − φ(q)` for a
    head-loss law `φ` (open pipe: Hazen-Williams + minor loss; head pump: `−(A − B q^C)`; open valve / TCV: `±r q²`).
    The executable oracle (Drivers/EnginesDriver.lean) evaluates the very rows of `LinkRows.linkRow` in `Float`.
  * tree-shaped networks as a peeling order (`Peelable`): a junction with exactly one remaining link is removed
    together with that link until no link is left; every node that is not a junction is a fixed-head node.
  * the unit tables the translator reads off `wntr/epanet/io.py` (`Gen/SchemaBin.lean`) and the specification of
    which physical dimension each INP quantity / binary result has.
  * the EPANET-semantics instants of time controls and rules (`fireTimesSpec`).
Import-free.
-/
namespace Wntr.Engines

/-! ### reported states and the solution certificate -/

structure Link where
  id : Nat
  start : Nat
  stop : Nat
  deriving Repr, DecidableEq, Inhabited

/-- contribution of link `l` carrying `x` to the net inflow of node `j` (`+x` at its end node, `−x` at its start node) -/
def contrib (l : Link) (x : Rat) (j : Nat) : Rat :=
  (if l.stop = j then x else 0) - (if l.start = j then x else 0)

/-- net inflow `Σ INLET − Σ OUTLET` of node `j` under link flows `q` (by link id) -/
def inflow : List Link → (Nat → Rat) → Nat → Rat
  | [], _, _ => 0
  | l :: rest, q, j => contrib l (q l.id) j + inflow rest q j

/-- a state as an engine reports it -/
structure St where
  q : Nat → Rat      -- link flow by link id
  h : Nat → Rat      -- node head by node id
  d : Nat → Rat      -- junction demand (DD: the requested demand; PDD: the delivered demand)

/-- value of the mass-balance row `D − Σ INLET + Σ OUTLET` (`LinkRows.massBalanceRow` without a leak) -/
def mbRes (links : List Link) (s : St) (j : Nat) : Rat := s.d j - inflow links s.q j

/-- the row of one link for its (shared) status: closed ⇒ `q`; otherwise `h_start − h_end − φ(q)` -/
inductive LinkLaw where
  | closed
  | loss (φ : Rat → Rat)

def linkRes (law : Nat → LinkLaw) (s : St) (l : Link) : Rat :=
  match law l.id with
  | .closed => s.q l.id
  | .loss φ => s.h l.start - s.h l.stop - φ (s.q l.id)

def Within (tol r : Rat) : Prop := -tol ≤ r ∧ r ≤ tol

structure Net where
  links : List Link
  juncs : List Nat      -- the nodes that have a mass-balance row; every other node is a fixed-head node

/-- the certificate: every mass-balance row and every link row is within `tol` -/
def IsSolution (net : Net) (law : Nat → LinkLaw) (tol : Rat) (s : St) : Prop :=
  (∀ j ∈ net.juncs, Within tol (mbRes net.links s j)) ∧ (∀ l ∈ net.links, Within tol (linkRes law s l))

/-- `Peelable links juncs`: the links in an order in which each one is the only remaining link of a junction that is
removed with it (a forest in which every tree hangs off exactly one fixed-head node). -/
inductive Peelable : List Link → List Nat → Prop where
  | nil : Peelable [] []
  | cons (e : Link) (v : Nat) (rest : List Link) (nodes : List Nat) :
      (e.start = v ∨ e.stop = v) → e.start ≠ e.stop →
      (∀ l ∈ rest, l.start ≠ v ∧ l.stop ≠ v) → v ∉ nodes →
      Peelable rest nodes → Peelable (e :: rest) (v :: nodes)

/-- sum of a list of rationals -/
def sumR : List Rat → Rat
  | [] => 0
  | x :: t => x + sumR t

/-! ### executable checks of the certificate on small exact instances (non-vacuity examples, driver) -/

def absR (x : Rat) : Rat := if x < 0 then -x else x

def withinB (tol r : Rat) : Bool := decide (-tol ≤ r) && decide (r ≤ tol)

/-! ### unit tables of the file path  WNTR → INP → EPANET → binary → WNTR  -/

/-- one INP quantity: which `HydParam` (enum value) the writer converts it with (`from_si`) and which one the reader
uses (`to_si`) -/
structure InpConv where
  name : String
  writeParam : Nat
  readParam : Nat
  deriving Repr, DecidableEq, Inhabited

/-- one result type of `BinFile.read`: the `HydParam` it is converted to SI with -/
structure BinConv where
  name : String
  param : Nat
  deriving Repr, DecidableEq, Inhabited

/-- HydParam enum values (wntr/epanet/util.py) of the physical dimensions -/
def pElevation : Nat := 0
def pDemand : Nat := 1
def pHead : Nat := 2
def pPressure : Nat := 3
def pLength : Nat := 5
def pPipeDiameter : Nat := 6
def pFlow : Nat := 7
def pVelocity : Nat := 8
def pHeadLoss : Nat := 9
def pPower : Nat := 15
def pVolume : Nat := 17
def pRoughness : Nat := 32
def pTankDiameter : Nat := 33

/-- the physical dimension the EPANET manual gives each result of the binary output file
(canonical `HydParam` of that dimension) -/
def binDim : String → Option Nat
  | "node.demand" => some pDemand          -- flow units
  | "node.head" => some pHead              -- ft / m
  | "node.pressure" => some pPressure      -- psi / m
  | "link.flowrate" => some pFlow
  | "link.velocity" => some pVelocity      -- ft/s, m/s
  | "link.headloss.pipe" => some pHeadLoss -- per 1000 ft / m
  | "link.headloss.pumpvalve" => some pLength
  | "link.setting.pipe" => some pRoughness
  | "link.setting.PRV" => some pPressure
  | "link.setting.PSV" => some pPressure
  | "link.setting.PBV" => some pPressure
  | "link.setting.FCV" => some pFlow
  | _ => none

/-- the physical dimension of each INP quantity of the common feature set -/
def inpDim : String → Option Nat
  | "junction.elevation" => some pElevation
  | "junction.base_demand" => some pDemand
  | "demands.base_demand" => some pDemand
  | "reservoir.head" => some pHead
  | "tank.elevation" => some pElevation
  | "tank.init_level" => some pLength
  | "tank.min_level" => some pLength
  | "tank.max_level" => some pLength
  | "tank.diameter" => some pTankDiameter
  | "tank.min_vol" => some pVolume
  | "pipe.length" => some pLength
  | "pipe.diameter" => some pPipeDiameter
  | "pipe.roughness" => some pRoughness
  | "pump.power" => some pPower
  | "valve.diameter" => some pPipeDiameter
  | "valve.setting.pressure" => some pPressure
  | "valve.setting.flow" => some pFlow
  | "curve.head.x" => some pFlow
  | "curve.head.y" => some pHead
  | "curve.volume.x" => some pLength
  | "curve.volume.y" => some pVolume
  | "options.minimum_pressure" => some pPressure
  | "options.required_pressure" => some pPressure
  | "control.setting.pressure" => some pPressure
  | "control.setting.flow" => some pFlow
  | "control.threshold.head" => some pHead
  | "control.threshold.pressure" => some pPressure
  | _ => none

/-- the ten flow units an INP file can be written in (EN ids; 11 = SI is not an INP unit) -/
def inpUnits : List Nat := [0, 1, 2, 3, 4, 5, 6, 7, 8, 9]

/-! ### EPANET-semantics instants of time controls and rules -/

/-- when a time-based item acts, EPANET semantics: a simple control `AT TIME τ` acts at exactly `τ`
(if `0 ≤ τ ≤ duration`); `AT CLOCKTIME c` acts at every `t ≥ 0` with `(t + start_clock) mod 86400 = c`;
a rule whose premise is `SYSTEM TIME >= τ` (resp. `= τ`) acts at the first (resp. the) positive multiple of the rule
step `r` that is `≥ τ` — rules are never evaluated at time 0. -/
inductive TimeItem where
  | atTime (τ : Int)
  | atClock (c : Int)
  | ruleGe (τ : Int)
  deriving Repr, DecidableEq, Inhabited

/-- EPANET-semantics: is `t` an instant at which the item acts?  (`dur` duration, `sc` start clocktime, `r > 0` rule step) -/
def firesSpec (dur sc r : Int) (it : TimeItem) (t : Int) : Prop :=
  0 ≤ t ∧ t ≤ dur ∧
  match it with
  | .atTime τ => t = τ
  | .atClock c => (t + sc) % 86400 = c
  | .ruleGe τ => 0 < t ∧ t % r = 0 ∧ τ ≤ t ∧ ∀ u, 0 < u → u % r = 0 → τ ≤ u → t ≤ u

/-- executable version used by the driver: the list of instants in `[0, dur]` -/
def ceilDivPos (a r : Int) : Int := (a + r - 1) / r

def fireTimes (dur sc r : Int) (it : TimeItem) : List Int :=
  match it with
  | .atTime τ => if 0 ≤ τ ∧ τ ≤ dur then [τ] else []
  | .atClock c =>
    if 0 ≤ c ∧ c < 86400 then
      let first := (c - sc) % 86400
      (List.range (Int.toNat ((dur - first) / 86400 + 1))).filterMap fun (k : Nat) =>
        let t : Int := first + 86400 * Int.ofNat k
        if t ≤ dur then some t else none
    else []
  | .ruleGe τ =>
    if 0 < r then
      let k := if τ ≤ r then 1 else ceilDivPos τ r
      let t := k * r
      if t ≤ dur then [t] else []
    else []

/-! ### instants at which RULES are evaluated, and at which a time premise fires -/

/-- EPANET 2.2 (`ruletimestep`): within each hydraulic step rules are evaluated at the multiples of the rule step `R` and once more
at the END of the hydraulic step (multiples of `H` on a run without intermediate events); never at time 0 -/
def epanetRuleInstant (R H t : Int) : Prop := 0 < t ∧ (t % R = 0 ∨ t % H = 0)

/-- WNTRSimulator (C04 `rules_on_positive_grid`): the positive multiples of the rule step only -/
def wntrRuleInstant (R t : Int) : Prop := 0 < t ∧ t % R = 0

/-- a time premise with threshold `c` fires at `t`: `t` is the FIRST evaluation instant at or after `c`; an `=` premise
(`eq = true`) is a window test `(previous instant, t]`, whose first window starts at `lo0` (exclusive): EPANET `lo0 = 0`
(a premise due at time 0 is never seen), WNTRSimulator `lo0 = -1` (C04 `ruleWindowLo`: the first window contains 0) -/
def FiresAt (inst : Int → Prop) (eq : Bool) (lo0 c t : Int) : Prop :=
  inst t ∧ c ≤ t ∧ (∀ u, inst u → c ≤ u → t ≤ u) ∧ (eq = true → lo0 < c)

def epanetFires (R H : Int) (eq : Bool) (c t : Int) : Prop := FiresAt (epanetRuleInstant R H) eq 0 c t
def wntrFires (R : Int) (eq : Bool) (c t : Int) : Prop := FiresAt (wntrRuleInstant R) eq (-1) c t

end Wntr.Engines
