/-
M6 (C15) — the bookkeeping layer of `wntr.sim.aml`: `aml.Model` (`_refcounts`, `_var_cvar_map`, `_param_cparam_map`,
`_float_cfloat_map`, `_con_ccon_map`, `_*_referenced_by_con`, `_register_constraint`,
`_register_conditional_constraint`, `_remove_constraint`) and the C++ `Evaluator` (`var_set`, `con_set`,
`if_else_con_set` as sets ORDERED BY ADDRESS, `set_structure` numbering, `row_nnz/col_ndx`, the flattened rpn
vectors and the `condition_ndx/jac_ndx` walk of `evaluate` / `evaluate_csr_jacobian`).

Addresses are abstract: every `new` takes the address it returns as an argument (the harness passes the real
pointer values; the theorems quantify over all fresh choices). `Float` objects of a constraint's expression are
reference counted by identity (that is where `_increment_float` lives); inside the C++ constraint a `Float` leaf is
represented by its constant value. Python exceptions are `Out` values and the state returned is the state the
objects are really left in.
-/
import WntrModel.Model.Rpn
namespace Wntr.Aml

/-- identity of a Python leaf object -/
inductive LeafKey where
  | var (i : Nat) | param (i : Nat) | flt (id : Nat)
  deriving Repr, DecidableEq, Inhabited

/-- C++ `Var` / `Param` -/
structure CLeaf (α : Type) where
  addr : Nat
  value : α
  index : Nat := 0
  deriving Repr

/-- what a slot of a constraint's `leaves` vector points to -/
inductive LeafRef where
  | obj (addr : Nat)           -- a C++ Var or Param
  | const (q : Rat) | negInf | posInf   -- a C++ Float (immutable)
  deriving Repr, DecidableEq, Inhabited

/-- C++ `Constraint` -/
structure CCon where
  addr : Nat
  leaves : List LeafRef
  fnRpn : List Int
  jacRpn : List (Nat × List Int)          -- `std::map<Var*, vector<int>>`, sorted by the Var's address
  index : Nat := 0
  deriving Repr

/-- C++ `IfElseConstraint` -/
structure CIfCon where
  addr : Nat
  leaves : List LeafRef
  condRpn : List (List Int)
  fnRpn : List (List Int)
  jacRpn : List (Nat × List (List Int))   -- per Var (sorted by address): one rpn per condition
  index : Nat := 0
  deriving Repr

/-- the vectors `set_structure` builds -/
structure Structure where
  varVector : List Nat := []
  leaves : List (List LeafRef) := []
  colNdx : List Nat := []
  rowNnz : List Nat := [0]
  fnRpn : List (List Int) := []
  jacRpn : List (List Int) := []
  nConditions : List Nat := []
  ifCondRpn : List (List Int) := []
  ifFnRpn : List (List Int) := []
  ifJacRpn : List (List Int) := []
  nnz : Nat := 0
  deriving Repr

structure Evaluator (α : Type) where
  vars : List (CLeaf α) := []      -- `var_set`, sorted by address
  params : List (CLeaf α) := []    -- `param_set`
  nFloats : Nat := 0               -- `float_set.size()`
  cons : List CCon := []           -- `con_set`, sorted by address
  ifCons : List CIfCon := []       -- `if_else_con_set`, sorted by address
  structureSet : Bool := false
  st : Structure := {}

def insertBy (key : β → Nat) (x : β) : List β → List β
  | [] => [x]
  | y :: ys => if key x < key y then x :: y :: ys else y :: insertBy key x ys

def eraseBy (key : β → Nat) (a : Nat) : List β → List β
  | [] => []
  | y :: ys => if key y = a then ys else y :: eraseBy key a ys

def findBy (key : β → Nat) (a : Nat) : List β → Option β
  | [] => none
  | y :: ys => if key y = a then some y else findBy key a ys

def indexBy (key : β → Nat) (a : Nat) : List β → Nat → Option Nat
  | [], _ => none
  | y :: ys, k => if key y = a then some k else indexBy key a ys (k + 1)

/-- `remove_structure()` is called by every add/remove -/
def Evaluator.touch (e : Evaluator α) : Evaluator α := { e with structureSet := false }

def Evaluator.addVar (e : Evaluator α) (addr : Nat) (v : α) : Evaluator α :=
  { e.touch with vars := insertBy CLeaf.addr ⟨addr, v, 0⟩ e.vars }
def Evaluator.addParam (e : Evaluator α) (addr : Nat) (v : α) : Evaluator α :=
  { e.touch with params := insertBy CLeaf.addr ⟨addr, v, 0⟩ e.params }
def Evaluator.addFloat (e : Evaluator α) : Evaluator α := { e.touch with nFloats := e.nFloats + 1 }
def Evaluator.removeVar (e : Evaluator α) (addr : Nat) : Evaluator α :=
  { e.touch with vars := eraseBy CLeaf.addr addr e.vars }
def Evaluator.removeParam (e : Evaluator α) (addr : Nat) : Evaluator α :=
  { e.touch with params := eraseBy CLeaf.addr addr e.params }
def Evaluator.removeFloat (e : Evaluator α) : Evaluator α := { e.touch with nFloats := e.nFloats - 1 }
def Evaluator.addCon (e : Evaluator α) (c : CCon) : Evaluator α :=
  { e.touch with cons := insertBy CCon.addr c e.cons }
def Evaluator.addIfCon (e : Evaluator α) (c : CIfCon) : Evaluator α :=
  { e.touch with ifCons := insertBy CIfCon.addr c e.ifCons }
def Evaluator.removeCon (e : Evaluator α) (addr : Nat) : Evaluator α :=
  { e.touch with cons := eraseBy CCon.addr addr e.cons }
def Evaluator.removeIfCon (e : Evaluator α) (addr : Nat) : Evaluator α :=
  { e.touch with ifCons := eraseBy CIfCon.addr addr e.ifCons }

/-! ### `set_structure` -/

def numberVars : List (CLeaf α) → Nat → List (CLeaf α)
  | [], _ => []
  | v :: vs, k => { v with index := k } :: numberVars vs (k + 1)

/-- `jac_rpn_iter->first->index` -/
def varIndex (vars : List (CLeaf α)) (addr : Nat) : Nat :=
  match findBy CLeaf.addr addr vars with | some v => v.index | none => 0

def structCons (vars : List (CLeaf α)) : List CCon → Nat → Structure → List CCon × Nat × Structure
  | [], ndx, s => ([], ndx, s)
  | c :: cs, ndx, s =>
    let s1 : Structure := { s with
      leaves := s.leaves ++ [c.leaves]
      fnRpn := s.fnRpn ++ [c.fnRpn]
      rowNnz := s.rowNnz ++ [s.rowNnz.getD ndx 0 + c.jacRpn.length]
      colNdx := s.colNdx ++ c.jacRpn.map (fun p => varIndex vars p.1)
      jacRpn := s.jacRpn ++ c.jacRpn.map (·.2) }
    let (cs', n', s') := structCons vars cs (ndx + 1) s1
    ({ c with index := ndx } :: cs', n', s')

/-- the `for i < n_conditions` loop; `none` = `StructureException` (a jac vector of the wrong length) -/
def ifConRows (vars : List (CLeaf α)) (c : CIfCon) (k : Nat) : Nat → Structure → Option Structure
  | 0, s => some s
  | fuel + 1, s =>
    let i := k - (fuel + 1)
    if c.jacRpn.all (fun p => p.2.length == k) then
      let s1 : Structure := { s with
        ifCondRpn := s.ifCondRpn ++ [c.condRpn.getD i []]
        ifFnRpn := s.ifFnRpn ++ [c.fnRpn.getD i []]
        colNdx := if i = 0 then s.colNdx ++ c.jacRpn.map (fun p => varIndex vars p.1) else s.colNdx
        ifJacRpn := s.ifJacRpn ++ c.jacRpn.map (fun p => p.2.getD i []) }
      ifConRows vars c k fuel s1
    else none

def structIfCons (vars : List (CLeaf α)) : List CIfCon → Nat → Structure → Option (List CIfCon × Structure)
  | [], _, s => some ([], s)
  | c :: cs, ndx, s =>
    let k := c.condRpn.length
    let s1 : Structure := { s with
      leaves := s.leaves ++ [c.leaves]
      nConditions := s.nConditions ++ [k]
      rowNnz := s.rowNnz ++ [s.rowNnz.getD ndx 0 + c.jacRpn.length] }
    match ifConRows vars c k k s1 with
    | none => none
    | some s2 =>
      match structIfCons vars cs (ndx + 1) s2 with
      | none => none
      | some (cs', s') => some ({ c with index := ndx } :: cs', s')

/-- `Evaluator::set_structure()`; `none` = StructureException (the evaluator keeps `is_structure_set = true` and the
numbering done so far; the harness never continues after that) -/
def Evaluator.setStructure (e : Evaluator α) : Option (Evaluator α) :=
  let vars := numberVars e.vars 0
  let s0 : Structure := { varVector := vars.map (·.addr) }
  let (cons, ndx, s1) := structCons vars e.cons 0 s0
  match structIfCons vars e.ifCons ndx s1 with
  | none => none
  | some (ifCons, s2) =>
    some { e with vars := vars, cons := cons, ifCons := ifCons, structureSet := true,
                  st := { s2 with nnz := s2.rowNnz.getLastD 0 } }

/-! ### `evaluate` / `evaluate_csr_jacobian` -/

/-- `(*values)[ndx]->value` for one constraint -/
def leafValues (O : Ops α) (I : InfVals α) (e : Evaluator α) (leaves : List LeafRef) (k : Nat) : α :=
  match leaves.getD k (.const 0) with
  | .obj a =>
    (match findBy CLeaf.addr a e.vars with
     | some v => v.value
     | none => match findBy CLeaf.addr a e.params with
       | some p => p.value
       | none => O.ofRat 0)
  | .const q => O.ofRat q
  | .negInf => I.negInf
  | .posInf => I.posInf

inductive EvalErr where
  | structureNotSet     -- StructureException
  | machine             -- stack underflow / unknown opcode / running past the last condition (undefined behaviour in C++)
  deriving Repr, DecidableEq

/-- the `while (!found)` loop of one IfElseConstraint: returns (branch taken, condition_ndx after the constraint) -/
def findBranch (O : Ops α) (vals : Nat → α) (condRpn : List (List Int)) (nCond : Nat) :
    Nat → Nat → Nat → Option (Nat × Nat)
  | 0, _, _ => none
  | fuel + 1, condNdx, i =>
    let r := condRpn.getD condNdx []
    let found := if r.isEmpty then some true else (evalRpn O vals r).map O.isOne
    match found with
    | none => none
    | some true => some (condNdx, condNdx + (nCond - i))
    | some false => findBranch O vals condRpn nCond fuel (condNdx + 1) (i + 1)

def evalPlainRows (O : Ops α) (I : InfVals α) (e : Evaluator α) : List (List Int) → Nat → Option (List α)
  | [], _ => some []
  | r :: rs, conNdx => do
    let v ← evalRpn O (leafValues O I e (e.st.leaves.getD conNdx [])) r
    let rest ← evalPlainRows O I e rs (conNdx + 1)
    pure (v :: rest)

def evalIfRows (O : Ops α) (I : InfVals α) (e : Evaluator α) : List Nat → Nat → Nat → Option (List α)
  | [], _, _ => some []
  | k :: ks, conNdx, condNdx => do
    let vals := leafValues O I e (e.st.leaves.getD conNdx [])
    let (b, next) ← findBranch O vals e.st.ifCondRpn k (k + 1) condNdx 0
    let v ← evalRpn O vals (e.st.ifFnRpn.getD b [])
    let rest ← evalIfRows O I e ks (conNdx + 1) next
    pure (v :: rest)

/-- `Evaluator::evaluate`: the residual vector -/
def Evaluator.evaluate (O : Ops α) (I : InfVals α) (e : Evaluator α) : Except EvalErr (List α) :=
  if !e.structureSet then .error .structureNotSet else
  match evalPlainRows O I e e.st.fnRpn 0 with
  | none => .error .machine
  | some a =>
    match evalIfRows O I e e.st.nConditions e.cons.length 0 with
    | none => .error .machine
    | some b => .ok (a ++ b)

def evalRpnList (O : Ops α) (vals : Nat → α) : List (List Int) → Option (List α)
  | [] => some []
  | r :: rs => do let v ← evalRpn O vals r; let rest ← evalRpnList O vals rs; pure (v :: rest)

/-- values of the plain rows; `nnzNdx` walks `jac_rpn` -/
def jacPlainRows (O : Ops α) (I : InfVals α) (e : Evaluator α) : Nat → Nat → Nat → Option (List α)
  | 0, _, _ => some []
  | fuel + 1, conNdx, nnzNdx => do
    let nnz := e.st.rowNnz.getD (conNdx + 1) 0 - e.st.rowNnz.getD conNdx 0
    let vals := leafValues O I e (e.st.leaves.getD conNdx [])
    let row ← evalRpnList O vals ((e.st.jacRpn.drop nnzNdx).take nnz)
    let rest ← jacPlainRows O I e fuel (conNdx + 1) (nnzNdx + nnz)
    pure (row ++ rest)

/-- values of the IfElse rows; `jac_ndx` walks `if_else_jac_rpn` with the strides of the code -/
def jacIfRows (O : Ops α) (I : InfVals α) (e : Evaluator α) : List Nat → Nat → Nat → Nat → Option (List α)
  | [], _, _, _ => some []
  | k :: ks, conNdx, condNdx, jacNdx => do
    let nnz := e.st.rowNnz.getD (conNdx + 1) 0 - e.st.rowNnz.getD conNdx 0
    let vals := leafValues O I e (e.st.leaves.getD conNdx [])
    let (b, next) ← findBranch O vals e.st.ifCondRpn k (k + 1) condNdx 0
    let i := b - condNdx
    -- not-found iterations advanced jac_ndx by nnz each; after the found branch: += nnz + (k - i - 1) * nnz
    let row ← evalRpnList O vals ((e.st.ifJacRpn.drop (jacNdx + i * nnz)).take nnz)
    let rest ← jacIfRows O I e ks (conNdx + 1) next (jacNdx + i * nnz + nnz + (k - i - 1) * nnz)
    pure (row ++ rest)

/-- `Evaluator::evaluate_csr_jacobian`: (values, col_ndx, row_nnz) -/
def Evaluator.evaluateCsr (O : Ops α) (I : InfVals α) (e : Evaluator α) :
    Except EvalErr (List α × List Nat × List Nat) :=
  if !e.structureSet then .error .structureNotSet else
  match jacPlainRows O I e e.cons.length 0 0 with
  | none => .error .machine
  | some a =>
    match jacIfRows O I e e.st.nConditions e.cons.length 0 0 with
    | none => .error .machine
    | some b => .ok (a ++ b, e.st.colNdx, e.st.rowNnz)

/-! ### `aml.Model` -/

/-- what the Python layer computed for one branch of a constraint: the function tree and ∂/∂v for each referenced
variable (`Float(jac_v)` when `reverse_sd` returned a number) -/
structure Branch where
  cond : Expr                 -- the condition (`Float(1)` = `.const 1` for the final branch; unused for a plain constraint)
  fn : Expr
  jac : List (Nat × Expr)     -- per referenced var, in `referenced_vars` order
  deriving Repr

/-- a constraint as `_register_*constraint` sees it -/
structure ConSpec where
  id : Nat
  conditional : Bool
  vars : List Nat            -- `get_vars()` / `referenced_vars` (ordered, no repeats)
  params : List Nat
  floats : List Nat          -- identities of the `Float` objects of the expression(s)
  branches : List Branch
  deriving Repr

structure Model (α : Type) where
  ev : Evaluator α := {}
  refcounts : List (LeafKey × Nat) := []       -- `_refcounts`
  varMap : List (Nat × Nat) := []              -- `_var_cvar_map`: var ↦ address
  paramMap : List (Nat × Nat) := []            -- `_param_cparam_map`
  floatMap : List Nat := []                    -- keys of `_float_cfloat_map`
  conMap : List (Nat × (Nat × Bool)) := []     -- `_con_ccon_map`: constraint ↦ (address, is IfElse)
  referenced : List (Nat × (List Nat × List Nat × List Nat)) := []   -- `_vars/_params/_floats_referenced_by_con`
  pyVar : List (Nat × α) := []                 -- `Var._value`
  pyParam : List (Nat × α) := []               -- `Param._value`

inductive Out where
  | ok
  | keyError        -- a dict lookup failed
  | structureError  -- StructureException / RuntimeError from the evaluator
  deriving Repr, DecidableEq

def getCount (rc : List (LeafKey × Nat)) (k : LeafKey) : Nat := (rc.lookup k).getD 0

def setCount (rc : List (LeafKey × Nat)) (k : LeafKey) (n : Nat) : List (LeafKey × Nat) :=
  (k, n) :: rc.filter (fun p => p.1 != k)

def delCount (rc : List (LeafKey × Nat)) (k : LeafKey) : List (LeafKey × Nat) := rc.filter (fun p => p.1 != k)

def pyValueOf (O : Ops α) (m : List (Nat × α)) (i : Nat) : α := (m.lookup i).getD (O.ofRat 0)

/-- `Leaf.value` (the property): the C++ value when there is a C object, else `_value` -/
def Model.varValue (O : Ops α) (m : Model α) (i : Nat) : α :=
  match m.varMap.lookup i with
  | some a => (match findBy CLeaf.addr a m.ev.vars with | some c => c.value | none => pyValueOf O m.pyVar i)
  | none => pyValueOf O m.pyVar i

def Model.paramValue (O : Ops α) (m : Model α) (i : Nat) : α :=
  match m.paramMap.lookup i with
  | some a => (match findBy CLeaf.addr a m.ev.params with | some c => c.value | none => pyValueOf O m.pyParam i)
  | none => pyValueOf O m.pyParam i

def setCValue (addr : Nat) (x : α) : List (CLeaf α) → List (CLeaf α)
  | [] => []
  | c :: cs => if c.addr = addr then { c with value := x } :: cs else c :: setCValue addr x cs

/-- `var.value = x` -/
def Model.setVar (m : Model α) (i : Nat) (x : α) : Model α :=
  let m1 := { m with pyVar := (i, x) :: m.pyVar.filter (fun p => p.1 != i) }
  match m.varMap.lookup i with
  | some a => { m1 with ev := { m1.ev with vars := setCValue a x m1.ev.vars } }
  | none => m1

def Model.setParam (m : Model α) (i : Nat) (x : α) : Model α :=
  let m1 := { m with pyParam := (i, x) :: m.pyParam.filter (fun p => p.1 != i) }
  match m.paramMap.lookup i with
  | some a => { m1 with ev := { m1.ev with params := setCValue a x m1.ev.params } }
  | none => m1

/-- `_increment_var`; `addr` is the address `new Var` returns when one is created -/
def Model.incVar (O : Ops α) (m : Model α) (i addr : Nat) : Model α × Nat :=
  match m.varMap.lookup i with
  | none =>
    ({ m with ev := m.ev.addVar addr (m.varValue O i), varMap := (i, addr) :: m.varMap,
              refcounts := setCount m.refcounts (.var i) 1 }, addr)
  | some a => ({ m with refcounts := setCount m.refcounts (.var i) (getCount m.refcounts (.var i) + 1) }, a)

def Model.incParam (O : Ops α) (m : Model α) (i addr : Nat) : Model α × Nat :=
  match m.paramMap.lookup i with
  | none =>
    ({ m with ev := m.ev.addParam addr (m.paramValue O i), paramMap := (i, addr) :: m.paramMap,
              refcounts := setCount m.refcounts (.param i) 1 }, addr)
  | some a => ({ m with refcounts := setCount m.refcounts (.param i) (getCount m.refcounts (.param i) + 1) }, a)

/-- `_increment_float` (repaired: the existing C float is looked up in `_float_cfloat_map`) -/
def Model.incFloat (m : Model α) (f : Nat) : Model α × Out :=
  if m.floatMap.contains f then
    ({ m with refcounts := setCount m.refcounts (.flt f) (getCount m.refcounts (.flt f) + 1) }, .ok)
  else
    ({ m with ev := m.ev.addFloat, floatMap := f :: m.floatMap, refcounts := setCount m.refcounts (.flt f) 1 }, .ok)

/-- `_increment_float` AS CODED before the repair: `cfloat = self._var_cvar_map[f]` raises KeyError after the
reference count was already incremented -/
def Model.incFloatAsCoded (m : Model α) (f : Nat) : Model α × Out :=
  if m.floatMap.contains f then
    ({ m with refcounts := setCount m.refcounts (.flt f) (getCount m.refcounts (.flt f) + 1) }, .keyError)
  else
    ({ m with ev := m.ev.addFloat, floatMap := f :: m.floatMap, refcounts := setCount m.refcounts (.flt f) 1 }, .ok)

/-- `_decrement_var`: the C++ value is copied back into `_value` when the last reference goes -/
def Model.decVar (O : Ops α) (m : Model α) (i : Nat) : Model α :=
  let n := getCount m.refcounts (.var i) - 1
  if n = 0 then
    match m.varMap.lookup i with
    | some a =>
      { m with pyVar := (i, m.varValue O i) :: m.pyVar.filter (fun p => p.1 != i),
               refcounts := delCount m.refcounts (.var i),
               varMap := m.varMap.filter (fun p => p.1 != i),
               ev := m.ev.removeVar a }
    | none => m
  else { m with refcounts := setCount m.refcounts (.var i) n }

def Model.decParam (O : Ops α) (m : Model α) (i : Nat) : Model α :=
  let n := getCount m.refcounts (.param i) - 1
  if n = 0 then
    match m.paramMap.lookup i with
    | some a =>
      { m with pyParam := (i, m.paramValue O i) :: m.pyParam.filter (fun p => p.1 != i),
               refcounts := delCount m.refcounts (.param i),
               paramMap := m.paramMap.filter (fun p => p.1 != i),
               ev := m.ev.removeParam a }
    | none => m
  else { m with refcounts := setCount m.refcounts (.param i) n }

def Model.decFloat (m : Model α) (f : Nat) : Model α :=
  let n := getCount m.refcounts (.flt f) - 1
  if n = 0 then
    { m with refcounts := delCount m.refcounts (.flt f), floatMap := m.floatMap.filter (· != f),
             ev := m.ev.removeFloat }
  else { m with refcounts := setCount m.refcounts (.flt f) n }

/-- the constants of a tree, as `TLeaf`s (bounds included), in order of first occurrence -/
def treeConsts : Expr → List TLeaf → List TLeaf
  | .var _, acc => acc
  | .param _, acc => acc
  | .const q, acc => if acc.contains (.const q) then acc else acc ++ [.const q]
  | .bin _ a b, acc => treeConsts b (treeConsts a acc)
  | .un _ a, acc => treeConsts a acc
  | .ifElse c t e, acc => treeConsts e (treeConsts t (treeConsts c acc))
  | .ineq b lb ub, acc =>
    let acc := treeConsts b acc
    let acc := if acc.contains (lbLeaf lb) then acc else acc ++ [lbLeaf lb]
    if acc.contains (ubLeaf ub) then acc else acc ++ [ubLeaf ub]

/-- `leaf_ndx_map` (position in the constraint's `leaves` vector) -/
def leafIndex (leaves : List TLeaf) (l : TLeaf) : Nat := leaves.idxOf l

def branchConsts (conditional : Bool) (bs : List Branch) : List TLeaf :=
  bs.foldl (fun acc b =>
    let acc := if conditional then treeConsts b.cond acc else acc
    let acc := treeConsts b.fn acc
    b.jac.foldl (fun acc p => treeConsts p.2 acc) acc) []

def tleafRef (varAddr paramAddr : Nat → Nat) : TLeaf → LeafRef
  | .var i => .obj (varAddr i)
  | .param i => .obj (paramAddr i)
  | .const q => .const q
  | .negInf => .negInf
  | .posInf => .posInf

def incVars (O : Ops α) (m : Model α) : List Nat → List Nat → Model α
  | [], _ => m
  | v :: vs, a :: as => incVars O (m.incVar O v a).1 vs as
  | v :: vs, [] => incVars O (m.incVar O v 0).1 vs []

def incParams (O : Ops α) (m : Model α) : List Nat → List Nat → Model α
  | [], _ => m
  | v :: vs, a :: as => incParams O (m.incParam O v a).1 vs as
  | v :: vs, [] => incParams O (m.incParam O v 0).1 vs []

/-- the loop `for f in floats: self._increment_float(f)`; stops at the first exception -/
def incFloats (inc : Model α → Nat → Model α × Out) (m : Model α) : List Nat → Model α × Out
  | [] => (m, .ok)
  | f :: fs => match inc m f with
    | (m', .ok) => incFloats inc m' fs
    | (m', o) => (m', o)

/-- `_register_constraint` / `_register_conditional_constraint`.
`conAddr` = address of the new C++ constraint; `varAddrs`/`paramAddrs` are aligned with `c.vars`/`c.params`: the
address `new` returns if the leaf gets a C object in this call (ignored for a leaf that already has one). On an exception the partially updated model is returned, as in Python. -/
def Model.register (O : Ops α) (inc : Model α → Nat → Model α × Out) (m : Model α) (c : ConSpec)
    (conAddr : Nat) (varAddrs paramAddrs : List Nat) : Model α × Out :=
  -- ccon = add_(if_else_)constraint(); _con_ccon_map[con] = ccon
  let m := { m with conMap := (c.id, (conAddr, c.conditional)) :: m.conMap }
  let m := incVars O m c.vars varAddrs
  let m := incParams O m c.params paramAddrs
  match incFloats inc m c.floats with
  | (m, .ok) =>
    let leaves : List TLeaf := c.vars.map .var ++ c.params.map .param ++ branchConsts c.conditional c.branches
    let ndx := leafIndex leaves
    let va := fun i => (m.varMap.lookup i).getD 0
    let pa := fun i => (m.paramMap.lookup i).getD 0
    let refs := leaves.map (tleafRef va pa)
    let ev :=
      if c.conditional then
        m.ev.addIfCon {
          addr := conAddr, leaves := refs
          condRpn := c.branches.map fun b => toRpn ndx b.cond
          fnRpn := c.branches.map fun b => toRpn ndx b.fn
          jacRpn := (c.vars.map fun v => (va v, c.branches.map fun b =>
                      match b.jac.lookup v with | some e => toRpn ndx e | none => [])).foldr
                      (fun p acc => insertBy (fun q : Nat × List (List Int) => q.1) p acc) [] }
      else
        match c.branches with
        | b :: _ =>
          m.ev.addCon {
            addr := conAddr, leaves := refs
            fnRpn := toRpn ndx b.fn
            jacRpn := (c.vars.map fun v => (va v, match b.jac.lookup v with | some e => toRpn ndx e | none => [])).foldr
                        (fun p acc => insertBy (fun q : Nat × List Int => q.1) p acc) [] }
        | [] => m.ev.addCon { addr := conAddr, leaves := refs, fnRpn := [], jacRpn := [] }
    ({ m with ev := ev, referenced := (c.id, (c.vars, c.params, c.floats)) :: m.referenced }, .ok)
  | (m, o) =>
    -- the C++ constraint object exists (it was created first) but has no rpn
    let ev := if c.conditional then m.ev.addIfCon { addr := conAddr, leaves := [], condRpn := [], fnRpn := [], jacRpn := [] }
              else m.ev.addCon { addr := conAddr, leaves := [], fnRpn := [], jacRpn := [] }
    ({ m with ev := ev }, o)

/-- `_remove_constraint` / `_remove_conditional_constraint` -/
def Model.remove (O : Ops α) (m : Model α) (id : Nat) : Model α × Out :=
  match m.conMap.lookup id with
  | none => (m, .keyError)
  | some (addr, isIf) =>
    let ev := if isIf then m.ev.removeIfCon addr else m.ev.removeCon addr
    let m := { m with ev := ev, conMap := m.conMap.filter (fun p => p.1 != id) }
    match m.referenced.lookup id with
    | none => (m, .keyError)
    | some (vs, ps, fs) =>
      let m := vs.foldl (fun m v => m.decVar O v) m
      let m := ps.foldl (fun m p => m.decParam O p) m
      let m := fs.foldl (fun m f => m.decFloat f) m
      ({ m with referenced := m.referenced.filter (fun p => p.1 != id) }, .ok)

/-- `Model.set_structure()` -/
def Model.setStructure (m : Model α) : Model α × Out :=
  match m.ev.setStructure with
  | some ev => ({ m with ev := ev }, .ok)
  | none => ({ m with ev := { m.ev with structureSet := true } }, .structureError)

/-- `load_var_values_from_x(x)`: `var_vector[i]->value = x[i]` -/
def loadX (xs : List α) : List (CLeaf α) → List (CLeaf α)
  | [] => []
  | c :: cs => (match xs[c.index]? with | some x => { c with value := x } | none => c) :: loadX xs cs

def Model.loadX (m : Model α) (xs : List α) : Model α × Out :=
  if m.ev.structureSet then ({ m with ev := { m.ev with vars := Wntr.Aml.loadX xs m.ev.vars } }, .ok)
  else (m, .structureError)

/-- `con.index` -/
def Model.conIndex (m : Model α) (id : Nat) : Option Nat :=
  match m.conMap.lookup id with
  | none => none
  | some (addr, isIf) =>
    if isIf then (findBy CIfCon.addr addr m.ev.ifCons).map (·.index)
    else (findBy CCon.addr addr m.ev.cons).map (·.index)

/-- `var.index` -/
def Model.varIndexOf (m : Model α) (i : Nat) : Option Nat :=
  (m.varMap.lookup i).bind fun a => (findBy CLeaf.addr a m.ev.vars).map (·.index)

end Wntr.Aml
