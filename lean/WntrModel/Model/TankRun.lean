/-
M5c `TankRun` — the loop of `WNTRSimulator.run_sim` as far as C05/C06 need it, built from M7 `Tank` and M5b `Controls`:

  accepted step = tentative `update_tank_heads` → presolve pass (`Controls.presolve`: partial step) → `update_tank_heads`
                  again from the same `_prev_head` with the accepted `dt` → solve (ARBITRARY function of link state, time and
                  tank heads returning the tanks' net inflows and the truth of every non-level condition) → post-solve pass →
                  re-solve while the pass changes something the tracker watches (trial counter, `trials` limit) → save →
                  `update_network_previous_values` → next time on the hydraulic grid.

Rules: evaluated on the rule grid inside the presolve pass (`Controls.presolveRules`, the loop M5 `Sched` models for time
conditions), here with tank-level premises evaluated on the heads updated to the rule instant.  Models without rules use the
simpler `Controls.presolve` (identical behaviour, see `presolveRules`).  Not modelled: feasibility controls (PRV/PSV/FCV source checks), isolation,
`NotImplementedError` of pressure conditions on volume-curve tanks (the run model treats the outcome as "no backtrack").
Rows carry two ghost fields (`before`, `due`) so that theorems can speak about the pass that preceded the save.
Import-free apart from M7/M5b.
-/
import WntrModel.Model.Controls
namespace Wntr.TankRun
open Wntr.Tank Wntr.Controls

inductive Cond where
  | level (tank : Nat) (c : LevelCond)   -- TankLevelCondition on tank `tank`
  | other (id : Nat)                     -- any other condition (junction pressure, time, CV, pump, …)
  deriving Repr, Inhabited

/-- a control with its condition and the passes it is registered in (`pre_and_postsolve` = both) -/
structure RCtl where
  ctl : Ctl
  cond : Cond
  pre : Bool
  post : Bool
  deriving Repr, Inhabited

/-- what a converged solve hands back: the tanks' net inflows (`tank.demand`) and the truth value of every opaque
condition on the solved state -/
structure Sol where
  demand : List Rat
  other : Nat → Bool

structure Cfg where
  pi : Rat
  tanks : List Tank
  hyd : Int
  duration : Int
  maxTrials : Nat
  tracked : List (Nat × Watch)
  ctls : List RCtl
  /-- the hydraulic solve: link state, time, tank heads ↦ solution, `none` = did not converge -/
  solve : Links → Int → List Rat → Option Sol
  /-- rules (`IF premise THEN actions PRIORITY p`; else-actions are not modelled) and the rule timestep -/
  rules : List (Cond × Nat × List Act) := []
  ruleStep : Int := 360
  /-- opaque conditions in the presolve pass (time conditions): id, prev time, tentative time ↦ (holds, backtrack) -/
  timeCond : Nat → Int → Int → Bool × Int

structure Row where
  time : Int
  heads : List Rat
  demand : List Rat
  links : Links
  /-- ghost: link state the last solve of this step used -/
  before : Links
  /-- ghost: controls triggered in the post-solve pass that preceded the save (check order) -/
  due : List Ctl
  deriving Inhabited

structure St where
  simTime : Int
  prevTime : Int
  first : Bool
  links : Links
  prevHeads : List Rat
  heads : List Rat
  /-- `tank.demand` of every tank; `none` before the first solve -/
  demand : Option (List Rat)
  /-- `_last_value` per control (position in `cfg.ctls`; unused for opaque conditions) -/
  lasts : List Rat
  /-- `_rule_iter` -/
  ruleIter : Int := 1
  /-- saved rows, newest first -/
  rows : List Row
  error : Bool
  deriving Inhabited

/-- `update_tank_heads` over all tanks -/
def updHeads (pi : Rat) : List Tank → List Rat → List Rat → List Rat → Rat → List Rat
  | t :: ts, p :: ps, h :: hs, q :: qs, dt => updateHead pi t p h q dt :: updHeads pi ts ps hs qs dt
  | _, _, _, _, _ => []

def demandOf (dem : Option (List Rat)) (i : Nat) : Option Rat := dem.bind (·[i]?)

/-- evaluate one condition: (holds, backtrack, `_last_value` afterwards) -/
def evalCond (cfg : Cfg) (heads : List Rat) (dem : Option (List Rat)) (sol : Option Sol) (prevT curT : Int) (last : Rat) :
    Cond → Bool × Int × Rat
  | .level i c =>
    match cfg.tanks[i]?, heads[i]? with
    | some t, some h =>
      let o := evalLevel cfg.pi t c h (demandOf dem i) last
      (o.state, o.back, o.last)
    | _, _ => (false, 0, last)
  | .other id =>
    match sol with
    | some s => (s.other id, 0, last)
    | none => ((cfg.timeCond id prevT curT).1, (cfg.timeCond id prevT curT).2, last)

/-- `ControlChecker.check()` of the pass selected by `sel`, threading the `_last_value`s -/
def check (cfg : Cfg) (sel : RCtl → Bool) (heads : List Rat) (dem : Option (List Rat)) (sol : Option Sol) (prevT curT : Int) :
    List RCtl → List Rat → List Due × List Rat
  | [], _ => ([], [])
  | c :: cs, lasts =>
    let last := lasts.headD 0
    let rest := check cfg sel heads dem sol prevT curT cs lasts.tail
    if sel c then
      let r := evalCond cfg heads dem sol prevT curT last c.cond
      ((if r.1 then [⟨c.ctl, r.2.1⟩] else []) ++ rest.1, r.2.2 :: rest.2)
    else (rest.1, last :: rest.2)

inductive Outcome where
  | error
  | ok (sol : Sol) (before after : Links) (due : List Ctl) (lasts : List Rat)

/-- solve, post-solve pass, re-solve while the pass changes something (`trial > max_trials` ⇒ error) -/
def trials (cfg : Cfg) (t prevT : Int) (heads : List Rat) : Nat → Nat → Links → List Rat → Outcome
  | 0, _, _, _ => .error
  | fuel + 1, trial, ls, lasts =>
    match cfg.solve ls t heads with
    | none => .error
    | some sol =>
      let r := check cfg (·.post) heads (some sol.demand) (some sol) prevT t cfg.ctls lasts
      let due := r.1.map (·.ctl)
      let ls' := runPass due ls
      if changed cfg.tracked ls ls' then
        if trial + 1 > cfg.maxTrials then .error else trials cfg t prevT heads fuel (trial + 1) ls' r.2
      else .ok sol ls ls' due r.2

/-- the grid time after `t`: `sim_time += hydraulic_timestep; sim_time -= sim_time % hydraulic_timestep` -/
def nextGrid (hyd t : Int) : Int := (t + hyd) - (t + hyd) % hyd

def tentativeHeads (cfg : Cfg) (s : St) : List Rat :=
  if s.first then s.heads
  else updHeads cfg.pi cfg.tanks s.prevHeads s.heads (s.demand.getD []) ((s.simTime - s.prevTime : Int) : Rat)

/-- the presolve pass of the step that starts in `s`: due list, new `_last_value`s -/
def preCheck (cfg : Cfg) (s : St) : List Due × List Rat :=
  check cfg (·.pre) (tentativeHeads cfg s) s.demand none s.prevTime s.simTime cfg.ctls s.lasts

/-- the rules triggered at rule instant `r`, run in priority order on `ls`: `update_tank_heads` to `r` (not on the first step),
`_rules.check()`, stable sort by priority, all then-actions -/
def ruleAt (cfg : Cfg) (s : St) (r : Int) (ls : Links) : Links :=
  let heads := if s.first then s.heads
    else updHeads cfg.pi cfg.tanks s.prevHeads s.heads (s.demand.getD []) ((r - s.prevTime : Int) : Rat)
  let trig := cfg.rules.filter fun ru => (evalCond cfg heads s.demand none s.prevTime r 0 ru.1).1
  let sorted := sortBy (fun ru : Cond × Nat × List Act => (ru.2.1 : Int)) trig
  sorted.foldl (fun l ru => ru.2.2.foldl write l) ls

/-- link state, accepted time and `_rule_iter` after the presolve pass -/
def preResultR (cfg : Cfg) (s : St) : Links × Int × Int :=
  if cfg.rules.isEmpty then
    let r := presolve cfg.tracked s.first (preCheck cfg s).1 s.links s.simTime
    (r.1, r.2, s.ruleIter)
  else presolveRules cfg.tracked s.first (preCheck cfg s).1 s.links s.simTime cfg.ruleStep s.ruleIter (ruleAt cfg s)

def preResult (cfg : Cfg) (s : St) : Links × Int := ((preResultR cfg s).1, (preResultR cfg s).2.1)

def acceptedHeads (cfg : Cfg) (s : St) : List Rat :=
  if s.first then s.heads
  else updHeads cfg.pi cfg.tanks s.prevHeads (tentativeHeads cfg s) (s.demand.getD [])
    (((preResult cfg s).2 - s.prevTime : Int) : Rat)

/-- one accepted step (or the error that ends the run) -/
def step (cfg : Cfg) (s : St) : St :=
  let t1 := (preResult cfg s).2
  let heads1 := acceptedHeads cfg s
  match trials cfg t1 s.prevTime heads1 (cfg.maxTrials + 2) 0 (preResult cfg s).1 (preCheck cfg s).2 with
  | .error => { s with error := true }
  | .ok sol before after due lasts =>
    { simTime := nextGrid cfg.hyd t1, prevTime := t1, first := false, links := after, prevHeads := heads1, heads := heads1,
      demand := some sol.demand, lasts := lasts, ruleIter := (preResultR cfg s).2.2,
      rows := ⟨t1, heads1, sol.demand, after, before, due⟩ :: s.rows, error := false }

def run (cfg : Cfg) : Nat → St → St
  | 0, s => s
  | n + 1, s => if s.error || decide (cfg.duration < s.simTime) then s else run cfg n (step cfg s)

/-- the state `run_sim` starts from: `sim_time = 0`, `_prev_sim_time = -1`, `_prev_head = head` -/
def init (links : Links) (heads : List Rat) (lasts : List Rat) : St :=
  { simTime := 0, prevTime := -1, first := true, links := links, prevHeads := heads, heads := heads, demand := none,
    lasts := lasts, rows := [], error := false }

end Wntr.TankRun
