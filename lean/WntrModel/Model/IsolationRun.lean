/-
M8, run level: where `run_sim` computes the isolation flags relative to the controls, the solves and the reported rows.

One pass of the `while True:` body of `WNTRSimulator.run_sim` (the order of the calls is regenerated from the source into
`Gen/IsolationShape.lean : runLoopToks` and compared with `Prog.refRunLoopToks` by `decide`, Props/C09.lean):

    [not resolve]  presolve controls and rules                        -- status actions  (Pass.pre)
                   _run_feasibility_controls()                        -- status actions  (Pass.pre)
                   _update_internal_graph(); _get_isolated_junctions_and_links()        = prepareSolve
                   solve; store_results_in_network                    -- reads the flags (zeros for flagged junctions / links)
                   _run_postsolve_controls(); _run_feasibility_controls()               -- status actions  (Pass.post)
                   if changes_made('graph'): resolve = True; _update_internal_graph(); continue
                   else: [on the report grid] save_results            -- link.status and the stored values  (Row)

A paused and continued simulation is a list of legs; each leg starts with `startRun` (possibly a new simulator object on a network
that still carries flags).  Import-free, executable (the driver runs it on the traces observed in real runs).
-/
import WntrModel.Model.Isolation
namespace Wntr.Isolation

/-- one status-changing control action as the change tracker sees it: (`ControlAction` on `status` → writes `_user_status`? ,
link id, value); `false` = an `_InternalControlAction` writing `_internal_status` -/
abbrev ActRec := Bool × Nat × Nat

def applyActs (s : Sim) (as : List ActRec) : Sim := as.foldl (fun s a => act s a.1 a.2.1 a.2.2) s

/-- what `save_results` records for one reported step, as far as this property goes -/
structure Row where
  status : List Nat      -- `link.status` of every link (results.link['status'])
  isoJ : List Bool       -- nodes whose head / demand / pressure / leak were stored as 0
  isoL : List Bool       -- links whose flow was stored as 0
  deriving Repr

structure Pass where
  pre : List ActRec      -- actions of presolve controls, rules and feasibility controls before the solve
  post : List ActRec     -- actions of postsolve and feasibility controls after the solve
  report : Bool          -- the accepted time lies on the report grid
  deriving Repr

def Sim.statuses (s : Sim) : List Nat := (List.range s.net.links.length).map s.status

def runPass (s : Sim) (p : Pass) : Sim × Option Row :=
  let s1 := applyActs s p.pre
  let s2 := prepareSolve s1
  let s3 := applyActs s2 p.post
  if s3.changed.isEmpty then
    (s3, if p.report then some { status := s3.statuses, isoJ := s3.isoJ, isoL := s3.isoL } else none)
  else (updateGraph s3, none)

def runPasses (s : Sim) : List Pass → Sim × List Row
  | [] => (s, [])
  | p :: ps =>
    let r := runPass s p
    let rr := runPasses r.1 ps
    (rr.1, r.2.toList ++ rr.2)

def runLegs (s : Sim) : List (List Pass) → Sim × List Row
  | [] => (s, [])
  | l :: ls =>
    let r := runPasses (startRun s).2 l
    let rr := runLegs r.1 ls
    (rr.1, r.2 ++ rr.2)

/-- a network before its first simulation: no flags -/
def freshSim (net : Net) (user internal : List Nat) : Sim :=
  { (initGraph net user internal).2 with prevIsoJ := [], prevIsoL := [] }

/-- the value `save_results` / `store_results_in_network` report for a junction and a link of a row -/
def Row.junction {α} (zero : α) (r : Row) (v : Nat) (solved : JRes α) : JRes α := storeJunction zero (r.isoJ.getD v false) solved
def Row.linkFlow {α} (zero : α) (r : Row) (l : Nat) (solved : α) : α := storeLink zero (r.isoL.getD l false) solved

end Wntr.Isolation
