/-
M9 `MorphShape` — the SHAPE of wntr/morph/link.py `_split_or_break_pipe` and wntr/morph/skel.py `_Skeletonize` that Model/Morph.lean is
written against: typed tokens for the parts the model evaluates (which attribute of the original pipe each argument of the new
pipe's `add_pipe` comes from, which length / vertex list each part gets, the comparison operators of the threshold test, of
`_select_dominant_pipe` and of the closest-junction choice) and, verbatim (`ast.unparse`, log calls and docstrings dropped), the guards
and statements of every operation.  harness/props/c19_translate.py regenerates the same structure from the source on every run
(Gen/MorphShape.lean) and Props/C19.lean proves the two equal: an edit of the source that touches any of this breaks a theorem.
-/
namespace Wntr.Morph

/-- where an argument of the new pipe's `add_pipe` comes from: the original pipe's attribute, the literals `0.0`, `'OPEN'`/`True`, `False` -/
inductive Src where
  | orig | zero | one | no | bad
  deriving Repr, DecidableEq

def Src.rat : Src → Rat → Rat
  | .orig, x => x
  | .one, _ => 1
  | _, _ => 0

def Src.nat : Src → Nat → Nat
  | .orig, x => x
  | .one, _ => 1
  | _, _ => 0

def Src.bool : Src → Bool → Bool
  | .orig, b => b
  | .one, _ => true
  | _, _ => false

/-- `original_length * split_at_point` | `original_length * (1 - split_at_point)` -/
inductive LenSrc where
  | timesF | times1mF | bad
  deriving Repr, DecidableEq

def LenSrc.eval : LenSrc → Rat → Rat → Rat
  | .timesF, L, f => L * f
  | .times1mF, L, f => L * (1 - f)
  | .bad, _, _ => 0

/-- `first_vertices` | `last_vertices` -/
inductive VertSrc where
  | first | last | bad
  deriving Repr, DecidableEq

def VertSrc.eval {α : Type} : VertSrc → List α → List α → List α
  | .first, f, _ => f
  | .last, _, l => l
  | .bad, _, _ => []

inductive Cmp where
  | lt | le | gt | ge | bad
  deriving Repr, DecidableEq

def Cmp.eval : Cmp → Rat → Rat → Bool
  | .lt, a, b => decide (a < b)
  | .le, a, b => decide (a ≤ b)
  | .gt, a, b => decide (a > b)
  | .ge, a, b => decide (a ≥ b)
  | .bad, _, _ => false

structure NewPipeShape where
  diam : Src
  rough : Src
  minor : Src
  status : Src
  cv : Src
  deriving Repr, DecidableEq

structure SplitShape where
  newPipe : NewPipeShape
  endOldLen : LenSrc
  endNewLen : LenSrc
  startOldLen : LenSrc
  startNewLen : LenSrc
  endOldVerts : VertSrc
  endNewVerts : VertSrc
  startOldVerts : VertSrc
  startNewVerts : VertSrc
  texts : List (String × List String)
  deriving Repr, DecidableEq

structure SkelShape where
  /-- `pipe.diameter <= pipe_threshold` (all five occurrences) -/
  thr : Cmp
  /-- `_select_dominant_pipe`: `pipe0.diameter >= pipe1.diameter` → pipe0 -/
  dom : Cmp
  /-- closest junction: `pipe0.length < pipe1.length` → neighbour 0 -/
  closest : Cmp
  texts : List (String × List String)
  deriving Repr, DecidableEq

/-! ### arithmetic expressions of `_series_merge_properties` / `_parallel_merge_properties`, regenerated from the source -/

/-- `var`: an attribute of `pipe0`, `pipe1` or the dominant pipe (`"pipe0.length"`, `"dominant.diameter"`, …); `lit n d`: the
decimal literal `n/d` (`4.87` = `lit 487 100`) -/
inductive MX where
  | var (name : String)
  | lit (num den : Nat)
  | add (a b : MX)
  | sub (a b : MX)
  | mul (a b : MX)
  | div (a b : MX)
  | neg (a : MX)
  | pow (a b : MX)
  deriving Repr, DecidableEq

def MX.eval {α : Type} [Add α] [Sub α] [Mul α] [Div α] [Neg α] (pw : α → α → α) (litv : Nat → Nat → α) (env : String → α) : MX → α
  | .var n => env n
  | .lit n d => litv n d
  | .add a b => a.eval pw litv env + b.eval pw litv env
  | .sub a b => a.eval pw litv env - b.eval pw litv env
  | .mul a b => a.eval pw litv env * b.eval pw litv env
  | .div a b => a.eval pw litv env / b.eval pw litv env
  | .neg a => - a.eval pw litv env
  | .pow a b => pw (a.eval pw litv env) (b.eval pw litv env)

/-- the `props` dictionary of one of the two functions (`props[...]` references inlined) -/
structure MergeMX where
  length : MX
  diam : MX
  minor : MX
  status : String
  rough : MX
  deriving Repr, DecidableEq

/-- the shape of `_split_or_break_pipe` at /repo HEAD 14495b3c (after 8195887e: new pipe open, no minor loss, no check valve) -/
def codeSplitShape : SplitShape :=
  { newPipe := { diam := .orig, rough := .orig, minor := .zero, status := .one, cv := .no },
    endOldLen := .timesF, endNewLen := .times1mF, startOldLen := .times1mF, startNewLen := .timesF,
    endOldVerts := .first, endNewVerts := .last, startOldVerts := .last, startNewVerts := .first,
    texts := [
      ("endEnds", [
        "new_pipe_name",
        "j1",
        "end_node.name",
        "pipe.end_node = wn2.get_node(j0)"]),
      ("endStmts", [
        "pipe.end_node = wn2.get_node(j0)",
        "pipe.length = original_length * split_at_point",
        "pipe.vertices = first_vertices",
        "new_pipe = wn2.get_link(new_pipe_name)",
        "new_pipe.vertices = last_vertices"]),
      ("startEnds", [
        "new_pipe_name",
        "start_node.name",
        "j1",
        "pipe.start_node = wn2.get_node(j0)"]),
      ("startStmts", [
        "pipe.start_node = wn2.get_node(j0)",
        "pipe.length = original_length * (1 - split_at_point)",
        "pipe.vertices = last_vertices",
        "new_pipe = wn2.get_link(new_pipe_name)",
        "new_pipe.vertices = first_vertices"]),
      ("elevation", [
        "isinstance(start_node, Reservoir) -> end_node.elevation",
        "isinstance(end_node, Reservoir) -> start_node.elevation",
        "else -> start_node.elevation + (end_node.elevation - start_node.elevation) * split_at_point"]),
      ("checks", [
        "not isinstance(pipe, Pipe) => raise ValueError",
        "split_at_point < 0 or split_at_point > 1 => raise ValueError",
        "new_pipe_name in link_list => raise RuntimeError"]),
      ("geometry", [
        "segment['start_pos'] == pipe.start_node.coordinates",
        "segment['subtotal'] + segment['length'] >= split_length > segment['subtotal']",
        "segment['subtotal'] < split_length",
        "pipe_vertices = [pipe.start_node.coordinates, *pipe.vertices, pipe.end_node.coordinates]",
        "split_length = length * split_at_point",
        "junction_coordinates = pipe.start_node.coordinates",
        "junction_coordinates = (x0 + dx * split_at_point, y0 + dy * split_at_point)",
        "segment_length = sum([(a - b) ** 2 for a, b in zip(start_pos, end_pos)]) ** 0.5",
        "split_at = (split_length - segment['subtotal']) / segment['length']",
        "junction_coordinates = (x0 + dx * split_at, y0 + dy * split_at)",
        "subtotal += segment_length",
        "segments.append({'start_pos': start_pos, 'end_pos': end_pos, 'length': segment_length, 'subtotal': subtotal})",
        "first_vertices.append(segment['start_pos'])",
        "last_vertices.append(segment['start_pos'])"]),
      ("newJunction", [
        "new_junction_name",
        "base_demand=0.0",
        "coordinates=junction_coordinates",
        "demand_pattern=None",
        "elevation=junction_elevation"]),
      ("flags", [
        "flag == 'BREAK' => j0 = new_junction_names[0]; j1 = new_junction_names[1]",
        "flag == 'SPLIT' => j0 = new_junction_names[0]; j1 = new_junction_names[0]"]),
      ("copy", [
        "return_copy => wn2 = copy.deepcopy(wn) | wn2 = wn"])] }

/-- the shape of `_Skeletonize` at /repo HEAD 14495b3c -/
def codeSkelShape : SkelShape :=
  { thr := .le, dom := .ge, closest := .lt,
    texts := [
      ("trimGuards", [
        "junc_name in self.junc_to_exclude",
        "len(neighbors) > 1",
        "len(neighbors) == 0",
        "nPipes > 1",
        "not isinstance(neigh_junc, Junction)",
        "not (isinstance(pipe, Pipe) and pipe.diameter <= pipe_threshold and (pipe_name not in self.pipe_to_exclude))"]),
      ("trimEffects", [
        "for junc_name in self.wn.junction_name_list:",
        "neighbors = list(nx.neighbors(self.G, junc_name))",
        "neigh_junc_name = neighbors[0]",
        "nPipes = len(self.G.adj[junc_name][neigh_junc_name])",
        "neigh_junc = self.wn.get_node(neigh_junc_name)",
        "pipe_name = list(self.G.adj[junc_name][neigh_junc_name].keys())[0]",
        "pipe = self.wn.get_link(pipe_name)",
        "self.skeleton_map[neigh_junc_name].extend(self.skeleton_map[junc_name])",
        "self.skeleton_map[junc_name] = []",
        "junc = self.wn.get_node(junc_name)",
        "for demand in junc.demand_timeseries_list:",
        "neigh_junc.demand_timeseries_list.append(demand)",
        "end for",
        "junc.demand_timeseries_list.clear()",
        "self.wn.remove_link(pipe_name, force=True)",
        "self.wn.remove_node(junc_name, force=True)",
        "self.G.remove_node(junc_name)",
        "self.num_branch_trim += 1",
        "end for",
        "return (self.wn, self.skeleton_map)"]),
      ("seriesGuards", [
        "junc_name in self.junc_to_exclude",
        "not len(neighbors) == 2",
        "not (isinstance(neigh_junc0, Junction) or isinstance(neigh_junc1, Junction))",
        "len(pipe_name0) > 1 or len(pipe_name1) > 1",
        "not (isinstance(pipe0, Pipe) and isinstance(pipe1, Pipe) and (pipe0.diameter <= pipe_threshold and pipe1.diameter <= pipe_threshold) and (pipe_name0 not in self.pipe_to_exclude) and (pipe_name1 not in self.pipe_to_exclude))"]),
      ("seriesEffects", [
        "for junc_name in self.wn.junction_name_list:",
        "neighbors = list(nx.neighbors(self.G, junc_name))",
        "neigh_junc_name0 = neighbors[0]",
        "neigh_junc_name1 = neighbors[1]",
        "neigh_junc0 = self.wn.get_node(neigh_junc_name0)",
        "neigh_junc1 = self.wn.get_node(neigh_junc_name1)",
        "pipe_name0 = list(self.G.adj[junc_name][neigh_junc_name0].keys())",
        "pipe_name1 = list(self.G.adj[junc_name][neigh_junc_name1].keys())",
        "pipe_name0 = pipe_name0[0]",
        "pipe_name1 = pipe_name1[0]",
        "pipe0 = self.wn.get_link(pipe_name0)",
        "pipe1 = self.wn.get_link(pipe_name1)",
        "if isinstance(neigh_junc0, Junction) and isinstance(neigh_junc1, Junction): ;     if pipe0.length < pipe1.length: ;         closest_junc = neigh_junc0 ;     else: ;         closest_junc = neigh_junc1 ; elif isinstance(neigh_junc0, Junction): ;     closest_junc = neigh_junc0 ; elif isinstance(neigh_junc1, Junction): ;     closest_junc = neigh_junc1 ; else: ;     continue",
        "self.skeleton_map[closest_junc.name].extend(self.skeleton_map[junc_name])",
        "self.skeleton_map[junc_name] = []",
        "junc = self.wn.get_node(junc_name)",
        "for demand in junc.demand_timeseries_list:",
        "closest_junc.demand_timeseries_list.append(demand)",
        "end for",
        "junc.demand_timeseries_list.clear()",
        "self.wn.remove_link(pipe_name0, force=True)",
        "self.wn.remove_link(pipe_name1, force=True)",
        "self.wn.remove_node(junc_name, force=True)",
        "self.G.remove_node(junc_name)",
        "props = self._series_merge_properties(pipe0, pipe1)",
        "dominant_pipe = self._select_dominant_pipe(pipe0, pipe1)",
        "self.wn.add_pipe(dominant_pipe.name, start_node_name=neigh_junc_name0, end_node_name=neigh_junc_name1, length=props['length'], diameter=props['diameter'], roughness=props['roughness'], minor_loss=props['minorloss'], initial_status=props['status'])",
        "self.G.add_edge(neigh_junc_name0, neigh_junc_name1, dominant_pipe.name)",
        "self.num_series_merge += 1",
        "end for",
        "return (self.wn, self.skeleton_map)"]),
      ("parallelGuards", [
        "junc_name in self.junc_to_exclude",
        "len(parallel_pipe_names) == 1",
        "not (isinstance(pipe0, Pipe) and isinstance(pipe1, Pipe) and (pipe0.diameter <= pipe_threshold and pipe1.diameter <= pipe_threshold) and (pipe_name0 not in self.pipe_to_exclude) and (pipe_name1 not in self.pipe_to_exclude))"]),
      ("parallelEffects", [
        "for junc_name in self.wn.junction_name_list:",
        "neighbors = nx.neighbors(self.G, junc_name)",
        "for neighbor in [n for n in neighbors]:",
        "parallel_pipe_names = list(self.G.adj[junc_name][neighbor].keys())",
        "for (pipe_name0, pipe_name1) in itertools.combinations(parallel_pipe_names, 2):",
        "try: pipe0 = self.wn.get_link(pipe_name0); pipe1 = self.wn.get_link(pipe_name1) except: continue",
        "self.wn.remove_link(pipe_name0, force=True)",
        "self.wn.remove_link(pipe_name1, force=True)",
        "self.G.remove_edge(neighbor, junc_name, pipe_name0)",
        "self.G.remove_edge(junc_name, neighbor, pipe_name1)",
        "props = self._parallel_merge_properties(pipe0, pipe1)",
        "dominant_pipe = self._select_dominant_pipe(pipe0, pipe1)",
        "self.wn.add_pipe(dominant_pipe.name, start_node_name=dominant_pipe.start_node_name, end_node_name=dominant_pipe.end_node_name, length=props['length'], diameter=props['diameter'], roughness=props['roughness'], minor_loss=props['minorloss'], initial_status=props['status'])",
        "self.G.add_edge(dominant_pipe.start_node_name, dominant_pipe.end_node_name, dominant_pipe.name)",
        "self.num_parallel_merge += 1",
        "end for",
        "end for",
        "end for",
        "return (self.wn, self.skeleton_map)"]),
      ("seriesProps", [
        "props = {}",
        "dominant_pipe = self._select_dominant_pipe(pipe0, pipe1)",
        "props['length'] = pipe0.length + pipe1.length",
        "props['diameter'] = dominant_pipe.diameter",
        "props['minorloss'] = dominant_pipe.minor_loss",
        "props['status'] = dominant_pipe.status",
        "props['roughness'] = (props['length'] / props['diameter'] ** 4.87) ** 0.54 * (pipe0.length / (pipe0.diameter ** 4.87 * pipe0.roughness ** 1.85) + pipe1.length / (pipe1.diameter ** 4.87 * pipe1.roughness ** 1.85)) ** (-0.54)",
        "return props"]),
      ("parallelProps", [
        "props = {}",
        "dominant_pipe = self._select_dominant_pipe(pipe0, pipe1)",
        "props['length'] = dominant_pipe.length",
        "props['diameter'] = dominant_pipe.diameter",
        "props['minorloss'] = dominant_pipe.minor_loss",
        "props['status'] = dominant_pipe.status",
        "props['roughness'] = props['length'] ** 0.54 / props['diameter'] ** 2.63 * (pipe0.roughness * pipe0.diameter ** 2.63 / pipe0.length ** 0.54 + pipe1.roughness * pipe1.diameter ** 2.63 / pipe1.length ** 0.54)",
        "return props"]),
      ("run", [
        "num_junctions = self.wn.num_junctions",
        "iteration = 0",
        "flag = True",
        "while flag: if branch_trim: self.branch_trim(pipe_threshold) if series_pipe_merge: self.series_pipe_merge(pipe_threshold) if parallel_pipe_merge: self.parallel_pipe_merge(pipe_threshold) iteration = iteration + 1 if max_cycles is not None and iteration > max_cycles: flag = False if num_junctions == self.wn.num_junctions: flag = False else: num_junctions = self.wn.num_junctions",
        "return (self.wn, self.skeleton_map)"]),
      ("exclusions", [
        "skel_map = {}",
        "self.skeleton_map = skel_map",
        "junc_with_controls = []",
        "pipe_with_controls = []",
        "self.junc_to_exclude = list(set(junc_with_controls))",
        "self.junc_to_exclude.extend(junctions_to_exclude)",
        "self.pipe_to_exclude = list(set(pipe_with_controls))",
        "self.pipe_to_exclude.extend(pipes_to_exclude)",
        "skel_map[node_name] = [node_name]",
        "junc_with_controls.append(req.name)",
        "pipe_with_controls.append(req.name)"])] }

/-! projections of the two shapes as rewrite rules (so that proofs never unfold the text tables) -/
theorem codeSplitShape_newPipe : codeSplitShape.newPipe = { diam := .orig, rough := .orig, minor := .zero, status := .one, cv := .no } := rfl
theorem codeSplitShape_endOldLen : codeSplitShape.endOldLen = .timesF := rfl
theorem codeSplitShape_endNewLen : codeSplitShape.endNewLen = .times1mF := rfl
theorem codeSplitShape_startOldLen : codeSplitShape.startOldLen = .times1mF := rfl
theorem codeSplitShape_startNewLen : codeSplitShape.startNewLen = .timesF := rfl
theorem codeSplitShape_endOldVerts : codeSplitShape.endOldVerts = .first := rfl
theorem codeSplitShape_endNewVerts : codeSplitShape.endNewVerts = .last := rfl
theorem codeSplitShape_startOldVerts : codeSplitShape.startOldVerts = .last := rfl
theorem codeSplitShape_startNewVerts : codeSplitShape.startNewVerts = .first := rfl
theorem codeSkelShape_thr : codeSkelShape.thr = .le := rfl
theorem codeSkelShape_dom : codeSkelShape.dom = .ge := rfl
theorem codeSkelShape_closest : codeSkelShape.closest = .lt := rfl

end Wntr.Morph
