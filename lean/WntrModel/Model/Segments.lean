/-
M9 `Segments` — `wntr.metrics.topographic.valve_segments` / `valve_segment_attributes`.

Nodes are 0..n-1, link `k` is `links[k] = (u, v)` (u ≠ v: self-loops are outside the model), the valve layer is the list of
DataFrame rows `(link, node)` in row order, duplicates allowed.  `comp : Nat → Nat` is the index of a node's component in the
list returned by `networkx.connected_components` for the graph with every valved link removed — a PARAMETER with the contract
`CompOk` (Props/C18.lean); the driver uses `compMin`.

Mirrors the labelling passes of `valve_segments`:
  pass 1  links with a valve at both ends get fresh labels 1, 2, … in edge order            → `isoLabel`
  pass 2  the comparison `valve_layer['node'] == 'N_' + name` never matches (prefix), so only link-less nodes take a
          (later overwritten) label                                                           → `numLinkless` (label gap only)
  pass 4  each component of the unvalved graph gets the next label, for its nodes            → `nodeLabel`
  pass 5  an unvalved link takes the label of its first node                                  → `anchor` = first end
  pass 6  a link with ONE valve takes the label of its unvalved end; with two it keeps its pass-1 label → `anchor` = other end
The counters are written in closed form (`seg_index` after pass 1 = number of isolated links, …).
`_valve_criticality*` are `numSurround`, `increase` over the de-duplicated rows, each keeping its original row number.
-/
namespace Wntr.Segments

structure Inp where
  n : Nat
  links : List (Nat × Nat)
  layer : List (Nat × Nat)     -- (link, node)
  deriving Repr

def Inp.nl (i : Inp) : Nat := i.links.length
def Inp.ends (i : Inp) (k : Nat) : Nat × Nat := i.links.getD k (0, 0)

/-- `valve_layer.drop_duplicates()`: first occurrences, with their original row numbers -/
def dedupAux : List (Nat × Nat) → Nat → List (Nat × Nat) → List (Nat × (Nat × Nat))
  | [], _, _ => []
  | r :: rs, idx, seen => if r ∈ seen then dedupAux rs (idx + 1) seen else (idx, r) :: dedupAux rs (idx + 1) (r :: seen)

def Inp.rows (i : Inp) : List (Nat × (Nat × Nat)) := dedupAux i.layer 0 []

def Inp.hasValve (i : Inp) (k u : Nat) : Bool := i.layer.any (· == (k, u))

/-- every row names an existing link and one of its two (distinct) ends -/
def Inp.valid (i : Inp) : Bool :=
  i.links.all (fun e => e.1 != e.2 && e.1 < i.n && e.2 < i.n) &&
  i.layer.all (fun r => r.1 < i.nl && (r.2 == (i.ends r.1).1 || r.2 == (i.ends r.1).2))

def Inp.valved (i : Inp) (k : Nat) : Bool := i.layer.any (·.1 == k)

/-- pass 1 condition: `set(link_valves['node']) >= {start_node, end_node}` -/
def Inp.isolated (i : Inp) (k : Nat) : Bool := i.hasValve k (i.ends k).1 && i.hasValve k (i.ends k).2

def Inp.numIso (i : Inp) : Nat := ((List.range i.nl).filter i.isolated).length

def Inp.linkless (i : Inp) (u : Nat) : Bool := i.links.all (fun e => e.1 != u && e.2 != u)

def Inp.numLinkless (i : Inp) : Nat := ((List.range i.n).filter i.linkless).length

def Inp.isoLabel (i : Inp) (k : Nat) : Nat := ((List.range k).filter i.isolated).length + 1

def Inp.nodeLabel (i : Inp) (comp : Nat → Nat) (u : Nat) : Nat := i.numIso + i.numLinkless + 1 + comp u

/-- the node whose label a non-isolated link takes -/
def Inp.anchor (i : Inp) (k : Nat) : Nat := if i.hasValve k (i.ends k).1 then (i.ends k).2 else (i.ends k).1

def Inp.linkLabel (i : Inp) (comp : Nat → Nat) (k : Nat) : Nat :=
  if i.isolated k then i.isoLabel k else i.nodeLabel comp (i.anchor k)

/-- `segment_size`: members of segment `s` among nodes / links (`value_counts`), for label functions `nlab`, `llab` -/
def nodeSize (n : Nat) (nlab : Nat → Nat) (s : Nat) : Nat := ((List.range n).filter fun u => nlab u == s).length
def linkSize (nl : Nat) (llab : Nat → Nat) (s : Nat) : Nat := ((List.range nl).filter fun k => llab k == s).length

/-! ### attributes (over the label functions `nlab = nodeLabel comp`, `llab = linkLabel comp`) -/

/-- valve row `r = (link, node)` touches segment `a` or `b` -/
def touches (nlab llab : Nat → Nat) (a b : Nat) (r : Nat × Nat) : Bool :=
  llab r.1 == a || llab r.1 == b || nlab r.2 == a || nlab r.2 == b

/-- `_valve_criticality` for the row `r`: `len(V_list) - 1`, 0 when both sides are the same segment -/
def numSurround (rows : List (Nat × (Nat × Nat))) (nlab llab : Nat → Nat) (r : Nat × Nat) : Nat :=
  if nlab r.2 == llab r.1 then 0 else ((rows.filter fun x => touches nlab llab (llab r.1) (nlab r.2) x.2).length) - 1

def sumWhere (n : Nat) (p : Nat → Bool) (w : Nat → Rat) : Rat :=
  ((List.range n).filter p).foldl (fun acc u => acc + w u) 0

def ratMax (a b : Rat) : Rat := if a ≤ b then b else a

/-- `(L_link + L_node) / max(L_link, L_node) - 1`, 0 when both are 0 -/
def increase (a b : Rat) : Rat := if a = 0 ∧ b = 0 then 0 else (a + b) / ratMax a b - 1

/-- `_valve_criticality_demand`: sums over the NODES of the link-side and node-side segments -/
def demandIncrease (n : Nat) (nlab llab : Nat → Nat) (dem : Nat → Rat) (r : Nat × Nat) : Rat :=
  if nlab r.2 == llab r.1 then 0
  else increase (sumWhere n (fun u => nlab u == llab r.1) dem) (sumWhere n (fun u => nlab u == nlab r.2) dem)

/-- `_valve_criticality_length`: sums over the LINKS of the link-side and node-side segments -/
def lengthIncrease (nl : Nat) (nlab llab : Nat → Nat) (len : Nat → Rat) (r : Nat × Nat) : Rat :=
  if nlab r.2 == llab r.1 then 0
  else increase (sumWhere nl (fun k => llab k == llab r.1) len) (sumWhere nl (fun k => llab k == nlab r.2) len)

/-! ### a component function for the driver: smallest node id reachable through unvalved links -/

def relax (i : Inp) (lab : List Nat) : List Nat :=
  (List.range i.nl).foldl (fun lab k =>
    if i.valved k then lab
    else
      let e := i.ends k
      let m := min (lab.getD e.1 0) (lab.getD e.2 0)
      (lab.set e.1 m).set e.2 m) lab

def compLabels (i : Inp) : List Nat := (List.range i.n).foldl (fun lab _ => relax i lab) (List.range i.n)

def compMin (i : Inp) (u : Nat) : Nat := (compLabels i).getD u u

/-- the labels are closed: the two ends of every unvalved link carry the same label -/
def Inp.closed (i : Inp) (lab : List Nat) : Bool :=
  (List.range i.nl).all fun k => i.valved k || lab.getD (i.ends k).1 0 == lab.getD (i.ends k).2 0

/-- the concrete components function: `n` sweeps of min-label relaxation, accepted only when the result is closed
(Lemmas/SegmentsComp.lean: an accepted result satisfies the `connected_components` contract `CompOk`) -/
def compChecked (i : Inp) : Option (List Nat) :=
  let lab := compLabels i
  if i.closed lab then some lab else none

end Wntr.Segments
