/-
`InpText` — the text forms that carry controls and rules through INP files and through the `to_dict`
dictionary (wntr/epanet/io.py: `_EpanetRule`, `_read_control_line`, `InpFile._write_controls`,
`_write_times`, `_str_time_to_sec`, `_clock_time_to_sec`; wntr/network/controls.py: `__str__` of
conditions, `Rule.to_dict`).  Import-free; everything is over `Int` seconds and abstract atoms.
-/
namespace Wntr.InpText

/-! ### rule conditions: tree -> clause list -> tree -/

inductive Conj where
  | if_ | and_ | or_
  deriving Repr, DecidableEq, Inhabited

/-- `AndCondition` / `OrCondition` over atomic conditions `α` -/
inductive Cond (α : Type) where
  | atom (a : α)
  | and (l r : Cond α)
  | or (l r : Cond α)
  deriving Repr, DecidableEq, Inhabited

variable {α : Type}

/-- `_EpanetRule.add_control_condition(cond, prefix)` (and, token for token, `str(cond)` used by
`Rule.to_dict`): the in-order list of clauses; the first atom of the right operand carries AND / OR -/
def flatten : Cond α → Conj → List (Conj × α)
  | .atom a, p => [(p, a)]
  | .and l r, p => flatten l p ++ flatten r .and_
  | .or l r, p => flatten l p ++ flatten r .or_

/-- one clause of `_EpanetRule.generate_control`; the stack is `condition_list` REVERSED (head = last).
`OR` pops the last entry and pushes `OrCondition(last, new)`; `IF`/`AND` push. -/
def step (stack : List (Cond α)) (cl : Conj × α) : List (Cond α) :=
  match cl.1, stack with
  | .or_, last :: rest => .or last (.atom cl.2) :: rest
  | _, st => .atom cl.2 :: st

def run (stack : List (Cond α)) (cls : List (Conj × α)) : List (Cond α) := cls.foldl step stack

/-- the final loop: `AndCondition(AndCondition(c1, c2), c3) …` over `condition_list` in order -/
def finish : List (Cond α) → Option (Cond α)
  | [] => none
  | c :: cs => some (cs.foldl .and c)

def parse (cls : List (Conj × α)) : Option (Cond α) := finish (run [] cls).reverse

/-- what the parser can produce: a left-nested conjunction of left-nested disjunctions of atoms -/
def isDisj : Cond α → Bool
  | .atom _ => true
  | .or l (.atom _) => isDisj l
  | _ => false

def isShape : Cond α → Bool
  | .and l r => isShape l && isDisj r
  | c => isDisj c

def conjs : Cond α → List (Cond α)
  | .and l r => conjs l ++ [r]
  | c => [c]

/-! ### keyword splitting of `_EpanetRule.parse_rules_lines` -/

def keywords : List String := ["RULE", "IF", "THEN", "ELSE", "AND", "OR", "PRIORITY"]
def isKw (w : String) : Bool := keywords.contains w.toUpper

/-- first loop of `parse_rules_lines`: a keyword flushes the words gathered so far and starts a new clause.
`cur` and `acc` are reversed accumulators. -/
def splitGo : List String → List String → List (List String) → List (List String)
  | [], cur, acc => (if cur.isEmpty then acc else cur.reverse :: acc).reverse
  | w :: ws, cur, acc =>
    if isKw w then splitGo ws [w] (if cur.isEmpty then acc else cur.reverse :: acc)
    else splitGo ws (w :: cur) acc

def splitKw (ws : List String) : List (List String) := splitGo ws [] []

/-! ### simple-control time field -/

/-- `InpFile._write_controls` as repaired: `AT TIME h:mm:ss` -/
def hmsOf (sec : Int) : Int × Int × Int :=
  let h := sec / 3600
  let r := sec - h * 3600
  let m := r / 60
  (h, m, r - m * 60)

/-- `_str_time_to_sec` on `h:mm:ss` -/
def strTimeToSec (h m s : Int) : Int := h * 3600 + m * 60 + s

/-- `_write_times` START CLOCKTIME: (hours shown, minutes, seconds, isPM) -/
def startClockOut (sec : Int) : Int × Int × Int × Bool :=
  let (h, m, s) := hmsOf sec
  if h < 12 then (h, m, s, false) else (h - 12, m, s, true)

/-- `_clock_time_to_sec(s, am_pm)` on `hh:mm:ss`: `s.startswith('12')` subtracts 12 h; PM adds 12 h
(and refuses times already ≥ 12:00:00) -/
def clockTimeToSec (h m s : Int) (pm : Bool) : Option Int :=
  let t := h * 3600 + m * 60 + s
  let t := if h = 12 ∨ (120 ≤ h ∧ h < 130) ∨ (1200 ≤ h ∧ h < 1300) then t - 43200 else t
  if pm then (if t ≥ 43200 then none else some (t + 43200)) else some t

end Wntr.InpText

/-! ## `InpSchema` — the shape of the INP section writers / readers (wntr/epanet/io.py)

The translator (`harness/props/c12.py`, Python `ast`) records for every section writer each value that reaches a
`.format(...)` call and for every section reader each destination that is filled (`Gen/SchemaInp.lean`). -/
namespace Wntr.InpSchema

/-- a `to_si` / `from_si` call as written in io.py: direction, parameter enum (HydParam / QualParam value), and which
optional arguments are passed (`darcy_weisbach=`, `reaction_order=<option name>`, mass units) -/
structure Conv where
  toSI : Bool
  hyd : Bool
  param : Nat
  dw : Bool
  order : String
  mass : Bool
  deriving Repr, DecidableEq

/-- `write = true`: `name` is the model attribute read by `_write_X`, `fmt` the format spec it is printed with;
`write = false`: `name` is the destination filled by `_read_X` (`add_*` parameter, attribute, `.append` slot).
`toks`: string constants of the enclosing `if` tests and literal keywords (the guard); `const`: the value is a literal. -/
structure Row where
  sec : String
  write : Bool
  name : String
  conv : Option Conv
  fmt : String
  toks : List String
  const : Bool
  /-- the translator's numbering of the strings above (same string = same number; `Gen.strings`): section, name, guard tokens -/
  ids : Nat × Nat × List Nat
  deriving Repr, DecidableEq

/-- one line of the specification: attribute `key` of element class `cls` is carried by the writer of section `wsec`
(reading model attribute `w` under guard `wtoks`) and restored by the reader of section `rsec` into `r` under `rtoks` -/
structure Field where
  cls : String
  key : String
  wsec : String
  w : String
  wtoks : List String
  rsec : String
  r : String
  rtoks : List String
  wids : Nat × Nat × List Nat
  rids : Nat × Nat × List Nat
  deriving Repr, DecidableEq

/-- same section, same direction, same name, and every guard token asked for is among the row's (compared through the
translator's string numbering: kernel evaluation of `String` equality is three orders of magnitude slower) -/
def Row.has (row : Row) (write : Bool) (ids : Nat × Nat × List Nat) : Bool :=
  row.write == write && row.ids.2.1 == ids.2.1 && row.ids.1 == ids.1 && ids.2.2.all fun t => row.ids.2.2.contains t

/-- the rows come grouped by section (number of the section name, rows of that section) -/
abbrev Table := List (Nat × List Row)

def Table.sec (t : Table) (id : Nat) : List Row :=
  match t.find? fun p => p.1 == id with
  | some p => p.2
  | none => []

def Table.all (t : Table) : List Row := t.flatMap (·.2)

def Field.wRows (f : Field) (t : Table) : List Row := (t.sec f.wids.1).filter fun x => x.has true f.wids
def Field.rRows (f : Field) (t : Table) : List Row := (t.sec f.rids.1).filter fun x => x.has false f.rids

/-- two conversion calls undo each other as far as their SHAPE goes: opposite directions, same parameter family and
the same optional arguments; whether the two parameters convert alike is decided on the units table -/
def Conv.shapeOk (a b : Conv) : Bool :=
  a.toSI != b.toSI && a.hyd == b.hyd && a.dw == b.dw && a.order == b.order && a.mass == b.mass

def rowsCompat (a b : Row) : Bool :=
  match a.conv, b.conv with
  | none, none => true
  | some x, some y => x.shapeOk y
  | _, _ => false

/-- the field is present on both sides and every (written, read) pair of non-literal rows agrees on the conversion shape -/
def Field.ok (f : Field) (rows : Table) : Bool :=
  !(f.wRows rows).isEmpty && !(f.rRows rows).isEmpty &&
  ((f.wRows rows).filter (!·.const)).all fun a => ((f.rRows rows).filter (!·.const)).all fun b => rowsCompat a b

/-- the (write-side, read-side) conversion pairs a specification uses -/
def convPairs (fs : List Field) (rows : Table) : List (Conv × Conv) :=
  (fs.flatMap fun f => (f.wRows rows).flatMap fun a => (f.rRows rows).filterMap fun b =>
    match a.conv, b.conv with
    | some x, some y => some (x, y)
    | _, _ => none).eraseDups

/-- rows with a conversion that no field of the specification accounts for -/
def unclaimed (fs : List Field) (rows : List Row) : List Row :=
  rows.filter fun x => x.conv.isSome &&
    !(fs.any fun f => if x.write then x.has true f.wids else x.has false f.rids)

end Wntr.InpSchema

