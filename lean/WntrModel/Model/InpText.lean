/-
`InpText` — the text forms that carry controls and rules through INP files and through the `to_dict`
dictionary (wntr/epanet/io.py: `_EpanetRule`, `_read_control_line`, `InpFile._write_controls`,
`_write_times`, `_str_time_to_sec`, `_clock_time_to_sec`; wntr/network/controls.py: `__str__` of
conditions, `Rule.to_dict`).  Import-free; everything is over `Int` seconds and abstract atoms.
-/
namespace Wntr.InpText

/-! ### rule conditions: tree -> clause list -> tree -/

inductive Conj where
  | if_ | and_ | or_
  deriving Repr, DecidableEq, Inhabited

/-- `AndCondition` / `OrCondition` over atomic conditions `α` -/
inductive Cond (α : Type) where
  | atom (a : α)
  | and (l r : Cond α)
  | or (l r : Cond α)
  deriving Repr, DecidableEq, Inhabited

variable {α : Type}

/-- `_EpanetRule.add_control_condition(cond, prefix)` (and, token for token, `str(cond)` used by
`Rule.to_dict`): the in-order list of clauses; the first atom of the right operand carries AND / OR -/
def flatten : Cond α → Conj → List (Conj × α)
  | .atom a, p => [(p, a)]
  | .and l r, p => flatten l p ++ flatten r .and_
  | .or l r, p => flatten l p ++ flatten r .or_

/-- one clause of `_EpanetRule.generate_control`; the stack is `condition_list` REVERSED (head = last).
`OR` pops the last entry and pushes `OrCondition(last, new)`; `IF`/`AND` push. -/
def step (stack : List (Cond α)) (cl : Conj × α) : List (Cond α) :=
  match cl.1, stack with
  | .or_, last :: rest => .or last (.atom cl.2) :: rest
  | _, st => .atom cl.2 :: st

def run (stack : List (Cond α)) (cls : List (Conj × α)) : List (Cond α) := cls.foldl step stack

/-- the final loop: `AndCondition(AndCondition(c1, c2), c3) …` over `condition_list` in order -/
def finish : List (Cond α) → Option (Cond α)
  | [] => none
  | c :: cs => some (cs.foldl .and c)

def parse (cls : List (Conj × α)) : Option (Cond α) := finish (run [] cls).reverse

/-- what the parser can produce: a left-nested conjunction of left-nested disjunctions of atoms -/
def isDisj : Cond α → Bool
  | .atom _ => true
  | .or l (.atom _) => isDisj l
  | _ => false

def isShape : Cond α → Bool
  | .and l r => isShape l && isDisj r
  | c => isDisj c

def conjs : Cond α → List (Cond α)
  | .and l r => conjs l ++ [r]
  | c => [c]

/-! ### keyword splitting of `_EpanetRule.parse_rules_lines` -/

def keywords : List String := ["RULE", "IF", "THEN", "ELSE", "AND", "OR", "PRIORITY"]
def isKw (w : String) : Bool := keywords.contains w.toUpper

/-- first loop of `parse_rules_lines`: a keyword flushes the words gathered so far and starts a new clause.
`cur` and `acc` are reversed accumulators. -/
def splitGo : List String → List String → List (List String) → List (List String)
  | [], cur, acc => (if cur.isEmpty then acc else cur.reverse :: acc).reverse
  | w :: ws, cur, acc =>
    if isKw w then splitGo ws [w] (if cur.isEmpty then acc else cur.reverse :: acc)
    else splitGo ws (w :: cur) acc

def splitKw (ws : List String) : List (List String) := splitGo ws [] []

/-! ### simple-control time field -/

/-- `InpFile._write_controls` as repaired: `AT TIME h:mm:ss` -/
def hmsOf (sec : Int) : Int × Int × Int :=
  let h := sec / 3600
  let r := sec - h * 3600
  let m := r / 60
  (h, m, r - m * 60)

/-- `_str_time_to_sec` on `h:mm:ss` -/
def strTimeToSec (h m s : Int) : Int := h * 3600 + m * 60 + s

/-- `_write_times` START CLOCKTIME: (hours shown, minutes, seconds, isPM) -/
def startClockOut (sec : Int) : Int × Int × Int × Bool :=
  let (h, m, s) := hmsOf sec
  if h < 12 then (h, m, s, false) else (h - 12, m, s, true)

/-- `_clock_time_to_sec(s, am_pm)` on `hh:mm:ss`: `s.startswith('12')` subtracts 12 h; PM adds 12 h
(and refuses times already ≥ 12:00:00) -/
def clockTimeToSec (h m s : Int) (pm : Bool) : Option Int :=
  let t := h * 3600 + m * 60 + s
  let t := if h = 12 ∨ (120 ≤ h ∧ h < 130) ∨ (1200 ≤ h ∧ h < 1300) then t - 43200 else t
  if pm then (if t ≥ 43200 then none else some (t + 43200)) else some t

end Wntr.InpText
