/-
`InpText` — the text forms that carry controls and rules through INP files and through the `to_dict`
dictionary (wntr/epanet/io.py: `_EpanetRule`, `_read_control_line`, `InpFile._write_controls`,
`_write_times`, `_str_time_to_sec`, `_clock_time_to_sec`; wntr/network/controls.py: `__str__` of
conditions, `Rule.to_dict`).  Import-free; everything is over `Int` seconds and abstract atoms.
-/
namespace Wntr.InpText

/-! ### rule conditions: tree -> clause list -> tree -/

inductive Conj where
  | if_ | and_ | or_
  deriving Repr, DecidableEq, Inhabited

/-- `AndCondition` / `OrCondition` over atomic conditions `α` -/
inductive Cond (α : Type) where
  | atom (a : α)
  | and (l r : Cond α)
  | or (l r : Cond α)
  deriving Repr, DecidableEq, Inhabited

variable {α : Type}

/-- the IN-ORDER list of clauses: `str(cond)` used by `Rule.to_dict` (the dictionary path, C13) token for token, and
`_EpanetRule.add_control_condition` as it was BEFORE e0050eda; the first atom of the right operand carries AND / OR.
The repaired INP writer is `flattenCnf` below. -/
def flatten : Cond α → Conj → List (Conj × α)
  | .atom a, p => [(p, a)]
  | .and l r, p => flatten l p ++ flatten r .and_
  | .or l r, p => flatten l p ++ flatten r .or_

/-- one clause of `_EpanetRule.generate_control`; the stack is `condition_list` REVERSED (head = last).
`OR` pops the last entry and pushes `OrCondition(last, new)`; `IF`/`AND` push. -/
def step (stack : List (Cond α)) (cl : Conj × α) : List (Cond α) :=
  match cl.1, stack with
  | .or_, last :: rest => .or last (.atom cl.2) :: rest
  | _, st => .atom cl.2 :: st

def run (stack : List (Cond α)) (cls : List (Conj × α)) : List (Cond α) := cls.foldl step stack

/-- the final loop: `AndCondition(AndCondition(c1, c2), c3) …` over `condition_list` in order -/
def finish : List (Cond α) → Option (Cond α)
  | [] => none
  | c :: cs => some (cs.foldl .and c)

def parse (cls : List (Conj × α)) : Option (Cond α) := finish (run [] cls).reverse

/-- what the parser can produce: a left-nested conjunction of left-nested disjunctions of atoms -/
def isDisj : Cond α → Bool
  | .atom _ => true
  | .or l (.atom _) => isDisj l
  | _ => false

def isShape : Cond α → Bool
  | .and l r => isShape l && isDisj r
  | c => isDisj c

def conjs : Cond α → List (Cond α)
  | .and l r => conjs l ++ [r]
  | c => [c]

/-! ### the repaired INP writer (e0050eda): a condition is written as the AND of OR-groups the syntax means -/

/-- a rule condition as the AND of OR-groups the [RULES] syntax can say (EPANET and WNTR's reader take `a AND b OR c` as
`a AND (b OR c)`); groups and atoms in writing order — `_EpanetRule._and_of_or_groups` -/
def cnf : Cond α → List (List α)
  | .atom a => [[a]]
  | .and l r => cnf l ++ cnf r
  | .or l r => (cnf l).flatMap fun g1 => (cnf r).map fun g2 => g1 ++ g2

/-- `add_control_condition` on the groups: the first atom of a group carries IF (first group) / AND, the others OR -/
def groupClauses (p : Conj) : List α → List (Conj × α)
  | [] => []
  | a :: t => (p, a) :: t.map fun x => (Conj.or_, x)

def clausesOfGroups : List (List α) → List (Conj × α)
  | [] => []
  | g :: gs => groupClauses .if_ g ++ gs.flatMap (groupClauses .and_)

/-- the clauses the repaired writer produces for ANY condition tree -/
def flattenCnf (c : Cond α) : List (Conj × α) := clausesOfGroups (cnf c)

def orTree (a : α) (rest : List α) : Cond α := rest.foldl (fun t x => .or t (.atom x)) (.atom a)

def groupTree [Inhabited α] (g : List α) : Cond α := orTree (g.headD default) g.tail

/-- the canonical tree of a list of groups: left-nested AND of left-nested ORs (what `generate_control` builds) -/
def ofGroups [Inhabited α] (gs : List (List α)) : Cond α :=
  (gs.tail.map groupTree).foldl .and (groupTree (gs.headD []))

/-! ### keyword splitting of `_EpanetRule.parse_rules_lines` -/

def keywords : List String := ["RULE", "IF", "THEN", "ELSE", "AND", "OR", "PRIORITY"]
def isKw (w : String) : Bool := keywords.contains w.toUpper

/-- first loop of `parse_rules_lines`: a keyword flushes the words gathered so far and starts a new clause.
`cur` and `acc` are reversed accumulators. -/
def splitGo : List String → List String → List (List String) → List (List String)
  | [], cur, acc => (if cur.isEmpty then acc else cur.reverse :: acc).reverse
  | w :: ws, cur, acc =>
    if isKw w then splitGo ws [w] (if cur.isEmpty then acc else cur.reverse :: acc)
    else splitGo ws (w :: cur) acc

def splitKw (ws : List String) : List (List String) := splitGo ws [] []

/-! ### simple-control time field -/

/-- `InpFile._write_controls` as repaired: `AT TIME h:mm:ss` -/
def hmsOf (sec : Int) : Int × Int × Int :=
  let h := sec / 3600
  let r := sec - h * 3600
  let m := r / 60
  (h, m, r - m * 60)

/-- `_str_time_to_sec` on `h:mm:ss` -/
def strTimeToSec (h m s : Int) : Int := h * 3600 + m * 60 + s

/-- `_write_times` START CLOCKTIME: (hours shown, minutes, seconds, isPM) -/
def startClockOut (sec : Int) : Int × Int × Int × Bool :=
  let (h, m, s) := hmsOf sec
  if h < 12 then (h, m, s, false) else (h - 12, m, s, true)

/-- `_clock_time_to_sec(s, am_pm)` on `hh:mm:ss`: `s.startswith('12')` subtracts 12 h; PM adds 12 h
(and refuses times already ≥ 12:00:00) -/
def clockTimeToSec (h m s : Int) (pm : Bool) : Option Int :=
  let t := h * 3600 + m * 60 + s
  let t := if h = 12 ∨ (120 ≤ h ∧ h < 130) ∨ (1200 ≤ h ∧ h < 1300) then t - 43200 else t
  if pm then (if t ≥ 43200 then none else some (t + 43200)) else some t

/-! ### clock strings of rules (`ControlCondition._sec_to_clock`, `_parse_value` as repaired by 7806f17d) -/

/-- `_sec_to_clock`: the hour shown on a 12-hour clock -/
def clockHour (sec : Int) : Int :=
  if sec / 3600 ≥ 12 then (if sec / 3600 > 12 then sec / 3600 - 12 else sec / 3600)
  else if sec / 3600 = 0 then 12 else sec / 3600

def clockPm (sec : Int) : Bool := decide (sec / 3600 ≥ 12)

/-- `_sec_to_clock`: (hour shown, minutes, seconds, isPM) -/
def secToClock (sec : Int) : Int × Int × Int × Bool :=
  (clockHour sec, (hmsOf sec).2.1, (hmsOf sec).2.2, clockPm sec)

/-- `_parse_value` on `h:mm:ss AM|PM`: 12:xx AM is 00:xx, 12:xx PM is 12:xx; PM adds 12 h for hours ≤ 12 -/
def parseClock (h m s : Int) (pm : Bool) : Int :=
  let v := h * 3600 + m * 60 + s
  let v := if h = 12 then v - 12 * 3600 else v
  if h ≤ 12 then v + (if pm then 43200 else 0) else v

/-- decimal hours with six significant digits (`'{:g}'.format(sec / 3600.)`, for 1 ≤ hours < 10) read back by
`int(float(x) * 3600)` — what `_write_controls` did before the repair -/
def legacyTimeRoundtrip (sec : Int) : Int :=
  let hours : Rat := (sec : Rat) / 3600
  let g6 : Rat := ((hours * 100000 + 1 / 2).floor : Rat) / 100000
  (g6 * 3600).floor

/-! ### simple controls (`InpFile._write_controls`, `_read_control_line`) -/

/-- what a line is made of; numbers other than times are opaque tokens (their formatting is not modelled) -/
inductive Tok where
  | word (s : String)
  | hms (h m s : Int)
  | num (v : Int)
  | clock (h m s : Int) (pm : Bool)
  deriving Repr, DecidableEq, Inhabited

/-- words are compared case-insensitively by the readers (`.upper()`): the model keeps them lower-cased -/
def statusWord : Int → Option String
  | 0 => some "closed"
  | 1 => some "open"
  | 2 => some "active"
  | _ => none

inductive LinkKind where
  | pipe | pump | valve
  deriving Repr, DecidableEq, Inhabited

/-- the action of a simple control: `ControlAction(link, 'status' | 'base_speed' | 'setting', value)` -/
inductive Act where
  | status (s : Int)
  | speed (v : Int)
  | setting (v : Int)
  deriving Repr, DecidableEq, Inhabited

/-- `_write_controls.get_setting`: the status name, or the number -/
def printAct : Act → Option Tok
  | .status s => (statusWord s).map Tok.word
  | .speed v => some (.num v)
  | .setting v => some (.num v)

/-- `_read_control_line`: OPEN/OPENED/CLOSED/ACTIVE give a status action; a number is the speed of a pump, the setting of a
valve, and refused for a pipe -/
def parseAct (k : LinkKind) : Tok → Option Act
  | .word w => if w = "open" ∨ w = "opened" then some (.status 1) else if w = "closed" then some (.status 0)
               else if w = "active" then some (.status 2) else none
  | .num v => match k with
    | .pump => some (.speed v)
    | .valve => some (.setting v)
    | .pipe => none
  | _ => none

/-- an action the [CONTROLS] syntax can carry for a link of that kind -/
def Act.wf (k : LinkKind) : Act → Prop
  | .status s => 0 ≤ s ∧ s ≤ 2
  | .speed _ => k = .pump
  | .setting _ => k = .valve

inductive NodeKind where
  | junction | tank
  deriving Repr, DecidableEq, Inhabited

inductive Attr where
  | level | pressure | head
  deriving Repr, DecidableEq, Inhabited

/-- the attribute a [CONTROLS] line means for a node of that kind -/
def NodeKind.attr : NodeKind → Attr
  | .junction => .pressure
  | .tank => .level

inductive CtlCond where
  | time (sec : Int)
  | clock (sec : Int)
  /-- `ValueCondition(node, attr, above/below, thresh)`; `elev` is the node's elevation (known to writer and reader) -/
  | node (kind : NodeKind) (name : String) (elev : Int) (attr : Attr) (above : Bool) (thresh : Int)
  deriving Repr, DecidableEq, Inhabited

structure Ctl where
  linkType : String
  link : String
  act : Act
  cond : CtlCond
  deriving Repr, DecidableEq, Inhabited

def kindWord : NodeKind → String
  | .junction => "Junction"
  | .tank => "Tank"

def condToks : CtlCond → List Tok
  | .time sec => [.word "AT", .word "TIME", .hms (hmsOf sec).1 (hmsOf sec).2.1 (hmsOf sec).2.2]
  | .clock sec => [.word "AT", .word "CLOCKTIME", .hms (hmsOf sec).1 (hmsOf sec).2.1 (hmsOf sec).2.2]
  | .node k n e a ab th =>
    [.word "IF", .word (kindWord k), .word n, .word (if ab then "above" else "below"), .num (if a = .head then th - e else th)]

/-- `_write_controls` (repaired: time as `h:mm:ss`, a head threshold reduced by the elevation); `none`: the control is skipped -/
def printCtl (c : Ctl) : Option (List Tok) :=
  (printAct c.act).map fun st => [Tok.word c.linkType, .word c.link, st] ++ condToks c.cond

/-- the writer before the repair of the head threshold -/
def printCtlLegacy (c : Ctl) : Option (List Tok) :=
  match c.cond with
  | .node k n _ _ ab th =>
    (printAct c.act).map fun st =>
      [Tok.word c.linkType, .word c.link, st, .word "IF", .word (kindWord k), .word n, .word (if ab then "above" else "below"), .num th]
  | _ => printCtl c

/-- `_read_control_line`; `lookup name` is `wn.get_node(name)` (kind and elevation), `kindOf link` the class of the link -/
def parseCtl (lookup : String → Option (NodeKind × Int)) (kindOf : String → Option LinkKind) : List Tok → Option Ctl
  | [.word lt, .word l, st, .word "AT", .word "TIME", .hms h m s] =>
    (kindOf l).bind fun k => (parseAct k st).map fun a => ⟨lt, l, a, .time (strTimeToSec h m s)⟩
  | [.word lt, .word l, st, .word "AT", .word "CLOCKTIME", .hms h m s] =>
    (kindOf l).bind fun k => (parseAct k st).map fun a => ⟨lt, l, a, .clock (strTimeToSec h m s)⟩
  | [.word lt, .word l, st, .word "IF", .word _, .word n, .word rel, .num th] =>
    (kindOf l).bind fun k => (parseAct k st).bind fun a =>
      match lookup n with
      | some (nk, e) =>
        if rel = "above" then some ⟨lt, l, a, .node nk n e nk.attr true th⟩
        else if rel = "below" then some ⟨lt, l, a, .node nk n e nk.attr false th⟩
        else none
      | none => none
  | _ => none

/-- the condition the INP line means: a head condition in the datum of the section -/
def CtlCond.norm : CtlCond → CtlCond
  | .node k n e a ab th => .node k n e k.attr ab (if a = .head then th - e else th)
  | c => c

/-- the node named in a condition is the node the reader finds (same kind and elevation) -/
def CtlCond.wf (lookup : String → Option (NodeKind × Int)) : CtlCond → Prop
  | .node k n e a _ _ => lookup n = some (k, e) ∧ (a = .head ∨ a = k.attr)
  | .time sec => 0 ≤ sec
  | .clock sec => 0 ≤ sec

/-! ### rule clauses (`_EpanetRule.add_control_condition`, `add_action_on_true/false`, `generate_control`) -/

inductive Rel where
  | gt | ge | lt | le | eq | ne
  deriving Repr, DecidableEq, Inhabited

/-- `Comparison.symbol` -/
def Rel.symbol : Rel → String
  | .gt => ">" | .ge => ">=" | .lt => "<" | .le => "<=" | .eq => "=" | .ne => "<>"

/-- `Comparison.text` (lower-cased: `Comparison.parse` lower-cases its argument) -/
def Rel.text : Rel → String
  | .gt => "above" | .ge => ">=" | .lt => "below" | .le => "<=" | .eq => "is" | .ne => "not"

/-- `Comparison.parse` on the words the writers produce and their synonyms -/
def parseRel (w : String) : Option Rel :=
  if w = "=" ∨ w = "eq" ∨ w = "==" ∨ w = "is" then some .eq
  else if w = "<>" ∨ w = "ne" ∨ w = "!=" ∨ w = "not" then some .ne
  else if w = ">" ∨ w = "gt" ∨ w = "above" ∨ w = "after" then some .gt
  else if w = "<" ∨ w = "lt" ∨ w = "below" ∨ w = "before" then some .lt
  else if w = ">=" ∨ w = "ge" then some .ge
  else if w = "<=" ∨ w = "le" then some .le
  else none

/-- the member name in `wntr.network.controls.Comparison` -/
def Rel.name : Rel → String
  | .gt => "gt" | .ge => "ge" | .lt => "lt" | .le => "le" | .eq => "eq" | .ne => "ne"

def relOfName (n : String) : Option Rel :=
  [Rel.gt, .ge, .lt, .le, .eq, .ne].find? fun r => r.name == n

def nodeClasses : List String := ["node", "junction", "reservoir", "tank"]
def linkClasses : List String := ["link", "pipe", "pump", "valve"]

/-- a premise of a rule; the value of a status premise is the number of the status (`_parse_value('OPEN') = 1`) -/
inductive RAtom where
  | sysTime (r : Rel) (sec : Int)
  | sysClock (r : Rel) (sec : Int)
  | value (isNode : Bool) (cls : String) (name : String) (attr : String) (r : Rel) (v : Int)
  deriving Repr, DecidableEq, Inhabited

/-- the value token: a status is printed by name (`_repr_value`), everything else as a number -/
def valTok (attr : String) (v : Int) : Option Tok :=
  if attr = "status" then (statusWord v).map Tok.word else some (.num v)

/-- `_parse_value`: a number, or OPEN / CLOSED / ACTIVE as 1 / 0 / 2 -/
def parseVal : Tok → Option Int
  | .num v => some v
  | .word w => if w = "closed" then some 0 else if w = "open" then some 1 else if w = "active" then some 2 else none
  | _ => none

def printAtom : RAtom → Option (List Tok)
  | .sysTime r sec => some [.word "system", .word "time", .word r.text, .hms (hmsOf sec).1 (hmsOf sec).2.1 (hmsOf sec).2.2]
  | .sysClock r sec => some [.word "system", .word "clocktime", .word r.text,
      .clock (clockHour sec) (hmsOf sec).2.1 (hmsOf sec).2.2 (clockPm sec)]
  | .value _ cls n a r v => (valTok a v).map fun t => [.word cls, .word n, .word a, .word r.symbol, t]

/-- one IF / AND / OR clause of `generate_control` (after the keyword) -/
def parseAtom : List Tok → Option RAtom
  | [.word "system", .word "time", .word rw, .hms h m s] => (parseRel rw).map fun r => .sysTime r (strTimeToSec h m s)
  | [.word "system", .word "clocktime", .word rw, .clock h m s pm] => (parseRel rw).map fun r => .sysClock r (parseClock h m s pm)
  | [.word cls, .word n, .word a, .word rw, vt] =>
    if cls = "system" then none
    else (parseRel rw).bind fun r => (parseVal vt).bind fun v =>
      if nodeClasses.contains cls then some (.value true cls n a r v)
      else if linkClasses.contains cls then some (.value false cls n a r v)
      else none
  | _ => none

def RAtom.wf : RAtom → Prop
  | .sysTime _ sec => 0 ≤ sec
  | .sysClock _ sec => 0 ≤ sec ∧ sec < 86400
  | .value isNode cls _ a _ v =>
    (if isNode then nodeClasses.contains cls = true else (linkClasses.contains cls = true ∧ nodeClasses.contains cls = false)) ∧
    cls ≠ "system" ∧ (a = "status" → 0 ≤ v ∧ v ≤ 2)

/-- a THEN / ELSE action `CLASS name attr = value`: the reader looks the link up by name, the class word is not kept -/
structure RAction where
  name : String
  attr : String
  v : Int
  deriving Repr, DecidableEq, Inhabited

def printRAction (clsOf : String → String) (a : RAction) : Option (List Tok) :=
  (valTok a.attr a.v).map fun t => [.word (clsOf a.name), .word a.name, .word a.attr, .word "=", t]

def parseRAction : List Tok → Option RAction
  | [.word _, .word n, .word a, .word _, vt] => (parseVal vt).map fun v => ⟨n, a, v⟩
  | _ => none

/-! ### rules as lines (`_EpanetRule.__str__`, `parse_rules_lines`, `generate_control`) -/

inductive Kw where
  | if_ | and_ | or_ | then_ | else_ | priority
  deriving Repr, DecidableEq, Inhabited

/-- the keyword as the writer prints it (upper case; the parser compares `word.upper()`) -/
def Kw.word : Kw → String
  | .if_ => "IF" | .and_ => "AND" | .or_ => "OR" | .then_ => "THEN" | .else_ => "ELSE" | .priority => "PRIORITY"

def Conj.kw : Conj → Kw
  | .if_ => .if_
  | .and_ => .and_
  | .or_ => .or_

/-- a rule over abstract condition atoms `α` and actions `β` -/
structure Rule (α β : Type) where
  cond : Cond α
  thens : List β
  elses : List β
  priority : Int
  deriving Repr, DecidableEq

/-- one line of a rule: keyword and payload (an atom, an action or the priority number) -/
inductive Payload (α β : Type) where
  | atom (a : α)
  | act (b : β)
  | prio (p : Int)
  deriving Repr, DecidableEq

def actLines {α β : Type} (first : Kw) : List β → List (Kw × Payload α β)
  | [] => []
  | b :: bs => (first, .act b) :: bs.map fun x => (Kw.and_, .act x)

/-- `from_if_then_else` + `__str__`: IF/AND/OR clauses, THEN a AND b …, ELSE a AND b …, PRIORITY p when p ≥ 0 -/
def printRuleWith {α β : Type} (cls : List (Conj × α)) (r : Rule α β) : List (Kw × Payload α β) :=
  cls.map (fun cl => (cl.1.kw, Payload.atom cl.2)) ++ actLines .then_ r.thens ++ actLines .else_ r.elses ++
    (if r.priority ≥ 0 then [(Kw.priority, Payload.prio r.priority)] else [])

/-- the repaired writer (e0050eda): premises as the AND of OR-groups -/
def printRule {α β : Type} (r : Rule α β) : List (Kw × Payload α β) := printRuleWith (flattenCnf r.cond) r

/-- the writer before e0050eda: premises in tree order -/
def printRuleInOrder {α β : Type} (r : Rule α β) : List (Kw × Payload α β) := printRuleWith (flatten r.cond .if_) r

inductive Mode where
  | none | inIf | inThen | inElse
  deriving Repr, DecidableEq, Inhabited

/-- parser state of `parse_rules_lines` for one rule (lists are in order) -/
structure PState (α β : Type) where
  mode : Mode
  ifs : List (Conj × α)
  thens : List β
  elses : List β
  priority : Int

def PState.init {α β : Type} : PState α β := ⟨.none, [], [], [], 0⟩

/-- one (keyword, payload) line: IF/THEN/ELSE/PRIORITY switch the block, AND/OR continue the current block -/
def stepR {α β : Type} (st : PState α β) (ln : Kw × Payload α β) : PState α β :=
  match ln.1, ln.2, st.mode with
  | .if_, .atom a, _ => { st with mode := .inIf, ifs := st.ifs ++ [(.if_, a)] }
  | .then_, .act b, _ => { st with mode := .inThen, thens := st.thens ++ [b] }
  | .else_, .act b, _ => { st with mode := .inElse, elses := st.elses ++ [b] }
  | .priority, .prio p, _ => { st with mode := .none, priority := p }
  | .and_, .atom a, .inIf => { st with ifs := st.ifs ++ [(.and_, a)] }
  | .or_, .atom a, .inIf => { st with ifs := st.ifs ++ [(.or_, a)] }
  | .and_, .act b, .inThen => { st with thens := st.thens ++ [b] }
  | .and_, .act b, .inElse => { st with elses := st.elses ++ [b] }
  | _, _, _ => st

/-- `parse_rules_lines` then `generate_control` -/
def parseRule {α β : Type} (lines : List (Kw × Payload α β)) : Option (Rule α β) :=
  let st := lines.foldl stepR PState.init
  match parse st.ifs with
  | some c => some ⟨c, st.thens, st.elses, st.priority⟩
  | none => none

end Wntr.InpText

/-! ## `InpRead` — the line handling of `InpFile.read` (wntr/epanet/io.py): blank lines, section headers, `[END]`, text
before the first header, unknown sections; and what each section reader does with a stored line (`split(';')[0].split()`).
Characters: ASCII white space and ASCII case mapping are modelled (Python's `str.strip/split/upper` also know the
Unicode ones). -/
namespace Wntr.InpRead

def isWs (c : Char) : Bool := c == ' ' || c == '\t' || c == '\n' || c == '\r' || c == '\x0b' || c == '\x0c'

def lstrip (l : List Char) : List Char := l.dropWhile isWs

/-- `str.strip()` -/
def strip (l : List Char) : List Char := (lstrip (lstrip l).reverse).reverse

/-- `str.split()` (any run of white space separates; no empty fields); `cur` is the reversed field being read -/
def splitWsAux : List Char → List Char → List (List Char)
  | [], cur => if cur.isEmpty then [] else [cur.reverse]
  | c :: t, cur =>
    if isWs c then (if cur.isEmpty then splitWsAux t [] else cur.reverse :: splitWsAux t [])
    else splitWsAux t (c :: cur)

def splitWs (l : List Char) : List (List Char) := splitWsAux l []

/-- `line.split(';')[0]` -/
def beforeSemi (l : List Char) : List Char := l.takeWhile (· != ';')

def upper (l : List Char) : List Char := l.map Char.toUpper

/-- `sec.replace(']', 'S]')` -/
def addS (l : List Char) : List Char := l.flatMap fun c => if c == ']' then ['S', ']'] else [c]

/-- `sec.replace('S]', ']')` -/
def dropS : List Char → List Char
  | 'S' :: ']' :: t => ']' :: dropS t
  | c :: t => c :: dropS t
  | [] => []

inductive Header where
  | sec (name : String)
  | end_
  | bad
  deriving Repr, DecidableEq

/-- the header handling of `read`: upper-case, then try an extra / a missing plural `S`, then `[END]`, else a syntax error -/
def normSec (names : List String) (tok : List Char) : Header :=
  let s0 := upper tok
  let s1 := if names.contains (String.ofList s0) then s0 else (if names.contains (String.ofList (addS s0)) then addS s0 else s0)
  let s2 := if names.contains (String.ofList s1) then s1 else (if names.contains (String.ofList (dropS s1)) then dropS s1 else s1)
  if names.contains (String.ofList s2) then .sec (String.ofList s2)
  else if s2 == "[END]".toList then .end_ else .bad

/-- what `read` sees in one raw line -/
inductive LineClass where
  | blank
  | header (h : Header)
  | data (stripped : List Char)
  deriving Repr, DecidableEq

def classify (names : List String) (raw : List Char) : LineClass :=
  let l := strip raw
  match splitWs l with
  | [] => .blank
  | tok :: _ => if l.head? == some '[' then .header (normSec names tok) else .data l

/-- state of the loop: current section, lines stored per section (in file order), comments before the first header,
`done` after `[END]` (break), `err` after an ENSyntaxError -/
structure RState where
  cur : Option String
  lines : List (String × List Char)
  top : List (List Char)
  done : Bool
  err : Bool
  deriving Repr, DecidableEq

def RState.init : RState := ⟨none, [], [], false, false⟩

def stepC (st : RState) (c : LineClass) : RState :=
  if st.done || st.err then st
  else match c with
    | .blank => st
    | .header (.sec s) => { st with cur := some s }
    | .header .end_ => { st with cur := none, done := true }
    | .header .bad => { st with err := true }
    | .data l =>
      match st.cur with
      | none => if l.head? == some ';' then { st with top := st.top ++ [l.tail] } else { st with err := true }
      | some s => { st with lines := st.lines ++ [(s, l)] }

def readC (cs : List LineClass) : RState := cs.foldl stepC RState.init

/-- `InpFile.read`, first loop -/
def read (names : List String) (raws : List (List Char)) : RState := readC (raws.map (classify names))

/-- `self.sections[sec]` (line numbers dropped: they only appear in error messages) -/
def RState.linesOf (st : RState) (s : String) : List (List Char) := (st.lines.filter fun p => p.1 == s).map (·.2)

/-- what a section reader makes of a stored line: `current = line.split(';')[0].split()`, skipped when empty -/
def fieldsOf (l : List Char) : Option (List (List Char)) :=
  match splitWs (beforeSemi l) with
  | [] => none
  | f => some f

def RState.rows (st : RState) (s : String) : List (List (List Char)) := (st.linesOf s).filterMap fieldsOf

/-- the second half of `read`: the section readers are called in a FIXED order (`order`, extracted from the source) on the
stored lines; `readers s` is the effect of `_read_<s>` on the model being built -/
def build {σ : Type} (readers : String → List (List Char) → σ → σ) (order : List String) (st : RState) (m0 : σ) : σ :=
  order.foldl (fun m s => readers s (st.linesOf s) m) m0

/-- a file made of whole sections -/
def fileOf (blocks : List (String × List (List Char))) : List LineClass :=
  blocks.flatMap fun b => LineClass.header (.sec b.1) :: b.2.map LineClass.data

end Wntr.InpRead

/-! ## `InpTimes` — the [TIMES] grammar of `_read_times` / `_write_times` -/
namespace Wntr.InpTimes
open Wntr.InpText

/-- the value forms `_read_times` accepts: `int(float(x) * 3600) if _is_number(x) else _str_time_to_sec(x)`.
A units word after the value (`HOURS`, `MIN`, `SEC`, `DAY`) is NOT read: `HYDRAULIC TIMESTEP 30 MIN` is taken as 30 hours
(mirrors the code; WNTR's writer never writes units) -/
inductive TimeVal where
  | hms (h m s : Int)
  | hm (h m : Int)
  | dec (x : Rat)      -- decimal hours, also a bare integer
  deriving Repr, DecidableEq

def parseTimeVal : TimeVal → Int
  | .hms h m s => h * 3600 + m * 60 + s
  | .hm h m => h * 3600 + m * 60
  | .dec x => (x * 3600).floor

/-- `_write_times`: every duration / timestep / start as `hh:mm:ss` (`_sec_to_string`) -/
def writeTimeVal (sec : Int) : TimeVal := .hms (hmsOf sec).1 (hmsOf sec).2.1 (hmsOf sec).2.2

/-- the attribute of `options.time` a [TIMES] line sets: DURATION, HYDRAULIC …, QUALITY …, … CLOCKTIME, STATISTIC are
special-cased; every other line sets `<word0>_<word1>` lower-cased (RULE TIMESTEP, PATTERN TIMESTEP / START, REPORT …) -/
def timesField (w0 w1 : String) : String :=
  if w0.toUpper == "DURATION" then "duration"
  else if w0.toUpper == "HYDRAULIC" then "hydraulic_timestep"
  else if w0.toUpper == "QUALITY" then "quality_timestep"
  else if w1.toUpper == "CLOCKTIME" then "start_clocktime"
  else if w0.toUpper == "STATISTIC" then "statistic"
  else w0.toLower ++ "_" ++ w1.toLower

/-- `_write_times`, START CLOCKTIME: hours below 12 with AM, else hours - 12 with PM (two digits each) -/
def startHour (sec : Int) : Int := if sec / 3600 < 12 then sec / 3600 else sec / 3600 - 12
def startPm (sec : Int) : Bool := decide (12 ≤ sec / 3600)

/-- the AM/PM branch of `_write_times` as a table: (operator, bound, then-arm is AM, subtract in then-arm, in else-arm) -/
def cmpOp (op : Nat) (a b : Int) : Bool :=
  match op with
  | 0 => decide (a < b)
  | 1 => decide (a ≤ b)
  | 2 => decide (a > b)
  | _ => decide (a ≥ b)

def startHourT (t : Nat × Int × Bool × Int × Int) (sec : Int) : Int :=
  if cmpOp t.1 (sec / 3600) t.2.1 then sec / 3600 - t.2.2.2.1 else sec / 3600 - t.2.2.2.2

def startPmT (t : Nat × Int × Bool × Int × Int) (sec : Int) : Bool :=
  if cmpOp t.1 (sec / 3600) t.2.1 then !t.2.2.1 else t.2.2.1

/-- the branch table writes hour `h` (on the hour) in a form `_clock_time_to_sec` reads back -/
def hourOk (t : Nat × Int × Bool × Int × Int) (h : Nat) : Bool :=
  clockTimeToSec (startHourT t ((h : Int) * 3600)) 0 0 (startPmT t ((h : Int) * 3600)) == some ((h : Int) * 3600) &&
  decide (0 ≤ startHourT t ((h : Int) * 3600))

def branchOk (t : Nat × Int × Bool × Int × Int) : Bool := (List.range 24).all (hourOk t)

end Wntr.InpTimes

/-! ## `InpNorm` — the normalisation under which the oracle compares a model with its re-read copy
(`harness/props/c12.py: normalise`): what an INP file cannot distinguish -/
namespace Wntr.InpNorm
open Wntr.InpText

structure Demand where
  base : Int
  pat : Option String
  cat : Option String
  deriving Repr, DecidableEq

structure Junction where
  name : String
  demands : List Demand
  deriving Repr, DecidableEq

structure Pump where
  name : String
  closed : Bool
  setting : Option Int   -- speed setting in thousandths (1000 = the format's default 1.0)
  deriving Repr, DecidableEq

structure Source where
  name : String
  node : String
  strength : Int
  pat : Option String
  deriving Repr, DecidableEq

structure Opts where
  pattern : Option String
  energyPattern : Option String
  price : Option Int
  deriving Repr, DecidableEq

structure Model (α : Type) where
  patterns : List String
  junctions : List Junction
  pumps : List Pump
  sources : List Source
  ctls : List CtlCond
  rules : List (Cond α)
  opts : Opts

/-- a pattern name that names no pattern of the model carries nothing -/
def normPat (ps : List String) : Option String → Option String
  | some n => if ps.contains n then some n else none
  | none => none

/-- a junction without a demand entry = one zero demand without pattern and category -/
def normDemands (ps : List String) : List Demand → List Demand
  | [] => [⟨0, none, none⟩]
  | ds => ds.map fun d => { d with pat := normPat ps d.pat }

/-- [STATUS] holds one word per link: a closed pump has no place for a setting; an unset speed is the default 1.0 -/
def normPump (p : Pump) : Pump :=
  if p.closed then { p with setting := none } else { p with setting := some (p.setting.getD 1000) }

/-- INP files store sources without names -/
def normSource (ps : List String) (s : Source) : Source := { s with name := "", pat := normPat ps s.pat }

def normOpts (ps : List String) (o : Opts) : Opts := ⟨normPat ps o.pattern, normPat ps o.energyPattern, some (o.price.getD 0)⟩

def norm {α : Type} [Inhabited α] (m : Model α) : Model α :=
  { patterns := m.patterns
    junctions := m.junctions.map fun j => { j with demands := normDemands m.patterns j.demands }
    pumps := m.pumps.map normPump
    sources := m.sources.map (normSource m.patterns)
    ctls := m.ctls.map CtlCond.norm
    rules := m.rules.map fun c => ofGroups (cnf c)
    opts := normOpts m.patterns m.opts }

end Wntr.InpNorm

/-! ## `InpFormat` — the number formats of the INP writers (`'{:.4f}'`, `'{:12f}'`, `'{:15.11g}'`, `str(x)`)

Python formats the EXACT value of the double (a rational) correctly rounded, ties to even.  Modelled on `Rat`:
value → (sign, decimal digits, position of the point) → value. -/
namespace Wntr.InpFormat

/-- round to the nearest integer, ties to even -/
def roundHalfEven (y : Rat) : Int :=
  if y - y.floor < 1 / 2 then y.floor else if y - y.floor > 1 / 2 then y.floor + 1
  else if y.floor % 2 = 0 then y.floor else y.floor + 1

/-- decimal digits, least significant first -/
def digitsRev (n : Nat) : List Nat :=
  if n < 10 then [n] else (n % 10) :: digitsRev (n / 10)
decreasing_by omega

def ofDigitsRev : List Nat → Nat
  | [] => 0
  | d :: t => d + 10 * ofDigitsRev t

/-- a decimal numeral: sign, digits (least significant first) and the number of digits after the point -/
structure Dec where
  neg : Bool
  digits : List Nat
  scale : Nat
  deriving Repr, DecidableEq

def Dec.value (d : Dec) : Rat :=
  (bif d.neg then (-1 : Rat) else 1) * (ofDigitsRev d.digits : Rat) / (10 : Rat) ^ d.scale

/-- `'{:.kf}'.format(x)` -/
def fixWrite (k : Nat) (x : Rat) : Dec :=
  ⟨decide (roundHalfEven (x * (10 : Rat) ^ k) < 0), digitsRev (roundHalfEven (x * (10 : Rat) ^ k)).natAbs, k⟩

/-- the characters of a fixed-point numeral (at least one digit before the point; `-0.0000` keeps its sign as in Python) -/
def Dec.render (d : Dec) (negZero : Bool) : String :=
  let ds := d.digits ++ List.replicate (d.scale + 1 - d.digits.length) 0
  let frac := (ds.take d.scale).reverse
  let int := (ds.drop d.scale).reverse
  let show_ := fun (l : List Nat) => String.ofList (l.map fun x => Char.ofNat (48 + x))
  (if d.neg || negZero then "-" else "") ++ show_ int ++ (if d.scale = 0 then "" else "." ++ show_ frac)

def pow10 (e : Int) : Rat := if e ≥ 0 then (10 : Rat) ^ e.toNat else 1 / (10 : Rat) ^ (-e).toNat

/-- the scale `s` with `10^(N-1) ≤ a / 10^s < 10^N` (N significant digits), searched from a start value -/
def findScale (N : Nat) (a : Rat) : Nat → Int → Int
  | 0, s => s
  | fuel + 1, s =>
    if a / pow10 s < (10 : Rat) ^ (N - 1) then findScale N a fuel (s - 1)
    else if a / pow10 s ≥ (10 : Rat) ^ N then findScale N a fuel (s + 1)
    else s

/-- `'{:.Ng}'.format(x)`: N significant digits = integer mantissa × 10^scale; `none` when the search for the scale did not
normalise the mantissa (never observed; the bound is only claimed for normalised mantissas) -/
def absR (x : Rat) : Rat := if x < 0 then -x else x

def scaleOf (N : Nat) (x : Rat) : Int := findScale N (absR x) 700 0

def sigWrite (N : Nat) (x : Rat) : Option (Int × Int) :=
  if x = 0 then some (0, 0)
  else if (10 : Rat) ^ (N - 1) ≤ absR x / pow10 (scaleOf N x) then some (roundHalfEven (x / pow10 (scaleOf N x)), scaleOf N x)
  else none

def sigValue (ms : Int × Int) : Rat := (ms.1 : Rat) * pow10 ms.2

/-- how a numeric slot is printed (parsed from the format string by the translator) -/
inductive Spec where
  | fixed (k : Nat)   -- {:.kf}
  | sig (n : Nat)     -- {:.ng}
  | repr              -- str(x), '{}'.format(x): shortest string that reads back to the same double
  | int               -- {:d}
  | text              -- not a number
  deriving Repr, DecidableEq, Inhabited

/-- `have` is at least as precise as `need` -/
def Spec.meets (have_ need : Spec) : Bool :=
  match have_, need with
  | .repr, _ => true
  | .fixed k, .fixed k0 => k ≥ k0
  | .sig n, .sig n0 => n ≥ n0
  | .int, .int => true
  | .text, .text => true
  | _, _ => false

/-- a writer-side lower limit (REQUIRED PRESSURE in `_write_options`): `t` = (compared after the conversion to file units,
the legal side is `>=` (else `>`), bound, the substitute is in file units, substitute); `conv` = SI → file units;
result: the value handed to the formatter -/
def clampWrite (t : Bool × Bool × Rat × Bool × Rat) (conv : Rat → Rat) (x : Rat) : Rat :=
  let legal := fun (v : Rat) => if t.2.1 then decide (v ≥ t.2.2.1) else decide (v > t.2.2.1)
  if t.1 then
    (if legal (conv x) then conv x else (if t.2.2.2.1 then t.2.2.2.2 else conv t.2.2.2.2))
  else
    (if legal x then conv x else (if t.2.2.2.1 then t.2.2.2.2 else conv t.2.2.2.2))

end Wntr.InpFormat

/-! ## `InpSchema` — the shape of the INP section writers / readers (wntr/epanet/io.py)

The translator (`harness/props/c12.py`, Python `ast`) records for every section writer each value that reaches a
`.format(...)` call and for every section reader each destination that is filled (`Gen/SchemaInp.lean`). -/
namespace Wntr.InpSchema

/-- a `to_si` / `from_si` call as written in io.py: direction, parameter enum (HydParam / QualParam value), and which
optional arguments are passed (`darcy_weisbach=`, `reaction_order=<option name>`, mass units) -/
structure Conv where
  toSI : Bool
  hyd : Bool
  param : Nat
  dw : Bool
  order : String
  mass : Bool
  deriving Repr, DecidableEq

/-- `write = true`: `name` is the model attribute read by `_write_X`, `fmt` the format spec it is printed with;
`write = false`: `name` is the destination filled by `_read_X` (`add_*` parameter, attribute, `.append` slot).
`toks`: string constants of the enclosing `if` tests and literal keywords (the guard); `const`: the value is a literal. -/
structure Row where
  sec : String
  write : Bool
  name : String
  conv : Option Conv
  fmt : String
  toks : List String
  const : Bool
  /-- `fmt` parsed: how the number is printed (write rows) -/
  spec : Wntr.InpFormat.Spec
  /-- the translator's numbering of the strings above (same string = same number; `Gen.strings`): section, name, guard tokens -/
  ids : Nat × Nat × List Nat
  deriving Repr, DecidableEq

/-- one line of the specification: attribute `key` of element class `cls` is carried by the writer of section `wsec`
(reading model attribute `w` under guard `wtoks`) and restored by the reader of section `rsec` into `r` under `rtoks` -/
structure Field where
  cls : String
  key : String
  wsec : String
  w : String
  wtoks : List String
  rsec : String
  r : String
  rtoks : List String
  wids : Nat × Nat × List Nat
  rids : Nat × Nat × List Nat
  /-- found by the translator from the source alone: the writer reads the attribute NAMED like the `to_dict` key and the
  reader fills the attribute / `add_*` parameter of that name, in the same section (`Field.byName`); `false`: a line of the
  short hand-written remainder (names differ: `base_head` is `head_timeseries.base_value`, …) -/
  derived : Bool
  deriving Repr, DecidableEq

def infixOf (a : List Char) : List Char → Bool
  | [] => a.isEmpty
  | c :: t => a.isPrefixOf (c :: t) || infixOf a t

/-- the slot names are ABOUT the key: `elevation` ↔ `add_junction.elevation`, `_vertices[][0]` ↔ `_vertices.append.0`,
`LinkStatus(initial_status).name` ↔ `initial_status`, `options.hydraulic.trials` ↔ the same; an element's `name` is the
name list the writer iterates; the generic [TIMES] rule `options.time.*` -/
def Field.byName (f : Field) : Bool :=
  f.wsec == f.rsec &&
  (infixOf f.key.toList f.w.toList || (f.key == "name" && infixOf "_name_list".toList f.w.toList)) &&
  (infixOf f.key.toList f.r.toList || f.r == "options.time.*")

/-- same section, same direction, same name, and every guard token asked for is among the row's (compared through the
translator's string numbering: kernel evaluation of `String` equality is three orders of magnitude slower) -/
def Row.has (row : Row) (write : Bool) (ids : Nat × Nat × List Nat) : Bool :=
  row.write == write && row.ids.2.1 == ids.2.1 && row.ids.1 == ids.1 && ids.2.2.all fun t => row.ids.2.2.contains t

/-- the rows come grouped by section (number of the section name, rows of that section) -/
abbrev Table := List (Nat × List Row)

def Table.sec (t : Table) (id : Nat) : List Row :=
  match t.find? fun p => p.1 == id with
  | some p => p.2
  | none => []

def Table.all (t : Table) : List Row := t.flatMap (·.2)

def Field.wRows (f : Field) (t : Table) : List Row := (t.sec f.wids.1).filter fun x => x.has true f.wids
def Field.rRows (f : Field) (t : Table) : List Row := (t.sec f.rids.1).filter fun x => x.has false f.rids

/-- two conversion calls undo each other as far as their SHAPE goes: opposite directions, same parameter family and
the same optional arguments; whether the two parameters convert alike is decided on the units table -/
def Conv.shapeOk (a b : Conv) : Bool :=
  a.toSI != b.toSI && a.hyd == b.hyd && a.dw == b.dw && a.order == b.order && a.mass == b.mass

def rowsCompat (a b : Row) : Bool :=
  match a.conv, b.conv with
  | none, none => true
  | some x, some y => x.shapeOk y
  | _, _ => false

/-- the field is present on both sides and every (written, read) pair of non-literal rows agrees on the conversion shape -/
def Field.ok (f : Field) (rows : Table) : Bool :=
  !(f.wRows rows).isEmpty && !(f.rRows rows).isEmpty &&
  ((f.wRows rows).filter (!·.const)).all fun a => ((f.rRows rows).filter (!·.const)).all fun b => rowsCompat a b

/-- the (write-side, read-side) conversion pairs a specification uses -/
def convPairs (fs : List Field) (rows : Table) : List (Conv × Conv) :=
  (fs.flatMap fun f => (f.wRows rows).flatMap fun a => (f.rRows rows).filterMap fun b =>
    match a.conv, b.conv with
    | some x, some y => some (x, y)
    | _, _ => none).eraseDups

/-- a precision requirement of the specification: the written slot `ids` (section, attribute, guard) must be printed at
least as precisely as `need` -/
structure PrecReq where
  what : String
  ids : Nat × Nat × List Nat
  need : Wntr.InpFormat.Spec
  deriving Repr, DecidableEq

def PrecReq.rows (q : PrecReq) (t : Table) : List Row := ((t.sec q.ids.1).filter fun x => x.has true q.ids && !x.const)

/-- the slot exists and every row of it is precise enough -/
def PrecReq.ok (q : PrecReq) (t : Table) : Bool := !(q.rows t).isEmpty && (q.rows t).all fun x => x.spec.meets q.need

/-- rows with a conversion that no field of the specification accounts for -/
def unclaimed (fs : List Field) (rows : List Row) : List Row :=
  rows.filter fun x => x.conv.isSome &&
    !(fs.any fun f => if x.write then x.has true f.wids else x.has false f.rids)

end Wntr.InpSchema
