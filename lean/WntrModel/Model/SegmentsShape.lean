/-
`SegmentsShape` — the statement skeleton of `wntr.metrics.topographic.valve_segments` / `valve_segment_attributes` as typed tokens,
and an interpreter that EXECUTES the skeleton the way the Python does (a running `seg_index`, a `seg_label` array written
in place, pass after pass).  `harness/props/c18_translate.py` regenerates the tokens from the current source by `ast` into
`Gen/SegmentsShape.lean`; Props/C18.lean proves `Gen.segShape = refShape` (an edit to the functions breaks that theorem by
name) and Lemmas/SegmentsShape.lean proves that the interpreted reference skeleton IS the closed-form model of
`Model/Segments.lean` (`nodeLabel`, `linkLabel`, `numSurround`, `increase`).

Positions of `seg_label`: node `u` at `u`, link `k` at `n + k` (`all_names = node_names + link_names`).
Import-free apart from the model.
-/
import WntrModel.Model.Segments

namespace Wntr.Segments.Shape

/-- what a loop runs over -/
inductive Iter where
  | edges            -- `for start_node, end_node, link_name in uG.edges(keys=True)` (all links, before any removal)
  | nodeNames        -- `for node_name in node_names`  (`node_names = ['N_' + n for n in uG.nodes()]`)
  | components       -- `for component in nx.connected_components(uG)` after `uG.remove_edges_from(valved_edges)`
  | unvalvedEdges    -- `for edge in uG.edges(keys=True)` after the removal
  | valvedEdges      -- `for valved_edge in valved_edges`
  | other
  deriving Repr, DecidableEq

/-- the guard of a labelling step -/
inductive Test where
  | always
  | nodesCoverEnds        -- `set(link_valves['node']) >= set([start_node, end_node])`, link_valves = rows of this link
  | linksCoveredPrefixed  -- `set(node_valves['link']) >= set(node_links)`, node_valves = rows whose node EQUALS 'N_' + name
  | linksCovered          -- the same with the plain name (not what the code does)
  | rowsEq (c : Nat)      -- `link_valves.shape[0] == c`
  | otherEndUnlabelled    -- `seg_label[unvalved_node_index] == 0`
  | other
  deriving Repr, DecidableEq

/-- one statement of a labelling step -/
inductive Op where
  | incIndex              -- `seg_index += 1`
  | linkGetsIndex         -- `seg_label[all_names.index('L_' + link_name)] = seg_index`
  | nodeGetsIndex         -- `seg_label[all_names.index(node_name)] = seg_index`
  | compNodesGetIndex     -- `for node in component: seg_label[all_names.index('N_' + node)] = seg_index`
  | linkGetsFirstNode     -- `seg_label[link_index] = seg_label[node1]`
  | linkGetsSecondNode    -- (not what the code does)
  | linkGetsOtherEnd      -- `seg_label[link_index] = seg_label[unvalved_node_index]`
  | otherEndGetsIndex     -- `seg_label[unvalved_node_index] = seg_index`
  | keep                  -- `continue`
  | raise_                -- `raise Exception(...)`
  | other
  deriving Repr, DecidableEq

/-- a guarded branch: `if test: ops` ; a pass: a loop with an if / elif / else chain (first branch whose test holds) -/
structure Branch where
  test : Test
  ops : List Op
  deriving Repr, DecidableEq

structure Pass where
  iter : Iter
  branches : List Branch
  deriving Repr, DecidableEq

inductive Dedup where
  | dropDuplicatesInPlace   -- `if valve_layer.duplicated().any(): valve_layer.drop_duplicates(inplace=True)`
  | none
  | other
  deriving Repr, DecidableEq

inductive ValvedDef where
  | anyRow                  -- `valved_link_names = list(valve_layer['link'].unique())`; an edge is valved when its name is in it
  | other
  deriving Repr, DecidableEq

/-- tokens of `_valve_criticality`, `_valve_criticality_demand`, `_valve_criticality_length` -/
inductive SameSeg where | zero | other            -- `if node_seg == link_seg: value = 0`
  deriving Repr, DecidableEq
inductive Touch where
  | linkOrNodeInEitherSegment   -- rows whose link is in `links_in_segs` or whose node is in `nodes_in_segs`, each once
  | other
  deriving Repr, DecidableEq
inductive Count where | lenMinusOne | len | other  -- `len(V_list) - 1`
  deriving Repr, DecidableEq
inductive IncF where
  | sumOverMaxMinusOne          -- `(D_link + D_node) / max(D_link, D_node) - 1`
  | other
  deriving Repr, DecidableEq
inductive ZeroCase where | bothZeroGivesZero | other   -- `if D_node == 0 and D_link == 0: value = 0`
  deriving Repr, DecidableEq
inductive Over where
  | nodesOfSegment              -- `node_segments[node_segments == seg].index` ∩ the Series' index
  | linksOfSegment              -- `link_segments[link_segments == seg].index` ∩ the Series' index
  | other
  deriving Repr, DecidableEq

/-- after the passes: `seg_label` becomes a Series over `all_names`, split by `node_names` / `link_names`, prefixes stripped;
`seg_sizes` = `value_counts` of both, joined, missing = 0 -/
inductive Finish where | splitByNamesAndValueCounts | other
  deriving Repr, DecidableEq

structure AttrShape where
  surroundSame : SameSeg
  touch : Touch
  count : Count
  demandSame : SameSeg
  demandOver : Over
  demandZero : ZeroCase
  demandF : IncF
  lengthSame : SameSeg
  lengthOver : Over
  lengthZero : ZeroCase
  lengthF : IncF
  deriving Repr, DecidableEq

structure SegShape where
  dedup : Dedup
  start : List Op        -- before the passes: `seg_index = 0`, `seg_label = zeros` is `[]` (nothing else happens)
  passes : List Pass
  valved : ValvedDef
  finish : Finish
  attrs : AttrShape
  deriving Repr, DecidableEq

/-- the skeleton the model of `Model/Segments.lean` was written from -/
def refShape : SegShape :=
  { dedup := .dropDuplicatesInPlace
    start := []
    valved := .anyRow
    finish := .splitByNamesAndValueCounts
    passes := [
      { iter := .edges, branches := [{ test := .nodesCoverEnds, ops := [.incIndex, .linkGetsIndex] }] },
      { iter := .nodeNames, branches := [{ test := .linksCoveredPrefixed, ops := [.incIndex, .nodeGetsIndex] }] },
      { iter := .components, branches := [{ test := .always, ops := [.incIndex, .compNodesGetIndex] }] },
      { iter := .unvalvedEdges, branches := [{ test := .always, ops := [.linkGetsFirstNode] }] },
      { iter := .valvedEdges, branches := [
          { test := .rowsEq 1, ops := [] },   -- the nested if / else below
          { test := .rowsEq 2, ops := [.keep] },
          { test := .always, ops := [.raise_] }] },
      -- the body of `rowsEq 1`: `if seg_label[unvalved] == 0: fresh for both else: link takes the label`
      { iter := .valvedEdges, branches := [
          { test := .otherEndUnlabelled, ops := [.incIndex, .otherEndGetsIndex, .linkGetsIndex] },
          { test := .always, ops := [.linkGetsOtherEnd] }] }]
    attrs :=
      { surroundSame := .zero, touch := .linkOrNodeInEitherSegment, count := .lenMinusOne,
        demandSame := .zero, demandOver := .nodesOfSegment, demandZero := .bothZeroGivesZero, demandF := .sumOverMaxMinusOne,
        lengthSame := .zero, lengthOver := .linksOfSegment, lengthZero := .bothZeroGivesZero, lengthF := .sumOverMaxMinusOne } }

/-! ### the interpreter -/

/-- the running state: `seg_index`, `seg_label` (as a function of the position), and whether an exception was raised -/
structure St where
  idx : Nat
  lab : Nat → Nat
  raised : Bool

def St.set (s : St) (p v : Nat) : St := { s with lab := fun j => if j = p then v else s.lab j }

/-- the objects a step can name: the link at hand, the node at hand, the "unvalved" end of a one-valve link -/
structure Ctx where
  link : Nat    -- position of the link (n + k)
  node : Nat    -- position of the node at hand / of the link's first node
  node2 : Nat   -- position of the link's second node
  other : Nat   -- position of `unvalved_node_index`

def runOp (i : Inp) (comp : Nat → Nat) (cidx : Nat) (c : Ctx) (s : St) : Op → St
  | .incIndex => { s with idx := s.idx + 1 }
  | .linkGetsIndex => s.set c.link s.idx
  | .nodeGetsIndex => s.set c.node s.idx
  | .compNodesGetIndex => { s with lab := fun j => if j < i.n ∧ comp j = cidx then s.idx else s.lab j }
  | .linkGetsFirstNode => s.set c.link (s.lab c.node)
  | .linkGetsSecondNode => s.set c.link (s.lab c.node2)
  | .linkGetsOtherEnd => s.set c.link (s.lab c.other)
  | .otherEndGetsIndex => s.set c.other s.idx
  | .keep => s
  | .raise_ => { s with raised := true }
  | .other => { s with raised := true }

def runOps (i : Inp) (comp : Nat → Nat) (cidx : Nat) (c : Ctx) (ops : List Op) (s : St) : St :=
  ops.foldl (fun s o => runOp i comp cidx c s o) s

/-- number of rows of the de-duplicated layer that name link `k`: its valved ends (each once) plus rows naming a node that is
not an end of the link (none in a valid layer) -/
def rowCount (i : Inp) (k : Nat) : Nat :=
  (if i.hasValve k (i.ends k).1 then 1 else 0) +
  (if (i.ends k).2 ≠ (i.ends k).1 ∧ i.hasValve k (i.ends k).2 then 1 else 0) +
  (i.layer.filter fun r => r.1 == k && r.2 != (i.ends k).1 && r.2 != (i.ends k).2).length

/-- `both_node_names.remove(valved_node_name); both_node_names[0]` with `valved_node_name = link_valves.iloc[0]['node']` -/
def otherEnd (i : Inp) (k : Nat) : Nat :=
  if i.hasValve k (i.ends k).1 then (i.ends k).2 else (i.ends k).1

def evalTest (i : Inp) (k : Nat) (u : Nat) (c : Ctx) (s : St) : Test → Bool
  | .always => true
  | .nodesCoverEnds => i.hasValve k (i.ends k).1 && i.hasValve k (i.ends k).2
  | .linksCoveredPrefixed => i.linkless u          -- no row's node is 'N_' + name: the empty set covers only the empty set
  | .linksCovered => (List.range i.nl).all fun k' => !((i.ends k').1 == u || (i.ends k').2 == u) || i.hasValve k' u
  | .rowsEq n => rowCount i k == n
  | .otherEndUnlabelled => s.lab c.other == 0
  | .other => false

def runBranches (i : Inp) (comp : Nat → Nat) (cidx k u : Nat) (c : Ctx) (s : St) : List Branch → St
  | [] => s
  | b :: rest => if evalTest i k u c s b.test then runOps i comp cidx c b.ops s else runBranches i comp cidx k u c s rest

def linkCtx (i : Inp) (k : Nat) : Ctx :=
  { link := i.n + k, node := (i.ends k).1, node2 := (i.ends k).2, other := otherEnd i k }

/-- one pass.  `ncomp`: the number of components `connected_components` returns; `comp u` the index of `u`'s component -/
def runPass (i : Inp) (comp : Nat → Nat) (ncomp : Nat) (s : St) (p : Pass) : St :=
  match p.iter with
  | .edges => (List.range i.nl).foldl (fun s k => runBranches i comp 0 k 0 (linkCtx i k) s p.branches) s
  | .nodeNames => (List.range i.n).foldl
      (fun s u => runBranches i comp 0 0 u { link := 0, node := u, node2 := u, other := u } s p.branches) s
  | .components => (List.range ncomp).foldl
      (fun s c => runBranches i comp c 0 0 { link := 0, node := 0, node2 := 0, other := 0 } s p.branches) s
  | .unvalvedEdges => (List.range i.nl).foldl
      (fun s k => if i.valved k then s else runBranches i comp 0 k 0 (linkCtx i k) s p.branches) s
  | .valvedEdges => (List.range i.nl).foldl
      (fun s k => if i.valved k then runBranches i comp 0 k 0 (linkCtx i k) s p.branches else s) s
  | .other => { s with raised := true }

/-- the last two passes of the skeleton are ONE loop in the source: the second is the body of the first's `rowsEq 1` branch.
`fuse` runs, per valved link, the chain of the first and -- when its first branch is the (empty) taken one -- the second. -/
def runValved (i : Inp) (comp : Nat → Nat) (s : St) (outer inner : Pass) : St :=
  (List.range i.nl).foldl (fun s k =>
    if i.valved k then
      match outer.branches with
      | b :: rest =>
        if evalTest i k 0 (linkCtx i k) s b.test then
          runBranches i comp 0 k 0 (linkCtx i k) (runOps i comp 0 (linkCtx i k) b.ops s) inner.branches
        else runBranches i comp 0 k 0 (linkCtx i k) s rest
      | [] => s
    else s) s

def interp (sh : SegShape) (i : Inp) (comp : Nat → Nat) (ncomp : Nat) : St :=
  let s0 : St := { idx := 0, lab := fun _ => 0, raised := sh.dedup != .dropDuplicatesInPlace || sh.valved != .anyRow || sh.start != [] || sh.finish != .splitByNamesAndValueCounts }
  match sh.passes with
  | [p1, p2, p4, p5, p6, p6b] =>
    if p6.iter == .valvedEdges && p6b.iter == .valvedEdges then
      runValved i comp (runPass i comp ncomp (runPass i comp ncomp (runPass i comp ncomp (runPass i comp ncomp s0 p1) p2) p4) p5) p6 p6b
    else { s0 with raised := true }
  | _ => { s0 with raised := true }

/-! ### attributes -/

def interpNumSurround (a : AttrShape) (rows : List (Nat × (Nat × Nat))) (nlab llab : Nat → Nat) (r : Nat × Nat) : Option Nat :=
  match a.surroundSame, a.touch, a.count with
  | .zero, .linkOrNodeInEitherSegment, cnt =>
    if nlab r.2 == llab r.1 then some 0 else
    let v := (rows.filter fun x => touches nlab llab (llab r.1) (nlab r.2) x.2).length
    match cnt with
    | .lenMinusOne => some (v - 1)
    | .len => some v
    | .other => none
  | _, _, _ => none

def interpIncrease (same : SameSeg) (zero : ZeroCase) (f : IncF) (sameSeg : Bool) (a b : Rat) : Option Rat :=
  match same, zero, f with
  | .zero, .bothZeroGivesZero, .sumOverMaxMinusOne =>
    some (if sameSeg then 0 else if a = 0 ∧ b = 0 then 0 else (a + b) / ratMax a b - 1)
  | _, _, _ => none

def interpDemand (a : AttrShape) (n : Nat) (nlab llab : Nat → Nat) (dem : Nat → Rat) (r : Nat × Nat) : Option Rat :=
  match a.demandOver with
  | .nodesOfSegment =>
    interpIncrease a.demandSame a.demandZero a.demandF (nlab r.2 == llab r.1)
      (sumWhere n (fun u => nlab u == llab r.1) dem) (sumWhere n (fun u => nlab u == nlab r.2) dem)
  | _ => none

def interpLength (a : AttrShape) (nl : Nat) (nlab llab : Nat → Nat) (len : Nat → Rat) (r : Nat × Nat) : Option Rat :=
  match a.lengthOver with
  | .linksOfSegment =>
    interpIncrease a.lengthSame a.lengthZero a.lengthF (nlab r.2 == llab r.1)
      (sumWhere nl (fun k => llab k == llab r.1) len) (sumWhere nl (fun k => llab k == nlab r.2) len)
  | _ => none

end Wntr.Segments.Shape
