/-
M8, static contract.  Everything `_initialize_internal_graph` computes ONCE and never changes afterwards
(CSR structure `indptr/indices/_number_of_connections`, the link → data-position map, the table of node pairs with
multiple links) is summarised by the decidable proposition `StaticP`.  The bookkeeping theorems of Props/C09.lean take it as
their hypothesis about the structure that scipy's `csr_matrix` constructor and the `n_links` counting produce; the driver
evaluates it (`decide`) on every generated case, on arrays that the correspondence compares with the real ones.
Import-free so that the driver can use it.
-/
import WntrModel.Model.Isolation
namespace Wntr.Isolation

def Net.nl (net : Net) : Nat := net.links.length

/-- links `k` and `k'` join the same unordered node pair -/
def samePair (net : Net) (k k' : Nat) : Prop :=
  net.linkEnds k = net.linkEnds k' ∨ net.linkEnds k = ((net.linkEnds k').2, (net.linkEnds k').1)

instance (net : Net) (k k' : Nat) : Decidable (samePair net k k') := by unfold samePair; infer_instance

def pos1 (ndx : List (Nat × Nat)) (k : Nat) : Nat := (ndx.getD k (0, 0)).1
def pos2 (ndx : List (Nat × Nat)) (k : Nat) : Nat := (ndx.getD k (0, 0)).2

/-- `p` is one of the two data positions of link `k` -/
def inPs (ndx : List (Nat × Nat)) (k p : Nat) : Prop := p = pos1 ndx k ∨ p = pos2 ndx k

instance (ndx : List (Nat × Nat)) (k p : Nat) : Decidable (inPs ndx k p) := by unfold inPs; infer_instance

def endsOk (net : Net) : Prop :=
  (∀ k, k < net.nl → (net.linkEnds k).1 < net.n ∧ (net.linkEnds k).2 < net.n ∧ (net.linkEnds k).1 ≠ (net.linkEnds k).2) ∧
  (∀ x ∈ net.sources, x < net.n)

instance (net : Net) : Decidable (endsOk net) := by unfold endsOk; infer_instance

def boundOk (net : Net) (ndx : List (Nat × Nat)) (dlen : Nat) : Prop :=
  ∀ k, k < net.nl → pos1 ndx k < dlen ∧ pos2 ndx k < dlen

instance (net : Net) (ndx : List (Nat × Nat)) (dlen : Nat) : Decidable (boundOk net ndx dlen) := by
  unfold boundOk; infer_instance

/-- links of the same node pair share their two positions; links of different pairs share none -/
def posOk (net : Net) (ndx : List (Nat × Nat)) : Prop :=
  ∀ k, k < net.nl → ∀ k', k' < net.nl →
    (samePair net k k' → inPs ndx k (pos1 ndx k') ∧ inPs ndx k (pos2 ndx k') ∧ inPs ndx k' (pos1 ndx k) ∧ inPs ndx k' (pos2 ndx k)) ∧
    (¬ samePair net k k' → ¬ inPs ndx k (pos1 ndx k') ∧ ¬ inPs ndx k (pos2 ndx k'))

instance (net : Net) (ndx : List (Nat × Nat)) : Decidable (posOk net ndx) := by unfold posOk; infer_instance

/-- the positions of link (a, b) lie in row a (column b) and row b (column a), inside the rows the C++ loop scans -/
def rowsIn (net : Net) (ndx : List (Nat × Nat)) (indptr indices nconn : List Nat) : Prop :=
  ∀ k, k < net.nl →
    (∃ i, i < nconn.getD (net.linkEnds k).1 0 ∧ indptr.getD (net.linkEnds k).1 0 + i = pos1 ndx k ∧
        indices.getD (pos1 ndx k) 0 = (net.linkEnds k).2) ∧
    (∃ j, j < nconn.getD (net.linkEnds k).2 0 ∧ indptr.getD (net.linkEnds k).2 0 + j = pos2 ndx k ∧
        indices.getD (pos2 ndx k) 0 = (net.linkEnds k).1)

instance (net : Net) (ndx : List (Nat × Nat)) (indptr indices nconn : List Nat) : Decidable (rowsIn net ndx indptr indices nconn) := by
  unfold rowsIn; infer_instance

/-- every scanned entry of every row is the position of some link in that direction (no spurious entries) -/
def rowsOut (net : Net) (ndx : List (Nat × Nat)) (indptr indices nconn : List Nat) : Prop :=
  ∀ u, u < nconn.length → ∀ i, i < nconn.getD u 0 → ∃ k, k < net.nl ∧
    ((net.linkEnds k = (u, indices.getD (indptr.getD u 0 + i) 0) ∧ pos1 ndx k = indptr.getD u 0 + i) ∨
     (net.linkEnds k = (indices.getD (indptr.getD u 0 + i) 0, u) ∧ pos2 ndx k = indptr.getD u 0 + i))

instance (net : Net) (ndx : List (Nat × Nat)) (indptr indices nconn : List Nat) : Decidable (rowsOut net ndx indptr indices nconn) := by
  unfold rowsOut; infer_instance

def inMulti (multi : List ((Nat × Nat) × List Nat)) (k : Nat) : Prop := ∃ e ∈ multi, k ∈ e.2

instance (multi : List ((Nat × Nat) × List Nat)) (k : Nat) : Decidable (inMulti multi k) := by unfold inMulti; infer_instance

/-- `_node_pairs_with_multiple_links`: every list is non-empty and is exactly the set of links of one node pair;
every pair with two or more links has a list -/
def multiOk (net : Net) (multi : List ((Nat × Nat) × List Nat)) : Prop :=
  (∀ e ∈ multi, ∃ k0 ∈ e.2, (net.linkEnds k0 = e.1 ∨ net.linkEnds k0 = (e.1.2, e.1.1)) ∧
      (∀ k ∈ e.2, k < net.nl ∧ samePair net k0 k) ∧ (∀ k, k < net.nl → samePair net k0 k → k ∈ e.2)) ∧
  (∀ k, k < net.nl → ∀ k', k' < net.nl → k ≠ k' → samePair net k k' → inMulti multi k)

instance (net : Net) (multi : List ((Nat × Nat) × List Nat)) : Decidable (multiOk net multi) := by
  unfold multiOk; infer_instance

def StaticP (net : Net) (ndx : List (Nat × Nat)) (multi : List ((Nat × Nat) × List Nat))
    (indptr indices nconn : List Nat) : Prop :=
  endsOk net ∧ boundOk net ndx indices.length ∧ posOk net ndx ∧ rowsIn net ndx indptr indices nconn ∧
  rowsOut net ndx indptr indices nconn ∧ multiOk net multi

instance (net : Net) (ndx : List (Nat × Nat)) (multi : List ((Nat × Nat) × List Nat)) (indptr indices nconn : List Nat) :
    Decidable (StaticP net ndx multi indptr indices nconn) := by unfold StaticP; infer_instance

def Sim.Static (s : Sim) : Prop := StaticP s.net s.ndx s.multi s.g.indptr s.g.indices s.g.nconn

instance (s : Sim) : Decidable s.Static := by unfold Sim.Static; infer_instance

end Wntr.Isolation
