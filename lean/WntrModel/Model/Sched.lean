/-
M5 `Sched` — the time-stepping driver of `WNTRSimulator.run_sim` with the hydraulics abstracted away.

Covers what decides WHEN things happen: `_compute_next_timestep_and_run_presolve_controls_and_rules`
(transliterated, its `while` loop given fuel), `ControlChecker.check`, the two stable sorts, the
`ControlChangeTracker` reference point 'presolve', `Rule.is_control_action_required` (then/else),
`_rule_iter` initialisation (as repaired), the advance of `sim_time` on the hydraulic grid and the
report grid of `save_results`.  Conditions are the time conditions of M4 combined with AND/OR; the
values controls write are integers (status codes, integral settings).  Import-free.
-/
import WntrModel.Model.Time
namespace Wntr.Sched
open Wntr.Time

inductive Cond where
  | sim (c : SimTimeCond)
  | tod (c : TodCond)
  | and (a b : Cond)
  | or (a b : Cond)
  deriving Repr, Inhabited

/-- value and backtrack of a condition at tentative time `cur` (previous accepted time `prev`);
`sc` = start_clocktime.  AND/OR short-circuit like Python's `and`/`or`; their backtrack is never
used by the simulator (rules ignore it, simple controls with AND/OR are post-solve) and is given as 0. -/
def Cond.eval (sc prev cur : Int) : Cond → Bool × Option Int
  | .sim c => evalSimTime c prev cur
  | .tod c => evalTod c (prev + sc) (cur + sc)
  | .and a b => (if (a.eval sc prev cur).1 then (b.eval sc prev cur).1 else false, some 0)
  | .or a b => (if (a.eval sc prev cur).1 then true else (b.eval sc prev cur).1, some 0)

/-- `ControlAction(target, attr, value)`; `key` identifies (target object, attribute) -/
structure Action where
  key : Nat
  value : Int
  deriving Repr, DecidableEq, Inhabited

/-- a simple control (one then-action, no else) or a rule -/
structure Ctl where
  id : Nat
  prio : Nat
  cond : Cond
  thenA : List Action
  elseA : List Action
  deriving Repr, Inhabited

abbrev Vals := List (Nat × Int)

def Vals.get (v : Vals) (k : Nat) : Int :=
  match v.find? (fun p => p.1 == k) with
  | some p => p.2
  | none => 0

def Vals.set (v : Vals) (k : Nat) (x : Int) : Vals :=
  match v with
  | [] => [(k, x)]
  | (k', y) :: rest => if k' == k then (k, x) :: rest else (k', y) :: Vals.set rest k x

def runActions (v : Vals) (as : List Action) : Vals := as.foldl (fun v a => v.set a.key a.value) v

/-- `changes_made(ref_point)`: some tracked attribute differs from its value at the reference point -/
def changed (ref cur : Vals) : Bool := cur.any (fun p => ref.get p.1 != p.2) || ref.any (fun p => cur.get p.1 != p.2)

structure Cfg where
  hyd : Int          -- hydraulic_timestep  (> 0)
  rule : Int         -- rule_timestep       (> 0)
  report : Int       -- report_timestep; 0 encodes 'ALL'
  duration : Int
  startClock : Int
  presolve : List Ctl   -- time controls, registration order
  rules : List Ctl      -- rules, registration order
  deriving Repr, Inhabited

structure St where
  simTime : Int
  prevTime : Int
  ruleIter : Int
  vals : Vals
  ruleLog : List Int := []   -- ghost: the times at which the rules were evaluated, in order
  deriving Repr, Inhabited

/-- which branch a control/rule wants to run: `is_control_action_required` -/
inductive Which where
  | thenB | elseB
  deriving Repr, DecidableEq, Inhabited

structure Due where
  ctl : Ctl
  which : Which
  back : Int
  deriving Repr, Inhabited

/-- `ControlChecker.check()` -/
def check (sc prev cur : Int) (cs : List Ctl) : List Due :=
  cs.filterMap fun c =>
    let (v, b) := c.cond.eval sc prev cur
    if v then some ⟨c, .thenB, b.getD 0⟩
    else if !c.elseA.isEmpty then some ⟨c, .elseB, b.getD 0⟩
    else none

def Due.run (d : Due) (v : Vals) : Vals :=
  match d.which with
  | .thenB => runActions v d.ctl.thenA
  | .elseB => runActions v d.ctl.elseA

/-- stable insertion sort by a `≤` on keys (Python's `list.sort` is stable) -/
def insertBy (le : Due → Due → Bool) (x : Due) : List Due → List Due
  | [] => [x]
  | y :: ys => if le y x then y :: insertBy le x ys else x :: y :: ys

def sortBy (le : Due → Due → Bool) (l : List Due) : List Due := l.foldl (fun acc x => insertBy le x acc) []

/-- `.sort(key=priority)` then `.sort(key=backtrack, reverse=True)`, both stable -/
def sortDue (l : List Due) : List Due :=
  sortBy (fun a b => a.back ≥ b.back) (sortBy (fun a b => a.ctl.prio ≤ b.ctl.prio) l)

/-- the "previous time" the time conditions of rules compare against at the rule timestep `r`
(`WNTRSimulator._check_rules`, repaired code fixes/C04-rule-window.patch): the previous RULE timestep `r - rule_timestep`,
not the previous hydraulic solution; at the first rule timestep (`r - rule_timestep ≤ 0`) it is -1 so that the window
also covers the start of the simulation, time 0 -/
def ruleWindowLo (cfg : Cfg) (r : Int) : Int := if r - cfg.rule ≤ 0 then -1 else r - cfg.rule

/-- run the rules due at the current `simTime` (a rule timestep) in priority order.  Every positive rule timestep is
evaluated once, so the windows `(ruleWindowLo r, r]` tile the time axis from 0 on and an `=` premise is seen by exactly
one of them. -/
def runRules (cfg : Cfg) (s : St) : St :=
  let due := sortBy (fun a b => a.ctl.prio ≤ b.ctl.prio) (check cfg.startClock (ruleWindowLo cfg s.simTime) s.simTime cfg.rules)
  { s with vals := due.foldl (fun v d => d.run v) s.vals }

/-- move the clock to the next rule timestep `ruleIter * rule_timestep`, advance `_rule_iter`, evaluate the rules -/
def evalRulesAt (cfg : Cfg) (r : Int) (s : St) : St :=
  runRules cfg { s with simTime := r, ruleIter := s.ruleIter + 1, ruleLog := s.ruleLog ++ [r] }

/-- run `due[cnt]` and every following entry with the same backtrack; returns new vals and new cnt -/
def runGroup (due : List Due) (cnt : Nat) (back : Int) (v : Vals) : Nat → Vals × Nat
  | 0 => (v, cnt)
  | fuel + 1 =>
    match due[cnt]? with
    | some d => if d.back == back then runGroup due (cnt + 1) back (d.run v) fuel else (v, cnt)
    | none => (v, cnt)

/-- the `while` loop of `_compute_next_timestep_and_run_presolve_controls_and_rules` -/
def presolveLoop (cfg : Cfg) (ref : Vals) (due : List Due) : Nat → Nat → St → St
  | 0, _, s => s
  | fuel + 1, cnt, s =>
    if cnt < due.length ∨ s.ruleIter * cfg.rule ≤ s.simTime then
      match due[cnt]? with
      | none =>
        -- only rules left
        let old := s.simTime
        let s1 := evalRulesAt cfg (s.ruleIter * cfg.rule) s
        if changed ref s1.vals then s1 else presolveLoop cfg ref due fuel cnt { s1 with simTime := old }
      | some d =>
        let back := d.back
        if s.simTime - back < s.ruleIter * cfg.rule then
          let (v, cnt') := runGroup due cnt back s.vals (due.length + 1)
          if changed ref v then { s with vals := v, simTime := s.simTime - back }
          else presolveLoop cfg ref due fuel cnt' { s with vals := v }
        else if s.simTime - back = s.ruleIter * cfg.rule then
          let s1 := evalRulesAt cfg (s.simTime - back) s
          let (v, cnt') := runGroup due cnt back s1.vals (due.length + 1)
          if changed ref v then { s1 with vals := v }
          else presolveLoop cfg ref due fuel cnt' { s1 with vals := v, simTime := s1.simTime + back }
        else
          let old := s.simTime
          let s1 := evalRulesAt cfg (s.ruleIter * cfg.rule) s
          if changed ref s1.vals then s1 else presolveLoop cfg ref due fuel cnt { s1 with simTime := old }
    else s

/-- enough fuel: every iteration either consumes a due control or advances `ruleIter` -/
def presolveFuel (cfg : Cfg) (due : List Due) (s : St) : Nat :=
  due.length + (s.simTime / cfg.rule - s.ruleIter + 2).toNat + 2

def presolve (cfg : Cfg) (first : Bool) (s : St) : St :=
  let due0 := sortDue (check cfg.startClock s.prevTime s.simTime cfg.presolve)
  let due := if first then due0.map (fun d => { d with back := 0 }) else due0
  presolveLoop cfg s.vals due (presolveFuel cfg due s) 0 s

structure Row where
  time : Int
  vals : Vals
  deriving Repr, Inhabited

/-- initial `_rule_iter` (repaired code): 1 on a fresh start, else just past the last accepted time -/
def initRuleIter (cfg : Cfg) (first : Bool) (prevTime : Int) : Int :=
  if first then 1 else prevTime / cfg.rule + 1

def reportNow (cfg : Cfg) (t : Int) : Bool := cfg.report == 0 || t % cfg.report == 0

/-- one pass of the `while True` loop body of `run_sim` (no post-solve changes in the time-only model):
returns the state after advancing and the row saved, if any -/
def stepOnce (cfg : Cfg) (first : Bool) (s : St) : St × Option Row :=
  let s1 := presolve cfg first s
  let row := if reportNow cfg s1.simTime then some ⟨s1.simTime, s1.vals⟩ else none
  let t := s1.simTime + cfg.hyd
  ({ s1 with prevTime := s1.simTime, simTime := t - t % cfg.hyd }, row)

def runLoop (cfg : Cfg) : Nat → Bool → St → List Row → St × List Row
  | 0, _, s, log => (s, log)
  | fuel + 1, first, s, log =>
    let (s', row) := stepOnce cfg first s
    let log' := match row with | some r => log ++ [r] | none => log
    if s'.simTime > cfg.duration then (s', log') else runLoop cfg fuel false s' log'

/-- enough fuel for `runLoop`: every pass accepts a time strictly later than the previous accepted time and,
except for the very first pass, not later than the duration (a partial step leaves `simTime` where it was,
so `duration - simTime` would not be a bound: controls may cut one hydraulic step into many pieces) -/
def runFuel (cfg : Cfg) (prev : Int) : Nat := (cfg.duration - prev).toNat + 2

/-- `run_sim` on a model whose clock is at `simTime` (0 and `prevTime = -1` on a fresh model).
A model that was already simulated up to the duration (`sim_time` is the next hydraulic timestep and lies beyond it)
is left alone and empty results are returned (repaired code, fixes/C10-completed-run-continued.patch; before the
repair the `while True` loop solved one more step beyond the duration). -/
def runSim (cfg : Cfg) (simTime prevTime : Int) (vals : Vals) : St × List Row :=
  let first := simTime == 0
  let prev := if first then -1 else prevTime
  let s : St := { simTime, prevTime := prev, ruleIter := initRuleIter cfg first prev, vals, ruleLog := [] }
  if first = false ∧ simTime > cfg.duration then (s, [])
  else runLoop cfg (runFuel cfg prev) first s []

/-! ### what `add_leak` registers (used by Props/C08Window) -/

/-- `Control._time_control(wn, thr, 'SIM_TIME', False, ControlAction(obj, attr, value))`: a one-shot `AT TIME thr`
control with one action -/
def timeCtl (id prio : Nat) (thr : Int) (key : Nat) (value : Int) : Ctl :=
  ⟨id, prio, .sim ⟨.eq, thr, 0⟩, [⟨key, value⟩], []⟩

/-- `node.add_leak(wn, area, cd, start_time, end_time)`; `key` identifies `(node, 'leak_status')` -/
structure Leak where
  key : Nat
  start : Int
  stop : Option Int
  deriving Repr, DecidableEq

/-- the controls `Junction.add_leak` / `Tank.add_leak` register, in this order: a `Control` with
`SimTimeCondition('=', start_time)` and `ControlAction(node, 'leak_status', True)` and, if `end_time` is given, one with
`end_time` / `False`; default priority 3 (medium); time conditions make them pre-solve controls -/
def Leak.ctls (l : Leak) : List Ctl :=
  timeCtl (2 * l.key) 3 l.start l.key 1 ::
    (match l.stop with
     | some e => [timeCtl (2 * l.key + 1) 3 e l.key 0]
     | none => [])

def leakCtls (ls : List Leak) : List Ctl := ls.flatMap Leak.ctls

end Wntr.Sched
