/-
`TimeProg` — a small imperative language for the bodies of `SimTimeCondition.evaluate` and
`TimeOfDayCondition.evaluate` (wntr/network/controls.py) and its interpreter.  The programs themselves are REGENERATED
from the source by harness/props/c04_translate.py into Gen/TimeConds.lean (Python `ast` → these constructors); Props/C04
proves that interpreting the generated programs gives exactly the hand-written models `evalSimTime` / `evalTod` of
Model/Time.lean for all inputs.  Integers only (Python bools are 0/1; `int(…)`, `bool(…)` are identities on the values
that occur); `np.floor(a/b)` and `//` are floor division.  Import-free apart from Model/Time.
-/
import WntrModel.Model.Time
namespace Wntr.TimeProg
open Wntr.Time

/-- the names that occur: attributes of the condition / model and the locals of the two methods -/
inductive Var where
  | cur | prev                       -- sim_time / _prev_sim_time  or  _shifted_time / _prev_shifted_time
  | thr | rep | firstDay             -- self._threshold, self._repeat, self._first_day
  | curTime | prevTime | threshold | day | midnight | last | after | reached | crossed
  deriving Repr, DecidableEq

inductive Expr where
  | lit (n : Int)
  | var (x : Var)
  | add (a b : Expr) | sub (a b : Expr) | mul (a b : Expr)
  | fdiv (a b : Expr)                 -- `a // b`, `np.floor(a / b)`
  | lt (a b : Expr) | le (a b : Expr) | gt (a b : Expr) | ge (a b : Expr)
  | and (a b : Expr) | or (a b : Expr) | not (a : Expr)
  | relIn (rs : List Rel)             -- `self._relation is Comparison.x` / `in (Comparison.x, Comparison.y)`
  deriving Repr

inductive Stmt where
  | assign (x : Var) (e : Expr)
  | setBack (e : Expr)                -- self._backtrack = …
  | ret (e : Expr)                    -- return …  (truthiness)
  | ite (c : Expr) (t e : List Stmt)
  deriving Repr

abbrev Env := Var → Int

def Env.set (env : Env) (x : Var) (v : Int) : Env := fun y => if y = x then v else env y

def b2i (b : Bool) : Int := if b then 1 else 0

def Expr.eval (rel : Rel) (env : Env) : Expr → Int
  | .lit n => n
  | .var x => env x
  | .add a b => a.eval rel env + b.eval rel env
  | .sub a b => a.eval rel env - b.eval rel env
  | .mul a b => a.eval rel env * b.eval rel env
  | .fdiv a b => a.eval rel env / b.eval rel env
  | .lt a b => b2i (decide (a.eval rel env < b.eval rel env))
  | .le a b => b2i (decide (a.eval rel env ≤ b.eval rel env))
  | .gt a b => b2i (decide (a.eval rel env > b.eval rel env))
  | .ge a b => b2i (decide (a.eval rel env ≥ b.eval rel env))
  | .and a b => if a.eval rel env ≠ 0 then b.eval rel env else a.eval rel env
  | .or a b => if a.eval rel env ≠ 0 then a.eval rel env else b.eval rel env
  | .not a => b2i (decide (a.eval rel env = 0))
  | .relIn rs => b2i (rs.contains rel)

/-- state while a method body runs: the locals/attributes and `self._backtrack` (`none` until assigned) -/
structure PState where
  env : Env
  back : Option Int

inductive Outcome where
  | running (s : PState)
  | returned (value : Bool) (back : Option Int)

mutual
def execStmt (rel : Rel) : Stmt → PState → Outcome
  | .assign x e, s => .running { s with env := s.env.set x (e.eval rel s.env) }
  | .setBack e, s => .running { s with back := some (e.eval rel s.env) }
  | .ret e, s => .returned (e.eval rel s.env != 0) s.back
  | .ite c t e, s => if c.eval rel s.env ≠ 0 then execBlock rel t s else execBlock rel e s
def execBlock (rel : Rel) : List Stmt → PState → Outcome
  | [], s => .running s
  | st :: rest, s =>
    match execStmt rel st s with
    | .running s' => execBlock rel rest s'
    | .returned v b => .returned v b
end

/-- run a method body; falling off the end is `return None` (falsy) -/
def run (rel : Rel) (body : List Stmt) (env : Env) (back0 : Option Int) : Bool × Option Int :=
  match execBlock rel body ⟨env, back0⟩ with
  | .returned v b => (v, b)
  | .running s => (false, s.back)

/-- the attributes `SimTimeCondition.evaluate` reads -/
def simEnv (c : SimTimeCond) (prev cur : Int) : Env := fun
  | .cur => cur | .prev => prev | .thr => c.thr | .rep => c.rep | _ => 0

/-- the attributes `TimeOfDayCondition.evaluate` reads (shifted times) -/
def todEnv (c : TodCond) (prev cur : Int) : Env := fun
  | .cur => cur | .prev => prev | .thr => c.thr | .rep => b2i c.rep | .firstDay => c.firstDay | _ => 0

/-! ### the constructors' normalisation of `repeat` and `threshold` -/

/-- the Python type a number was given in (int, float, numpy integer, numpy float): the constructors must not care -/
inductive NumKind where
  | pyInt | pyFloat | npInt | npFloat
  deriving Repr, DecidableEq

/-- the `repeat` argument of `SimTimeCondition(model, relation, threshold, repeat, first_time)` -/
inductive RepeatArg where
  | pyTrue | pyFalse | pyNone
  | num (r : Int) (k : NumKind)
  deriving Repr, DecidableEq

/-- the statements of `__init__` that set `self._repeat` -/
inductive RepStmt where
  | assignArg                    -- self._repeat = repeat
  | ifIsTrueAssign (n : Int)     -- if repeat is True: self._repeat = n
  deriving Repr, DecidableEq

/-- the value `evaluate` then works with: a number is itself (whatever its type), `True` is 1, `False` / `None` are falsy -/
def RepeatArg.value : RepeatArg → Int
  | .pyTrue => 1 | .pyFalse => 0 | .pyNone => 0 | .num r _ => r

def RepStmt.run (arg : RepeatArg) (cur : Int) : RepStmt → Int
  | .assignArg => arg.value
  | .ifIsTrueAssign n => if arg = .pyTrue then n else cur

/-- `self._repeat` after `__init__` (0 = no repeat) -/
def normRepeat (prog : List RepStmt) (arg : RepeatArg) : Int := prog.foldl (fun cur st => st.run arg cur) 0

/-- how `__init__` turns the `threshold` argument into seconds -/
inductive ThrShape where
  | hoursStringTimes3600ElseParseValue   -- str without ':' → float(threshold) * 3600., else self._parse_value(threshold)
  deriving Repr, DecidableEq

end Wntr.TimeProg
