/-
M6 (C15) — the SHAPE of the C++ stack machine `_evaluate` (wntr/sim/aml/evaluator.cpp) as data.

`harness/props/c15_evalshape.py` parses the C++ source (the `if (ndx == OPCODE) {…}` chain of `_evaluate`, the opcode
constants of evaluator.hpp, `OperationEnum` of expr.py) and regenerates `Gen/EvaluatorShape.lean`: per opcode the order in
which operands are popped and the expression assigned to `res`, as a term of the little language below. `shapeStep`
interprets such a table; `Props/C15.lean` proves that the generated table interpreted this way IS `step` of
`Model/Rpn.lean` (the hand-written machine every other C15 theorem is about). Import-free apart from the C15 model.
-/
import WntrModel.Model.Rpn
namespace Wntr.Aml

mutual
/-- right-hand sides of `res = …;` in `_evaluate` (`a2`, `a1`, `a` are the C++ locals `arg2`, `arg1`, `arg`) -/
inductive CExp where
  | a | a1 | a2
  | lit (q : Rat)
  | add (x y : CExp) | sub (x y : CExp) | mul (x y : CExp) | div (x y : CExp)
  | neg (x : CExp)
  | call1 (f : String) (x : CExp)            -- `::exp(arg)`, `std::abs(arg)`, …
  | call2 (f : String) (x y : CExp)          -- `::pow(arg1, arg2)`
  | ite (c : CCond) (t e : CExp)             -- `if (c) res = t; else res = e;`

/-- conditions of the `if` statements inside the cases -/
inductive CCond where
  | ge (x y : CExp) | le (x y : CExp) | gt (x y : CExp) | lt (x y : CExp)
  | eq (x y : CExp)
  | and (c d : CCond)
end

/-- one `if (ndx == NAME) { … }` case: pops in source order (top of stack first), then `res` -/
structure CaseShape where
  name : String
  code : Int
  pops : List String
  res : CExp

mutual
def CExp.eval (O : Ops α) (a a1 a2 : α) : CExp → Option α
  | .a => some a
  | .a1 => some a1
  | .a2 => some a2
  | .lit q => some (O.ofRat q)
  | .add x y => do let u ← x.eval O a a1 a2; let v ← y.eval O a a1 a2; pure (O.add u v)
  | .sub x y => do let u ← x.eval O a a1 a2; let v ← y.eval O a a1 a2; pure (O.sub u v)
  | .mul x y => do let u ← x.eval O a a1 a2; let v ← y.eval O a a1 a2; pure (O.mul u v)
  | .div x y => do let u ← x.eval O a a1 a2; let v ← y.eval O a a1 a2; pure (O.div u v)
  | .neg x => do let u ← x.eval O a a1 a2; pure (O.neg u)
  | .call1 f x => do
      let u ← x.eval O a a1 a2
      if f = "std::abs" then some (O.abs u) else if f = "::exp" then some (O.exp u) else if f = "::log" then some (O.log u)
      else if f = "::sin" then some (O.sin u) else if f = "::cos" then some (O.cos u) else if f = "::tan" then some (O.tan u)
      else if f = "::asin" then some (O.asin u) else if f = "::acos" then some (O.acos u)
      else if f = "::atan" then some (O.atan u) else none
  | .call2 f x y => do
      let u ← x.eval O a a1 a2; let v ← y.eval O a a1 a2
      if f = "::pow" then some (O.pow u v) else none
  | .ite c t e => do
      let b ← c.eval O a a1 a2
      if b then t.eval O a a1 a2 else e.eval O a a1 a2

def CCond.eval (O : Ops α) (a a1 a2 : α) : CCond → Option Bool
  | .ge x y => do let u ← x.eval O a a1 a2; let v ← y.eval O a a1 a2; pure (O.le v u)
  | .le x y => do let u ← x.eval O a a1 a2; let v ← y.eval O a a1 a2; pure (O.le u v)
  | .gt x y => do let u ← x.eval O a a1 a2; let v ← y.eval O a a1 a2; pure (!O.le u v)
  | .lt x y => do let u ← x.eval O a a1 a2; let v ← y.eval O a a1 a2; pure (!O.le v u)
  | .eq x y =>
      -- only `arg == 1` occurs: the `== 1` test of `Ops`
      match y with
      | .lit q => if q = 1 then (x.eval O a a1 a2).map O.isOne else none
      | _ => none
  | .and c d => do let p ← c.eval O a a1 a2; let q ← d.eval O a a1 a2; pure (p && q)
end

/-- run one case on the stack (top at the head): pop as the source does, push `res` -/
def CaseShape.apply (O : Ops α) (c : CaseShape) (s : List α) : Option (List α) :=
  if c.pops = ["arg2", "arg1"] then
    match s with
    | x2 :: x1 :: r => (c.res.eval O x1 x1 x2).map (· :: r)     -- `arg` is not assigned in a binary case
    | _ => none
  else if c.pops = ["arg"] then
    match s with
    | x :: r => (c.res.eval O x x x).map (· :: r)
    | _ => none
  else if c.pops = ["arg2", "arg1", "arg"] then
    match s with
    | x2 :: x1 :: x :: r => (c.res.eval O x x1 x2).map (· :: r)
    | _ => none
  else none

/-- the machine the generated table describes: non-negative entries push a leaf value, negative ones dispatch on the
opcode chain (`none` = "Operation not recognized" / stack underflow) -/
def shapeStep (O : Ops α) (vals : Nat → α) (cases : List CaseShape) (s : List α) (t : Int) : Option (List α) :=
  if 0 ≤ t then some (vals t.toNat :: s)
  else match cases.find? (fun c => c.code == t) with
    | some c => c.apply O s
    | none => none


/-! ### the operator overloads of `ExpressionBase` (expr.py) as data -/

/-- what an overload returns in one branch -/
inductive ORes where
  | self | negSelf | raise
  | num (q : Rat)
  | helper (op : String)      -- `self._binary_operation_helper(other, <Op>Operator)` / `_unary_operation_helper`
  | reflect (op : String)     -- `Float(other) <op> self`
  deriving Repr, DecidableEq

/-- one overload: the `if other == k: return …` shortcuts in source order, then the final `return` -/
structure OverloadShape where
  name : String
  shortcuts : List (Rat × ORes)
  final : ORes
  deriving Repr, DecidableEq

def binOfName (s : String) : Option Bin :=
  if s = "add" then some .add else if s = "sub" then some .sub else if s = "mul" then some .mul
  else if s = "div" then some .div else if s = "pow" then some .pow else none

def OverloadShape.pick (sh : OverloadShape) (k : Rat) : ORes :=
  match sh.shortcuts.find? (fun p => p.1 == k) with
  | some p => p.2
  | none => sh.final

/-- `obj <op> y` with a native number `y` (outer `none`: the shape is not one this interpreter knows; inner `none`: raises) -/
def OverloadShape.applyFwd (sh : OverloadShape) (a : Expr) (y : Rat) : Option (Option SVal) :=
  match sh.pick y with
  | .self => some (some (.ex a))
  | .negSelf => some (some (sNeg (.ex a)))
  | .raise => some none
  | .num q => some (some (.num q))
  | .helper op => (binOfName op).map fun b => some (sBinObjNum b a y)
  | .reflect _ => none

/-- `x <op> obj` with a native number `x`: the reflected overload; `Float(x) <op> self` is the object-object overload -/
def OverloadShape.applyRefl (sh : OverloadShape) (x : Rat) (b : Expr) : Option (Option SVal) :=
  match sh.pick x with
  | .self => some (some (.ex b))
  | .negSelf => some (some (sNeg (.ex b)))
  | .raise => some none
  | .num q => some (some (.num q))
  | .reflect op => (binOfName op).map fun o => sBin o (.ex (.const x)) (.ex b)
  | .helper _ => none

end Wntr.Aml
