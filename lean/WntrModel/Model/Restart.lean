/-
M5r `Restart` — what a continued `run_sim` re-derives.  `WNTRSimulator.run_sim` = a prologue that builds the state of
the simulator OBJECT from the network, then a do-while loop of passes.  The state is split into

* `Net C`    what lives in the network `wn` between passes: an arbitrary core `C` (clock, previous time, user and
             internal statuses, settings, tank heads and previous heads, `TankLevelCondition._last_value`, leak flags,
             demands, …) and the isolation flags `_is_isolated` of junctions and links (flags only written by
             `_get_isolated_junctions_and_links`);
* `SimState` the attributes of the simulator object that a pass of the loop MUTATES and a later pass READS:
             `_rule_iter`, `_prev_isolated_junctions`, `_prev_isolated_links` (the list is checked against the source by
             the translator of harness/props/c10.py, see Gen/RestartFields.lean).

Everything else a pass does is a parameter: `pre` (tank head update, pre-solve controls and rules — reads the simulator
object only through `_rule_iter`), `isolated` (the graph search, a function of the statuses), `post` (feasibility
controls, model update, the hydraulic SOLVE as an arbitrary function of the state, storing results, post-solve
controls, saving results, advancing the clock).  Import-free apart from the models it reuses.
-/
import WntrModel.Model.Sched
import WntrModel.Model.Isolation
namespace Wntr.Restart
open Wntr.Isolation (setAll)

structure SimState where
  ruleIter : Int
  prevIsoJ : List Nat
  prevIsoL : List Nat
  deriving Repr

structure Net (C : Type) where
  core : C
  isoJ : List Bool      -- junction._is_isolated, by node id
  isoL : List Bool      -- link._is_isolated, by link id

/-- the parts of a pass that are not modelled further -/
structure Pass (C R : Type) where
  ruleIterOf : C → Int                          -- run_sim prologue: 1 on a first step, else prev_sim_time // rule_timestep + 1
  pre : C → Int → C × Int                       -- … → (network core, `_rule_iter` after the pre-solve loop)
  isolated : C → List Nat × List Nat            -- isolated junction ids, ids of their links
  post : C → List Bool → List Bool → C × List R -- solve etc.; reads the flags, returns the rows saved
  simTime : C → Int

/-- indices whose flag is set: what the prologue of `run_sim` puts into `_prev_isolated_*` (commit fefb46f7) -/
def flagged (f : List Bool) : List Nat := (List.range f.length).filter (fun i => f.getD i false)

/-- the prologue of `run_sim`: the simulator-object state built from the network -/
def derive {C R : Type} (p : Pass C R) (w : Net C) : SimState :=
  ⟨p.ruleIterOf w.core, flagged w.isoJ, flagged w.isoL⟩

/-- one pass of the `while True` loop -/
def step {C R : Type} (p : Pass C R) (w : Net C) (s : SimState) : Net C × SimState × List R :=
  let (c1, it) := p.pre w.core s.ruleIter
  let (ids, lks) := p.isolated c1
  -- _get_isolated_junctions_and_links: clear the flags of the previous sets, set those of the new ones
  let fj := setAll (setAll w.isoJ s.prevIsoJ false) ids true
  let fl := setAll (setAll w.isoL s.prevIsoL false) lks true
  let (c2, rows) := p.post c1 fj fl
  (⟨c2, fj, fl⟩, ⟨it, ids, lks⟩, rows)

/-- `k` passes -/
def iter {C R : Type} (p : Pass C R) : Nat → Net C × SimState × List R → Net C × SimState × List R
  | 0, x => x
  | k + 1, (w, s, l) =>
    let r := step p w s
    iter p k (r.1, r.2.1, l ++ r.2.2)

/-- the do-while loop of `run_sim` with duration `T` stops after exactly `k ≥ 1` passes -/
def StopsAt {C R : Type} (p : Pass C R) (T : Int) (k : Nat) (x : Net C × SimState × List R) : Prop :=
  1 ≤ k ∧ p.simTime (iter p k x).1.core > T ∧ ∀ j, 1 ≤ j → j < k → ¬ p.simTime (iter p j x).1.core > T

/-! ### the effective time steps (`WNTRSimulator._setup_sim_options`) -/

/-- the adjustment of the steps for a numeric report timestep, statement by statement (regenerated into
Gen/RestartFields.lean) -/
inductive SetupTok where
  | ifReportLtHyd_setHydToReport            -- if report < hyd: hyd = report
  | elifReportNotMultiple_floorReport       -- elif report % hyd != 0: report = report - report % hyd
  deriving Repr, DecidableEq

/-- interpretation of the `if / elif` chain on (hydraulic step, report step); note: NO clock argument — the effective
steps are a function of the options alone -/
def runSetup : List SetupTok → Int × Int → Int × Int
  | [], p => p
  | .ifReportLtHyd_setHydToReport :: rest, (hyd, rep) => if rep < hyd then (rep, rep) else runSetup rest (hyd, rep)
  | .elifReportNotMultiple_floorReport :: rest, (hyd, rep) => if rep % hyd ≠ 0 then (hyd, rep - rep % hyd) else runSetup rest (hyd, rep)

/-- hand-written: the steps the simulator really uses (`schedgen.eff_steps`) -/
def effSteps (hyd rep : Int) : Int × Int :=
  if rep < hyd then (rep, rep) else if rep % hyd ≠ 0 then (hyd, rep - rep % hyd) else (hyd, rep)

end Wntr.Restart
