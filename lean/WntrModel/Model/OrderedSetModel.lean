/-
`wntr.utils.ordered_set.OrderedSet`, transliterated method by method.

The class keeps ONE field, `self._data = OrderedDict()`, and uses exactly four dict operations: `d[k] = None`,
`d.pop(k, None)`, `k in d`, iteration / `len`.  An `OrderedDict` whose values are all `None` is modelled by the list of its keys
in insertion order (`d[k] = None` for a key that is present keeps its position — that is Python's dict semantics, checked by the
differential run together with everything else; the run also exercises the plain `OrderedDict` operations the registries use:
`d[k] = v`, `d.pop(k, None)`, `k in d`, `list(d)`, which are `AL.set` / `AL.del` / `AL.has` / `AL.keys` of Model/Registry.lean).

Methods the class defines: `__init__`, `__contains__`, `__iter__`, `__len__`, `add`, `discard`, `update`, `union`, `__sub__`;
inherited from `collections.abc.MutableSet` / `Set` and used by WNTR: `remove`, `__or__`, `__eq__`, `__le__`, `clear`, `pop`.
-/
namespace Wntr.OrderedSetModel

variable {α : Type} [DecidableEq α]

/-- `self._data`: the keys of the OrderedDict, in insertion order -/
structure OSetM (α : Type) where
  data : List α
  deriving Repr

/-- `OrderedDict()` -/
def empty : OSetM α := ⟨[]⟩

/-- `self._data[value] = None` -/
def add (s : OSetM α) (v : α) : OSetM α := if v ∈ s.data then s else ⟨s.data ++ [v]⟩

/-- `self._data.pop(value, None)` -/
def discard (s : OSetM α) (v : α) : OSetM α := ⟨s.data.filter (fun y => y ≠ v)⟩

/-- `item in self._data` -/
def contains (s : OSetM α) (v : α) : Bool := s.data.contains v

/-- `len(self._data)` -/
def len (s : OSetM α) : Nat := s.data.length

/-- `self._data.__iter__()` -/
def iter (s : OSetM α) : List α := s.data

/-- `for i in iterable: self.add(i)` -/
def update (s : OSetM α) (l : List α) : OSetM α := l.foldl add s

/-- `OrderedSet(iterable)`: `__init__` = `update` on a new dict -/
def ofList (l : List α) : OSetM α := update empty l

/-- `ret = OrderedSet(self); for i in iterable: ret.add(i); return ret` -/
def union (s : OSetM α) (l : List α) : OSetM α := l.foldl add (ofList (iter s))

/-- `ret = OrderedSet(self); for i in other: ret.discard(i); return ret` -/
def sub (s : OSetM α) (l : List α) : OSetM α := l.foldl discard (ofList (iter s))

/-- `MutableSet.remove`: `if value not in self: raise KeyError(value); self.discard(value)` -/
def remove (s : OSetM α) (v : α) : Option (OSetM α) := if contains s v then some (discard s v) else none

/-- `Set.__or__`: `self._from_iterable(e for s in (self, other) for e in s)` -/
def or (s : OSetM α) (l : List α) : OSetM α := ofList (iter s ++ l)

/-- `Set.__le__`: `len(self) <= len(other) and all(e in other for e in self)` -/
def le (s t : OSetM α) : Bool := decide (len s ≤ len t) && s.data.all (contains t)

/-- `Set.__eq__`: `len(self) == len(other) and self.__le__(other)` — the order does not matter -/
def eq (s t : OSetM α) : Bool := decide (len s = len t) && le s t

/-- `MutableSet.clear` (pops until empty) -/
def clear (_ : OSetM α) : OSetM α := empty

/-- `MutableSet.pop`: `it = iter(self); value = next(it)` (KeyError when empty); `self.discard(value)` -/
def pop (s : OSetM α) : Option (α × OSetM α) :=
  match s.data with
  | [] => none
  | v :: _ => some (v, discard s v)

end Wntr.OrderedSetModel
