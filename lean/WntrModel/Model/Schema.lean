/-
`Schema` — the shape of `to_dict` / `from_dict` (wntr/network/io.py, base.py).

`to_dict` of an element is "for every public attribute name `k` of the class: `d[k] = getattr(obj, k)`";
`from_dict` re-creates the element by reading SOME keys of that dictionary and passing them to
`wn.add_*` or assigning them to attributes.  What is read and where it goes is DATA: the translator
(`harness/props/c13.py`) regenerates it on every run into `Gen/SchemaDict.lean` as `ClassTable`s
(emitted keys by reflection on populated instances; rows by `ast` of `from_dict`).

Two layers:
* a generic, value-type-parametric model (`Schema V`, `toDict`, `fromDict`) about which the round-trip
  theorem is proved for every object and every list of elements (Props/C13.lean);
* the decidable reading of a generated `ClassTable` (`restoreB`, `derivedB`, `tableOk`) that says when
  `from_dict` restores an emitted key faithfully.
Import-free.
-/
namespace Wntr.Schema

abbrev Key := String

/-! ### generic model -/

/-- one element class: which attribute names `to_dict` emits, which of them `from_dict` copies back
(into the attribute of the same name), which are computed from other attributes (read-only views such
as `Junction.base_demand`), and the value an attribute has when `from_dict` does not set it -/
structure Schema (V : Type) where
  emit : List Key
  restore : Key → Bool
  derive : Key → Option ((Key → V) → V)
  dflt : Key → V

variable {V : Type}

def Schema.emitVal (s : Schema V) (o : Key → V) (k : Key) : V :=
  match s.derive k with
  | some f => f o
  | none => o k

/-- `Node.to_dict` / `Link.to_dict`: the ordered key/value list -/
def Schema.toDict (s : Schema V) (o : Key → V) : List (Key × V) :=
  s.emit.map fun k => (k, s.emitVal o k)

def lookupD (d : List (Key × V)) (k : Key) (dv : V) : V :=
  match d.find? (fun kv => kv.1 == k) with
  | some kv => kv.2
  | none => dv

/-- the object `from_dict` builds: restored attributes come from the dictionary (through the
JSON-style normalisation `nrm`), every other attribute keeps its constructor default -/
def Schema.fromDict (s : Schema V) (nrm : V → V) (d : List (Key × V)) : Key → V :=
  fun k => if s.restore k then nrm (lookupD d k (s.dflt k)) else s.dflt k

/-- a network part (nodes, links, curves, …): elements tagged with the index of their class -/
abbrev Net (V : Type) := List (Nat × (Key → V))
abbrev NetDict (V : Type) := List (Nat × List (Key × V))

def netToDict (S : Nat → Schema V) (n : Net V) : NetDict V := n.map fun e => (e.1, (S e.1).toDict e.2)
def netFromDict (S : Nat → Schema V) (nrm : V → V) (d : NetDict V) : Net V := d.map fun e => (e.1, (S e.1).fromDict nrm e.2)
def netNorm (nrm : V → V) (d : NetDict V) : NetDict V := d.map fun e => (e.1, e.2.map fun kv => (kv.1, nrm kv.2))

/-- `from_dict(d, append=m0)`: the re-created elements are appended to the existing ones -/
def netFromDictAppend (S : Nat → Schema V) (nrm : V → V) (m0 : Net V) (d : NetDict V) : Net V :=
  m0 ++ netFromDict S nrm d

/-! ### generated tables -/

/-- how `from_dict` uses a key of the element dictionary -/
inductive Use where
  | ctor (arg : String)     -- passed to a call as argument `arg` (keyword name, or position "0","1",…; other calls "fn.i")
  | assign (attr : String)  -- `obj.attr = …d[key]…`
  | guarded (attr : String) -- same, but only under an `if` (truthiness / type test)
  | dispatch                -- compared in the branch test (node_type, link_type)
  deriving Repr, DecidableEq

/-- `xform`: "" = the value itself, "tuples" = a comprehension `[tuple(p) for p in …]`, anything else = unknown expression -/
structure Row where
  key : Key
  use : Use
  xform : String
  deriving Repr, DecidableEq

structure ClassTable where
  cls : String
  emitted : List Key
  rows : List Row
  defaults : List (Key × String)  -- JSON text of each attribute of an element created with the required arguments only
  deriving Repr, DecidableEq

/-- keys that `to_dict` computes from other emitted attributes (hand-written from elements.py:
read-only properties of the first demand; the GPV curve object next to its name) -/
def derivedKeys : String → List Key
  | "Junction" => ["base_demand", "demand_pattern", "demand_category"]
  | "GPValve" => ["headloss_curve"]
  | _ => []

/-- what "restored faithfully" means for (class, key): every group must be met by a row of the table.
Default: passed as the same-named argument or assigned to the same-named (or `_`-prefixed) attribute. -/
def spec (cls : String) (k : Key) : List (List Use) :=
  match cls, k with
  | "Junction", "demand_timeseries_list" =>
      [[.ctor "base_demand"], [.ctor "demand_pattern"], [.ctor "demand_category"],
       [.ctor "add_demand.0"], [.ctor "add_demand.1"], [.ctor "add_demand.2"]]
  | "Tank", "vol_curve_name" => [[.ctor "vol_curve"]]
  | "Reservoir", "head_pattern_name" => [[.ctor "head_pattern"]]
  | "HeadPump", "base_speed" | "PowerPump", "base_speed" => [[.ctor "speed"]]
  | "HeadPump", "speed_pattern_name" | "PowerPump", "speed_pattern_name" => [[.ctor "pattern"]]
  | "HeadPump", "pump_curve_name" | "PowerPump", "power" => [[.ctor "pump_parameter"]]
  | "Curve", "points" => [[.ctor "xy_tuples_list"]]
  | "Pattern", "multipliers" => [[.ctor "pattern"]]
  | "Source", "strength" => [[.ctor "quality"]]
  | "Source", "name" | "Pattern", "name" => [[.ctor "0", .ctor "name"]]
  -- the dictionary itself (Gen/SchemaSections.lean): name / references are assigned, options go through
  -- `wn.options.__init__(**d["options"])`, the element sections are looped over
  | "Model", "name" => [[.assign "name"]]
  | "Model", "references" => [[.assign "_references"]]
  | "Model", "options" => [[.ctor "options.__init__"]]
  | "Model", _ => [[.ctor "loop"]]
  -- a control entry: the branch is chosen on `type`; every key of a rule goes into the rule text that is re-parsed
  | "Control:rule", "type" | "Control:simple", "type" => [[.dispatch]]
  | "Control:rule", _ => [[.ctor "rule_text"]]
  | "Control:simple", "condition" => [[.ctor "condition"]]
  | "Control:simple", "then_actions" => [[.ctor "action"]]
  | _, "name" => [[.ctor "0", .ctor "name"]]
  | _, "start_node_name" => [[.ctor "1", .ctor "start_node_name"]]
  | _, "end_node_name" => [[.ctor "2", .ctor "end_node_name"]]
  | _, "node_type" | _, "link_type" => [[.dispatch]]
  | _, k => [[.ctor k, .assign k, .assign ("_" ++ k), .guarded k]]

/-- emitted attributes that no API call can move away from the constructor default
(a reservoir has the `leak*` views of `Node` but no `add_leak`; a pipe has the `initial_setting` view of `Link`) -/
def constKeys : String → List Key
  | "Reservoir" => ["leak", "leak_area", "leak_discharge_coeff"]
  | "Pipe" => ["initial_setting"]
  | "Model" => ["version", "comment"]  -- written by to_dict from the package version / a fixed sentence
  | _ => []

def ClassTable.dfltOf (t : ClassTable) (k : Key) : String := lookupD t.defaults k "null"

/-- a row meets a use: same use, a transformation the JSON normalisation undoes, and — for an
assignment under a truthiness guard — the attribute's default is itself falsy -/
def Row.meets (t : ClassTable) (r : Row) (k : Key) (u : Use) : Bool :=
  r.key == k && r.use == u &&
  (if k == "vertices" then r.xform == "tuples"  -- JSON delivers lists, the setter insists on tuples
   else r.xform == "" || r.xform == "tuples") &&
  (match u with
   | .guarded _ => t.dfltOf k == "null" || t.cls == "GPValve"
   | _ => true)

def ClassTable.derivedB (t : ClassTable) (k : Key) : Bool := (derivedKeys t.cls).contains k

def ClassTable.restoreB (t : ClassTable) (k : Key) : Bool :=
  t.emitted.contains k && !t.derivedB k &&
  (spec t.cls k).all fun grp => grp.any fun u => t.rows.any fun r => r.meets t k u

def ClassTable.constB (t : ClassTable) (k : Key) : Bool := (constKeys t.cls).contains k

def ClassTable.keyOk (t : ClassTable) (k : Key) : Bool := t.restoreB k || t.derivedB k || t.constB k

def ClassTable.ok (t : ClassTable) : Bool := t.emitted.all t.keyOk

/-- the (class, key) pairs that `to_dict` emits and `from_dict` neither restores nor recomputes -/
def missingPairs (ts : List ClassTable) : List (String × Key) :=
  ts.flatMap fun t => (t.emitted.filter fun k => !t.keyOk k).map fun k => (t.cls, k)

/-- the schema a table denotes, for any value type and any family of derived-attribute functions -/
def ClassTable.schema (t : ClassTable) (der : Key → Option ((Key → V) → V)) (dflt : Key → V) : Schema V :=
  { emit := t.emitted
    restore := t.restoreB
    derive := fun k => if t.derivedB k then der k else none
    dflt := dflt }

/-- executable instance used by the driver: values are JSON texts, derived keys are marked -/
def ClassTable.roundtripText (t : ClassTable) (d : List (Key × String)) : List (Key × String) :=
  t.emitted.map fun k =>
    if t.derivedB k then (k, "<derived>")
    else if t.restoreB k then (k, lookupD d k (t.dfltOf k))
    else (k, t.dfltOf k)

end Wntr.Schema
