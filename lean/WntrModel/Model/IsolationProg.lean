/-
M8, source level.  A small imperative language with exactly the constructs `check_for_isolated_junctions`
(wntr/sim/network_isolation/network_isolation.cpp) is written in -- counted `for` loops, a `while` over a `std::set<int>`,
`if`, scalar assignments, array loads, stores into `node_indicator`, `insert`, and the "take the last / first element out of
the set" idiom -- with an interpreter `exec`.  harness/props/c09.py parses the C++ text on every run into a term `Gen.cppSearch : S`
(Gen/IsolationShape.lean); Props/C09.lean proves `Gen.cppSearch = refSearch` by `decide` and, for EVERY input,
`exec refSearch = checkIsolated` (Lemmas/IsolationProg.lean) -- so the theorems about `checkIsolated` are theorems about the
program text that is compiled, and an edit of the C++ (loop bound, `== 1` test, a missing `insert`, another array) breaks a proof.

Also here, regenerated from wntr/sim/core.py by `ast`: `_update_internal_graph` and `_get_isolated_junctions_and_links` as statement
trees (`PStmt`, `IStmt`) with interpreters `execP`, `execI` proved equal to `updateGraph`, `getIsolated`; and token skeletons
(which registry generators `_initialize_internal_graph` and the head of `run_sim` iterate over, the statements of
`_initialize_internal_graph` / `_get_csr_data_index`, the order of the calls in the loop body of `run_sim`) with their reference
values -- the ones Model/Isolation.lean and Model/IsolationRun.lean transliterate.
Import-free apart from the model.
-/
import WntrModel.Model.Isolation
namespace Wntr.Isolation.Prog

/-! ### syntax -/

/-- the array parameters of `check_for_isolated_junctions` -/
inductive Arr | sources | indicator | indptr | indices | data | nconn
  deriving DecidableEq, Repr

/-- its scalar locals -/
inductive Var | sourceCntr | sourceId | node | ndx | ncon | val | col | i
  deriving DecidableEq, Repr

inductive E
  | lit (n : Int)
  | var (v : Var)
  | load (a : Arr) (i : E)
  | add (a b : E)
  | len (a : Arr)              -- the `<array>_length` parameter SWIG passes along with each array
  deriving DecidableEq, Repr

inductive Cmp | eq | ne | lt | le | gt | ge
  deriving DecidableEq, Repr

inductive C
  | cmp (op : Cmp) (a b : E)
  | setEmpty                    -- nodes_to_explore.empty()
  | not (c : C)
  deriving DecidableEq, Repr

inductive S
  | skip
  | seq (a b : S)
  | assign (v : Var) (e : E)
  | storeInd (i e : E)          -- node_indicator[i] = e   (the only array the function writes)
  | newSet                      -- std::set<int> nodes_to_explore;
  | insert (e : E)              -- nodes_to_explore.insert(e)
  | popLast (v : Var)           -- it = end(); --it; v = *it; erase(it)
  | popFirst (v : Var)          -- it = begin(); v = *it; erase(it)
  | ite (c : C) (t e : S)
  | forUp (v : Var) (lo hi : E) (body : S)    -- for (int v = lo; v < hi; ++v) body
  | while (c : C) (body : S)
  deriving DecidableEq, Repr

/-- a `{ ... }` compound -/
def block : List S → S
  | [] => .skip
  | s :: r => .seq s (block r)

/-! ### semantics -/

structure Env where
  sources : List Nat
  g : Csr

structure St where
  vars : Var → Int
  ind : List Int          -- node_indicator
  work : List Nat         -- nodes_to_explore

def St.set (st : St) (v : Var) (x : Int) : St := { st with vars := fun w => if w = v then x else st.vars w }

def arr (env : Env) (st : St) (a : Arr) (i : Nat) : Int :=
  match a with
  | .sources => ((env.sources.getD i 0 : Nat) : Int)
  | .indicator => st.ind.getD i 0
  | .indptr => ((env.g.indptr.getD i 0 : Nat) : Int)
  | .indices => ((env.g.indices.getD i 0 : Nat) : Int)
  | .data => env.g.data.getD i 0
  | .nconn => ((env.g.nconn.getD i 0 : Nat) : Int)

def arrLen (env : Env) (st : St) (a : Arr) : Nat :=
  match a with
  | .sources => env.sources.length
  | .indicator => st.ind.length
  | .indptr => env.g.indptr.length
  | .indices => env.g.indices.length
  | .data => env.g.data.length
  | .nconn => env.g.nconn.length

def eval (env : Env) (st : St) : E → Int
  | .lit n => n
  | .var v => st.vars v
  | .load a i => arr env st a (eval env st i).toNat
  | .add a b => eval env st a + eval env st b
  | .len a => (arrLen env st a : Nat)

def cmp (op : Cmp) (a b : Int) : Bool :=
  match op with
  | .eq => a == b | .ne => a != b | .lt => a < b | .le => a ≤ b | .gt => b < a | .ge => b ≤ a

def evalC (env : Env) (st : St) : C → Bool
  | .cmp op a b => cmp op (eval env st a) (eval env st b)
  | .setEmpty => st.work.isEmpty
  | .not c => !(evalC env st c)

def minL : Nat → List Nat → Nat
  | m, [] => m
  | m, x :: xs => minL (if x < m then x else m) xs

/-- remove and return the smallest element of the set -/
def popMin : List Nat → Option (Nat × List Nat)
  | [] => none
  | x :: xs => some (minL x xs, (x :: xs).erase (minL x xs))

/-- `while (c) b` with fuel -/
def loopN (c : St → Bool) (b : St → St) : Nat → St → St
  | 0, st => st
  | f + 1, st => if c st then loopN c b f (b st) else st

/-- The interpreter.  A counted loop runs its body for `v = lo, …, hi - 1` with the bounds read once (sound for programs in which
the body assigns neither `v` nor a variable of `hi`: `wf`, decided for the reference program).  The `while` loop is run with
fuel = number of nodes, as `explore`; `search_fuel_suffices` (Props/C09.lean) shows that it always ends because the set is empty. -/
def exec (env : Env) : S → St → St
  | .skip, st => st
  | .seq a b, st => exec env b (exec env a st)
  | .assign v e, st => st.set v (eval env st e)
  | .storeInd i e, st => { st with ind := st.ind.set (eval env st i).toNat (eval env st e) }
  | .newSet, st => { st with work := [] }
  | .insert e, st => { st with work := setInsert (eval env st e).toNat st.work }
  | .popLast v, st =>
    match popMax st.work with
    | none => st
    | some (u, rest) => { st.set v (u : Nat) with work := rest }
  | .popFirst v, st =>
    match popMin st.work with
    | none => st
    | some (u, rest) => { st.set v (u : Nat) with work := rest }
  | .ite c t e, st => if evalC env st c then exec env t st else exec env e st
  | .forUp v lo hi body, st =>
    (List.range (eval env st hi - eval env st lo).toNat).foldl
      (fun st k => exec env body (st.set v (eval env st lo + (k : Nat)))) st
  | .while c body, st => loopN (fun st => evalC env st c) (exec env body) st.ind.length st

/-! ### well-formedness of counted loops -/

def E.vars : E → List Var
  | .lit _ => [] | .var v => [v] | .load _ i => i.vars | .add a b => a.vars ++ b.vars | .len _ => []

def S.assigns : S → List Var
  | .skip => [] | .seq a b => a.assigns ++ b.assigns | .assign v _ => [v] | .storeInd _ _ => [] | .newSet => []
  | .insert _ => [] | .popLast v => [v] | .popFirst v => [v] | .ite _ t e => t.assigns ++ e.assigns
  | .forUp v _ _ b => v :: b.assigns | .while _ b => b.assigns

def S.wf : S → Bool
  | .seq a b => a.wf && b.wf
  | .ite _ t e => t.wf && e.wf
  | .forUp v lo hi b => b.wf && !(b.assigns.contains v) && (lo.vars ++ hi.vars).all (fun w => !(b.assigns.contains w) && w != v)
  | .while _ b => b.wf
  | _ => true

/-! ### the reference program: what `checkIsolated` (Model/Isolation.lean) is the meaning of -/

def refInner : S := block [
  .assign .val (.load .data (.add (.var .ndx) (.var .i))),
  .ite (.cmp .eq (.var .val) (.lit 1)) (block [
    .assign .col (.load .indices (.add (.var .ndx) (.var .i))),
    .ite (.cmp .eq (.load .indicator (.var .col)) (.lit 1)) (block [
      .storeInd (.var .col) (.lit 0),
      .insert (.var .col)]) .skip]) .skip]

def refWhileBody : S := block [
  .popLast .node,
  .assign .ndx (.load .indptr (.var .node)),
  .assign .ncon (.load .nconn (.var .node)),
  .forUp .i (.lit 0) (.var .ncon) refInner]

def refSourceBody : S := block [
  .assign .sourceId (.load .sources (.var .sourceCntr)),
  .ite (.cmp .eq (.load .indicator (.var .sourceId)) (.lit 1)) (block [
    .storeInd (.var .sourceId) (.lit 0),
    .newSet,
    .insert (.var .sourceId),
    .while (.not .setEmpty) refWhileBody]) .skip]

def refSearch : S := .forUp .sourceCntr (.lit 0) (.len .sources) refSourceBody

/-- the parameter list of the C++ function, in order (array, then its length) -/
def refParams : List Arr := [.sources, .indicator, .indptr, .indices, .data, .nconn]

/-- what `_get_isolated_junctions_and_links` passes, in order -/
inductive PyArg | sourceIds | onesPerNode | graphIndptr | graphIndices | graphData | numberOfConnections | other
  deriving DecidableEq, Repr

def refCallArgs : List PyArg := [.sourceIds, .onesPerNode, .graphIndptr, .graphIndices, .graphData, .numberOfConnections]

/-- which model array each argument fills -/
def argFor : Arr → PyArg
  | .sources => .sourceIds | .indicator => .onesPerNode | .indptr => .graphIndptr | .indices => .graphIndices
  | .data => .graphData | .nconn => .numberOfConnections

/-! ### Python side (wntr/sim/core.py), token skeletons -/

/-- registry generators -/
inductive Reg | pipes | pumps | valves | links | junctions | tanks | reservoirs | nodes | other
  deriving DecidableEq, Repr

structure Iter where
  /-- `itertools.chain(pipes(), pumps(), valves())` of the first loop of `_initialize_internal_graph` (Net.initOrder) -/
  initLinks : List Reg
  /-- the loop that fills `_map_link_to_internal_graph_data_ndx` (Sim.ndx is indexed by `wn.links()` position) -/
  ndxLinks : List Reg
  /-- `_source_ids` (Net.sources) -/
  sources : List Reg
  /-- the two seeds at the head of `run_sim` (startRun) -/
  seedJunctions : List Reg
  seedLinks : List Reg
  deriving DecidableEq, Repr

def refIter : Iter :=
  { initLinks := [.pipes, .pumps, .valves], ndxLinks := [.links], sources := [.tanks, .reservoirs],
    seedJunctions := [.junctions], seedLinks := [.links] }

/-- statement tokens of the Python functions (one token = a fixed group of source statements; `for`/`if` tokens are closed by `close`) -/
inductive PyTok
  -- _update_internal_graph
  | forChanges | ifStatusAttr | ifObjClosed | else_ | write0 | write1 | forMulti | firstLink | forLinkList | ifLinkNotClosed
  | resetReference
  -- _get_isolated_junctions_and_links
  | forPrevJ | clearJ | forPrevL | clearL | onesIndicator | callSearch | idsWhereOne | newSets | forIds | flagJ | addJ
  | linksOfNode | forConnected | flagL | addL | updateModel | keepJ | keepL | returnCounts
  -- _initialize_internal_graph
  | initLists | forInitLinks | endIds | ifNewPair | zeroCounts | incCounts | pushBoth | ifLinkClosed | push0 | push1
  | buildCsr | newNdxMap | forNdxLinks | lookupBoth | keepNdxMap | rowLengths | newMulti | forPairs | ifSeveral | skipReverse
  | zeroPair | newList | forLinksOfFrom | getLink | ifTouchesTo | appendLink
  | newSources | forSources | appendSource | packSources
  -- _get_csr_data_index
  | rowStart | rowLen | rowCols | counter0 | forCols | ifColEq | returnPos | incCounter | raiseNotFound
  -- head of run_sim
  | seedJ | seedL | createModel | controlManagers | registerObservers | initGraph | refGraph | refModel
  | close
  deriving DecidableEq, Repr

/-! `_update_internal_graph` as a program with an interpreter (the other Python functions are token skeletons only) -/

inductive PStmt
  | skip
  | seq (a b : PStmt)
  | forChanges (b : PStmt)        -- for obj, attr in self._change_tracker.get_changes(ref_point='graph'):   binds obj
  | ifStatusAttr (b : PStmt)      -- if 'status' == attr:   (the model's change set holds status changes only)
  | ifObjClosed (t e : PStmt)     -- if <bound link>.status == LinkStatus.Closed: … else: …
  | write0                        -- ndx1, ndx2 = ndx_map[<bound link>]; data[ndx1] = 0; data[ndx2] = 0
  | write1
  | forMulti (b : PStmt)          -- for key, link_list in self._node_pairs_with_multiple_links.items():   binds link_list
  | firstLink                     -- first_link = link_list[0]   (binds the link; IndexError on an empty list is not modelled)
  | forLinkList (b : PStmt)       -- for link in link_list:   binds link
  | ifLinkNotClosed (b : PStmt)   -- if link.status != LinkStatus.Closed:
  | resetReference                -- self._change_tracker.reset_reference_point(key='graph')
  deriving DecidableEq, Repr

def blockP : List PStmt → PStmt
  | [] => .skip
  | s :: r => .seq s (blockP r)

structure PSt where
  data : List Int        -- self._internal_graph.data
  cur : Nat              -- the link currently bound (obj / first_link / link)
  lst : List Nat         -- link_list
  reset : Bool           -- reset_reference_point('graph') was called

def execP (s : Sim) : PStmt → PSt → PSt
  | .skip, st => st
  | .seq a b, st => execP s b (execP s a st)
  | .forChanges b, st => s.changed.foldl (fun st k => execP s b { st with cur := k }) st
  | .ifStatusAttr b, st => execP s b st
  | .ifObjClosed t e, st => if s.status st.cur = 0 then execP s t st else execP s e st
  | .write0, st => { st with data := writeLink s.ndx st.data st.cur 0 }
  | .write1, st => { st with data := writeLink s.ndx st.data st.cur 1 }
  | .forMulti b, st => s.multi.foldl (fun st e => execP s b { st with lst := e.2 }) st
  | .firstLink, st => { st with cur := st.lst.headD st.cur }
  | .forLinkList b, st => st.lst.foldl (fun st l => execP s b { st with cur := l }) st
  | .ifLinkNotClosed b, st => if s.status st.cur ≠ 0 then execP s b st else st
  | .resetReference, st => { st with reset := true }

/-- what the run of the program leaves in the simulator object -/
def applyP (s : Sim) (r : PSt) : Sim :=
  if r.reset then
    { s with g := { s.g with data := r.data }, prev := (List.range s.net.links.length).map s.status, changed := [] }
  else { s with g := { s.g with data := r.data } }

def refUpdate : PStmt := blockP [
  .forChanges (blockP [
    .ifStatusAttr (blockP [
      .ifObjClosed (blockP [.write0]) (blockP [.write1])])]),
  .forMulti (blockP [
    .firstLink,
    .write0,
    .forLinkList (blockP [
      .ifLinkNotClosed (blockP [.write1])])]),
  .resetReference]

/-! `_get_isolated_junctions_and_links` as a program with an interpreter -/

inductive IStmt
  | skip
  | seq (a b : IStmt)
  | forPrevJ (b : IStmt)          -- for j in self._prev_isolated_junctions:
  | clearJ                        -- junction = self._wn.get_node(j); junction._is_isolated = False
  | forPrevL (b : IStmt)          -- for l in self._prev_isolated_links:
  | clearL                        -- link = self._wn.get_link(l); link._is_isolated = False
  | onesIndicator                 -- node_indicator = np.ones(self._wn.num_nodes, …)
  | callSearch                    -- check_for_isolated_junctions(self._source_ids, node_indicator, indptr, indices, data, nconn)
  | idsWhereOne                   -- isolated_junction_ids = [i for i in range(len(node_indicator)) if node_indicator[i] == 1]
  | newSets                       -- isolated_junctions = OrderedSet(); isolated_links = OrderedSet()
  | forIds (b : IStmt)            -- for j_id in isolated_junction_ids:
  | flagJ                         -- j = name of j_id; junction = get_node(j); junction._is_isolated = True
  | addJ                          -- isolated_junctions.add(j)
  | linksOfNode                   -- connected_links = self._wn.get_links_for_node(j)
  | forConnected (b : IStmt)      -- for l in connected_links:
  | flagL                         -- link = get_link(l); link._is_isolated = True
  | addL                          -- isolated_links.add(l)
  | updateModel                   -- update_model_for_isolated_junctions_and_links(…, prev sets, new sets)
  | keepJ                         -- self._prev_isolated_junctions = isolated_junctions
  | keepL                         -- self._prev_isolated_links = isolated_links
  | returnCounts
  deriving DecidableEq, Repr

def blockI : List IStmt → IStmt
  | [] => .skip
  | s :: r => .seq s (blockI r)

structure ISt where
  isoJ : List Bool
  isoL : List Bool
  ind : List Int
  ids : List Nat
  newJ : List Nat
  newL : List Nat
  curJ : Nat
  curL : Nat
  links : List Nat
  prevJ : List Nat
  prevL : List Nat
  /-- the (previous, new) sets handed to `update_model_for_isolated_junctions_and_links` -/
  handed : Option ((List Nat × List Nat) × (List Nat × List Nat))

/-- `OrderedSet.add` -/
def osAdd (acc : List Nat) (x : Nat) : List Nat := if x ∈ acc then acc else acc ++ [x]

def execI (s : Sim) : IStmt → ISt → ISt
  | .skip, st => st
  | .seq a b, st => execI s b (execI s a st)
  | .forPrevJ b, st => st.prevJ.foldl (fun st j => execI s b { st with curJ := j }) st
  | .clearJ, st => { st with isoJ := st.isoJ.set st.curJ false }
  | .forPrevL b, st => st.prevL.foldl (fun st l => execI s b { st with curL := l }) st
  | .clearL, st => { st with isoL := st.isoL.set st.curL false }
  | .onesIndicator, st => { st with ind := List.replicate s.net.n 1 }
  | .callSearch, st => { st with ind := checkIsolated s.g s.net.sources st.ind }
  | .idsWhereOne, st => { st with ids := (List.range st.ind.length).filter fun i => st.ind.getD i 0 == 1 }
  | .newSets, st => { st with newJ := [], newL := [] }
  | .forIds b, st => st.ids.foldl (fun st j => execI s b { st with curJ := j }) st
  | .flagJ, st => { st with isoJ := st.isoJ.set st.curJ true }
  | .addJ, st => { st with newJ := osAdd st.newJ st.curJ }
  | .linksOfNode, st => { st with links := s.net.linksOf st.curJ }
  | .forConnected b, st => st.links.foldl (fun st l => execI s b { st with curL := l }) st
  | .flagL, st => { st with isoL := st.isoL.set st.curL true }
  | .addL, st => { st with newL := osAdd st.newL st.curL }
  | .updateModel, st => { st with handed := some ((st.prevJ, st.prevL), (st.newJ, st.newL)) }
  | .keepJ, st => { st with prevJ := st.newJ }
  | .keepL, st => { st with prevL := st.newL }
  | .returnCounts, st => st

def ISt.ofSim (s : Sim) : ISt :=
  { isoJ := s.isoJ, isoL := s.isoL, ind := [], ids := [], newJ := [], newL := [], curJ := 0, curL := 0, links := [],
    prevJ := s.prevIsoJ, prevL := s.prevIsoL, handed := none }

def applyI (s : Sim) (r : ISt) : Sim := { s with isoJ := r.isoJ, isoL := r.isoL, prevIsoJ := r.prevJ, prevIsoL := r.prevL }

def refIsolated : IStmt := blockI [
  .forPrevJ (blockI [.clearJ]),
  .forPrevL (blockI [.clearL]),
  .onesIndicator, .callSearch, .idsWhereOne, .newSets,
  .forIds (blockI [
    .flagJ, .addJ, .linksOfNode,
    .forConnected (blockI [.flagL, .addL])]),
  .updateModel, .keepJ, .keepL, .returnCounts]

/-- `_initialize_internal_graph`, as `initGraph` (with `countLinks`, `buildCsr`, `getCsrDataIndex`, `multiTable`, `initStep`) reads it -/
def refInitToks : List PyTok :=
  [.initLists,
   .forInitLinks, .endIds, .ifNewPair, .zeroCounts, .close, .incCounts, .pushBoth, .ifLinkClosed, .push0, .else_, .push1, .close, .close,
   .buildCsr, .newNdxMap,
   .forNdxLinks, .endIds, .lookupBoth, .close,
   .keepNdxMap, .rowLengths, .newMulti,
   .forPairs, .ifSeveral, .skipReverse, .zeroPair, .newList,
     .forLinksOfFrom, .getLink, .ifTouchesTo, .appendLink, .ifLinkNotClosed, .write1, .close, .close, .close, .close, .close,
   .newSources, .forSources, .appendSource, .close, .forSources, .appendSource, .close, .packSources]

/-- `_get_csr_data_index(a, row, col)` (model: `getCsrDataIndex`) -/
def refCsrIndexToks : List PyTok :=
  [.rowStart, .rowLen, .rowCols, .counter0, .forCols, .ifColEq, .returnPos, .close, .incCounter, .close, .raiseNotFound]

/-- the statements of the head of `run_sim` that `startRun` stands for, in source order, none of them conditional -/
def refHeadToks : List PyTok :=
  [.seedJ, .seedL, .createModel, .controlManagers, .registerObservers, .initGraph, .refGraph, .refModel]

/-- the calls of the `while True:` body of `run_sim` that touch statuses, the graph, the flags or the results, in source order -/
inductive LoopTok
  | ifNotResolve | ifFailed | ifChanged | ifReportGrid | ifReportAll | close
  | presolve | feasibility | updateGraph | getIsolated | solve | backupSolve | store | postsolve | save
  | resolveOn | resolveOff | cont | brk
  deriving DecidableEq, Repr

/-- Model/IsolationRun.lean `runPass` is written for this order -/
def refLoopToks : List LoopTok :=
  [.ifNotResolve, .presolve, .close,
   .feasibility, .updateGraph, .getIsolated,
   .solve, .backupSolve,
   .ifFailed, .brk, .close,
   .store, .postsolve, .feasibility,
   .ifChanged, .resolveOn, .updateGraph, .brk, .cont, .close,
   .resolveOff,
   .ifReportGrid, .save, .close, .ifReportAll, .save, .close,
   .brk]

end Wntr.Isolation.Prog
