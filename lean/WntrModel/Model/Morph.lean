/-
M9 `Morph` — wntr/morph/link.py `_split_or_break_pipe` and the three operations of wntr/morph/skel.py
`_Skeletonize` (`branch_trim`, `series_pipe_merge`, `parallel_pipe_merge`), transliterated over a small
network state.  Geometry is in `Rat`; the Euclidean lengths of the polyline segments of a pipe with vertices
(`sqrt`, not rational) enter as a given list of non-negative rationals `segLens`.

The split model follows the REPAIRED code (fixes/C19-split-no-check-valve.patch: the new pipe gets no check
valve; fixes/C19-split-at-zero-with-vertices.patch: `junction_coordinates` defaults to the start node's
coordinates); the pinned behaviour is kept in Props/C19.lean next to its counterexamples.

fixes/C19-split-neutral-new-pipe.patch: the new pipe is OPEN and has minor loss 0 (`splitCopying` is the code before
that patch: `minor_loss` copied to both parts, `initial_status` := the original's CURRENT `status` property).

Quirks of the code that are mirrored: a vertex equal to the start node's
coordinates is dropped; a pipe between two reservoirs raises AttributeError (`Reservoir` has no `elevation`);
a merged pipe of the skeletonizer has no check valve and no vertices and runs from `neighbors[0]` to `neighbors[1]`.
-/
import WntrModel.Model.MorphShape
namespace Wntr.Morph

inductive NodeKind where
  | junction | tank | reservoir
  deriving Repr, DecidableEq

abbrev Pt := Rat × Rat

structure Node where
  name : String
  kind : NodeKind
  elev : Rat            -- elevation (junction, tank); unused for a reservoir
  xy : Pt
  deriving Repr, DecidableEq

structure Pipe where
  name : String
  a : String            -- start node
  b : String            -- end node
  length : Rat
  diam : Rat
  rough : Rat
  minor : Rat
  initStatus : Nat      -- `initial_status` (LinkStatus value; the one `to_dict` emits)
  status : Nat          -- the `status` property (current status; equals `initial_status` on a model that has not been simulated)
  cv : Bool
  verts : List Pt
  deriving Repr, DecidableEq

/-- pumps and valves: opaque, only name and end nodes -/
structure Other where
  name : String
  a : String
  b : String
  deriving Repr, DecidableEq

structure Net where
  nodes : List Node
  pipes : List Pipe
  others : List Other
  deriving Repr, DecidableEq

inductive Err where
  | notAPipe          -- ValueError('You can only split pipes.') / KeyError
  | badFraction       -- ValueError('split_at_point must be between 0 and 1')
  | nameInUse         -- RuntimeError (junction or link name already used)
  | unbound           -- UnboundLocalError: junction_coordinates (pinned code only)
  | noElevation       -- AttributeError: both ends are reservoirs (`Reservoir` has no `elevation`)
  deriving Repr, DecidableEq

def Net.node? (n : Net) (name : String) : Option Node := n.nodes.find? (·.name == name)
def Net.pipe? (n : Net) (name : String) : Option Pipe := n.pipes.find? (·.name == name)
def Net.nodeNames (n : Net) : List String := n.nodes.map (·.name)
def Net.linkNames (n : Net) : List String := n.pipes.map (·.name) ++ n.others.map (·.name)

/-- elevation of the new junction: the other end's elevation when one end is a reservoir, else linear -/
def junctionElevation (s e : Node) (f : Rat) : Rat :=
  if s.kind = .reservoir then e.elev
  else if e.kind = .reservoir then s.elev
  else s.elev + (e.elev - s.elev) * f

def lerp (p q : Pt) (t : Rat) : Pt := (p.1 + (q.1 - p.1) * t, p.2 + (q.2 - p.2) * t)

/-- the loop that assigns each vertex (= `start_pos` of segments 1…) to the first or to the second pipe.
`sub` = `segment['subtotal']` of the segment starting at the head vertex; `ls` = lengths of the segments starting
at these vertices.  A vertex equal to the start node's coordinates is skipped, as in the code. -/
def partitionVerts (start : Pt) (c : Rat) : Rat → List Pt → List Rat → List Pt × List Pt
  | _, [], _ => ([], [])
  | sub, v :: vs, ls =>
    let l := ls.headD 0
    let (f, s) := partitionVerts start c (sub + l) vs ls.tail
    if v = start then (f, s)
    else if sub < c then (v :: f, s) else (f, v :: s)

/-- the loop that finds the segment crossing the split point (`subtotal + length ≥ split > subtotal`) and
interpolates in it; `cur` is the value `junction_coordinates` holds so far (the last match wins). -/
def crossing (c : Rat) : Rat → List Pt → List Rat → Option Pt → Option Pt
  | sub, p :: q :: rest, l :: ls, cur =>
    let cur' := if sub + l ≥ c ∧ c > sub then some (lerp p q ((c - sub) / l)) else cur
    crossing c (sub + l) (q :: rest) ls cur'
  | _, _, _, cur => cur

def lsum (l : List Rat) : Rat := l.foldl (· + ·) 0

/-- SPECIFICATION: the point at arc length `c > 0` from the first point of a polyline whose segments have lengths `ls` -/
def pointAt : Rat → List Pt → List Rat → Option Pt
  | c, p :: q :: rest, l :: ls => if c ≤ l then some (lerp p q (c / l)) else pointAt (c - l) (q :: rest) ls
  | _, _, _ => none

/-- the segment lengths fit the points: one length per segment, and a zero-length segment joins equal points (true of the
Euclidean lengths the code computes) -/
def fits : List Pt → List Rat → Prop
  | p :: q :: rest, l :: ls => (l = 0 → p = q) ∧ fits (q :: rest) ls
  | [_], [] => True
  | _, _ => False

/-- coordinates of the new junction and the two vertex lists.  `init` is the initial value of
`junction_coordinates` (`some start` in the repaired code, `none` = unbound in the pinned code). -/
def geometry (s e : Node) (verts : List Pt) (segLens : List Rat) (f : Rat) (init : Option Pt) :
    Option Pt × List Pt × List Pt :=
  if verts.isEmpty then (some (lerp s.xy e.xy f), [], [])
  else
    let pts := s.xy :: (verts ++ [e.xy])
    let total := lsum segLens
    let c := total * f
    let (fv, lv) := partitionVerts s.xy c (segLens.headD 0) verts segLens.tail
    (crossing c 0 pts segLens init, fv, lv)

def newJunction (name : String) (elev : Rat) (xy : Pt) : Node := { name := name, kind := .junction, elev := elev, xy := xy }

/-- `_split_or_break_pipe`; `initStart`: `junction_coordinates` initialised to the start node (619975e2); `sh`: see MorphShape -/
def splitCore (initStart : Bool) (sh : SplitShape) (net : Net) (pipeName newPipe : String) (newJ : List String)
    (atEnd : Bool) (f : Rat) (segLens : List Rat) (isBreak : Bool) : Except Err Net :=
  match net.pipe? pipeName with
  | none => .error .notAPipe
  | some pipe =>
    if f < 0 ∨ f > 1 then .error .badFraction
    else if newJ.any (fun j => net.nodeNames.contains j) then .error .nameInUse
    else if net.linkNames.contains newPipe then .error .nameInUse
    else
      match net.node? pipe.a, net.node? pipe.b with
      | some s, some e =>
        if s.kind = .reservoir ∧ e.kind = .reservoir then .error .noElevation else
        let elev := junctionElevation s e f
        let (xy?, fv, lv) := geometry s e pipe.verts segLens f (if initStart then some s.xy else none)
        match xy? with
        | none => .error .unbound
        | some xy =>
          let j0 := newJ.headD ""
          let j1 := if isBreak then newJ.getD 1 "" else j0
          let nodes := net.nodes ++ (newJ.map fun j => newJunction j elev xy)
          let np := sh.newPipe
          -- the arguments of `wn2.add_pipe(new_pipe_name, …)`, each taken from where the shape says
          let fresh (a b : String) (len : LenSrc) (vs : VertSrc) : Pipe :=
            { name := newPipe, a := a, b := b, length := len.eval pipe.length f, diam := np.diam.rat pipe.diam,
              rough := np.rough.rat pipe.rough, minor := np.minor.rat pipe.minor, initStatus := np.status.nat pipe.status,
              status := np.status.nat pipe.status, cv := np.cv.bool pipe.cv, verts := vs.eval fv lv }
          let (old, new) : Pipe × Pipe :=
            if atEnd then
              ({ pipe with b := j0, length := sh.endOldLen.eval pipe.length f, verts := sh.endOldVerts.eval fv lv },
               fresh j1 e.name sh.endNewLen sh.endNewVerts)
            else
              ({ pipe with a := j0, length := sh.startOldLen.eval pipe.length f, verts := sh.startOldVerts.eval fv lv },
               fresh s.name j1 sh.startNewLen sh.startNewVerts)
          .ok { net with nodes := nodes,
                         pipes := (net.pipes.map fun p => if p.name == pipeName then old else p) ++ [new] }
      | _, _ => .error .notAPipe

/-- the repaired `_split_or_break_pipe` (= /repo HEAD): everything shape-dependent is read from `codeSplitShape` -/
def splitOrBreak := splitCore true codeSplitShape

/-- `_split_or_break_pipe` before 8195887e (fixes/C19-split-neutral-new-pipe.patch): minor loss and CURRENT status copied -/
def splitCopying := splitCore true { codeSplitShape with newPipe := { codeSplitShape.newPipe with minor := .orig, status := .orig } }

/-! ### skeletonization -/

/-- a demand entry: base value, pattern name, category -/
structure Dem where
  base : Rat
  pat : String
  cat : String
  deriving Repr, DecidableEq

structure SNode where
  name : String
  kind : NodeKind
  demands : List Dem
  deriving Repr, DecidableEq

structure SLink where
  name : String
  a : String
  b : String
  isPipe : Bool
  diam : Rat
  length : Rat
  minor : Rat
  status : Nat          -- the `status` property (what `_series/_parallel_merge_properties` read)
  cv : Bool
  deriving Repr, DecidableEq

structure Skel where
  nodes : List SNode
  links : List SLink
  map : List (String × List String)     -- skeleton map, keyed by ORIGINAL node name
  jExcl : List String                    -- junctions referenced by a control + `junctions_to_exclude`
  pExcl : List String                    -- pipes referenced by a control + `pipes_to_exclude`
  deriving Repr, DecidableEq

def Skel.init (nodes : List SNode) (links : List SLink) (jExcl pExcl : List String) : Skel :=
  { nodes := nodes, links := links, map := nodes.map (fun n => (n.name, [n.name])), jExcl := jExcl, pExcl := pExcl }

def Skel.node? (s : Skel) (name : String) : Option SNode := s.nodes.find? (·.name == name)

def SLink.other (l : SLink) (j : String) : String := if l.a == j then l.b else l.a
def SLink.touches (l : SLink) (j : String) : Bool := l.a == j || l.b == j

/-- links incident to `j` -/
def Skel.incident (s : Skel) (j : String) : List SLink := s.links.filter (·.touches j)

/-- `nx.neighbors(G, j)` as a duplicate-free list -/
def Skel.neighbors (s : Skel) (j : String) : List String := ((s.incident j).map (·.other j)).eraseDups

/-- links between `j` and `n` -/
def Skel.between (s : Skel) (j n : String) : List SLink := (s.incident j).filter (fun l => l.other j == n)

def mapGet (m : List (String × List String)) (k : String) : List String := ((m.find? (·.1 == k)).map (·.2)).getD []

/-- `skeleton_map[c].extend(skeleton_map[j]); skeleton_map[j] = []` -/
def mapMerge (m : List (String × List String)) (j c : String) : List (String × List String) :=
  let lj := mapGet m j
  m.map fun (k, l) => if k == j then (k, []) else if k == c then (k, l ++ lj) else (k, l)

/-- move the demands of `j` to `c`, remove node `j` -/
def absorbNode (nodes : List SNode) (j c : String) (dj : List Dem) : List SNode :=
  (nodes.filter (fun n => n.name != j)).map fun n => if n.name == c then { n with demands := n.demands ++ dj } else n

def removable (s : Skel) (l : SLink) (thr : Rat) : Bool :=
  l.isPipe && codeSkelShape.thr.eval l.diam thr && !s.pExcl.contains l.name

/-- one iteration of the `branch_trim` loop for junction `j`; the state is unchanged when a guard fails -/
def branchTrim (s : Skel) (j : String) (thr : Rat) : Skel :=
  match s.node? j with
  | none => s
  | some nj =>
    if nj.kind ≠ .junction ∨ s.jExcl.contains j then s
    else match s.neighbors j with
      | [c] =>
        match s.between j c, s.node? c with
        | [p], some nc =>
          if nc.kind = .junction ∧ c ≠ j ∧ removable s p thr then
            { s with nodes := absorbNode s.nodes j c nj.demands,
                     links := s.links.filter (fun l => l.name != p.name),
                     map := mapMerge s.map j c }
          else s
        | _, _ => s
      | _ => s

def dominant (p0 p1 : SLink) : SLink := if codeSkelShape.dom.eval p0.diam p1.diam then p0 else p1

/-- "Find closest neighbor junction": the junction end of the shorter pipe (`neigh_junc1` on a tie) -/
def closestOf (m0 m1 : SNode) (p0 p1 : SLink) (n0 n1 : String) : Option String :=
  if m0.kind = .junction ∧ m1.kind = .junction then (if codeSkelShape.closest.eval p0.length p1.length then some n0 else some n1)
  else if m0.kind = .junction then some n0
  else if m1.kind = .junction then some n1
  else none

/-- one iteration of the `series_pipe_merge` loop for junction `j` whose neighbours are listed as `[n0, n1]` -/
def seriesMerge (s : Skel) (j n0 n1 : String) (thr : Rat) : Skel :=
  match s.node? j with
  | none => s
  | some nj =>
    if nj.kind ≠ .junction ∨ s.jExcl.contains j then s
    else if n0 = n1 ∨ n0 = j ∨ n1 = j ∨ ¬ (s.neighbors j).length = 2 ∨ ¬ (s.neighbors j).contains n0 ∨ ¬ (s.neighbors j).contains n1 then s
    else match s.between j n0, s.between j n1, s.node? n0, s.node? n1 with
      | [p0], [p1], some m0, some m1 =>
        if ¬ (removable s p0 thr ∧ removable s p1 thr) then s
        else
          match closestOf m0 m1 p0 p1 n0 n1 with
          | none => s
          | some c =>
            let d := dominant p0 p1
            let merged : SLink := { name := d.name, a := n0, b := n1, isPipe := true, diam := d.diam, length := p0.length + p1.length,
                                    minor := d.minor, status := d.status, cv := false }
            { s with nodes := absorbNode s.nodes j c nj.demands,
                     links := (s.links.filter (fun l => l.name != p0.name && l.name != p1.name)) ++ [merged],
                     map := mapMerge s.map j c }
      | _, _, _, _ => s

/-- one `parallel_pipe_merge` step for the pair `(p0, p1)` of links between `j` and `n` -/
def parallelMerge (s : Skel) (j n p0n p1n : String) (thr : Rat) : Skel :=
  if s.jExcl.contains j ∨ p0n = p1n then s
  else match (s.between j n).find? (·.name == p0n), (s.between j n).find? (·.name == p1n) with
    | some p0, some p1 =>
      if ¬ (removable s p0 thr ∧ removable s p1 thr) then s
      else
        let d := dominant p0 p1
        let merged : SLink := { d with isPipe := true, cv := false }
        { s with links := (s.links.filter (fun l => l.name != p0.name && l.name != p1.name)) ++ [merged] }
    | _, _ => s

inductive SkelOp where
  | trim (j : String)
  | series (j n0 n1 : String)
  | parallel (j n p0 p1 : String)
  deriving Repr

def Skel.step (thr : Rat) (s : Skel) : SkelOp → Skel
  | .trim j => branchTrim s j thr
  | .series j n0 n1 => seriesMerge s j n0 n1 thr
  | .parallel j n p0 p1 => parallelMerge s j n p0 p1 thr

def Skel.run (thr : Rat) (s : Skel) (ops : List SkelOp) : Skel := ops.foldl (Skel.step thr) s

/-! ### merged pipe properties (`_series_merge_properties`, `_parallel_merge_properties`) over an abstract number type and power function -/

/-- the literals of the code: `4.87`, `1.85`, `0.54`, `2.63` -/
structure MergeExp (α : Type) where
  a : α
  b : α
  e : α
  c : α

section mergeprops
variable {α : Type} [Add α] [Mul α] [Div α] [Neg α]

/-- `(L/(D**4.87))**0.54 * ((L0/((D0**4.87)*(C0**1.85))) + (L1/((D1**4.87)*(C1**1.85))))**-0.54` with `L = L0 + L1` and `D` the
dominant pipe's diameter -/
def seriesRough (pw : α → α → α) (x : MergeExp α) (L0 D0 C0 L1 D1 C1 D : α) : α :=
  pw ((L0 + L1) / pw D x.a) x.e * pw (L0 / (pw D0 x.a * pw C0 x.b) + L1 / (pw D1 x.a * pw C1 x.b)) (-x.e)

/-- `((L**0.54)/(D**2.63)) * ((C0*(D0**2.63))/(L0**0.54) + (C1*(D1**2.63))/(L1**0.54))` with `L`, `D` of the dominant pipe -/
def parallelRough (pw : α → α → α) (x : MergeExp α) (L0 D0 C0 L1 D1 C1 L D : α) : α :=
  (pw L x.e / pw D x.c) * ((C0 * pw D0 x.c) / pw L0 x.e + (C1 * pw D1 x.c) / pw L1 x.e)

/-- one pipe as the two functions read it -/
structure MPipe (α : Type) where
  length : α
  diam : α
  rough : α
  minor : α
  status : Nat

/-- `_select_dominant_pipe` (`ge` is `>=` on diameters), `_series_merge_properties` -/
def seriesProps (pw : α → α → α) (x : MergeExp α) (ge : α → α → Bool) (p0 p1 : MPipe α) : MPipe α :=
  let d := if ge p0.diam p1.diam then p0 else p1
  { length := p0.length + p1.length, diam := d.diam, minor := d.minor, status := d.status,
    rough := seriesRough pw x p0.length p0.diam p0.rough p1.length p1.diam p1.rough d.diam }

/-- `_parallel_merge_properties` -/
def parallelProps (pw : α → α → α) (x : MergeExp α) (ge : α → α → Bool) (p0 p1 : MPipe α) : MPipe α :=
  let d := if ge p0.diam p1.diam then p0 else p1
  { length := d.length, diam := d.diam, minor := d.minor, status := d.status,
    rough := parallelRough pw x p0.length p0.diam p0.rough p1.length p1.diam p1.rough d.length d.diam }

end mergeprops

/-- `self.wn.num_junctions` -/
def Skel.junctionCount (s : Skel) : Nat := (s.nodes.filter (fun n => n.kind == .junction)).length

/-- the `while flag:` loop of `_Skeletonize.run`; `cycle` is one pass (branch trim, series merge, parallel merge over all
junctions), `iter` the value of `iteration`, the first argument is fuel (`none` = fuel exhausted; Props/C19 `run_terminates` shows
that `junctionCount + 1` is always enough).  Note `iteration > max_cycles` is tested AFTER the increment: `max_cycles = k` allows
`k + 1` passes. -/
def runLoop (cycle : Skel → Skel) (maxCycles : Option Nat) : Nat → Nat → Skel → Option Skel
  | 0, _, _ => none
  | fuel + 1, iter, s =>
    let s' := cycle s
    let stop := (match maxCycles with
      | some m => decide (iter + 1 > m)
      | none => false) || s'.junctionCount == s.junctionCount
    if stop then some s' else runLoop cycle maxCycles fuel (iter + 1) s'

/-! ### controls as `_Skeletonize.__init__` sees them -/

/-- an element a control refers to (`requires()` returns objects, so node / link is known) -/
structure Ref where
  isNode : Bool
  name : String
  deriving Repr, DecidableEq

/-- a control or rule: what its condition and its THEN / ELSE actions refer to -/
structure Ctl where
  cond : List Ref
  thenA : List Ref
  elseA : List Ref
  deriving Repr, DecidableEq

/-- `Rule.requires()` / `Control.requires()`: rebuilt from the CURRENT condition and actions on every call -/
def Ctl.requires (c : Ctl) : List Ref := c.cond ++ c.thenA ++ c.elseA

/-- `update_condition`, `update_then_actions`, `update_else_actions`, `update_priority` on the `i`-th control -/
inductive CtlEdit where
  | cond (i : Nat) (refs : List Ref)
  | thenA (i : Nat) (refs : List Ref)
  | elseA (i : Nat) (refs : List Ref)
  | priority (i : Nat)
  deriving Repr

def applyEdit (cs : List Ctl) : CtlEdit → List Ctl
  | .cond i r => cs.modify i (fun c => { c with cond := r })
  | .thenA i r => cs.modify i (fun c => { c with thenA := r })
  | .elseA i r => cs.modify i (fun c => { c with elseA := r })
  | .priority _ => cs

/-- `junc_with_controls` / `pipe_with_controls`: `isinstance(req, Junction)` / `isinstance(req, Pipe)` over all `requires()` -/
def ctlJunctions (nodes : List SNode) (cs : List Ctl) : List String :=
  ((cs.flatMap Ctl.requires).filter (fun r => r.isNode && nodes.any (fun n => n.name == r.name && n.kind == .junction))).map (·.name)

def ctlPipes (links : List SLink) (cs : List Ctl) : List String :=
  ((cs.flatMap Ctl.requires).filter (fun r => !r.isNode && links.any (fun l => l.name == r.name && l.isPipe))).map (·.name)

/-- the state `_Skeletonize.__init__` builds from the model, its controls AS THEY ARE NOW, and the two user lists -/
def Skel.initFromControls (nodes : List SNode) (links : List SLink) (cs : List Ctl) (jUser pUser : List String) : Skel :=
  Skel.init nodes links (ctlJunctions nodes cs ++ jUser) (ctlPipes links cs ++ pUser)

/-! ### the traversal of `_Skeletonize.run`, with everything it takes from dict / networkx iteration order as a parameter -/

/-- the orders the traversal depends on besides the network itself -/
structure Order where
  /-- `self.wn.junction_name_list` at the start of a pass -/
  juncs : Skel → List String
  /-- `list(nx.neighbors(self.G, j))` -/
  nbrs : Skel → String → List String
  /-- `list(self.G.adj[j][n].keys())` -/
  pipes : Skel → String → String → List String

/-- `itertools.combinations(names, 2)` -/
def combos : List String → List (String × String)
  | [] => []
  | a :: t => t.map (fun b => (a, b)) ++ combos t

/-- `branch_trim`: one pass over the junctions -/
def trimPass (thr : Rat) (o : Order) (s : Skel) : Skel := (o.juncs s).foldl (fun s j => branchTrim s j thr) s

/-- `series_pipe_merge`: `neighbors[0]`, `neighbors[1]` are taken in networkx order -/
def seriesPass (thr : Rat) (o : Order) (s : Skel) : Skel :=
  (o.juncs s).foldl (fun s j => match o.nbrs s j with
    | [n0, n1] => seriesMerge s j n0 n1 thr
    | _ => s) s

/-- `parallel_pipe_merge`: neighbours listed when the junction is visited, edge keys when the neighbour is visited -/
def parallelPass (thr : Rat) (o : Order) (s : Skel) : Skel :=
  (o.juncs s).foldl (fun s j =>
    (o.nbrs s j).foldl (fun s' n =>
      (combos (o.pipes s' j n)).foldl (fun s'' pq => parallelMerge s'' j n pq.1 pq.2 thr) s') s) s

/-- one cycle of `run` -/
def cyclePass (thr : Rat) (o : Order) (bt sm pm : Bool) (s : Skel) : Skel :=
  let s := if bt then trimPass thr o s else s
  let s := if sm then seriesPass thr o s else s
  if pm then parallelPass thr o s else s

/-- `_Skeletonize.run` -/
def skeletonizeRun (thr : Rat) (o : Order) (bt sm pm : Bool) (maxCycles : Option Nat) (s : Skel) : Option Skel :=
  runLoop (cyclePass thr o bt sm pm) maxCycles (s.junctionCount + 1) 0 s

/-- two concrete orders: model order, and every list reversed -/
def Order.natural : Order :=
  { juncs := fun s => (s.nodes.filter (fun n => n.kind == .junction)).map (·.name),
    nbrs := fun s j => s.neighbors j,
    pipes := fun s j n => (s.between j n).map (·.name) }

def Order.reversed : Order :=
  { juncs := fun s => (Order.natural.juncs s).reverse,
    nbrs := fun s j => (s.neighbors j).reverse,
    pipes := fun s j n => ((s.between j n).map (·.name)).reverse }

/-! ### executable form of the skeletonization promises (the oracle the driver applies to the IMPLEMENTATION's output) -/

/-- tanks, reservoirs, excluded / control-referenced junctions; pumps, valves, excluded / control-referenced pipes -/
def retainedB (orig final : Skel) : Bool :=
  orig.nodes.all (fun n => (n.kind == .junction && !orig.jExcl.contains n.name) ||
      final.nodes.any (fun m => m.name == n.name && m.kind == n.kind)) &&
  orig.links.all (fun l => (l.isPipe && !orig.pExcl.contains l.name) ||
      final.links.any (fun m => m.name == l.name && m.a == l.a && m.b == l.b && m.isPipe == l.isPipe))

/-- the demand entries are a permutation of the original ones -/
def demandsB (orig final : Skel) : Bool :=
  (final.nodes.flatMap (·.demands)).isPerm (orig.nodes.flatMap (·.demands))

/-- the map lists partition the original node set and only retained nodes have a non-empty list -/
def mapB (orig final : Skel) : Bool :=
  (final.map.flatMap Prod.snd).isPerm (orig.nodes.map (·.name)) &&
  final.map.all (fun kl => kl.2.isEmpty || final.nodes.any (·.name == kl.1))

def skelOracle (orig final : Skel) : String :=
  if !retainedB orig final then "fail retained"
  else if !demandsB orig final then "fail demands"
  else if !mapB orig final then "fail map"
  else "ok"

end Wntr.Morph
