/-
M8 `Isolation` — which junctions the WNTRSimulator treats as cut off from every tank/reservoir.

Mirrors, line by line (import-free, executable):
  * `wntr/sim/network_isolation/network_isolation.cpp : check_for_isolated_junctions`
      → `checkIsolated` (flat CSR arrays, per-source search, a *set* of nodes to explore from which the
        LARGEST id is popped, `val == 1` / `node_indicator[col] == 1` tests), `while` loop with fuel = #nodes;
  * `wntr/sim/core.py : _initialize_internal_graph`      → `initGraph`
        (CSR with summed duplicates, `_get_csr_data_index`, `_number_of_connections`, the `n_links` dict and the
         zero-then-set pass over `_node_pairs_with_multiple_links`),
  * `wntr/sim/core.py : _update_internal_graph`          → `updateGraph`
        (changes reported by the `ControlChangeTracker` reference point 'graph', then the multi-link pass),
  * `wntr/network/controls.py : ControlChangeTracker.update/reset_reference_point` → `act`, end of `updateGraph`,
  * `wntr/sim/core.py : _get_isolated_junctions_and_links` → `getIsolated`
        (flags cleared through `_prev_isolated_*`, recomputed, `_prev_isolated_*` replaced),
  * `wntr/sim/hydraulics.py : store_results_in_network / save_results` (junction + link branch) → `storeJunction`, `storeLink`.

LinkStatus integers: Closed = 0, Open = Opened = 1, Active = 2, CV = 3.
Out-of-range reads return 0 (`getD`), out-of-range writes are no-ops; the theorems state the in-range hypotheses they need.
-/
namespace Wntr.Isolation

/-! ### the compiled search -/

structure Csr where
  indptr : List Nat
  indices : List Nat
  data : List Int
  nconn : List Nat
  deriving Repr

def Csr.base (g : Csr) (u : Nat) : Nat := g.indptr.getD u 0

/-- the columns `col` that the `for (i < number_of_connections)` loop of node `u` reaches with `val == 1`, in loop order -/
def Csr.cols (g : Csr) (u : Nat) : List Nat :=
  (List.range (g.nconn.getD u 0)).filterMap fun i =>
    if g.data.getD (g.base u + i) 0 = 1 then some (g.indices.getD (g.base u + i) 0) else none

/-- `std::set<int>::insert` -/
def setInsert (x : Nat) (w : List Nat) : List Nat := if x ∈ w then w else x :: w

/-- body of the inner loop once `val == 1`: `if (node_indicator[col] == 1) { node_indicator[col] = 0; insert(col) }` -/
def visit (st : List Int × List Nat) (col : Nat) : List Int × List Nat :=
  if st.1.getD col 0 = 1 then (st.1.set col 0, setInsert col st.2) else st

def maxL : Nat → List Nat → Nat
  | m, [] => m
  | m, x :: xs => maxL (if m < x then x else m) xs

/-- `--end(); erase`: remove and return the largest element of the set -/
def popMax : List Nat → Option (Nat × List Nat)
  | [] => none
  | x :: xs => some (maxL x xs, (x :: xs).erase (maxL x xs))

/-- the `while (!nodes_to_explore.empty())` loop, with fuel -/
def explore (g : Csr) : Nat → List Int → List Nat → List Int × List Nat
  | 0, ind, work => (ind, work)
  | f + 1, ind, work =>
    match popMax work with
    | none => (ind, work)
    | some (u, rest) =>
      let st := (g.cols u).foldl visit (ind, rest)
      explore g f st.1 st.2

def sourceStep (g : Csr) (ind : List Int) (s : Nat) : List Int :=
  if ind.getD s 0 = 1 then (explore g ind.length (ind.set s 0) [s]).1 else ind

/-- `check_for_isolated_junctions(sources, node_indicator, indptr, indices, data, num_connections)`:
returns the final `node_indicator` -/
def checkIsolated (g : Csr) (sources : List Nat) (ind : List Int) : List Int :=
  sources.foldl (sourceStep g) ind

/-! ### scipy's `csr_matrix((vals, (rows, cols)), shape=(n, n))` structure -/

def insertUniq (x : Nat) : List Nat → List Nat
  | [] => [x]
  | y :: ys => if x < y then x :: y :: ys else if x = y then y :: ys else y :: insertUniq x ys

def rowCols (entries : List (Nat × Nat)) (u : Nat) : List Nat :=
  (entries.filter (fun e => e.1 == u)).foldl (fun acc e => insertUniq e.2 acc) []

def prefixSums : Nat → List Nat → List Nat
  | acc, [] => [acc]
  | acc, x :: xs => acc :: prefixSums (acc + x) xs

/-- sorted, duplicate-free rows; data all zero (the summed values are added by `initGraph` through the positions) -/
def buildCsr (n : Nat) (entries : List (Nat × Nat)) : Csr :=
  let rows := (List.range n).map (rowCols entries)
  let indices := rows.flatten
  { indptr := prefixSums 0 (rows.map List.length), indices := indices,
    data := List.replicate indices.length 0, nconn := [] }

/-- `_get_csr_data_index(a, row, col)`; `none` = `RuntimeError('Unable to find csr data index.')` -/
def getCsrDataIndex (g : Csr) (row col : Nat) : Option Nat :=
  let base := g.indptr.getD row 0
  let num := g.indptr.getD (row + 1) 0 - base
  ((List.range num).find? fun i => g.indices.getD (base + i) 0 == col).map (base + ·)

/-! ### the simulator's bookkeeping -/

inductive Outcome | ok | runtimeError | indexError
  deriving Repr, DecidableEq

/-- the three link classes with their own `status` property / registry generator (`wn.pipes()`, `wn.pumps()`, `wn.valves()`);
a check-valve pipe is a `pipe` (its valve closes `_internal_status`), PRV/PSV/PBV/FCV/TCV/GPV are all `valve` -/
inductive LinkKind | pipe | pump | valve
  deriving Repr, DecidableEq

structure Net where
  n : Nat                      -- number of nodes; node ids = position in `wn.nodes()`
  links : List (Nat × Nat)     -- (start id, end id) in `wn.links()` order; link id = position
  kind : List LinkKind         -- per link: its class
  initOrder : List Nat         -- link ids in the order pipes ++ pumps ++ valves
  sources : List Nat           -- tank ids then reservoir ids
  deriving Repr

/-- the `status` property as the code computes it from (class, `_user_status`, `_internal_status`):
`Pipe.status` / `Pump.status`: `_internal_status == Closed → Closed, else _user_status` (a check valve or a pump shut-off closes
the link whatever the user status; a user-Closed link is Closed);
`Valve.status`: `_user_status == Closed → Closed, == Open → Open, else _internal_status` (an Active valve reports what the
internal valve logic decided: Active, Open or Closed). -/
def statusOf (k : LinkKind) (user internal : Nat) : Nat :=
  match k with
  | .valve => if user = 0 then 0 else if user = 1 then 1 else internal
  | .pipe => if internal = 0 then 0 else user
  | .pump => if internal = 0 then 0 else user

structure Sim where
  net : Net
  user : List Nat
  internal : List Nat
  g : Csr
  ndx : List (Nat × Nat)                   -- `_map_link_to_internal_graph_data_ndx`
  multi : List ((Nat × Nat) × List Nat)    -- `_node_pairs_with_multiple_links` (insertion ordered)
  prev : List Nat                          -- tracker `_previous_values['graph'][(link,'status')]`
  changed : List Nat                       -- tracker `_changed['graph']` (ordered set of link ids)
  isoJ : List Bool                         -- node._is_isolated
  isoL : List Bool                         -- link._is_isolated
  prevIsoJ : List Nat
  prevIsoL : List Nat
  deriving Repr

def Sim.status (s : Sim) (k : Nat) : Nat :=
  statusOf (s.net.kind.getD k .pipe) (s.user.getD k 1) (s.internal.getD k 2)

def Net.linkEnds (net : Net) (k : Nat) : Nat × Nat := net.links.getD k (0, 0)

/-- `wn.get_links_for_node(u)` for a network built by `add_*` only: link ids touching `u`, registry order -/
def Net.linksOf (net : Net) (u : Nat) : List Nat :=
  (List.range net.links.length).filter fun k => (net.linkEnds k).1 == u || (net.linkEnds k).2 == u

def addAt (d : List Int) (p : Nat) (v : Int) : List Int := d.set p (d.getD p 0 + v)

def setOpt (d : List Int) (p : Option Nat) (v : Int) : List Int :=
  match p with | some p => d.set p v | none => d

/-- python `dict`: `d[k] = v` keeping insertion order -/
def dictSet {α} [BEq α] (d : List (α × Nat)) (k : α) (v : Nat) : List (α × Nat) :=
  if d.any (·.1 == k) then d.map (fun e => if e.1 == k then (k, v) else e) else d ++ [(k, v)]

def dictGet {α} [BEq α] (d : List (α × Nat)) (k : α) : Nat :=
  match d.find? (·.1 == k) with | some e => e.2 | none => 0

/-- the `n_links` dict built by the first loop of `_initialize_internal_graph` -/
def countLinks (net : Net) : List ((Nat × Nat) × Nat) :=
  net.initOrder.foldl (fun d k =>
    let (a, b) := net.linkEnds k
    let d := if d.any (·.1 == (a, b)) then d else dictSet (dictSet d (a, b) 0) (b, a) 0
    let d := dictSet d (a, b) (dictGet d (a, b) + 1)
    dictSet d (b, a) (dictGet d (b, a) + 1)) []

/-- the CSR value of a status: only `LinkStatus.Closed` (0) counts as closed for connectivity; Open, Active and CV count as open -/
def openVal (st : Nat) : Int := if st = 0 then 0 else 1

/-- write `v` at both data positions of link `k` -/
def writeLink (ndx : List (Nat × Nat)) (d : List Int) (k : Nat) (v : Int) : List Int :=
  let p := ndx.getD k (0, 0)
  (d.set p.1 v).set p.2 v

/-- `for link in link_list: if link.status != Closed: data[ndx1] = 1; data[ndx2] = 1` -/
def setOpenLinks (ndx : List (Nat × Nat)) (status : Nat → Nat) (d : List Int) (lst : List Nat) : List Int :=
  lst.foldl (fun d l => if status l ≠ 0 then writeLink ndx d l 1 else d) d

/-- `_node_pairs_with_multiple_links` as built by the last loop of `_initialize_internal_graph`:
keys of `n_links` in insertion order with count > 1, skipping a key whose reverse is already present;
the list = links of `get_links_for_node(from)` whose other end is `to` -/
def multiTable (net : Net) : List ((Nat × Nat) × List Nat) :=
  let nl := countLinks net
  (nl.map (·.1)).foldl (fun (acc : List ((Nat × Nat) × List Nat)) key =>
      let (f, t) := key
      if dictGet nl (f, t) > 1 then
        if acc.any (·.1 == (t, f)) then acc
        else acc ++ [((f, t), (net.linksOf f).filter fun k => (net.linkEnds k).1 == t || (net.linkEnds k).2 == t)]
      else acc) []

/-- the data writes of one new entry: `graph[from, to] = 0; graph[to, from] = 0`, then 1 for every non-closed link of the list -/
def initStep (g0 : Csr) (ndx : List (Nat × Nat)) (status : Nat → Nat) (d : List Int) (e : (Nat × Nat) × List Nat) : List Int :=
  let d := setOpt (setOpt d (getCsrDataIndex g0 e.1.1 e.1.2) 0) (getCsrDataIndex g0 e.1.2 e.1.1) 0
  setOpenLinks ndx status d e.2

/-- `_initialize_internal_graph` (the repaired code: `shape=(num_nodes, num_nodes)`) -/
def initGraph (net : Net) (user internal : List Nat) : Outcome × Sim :=
  let st : Nat → Nat := fun k => statusOf (net.kind.getD k .pipe) (user.getD k 1) (internal.getD k 2)
  let entries := net.initOrder.flatMap fun k => let (a, b) := net.linkEnds k; [(a, b), (b, a)]
  let g0 := buildCsr net.n entries
  let ndxO := net.links.map fun (a, b) => (getCsrDataIndex g0 a b, getCsrDataIndex g0 b a)
  let ndx := ndxO.map fun p => (p.1.getD 0, p.2.getD 0)
  let out := if ndxO.all (fun p => p.1.isSome && p.2.isSome) then Outcome.ok else Outcome.runtimeError
  -- scipy sums duplicate (row, col) entries
  let data1 := net.initOrder.foldl (fun d k =>
      let p := ndx.getD k (0, 0); addAt (addAt d p.1 (openVal (st k))) p.2 (openVal (st k))) g0.data
  let nconn := (List.range net.n).map fun u => g0.indptr.getD (u + 1) 0 - g0.indptr.getD u 0
  -- the pass over node pairs with multiple links (the table first, then the data writes of each new entry;
  -- the source does both in one loop, each iteration's writes depend on its own entry only)
  let multi := multiTable net
  let data2 := multi.foldl (initStep g0 ndx st) data1
  (out,
   { net := net, user := user, internal := internal,
     g := { g0 with data := data2, nconn := nconn }, ndx := ndx, multi := multi,
     prev := (List.range net.links.length).map st, changed := [],
     isoJ := List.replicate net.n false, isoL := List.replicate net.links.length false,
     prevIsoJ := [], prevIsoL := [] })

/-- a control action fires on link `k` (`toUser`: a `ControlAction` on `status` writes `_user_status`; otherwise an
`_InternalControlAction` writes `_internal_status`), then notifies the tracker: `ControlChangeTracker.update` -/
def act (s : Sim) (toUser : Bool) (k v : Nat) : Sim :=
  let s := if toUser then { s with user := s.user.set k v } else { s with internal := s.internal.set k v }
  let val := s.status k
  if val = s.prev.getD k 0 then { s with changed := s.changed.erase k }
  else { s with changed := if k ∈ s.changed then s.changed else s.changed ++ [k] }

/-- one entry of `_node_pairs_with_multiple_links` in `_update_internal_graph` -/
def multiStep (ndx : List (Nat × Nat)) (status : Nat → Nat) (d : List Int) (e : (Nat × Nat) × List Nat) : List Int :=
  match e.2 with
  | [] => d    -- `link_list[0]` would raise IndexError; never constructed (proved: lists are non-empty)
  | first :: _ => setOpenLinks ndx status (writeLink ndx d first 0) e.2

/-- `_update_internal_graph` -/
def updateGraph (s : Sim) : Sim :=
  let d1 := s.changed.foldl (fun d k => writeLink s.ndx d k (openVal (s.status k))) s.g.data
  let d2 := s.multi.foldl (multiStep s.ndx s.status) d1
  { s with g := { s.g with data := d2 },
           prev := (List.range s.net.links.length).map s.status, changed := [] }

def setAll (flags : List Bool) (ids : List Nat) (b : Bool) : List Bool := ids.foldl (fun f i => f.set i b) flags

def addAll (acc : List Nat) (xs : List Nat) : List Nat := xs.foldl (fun a x => if x ∈ a then a else a ++ [x]) acc

/-- ids with `node_indicator[i] == 1` after the search started from an all-ones indicator -/
def isolatedIds (s : Sim) : List Nat :=
  let ind := checkIsolated s.g s.net.sources (List.replicate s.net.n 1)
  (List.range s.net.n).filter fun i => ind.getD i 0 == 1

/-- `_get_isolated_junctions_and_links` -/
def getIsolated (s : Sim) : Sim :=
  let isoJ := setAll s.isoJ s.prevIsoJ false
  let isoL := setAll s.isoL s.prevIsoL false
  let ids := isolatedIds s
  let lks := ids.foldl (fun acc j => addAll acc (s.net.linksOf j)) []
  { s with isoJ := setAll isoJ ids true, isoL := setAll isoL lks true, prevIsoJ := ids, prevIsoL := lks }

/-- what `run_sim` does before every solve: `_update_internal_graph(); _get_isolated_junctions_and_links()` -/
def prepareSolve (s : Sim) : Sim := getIsolated (updateGraph s)

/-- node ids of `wn.junctions()` (everything that is not a tank / reservoir), ascending -/
def Net.junctions (net : Net) : List Nat := (List.range net.n).filter fun v => !net.sources.contains v

/-- the head of `run_sim` on a (possibly NEW) simulator object working on a network that may still carry `_is_isolated` flags of
an earlier run: `_prev_isolated_junctions = OrderedSet(name for name, junction in wn.junctions() if junction._is_isolated)`,
`_prev_isolated_links = OrderedSet(name for name, link in wn.links() if link._is_isolated)` (ALL links: pipes, pumps, valves),
then `_initialize_internal_graph()` from the current statuses and fresh tracker reference points. The flags themselves stay. -/
def startRun (s : Sim) : Outcome × Sim :=
  let r := initGraph s.net s.user s.internal
  (r.1, { r.2 with isoJ := s.isoJ, isoL := s.isoL,
                   prevIsoJ := s.net.junctions.filter fun v => s.isoJ.getD v false,
                   prevIsoL := (List.range s.net.links.length).filter fun l => s.isoL.getD l false })

inductive Op
  | act (toUser : Bool) (k v : Nat)
  | update
  | isolated
  | prepare
  | restart
  deriving Repr

def step (s : Sim) : Op → Sim
  | .act u k v => act s u k v
  | .update => updateGraph s
  | .isolated => getIsolated s
  | .prepare => prepareSolve s
  | .restart => (startRun s).2

def run (s : Sim) (ops : List Op) : Sim := ops.foldl step s

/-! ### storing results (junction and link branches of `store_results_in_network`, pressure branch of `save_results`) -/

structure JRes (α : Type) where
  head : α
  demand : α
  pressure : α
  leak : α

def storeJunction {α} (zero : α) (isolated : Bool) (solved : JRes α) : JRes α :=
  if isolated then { head := zero, demand := zero, pressure := zero, leak := zero } else solved

def storeLink {α} (zero : α) (isolated : Bool) (solvedFlow : α) : α := if isolated then zero else solvedFlow

/-! ### the contract of the CSR structure (what scipy's constructor is trusted for; evaluated by the driver) -/

def Csr.rowLen (g : Csr) (u : Nat) : Nat := g.indptr.getD (u + 1) 0 - g.indptr.getD u 0

/-- executable form of the structure contract for `n` nodes and the given links -/
def structOkB (n : Nat) (links : List (Nat × Nat)) (g : Csr) : Bool :=
  g.data.length == g.indices.length &&
  (List.range n).all (fun u =>
    g.indptr.getD u 0 ≤ g.indptr.getD (u + 1) 0 &&
    g.indptr.getD (u + 1) 0 ≤ g.indices.length &&
    g.nconn.getD u 0 == g.rowLen u &&
    (List.range (g.rowLen u)).all (fun i =>
      let c := g.indices.getD (g.base u + i) 0
      links.any (fun e => (e.1 == u && e.2 == c) || (e.2 == u && e.1 == c)) &&
      (List.range i).all (fun j => g.indices.getD (g.base u + j) 0 != c)))

end Wntr.Isolation
