/-
M5b RunLoop — the outer `while True` loop of `WNTRSimulator.run_sim` (wntr/sim/core.py) as it is NOW,
with solve failures, the backup solver, post-solve re-solves (`resolve` / `trial` / `max_trials`),
the report grid (`report_timestep` integer or 'ALL'), the three `RuntimeError`s and the `error_code` flag.

Everything `run_sim` calls but does not itself decide is a field of `World` (an arbitrary state machine
over a hidden state `W` = network + AML model + control objects):

  presolve  = `_compute_next_timestep_and_run_presolve_controls_and_rules(first_step)`:
              from (world, wn.sim_time, wn._prev_sim_time, first_step) to (world', new wn.sim_time)
  solve     = `_solver_helper(model, solver, options)`; the arguments are the world, the running number of the
              call (0-based, primary and backup calls both count -- this is the index fault injection uses) and
              whether it is the backup solver; returns the status class only (run_sim looks at `status == 0`)
  post      = `_run_postsolve_controls(); _run_feasibility_controls(); changes_made('graph')`
  nodeRow / linkRow = what `save_results` appends to every node / link result list

`run_sim` itself puts NO bound on where `presolve` moves the clock; the bound `prev < t' ≤ cur` comes from the
condition classes (`Lemmas/Time.lean`, `Lemmas/Sched.lean` prove it for time conditions and rules).  The model is total
for every oracle; the theorems that need the bound take it as the explicit hypothesis `Contract`.

Times are integer seconds (`Int`; Python's `%` with a positive divisor is Lean's `Int.emod`).
Python exceptions are `Halt` values; the state returned is the state the locals are left in.
-/
namespace Wntr.RunLoop

/-- status class of one `_solver_helper` call (`NewtonSolver.solve` messages; scipy solvers map to `other`) -/
inductive SolveOutcome where
  | converged
  | iterLimit     -- "Reached maximum number of iterations"
  | singular      -- MatrixRankWarning -> "Jacobian is singular at iteration k"
  | lineSearch    -- "Line search failed at iteration k"
  | timeLimit     -- "Time limit exceeded"
  | other         -- fsolve ier != 1, exception in a scipy solver
  deriving DecidableEq, Repr, Inhabited

/-- `solver_status != 0` -/
def SolveOutcome.ok : SolveOutcome → Bool
  | .converged => true
  | _ => false

structure Cfg where
  /-- `self._hydraulic_timestep` (after `_setup_sim_options`) -/
  hyd : Int
  /-- `self._report_timestep`; `0` encodes the string 'ALL' -/
  report : Int
  /-- `wn.options.time.duration` -/
  duration : Int
  /-- `wn.options.hydraulic.trials` -/
  maxTrials : Int
  /-- `backup_solver is not None` -/
  backup : Bool
  /-- `convergence_error` -/
  convErr : Bool
  deriving Repr, Inhabited

/-- how the loop was left -/
inductive Halt where
  | finished            -- `sim_time > duration`: normal return, `error_code` stays None
  | flagNoConv          -- warning 'Simulation did not converge', `error_code = error`, partial results returned
  | flagTrials          -- warning 'Exceeded maximum number of trials', `error_code = error`, partial results returned
  | raiseNoConv         -- RuntimeError('Simulation did not converge at time ...')
  | raiseTrials         -- RuntimeError('Exceeded maximum number of trials at time ...')
  | raiseAlreadySolved  -- RuntimeError('Simulation already solved this timestep')
  deriving DecidableEq, Repr, Inhabited

/-- does `run_sim` return a results object (as opposed to raising)? -/
def Halt.returns : Halt → Bool
  | .finished | .flagNoConv | .flagTrials => true
  | _ => false

/-- is `results.error_code` set / an exception raised? -/
def Halt.clean : Halt → Bool
  | .finished => true
  | _ => false

structure World (W RN RL : Type) where
  presolve : W → Int → Int → Bool → W × Int
  solve : W → Nat → Bool → W × SolveOutcome
  post : W → W × Bool
  nodeRow : W → RN
  linkRow : W → RL

structure St (W RN RL : Type) where
  w : W
  simTime : Int
  prevTime : Int
  firstStep : Bool
  trial : Int
  resolve : Bool
  /-- number of `_solver_helper` calls made so far -/
  nSolve : Nat
  /-- `results.time` -/
  times : List Int
  /-- the per-element lists of `node_res` (one entry per `save_results` call) -/
  nodeRows : List RN
  linkRows : List RL
  /-- ghost: the time of every accepted step -/
  accepted : List Int
  /-- ghost: trace of the `_solver_helper` calls (is-backup, outcome) -/
  calls : List (Bool × SolveOutcome)
  halt : Option Halt

variable {W RN RL : Type}

/-- `if not resolve: trial = 0; self._compute_next_timestep_and_run_presolve_controls_and_rules(first_step)` -/
def presolvePhase (wd : World W RN RL) (s : St W RN RL) : St W RN RL :=
  if s.resolve then s
  else
    let r := wd.presolve s.w s.simTime s.prevTime s.firstStep
    { s with w := r.1, simTime := r.2, trial := 0 }

/-- one `_solver_helper` call -/
def solveCall (wd : World W RN RL) (s : St W RN RL) (bk : Bool) : St W RN RL × SolveOutcome :=
  let r := wd.solve s.w s.nSolve bk
  ({ s with w := r.1, nSolve := s.nSolve + 1, calls := s.calls ++ [(bk, r.2)] }, r.2)

/-- primary solver, then `if solver_status == 0 and self._backup_solver is not None:` the backup solver -/
def solvePhase (wd : World W RN RL) (cfg : Cfg) (s : St W RN RL) : St W RN RL × SolveOutcome :=
  let r1 := solveCall wd s false
  if !r1.2.ok && cfg.backup then solveCall wd r1.1 true else r1

def failHalt (cfg : Cfg) : Halt := if cfg.convErr then .raiseNoConv else .flagNoConv
def trialHalt (cfg : Cfg) : Halt := if cfg.convErr then .raiseTrials else .flagTrials

/-- `isinstance(report, (float,int)) and sim_time % report == 0`, or report == 'ALL' -/
def reportNow (cfg : Cfg) (t : Int) : Bool := cfg.report == 0 || t % cfg.report == 0

/-- the tail of the loop body after "no changes made by postsolve controls": save, advance the clock, test the end -/
def acceptPhase (wd : World W RN RL) (cfg : Cfg) (s : St W RN RL) : St W RN RL :=
  let s0 : St W RN RL := { s with resolve := false }
  if reportNow cfg s0.simTime then
    -- save_results appends to every list before the "already solved" test
    let s1 : St W RN RL :=
      { s0 with nodeRows := s0.nodeRows ++ [wd.nodeRow s0.w], linkRows := s0.linkRows ++ [wd.linkRow s0.w] }
    if s1.times.getLast? = some s1.simTime then { s1 with halt := some .raiseAlreadySolved }
    else
      let s2 : St W RN RL := { s1 with times := s1.times ++ [s1.simTime] }
      let t := s2.simTime + cfg.hyd
      let s3 : St W RN RL :=
        { s2 with accepted := s2.accepted ++ [s2.simTime], prevTime := s2.simTime, firstStep := false,
                  simTime := t - t % cfg.hyd }
      if s3.simTime > cfg.duration then { s3 with halt := some .finished } else s3
  else
    let t := s0.simTime + cfg.hyd
    let s3 : St W RN RL :=
      { s0 with accepted := s0.accepted ++ [s0.simTime], prevTime := s0.simTime, firstStep := false,
                simTime := t - t % cfg.hyd }
    if s3.simTime > cfg.duration then { s3 with halt := some .finished } else s3

/-- after a converged solve: post-solve + feasibility controls, `changes_made('graph')`, trial accounting -/
def postPhase (wd : World W RN RL) (cfg : Cfg) (s : St W RN RL) : St W RN RL :=
  let r := wd.post s.w
  let s1 : St W RN RL := { s with w := r.1 }
  if r.2 then
    let s2 : St W RN RL := { s1 with resolve := true, trial := s1.trial + 1 }
    if s2.trial > cfg.maxTrials then { s2 with halt := some (trialHalt cfg) } else s2
  else acceptPhase wd cfg s1

/-- one pass of the body of `while True:` -/
def step (wd : World W RN RL) (cfg : Cfg) (s : St W RN RL) : St W RN RL :=
  match s.halt with
  | some _ => s
  | none =>
    let r := solvePhase wd cfg (presolvePhase wd s)
    if r.2.ok then postPhase wd cfg r.1 else { r.1 with halt := some (failHalt cfg) }

/-- `n` passes (a pass on a halted state does nothing) -/
def iter (wd : World W RN RL) (cfg : Cfg) : Nat → St W RN RL → St W RN RL
  | 0, s => s
  | n + 1, s => iter wd cfg n (step wd cfg s)

/-- the contract of `presolve` at one state: when the loop calls it, the clock lands in `(prev, cur]`.
(`run_sim` does not enforce this; the condition classes and the rule clock do -- `Lemmas/Time.lean`, `Lemmas/Sched.lean`.
The harness checks it on every call it observes.) -/
def PresolveOK (wd : World W RN RL) (s : St W RN RL) : Prop :=
  s.halt = none → s.resolve = false →
    s.prevTime < (wd.presolve s.w s.simTime s.prevTime s.firstStep).2 ∧
    (wd.presolve s.w s.simTime s.prevTime s.firstStep).2 ≤ s.simTime

/-- the contract along the run that starts in `s0` -/
def Contract (wd : World W RN RL) (cfg : Cfg) (s0 : St W RN RL) : Prop :=
  ∀ n, PresolveOK wd (iter wd cfg n s0)

/-- the locals of `run_sim` just before `while True:` (`first_step = sim_time == 0`; a fresh run sets `_prev_sim_time = -1`) -/
def init (w : W) (simTime prevTime : Int) : St W RN RL :=
  let first := simTime == 0
  { w, simTime, prevTime := if first then -1 else prevTime, firstStep := first, trial := -1, resolve := false,
    nSolve := 0, times := [], nodeRows := [], linkRows := [], accepted := [], calls := [], halt := none }

/-- an explicit bound on the number of passes (sufficient under `Contract`, see `Props/C16.lean`) -/
def fuel (cfg : Cfg) (simTime prevTime : Int) : Nat :=
  ((max cfg.duration simTime) - prevTime).toNat * (cfg.maxTrials.toNat + 1) + 1

/-- `run_sim`: the loop with the explicit fuel -/
def runSim (wd : World W RN RL) (cfg : Cfg) (w : W) (simTime prevTime : Int) : St W RN RL :=
  let s0 : St W RN RL := init w simTime prevTime
  iter wd cfg (fuel cfg s0.simTime s0.prevTime) s0

/-- what the caller of `run_sim` sees -/
structure Result (RN RL : Type) where
  halt : Halt
  /-- index of the node tables and of the link tables (`get_results` uses `results.time` for both) -/
  times : List Int
  nodeRows : List RN
  linkRows : List RL

/-- `get_results` + `return results` (nothing is returned when an exception propagates) -/
def St.result (s : St W RN RL) : Option (Result RN RL) :=
  match s.halt with
  | none => none
  | some h => if h.returns then some ⟨h, s.times, s.nodeRows, s.linkRows⟩ else some ⟨h, [], [], []⟩

/-! ### the trace world used by the correspondence driver

The hidden state is the three streams of answers observed on the real run (or chosen by a generator):
new clock values returned by presolve, solver outcomes, post-solve "changes made" flags.  Rows are
identified by the number of solver calls made when they were saved. -/

structure Trace where
  pres : List Int
  outs : List SolveOutcome
  posts : List Bool
  nsolved : Nat
  /-- how often an empty stream was asked (then: clock unchanged / converged / no change) -/
  starved : Nat
  deriving Repr, Inhabited

def traceWorld : World Trace Nat Nat where
  presolve := fun w t _ _ =>
    match w.pres with
    | [] => ({ w with starved := w.starved + 1 }, t)
    | x :: r => ({ w with pres := r }, x)
  solve := fun w _ _ =>
    match w.outs with
    | [] => ({ w with nsolved := w.nsolved + 1, starved := w.starved + 1 }, .converged)
    | o :: r => ({ w with outs := r, nsolved := w.nsolved + 1 }, o)
  post := fun w =>
    match w.posts with
    | [] => ({ w with starved := w.starved + 1 }, false)
    | b :: r => ({ w with posts := r }, b)
  nodeRow := fun w => w.nsolved
  linkRow := fun w => w.nsolved

/-- `iter` that stops looking once the loop has been left (what the driver executes; `= iter`, Lemmas/RunLoop) -/
def runTo (wd : World W RN RL) (cfg : Cfg) : Nat → St W RN RL → St W RN RL
  | 0, s => s
  | n + 1, s => if s.halt.isSome then s else runTo wd cfg n (step wd cfg s)

end Wntr.RunLoop
