/-
M5b RunLoop — the outer `while True` loop of `WNTRSimulator.run_sim` (wntr/sim/core.py) as it is NOW,
with solve failures, the backup solver, post-solve re-solves (`resolve` / `trial` / `max_trials`),
the report grid (`report_timestep` integer or 'ALL'), the three `RuntimeError`s and the `error_code` flag.

Everything `run_sim` calls but does not itself decide is a field of `World` (an arbitrary state machine
over a hidden state `W` = network + AML model + control objects):

  presolve  = `_compute_next_timestep_and_run_presolve_controls_and_rules(first_step)`:
              from (world, wn.sim_time, wn._prev_sim_time, first_step) to (world', new wn.sim_time)
  solve     = `_solver_helper(model, solver, options)`; the arguments are the world, the running number of the
              call (0-based, primary and backup calls both count -- this is the index fault injection uses) and
              whether it is the backup solver; returns the status class only (run_sim looks at `status == 0`)
  post      = `_run_postsolve_controls(); _run_feasibility_controls(); changes_made('graph')`
  nodeRow / linkRow = what `save_results` appends to every node / link result list

`run_sim` itself puts NO bound on where `presolve` moves the clock; the bound `prev < t' ≤ cur` comes from the
condition classes (`Lemmas/Time.lean`, `Lemmas/Sched.lean` prove it for time conditions and rules).  The model is total
for every oracle; the theorems that need the bound take it as the explicit hypothesis `Contract`.

Times are integer seconds (`Int`; Python's `%` with a positive divisor is Lean's `Int.emod`).
Python exceptions are `Halt` values; the state returned is the state the locals are left in.
-/
namespace Wntr.RunLoop

/-- status class of one `_solver_helper` call (`NewtonSolver.solve` messages; scipy solvers map to `other`) -/
inductive SolveOutcome where
  | converged
  | iterLimit     -- "Reached maximum number of iterations"
  | singular      -- MatrixRankWarning -> "Jacobian is singular at iteration k"
  | lineSearch    -- "Line search failed at iteration k"
  | timeLimit     -- "Time limit exceeded"
  | other         -- fsolve ier != 1, exception in a scipy solver
  deriving DecidableEq, Repr, Inhabited

/-- `solver_status != 0` -/
def SolveOutcome.ok : SolveOutcome → Bool
  | .converged => true
  | _ => false

structure Cfg where
  /-- `self._hydraulic_timestep` (after `_setup_sim_options`) -/
  hyd : Int
  /-- `self._report_timestep`; `0` encodes the string 'ALL' -/
  report : Int
  /-- `wn.options.time.duration` -/
  duration : Int
  /-- `wn.options.hydraulic.trials` -/
  maxTrials : Int
  /-- `backup_solver is not None` -/
  backup : Bool
  /-- `convergence_error` -/
  convErr : Bool
  /-- `wn.options.time.report_start` (report times are `report_start + k * report_timestep`, `k ≥ 0`) -/
  reportStart : Int := 0
  deriving Repr, Inhabited

/-- how the loop was left -/
inductive Halt where
  | finished            -- `sim_time > duration`: normal return, `error_code` stays None
  | flagNoConv          -- warning 'Simulation did not converge', `error_code = error`, partial results returned
  | flagTrials          -- warning 'Exceeded maximum number of trials', `error_code = error`, partial results returned
  | raiseNoConv         -- RuntimeError('Simulation did not converge at time ...')
  | raiseTrials         -- RuntimeError('Exceeded maximum number of trials at time ...')
  | raiseAlreadySolved  -- RuntimeError('Simulation already solved this timestep')
  deriving DecidableEq, Repr, Inhabited

/-- does `run_sim` return a results object (as opposed to raising)? -/
def Halt.returns : Halt → Bool
  | .finished | .flagNoConv | .flagTrials => true
  | _ => false

/-- is `results.error_code` set / an exception raised? -/
def Halt.clean : Halt → Bool
  | .finished => true
  | _ => false

structure World (W RN RL : Type) where
  presolve : W → Int → Int → Bool → W × Int
  solve : W → Nat → Bool → W × SolveOutcome
  post : W → W × Bool
  nodeRow : W → RN
  linkRow : W → RL

structure St (W RN RL : Type) where
  w : W
  simTime : Int
  prevTime : Int
  firstStep : Bool
  trial : Int
  resolve : Bool
  /-- number of `_solver_helper` calls made so far -/
  nSolve : Nat
  /-- `results.time` -/
  times : List Int
  /-- the per-element lists of `node_res` (one entry per `save_results` call) -/
  nodeRows : List RN
  linkRows : List RL
  /-- ghost: the time of every accepted step -/
  accepted : List Int
  /-- ghost: trace of the `_solver_helper` calls (is-backup, outcome) -/
  calls : List (Bool × SolveOutcome)
  halt : Option Halt

variable {W RN RL : Type}

/-- `if not resolve: trial = 0; self._compute_next_timestep_and_run_presolve_controls_and_rules(first_step)` -/
def presolvePhase (wd : World W RN RL) (s : St W RN RL) : St W RN RL :=
  if s.resolve then s
  else
    let r := wd.presolve s.w s.simTime s.prevTime s.firstStep
    { s with w := r.1, simTime := r.2, trial := 0 }

/-- one `_solver_helper` call -/
def solveCall (wd : World W RN RL) (s : St W RN RL) (bk : Bool) : St W RN RL × SolveOutcome :=
  let r := wd.solve s.w s.nSolve bk
  ({ s with w := r.1, nSolve := s.nSolve + 1, calls := s.calls ++ [(bk, r.2)] }, r.2)

/-- primary solver, then `if solver_status == 0 and self._backup_solver is not None:` the backup solver -/
def solvePhase (wd : World W RN RL) (cfg : Cfg) (s : St W RN RL) : St W RN RL × SolveOutcome :=
  let r1 := solveCall wd s false
  if !r1.2.ok && cfg.backup then solveCall wd r1.1 true else r1

def failHalt (cfg : Cfg) : Halt := if cfg.convErr then .raiseNoConv else .flagNoConv
def trialHalt (cfg : Cfg) : Halt := if cfg.convErr then .raiseTrials else .flagTrials

/-- `isinstance(report, (float,int)) and sim_time >= report_start and (sim_time - report_start) % report == 0`,
or report == 'ALL' -/
def reportNow (cfg : Cfg) (t : Int) : Bool :=
  cfg.report == 0 || (decide (t ≥ cfg.reportStart) && (t - cfg.reportStart) % cfg.report == 0)

/-- the tail of the loop body after "no changes made by postsolve controls": save, advance the clock, test the end -/
def acceptPhase (wd : World W RN RL) (cfg : Cfg) (s : St W RN RL) : St W RN RL :=
  let s0 : St W RN RL := { s with resolve := false }
  if reportNow cfg s0.simTime then
    -- save_results appends to every list before the "already solved" test
    let s1 : St W RN RL :=
      { s0 with nodeRows := s0.nodeRows ++ [wd.nodeRow s0.w], linkRows := s0.linkRows ++ [wd.linkRow s0.w] }
    if s1.times.getLast? = some s1.simTime then { s1 with halt := some .raiseAlreadySolved }
    else
      let s2 : St W RN RL := { s1 with times := s1.times ++ [s1.simTime] }
      let t := s2.simTime + cfg.hyd
      let s3 : St W RN RL :=
        { s2 with accepted := s2.accepted ++ [s2.simTime], prevTime := s2.simTime, firstStep := false,
                  simTime := t - t % cfg.hyd }
      if s3.simTime > cfg.duration then { s3 with halt := some .finished } else s3
  else
    let t := s0.simTime + cfg.hyd
    let s3 : St W RN RL :=
      { s0 with accepted := s0.accepted ++ [s0.simTime], prevTime := s0.simTime, firstStep := false,
                simTime := t - t % cfg.hyd }
    if s3.simTime > cfg.duration then { s3 with halt := some .finished } else s3

/-- after a converged solve: post-solve + feasibility controls, `changes_made('graph')`, trial accounting -/
def postPhase (wd : World W RN RL) (cfg : Cfg) (s : St W RN RL) : St W RN RL :=
  let r := wd.post s.w
  let s1 : St W RN RL := { s with w := r.1 }
  if r.2 then
    let s2 : St W RN RL := { s1 with resolve := true, trial := s1.trial + 1 }
    if s2.trial > cfg.maxTrials then { s2 with halt := some (trialHalt cfg) } else s2
  else acceptPhase wd cfg s1

/-- one pass of the body of `while True:` -/
def step (wd : World W RN RL) (cfg : Cfg) (s : St W RN RL) : St W RN RL :=
  match s.halt with
  | some _ => s
  | none =>
    let r := solvePhase wd cfg (presolvePhase wd s)
    if r.2.ok then postPhase wd cfg r.1 else { r.1 with halt := some (failHalt cfg) }

/-- `n` passes (a pass on a halted state does nothing) -/
def iter (wd : World W RN RL) (cfg : Cfg) : Nat → St W RN RL → St W RN RL
  | 0, s => s
  | n + 1, s => iter wd cfg n (step wd cfg s)

/-- the contract of `presolve` at one state: when the loop calls it, the clock lands in `(prev, cur]`.
(`run_sim` does not enforce this; the condition classes and the rule clock do -- `Lemmas/Time.lean`, `Lemmas/Sched.lean`.
The harness checks it on every call it observes.) -/
def PresolveOK (wd : World W RN RL) (s : St W RN RL) : Prop :=
  s.halt = none → s.resolve = false →
    s.prevTime < (wd.presolve s.w s.simTime s.prevTime s.firstStep).2 ∧
    (wd.presolve s.w s.simTime s.prevTime s.firstStep).2 ≤ s.simTime

/-- the contract along the run that starts in `s0` -/
def Contract (wd : World W RN RL) (cfg : Cfg) (s0 : St W RN RL) : Prop :=
  ∀ n, PresolveOK wd (iter wd cfg n s0)

/-- the locals of `run_sim` just before `while True:` (`first_step = sim_time == 0`; a fresh run sets `_prev_sim_time = -1`) -/
def init (w : W) (simTime prevTime : Int) : St W RN RL :=
  let first := simTime == 0
  { w, simTime, prevTime := if first then -1 else prevTime, firstStep := first, trial := -1, resolve := false,
    nSolve := 0, times := [], nodeRows := [], linkRows := [], accepted := [], calls := [], halt := none }

/-- an explicit bound on the number of passes (sufficient under `Contract`, see `Props/C16.lean`) -/
def fuel (cfg : Cfg) (simTime prevTime : Int) : Nat :=
  ((max cfg.duration simTime) - prevTime).toNat * (cfg.maxTrials.toNat + 1) + 1

/-- the statements between the initialisation of the locals and `while True:`
`if not first_step and self._wn.sim_time > self._wn.options.time.duration: get_results(...); return results`
(a model already simulated up to the duration is left alone: empty tables, `error_code` None) -/
def enter (cfg : Cfg) (w : W) (simTime prevTime : Int) : St W RN RL :=
  let s0 : St W RN RL := init w simTime prevTime
  if !s0.firstStep && s0.simTime > cfg.duration then { s0 with halt := some .finished } else s0

/-- `run_sim`: the early return, then the loop with the explicit fuel -/
def runSim (wd : World W RN RL) (cfg : Cfg) (w : W) (simTime prevTime : Int) : St W RN RL :=
  let s0 : St W RN RL := enter cfg w simTime prevTime
  iter wd cfg (fuel cfg s0.simTime s0.prevTime) s0

/-- what the caller of `run_sim` sees -/
structure Result (RN RL : Type) where
  halt : Halt
  /-- index of the node tables and of the link tables (`get_results` uses `results.time` for both) -/
  times : List Int
  nodeRows : List RN
  linkRows : List RL

/-- `get_results` + `return results` (nothing is returned when an exception propagates) -/
def St.result (s : St W RN RL) : Option (Result RN RL) :=
  match s.halt with
  | none => none
  | some h => if h.returns then some ⟨h, s.times, s.nodeRows, s.linkRows⟩ else some ⟨h, [], [], []⟩

/-! ### the loop as DATA

`Shape` is what the translator (`harness/props/c16.py`, Python `ast` over `run_sim`) regenerates into
`Gen/RunLoopShape.lean` on every run: the statements of the loop body that matter, in order, as constructors.
`execS` interprets such a program on the same state `St` with the same world; `Lemmas/RunLoopShape.lean` proves that
the interpretation of `refShape` (below, written by hand next to `step`) IS `step`/`enter`, and `Props/C16.lean`
proves by `decide` that the generated shape equals `refShape` -- so the theorems are about the program that was
read off the current source. -/

/-- calls that only act on the hidden world (their effect is inside `presolve` / `solve` / `post`) -/
inductive WorldCall where
  | updateTankHeads | runFeasibilityControls | updateInternalGraph | getIsolated | updateModelForControls
  | sourceHeadParam | expectedDemandParam | storeResultsInNetwork
  deriving DecidableEq, Repr

inductive Cond where
  | notResolve            -- `not resolve`
  | notFirst              -- `not first_step`
  | notFirstAndNotResolve -- `not first_step and not resolve`
  | failedAndBackup       -- `solver_status == 0 and self._backup_solver is not None`
  | failed                -- `solver_status == 0`
  | convErrAttr           -- `self._convergence_error`
  | convErrParam          -- `convergence_error`
  | changed               -- `self._change_tracker.changes_made(ref_point='graph')`
  | trialGtMax            -- `trial > max_trials`
  | reportNumeric         -- `isinstance(self._report_timestep, (float, int))`
  | reportAll             -- `self._report_timestep.upper() == 'ALL'`
  | onGrid                -- `self._wn.sim_time >= report_start and (self._wn.sim_time - report_start) % self._report_timestep == 0`
  | alreadySolved         -- `len(results.time) > 0 and int(self._wn.sim_time) == results.time[-1]`
  | nonIntegral           -- `int(self._wn.sim_time) != self._wn.sim_time`
  | pastDuration          -- `self._wn.sim_time > self._wn.options.time.duration`
  deriving DecidableEq, Repr

inductive Act where
  | world (c : WorldCall)
  | resetTrial            -- `trial = 0`
  | presolve              -- `self._compute_next_timestep_and_run_presolve_controls_and_rules(first_step)`
  | solvePrimary          -- `solver_status, mesg, iter_count = _solver_helper(self._model, self._solver, self._solver_options)`
  | solveBackup           -- `... = _solver_helper(self._model, self._backup_solver, self._backup_solver_options)`
  | runPostsolve          -- `self._run_postsolve_controls()`
  | setResolve (b : Bool) -- `resolve = b`
  | incTrial              -- `trial += 1`
  | setError              -- `results.error_code = wntr.sim.results.ResultsStatus.error`
  | warnNoConv            -- `warnings.warn('Simulation did not converge ...')`
  | warnTrials            -- `warnings.warn('Exceeded maximum number of trials ...')`
  | save                  -- `wntr.sim.hydraulics.save_results(self._wn, node_res, link_res)`
  | appendTime            -- `results.time.append(int(self._wn.sim_time))`
  | updatePrev            -- `wntr.sim.hydraulics.update_network_previous_values(self._wn)`
  | clearFirst            -- `first_step = False`
  | advance               -- `sim_time += hyd; overstep = float(sim_time) % hyd; sim_time -= overstep`
  | readReportStart       -- `report_start = self._wn.options.time.report_start`
  deriving DecidableEq, Repr

inductive Exc where
  | noConv | trials | alreadySolved | subSecond
  deriving DecidableEq, Repr

inductive Stmt where
  | skip
  | act (a : Act)
  | seq (s t : Stmt)
  | ite (c : Cond) (t e : Stmt)
  | raise (e : Exc)
  | brk
  | cont
  deriving DecidableEq, Repr

/-- a statement list -/
def block : List Stmt → Stmt
  | [] => .skip
  | s :: r => .seq s (block r)

structure Shape where
  /-- `trial = <n>` before the loop -/
  trialInit : Int
  /-- `resolve = <b>` before the loop -/
  resolveInit : Bool
  /-- the early return `if not first_step and sim_time > duration: get_results; return results` is present -/
  earlyReturn : Bool
  /-- `get_results` is called after the loop and `results` returned -/
  returnsResults : Bool
  body : Stmt
  deriving DecidableEq, Repr

inductive Flow where
  | normal | broke | continued | raised (e : Exc)
  deriving DecidableEq, Repr

/-- locals of one pass that are not part of `St` -/
structure Loc where
  ok : Bool          -- `solver_status != 0`
  changed : Bool     -- what the last `runPostsolve` + feasibility controls did to the 'graph' reference point
  err : Bool         -- `results.error_code` was set in this pass
  warnedTrials : Bool
  flow : Flow

structure Mach (W RN RL : Type) where
  s : St W RN RL
  l : Loc

def evalCond (cfg : Cfg) (m : Mach W RN RL) : Cond → Bool
  | .notResolve => !m.s.resolve
  | .notFirst => !m.s.firstStep
  | .notFirstAndNotResolve => !m.s.firstStep && !m.s.resolve
  | .failedAndBackup => !m.l.ok && cfg.backup
  | .failed => !m.l.ok
  | .convErrAttr => cfg.convErr
  | .convErrParam => cfg.convErr
  | .changed => m.l.changed
  | .trialGtMax => m.s.trial > cfg.maxTrials
  | .reportNumeric => cfg.report != 0
  | .reportAll => cfg.report == 0
  | .onGrid => decide (m.s.simTime ≥ cfg.reportStart) && (m.s.simTime - cfg.reportStart) % cfg.report == 0
  | .alreadySolved => m.s.times.getLast? = some m.s.simTime
  | .nonIntegral => false
  | .pastDuration => m.s.simTime > cfg.duration

def doAct (wd : World W RN RL) (cfg : Cfg) (m : Mach W RN RL) : Act → Mach W RN RL
  | .world _ => m
  | .resetTrial => { m with s := { m.s with trial := 0 } }
  | .presolve =>
    let r := wd.presolve m.s.w m.s.simTime m.s.prevTime m.s.firstStep
    { m with s := { m.s with w := r.1, simTime := r.2 } }
  | .solvePrimary => let r := solveCall wd m.s false; { s := r.1, l := { m.l with ok := r.2.ok } }
  | .solveBackup => let r := solveCall wd m.s true; { s := r.1, l := { m.l with ok := r.2.ok } }
  | .runPostsolve => let r := wd.post m.s.w; { s := { m.s with w := r.1 }, l := { m.l with changed := r.2 } }
  | .setResolve b => { m with s := { m.s with resolve := b } }
  | .incTrial => { m with s := { m.s with trial := m.s.trial + 1 } }
  | .setError => { m with l := { m.l with err := true } }
  | .warnNoConv => m
  | .warnTrials => { m with l := { m.l with warnedTrials := true } }
  | .save => { m with s := { m.s with nodeRows := m.s.nodeRows ++ [wd.nodeRow m.s.w], linkRows := m.s.linkRows ++ [wd.linkRow m.s.w] } }
  | .appendTime => { m with s := { m.s with times := m.s.times ++ [m.s.simTime] } }
  | .updatePrev => { m with s := { m.s with accepted := m.s.accepted ++ [m.s.simTime], prevTime := m.s.simTime } }
  | .clearFirst => { m with s := { m.s with firstStep := false } }
  | .advance => { m with s := { m.s with simTime := (m.s.simTime + cfg.hyd) - (m.s.simTime + cfg.hyd) % cfg.hyd } }
  | .readReportStart => m

/-- structured-control-flow interpreter: a statement runs only while the flow is `normal` -/
def execS (wd : World W RN RL) (cfg : Cfg) : Stmt → Mach W RN RL → Mach W RN RL
  | .skip, m => m
  | .act a, m => doAct wd cfg m a
  | .seq s t, m =>
    let m1 := execS wd cfg s m
    match m1.l.flow with
    | .normal => execS wd cfg t m1
    | _ => m1
  | .ite c t e, m => if evalCond cfg m c then execS wd cfg t m else execS wd cfg e m
  | .raise e, m => { m with l := { m.l with flow := .raised e } }
  | .brk, m => { m with l := { m.l with flow := .broke } }
  | .cont, m => { m with l := { m.l with flow := .continued } }

/-- how the pass was left -> the loop's halt status -/
def haltOf (l : Loc) : Option Halt :=
  match l.flow with
  | .normal | .continued => none
  | .broke => some (if l.err then (if l.warnedTrials then .flagTrials else .flagNoConv) else .finished)
  | .raised .noConv => some .raiseNoConv
  | .raised .trials => some .raiseTrials
  | .raised .alreadySolved => some .raiseAlreadySolved
  | .raised .subSecond => some .raiseAlreadySolved

/-- one pass of the loop whose body is the program `sh.body` -/
def stepS (sh : Shape) (wd : World W RN RL) (cfg : Cfg) (s : St W RN RL) : St W RN RL :=
  match s.halt with
  | some _ => s
  | none =>
    let m := execS wd cfg sh.body { s := s, l := { ok := true, changed := false, err := false, warnedTrials := false, flow := .normal } }
    { m.s with halt := haltOf m.l }

def iterS (sh : Shape) (wd : World W RN RL) (cfg : Cfg) : Nat → St W RN RL → St W RN RL
  | 0, s => s
  | n + 1, s => iterS sh wd cfg n (stepS sh wd cfg s)

def enterS (sh : Shape) (cfg : Cfg) (w : W) (simTime prevTime : Int) : St W RN RL :=
  let s0 : St W RN RL := { (init w simTime prevTime : St W RN RL) with trial := sh.trialInit, resolve := sh.resolveInit }
  if sh.earlyReturn && (!s0.firstStep && s0.simTime > cfg.duration) then { s0 with halt := some .finished } else s0

/-- `run_sim` as the interpretation of a shape -/
def runSimS (sh : Shape) (wd : World W RN RL) (cfg : Cfg) (w : W) (simTime prevTime : Int) : St W RN RL :=
  let s0 : St W RN RL := enterS sh cfg w simTime prevTime
  iterS sh wd cfg (fuel cfg s0.simTime s0.prevTime) s0

/-- the loop body `step` was written from (kept in the order of the source) -/
def refBody : Stmt := block [
  .ite .notResolve (block [
      .ite .notFirst (.act (.world .updateTankHeads)) .skip,
      .act .resetTrial,
      .act .presolve]) .skip,
  .act (.world .runFeasibilityControls),
  .act (.world .updateInternalGraph),
  .act (.world .getIsolated),
  .ite .notFirstAndNotResolve (.act (.world .updateTankHeads)) .skip,
  .act (.world .updateModelForControls),
  .act (.world .sourceHeadParam),
  .act (.world .expectedDemandParam),
  .act .solvePrimary,
  .ite .failedAndBackup (.act .solveBackup) .skip,
  .ite .failed (block [
      .ite .convErrAttr (.raise .noConv) .skip,
      .act .warnNoConv,
      .act .setError,
      .brk]) .skip,
  .act (.world .storeResultsInNetwork),
  .act .runPostsolve,
  .act (.world .runFeasibilityControls),
  .ite .changed (block [
      .act (.setResolve true),
      .act (.world .updateInternalGraph),
      .act (.world .updateModelForControls),
      .act .incTrial,
      .ite .trialGtMax (block [
          .ite .convErrParam (.raise .trials) .skip,
          .act .setError,
          .act .warnTrials,
          .brk]) .skip,
      .cont]) .skip,
  .act (.setResolve false),
  .ite .reportNumeric
    (block [
      .act .readReportStart,
      .ite .onGrid (block [
        .act .save,
        .ite .alreadySolved (.ite .nonIntegral (.raise .subSecond) (.raise .alreadySolved)) .skip,
        .act .appendTime]) .skip])
    (.ite .reportAll (block [
        .act .save,
        .ite .alreadySolved (.raise .alreadySolved) .skip,
        .act .appendTime]) .skip),
  .act .updatePrev,
  .act .clearFirst,
  .act .advance,
  .ite .pastDuration .brk .skip]

def refShape : Shape :=
  { trialInit := -1, resolveInit := false, earlyReturn := true, returnsResults := true, body := refBody }

/-! ### the clamp of the presolve pass (fix 7d8c4ce1) as DATA

`max_back = max(int(<minuend> - <subtrahend>) - 1, 0)` and `(c, min(max(b, 0), max_back))` in
`_compute_next_timestep_and_run_presolve_controls_and_rules`: WHICH two quantities are subtracted is regenerated by the
translator into `Gen/RunLoopShape.lean` (`Gen.clampShape`). -/

inductive Quantity where
  | tentativeTime     -- `self._wn.sim_time`
  | prevAcceptedTime  -- `self._wn._prev_sim_time`
  | hydraulicStep     -- `self._hydraulic_timestep`
  | zero              -- a literal 0 / nothing subtracted
  deriving DecidableEq, Repr

structure ClampShape where
  minuend : Quantity
  subtrahend : Quantity
  /-- `min(max(b, 0), max_back)` applied to every `(c, b)` on non-first steps, `max_back = max(int(.) - 1, 0)` -/
  lowerZero : Bool
  minusOne : Bool
  deriving DecidableEq, Repr

def refClampShape : ClampShape :=
  { minuend := .tentativeTime, subtrahend := .prevAcceptedTime, lowerZero := true, minusOne := true }

def Quantity.eval (cur prev hyd : Int) : Quantity → Int
  | .tentativeTime => cur
  | .prevAcceptedTime => prev
  | .hydraulicStep => hyd
  | .zero => 0

/-- the clamped backtrack the pass uses, for a clamp of shape `sh` at tentative time `cur`, previous accepted time `prev` -/
def clampWith (sh : ClampShape) (cur prev hyd b : Int) : Int :=
  let span := sh.minuend.eval cur prev hyd - sh.subtrahend.eval cur prev hyd
  let maxBack := max (span - (if sh.minusOne then 1 else 0)) 0
  min (if sh.lowerZero then max b 0 else b) maxBack

/-! ### the trace world used by the correspondence driver

The hidden state is the three streams of answers observed on the real run (or chosen by a generator):
new clock values returned by presolve, solver outcomes, post-solve "changes made" flags.  Rows are
identified by the number of solver calls made when they were saved. -/

structure Trace where
  pres : List Int
  outs : List SolveOutcome
  posts : List Bool
  nsolved : Nat
  /-- how often an empty stream was asked (then: clock unchanged / converged / no change) -/
  starved : Nat
  deriving Repr, Inhabited

def traceWorld : World Trace Nat Nat where
  presolve := fun w t _ _ =>
    match w.pres with
    | [] => ({ w with starved := w.starved + 1 }, t)
    | x :: r => ({ w with pres := r }, x)
  solve := fun w _ _ =>
    match w.outs with
    | [] => ({ w with nsolved := w.nsolved + 1, starved := w.starved + 1 }, .converged)
    | o :: r => ({ w with outs := r, nsolved := w.nsolved + 1 }, o)
  post := fun w =>
    match w.posts with
    | [] => ({ w with starved := w.starved + 1 }, false)
    | b :: r => ({ w with posts := r }, b)
  nodeRow := fun w => w.nsolved
  linkRow := fun w => w.nsolved

/-- `iter` that stops looking once the loop has been left (what the driver executes; `= iter`, Lemmas/RunLoop) -/
def runTo (wd : World W RN RL) (cfg : Cfg) : Nat → St W RN RL → St W RN RL
  | 0, s => s
  | n + 1, s => if s.halt.isSome then s else runTo wd cfg n (step wd cfg s)

end Wntr.RunLoop
