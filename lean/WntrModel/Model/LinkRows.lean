/-
`LinkRows` — parametric models of the constraint rows `wntr.sim.hydraulics.create_hydraulic_model`
builds (C01: node mass balance, C02: one head-flow row per link kind and status), of the parameter
formulas of `wntr/sim/models/param.py`, of `cubic_spline`, of the pump-curve fits of
`HeadPump.get_head_curve_coefficients`, of what `store_results_in_network` copies back, of
`Pattern.at / Demands.at` and of the internal CV / pump closing conditions of `controls.py`.

Every row is built with the same smart constructors the Python operator overloads of
`wntr/sim/aml/expr.py` use (`x*1 → x`, `x**1 → x`, `x+0 → x`, `0-x → -x`, `x*0 → 0` …), so that a
generated row (runtime reflection of the real aml model, `Gen/RowsC01.lean`, `Gen/RowsC02.lean`) is
*syntactically* the parametric row of the same link.  This file imports only `Model/Expr` and `Model/Pattern`.
-/
import WntrModel.Model.Expr
import WntrModel.Model.Pattern

namespace Wntr.LinkRows
open Wntr.Aml

/-! ### Python number | aml expression, and the operator overloads of `ExpressionBase` -/

inductive PyVal where
  | num (q : Rat)
  | ex (e : Expr)
  deriving Repr, DecidableEq, Inhabited

namespace PyVal

def toExpr : PyVal → Expr
  | num q => .const q
  | ex e => e

/-- `a + b` (`__add__`, `__radd__`; `Float._binary_operation_helper` folds two numbers) -/
def add : PyVal → PyVal → PyVal
  | ex a, num q => if q = 0 then ex a else ex (.bin .add a (.const q))
  | ex a, ex b => ex (.bin .add a b)
  | num p, ex b => if p = 0 then ex b else ex (.bin .add (.const p) b)
  | num p, num q => num (p + q)

/-- `a - b` (`__sub__`, `__rsub__`: `0 - x` is `-x`) -/
def sub : PyVal → PyVal → PyVal
  | ex a, num q => if q = 0 then ex a else ex (.bin .sub a (.const q))
  | ex a, ex b => ex (.bin .sub a b)
  | num p, ex b => if p = 0 then ex (.un .neg b) else ex (.bin .sub (.const p) b)
  | num p, num q => num (p - q)

/-- `a * b` (`__mul__`, `__rmul__`: `x*0 → 0` (a Python int), `x*1 → x`) -/
def mul : PyVal → PyVal → PyVal
  | ex a, num q => if q = 0 then num 0 else if q = 1 then ex a else ex (.bin .mul a (.const q))
  | ex a, ex b => ex (.bin .mul a b)
  | num p, ex b => if p = 0 then num 0 else if p = 1 then ex b else ex (.bin .mul (.const p) b)
  | num p, num q => num (p * q)

/-- `a ** q` for an aml expression `a` and a Python number `q` (`x**0 → 1`, `x**1 → x`) -/
def powC (a : Expr) (q : Rat) : PyVal :=
  if q = 0 then num 1 else if q = 1 then ex a else ex (.bin .pow a (.const q))

/-- unary minus of an aml expression -/
def negE (a : Expr) : PyVal := ex (.un .neg a)

end PyVal

open PyVal in
instance : Add PyVal := ⟨PyVal.add⟩
open PyVal in
instance : Sub PyVal := ⟨PyVal.sub⟩
open PyVal in
instance : Mul PyVal := ⟨PyVal.mul⟩

/-- the expression of a `Constraint(expr)`; a bare Python number cannot be a constraint body, the
model maps it to the constant (never happens for the rows below unless a coefficient is degenerate) -/
abbrev PyVal.con (v : PyVal) : Expr := v.toExpr

/-! ### constants of `wntr/sim/models/constants.py` (values are generated, see `Gen/RowsC02.lean`) -/

structure HWConsts where
  hwK : Rat        -- 10.666829500036352
  hwExp : Rat      -- 1.852
  minorExp : Rat   -- 2
  q1 : Rat         -- 0.0002
  q2 : Rat         -- 0.0004
  m : Rat          -- 0.001
  a : Rat
  b : Rat
  c : Rat
  d : Rat
  deriving Repr, DecidableEq, Inhabited

structure PumpConsts where
  q1 : Rat         -- 0
  q2 : Rat         -- 1e-8
  slope : Rat      -- -1e-11
  deriving Repr, DecidableEq, Inhabited

/-- literals written inside `constraint.py` itself -/
structure RowLits where
  eps : Rat        -- 1e-5 in `approx_hazen_williams_headloss_constraint`
  half : Rat       -- 0.5   (`k**0.5`)
  gammaW : Rat     -- 9.81 * 1000.0 in `power_pump_headloss_constraint`
  deriving Repr, DecidableEq, Inhabited

/-! ### C01: the mass-balance row -/

/-- `expr = D; for l in INLET: expr -= flow[l]; for l in OUTLET: expr += flow[l]; if leak_status: expr += leak_rate`
(`mass_balance_constraint.build` with `d = .param expected_demand[j]`, `pdd_mass_balance_constraint.build`
with `d = .var demand[j]`) -/
def massBalanceRow (d : Expr) (ins outs : List Nat) (leak : Option Nat) : Expr :=
  let e := ins.foldl (fun e l => .bin .sub e (.var l)) d
  let e := outs.foldl (fun e l => .bin .add e (.var l)) e
  match leak with
  | some k => .bin .add e (.var k)
  | none => e

/-- signed leaves of an expression built from leaves with `+`, `-`, unary `-` only
(`(isParam, index, negated)`); `none` for any other shape -/
def linTerms (e : Expr) (s : Bool) : Option (List (Bool × Nat × Bool)) :=
  match e with
  | .var i => some [(false, i, s)]
  | .param i => some [(true, i, s)]
  | .bin op a b =>
    (match op with
     | .add =>
       (match linTerms a s, linTerms b s with
        | some x, some y => some (x ++ y)
        | _, _ => none)
     | .sub =>
       (match linTerms a s, linTerms b (!s) with
        | some x, some y => some (x ++ y)
        | _, _ => none)
     | _ => none)
  | .un op a =>
    (match op with
     | .neg => linTerms a (!s)
     | _ => none)
  | .const q => if q = 0 then some [] else none     -- Python's `sum()` starts from the int 0
  | _ => none

/-- the signed leaves the property demands for junction `j`: `+D − Σ IN + Σ OUT (+ leak)` -/
def balanceTerms (d : Bool × Nat) (ins outs : List Nat) (leak : Option Nat) : List (Bool × Nat × Bool) :=
  [(d.1, d.2, false)] ++ ins.map (fun l => (false, l, true)) ++ outs.map (fun l => (false, l, false)) ++
    (match leak with | some k => [(false, k, false)] | none => [])

/-! ### C02: one row per link kind and status -/

inductive LinkKind where
  | pipe | headPump | powerPump | prv | psv | fcv | tcv
  deriving Repr, DecidableEq, Inhabited

/-- `LinkStatus`: Closed = 0, Open = 1, Active = 2 (CV = 3 is never a status the rows see) -/
inductive Status where
  | closed | opened | active
  deriving Repr, DecidableEq, Inhabited

inductive Approx where
  | default | piecewise
  deriving Repr, DecidableEq, Inhabited

/-- leaves a link row may mention -/
structure Leaves where
  f : Expr          -- m.flow[link]
  hs : Expr         -- m.head[start] (junction) or m.source_head[start] (tank / reservoir)
  he : Expr         -- likewise for the end node
  k : Expr          -- m.hw_resistance[link]
  mkl : Expr        -- m.minor_loss[link]
  setting : Expr    -- m.valve_setting[link]
  elevS : Expr      -- m.elevation[start]
  elevE : Expr      -- m.elevation[end]
  tcvR : Expr       -- m.tcv_resistance[link]
  power : Expr      -- m.pump_power[link]
  deriving Repr, DecidableEq, Inhabited

/-- numbers that enter a head-pump row as Python floats -/
structure PumpCoef where
  A : Rat
  B : Rat
  C : Rat
  a : Rat          -- smoothing cubic (C ≤ 1)
  b : Rat
  c : Rat
  d : Rat
  qbar : Rat       -- smoothing line (C > 1)
  hbar : Rat
  deriving Repr, DecidableEq, Inhabited

def ub (body : Expr) (u : Rat) : Expr := .ineq body none (some u)

section rows
open PyVal

/-- `Constraint(f)` — closed or isolated link of every kind -/
def closedRow (L : Leaves) : Expr := L.f

/-- `-sign(f)*k*abs(f)**hw_exp - eps*k**0.5*f - sign(f)*minor_k*f**hw_minor_exp + start_h - end_h` -/
def hwApproxRow (hw : HWConsts) (lit : RowLits) (L : Leaves) : Expr :=
  (((negE (.un .sign L.f) * ex L.k * powC (.un .abs L.f) hw.hwExp
      - num lit.eps * powC L.k lit.half * ex L.f)
      - ex (.un .sign L.f) * ex L.mkl * powC L.f hw.minorExp)
      + ex L.hs - ex L.he).con

/-- the minor-loss part shared by the three pieces: `sign(f)*minor_k*f**hw_minor_exp` -/
def minorTerm (hw : HWConsts) (L : Leaves) : PyVal :=
  ex (.un .sign L.f) * ex L.mkl * powC L.f hw.minorExp

/-- `piecewise_hazen_williams_headloss_constraint` -/
def hwPiecewiseRow (hw : HWConsts) (L : Leaves) : Expr :=
  let f := L.f
  let sgn : PyVal := ex (.un .sign f)
  let e1 := (negE L.k * num hw.m * ex f - minorTerm hw L + ex L.hs - ex L.he).con
  let poly := num hw.a * powC f 3 + sgn * num hw.b * powC f 2 + num hw.c * ex f + sgn * num hw.d
  let e2 := (negE L.k * poly - minorTerm hw L + ex L.hs - ex L.he).con
  let e3 := (negE (.un .sign f) * ex L.k * powC (.un .abs f) hw.hwExp - minorTerm hw L + ex L.hs - ex L.he).con
  condExpr [(ub (.un .abs f) hw.q1, e1), (ub (.un .abs f) hw.q2, e2), (.const 1, e3)]

/-- `A - B*f**C - end_h + start_h` -/
def pumpCurveExpr (P : PumpCoef) (L : Leaves) : Expr :=
  (num P.A - num P.B * powC L.f P.C - ex L.he + ex L.hs).con

/-- `head_pump_headloss_constraint`, branch `C <= 1` (three pieces) and `C > 1` (two pieces) -/
def headPumpRow (pc : PumpConsts) (P : PumpCoef) (L : Leaves) : Expr :=
  let f := L.f
  if P.C ≤ 1 then
    let e1 := (num pc.slope * ex f + num P.A - ex L.he + ex L.hs).con
    let e2 := (num P.a * powC f 3 + num P.b * powC f 2 + num P.c * ex f + num P.d - ex L.he + ex L.hs).con
    condExpr [(ub f pc.q1, e1), (ub f pc.q2, e2), (.const 1, pumpCurveExpr P L)]
  else
    let e1 := (num pc.slope * (ex f - num P.qbar) + num P.hbar - ex L.he + ex L.hs).con
    condExpr [(ub f P.qbar, e1), (.const 1, pumpCurveExpr P L)]

/-- `m.pump_power[l] + (start_h - end_h) * f * (9.81 * 1000.0)` -/
def powerPumpRow (lit : RowLits) (L : Leaves) : Expr :=
  (ex L.power + (ex L.hs - ex L.he) * ex L.f * num lit.gammaW).con

/-- `end_h - valve_setting - elevation[end]` -/
def prvActiveRow (L : Leaves) : Expr := (ex L.he - ex L.setting - ex L.elevE).con

/-- `start_h - valve_setting - elevation[start]` -/
def psvActiveRow (L : Leaves) : Expr := (ex L.hs - ex L.setting - ex L.elevS).con

/-- `f - valve_setting` -/
def fcvActiveRow (L : Leaves) : Expr := (ex L.f - ex L.setting).con

/-- `minor_loss*f**2 - start_h + end_h` (open PRV / PSV: one piece, even in `f`) -/
def openValveRowPlain (L : Leaves) : Expr := (ex L.mkl * powC L.f 2 - ex L.hs + ex L.he).con

/-- two pieces: `f <= 0: -r*f**2 - start_h + end_h`, else `r*f**2 - start_h + end_h`
(open FCV / TCV with `r = minor_loss`, active TCV with `r = tcv_resistance`) -/
def signedLossRow (r : Expr) (L : Leaves) : Expr :=
  let e1 := (negE r * powC L.f 2 - ex L.hs + ex L.he).con
  let e2 := (ex r * powC L.f 2 - ex L.hs + ex L.he).con
  condExpr [(ub L.f 0, e1), (.const 1, e2)]

end rows

/-- everything a `build` method reads to choose and fill the row of one link -/
structure LinkSpec where
  kind : LinkKind
  status : Status
  isolated : Bool
  approx : Approx
  leaves : Leaves
  pump : PumpCoef
  deriving Repr, DecidableEq, Inhabited

/-- the dispatch of the `build` methods: `if status == Closed or link._is_isolated: Constraint(f) else …` -/
def linkRow (hw : HWConsts) (pc : PumpConsts) (lit : RowLits) (s : LinkSpec) : Expr :=
  if s.status = .closed || s.isolated then closedRow s.leaves else
  match s.kind with
  | .pipe => (match s.approx with
      | .default => hwApproxRow hw lit s.leaves
      | .piecewise => hwPiecewiseRow hw s.leaves)
  | .headPump => headPumpRow pc s.pump s.leaves
  | .powerPump => powerPumpRow lit s.leaves
  | .prv => if s.status = .active then prvActiveRow s.leaves else openValveRowPlain s.leaves
  | .psv => if s.status = .active then psvActiveRow s.leaves else openValveRowPlain s.leaves
  | .fcv => if s.status = .active then fcvActiveRow s.leaves else signedLossRow s.leaves.mkl s.leaves
  | .tcv => if s.status = .active then signedLossRow s.leaves.tcvR s.leaves else signedLossRow s.leaves.mkl s.leaves

/-! ### parameter formulas of `param.py` (as expressions over attribute leaves `param 0, 1, 2`) -/

/-- `m.hw_k * roughness**(-1.852) * diameter**(-4.871) * length`; leaves: 0 roughness, 1 diameter, 2 length -/
def hwResistanceExpr (hwK e1 e2 : Rat) : Expr :=
  .bin .mul (.bin .mul (.bin .mul (.const hwK) (.bin .pow (.param 0) (.const e1))) (.bin .pow (.param 1) (.const e2))) (.param 2)

/-- `8.0 * K / (9.81 * math.pi**2 * diameter**4)`; leaves: 0 K (minor loss or TCV setting), 1 diameter.
`gpi2` is the folded Python float `9.81 * math.pi**2`. -/
def lossCoeffExpr (eight gpi2 four : Rat) : Expr :=
  .bin .div (.bin .mul (.const eight) (.param 0)) (.bin .mul (.const gpi2) (.bin .pow (.param 1) (.const four)))

/-! ### `wntr.utils.polynomial_interpolation.cubic_spline` and the pump-curve fits -/

section arith
variable {α : Type} [Add α] [Sub α] [Mul α] [Div α] [Neg α] [OfNat α 1] [OfNat α 2] [OfNat α 3] [OfNat α 4]

/-- `cubic_spline(x1, x2, f1, f2, df1, df2)` (powers written as products) -/
def cubicSpline (x1 x2 f1 f2 df1 df2 : α) : α × α × α × α :=
  let a := (2 * (f1 - f2) - (x1 - x2) * (df2 + df1)) / (x2 * x2 * x2 - x1 * x1 * x1 + 3 * x1 * x2 * (x1 - x2))
  let b := (df1 - df2 + 3 * (x2 * x2 - x1 * x1) * a) / (2 * (x1 - x2))
  let c := df2 - 3 * (x2 * x2) * a - 2 * x2 * b
  let d := f2 - x2 * x2 * x2 * a - x2 * x2 * b - x2 * c
  (a, b, c, d)

/-- value of the cubic `a x³ + b x² + c x + d` -/
def cubicAt (p : α × α × α × α) (x : α) : α := p.1 * (x * x * x) + p.2.1 * (x * x) + p.2.2.1 * x + p.2.2.2

/-- derivative `3 a x² + 2 b x + c` -/
def cubicDerivAt (p : α × α × α × α) (x : α) : α := 3 * p.1 * (x * x) + 2 * p.2.1 * x + p.2.2.1

/-- 1-point curve `(Q, H)`: `A = 4/3 H`, `B = 1/3 · H/Q²`, `C = 2` -/
def fit1 (Q H : α) : α × α × α := ((4 / 3) * H, (1 / 3) * (H / (Q * Q)), 2)

/-- 2-point curve (REPAIRED code, fixes/C02-two-point-pump-curve.patch): the straight line through both points,
`B = -(H1 - H0)/(Q1 - Q0)`, `A = H0 + B·Q0`, `C = 1` -/
def fit2 (Q0 H0 Q1 H1 : α) : α × α × α :=
  let B := -(H1 - H0) / (Q1 - Q0)
  (H0 + B * Q0, B, 1)

/-- 2-point curve as the pinned tree codes it: `B = -(H1 - H0)/(Q1² - Q0²)`, `A = H0 + B·Q0²`, `C = 1` -/
def fit2AsCoded (Q0 H0 Q1 H1 : α) : α × α × α :=
  let B := -(H1 - H0) / (Q1 * Q1 - Q0 * Q0)
  (H0 + B * (Q0 * Q0), B, 1)

/-- `get_pump_poly_coefficients(A, B, C, m)` (all its branches return the same tuple); `pw` is `**` -/
def pumpPoly (pw : α → α → α) (A B C q1 q2 slope : α) : α × α × α × α :=
  let f1 := slope * q1 + A
  let f2 := A - B * pw q2 C
  let df1 := slope
  let df2 := -B * C * pw q2 (C - 1)
  cubicSpline q1 q2 f1 f2 df1 df2

/-- `get_pump_line_params(A, B, C, m)` -/
def pumpLine (pw : α → α → α) (A B C slope : α) : α × α :=
  let qbar := pw (slope / (-B * C)) (1 / (C - 1))
  (qbar, A - B * pw qbar C)

end arith

/-! ### what `store_results_in_network` copies back (per node) -/

def sumRat (l : List Rat) : Rat := l.foldl (· + ·) 0

/-- tank: `sum(flow INLET) - sum(flow OUTLET) - leak_demand` with `leak_demand = leak_rate if leak_status else 0` -/
def tankDemand (ins outs : List Rat) (leakStatus : Bool) (leakRate : Rat) : Rat :=
  sumRat ins - sumRat outs - (if leakStatus then leakRate else 0)

/-- reservoir: `sum(flow INLET) - sum(flow OUTLET)` -/
def reservoirDemand (ins outs : List Rat) : Rat := sumRat ins - sumRat outs

/-- non-isolated junction: `(node._demand, node._leak_demand)` —
`m.demand[name].value if mode in ['PDD','PDA'] else m.expected_demand[name].value`,
`m.leak_rate[name].value if node.leak_status else 0` -/
def junctionStored {α : Type} (pdd : Bool) (demandVar expected : α) (leakStatus : Bool) (leakRate zero : α) : α × α :=
  ((if pdd then demandVar else expected), (if leakStatus then leakRate else zero))

def absRat (x : Rat) : Rat := if x < 0 then -x else x

/-- oracle: `|Σin − Σout − demand − leak| ≤ tol + slack·Σ|q|` -/
def nodeBalanceOk (tol slack : Rat) (ins outs : List Rat) (demand leak : Rat) : Bool :=
  let scale := sumRat (ins.map absRat) + sumRat (outs.map absRat) + absRat demand + absRat leak
  decide (absRat (sumRat ins - sumRat outs - demand - leak) ≤ tol + slack * scale)

def nodeBalanceResidual (ins outs : List Rat) (demand leak : Rat) : Rat :=
  sumRat ins - sumRat outs - demand - leak

/-- oracle: the parametric row of the link's kind and REPORTED status, evaluated (in `Float`) at the reported flow, heads,
setting, is within `tol`; returns the residual too -/
def linkLawResidual (hw : HWConsts) (pc : PumpConsts) (lit : RowLits) (s : LinkSpec) (env : Env Float) : Float :=
  eval floatOps env (linkRow hw pc lit s)

def linkLawOk (tol : Float) (hw : HWConsts) (pc : PumpConsts) (lit : RowLits) (s : LinkSpec) (env : Env Float) : Bool :=
  let r := linkLawResidual hw pc lit s env
  r.abs <= tol

/-- oracle: no reverse flow beyond the flow tolerance (pumps, check-valve pipes) -/
def noReverseOk (Qtol q : Rat) : Bool := decide (-Qtol ≤ q)

/-! ### the requested demand (`Pattern.at`, `TimeSeries.at`, `Demands.at` are M2, `Model/Pattern.lean`) -/

/-- the value `expected_demand_param` puts into the model and (DD) `store_results_in_network` reports:
`demand_timeseries_list.at(sim_time + pattern_start, multiplier=demand_multiplier)` -/
def expectedDemand (l : List Wntr.Pattern.TS) (patStep : Int) (interp : Bool) (patStart simTime : Int) (dm : Rat) : Rat :=
  Wntr.Pattern.demandsAt l patStep interp none dm (simTime + patStart)

/-! ### internal post-solve conditions (`controls.py`) -/

/-- `_CloseCVCondition.evaluate` -/
def closeCV (Htol Qtol hs he q : Rat) : Bool :=
  let dh := hs - he
  if absRat dh > Htol then
    (if dh < -Htol then true else if q < -Qtol then true else false)
  else
    (if q < -Qtol then true else false)

/-- `_OpenCVCondition.evaluate` -/
def openCV (Htol Qtol hs he q : Rat) : Bool :=
  let dh := hs - he
  if absRat dh > Htol then
    (if dh < -Htol then false else if q < -Qtol then false else true)
  else false

/-- `_CloseHeadPumpCondition.evaluate` (speed 1.0) as the pinned tree codes it: no test on the flow -/
def closeHeadPumpAsCoded (Htol A hs he : Rat) : Bool := decide (he - hs > A + Htol)

/-- `_CloseHeadPumpCondition.evaluate`, REPAIRED (fixes/C02-head-pump-reverse-flow.patch): an open pump that runs backwards
holds its end head at the shut-off head, so the head test cannot see it; the repaired condition also closes on reverse flow -/
def closeHeadPump (Htol Qtol A hs he q : Rat) : Bool := decide (he - hs > A + Htol) || decide (q < -Qtol)

/-- `_OpenHeadPumpCondition.evaluate`, REPAIRED: a closed pump is opened only below its shut-off head -/
def openHeadPump (A hs he : Rat) : Bool := decide (he - hs ≤ A)

/-- `_ClosePowerPumpCondition.evaluate` as the pinned tree codes it: `Hmax = 1e10`, no test on the flow -/
def closePowerPump (Htol Hmax hs he : Rat) : Bool := decide (he - hs > Hmax + Htol)

/-- `_OpenPowerPumpCondition.evaluate` as coded: always true below `Hmax` -/
def openPowerPump (Htol Hmax hs he : Rat) : Bool := decide (he - hs ≤ Hmax + Htol)

/-- PROPOSED repair (fixes/C02-power-pump-reverse-flow.patch): close on reported reverse flow as well -/
def closePowerPumpRepaired (Htol Qtol Hmax hs he q : Rat) : Bool :=
  decide (he - hs > Hmax + Htol) || decide (q < -Qtol)

/-- PROPOSED repair: a closed power pump is (re)opened only where it has to add head -/
def openPowerPumpRepaired (Htol Hmax hs he : Rat) : Bool :=
  decide (Htol < he - hs) && decide (he - hs ≤ Hmax + Htol)

/-- status of a CV pipe / pump after one post-solve pass: the close control has priority `very_high` and
runs last, the open control `very_low`; `status = Closed if _internal_status == Closed else _user_status` -/
def postsolveInternal (close open_ : Bool) (internal : Status) : Status :=
  if close then .closed else if open_ then .opened else internal

/-! ### the model updater (`wntr/sim/models/utils.py`, `hydraulics.update_model_for_controls`)

`ModelUpdater.update(m, wn, obj, attr)` calls every function registered with `updater.add(obj, attr, Definition.update)`;
`Definition.update` rebuilds (`build(..., index_over=[obj.name])`) the rows / parameters of that one element from its CURRENT
attributes.  `update_model_for_controls` does so for every `(obj, attr)` the change tracker reports as changed since the last
`reset_reference_point('model')`; `update_model_for_isolated_junctions_and_links` for every element whose `_is_isolated` flipped. -/

/-- the attributes the row SHAPE of a link depends on, with the Definition class that builds the row -/
def rowDeps (kind : LinkKind) (approx : Approx) : List (String × String) :=
  let cls := match kind with
    | .pipe => (match approx with
        | .default => "approx_hazen_williams_headloss_constraint"
        | .piecewise => "piecewise_hazen_williams_headloss_constraint")
    | .headPump => "head_pump_headloss_constraint"
    | .powerPump => "power_pump_headloss_constraint"
    | .prv => "prv_headloss_constraint"
    | .psv => "psv_headloss_constraint"
    | .fcv => "fcv_headloss_constraint"
    | .tcv => "tcv_headloss_constraint"
  [("status", cls), ("_is_isolated", cls)] ++ (if kind = .headPump then [("pump_curve_name", cls)] else [])

/-- the attributes the PARAMETERS a link row mentions are computed from, with the Definition class of the parameter -/
def paramDeps (kind : LinkKind) : List (String × String) :=
  match kind with
  | .pipe => [("roughness", "hw_resistance_param"), ("diameter", "hw_resistance_param"), ("length", "hw_resistance_param"),
              ("minor_loss", "minor_loss_param"), ("diameter", "minor_loss_param")]
  | .headPump => []
  | .powerPump => [("power", "pump_power_param")]
  | .tcv => [("setting", "valve_setting_param"), ("setting", "tcv_resistance_param"), ("diameter", "tcv_resistance_param"),
             ("minor_loss", "minor_loss_param"), ("diameter", "minor_loss_param")]
  | _ => [("setting", "valve_setting_param"), ("minor_loss", "minor_loss_param"), ("diameter", "minor_loss_param")]

/-- the CURRENT link attributes each parameter is a function of (documented formulas: `k(C, d, L)`, `8K/(gπ²d⁴)` with K the
minor-loss coefficient resp. the TCV's current setting, the pump's power, the valve's current setting) -/
def paramAttrs : String → List String
  | "hw_resistance_param" => ["diameter", "length", "roughness"]
  | "minor_loss_param" => ["diameter", "minor_loss"]
  | "tcv_resistance_param" => ["diameter", "setting"]
  | "pump_power_param" => ["power"]
  | "valve_setting_param" => ["setting"]
  | _ => []

/-- what a junction's mass-balance row depends on -/
def balanceDeps (pdd : Bool) : List (String × String) :=
  let cls := if pdd then "pdd_mass_balance_constraint" else "mass_balance_constraint"
  [("leak_status", cls), ("_is_isolated", cls)]

def subsetB (a b : List (String × String)) : Bool := a.all (fun x => b.contains x)

/-- what determines the shape of one link's row -/
structure ShapeKey where
  status : Status
  isolated : Bool
  curve : Nat          -- identity of the pump curve (`pump_curve_name`)
  deriving Repr, DecidableEq, Inhabited

/-- attributes in which two shape keys differ (what the change tracker / the isolation diff reports) -/
def changedAttrs (old cur : ShapeKey) : List String :=
  (if old.status = cur.status then [] else ["status"]) ++ (if old.isolated = cur.isolated then [] else ["_is_isolated"]) ++
  (if old.curve = cur.curve then [] else ["pump_curve_name"])

/-- `update_model_for_controls` + `update_model_for_isolated_junctions_and_links` for one link: the row stays the one built for
`built` unless a changed attribute is registered for the row's Definition class, in which case it is rebuilt for `cur` -/
def updateRow (regs : List (String × String)) (cls : String) (built cur : ShapeKey) : ShapeKey :=
  if (changedAttrs built cur).any (fun a => regs.contains (a, cls)) then cur else built

/-! ### `ControlChangeTracker` (wntr/network/controls.py) for one `(obj, attr)` target and one reference point

`set_reference_point(key)` stores `getattr(obj, attr)`; every control action that targets `(obj, attr)` — `ControlAction` writes the
attribute, `_InternalControlAction` writes the private attribute behind the property — calls `notify()`, and
`ControlChangeTracker.update` then compares the CURRENT `getattr(obj, attr)` with the stored value: equal → `discard`, else → `add`.
`reset_reference_point(key)` stores the current value again and empties the changed set. -/

structure Tracked (V : Type) where
  prev : V          -- `_previous_values[key][(obj, attr)]`
  cur : V           -- `getattr(obj, attr)` now
  changed : Bool    -- `(obj, attr) in _changed[key]`
  deriving Repr

inductive TrackOp (V : Type) where
  | fire (v : V)    -- a control action on the target ran; afterwards the property reads `v`
  | reset           -- `reset_reference_point(key)`

def Tracked.start {V : Type} (v : V) : Tracked V := { prev := v, cur := v, changed := false }

def Tracked.step {V : Type} [DecidableEq V] (s : Tracked V) : TrackOp V → Tracked V
  | .fire v => { s with cur := v, changed := decide (v ≠ s.prev) }
  | .reset => { prev := s.cur, cur := s.cur, changed := false }

def Tracked.run {V : Type} [DecidableEq V] (s : Tracked V) : List (TrackOp V) → Tracked V
  | [] => s
  | op :: rest => (s.step op).run rest

/-- `update_model_for_controls` for one target whose row / parameter was last built for `built`:
`for obj, attr in get_changes('model'): model_updater.update(...)` (rebuilds iff a function is registered), then
`reset_reference_point('model')` -/
def modelUpdate {V : Type} [DecidableEq V] (registered : Bool) (t : Tracked V) (built : V) : Tracked V × V :=
  (t.step .reset, if t.changed && registered then t.cur else built)

/-- one trial of the simulator loop for that target: the control actions of the round fire, then the model is updated -/
def trialRound {V : Type} [DecidableEq V] (registered : Bool) (st : Tracked V × V) (fires : List V) : Tracked V × V :=
  modelUpdate registered (st.1.run (fires.map .fire)) st.2

def trialRounds {V : Type} [DecidableEq V] (registered : Bool) (st : Tracked V × V) : List (List V) → Tracked V × V
  | [] => st
  | r :: rest => trialRounds registered (trialRound registered st r) rest

/-- the re-solve decision of `run_sim` after `_run_postsolve_controls()` / `_run_feasibility_controls()`:
`if self._change_tracker.changes_made(ref_point=<key>)` — true iff some target FOLLOWED by that reference point (all registered
targets, unless `set_reference_point` was given an `attrs` filter) is in its changed set.  A target is `(attribute name, state)`. -/
def needResolve {V : Type} (filter : Option (List String)) (targets : List (String × Tracked V)) : Bool :=
  targets.any fun t => (match filter with | none => true | some f => f.contains t.1) && t.2.changed

/-! ### the coefficient memo of `HeadPump.get_head_curve_coefficients`

`if self._curve_coeffs is None or curve.points != self._coeffs_curve_points: calculate_coefficients(curve)`, and
`calculate_coefficients` stores `self._coeffs_curve_points = <key>`.  Python lists are OBJECTS: the model keeps a heap of point lists;
the curve holds the id of its `_points`; the memo key is either a copy (a value) or a reference (an id, read through the heap when it is
compared).  The `points` setter either rebinds `_points` to a new list or overwrites the old one in place. -/

abbrev Pts := List (Rat × Rat)

structure CurveHeap where
  objs : List Pts
  cur : Nat            -- id of the curve's `_points`
  deriving Repr

inductive MemoKey where
  | ref (id : Nat)
  | copy (v : Pts)
  deriving Repr

def CurveHeap.get (h : CurveHeap) (i : Nat) : Pts := h.objs.getD i []

/-- `curve.points = new` -/
def CurveHeap.setPoints (rebinds : Bool) (h : CurveHeap) (new : Pts) : CurveHeap :=
  if rebinds then { objs := h.objs ++ [new], cur := h.objs.length } else { objs := h.objs.set h.cur new, cur := h.cur }

/-- `self._coeffs_curve_points = …` -/
def CurveHeap.storeKey (isCopy : Bool) (h : CurveHeap) : MemoKey := if isCopy then .copy (h.get h.cur) else .ref h.cur

/-- `curve.points == self._coeffs_curve_points` (the memo is used) -/
def CurveHeap.memoHit (h : CurveHeap) : MemoKey → Bool
  | .copy v => decide (h.get h.cur = v)
  | .ref i => decide (h.get h.cur = h.get i)

/-! ### the DOCUMENTED constants (reference for the oracles; `Props/C02.lean` proves the generated constants equal them)

Hazen-Williams in SI units: `h = 10.667·C^(−1.852)·d^(−4.871)·L·q^1.852` (WNTR / EPANET documentation), minor loss
`8K/(g·π²·d⁴)·q²`, smoothing break points `2e-4 / 4e-4 m³/s`, `m = 0.001`; pump smoothing `q2 = 1e-8`, slope `−1e-11`;
EPANET status tolerances `Htol = 0.0005 ft`, `Qtol = 0.0001 cfs`; each number is the IEEE double of the literal. -/

def refF2 : Rat := (4810661371122883 : Rat) / 9444732965739290427392    -- 0.0004 ** 1.852
def refDf2 : Rat := (679729069467131 : Rat) / 288230376151711744        -- 1.852 * 0.0004 ** 0.852

def refHW : HWConsts :=
  let q1 : Rat := (7378697629483821 : Rat) / 36893488147419103232
  let q2 : Rat := (7378697629483821 : Rat) / 18446744073709551616
  let m : Rat := (1152921504606847 : Rat) / 1152921504606846976
  let sp := cubicSpline q1 q2 (m * q1) refF2 m refDf2
  { hwK := (6004891170198541 : Rat) / 562949953421312, hwExp := (8340666509890159 : Rat) / 4503599627370496,
    minorExp := 2, q1 := q1, q2 := q2, m := m, a := sp.1, b := sp.2.1, c := sp.2.2.1, d := sp.2.2.2 }

def refPC : PumpConsts :=
  { q1 := 0, q2 := (3022314549036573 : Rat) / 302231454903657293676544,
    slope := (-6189700196426901 : Rat) / 618970019642690137449562112 }

def refLit : RowLits := { eps := (5902958103587057 : Rat) / 590295810358705651712, half := 1 / 2, gammaW := 9810 }

def refHtol : Rat := (5622567593666671 : Rat) / 36893488147419103232      -- 0.0001524 m
def refQtol : Rat := (3343057680553079 : Rat) / 1180591620717411303424    -- 2.83168e-6 m³/s
def refHwE2 : Rat := (-2742129223115211 : Rat) / 562949953421312           -- −4.871
def refGpi2 : Rat := (6813159455575387 : Rat) / 70368744177664             -- 9.81·π²

/-- `k = 10.667·C^−1.852·d^−4.871·L` -/
def refHwResistance : Expr := hwResistanceExpr refHW.hwK (-refHW.hwExp) refHwE2
/-- `8K/(g·π²·d⁴)` -/
def refLossCoeff : Expr := lossCoeffExpr 8 refGpi2 4

/-! ### the zoo tables the translator emits (`Gen/RowsC01.lean`, `Gen/RowsC02.lean`) and their checkers -/

/-- one link object of the zoo: `(name, start_node_name, end_node_name)` -/
structure ZLink where
  name : String
  start : String
  stop : String
  deriving Repr, DecidableEq, Inhabited

/-- one generated mass-balance row -/
structure ZBalRow where
  junction : String
  leakStatus : Bool
  expr : Expr
  deriving Repr, Inhabited

/-- one generated link row with what the link object says about itself -/
structure ZLinkRow where
  name : String
  kind : LinkKind
  status : Status
  isolated : Bool
  start : String
  stop : String
  startIsJunction : Bool
  stopIsJunction : Bool
  pump : PumpCoef
  expr : Expr
  deriving Repr, Inhabited

/-- `a < b` on `Rat` as a Bool (core instance; used by the coverage theorems) -/
def ratLt (a b : Rat) : Bool := decide (a < b)

/-- index of a leaf name, `none` when the model has no such leaf -/
def leafIdx (names : List String) (n : String) : Option Nat :=
  let i := names.idxOf n
  if i < names.length then some i else none

def flowName (l : String) : String := "flow[" ++ l ++ "]"

/-- flow-variable indices of the links whose END node is `j` (INLET), from the link table -/
def insOf (links : List ZLink) (vars : List String) (j : String) : List (Option Nat) :=
  (links.filter (fun l => l.stop == j)).map (fun l => leafIdx vars (flowName l.name))

/-- flow-variable indices of the links whose START node is `j` (OUTLET) -/
def outsOf (links : List ZLink) (vars : List String) (j : String) : List (Option Nat) :=
  (links.filter (fun l => l.start == j)).map (fun l => leafIdx vars (flowName l.name))

def allSome : List (Option Nat) → Option (List Nat)
  | [] => some []
  | none :: _ => none
  | some x :: t => (allSome t).map (x :: ·)

/-- the incidence of junction `j` read off the link table: `(demand leaf, INLET flows, OUTLET flows, leak leaf)` -/
def zooIncidence (links : List ZLink) (vars params : List String) (pdd : Bool) (r : ZBalRow) :
    Option ((Bool × Nat) × List Nat × List Nat × Option Nat) :=
  let d : Option (Bool × Nat) :=
    if pdd then (leafIdx vars ("demand[" ++ r.junction ++ "]")).map (fun i => (false, i))
    else (leafIdx params ("expected_demand[" ++ r.junction ++ "]")).map (fun i => (true, i))
  let leak : Option (Option Nat) :=
    if r.leakStatus then (leafIdx vars ("leak_rate[" ++ r.junction ++ "]")).map some else some none
  match d, allSome (insOf links vars r.junction), allSome (outsOf links vars r.junction), leak with
  | some d, some ins, some outs, some leak => some (d, ins, outs, leak)
  | _, _, _, _ => none

/-! #### what `store_results_in_network` stores (Gen/StoreC01.lean: symbolic execution of the real function) -/

inductive NodeKind where
  | junction | tank | reservoir
  deriving Repr, DecidableEq, Inhabited

/-- one node after `store_results_in_network` ran on symbolic model values: `_demand`, `_leak_demand` as expressions over the
model's leaves (all leaves are `param i`, named by the table's `leafNames`) -/
structure ZStored where
  node : String
  kind : NodeKind
  leakStatus : Bool
  isolated : Bool
  demand : Expr
  leakDemand : Expr
  deriving Repr, Inhabited

def pLeaf (names : List String) (n : String) : Option Expr := (leafIdx names n).map .param

/-- signed leaves `+ flow[l]` (l ends in the node) `− flow[l]` (l starts in the node) over the NON-isolated links (an isolated link's
stored flow is the constant 0), `− leak_rate[node]` iff `leak` -/
def netInflowTerms (links : List ZLink) (iso : List String) (names : List String) (node : String) (leak : Bool) :
    Option (List (Bool × Nat × Bool)) :=
  let live := links.filter (fun l => !iso.contains l.name)
  let ins := (live.filter (fun l => l.stop == node)).map (fun l => leafIdx names (flowName l.name))
  let outs := (live.filter (fun l => l.start == node)).map (fun l => leafIdx names (flowName l.name))
  let lk : List (Option Nat) := if leak then [leafIdx names ("leak_rate[" ++ node ++ "]")] else []
  match allSome ins, allSome outs, allSome lk with
  | some i, some o, some k => some (i.map (fun x => (true, x, false)) ++ o.map (fun x => (true, x, true)) ++ k.map (fun x => (true, x, true)))
  | _, _, _ => none

def permOpt (a b : Option (List (Bool × Nat × Bool))) : Bool :=
  match a, b with
  | some l, some e => l.isPerm e
  | _, _ => false

/-- the documented content of `store_results_in_network` for one node -/
def storedOk (links : List ZLink) (iso : List String) (names : List String) (pdd : Bool) (r : ZStored) : Bool :=
  let leakExpected : Option Expr :=
    if r.kind = .reservoir || r.isolated || !r.leakStatus then some (.const 0) else pLeaf names ("leak_rate[" ++ r.node ++ "]")
  (some r.leakDemand == leakExpected) &&
  (match r.kind with
   | .junction =>
     if r.isolated then r.demand == .const 0
     else some r.demand == pLeaf names ((if pdd then "demand[" else "expected_demand[") ++ r.node ++ "]")
   | _ => permOpt (linTerms r.demand false) (netInflowTerms links iso names r.node (r.kind = .tank && r.leakStatus)))

/-- stored link flow: the model's flow variable, 0 for an isolated link -/
def flowStoredOk (iso : List String) (names : List String) (f : String × Expr) : Bool :=
  if iso.contains f.1 then f.2 == .const 0 else some f.2 == pLeaf names (flowName f.1)

/-- the generated row has exactly the signed leaves `+D − Σ INLET + Σ OUTLET (+ leak iff leak_status)` of the
zoo's link table, in any order -/
def balRowOk (links : List ZLink) (vars params : List String) (pdd : Bool) (r : ZBalRow) : Bool :=
  match zooIncidence links vars params pdd r, linTerms r.expr false with
  | some (d, ins, outs, leak), some l => l.isPerm (balanceTerms d ins outs leak)
  | _, _ => false

/-- head leaf of a node: `m.head[n]` for a junction, `m.source_head[n]` for a tank / reservoir -/
def headLeaf (vars params : List String) (n : String) (isJunction : Bool) : Option Expr :=
  if isJunction then (leafIdx vars ("head[" ++ n ++ "]")).map .var
  else (leafIdx params ("source_head[" ++ n ++ "]")).map .param

/-- a parameter leaf when the model has it, a marker that matches nothing otherwise -/
def paramLeaf (params : List String) (n : String) : Expr :=
  match leafIdx params n with
  | some i => .param i
  | none => .const (-1)

/-- the `LinkSpec` of a zoo row, leaves looked up BY NAME from what the link object says (start / end node names) -/
def zooSpec (vars params : List String) (approx : Approx) (r : ZLinkRow) : Option LinkSpec :=
  -- a row mentions only some of its link's leaves (an active PRV row has no flow, a closed row no head): a leaf the
  -- model does not have becomes a marker that equals no generated leaf, so it only matters where the row needs it
  let f : Expr := ((leafIdx vars (flowName r.name)).map Expr.var).getD (.const (-1))
  let hs := (headLeaf vars params r.start r.startIsJunction).getD (.const (-1))
  let he := (headLeaf vars params r.stop r.stopIsJunction).getD (.const (-1))
  some { kind := r.kind, status := r.status, isolated := r.isolated, approx := approx,
         leaves := { f := f, hs := hs, he := he,
                     k := paramLeaf params ("hw_resistance[" ++ r.name ++ "]"),
                     mkl := paramLeaf params ("minor_loss[" ++ r.name ++ "]"),
                     setting := paramLeaf params ("valve_setting[" ++ r.name ++ "]"),
                     elevS := paramLeaf params ("elevation[" ++ r.start ++ "]"),
                     elevE := paramLeaf params ("elevation[" ++ r.stop ++ "]"),
                     tcvR := paramLeaf params ("tcv_resistance[" ++ r.name ++ "]"),
                     power := paramLeaf params ("pump_power[" ++ r.name ++ "]") },
         pump := r.pump }

/-! ### semantic comparison of rows: polynomial normal form over opaque atoms

A row is a polynomial (with `Rat` coefficients) in ATOMS: leaves and every sub-expression that is not `+ − * neg`, a constant or
a power with exponent 1, 2, 3 (so `abs(f)**1.852`, `sign(f)`, `k**0.5`, quotients … stay opaque and are compared syntactically).
A monomial is the list of its atoms with repetition (`x²` is `[x, x]`), compared up to permutation; two rows are equivalent
when the difference of their polynomials cancels monomial by monomial.  Conditional rows are compared branch by branch
(conditions: same bounds, equivalent bodies).  Soundness (`rowEquiv a b = true → ∀ env, eval a = eval b` over ℝ) is
`Lemmas/LinkRowsNorm.lean`. -/

abbrev Mono := List Expr
abbrev Poly := List (Mono × Rat)

def Poly.neg (p : Poly) : Poly := p.map fun x => (x.1, -x.2)
def Poly.mul (p q : Poly) : Poly := p.flatMap fun x => q.map fun y => (x.1 ++ y.1, x.2 * y.2)

/-- exponents the evaluator's `pow` shares with repeated multiplication -/
def smallPow : Expr → Option Nat
  | .const q => if q = 1 then some 1 else if q = 2 then some 2 else if q = 3 then some 3 else none
  | _ => none

def toPoly : Expr → Poly
  | .var i => [([.var i], 1)]
  | .param i => [([.param i], 1)]
  | .const q => [([], q)]
  | .bin op a b =>
    (match op with
     | .add => toPoly a ++ toPoly b
     | .sub => toPoly a ++ Poly.neg (toPoly b)
     | .mul => Poly.mul (toPoly a) (toPoly b)
     | .div => [([.bin .div a b], 1)]
     | .pow =>
       (match smallPow b with
        | some 1 => toPoly a
        | some 2 => Poly.mul (toPoly a) (toPoly a)
        | some 3 => Poly.mul (toPoly a) (Poly.mul (toPoly a) (toPoly a))
        | _ => [([.bin .pow a b], 1)]))
  | .un op a =>
    (match op with
     | .neg => Poly.neg (toPoly a)
     | _ => [([.un op a], 1)])
  | .ifElse c t e => [([.ifElse c t e], 1)]
  | .ineq b lb ub => [([.ineq b lb ub], 1)]

def sumC : List Rat → Rat
  | [] => 0
  | x :: t => x + sumC t

/-- the polynomial is identically zero: repeatedly take the first monomial, add up the coefficients of all monomials equal to it
up to permutation, require 0, continue with the rest (`fuel` ≥ length) -/
def cancels : Nat → Poly → Bool
  | _, [] => true
  | 0, _ :: _ => false
  | n + 1, x :: rest =>
    let same := rest.filter (fun y => y.1.isPerm x.1)
    let others := rest.filter (fun y => !y.1.isPerm x.1)
    decide (x.2 + sumC (same.map (·.2)) = 0) && cancels n others

def polyEquiv (a b : Expr) : Bool :=
  let p := toPoly a ++ Poly.neg (toPoly b)
  cancels p.length p

def condEquiv : Expr → Expr → Bool
  | .ineq b1 l1 u1, .ineq b2 l2 u2 => decide (l1 = l2) && decide (u1 = u2) && polyEquiv b1 b2
  | c1, c2 => decide (c1 = c2)

def rowEquiv : Expr → Expr → Bool
  | .ifElse c1 t1 e1, .ifElse c2 t2 e2 => condEquiv c1 c2 && rowEquiv t1 t2 && rowEquiv e1 e2
  | a, b => polyEquiv a b

/-- the generated row is EQUIVALENT (as a polynomial over opaque atoms, branch by branch) to the parametric row -/
def linkRowOkSem (hw : HWConsts) (pc : PumpConsts) (lit : RowLits) (vars params : List String) (approx : Approx) (r : ZLinkRow) : Bool :=
  match zooSpec vars params approx r with
  | some s => rowEquiv r.expr (linkRow hw pc lit s)
  | none => false

/-- the generated row IS the parametric row of the link's kind / status / end nodes -/
def linkRowOk (hw : HWConsts) (pc : PumpConsts) (lit : RowLits) (vars params : List String) (approx : Approx) (r : ZLinkRow) : Bool :=
  match zooSpec vars params approx r with
  | some s => decide (r.expr = linkRow hw pc lit s)
  | none => false

end Wntr.LinkRows
