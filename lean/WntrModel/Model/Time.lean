/-
M4 `Time` — time conditions of `wntr/network/controls.py` over integer seconds.

`evalSimTime` / `evalTod` transliterate `SimTimeCondition.evaluate` / `TimeOfDayCondition.evaluate`
(as repaired by the `fix:` commits recorded in known_findings.json); the result is the pair
(condition value, `_backtrack`) (`Option` kept for the `None` backtrack older code produced).
Lean's `/` and `%` on `Int` are floor division / non-negative remainder for positive divisors,
i.e. Python's `//` and `%` for the divisors used here (86400, the repeat period, the time steps).
`parseClock`, `secToClock`, `secToHms` model `_parse_value` (clock strings), `_sec_to_clock`,
`_sec_to_hours_min_sec`.  Import-free.
-/
namespace Wntr.Time

inductive Rel where
  | gt | ge | lt | le | eq | ne
  deriving Repr, DecidableEq, Inhabited

/-- `SimTimeCondition`: `rep = 0` means no repeat, `repeat=True` is 86400 -/
structure SimTimeCond where
  rel : Rel
  thr : Int
  rep : Int
  deriving Repr, DecidableEq, Inhabited

/-- the threshold the comparisons use: the most recent occurrence `thr + k*rep ≤ cur` when repeating -/
def effThr (thr rep cur : Int) : Int :=
  if rep > 0 ∧ cur > thr then thr + rep * ((cur - thr) / rep) else thr

/-- the comparisons of `SimTimeCondition.evaluate` against the effective threshold `t` -/
def simTimeCmp (rel : Rel) (t prev cur : Int) : Bool × Option Int :=
  match rel with
  | .eq => if prev < t ∧ t ≤ cur then (true, some (cur - t)) else (false, some 0)
  | .gt => if cur > t then (true, some 0) else (false, some 0)
  | .ge =>
    if cur ≥ t ∧ prev < t then (true, some (cur - t))
    else if cur ≥ t ∧ prev ≥ t then (true, some 0)
    else (false, some 0)
  | .lt => if cur < t then (true, some 0) else (false, some 0)
  | .le =>
    if cur ≤ t then (true, some 0)
    else if prev < t then (true, some (cur - t))
    else (false, some 0)
  | .ne => (false, some 0)

def evalSimTime (c : SimTimeCond) (prev cur : Int) : Bool × Option Int :=
  simTimeCmp c.rel (effThr c.thr c.rep cur) prev cur

/-- `TimeOfDayCondition`; times passed in are the SHIFTED times (`sim_time + start_clocktime`) -/
structure TodCond where
  rel : Rel
  thr : Int
  rep : Bool
  firstDay : Int
  deriving Repr, DecidableEq, Inhabited

def TodCond.last (c : TodCond) (cur : Int) : Int :=
  if c.rep then c.thr + 86400 * ((cur - c.thr) / 86400) else c.thr + c.firstDay * 86400

def evalTod (c : TodCond) (prev cur : Int) : Bool × Option Int :=
  let day := cur / 86400
  if day < c.firstDay then (false, some 0) else
  let midnight := day * 86400
  let last := c.last cur
  let after : Bool := if c.rep then decide (last ≥ midnight) else decide (cur ≥ last)
  let reached : Bool := if c.rep then decide (last ≥ c.firstDay * 86400) else true
  let crossed : Bool := reached && decide (prev < last) && decide (last ≤ cur)
  match c.rel with
  | .eq => if crossed then (true, some (cur - last)) else (false, some 0)
  | .gt | .ge => (after && reached, some (if crossed then cur - last else 0))
  | .lt | .le =>
    if crossed then (false, some (cur - last))
    else if after then (false, some 0)
    else if c.rep ∧ prev < midnight then (true, some (cur - midnight))
    else (true, some 0)
  | .ne => (false, some 0)

/-- the constructor's adjustment: a one-shot clock condition whose time of day is already past at the
start of the simulation is moved to the next day -/
def TodCond.mk' (rel : Rel) (thr : Int) (rep : Bool) (firstDay startClock : Int) : TodCond :=
  { rel, thr, rep, firstDay := if !rep ∧ thr < startClock ∧ firstDay < 1 then 1 else firstDay }

/-! ### clock strings -/

/-- `_parse_value` on `"h:m:s AM|PM"` given as numbers; `ampm`: 0 none, 1 AM, 2 PM -/
def parseClock (h m s : Int) (ampm : Nat) : Int :=
  let v := s + m * 60 + h * 3600
  let v := if (ampm = 1 ∨ ampm = 2) ∧ h = 12 then v - 12 * 3600 else v
  if h ≤ 12 ∧ ampm = 2 then v + 43200 else v

/-- `_sec_to_clock`: (hours shown, minutes, seconds, isPM) -/
def secToClock (sec : Int) : Int × Int × Int × Bool :=
  let hours := sec / 3600
  let r := sec - hours * 3600
  let mm := r / 60
  let ss := r - mm * 60
  if hours ≥ 12 then (if hours > 12 then hours - 12 else hours, mm, ss, true)
  else if hours = 0 then (12, mm, ss, false)
  else (hours, mm, ss, false)

/-- `_sec_to_hours_min_sec` -/
def secToHms (sec : Int) : Int × Int × Int :=
  let hours := sec / 3600
  let r := sec - hours * 3600
  let mm := r / 60
  (hours, mm, r - mm * 60)

end Wntr.Time
