/-
M10 `Metrics` — the documented formulas of wntr.metrics (hydraulic.py, misc.py, economic.py) as
definitions over `Rat`, used (a) as the subject of the theorems in Props/C20.lean and (b) as the
oracle the MetricsDriver evaluates on the same inputs as the pandas implementation.

`expected_demand` / `average_expected_demand` and `_gcd/_lcm/_lcml` are transliterations of the
REPAIRED code (fixes/C20-gcd-period.patch, fixes/C20-expected-demand-pattern-start.patch); the
pinned, defective variants are kept in Props/C20.lean next to their counterexamples.
A division whose divisor is zero is `none` (pandas gives ±inf / NaN there).
-/
import WntrModel.Model.Pattern
namespace Wntr.Metrics
open Wntr.Pattern

/-- `Σ_{k<N} f k` (the order pandas/numpy add in is irrelevant over `Rat`) -/
def sumTo : Nat → (Nat → Rat) → Rat
  | 0, _ => 0
  | n + 1, f => sumTo n f + f n

def lsum (l : List Rat) : Rat := l.foldl (· + ·) 0

def divz (a b : Rat) : Option Rat := if b = 0 then none else some (a / b)

/-! ### `_gcd`, `_lcm`, `_lcml` (repaired: `return x` after the loop, integer division) -/

/-- ```
def _gcd(x,y):
  while y:
    if y<0: x,y=-x,-y
    x,y=y,x % y
  return x
```  `fuel` bounds the loop; `pyGcd` supplies `|y|+1`, which suffices (`Props/C20: gcdLoop_fuel`). -/
def gcdLoop : Nat → Int → Int → Int
  | 0, x, _ => x
  | fuel + 1, x, y =>
    if y = 0 then x
    else
      let x' := if y < 0 then -x else x
      let y' := if y < 0 then -y else y
      gcdLoop fuel y' (x' % y')

def pyGcd (x y : Int) : Int := gcdLoop (y.natAbs + 1) x y

/-- `x*y // _gcd(x,y)` -/
def pyLcm (x y : Int) : Int := x * y / pyGcd x y

/-- `reduce(_lcm, L)` for `L = [24*3600] + [...]` -/
def lcml (first : Int) (rest : List Int) : Int := rest.foldl pyLcm first

/-! ### expected demand -/

/-- what the demand metrics read from a `WaterNetworkModel` -/
structure DemandNet where
  step : Int                 -- options.time.pattern_timestep (≥ 1)
  interp : Bool              -- options.time.pattern_interpolation
  patternStart : Int         -- options.time.pattern_start
  dm : Rat                   -- options.hydraulic.demand_multiplier
  patLens : List Nat         -- len(pattern.multipliers) of every registered pattern, `wn.patterns()` order
  deriving Repr

/-- one entry of `expected_demand(wn, …)[junction][ts]` (repaired: the pattern clock starts at `pattern_start`) -/
def expectedDemand (net : DemandNet) (cat : Option String) (demands : List TS) (ts : Int) : Rat :=
  demandsAt demands net.step net.interp cat net.dm (ts + net.patternStart)

/-- what WNTRSimulator sets as the junction's expected demand at `sim_time` (wntr/sim/models/param.py) -/
def simDemand (net : DemandNet) (demands : List TS) (simTime : Int) : Rat :=
  demandsAt demands net.step net.interp none net.dm (simTime + net.patternStart)

/-- `L[1:]` of `average_expected_demand` (repaired: patterns without multipliers are constant and skipped) -/
def patPeriods (net : DemandNet) : List Int :=
  (net.patLens.filter (· ≠ 0)).map fun (n : Nat) => (n : Int) * net.step

/-- `lcm = int(_lcml(L))` -/
def period (net : DemandNet) : Int := lcml 86400 (patPeriods net)

/-- `len(np.arange(start, start + lcm, timestep))` -/
def nSamples (net : DemandNet) : Nat := ((period net + net.step - 1) / net.step).toNat

/-- `average_expected_demand(wn, category)[junction]`:
`expected_demand(wn, pattern_start, pattern_start + lcm - ts, ts).mean(axis=0)` -/
def avgExpectedDemand (net : DemandNet) (cat : Option String) (demands : List TS) : Option Rat :=
  let n := nSamples net
  divz (sumTo n fun k => expectedDemand net cat demands (net.patternStart + (k : Int) * net.step)) (n : Rat)

/-- round half to even (`pandas.Series.round`) -/
def roundHalfEven (x : Rat) : Int :=
  let f := x.floor
  let r := x - (f : Rat)
  if r < 1/2 then f else if r > 1/2 then f + 1 else if f % 2 = 0 then f else f + 1

/-- `population`: `round(average expected demand / R)`.
DOC misc.py:41-43 "Compute population per node, rounded to the nearest integer" /
`.. math:: pop=\dfrac{Average\ expected\ demand}{R}`; resilience.rst:323-325 "divides the average expected demand by
the average volume of water consumed per capita per day" -/
def population (avg R : Rat) : Option Int := (divz avg R).map roundHalfEven

/-- `population_impacted`: the population of the nodes (node-time pairs) where the comparison holds.
DOC misc.py:68-70 "Computes population impacted using comparison operators. For example, this can be used to find the
population impacted when demand < 90% expected."; resilience.rst:321-323 -/
def populationImpacted (mask : Bool) (pop : Rat) : Rat := if mask then pop else 0

/-! ### hydraulic metrics on one row (= one time) of the results tables -/

/-- DOC hydraulic.py:121 `.. math:: WSA = \dfrac{demand}{expected\_demand}`; :129-131 "If expected demand is 0 for a
particular junction, water service availability will be set to NaN for that junction." (`none` here);
resilience.rst:284 "the ratio of delivered demand to the expected demand".
CODE vs DOC: `demand.div(expected_demand)` gives NaN only for 0/0; a non-zero demand over a zero expected demand is
±inf (finding `water_service_availability-zero-expected-inf`, fixes/C20-wsa-zero-expected-nan.patch) -/
def wsa (demand expected : Rat) : Option Rat := divz demand expected

structure JRow where  -- junction: demand, head, pressure
  d : Rat
  h : Rat
  p : Rat
structure RRow where  -- reservoir: demand, head
  d : Rat
  h : Rat
structure PRow where  -- pump: flowrate, head at start node, head at end node
  q : Rat
  hs : Rat
  he : Rat

def rabs (x : Rat) : Rat := if x < 0 then -x else x

/-- Todini index  (Σ d·h − Σ d·(P* + z)) / (Σ_res −d·h + Σ_pumps q·|Δh| − Σ d·(P* + z)),  z = h − p.
DOC hydraulic.py:174-179 "Compute Todini index, equations from :cite:p:`todi00`. ... defines resilience at a specific
time as a measure of surplus power at each node and measures relative energy redundancy"; resilience.rst:288-291.
The cited equation (Todini 2000, eq. 10) is  I_r = Σ_i q_i (h_i − h_i*) / (Σ_k Q_k H_k + Σ_j P_j/γ − Σ_i q_i h_i*)
with h_i* = P* + elevation_i, Q_k H_k the power fed by reservoir k (its demand is negative: −d·h) and P_j/γ = q_j·|Δh_j|
the (non-negative) power of pump j.  No formula is printed in the WNTR documentation itself. -/
def todini (pstar : Rat) (js : List JRow) (rs : List RRow) (ps : List PRow) : Option Rat :=
  let pout := lsum (js.map fun j => j.d * j.h)
  let pexp := lsum (js.map fun j => j.d * (pstar + (j.h - j.p)))
  let pinRes := lsum (rs.map fun r => -r.d * r.h)
  let pinPump := lsum (ps.map fun p => p.q * rabs (p.he - p.hs))
  divz (pout - pexp) (pinRes + pinPump - pexp)

/-- modified resilience index per junction: ((p + z) − (P* + z)) / (P* + z).
DOC hydraulic.py:234-239 "Compute the modified resilience index, equations from :cite:p:`jasr08`. The modified resilience
index is the total surplus power available at demand junctions as a percentage of the total minimum required power at
demand junctions. The metric can be computed as a timeseries for each junction or as a system average timeseries.";
resilience.rst:294-296.  Jayaram & Srinivasan (2008): MRI = Σ_j q_j (h_j − h_j*) / Σ_j q_j h_j* (× 100).
DOC observation: "as a percentage" — the code (and this definition) return the FRACTION, not × 100. -/
def mriJunction (pstar p z : Rat) : Option Rat := divz ((p + z) - (pstar + z)) (pstar + z)

/-- system MRI over rows (demand, pressure, elevation) -/
def mriSystem (pstar : Rat) (rows : List (Rat × Rat × Rat)) : Option Rat :=
  let pout := lsum (rows.map fun (d, p, z) => d * (p + z))
  let pexp := lsum (rows.map fun (d, _, z) => d * (pstar + z))
  divz (pout - pexp) pexp

/-- `numpy.interp(x, xp, fp)` for increasing `xp` (clamped at both ends); `0` for an empty curve -/
def interp : List (Rat × Rat) → Rat → Rat
  | [], _ => 0
  | [(_, y)], _ => y
  | (x0, y0) :: (x1, y1) :: rest, x =>
    if x ≤ x0 then y0
    else if x < x1 then y0 + (y1 - y0) * (x - x0) / (x1 - x0)
    else interp ((x1, y1) :: rest) x

/-- last two points of a curve (for the continuation of the last segment) -/
def lastTwo : List (Rat × Rat) → Option ((Rat × Rat) × (Rat × Rat))
  | [] => none
  | [_] => none
  | [a, b] => some (a, b)
  | _ :: rest => lastTwo rest

/-- `wntr.network.elements._interp_extrapolate(x, xp, fp)`: `numpy.interp` plus the continuation of the first and of the
last segment beyond the end points (repaired `Tank.get_volume`, /repo 53f21792); one point or none: as `interp` -/
def interpX (pts : List (Rat × Rat)) (x : Rat) : Rat :=
  let y := interp pts x
  match pts with
  | (x0, y0) :: (x1, y1) :: _ =>
    let lo := (if x - x0 < 0 then x - x0 else 0) * (y1 - y0) / (x1 - x0)
    match lastTwo pts with
    | some ((xa, ya), (xb, yb)) => y + lo + (if x - xb > 0 then x - xb else 0) * (yb - ya) / (xb - xa)
    | none => y + lo
  | _ => y

inductive TankGeom where
  | cyl (diameter : Rat)
  | curve (pts : List (Rat × Rat))

/-- `Tank.get_volume(level)` with π kept as a parameter -/
def tankVolume (pi : Rat) (g : TankGeom) (level : Rat) : Rat :=
  match g with
  | .cyl d => pi / 4 * d ^ 2 * level
  | .curve pts => interpX pts level

/-- tank capacity = stored volume / volume at `max_level`.
DOC hydraulic.py:290-291 "Compute tank capacity, the ratio of water volume stored in tanks to the maximum volume of
water that can be stored."; resilience.rst:299-301 "... ranges between 0 and 1. A value of 1 indicates that tank
storage is maximized, while a value of 0 means there is no water stored in the tank." -/
def tankCapacity (pi : Rat) (g : TankGeom) (maxLevel level : Rat) : Option Rat :=
  divz (tankVolume pi g level) (tankVolume pi g maxLevel)

/-! ### pump power, energy, cost -/

def gAcc : Rat := 981 / 100
def rho : Rat := 1000

/-- power (W) = 1000 · 9.81 · Δh · q / (efficiency% / 100).
DOC economic.py:255-260 "The computation uses pump flow rate, node head (used to compute headloss at each pump), and
pump efficiency. Pump efficiency is defined in ``wn.options.energy.global_efficiency``. ...
wn.options.energy.global_efficiency = 75 # This means 75% or 0.75"; :278 "pump power in W"; resilience.rst:523-526.
No formula is printed; ρ·g·ΔH·Q/η is the hydraulic power the text describes (the "headloss" is the head GAIN). -/
def pumpPower (q hs he effPercent : Rat) : Option Rat :=
  divz (rho * gAcc * (he - hs) * q) (effPercent / 100)

/-- DOC economic.py:313 "Compute the pump energy over time." :338 "pump energy in J"; code comment `# J = Ws` -/
def pumpEnergy (power reportStep : Rat) : Rat := power * reportStep
/-- DOC economic.py:350-353 "Energy cost is defined in ``wn.options.energy.global_price``. Pump energy price and price
patterns are currently not supported. wn.options.energy.global_price = 3.61e-8  # $/J"; :367 "pump cost in $".
DOC observation: a pump's own `energy_price` IS used by the code when set (only price PATTERNS raise). -/
def pumpCost (energy price : Rat) : Rat := energy * price

/-! ### nearest-entry lookup and the annual totals -/

/-- first index of a minimal element, `numpy.argmin` -/
def argminFrom : List Rat → Nat → Nat → Rat → Nat
  | [], _, best, _ => best
  | x :: xs, i, best, bv => if x < bv then argminFrom xs (i + 1) i x else argminFrom xs (i + 1) best bv

def argmin : List Rat → Nat
  | [] => 0
  | x :: xs => argminFrom xs 1 0 x

/-- `np.argmin([np.abs(table.index - x)])` -/
def nearest (keys : List Rat) (x : Rat) : Nat := argmin (keys.map fun k => rabs (k - x))

/-- `table.iloc[nearest]` (0 for an empty table, where pandas raises) -/
def lookup (t : List (Rat × Rat)) (x : Rat) : Rat :=
  ((t.map Prod.snd).getD (nearest (t.map Prod.fst) x) 0)

/-- construction volume of a tank: cylinder `π (d/2)² max_level`; volume curve
`V(max) + min_level · V(max)/(max_level − min_level)` -/
def tankConstructionVolume (pi : Rat) (g : TankGeom) (minLevel maxLevel : Rat) : Rat :=
  match g with
  | .cyl d => pi * (d / 2) ^ 2 * maxLevel
  | .curve pts =>
    let v := interp pts maxLevel
    v + minLevel * (v / (maxLevel - minLevel))

inductive CostItem where
  | tank (g : TankGeom) (minLevel maxLevel : Rat)
  | pipe (diameter length : Rat)
  | pump (pmax : Rat)             -- maximum power input (W), already divided by the efficiency
  | prv (diameter : Rat)

structure CostTables where
  tank : List (Rat × Rat)
  pipe : List (Rat × Rat)
  prv : List (Rat × Rat)
  pump : List (Rat × Rat)

def itemCost (pi : Rat) (t : CostTables) : CostItem → Rat
  | .tank g lo hi => lookup t.tank (tankConstructionVolume pi g lo hi)
  | .pipe d l => lookup t.pipe d * l
  | .pump p => lookup t.pump p
  | .prv d => lookup t.prv d

/-- DOC economic.py:15-18 "Compute annual network cost :cite:p:`sokz12`. Use the closest value from the lookup tables to
compute annual cost for each component in the network."; resilience.rst:512-516.
DOC observation: the PRV table header says "Annual Cost ($/m/yr)" (economic.py:67) but a valve is charged per piece. -/
def annualNetworkCost (pi : Rat) (t : CostTables) (items : List CostItem) : Rat :=
  lsum (items.map (itemCost pi t))

/-- `annual_ghg_emissions`: Σ table[nearest diameter] · length over pipes.
DOC economic.py:196-199 "Compute annual greenhouse gas emissions :cite:p:`sokz12`. Use the closest value in the lookup
table to compute annual GHG emissions for each pipe in the network." (table in kg-CO2-e/m/yr) -/
def annualGhg (t : List (Rat × Rat)) (pipes : List (Rat × Rat)) : Rat :=
  lsum (pipes.map fun (d, l) => lookup t d * l)

/-- documented maximum power of a head pump with a LINEAR curve `H = A − B·q` (`C = 1`):
`g·ρ/eff · q*·(A − B·q*)` at `q* = A/(2B)` -/
def pmaxLinear (a b eff : Rat) : Rat := gAcc * rho / eff * (a / (2 * b)) * (a - b * (a / (2 * b)))

/-- the documented maximum power of a head pump, VERBATIM, over uninterpreted `exp`, `ln` and `^`:
DOC economic.py:89 `.. math:: Pmp = g*rho/eff*exp(ln(A/(B*(C+1)))/C)*(A - B*(exp(ln(A/(B*(C+1)))/C))^C)` with
:93-96 "g is acceleration due to gravity (9.81 m/s^2), rho is the density of water (1000 kg/m^3), eff is the global
efficiency (0.75 default), A, B, and C are the pump curve coefficients." -/
def pmaxDoc (exp ln : Rat → Rat) (rpow : Rat → Rat → Rat) (a b c eff : Rat) : Rat :=
  gAcc * rho / eff * exp (ln (a / (b * (c + 1))) / c) * (a - b * rpow (exp (ln (a / (b * (c + 1))) / c)) c)

/-- the documented `Pmp` for a general exponent, in floating point (executable oracle only) -/
def pmaxFloat (a b c eff : Float) : Float :=
  let q := Float.exp (Float.log (a / (b * (c + 1))) / c)
  9.81 * 1000 / eff * q * (a - b * Float.pow q c)

end Wntr.Metrics
