/-
Semantic comparison of `wntr.sim.aml` rows for C07 / C08 (the idea of `Model/LinkRows.lean` `rowEquiv`, extended):

* a row is a polynomial with `Rat` coefficients over ATOMS (leaves and every sub-expression that is not `+ − * neg`, a
  constant, or a power with exponent 1, 2, 3); monomials are compared up to permutation, the difference of two rows must
  cancel monomial by monomial;
* atoms are compared SEMANTICALLY too, recursively with fuel: `a1/a2 ~ b1/b2`, `a1**a2 ~ b1**b2`, `f(a) ~ f(b)` when the
  operands are equivalent polynomials — so `((h-elev-pmin)/(pnom-pmin))**e` may be re-ordered inside;
* conditions `body ≤ ub` are compared after moving the bound into the body (`inequality(h, ub=elev)` ~
  `inequality(h-elev, ub=0)`), conditional rows branch by branch.

Soundness over ℝ (`rowSem a b = true → ∀ env, eval a = eval b`) is `Lemmas/RowsNorm.lean`.  Import-free (core only).
-/
import WntrModel.Model.Expr
namespace Wntr.Rows.Norm
open Wntr.Aml

abbrev Mono := List Expr
abbrev Poly := List (Mono × Rat)

def Poly.neg (p : Poly) : Poly := p.map fun x => (x.1, -x.2)
def Poly.mul (p q : Poly) : Poly := p.flatMap fun x => q.map fun y => (x.1 ++ y.1, x.2 * y.2)

/-- exponents the evaluator's `pow` shares with repeated multiplication -/
def smallPow : Expr → Option Nat
  | .const q => if q = 1 then some 1 else if q = 2 then some 2 else if q = 3 then some 3 else none
  | _ => none

def toPoly : Expr → Poly
  | .var i => [([.var i], 1)]
  | .param i => [([.param i], 1)]
  | .const q => [([], q)]
  | .bin op a b =>
    (match op with
     | .add => toPoly a ++ toPoly b
     | .sub => toPoly a ++ Poly.neg (toPoly b)
     | .mul => Poly.mul (toPoly a) (toPoly b)
     | .div => [([.bin .div a b], 1)]
     | .pow =>
       (match smallPow b with
        | some 1 => toPoly a
        | some 2 => Poly.mul (toPoly a) (toPoly a)
        | some 3 => Poly.mul (toPoly a) (Poly.mul (toPoly a) (toPoly a))
        | _ => [([.bin .pow a b], 1)]))
  | .un op a =>
    (match op with
     | .neg => Poly.neg (toPoly a)
     | _ => [([.un op a], 1)])
  | .ifElse c t e => [([.ifElse c t e], 1)]
  | .ineq b lb ub => [([.ineq b lb ub], 1)]

/-- remove the first element of the list that `eq x ·` accepts -/
def removeBy (eq : Expr → Expr → Bool) (x : Expr) : List Expr → Option (List Expr)
  | [] => none
  | y :: ys => if eq x y then some ys else (removeBy eq x ys).map (y :: ·)

/-- the two monomials are the same up to order, atoms compared with `eq` -/
def permBy (eq : Expr → Expr → Bool) : List Expr → List Expr → Bool
  | [], [] => true
  | [], _ :: _ => false
  | x :: xs, ys =>
    match removeBy eq x ys with
    | some ys' => permBy eq xs ys'
    | none => false

def sumC : List Rat → Rat
  | [] => 0
  | x :: t => x + sumC t

/-- the polynomial is identically zero: take the first monomial, add up the coefficients of all monomials equal to it up to
permutation, require 0, continue with the rest (`fuel` ≥ length) -/
def cancelsBy (eq : Expr → Expr → Bool) : Nat → Poly → Bool
  | _, [] => true
  | 0, _ :: _ => false
  | n + 1, x :: rest =>
    let same := rest.filter (fun y => permBy eq y.1 x.1)
    let others := rest.filter (fun y => !permBy eq y.1 x.1)
    decide (x.2 + sumC (same.map (·.2)) = 0) && cancelsBy eq n others

def polyEqBy (eq : Expr → Expr → Bool) (a b : Expr) : Bool :=
  let p := toPoly a ++ Poly.neg (toPoly b)
  cancelsBy eq p.length p

/-- one level of semantic atom comparison: same operator, equivalent operands -/
def atomStep (eq : Expr → Expr → Bool) : Expr → Expr → Bool
  | .bin o1 a1 a2, .bin o2 b1 b2 => decide (o1 = o2) && polyEqBy eq a1 b1 && polyEqBy eq a2 b2
  | .un o1 a1, .un o2 b1 => decide (o1 = o2) && polyEqBy eq a1 b1
  | _, _ => false

/-- atoms: syntactically equal, or (with fuel left) the same operator over equivalent operands -/
def atomEq : Nat → Expr → Expr → Bool
  | 0 => fun a b => decide (a = b)
  | n + 1 => fun a b => decide (a = b) || atomStep (atomEq n) a b

/-- conditions: same bounds and equivalent bodies, or both `body ≤ ub` with `body − ub` equivalent -/
def condEq (eq : Expr → Expr → Bool) (c1 c2 : Expr) : Bool :=
  match c1, c2 with
  | .ineq b1 l1 u1, .ineq b2 l2 u2 =>
    (decide (l1 = l2) && decide (u1 = u2) && polyEqBy eq b1 b2) ||
    (match l1, u1, l2, u2 with
     | none, some v1, none, some v2 => polyEqBy eq (.bin .sub b1 (.const v1)) (.bin .sub b2 (.const v2))
     | _, _, _, _ => false)
  | _, _ => decide (c1 = c2)

def rowEq (eq : Expr → Expr → Bool) : Expr → Expr → Bool
  | .ifElse c1 t1 e1, .ifElse c2 t2 e2 => condEq eq c1 c2 && rowEq eq t1 t2 && rowEq eq e1 e2
  | a, b => polyEqBy eq a b

/-- nesting depth of semantically compared atoms (`(x/y)**e` needs 2) -/
def atomFuel : Nat := 4

/-- **the semantic row comparison** used by `PddZoo.ok` / `LeakZoo.ok` -/
def rowSem (a b : Expr) : Bool := rowEq (atomEq atomFuel) a b

def rowSemOpt : Option Expr → Option Expr → Bool
  | none, none => true
  | some a, some b => rowSem a b
  | _, _ => false

end Wntr.Rows.Norm
