/-
Typed tokens for the statement skeletons of `update_tank_heads`, `_interp_extrapolate`, `Tank.get_volume` and the post-solve pass,
with an interpreter.  `Gen/TankShape.lean` is REGENERATED from the Python ast of those functions on every run
(harness/props/c06_translate.py); `Lemmas/TankShape.lean` proves that interpreting the generated skeletons IS M7 `Tank` /
M5b `Controls` — an edit of the source breaks a named theorem, not only a sampled run.  Import-free apart from M7/M5b.
-/
import WntrModel.Model.Controls
namespace Wntr.TankShape
open Wntr.Tank Wntr.Controls

/-- names: attributes read (`tank.demand`, `wn.sim_time`, …), arguments and locals -/
inductive N where
  | simTime | prevSimTime | demand | diameter | mathPi | head | prevHead | tankLevel | elevation   -- attributes read
  | dt | qNet | dV | deltaH | curLevel | v0 | v1 | levelNew | newHead                              -- locals of update_tank_heads
  | leakDemand | x | y | level | area | vol | curValue | threshValue | backtrack | threshLevel | curVol | thrVol | raised                                                                     -- _interp_extrapolate / get_volume
  deriving Repr, DecidableEq, Inhabited

/-- `xp[0]`, `xp[1]`, `xp[-2]`, `xp[-1]` -/
inductive Ix where
  | first | second | secondLast | last
  deriving Repr, DecidableEq, Inhabited

inductive E where
  | n (v : N)
  | lit (q : Rat)
  | add (a b : E) | sub (a b : E) | mul (a b : E) | div (a b : E)
  | sq (a : E)                                   -- `a ** 2`
  | min0 (a : E)                                 -- `np.minimum(a, 0.0)`
  | max0 (a : E)                                 -- `np.maximum(a, 0.0)`
  | xp (i : Ix) | fp (i : Ix)                    -- breakpoints of the curve passed to `_interp_extrapolate`
  | npInterp (a : E)                             -- `np.interp(a, xp, fp)`
  | lookup (extrap inv : Bool) (a : E)           -- `_interp_extrapolate` / `np.interp` on (level_x, volume_y), `inv`: (volume_y, level_x)
  | floor (a : E)                                -- `int(math.floor(a))`
  | vol (a : E)                                  -- `self._source_obj.get_volume(a)`
  deriving Repr, Inhabited

inductive C where
  | curveNone                                    -- `tank.vol_curve is None`
  | eq (a b : E)
  | lenGt1                                       -- `len(xp) > 1`
  | attrIs (a : Attr)                            -- `self._source_attr == 'head'`
  deriving Repr, Inhabited

inductive S where
  | skip
  | assign (v : N) (e : E)
  | seq (a b : S)
  | ite (c : C) (a b : S)
  | raise                                        -- `raise NotImplementedError(...)` (sets `raised`)
  deriving Repr, Inhabited

def sblock : List S → S
  | [] => .skip
  | [s] => s
  | s :: r => .seq s (sblock r)

abbrev Env := N → Rat

def Env.set (env : Env) (v : N) (q : Rat) : Env := fun w => if w = v then q else env w

def lastPair : Rat × Rat → List (Rat × Rat) → Rat × Rat
  | p, [] => p
  | _, q :: r => lastPair q r

/-- the element before the last (`xp[-2]`, lists of length ≥ 2) -/
def secondLastPair : Rat × Rat → List (Rat × Rat) → Rat × Rat
  | p, [] => p
  | p, q :: r => match r with
    | [] => p
    | _ :: _ => secondLastPair q r

def ixGet (c : List (Rat × Rat)) : Ix → Rat × Rat
  | .first => c.headD (0, 0)
  | .second => c.getD 1 (0, 0)
  | .secondLast => match c with | [] => (0, 0) | p :: r => secondLastPair p r
  | .last => match c with | [] => (0, 0) | p :: r => lastPair p r

/-- evaluation; `crv` is the curve as the CALLEE sees it (`xp`, `fp`), `t` the tank (for `lookup` on its volume curve),
`attr` the condition's `_source_attr` -/
def E.eval (t : Tank) (crv : List (Rat × Rat)) (env : Env) : E → Rat
  | .n v => env v
  | .lit q => q
  | .add a b => a.eval t crv env + b.eval t crv env
  | .sub a b => a.eval t crv env - b.eval t crv env
  | .mul a b => a.eval t crv env * b.eval t crv env
  | .div a b => a.eval t crv env / b.eval t crv env
  | .sq a => a.eval t crv env * a.eval t crv env
  | .min0 a => if a.eval t crv env < 0 then a.eval t crv env else 0
  | .max0 a => if 0 < a.eval t crv env then a.eval t crv env else 0
  | .xp i => (ixGet crv i).1
  | .fp i => (ixGet crv i).2
  | .npInterp a => interp (a.eval t crv env) crv
  | .lookup ex inv a =>
    match t.curve with
    | some c => cinterp ex (a.eval t crv env) (if inv then swapPts c else c)
    | none => 0
  | .floor a => ((a.eval t crv env).floor : Rat)
  | .vol a => getVolume (env .mathPi) t (a.eval t crv env)

def C.eval (t : Tank) (crv : List (Rat × Rat)) (env : Env) (attr : Attr := .level) : C → Bool
  | .curveNone => t.curve.isNone
  | .eq a b => a.eval t crv env == b.eval t crv env
  | .lenGt1 => decide (1 < crv.length)
  | .attrIs a => attr == a

def S.run (t : Tank) (crv : List (Rat × Rat)) (attr : Attr := .level) : S → Env → Env
  | .skip, env => env
  | .assign v e, env => env.set v (e.eval t crv env)
  | .seq a b, env => b.run t crv attr (a.run t crv attr env)
  | .ite c a b, env => if c.eval t crv env attr then a.run t crv attr env else b.run t crv attr env
  | .raise, env => env.set .raised 1

/-! ### the post-solve pass as tokens -/

/-- statements of `_run_postsolve_controls` that matter (logging dropped) -/
inductive PTok where
  | setReference          -- `self._change_tracker.set_reference_point('postsolve')`
  | check                 -- `postsolve_controls_to_run = self._postsolve_controls.check()`
  | sortPriority (reverse : Bool)   -- `.sort(key=lambda i: i[0]._priority[, reverse=True])`
  | runEach               -- `for control, unused in postsolve_controls_to_run: control.run_control_action()`
  | removeReference
  deriving Repr, DecidableEq, Inhabited

/-- interpretation on the list `check()` returned: the link state after the pass (`none`: the skeleton does not have the
shape check → sort → run) -/
def runPTok (toks : List PTok) (due : List Ctl) (ls : Links) : Option Links :=
  match toks.filter (fun t => t != .setReference && t != .removeReference) with
  | [.check, .sortPriority false, .runEach] => some ((sortPrio due).foldl (fun s c => write s c.act) ls)
  | [.check, .sortPriority true, .runEach] => some ((sortPrio due).reverse.foldl (fun s c => write s c.act) ls)
  | [.check, .runEach] => some (due.foldl (fun s c => write s c.act) ls)
  | _ => none

/-- the companion loop of `_get_pump_controls` / `_get_valve_controls` (`for control: for action: if target_attr == ATTR: ... append`) -/
structure CompLoop where
  attr : UAttr            -- the `target_attr` tested
  kind : Kind             -- the `isinstance(target_obj, …)` that is accepted (others raise ValueError)
  status : Rat            -- the status the companion commands
  samePriority : Bool     -- `priority=control.priority`
  sameCondition : Bool    -- first argument is `control.condition`
  perAction : Bool        -- one companion for EVERY matching action of EVERY control: no `continue` / membership test / seen-set in the loop
  deriving Repr, DecidableEq, Inhabited

/-- interpretation: the companions the loop appends (`none` = ValueError); a loop that de-duplicates keeps the first per link -/
def runCompLoop (idBase : Nat) (L : CompLoop) (us : List UCtl) : Option (List Ctl) :=
  if us.any (fun u => u.attr == L.attr && u.kind != L.kind) then none else
  let all := us.filter (fun u => u.attr == L.attr)
  let kept := if L.perAction then all
    else all.foldl (fun acc u => if acc.any (fun v => v.link == u.link) then acc else acc ++ [u]) []
  some (kept.map fun u => ⟨idBase + u.id, if L.samePriority then u.prio else 3, ⟨u.link, .user, L.status⟩⟩)

/-- who may write `_internal_status`: which `_get_*_controls` builder creates `_InternalControlAction(link, '_internal_status', …)`
for which link type, under which guard -/
structure Writer where
  builder : String      -- `_get_all_tank_controls`, `_get_cv_controls`, `_get_pump_controls`, `_get_valve_controls`
  kind : Kind
  guard : String        -- "cv" (pipe.check_valve), "tank" (link at a tank), "always", "valve-type"
  deriving Repr, DecidableEq, Inhabited

end Wntr.TankShape
