/-
`PresolveProg` — typed tokens for the statements of `WNTRSimulator._compute_next_timestep_and_run_presolve_controls_and_rules`
(wntr/sim/core.py) and their interpreter over the scheduler state of Model/Sched.lean.  The token tree itself is REGENERATED
from the source by harness/props/c04_translate.py into Gen/PresolveShape.lean (logging and debug statements dropped);
Props/C04 proves that interpreting the generated prologue is `presolveDue` and that interpreting the generated loop body
is `loopStep`, i.e. the hand-written `presolveLoop`.  `update_tank_heads` has no effect on the time-only state and is the
token `updateTankHeads` with the identity as meaning.  Import-free apart from Model/Sched.
-/
import WntrModel.Model.Sched
namespace Wntr.PresolveProg
open Wntr.Sched

/-- the statements before the `while` loop that build `presolve_controls_to_run` -/
inductive Pro where
  | check              -- presolve_controls_to_run = self._presolve_controls.check()
  | sortPrio           -- .sort(key=lambda i: i[0]._priority)
  | sortBackRev        -- .sort(key=lambda i: i[1], reverse=True)
  | firstStepZero      -- if first_step: [(c, 0) for c, b in …]   (the shape before /repo 7d8c4ce1: no longer generated)
  | firstStepZeroElseClamp
                       -- if first_step: [(c, 0) …] else: max_back = max(int(sim_time - _prev_sim_time) - 1, 0);
                       --                                 [(c, min(max(b, 0), max_back)) for c, b in …]
  | cntZero            -- cnt = 0
  | setRef | delRef    -- change tracker reference point 'presolve'
  deriving Repr, DecidableEq

inductive Cond where
  | cntGeLen           -- cnt >= len(presolve_controls_to_run)
  | beforeRule         -- sim_time - backtrack <  _rule_iter * rule_timestep
  | atRule             -- sim_time - backtrack == _rule_iter * rule_timestep
  | changed            -- self._change_tracker.changes_made(ref_point='presolve')
  | notFirst           -- not first_step
  deriving Repr, DecidableEq

inductive Act where
  | saveOldTime        -- old_time = sim_time
  | setTimeToRule      -- sim_time = _rule_iter * rule_timestep
  | restoreOldTime     -- sim_time = old_time
  | updateTankHeads
  | incRuleIter        -- _rule_iter += 1
  | checkRules         -- rules_to_run = self._check_rules()
  | sortRules          -- rules_to_run.sort(key=priority)
  | runRules           -- for rule, _ in rules_to_run: rule.run_control_action()
  | pickControl        -- control, backtrack = presolve_controls_to_run[cnt]
  | runControl         -- control.run_control_action()
  | incCnt             -- cnt += 1
  | runGroupRest       -- while cnt < len and […][cnt][1] == backtrack: […][cnt][0].run_control_action(); cnt += 1
  | subBack            -- sim_time -= backtrack
  | addBack            -- sim_time += backtrack
  deriving Repr, DecidableEq

inductive Stmt where
  | act (a : Act)
  | ite (c : Cond) (t e : List Stmt)
  | brk
  deriving Repr

/-- the while condition: `cnt < len(…) or _rule_iter * rule_timestep <= sim_time` -/
inductive LoopCond where
  | cntLtLenOrRuleDue
  deriving Repr, DecidableEq

structure PS where
  s : St
  cnt : Nat
  old : Int := 0
  ctl : Option Due := none
  back : Int := 0
  rules : List Due := []
  broke : Bool := false

def Cond.holds (cfg : Cfg) (ref : Vals) (due : List Due) (first : Bool) (p : PS) : Cond → Bool
  | .cntGeLen => decide (p.cnt ≥ due.length)
  | .beforeRule => decide (p.s.simTime - p.back < p.s.ruleIter * cfg.rule)
  | .atRule => decide (p.s.simTime - p.back = p.s.ruleIter * cfg.rule)
  | .changed => Wntr.Sched.changed ref p.s.vals
  | .notFirst => !first

def Act.run (cfg : Cfg) (due : List Due) (p : PS) : Act → PS
  | .saveOldTime => { p with old := p.s.simTime }
  | .setTimeToRule => { p with s := { p.s with simTime := p.s.ruleIter * cfg.rule } }
  | .restoreOldTime => { p with s := { p.s with simTime := p.old } }
  | .updateTankHeads => p
  | .incRuleIter => { p with s := { p.s with ruleIter := p.s.ruleIter + 1 } }
  | .checkRules =>
    -- `_check_rules()` at the rule timestep `sim_time` (ghost: the evaluation time is logged)
    { p with rules := Wntr.Sched.check cfg.startClock (ruleWindowLo cfg p.s.simTime) p.s.simTime cfg.rules,
             s := { p.s with ruleLog := p.s.ruleLog ++ [p.s.simTime] } }
  | .sortRules => { p with rules := sortBy (fun a b => a.ctl.prio ≤ b.ctl.prio) p.rules }
  | .runRules => { p with s := { p.s with vals := p.rules.foldl (fun v d => d.run v) p.s.vals } }
  | .pickControl => match due[p.cnt]? with
    | some d => { p with ctl := some d, back := d.back }
    | none => p
  | .runControl => match p.ctl with
    | some d => { p with s := { p.s with vals := d.run p.s.vals } }
    | none => p
  | .incCnt => { p with cnt := p.cnt + 1 }
  | .runGroupRest =>
    let r := runGroup due p.cnt p.back p.s.vals due.length
    { p with s := { p.s with vals := r.1 }, cnt := r.2 }
  | .subBack => { p with s := { p.s with simTime := p.s.simTime - p.back } }
  | .addBack => { p with s := { p.s with simTime := p.s.simTime + p.back } }

mutual
def execStmt (cfg : Cfg) (ref : Vals) (due : List Due) (first : Bool) : Stmt → PS → PS
  | .act a, p => a.run cfg due p
  | .ite c t e, p => if c.holds cfg ref due first p then execBlock cfg ref due first t p else execBlock cfg ref due first e p
  | .brk, p => { p with broke := true }
def execBlock (cfg : Cfg) (ref : Vals) (due : List Due) (first : Bool) : List Stmt → PS → PS
  | [], p => p
  | st :: rest, p =>
    let p' := execStmt cfg ref due first st p
    if p'.broke then p' else execBlock cfg ref due first rest p'
end

def LoopCond.holds (cfg : Cfg) (due : List Due) (cnt : Nat) (s : St) : LoopCond → Bool
  | .cntLtLenOrRuleDue => decide (cnt < due.length ∨ s.ruleIter * cfg.rule ≤ s.simTime)

/-- the prologue: the list `presolve_controls_to_run` -/
def Pro.run (cfg : Cfg) (first : Bool) (s : St) (l : List Due) : Pro → List Due
  | .check => Wntr.Sched.check cfg.startClock s.prevTime s.simTime cfg.presolve
  | .sortPrio => sortBy (fun a b => a.ctl.prio ≤ b.ctl.prio) l
  | .sortBackRev => sortBy (fun a b => a.back ≥ b.back) l
  | .firstStepZero => if first then l.map (fun d => { d with back := 0 }) else l
  | .firstStepZeroElseClamp =>
    if first then l.map (fun d => { d with back := 0 })
    else l.map (fun d => { d with back := min (max d.back 0) (max (s.simTime - s.prevTime - 1) 0) })
  | .cntZero | .setRef | .delRef => l

def runPrologue (cfg : Cfg) (first : Bool) (s : St) (ps : List Pro) : List Due :=
  ps.foldl (fun l t => t.run cfg first s l) []

end Wntr.PresolveProg
