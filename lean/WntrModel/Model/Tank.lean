/-
M7 `Tank` — tank level arithmetic of the WNTRSimulator, transliterated over `Rat`.  Import-free.

  * `interp`           `numpy.interp(x, xp, fp)` for non-decreasing `xp`, WITH the clamping numpy does
                       outside `[xp[0], xp[-1]]`; the inverse lookup the code uses is the same function on the
                       swapped curve (`np.interp(V1, volume_y, level_x)`).
  * `updateHead`       one tank of `wntr/sim/hydraulics.py: update_tank_heads` (cylinder through the diameter,
                       volume curve through `interp`), including the `cur_level` reconstruction.
  * `getVolume`        `Tank.get_volume(level)`.
  * `evalLevel`        `TankLevelCondition.evaluate` of `wntr/network/controls.py`: relation folding gt→ge, lt→le,
                       `np.round(·, 10)` on both sides, crossing detection through `_last_value`,
                       `_backtrack = int(math.floor(...))` (divides by the tank's stored demand), `_last_value` update,
                       `NotImplementedError` for pressure + volume curve (state left as the exception leaves it).
  * `evalValue`        `ValueCondition.evaluate` (six relations, rounded operands, no backtrack).
  * `status`           the `status` property of Pipe / Pump / Valve from `_user_status` / `_internal_status`.
  * `tankControls`     `WNTRSimulator._get_all_tank_controls` for one tank: which internal close/open controls exist for
                       which link (CV / pump direction exceptions), their thresholds, priorities and control types.
  * oracles            `tankIntegralOk`, `tankLimitsOk`, `thresholdNotOvershot` — executable predicates evaluated by the
                       driver on what the REAL simulator reported.

`math.pi` is a parameter `pi : Rat` (the driver passes the exact rational of the double; theorems need `0 < pi` only).
IEEE rounding is not modelled; NaN thresholds are not modelled (a `Rat` threshold is never NaN).
-/
namespace Wntr.Tank

/-! ### numpy.interp -/

/-- walk of `numpy.interp` right of the first breakpoint: segment `j` is the LAST one with `xp[j] ≤ x`;
value `fp[j] + (fp[j+1]-fp[j])/(xp[j+1]-xp[j]) * (x - xp[j])`; right of the last breakpoint: `fp[-1]` (clamp). -/
def interpFrom (x : Rat) (x0 y0 : Rat) : List (Rat × Rat) → Rat
  | [] => y0
  | (x1, y1) :: rest =>
    if x < x1 then y0 + (y1 - y0) / (x1 - x0) * (x - x0) else interpFrom x x1 y1 rest

/-- `numpy.interp(x, [p.1 for p in pts], [p.2 for p in pts])`; left of the first breakpoint: `fp[0]` (clamp).
(numpy raises on an empty curve; WNTR never builds one — 0 here.) -/
def interp (x : Rat) : List (Rat × Rat) → Rat
  | [] => 0
  | (x0, y0) :: rest => if x ≤ x0 then y0 else interpFrom x x0 y0 rest

/-- abscissa / ordinate of the last breakpoint -/
def lastX : Rat → List (Rat × Rat) → Rat
  | x0, [] => x0
  | _, (x1, _) :: rest => lastX x1 rest

def lastY : Rat → List (Rat × Rat) → Rat
  | y0, [] => y0
  | _, (_, y1) :: rest => lastY y1 rest

/-- slope of the first segment, `(fp[1]-fp[0])/(xp[1]-xp[0])`; 0 for fewer than two points -/
def slopeFirst : List (Rat × Rat) → Rat
  | (x0, y0) :: (x1, y1) :: _ => (y1 - y0) / (x1 - x0)
  | _ => 0

/-- slope of the last segment, `(fp[-1]-fp[-2])/(xp[-1]-xp[-2])`; 0 for a single point -/
def slopeLastFrom (x0 y0 : Rat) : List (Rat × Rat) → Rat
  | [] => 0
  | (x1, y1) :: rest => match rest with
    | [] => (y1 - y0) / (x1 - x0)
    | _ :: _ => slopeLastFrom x1 y1 rest

/-- `_interp_extrapolate` of the proposed repair (fixes/C06-volcurve-extrapolate): `np.interp(x, xp, fp)`
`+ min(x - xp[0], 0)·(first slope) + max(x - xp[-1], 0)·(last slope)` when the curve has more than one point -/
def interpX (x : Rat) : List (Rat × Rat) → Rat
  | [] => 0
  | (x0, y0) :: rest =>
    interp x ((x0, y0) :: rest)
      + (if x - x0 < 0 then x - x0 else 0) * slopeFirst ((x0, y0) :: rest)
      + (if 0 < x - lastX x0 rest then x - lastX x0 rest else 0) * slopeLastFrom x0 y0 rest

/-- the curve lookup of a tank: clamping `np.interp` (code at the pinned HEAD) or the extrapolating repair -/
def cinterp (extrap : Bool) (x : Rat) (c : List (Rat × Rat)) : Rat := if extrap then interpX x c else interp x c

/-- the curve read the other way round: `np.interp(V, volume_y, level_x)` is `interp V (swapPts curve)` -/
def swapPts (c : List (Rat × Rat)) : List (Rat × Rat) := c.map fun p => (p.2, p.1)

/-! ### the tank -/

structure Tank where
  elev : Rat
  minLevel : Rat
  maxLevel : Rat
  diam : Rat
  /-- `(level, volume)` points of the volume curve, `none` for a cylindrical tank -/
  curve : Option (List (Rat × Rat))
  /-- which curve lookup the implementation uses (probed by the harness on the real `Tank.get_volume`):
  `false` = `np.interp` clamps outside the curve, `true` = the end segments are continued -/
  extrap : Bool := false
  deriving Repr, Inhabited

/-- cross-section `π/4·d²` as `TankLevelCondition.evaluate` and `get_volume` compute it -/
def area (pi : Rat) (t : Tank) : Rat := pi / 4 * (t.diam * t.diam)

/-- `Tank.__init__` / `init_level` setter: `_head = elevation + init_level` -/
def initHead (t : Tank) (initLevel : Rat) : Rat := t.elev + initLevel

/-- `Tank.level` = `head - elevation` (also what `save_results` stores as the tank's `pressure`) -/
def level (t : Tank) (head : Rat) : Rat := head - t.elev

/-- `Tank.get_volume(level)` -/
def getVolume (pi : Rat) (t : Tank) (lvl : Rat) : Rat :=
  match t.curve with
  | none => area pi t * lvl
  | some c => cinterp t.extrap lvl c

/-- `store_results_in_network`: `tank._demand = Σ flow(INLET links) − Σ flow(OUTLET links) − tank._leak_demand` — the stored
(and reported) tank demand is already NET of the leak; `update_tank_heads` integrates exactly this number -/
def tankDemand (inflow outflow leak : Rat) : Rat := inflow - outflow - leak

/-- `cur_level` of `update_tank_heads`: `tank.level` when `head == _prev_head`, else `_prev_head - (head - level)` -/
def curLevel (t : Tank) (prevHead head : Rat) : Rat :=
  if head == prevHead then level t head else prevHead - (head - level t head)

/-- one tank of `update_tank_heads`: the new `_head` from `_prev_head`, the current `_head`, the stored
`demand` (net inflow of the last solve) and `dt = sim_time - _prev_sim_time`. -/
def updateHead (pi : Rat) (t : Tank) (prevHead head demand dt : Rat) : Rat :=
  let dV := demand * dt
  match t.curve with
  | none => prevHead + 4 * dV / (pi * (t.diam * t.diam))
  | some c =>
    let cur := curLevel t prevHead head
    let v0 := cinterp t.extrap cur c
    let v1 := v0 + dV
    let levelNew := cinterp t.extrap v1 (swapPts c)
    prevHead + (levelNew - cur)

/-! ### conditions -/

inductive Rel where
  | gt | ge | lt | le | eq | ne
  deriving Repr, DecidableEq, Inhabited

/-- round half to even to an integer (`numpy.rint`) -/
def rintHE (x : Rat) : Int :=
  let f := x.floor
  let r := x - (f : Rat)
  if r < 1 / 2 then f else if 1 / 2 < r then f + 1 else if f % 2 == 0 then f else f + 1

/-- `np.round(x, 10)` -/
def round10 (x : Rat) : Rat := (rintHE (x * 10000000000) : Rat) / 10000000000

/-- `relation(np.round(a,10), np.round(b,10))` -/
def Rel.holds (r : Rel) (a b : Rat) : Bool :=
  let a' := round10 a
  let b' := round10 b
  match r with
  | .gt => b' < a' | .ge => b' ≤ a' | .lt => a' < b' | .le => a' ≤ b' | .eq => a' == b' | .ne => a' != b'

/-- `ValueCondition.evaluate` (state only; `_backtrack` stays 0) -/
def evalValue (r : Rel) (cur thr : Rat) : Bool := r.holds cur thr

inductive Attr where
  | level | pressure | head
  deriving Repr, DecidableEq, Inhabited

/-- `TankLevelCondition(tank, attr, rel, thr)`; `rel ∈ {gt, ge, lt, le}` (the constructor refuses eq/ne) -/
structure LevelCond where
  attr : Attr
  rel : Rel
  thr : Rat
  deriving Repr, Inhabited

/-- `if relation is gt: relation = ge; if relation is lt: relation = le` -/
def foldRel : Rel → Rel
  | .gt => .ge | .lt => .le | r => r

/-- `getattr(tank, attr)`: `head`, or `level`/`pressure` = `head - elevation` -/
def attrValue (t : Tank) (head : Rat) : Attr → Rat
  | .head => head
  | _ => head - t.elev

structure LevelOut where
  /-- returned truth value (meaningless when `raised`) -/
  state : Bool
  /-- `_backtrack` after the call -/
  back : Int
  /-- `_last_value` after the call -/
  last : Rat
  /-- `NotImplementedError` (pressure condition on a volume-curve tank at a crossing) -/
  raised : Bool
  deriving Repr, Inhabited

/-- `TankLevelCondition.evaluate`.  `demand` is the tank's stored demand (`none` before the first solve),
`last` the stored `_last_value`. -/
def evalLevel (pi : Rat) (t : Tank) (c : LevelCond) (head : Rat) (demand : Option Rat) (last : Rat) : LevelOut :=
  let cur := attrValue t head c.attr
  let rel := foldRel c.rel
  let state := rel.holds cur c.thr
  if state && !(rel.holds last c.thr) then
    match demand with
    | none => ⟨state, 0, cur, false⟩
    | some q =>
      if q == 0 then ⟨state, 0, cur, false⟩
      else
        match t.curve with
        | none => ⟨state, ((cur - c.thr) * pi / 4 * (t.diam * t.diam) / q).floor, cur, false⟩
        | some crv =>
          match c.attr with
          | .pressure => ⟨state, 0, last, true⟩
          | .head =>
            let thrLevel := c.thr - t.elev
            let lvl := cur - t.elev
            ⟨state, ((cinterp t.extrap lvl crv - cinterp t.extrap thrLevel crv) / q).floor, cur, false⟩
          | .level => ⟨state, ((cinterp t.extrap cur crv - cinterp t.extrap c.thr crv) / q).floor, cur, false⟩
  else ⟨state, 0, cur, false⟩

/-! ### link status -/

/-- link kinds as far as `status` is concerned -/
inductive Kind where
  | pipe | pump | valve
  deriving Repr, DecidableEq, Inhabited

/-- `LinkStatus`: Closed = 0, Open = 1, Active = 2 (carried as `Rat` like every value a control writes).
The `status` property: Pipe/Pump: Closed when `_internal_status == Closed`, else `_user_status`;
Valve: Closed/Open when `_user_status` is Closed/Open, else `_internal_status`. -/
def status (k : Kind) (user internal : Rat) : Rat :=
  match k with
  | .valve => if user == 0 then 0 else if user == 1 then 1 else internal
  | _ => if internal == 0 then 0 else user

/-! ### `_get_all_tank_controls` -/

/-- what `_get_all_tank_controls` looks at for one link at the tank -/
structure TLink where
  id : Nat
  kind : Kind
  cv : Bool          -- pipe with check_valve
  startIsTank : Bool -- start node is the tank (else the end node is)
  other : Nat        -- id of the node at the other end
  deriving Repr, Inhabited

/-- internal control descriptor: condition = `tank.head rel thr` [AND `tank.head relOther other.head`],
action = `_internal_status := value` on `link` -/
structure TCtl where
  link : Nat
  value : Int        -- 0 close, 1 open
  rel : Rel
  thr : Rat
  relOther : Option (Rel × Nat)
  prio : Nat
  /-- true: pre_and_postsolve (with backtracking); false: postsolve only -/
  pre : Bool
  deriving Repr, Inhabited

/-- the min-level block for one link (`none` = `continue`) -/
def minBlock (t : Tank) (htol : Rat) (l : TLink) : List TCtl :=
  let minHead := t.minLevel + t.elev
  -- (skip, link_has_cv)
  let sc : Bool × Bool :=
    match l.kind with
    | .pipe => if l.cv then (if !l.startIsTank then (true, false) else (false, true)) else (false, false)
    | .pump => if !l.startIsTank then (true, false) else (false, true)
    | .valve => (false, false)
  if sc.1 then [] else
  let close : TCtl := ⟨l.id, 0, .le, minHead, none, 3, true⟩
  if sc.2 then [close] else
    [close,
     ⟨l.id, 1, .ge, minHead + htol, none, 1, false⟩,
     ⟨l.id, 1, .le, minHead + htol, some (.le, l.other), 5, false⟩]

/-- the max-level block for one link -/
def maxBlock (t : Tank) (htol : Rat) (l : TLink) : List TCtl :=
  let maxHead := t.maxLevel + t.elev
  let sc : Bool × Bool :=
    match l.kind with
    | .pipe => if l.cv then (if l.startIsTank then (true, false) else (false, true)) else (false, false)
    | .pump => if l.startIsTank then (true, false) else (false, true)
    | .valve => (false, false)
  if sc.1 then [] else
  let close : TCtl := ⟨l.id, 0, .ge, maxHead, none, 3, true⟩
  if sc.2 then [close] else
    [close,
     ⟨l.id, 1, .le, maxHead - htol, none, 1, false⟩,
     ⟨l.id, 1, .ge, maxHead - htol, some (.ge, l.other), 5, false⟩]

/-- all internal limit controls of one tank, in the order the code appends them -/
def tankControls (t : Tank) (htol : Rat) (links : List TLink) : List TCtl :=
  (links.flatMap (minBlock t htol)) ++ (links.flatMap (maxBlock t htol))

/-! ### the partial step -/

/-- the step the simulator accepts when a control with backtrack `b` decides it: `sim_time -= b`, i.e. `dt - b` -/
def acceptedHead (pi : Rat) (t : Tank) (prevHead demand dt : Rat) (b : Int) : Rat :=
  updateHead pi t prevHead prevHead demand (dt - (b : Rat))

/-! ### oracles on reported results -/

def absR (x : Rat) : Rat := if x < 0 then -x else x

/-- one reported row of a tank: time, head, demand (net inflow) -/
structure Row where
  time : Rat
  head : Rat
  demand : Rat
  deriving Repr, Inhabited

/-- a reported row of a tank with its leak: `linkNet` = Σ inlet link flows − Σ outlet link flows as reported for the links -/
structure RowL where
  time : Rat
  head : Rat
  demand : Rat
  leak : Rat
  linkNet : Rat
  deriving Repr, Inhabited

/-- stored volume at a reported head -/
def volumeAt (pi : Rat) (t : Tank) (head : Rat) : Rat := getVolume pi t (level t head)

/-- between consecutive solved steps the stored volume changes by (reported net inflow) × (elapsed time);
`rtol` relative to the magnitudes that enter the float computation, `atol` absolute. -/
def integralOkPair (pi : Rat) (t : Tank) (rtol atol : Rat) (a b : Row) : Bool :=
  let dv := volumeAt pi t b.head - volumeAt pi t a.head
  let inflow := a.demand * (b.time - a.time)
  let scale := absR (volumeAt pi t b.head) + absR (volumeAt pi t a.head) + absR inflow
    + (match t.curve with | none => area pi t * (absR b.head + absR a.head) | some _ => 0)
  absR (dv - inflow) ≤ rtol * scale + atol

/-- the integration identity with the leak made explicit: the reported demand is `linkNet − leak_demand` (flow balance at the
tank) and the stored volume changes by `(linkNet − leak_demand)·dt` — the leak leaves the tank exactly once -/
def integralOkPairLeak (pi : Rat) (t : Tank) (rtol atol qtol : Rat) (a b : RowL) : Bool :=
  let dv := volumeAt pi t b.head - volumeAt pi t a.head
  let net := tankDemand a.linkNet 0 a.leak
  let inflow := net * (b.time - a.time)
  let scale := absR (volumeAt pi t b.head) + absR (volumeAt pi t a.head) + absR inflow + absR (a.leak * (b.time - a.time))
    + (match t.curve with | none => area pi t * (absR b.head + absR a.head) | some _ => 0)
  absR (a.demand - net) ≤ qtol && absR (dv - inflow) ≤ rtol * scale + atol + qtol * (b.time - a.time)

def tankIntegralLeakFirstBad (pi : Rat) (t : Tank) (rtol atol qtol : Rat) : List RowL → Nat → Option Nat
  | a :: b :: rest, i =>
    if integralOkPairLeak pi t rtol atol qtol a b then tankIntegralLeakFirstBad pi t rtol atol qtol (b :: rest) (i + 1) else some i
  | _, _ => none

def tankIntegralOk (pi : Rat) (t : Tank) (rtol atol : Rat) : List Row → Bool
  | a :: b :: rest => integralOkPair pi t rtol atol a b && tankIntegralOk pi t rtol atol (b :: rest)
  | _ => true

/-- first index (0-based) of a failing pair, for reporting -/
def tankIntegralFirstBad (pi : Rat) (t : Tank) (rtol atol : Rat) : List Row → Nat → Option Nat
  | a :: b :: rest, i =>
    if integralOkPair pi t rtol atol a b then tankIntegralFirstBad pi t rtol atol (b :: rest) (i + 1) else some i
  | _, _ => none

/-- the level reached at row `b` (produced by the flow `a.demand`) is within `[min, max]` up to `secs` seconds of that flow
(in volume terms: works for both cylinder and curve); a tank that already sits beyond a limit (by the allowance of the step
that brought it there) must not move further out. -/
def limitsOkPair (pi : Rat) (t : Tank) (secs atol : Rat) (a b : Row) : Bool :=
  let v := volumeAt pi t b.head
  let va := volumeAt pi t a.head
  let vmin := getVolume pi t t.minLevel
  let vmax := getVolume pi t t.maxLevel
  let slack := secs * absR a.demand + atol
  (vmin - slack ≤ v || va - atol ≤ v) && (v ≤ vmax + slack || v ≤ va + atol)

/-- upper side only (used for tanks with a leak: a leak may drain a tank below `min`, it cannot push it above `max`) -/
def limitsOkPairMax (pi : Rat) (t : Tank) (secs atol : Rat) (a b : Row) : Bool :=
  let v := volumeAt pi t b.head
  let va := volumeAt pi t a.head
  let vmax := getVolume pi t t.maxLevel
  v ≤ vmax + (secs * absR a.demand + atol) || v ≤ va + atol

def tankLimitsMaxFirstBad (pi : Rat) (t : Tank) (secs atol : Rat) : List Row → Nat → Option Nat
  | a :: b :: rest, i =>
    if limitsOkPairMax pi t secs atol a b then tankLimitsMaxFirstBad pi t secs atol (b :: rest) (i + 1) else some (i + 1)
  | _, _ => none

/-- a tank at (or beyond) its minimum does not discharge, one at its maximum does not fill: `qtol` = Qtol·#links -/
def limitFlowOk (t : Tank) (qtol : Rat) (r : Row) : Bool :=
  let lvl := level t r.head
  (!(lvl ≤ t.minLevel) || -qtol ≤ r.demand) && (!(t.maxLevel ≤ lvl) || r.demand ≤ qtol)

def tankLimitsOk (pi : Rat) (t : Tank) (secs atol : Rat) : List Row → Bool
  | a :: b :: rest => limitsOkPair pi t secs atol a b && tankLimitsOk pi t secs atol (b :: rest)
  | _ => true

def tankLimitsFirstBad (pi : Rat) (t : Tank) (secs atol : Rat) : List Row → Nat → Option Nat
  | a :: b :: rest, i =>
    if limitsOkPair pi t secs atol a b then tankLimitsFirstBad pi t secs atol (b :: rest) (i + 1) else some (i + 1)
  | _, _ => none

def limitFlowFirstBad (t : Tank) (qtol : Rat) : List Row → Nat → Option Nat
  | r :: rest, i => if limitFlowOk t qtol r then limitFlowFirstBad t qtol rest (i + 1) else some i
  | [], _ => none

/-- the level condition `c` does not hold at row `a`, holds at row `b`: the level at `b` is within `secs` seconds of the
flow `a.demand` past the threshold (in volume terms), i.e. the step was shortened to the crossing. -/
def thresholdPairOk (pi : Rat) (t : Tank) (c : LevelCond) (secs atol : Rat) (a b : Row) : Bool :=
  let rel := foldRel c.rel
  let va := attrValue t a.head c.attr
  let vb := attrValue t b.head c.attr
  if !(rel.holds va c.thr) && rel.holds vb c.thr then
    let thrLevel := match c.attr with | .head => c.thr - t.elev | _ => c.thr
    absR (volumeAt pi t b.head - getVolume pi t thrLevel) ≤ secs * absR a.demand + atol
  else true

end Wntr.Tank
