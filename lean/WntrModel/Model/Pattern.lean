/-
M2 `Pattern` — `Pattern.at`, `TimeSeries.at`, `Demands.at` of wntr/network/elements.py, transliterated.

Time is an `Int` number of seconds, multipliers/base values are `Rat` (the exact values of the doubles).
`TimeOptions.__setattr__` forces `pattern_timestep = max(1, int(value))`, so the step is an integer ≥ 1 and
Python's `time // step`, `step % nmult` coincide with Lean's `Int` `/` and `%` (floor / non-negative remainder
for a positive divisor).  Theorems about these functions carry `0 < step` as a hypothesis.

Import-free on purpose (shared with the scheduler model); keep it small and stable.
-/
namespace Wntr.Pattern

/-- a `Pattern`: multipliers and the `wrap` flag -/
structure Pat where
  mults : List Rat
  wrap : Bool := true
  deriving Repr, DecidableEq

/-- `self._multipliers[i]` for an index known to be in range (0 otherwise; never reached out of range) -/
def Pat.get (p : Pat) (i : Nat) : Rat := p.mults.getD i 0

/-- `Pattern.at(time)` with `time_options = (pattern_timestep = step, pattern_interpolation = interp)`.

```
nmult = len(self._multipliers)
if nmult == 0: return 1.0
if nmult == 1: return self._multipliers[0]            # also when wrap is False
step = int(time // pattern_timestep)
if self.wrap:
    ndx = int(step % nmult); last_mult = m[ndx]
    if pattern_interpolation:
        next_mult = m[0] if ndx + 1 == nmult else m[ndx + 1]
        last_time = step * ts; next_time = (step + 1) * ts
        slope = (next_mult - last_mult) / (next_time - last_time)
        intercept = next_mult - slope * next_time
        return slope * time + intercept
    return last_mult
elif step < 0 or step >= nmult: return 0.0
return m[step]
``` -/
def Pat.at (p : Pat) (step : Int) (interp : Bool) (t : Int) : Rat :=
  let n := p.mults.length
  if n = 0 then 1
  else if n = 1 then p.get 0
  else
    let k : Int := t / step
    if p.wrap then
      let ndx : Nat := (k % (n : Int)).toNat
      let last := p.get ndx
      if interp then
        let next := if ndx + 1 = n then p.get 0 else p.get (ndx + 1)
        let lastTime : Rat := ((k * step : Int) : Rat)
        let nextTime : Rat := (((k + 1) * step : Int) : Rat)
        let slope := (next - last) / (nextTime - lastTime)
        let intercept := next - slope * nextTime
        slope * (t : Rat) + intercept
      else last
    else if k < 0 ∨ k ≥ (n : Int) then 0
    else p.get k.toNat

/-- outcome of `Pattern.at` when the pattern may lack time options
(`RuntimeError('Pattern->time_options cannot be None at runtime')`, raised only for ≥ 2 multipliers) -/
inductive Err where
  | noTimeOptions
  deriving Repr, DecidableEq

def Pat.atE (p : Pat) (topts : Option (Int × Bool)) (t : Int) : Except Err Rat :=
  if p.mults.length ≤ 1 then .ok (p.at 1 false t)
  else match topts with
    | none => .error .noTimeOptions
    | some (step, interp) => .ok (p.at step interp t)

/-- a `TimeSeries`: base value, resolved pattern (`None` when no pattern name / default pattern), category -/
structure TS where
  base : Rat
  pat : Option Pat := none
  cat : Option String := none
  deriving Repr, DecidableEq

/-- `TimeSeries.at`: `if not self.pattern: return base` — `None` *or an empty pattern* (`Pattern.__len__` = 0) -/
def TS.at (d : TS) (step : Int) (interp : Bool) (t : Int) : Rat :=
  match d.pat with
  | none => d.base
  | some p => if p.mults.length = 0 then d.base else d.base * p.at step interp t

/-- `if category:` — `None` and `''` select every entry -/
def catSelected (category : Option String) (d : TS) : Bool :=
  match category with
  | none => true
  | some c => if c = "" then true else d.cat == some c

/-- `Demands.at(time, category, multiplier)`: `demand += dem.at(time) * multiplier` over the selected entries -/
def demandsAt (l : List TS) (step : Int) (interp : Bool) (category : Option String) (mult : Rat) (t : Int) : Rat :=
  l.foldl (fun acc d => if catSelected category d then acc + d.at step interp t * mult else acc) 0

end Wntr.Pattern
