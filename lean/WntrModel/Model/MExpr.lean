/-
M10b `MExpr` — the expression language into which harness/props/c20.py translates the ARITHMETIC of the
wntr.metrics functions (python `ast` over hydraulic.py / economic.py / misc.py / Tank.get_volume), with pandas
broadcasting flattened to one time and one element ("row"): a DataFrame `table.loc[:, names]` becomes the variable
`table` of the current row, `.sum(axis=1)` becomes `sum` over the rows of an index set, a loop over `wn.pumps()` …
that accumulates into a scalar becomes `sum` as well.

The generated terms live in Gen/MetricsFormulas.lean; Props/C20.lean proves that each of them evaluates to the
documented formula of Model/Metrics.lean for ALL inputs.  The only hand-written glue is the naming of the inputs
(`Var`, and the `Row`s built from the structures of Model/Metrics.lean next to each theorem).

Evaluation: `eval` is total over `Rat`; `ok` says whether python would have produced a finite number (no `raise`
reached, no zero denominator — pandas/numpy give ±inf/NaN there, python floats raise); `evalO` combines the two.
Transcendental functions (`np.exp`, `np.log`, `**` with a non-literal exponent) and the curve interpolations are
UNINTERPRETED function symbols supplied by the environment: the theorems hold for every interpretation.
Import-free.
-/
import WntrModel.Model.Metrics
namespace Wntr.Metrics

/-- named inputs; the translator derives the name from the source (parameter / attribute name in camelCase,
`link.get_head_curve_coefficients()[0]` ↦ `curveA`) -/
inductive Var where
  | demand | head | pressure | elevation | flowrate | expectedDemand
  | level | maxLevel | minLevel | diameter | volCurve | length | power | valveType
  | energyPrice | energyPattern | efficiency | energy | curveA | curveB | curveC
  | pop | arg1 | arg2 | averageExpectedDemand
  | Pstar | R | globalEfficiency | globalPrice | globalPattern | demandCharge | reportTimestep | pi
  | ts | patternStart | demandMultiplier
  deriving DecidableEq, Repr

/-- which node of the current LINK a node table is read at: `head.loc[:, link.start_node_name]` ↦ `.at .head .startNode` -/
inductive Key where
  | startNode | endNode
  deriving DecidableEq, Repr

/-- the index sets a sum ranges over (`wn.junction_name_list`, `wn.pumps()`, `wn.nodes(Tank)`, …) -/
inductive Idx where
  | junctions | reservoirs | pumps | tanks | pipes | headPumps | powerPumps | valves
  deriving DecidableEq, Repr

/-- uninterpreted unary functions: `np.exp`, `np.log`, `np.interp` over the row's volume curve (clamped) and
`_interp_extrapolate` over it (continued beyond the ends) -/
inductive Fn1 where
  | exp | log | curveInterp | curveInterpX
  deriving DecidableEq, Repr

/-- uninterpreted binary functions: `a ** b` with a non-literal exponent; `junction.demand_timeseries_list.at(time,
multiplier=…, category=<the function's own category argument>)` and the same without a category -/
inductive Fn2 where
  | rpow | demandsAt | demandsAtAll
  deriving DecidableEq, Repr

/-- the lookup tables (pandas Series parameters) of the economic metrics -/
inductive Tbl where
  | tankCost | pipeCost | prvCost | pumpCost | pipeGhg
  deriving DecidableEq, Repr

inductive Cond where
  | tt
  | isNone (v : Var)            -- `<row attribute> is None`
  | gIsNone (v : Var)           -- `<option> is None`
  | strEq (v : Var) (s : String) -- `<row attribute> == '<literal>'`
  | gNonzero (v : Var)          -- `<option> != 0`
  | nonzero (v : Var)           -- `<table> != 0` (a boolean mask)
  | rel (a b : Var)             -- `operation(a, b)` for a comparison ufunc passed as a parameter
  | and (a b : Cond)
  | or (a b : Cond)
  | not (a : Cond)
  deriving Repr

inductive MExpr where
  | const (r : Rat)
  | var (v : Var)               -- input of the current row (element, at the current time)
  | gvar (v : Var)              -- scalar input (parameter / option)
  | at (v : Var) (k : Key)      -- node table `v` at the start / end node of the current row's link
  | add (a b : MExpr)
  | sub (a b : MExpr)
  | mul (a b : MExpr)
  | div (a b : MExpr)
  | neg (a : MExpr)
  | abs (a : MExpr)
  | pow (a : MExpr) (n : Nat)   -- `a ** <integer literal>`
  | fn1 (f : Fn1) (a : MExpr)
  | fn2 (f : Fn2) (a b : MExpr)
  | sum (i : Idx) (body : MExpr) -- `.sum(axis=1)` over the columns `i` / accumulation over a loop on `i`
  | ite (c : Cond) (a b : MExpr)
  | raise                       -- the python code raises here
  | nan                         -- pandas puts NaN here (`frame.where(mask)`)
  | lookup (keys vals : Tbl) (a : MExpr) -- `vals.iloc[np.argmin([np.abs(keys.index - a)])]`
  | round (a : MExpr)           -- `Series.round()` (half to even)
  | ind (c : Cond)              -- boolean mask used as a number
  deriving Repr

structure Row where
  num : Var → Rat := fun _ => 0
  link : Var → Key → Rat := fun _ _ => 0
  none : Var → Bool := fun _ => false
  str : Var → String := fun _ => ""
  f1 : Fn1 → Rat → Rat := fun _ x => x

structure Env where
  glob : Row := {}
  rows : Idx → List Row := fun _ => []
  f2 : Fn2 → Rat → Rat → Rat := fun _ x _ => x
  rel : Rat → Rat → Bool := fun _ _ => false
  tbl : Tbl → List (Rat × Rat) := fun _ => []

def evalC (env : Env) (row : Row) : Cond → Bool
  | .tt => true
  | .isNone v => row.none v
  | .gIsNone v => env.glob.none v
  | .strEq v s => decide (row.str v = s)
  | .gNonzero v => !decide (env.glob.num v = 0)
  | .nonzero v => !decide (row.num v = 0)
  | .rel a b => env.rel (row.num a) (row.num b)
  | .and a b => evalC env row a && evalC env row b
  | .or a b => evalC env row a || evalC env row b
  | .not a => !(evalC env row a)

def eval (env : Env) (row : Row) : MExpr → Rat
  | .const r => r
  | .var v => row.num v
  | .gvar v => env.glob.num v
  | .at v k => row.link v k
  | .add a b => eval env row a + eval env row b
  | .sub a b => eval env row a - eval env row b
  | .mul a b => eval env row a * eval env row b
  | .div a b => eval env row a / eval env row b
  | .neg a => -(eval env row a)
  | .abs a => rabs (eval env row a)
  | .pow a n => eval env row a ^ n
  | .fn1 f a => row.f1 f (eval env row a)
  | .fn2 f a b => env.f2 f (eval env row a) (eval env row b)
  | .sum i b => lsum ((env.rows i).map fun r => eval env r b)
  | .ite c a b => bif evalC env row c then eval env row a else eval env row b
  | .raise => 0
  | .nan => 0
  | .lookup k v a => ((env.tbl v).map Prod.snd).getD (nearest ((env.tbl k).map Prod.fst) (eval env row a)) 0
  | .round a => (roundHalfEven (eval env row a) : Int)
  | .ind c => bif evalC env row c then 1 else 0

/-- python reaches the end of the computation with a finite value: no `raise`, no zero denominator, no lookup in
an empty table; only the branch of a conditional that is taken counts -/
def ok (env : Env) (row : Row) : MExpr → Bool
  | .const _ => true
  | .var _ => true
  | .gvar _ => true
  | .at _ _ => true
  | .add a b => ok env row a && ok env row b
  | .sub a b => ok env row a && ok env row b
  | .mul a b => ok env row a && ok env row b
  | .div a b => ok env row a && ok env row b && !decide (eval env row b = 0)
  | .neg a => ok env row a
  | .abs a => ok env row a
  | .pow a _ => ok env row a
  | .fn1 _ a => ok env row a
  | .fn2 _ a b => ok env row a && ok env row b
  | .sum i b => (env.rows i).all fun r => ok env r b
  | .ite c a b => bif evalC env row c then ok env row a else ok env row b
  | .raise => false
  | .nan => false
  | .lookup k _ a => ok env row a && !decide (env.tbl k = [])
  | .round a => ok env row a
  | .ind _ => true

def evalO (env : Env) (row : Row) (e : MExpr) : Option Rat :=
  bif ok env row e then some (eval env row e) else none

end Wntr.Metrics
