/-
Parametric constraint rows of the WNTRSimulator hydraulic model used by C07 (pressure-dependent demand) and
C08 (leaks): the shape `wntr/sim/models/constraint.py` builds for ANY junction / tank, as `Wntr.Aml.Expr`
terms over leaf indices, plus the value-level functions they denote (generic in `Ops α`: run at `Float` in
Drivers/RowsDriver.lean, reasoned about at ℝ in Props/C07.lean, Props/C08.lean).

The generated files Gen/RowsC07.lean / Gen/RowsC08.lean contain what the CURRENT code builds for a zoo network;
`Props` proves those terms are instances of the parametric rows below.  Import-free.
-/
import WntrModel.Model.Expr
import WntrModel.Model.RowsNorm
namespace Wntr.Rows
open Wntr.Aml

/-- where a piece of code read a PDD parameter from -/
inductive Src where
  | own | glob | unused
  deriving Repr, DecidableEq, Inhabited

/-! ### C07: `pdd_constraint` -/

/-- leaf indices of one junction's PDD row (`head`, `demand` are variables, the rest parameters) -/
structure PddIx where
  head : Nat
  demand : Nat
  expected : Nat
  pmin : Nat
  pnom : Nat
  elev : Nat
  delta : Nat        -- `m.pdd_delta[j]`: the junction's smoothing band width (REPAIRED code: min(δ, (Preq−Pmin)/2))
  a1 : Nat
  b1 : Nat
  c1 : Nat
  d1 : Nat
  a2 : Nat
  b2 : Nat
  c2 : Nat
  d2 : Nat
  deriving Repr, DecidableEq, Inhabited

def eSub (a b : Expr) : Expr := .bin .sub a b
def eAdd (a b : Expr) : Expr := .bin .add a b
def eMul (a b : Expr) : Expr := .bin .mul a b
def eDiv (a b : Expr) : Expr := .bin .div a b
def ePow (a b : Expr) : Expr := .bin .pow a b

/-- `a*x**3 + b*x**2 + c*x + d` as the operator overloading of aml builds it -/
def eCubic (a b c d x : Expr) : Expr :=
  eAdd (eAdd (eAdd (eMul a (ePow x (.const 3))) (eMul b (ePow x (.const 2)))) (eMul c x)) d

/-- `pdd_constraint.build`, the non-isolated case: the 5-branch ConditionalExpression of junction `ix`
with the junction's band-width parameter, `slope` (a python float, hence a constant) and the exponent chosen for the junction. -/
def pddRow (ix : PddIx) (slope e : Rat) : Expr :=
  let h : Expr := .var ix.head
  let delta : Expr := .param ix.delta
  let d : Expr := .var ix.demand
  let D : Expr := .param ix.expected
  let pmin : Expr := .param ix.pmin
  let pnom : Expr := .param ix.pnom
  let elev : Expr := .param ix.elev
  let p := eSub h elev
  condExpr [
    (.ineq (eSub p pmin) none (some 0),
      eSub d (eMul (eMul D (.const slope)) (eSub p pmin))),
    (.ineq (eSub (eSub p pmin) delta) none (some 0),
      eSub d (eMul D (eCubic (.param ix.a1) (.param ix.b1) (.param ix.c1) (.param ix.d1) p))),
    (.ineq (eAdd (eSub p pnom) delta) none (some 0),
      eSub d (eMul D (ePow (eDiv (eSub p pmin) (eSub pnom pmin)) (.const e)))),
    (.ineq (eSub p pnom) none (some 0),
      eSub d (eMul D (eCubic (.param ix.a2) (.param ix.b2) (.param ix.c2) (.param ix.d2) p))),
    (.const 1,
      eSub d (eMul D (eAdd (eMul (.const slope) (eSub p pnom)) (.const 1))))]

/-- one junction of the generated zoo -/
structure PddZoo where
  name : String
  isolated : Bool
  ownPmin : Option Rat
  ownPnom : Option Rat
  ownExp : Option Rat
  ix : PddIx
  pminVal : Option Rat     -- value of `m.pmin[j]`
  pnomVal : Option Rat     -- value of `m.pnom[j]`
  deltaVal : Option Rat    -- value of `m.pdd_delta[j]`
  row : Option Expr        -- `m.pdd[j]` (absent when isolated)
  deriving Repr, DecidableEq, Inhabited

def PddIx.params (ix : PddIx) : List Nat :=
  [ix.expected, ix.pmin, ix.pnom, ix.elev, ix.delta, ix.a1, ix.b1, ix.c1, ix.d1, ix.a2, ix.b2, ix.c2, ix.d2]
def PddIx.vars (ix : PddIx) : List Nat := [ix.head, ix.demand]

/-- the documented choice: the junction's own value when set, else the global option -/
def choose (own : Option Rat) (glob : Rat) : Rat := own.getD glob

/-- the band width the REPAIRED `pdd_poly_coeffs_param` stores: the shipped `delta`, but never more than half of
`Preq − Pmin`, so that the two smoothing bands cannot overlap -/
def effDelta (delta pmin pnom : Rat) : Rat :=
  if delta ≤ (pnom - pmin) / 2 then delta else (pnom - pmin) / 2

/-- what the rows of the zoo must be, given ONLY the configuration (own overrides, global options).  The row is compared
SEMANTICALLY (`Norm.rowSem`: polynomial normal form over atoms, branch by branch) with the parametric row. -/
def PddZoo.ok (z : PddZoo) (delta slope gPmin gPnom gExp : Rat) : Bool :=
  if z.isolated then z.row == none
  else
    Norm.rowSemOpt z.row (some (pddRow z.ix slope (choose z.ownExp gExp))) &&
    z.pminVal == some (choose z.ownPmin gPmin) &&
    z.pnomVal == some (choose z.ownPnom gPnom) &&
    z.deltaVal == some (effDelta delta (choose z.ownPmin gPmin) (choose z.ownPnom gPnom))

/-- no leaf of junction `a`'s row is a leaf of junction `b`'s row -/
def PddZoo.disjoint (a b : PddZoo) : Bool :=
  a.ix.params.all (fun i => !b.ix.params.contains i) && a.ix.vars.all (fun i => !b.ix.vars.contains i)

def pairwiseDisjoint : List PddZoo → Bool
  | [] => true
  | z :: rest => rest.all (fun w => z.disjoint w && w.disjoint z) && pairwiseDisjoint rest

/-- the selection table of pdd_poly_coeffs_param: own value iff it is set -/
def selOk (r : Bool × Bool × Bool × Src × Src × Src) : Bool :=
  let want (b : Bool) : Src := if b then .own else .glob
  r.2.2.2.1 == want r.1 && r.2.2.2.2.1 == want r.2.1 && r.2.2.2.2.2 == want r.2.2.1

/-! #### value level -/

section value
variable {α : Type} (O : Ops α)

/-- `a·x³ + b·x² + c·x + d` with the operations of `O` (`**3`, `**2` through `pow`, as the evaluator does) -/
def cubic (co : α × α × α × α) (x : α) : α :=
  O.add (O.add (O.add (O.mul co.1 (O.pow x (O.ofRat 3))) (O.mul co.2.1 (O.pow x (O.ofRat 2)))) (O.mul co.2.2.1 x)) co.2.2.2

/-- delivered fraction of the requested demand at gauge pressure `p` (the five branches of the row) -/
def pddFrac (pmin pnom delta slope e : α) (co1 co2 : α × α × α × α) (p : α) : α :=
  if O.le (O.sub p pmin) (O.ofRat 0) then O.mul slope (O.sub p pmin)
  else if O.le (O.sub (O.sub p pmin) delta) (O.ofRat 0) then cubic O co1 p
  else if O.le (O.add (O.sub p pnom) delta) (O.ofRat 0) then O.pow (O.div (O.sub p pmin) (O.sub pnom pmin)) e
  else if O.le (O.sub p pnom) (O.ofRat 0) then cubic O co2 p
  else O.add (O.mul slope (O.sub p pnom)) (O.ofRat 1)

end value

/-! ### C08: `leak_constraint`, mass balances, result storing -/

/-- `leak_constraint.build` for a node whose head leaf is `h` and elevation leaf `elev`
(junction: `var head`, `param elevation`; tank: `param source_head`, float constant).
`c1` is the first condition as built (`inequality(h, ub=elev)`: aml moves a Param bound into the body). -/
def leakRowG (c1 h elev : Expr) (rate a b c d area cd : Nat) (delta slope twoG : Rat) : Expr :=
  let p := eSub h elev
  let r : Expr := .var rate
  condExpr [
    (c1, eSub r (eMul (.const slope) p)),
    (.ineq p none (some delta), eSub r (eCubic (.param a) (.param b) (.param c) (.param d) p)),
    (.const 1, eSub r (eMul (eMul (.param cd) (.param area)) (ePow (eMul (.const twoG) p) (.const (1/2)))))]

/-- first condition: junction (Param bound moved into the body) vs tank (float bound) -/
def leakCond1 (tank : Bool) (h elev : Expr) : Expr :=
  if tank then
    match elev with
    | .const q => .ineq h none (some q)
    | _ => .const 0
  else .ineq (eSub h elev) none (some 0)

/-- mass balance of a junction: demand − Σ inflows + Σ outflows (+ leak_rate when the leak is on) -/
def mbRow (demand : Expr) (inlets outlets : List Nat) (leak : Option Nat) : Expr :=
  let e1 := inlets.foldl (fun e l => eSub e (.var l)) demand
  let e2 := outlets.foldl (fun e l => eAdd e (.var l)) e1
  match leak with
  | none => e2
  | some r => eAdd e2 (.var r)

structure LeakZoo where
  name : String
  pdd : Bool
  tank : Bool
  leakStatus : Bool
  isolated : Bool
  demandIsVar : Bool
  demand : Nat
  inlets : List Nat
  outlets : List Nat
  rate : Nat
  h : Expr
  elev : Expr
  a : Nat
  b : Nat
  c : Nat
  d : Nat
  area : Nat
  cd : Nat
  mb : Option Expr        -- `m.mass_balance[n]` / `m.pdd_mass_balance[n]`
  leakCon : Option Expr   -- `m.leak_con[n]`
  deriving Repr, DecidableEq, Inhabited

/-- does variable `i` occur in the expression -/
def mentionsVar (i : Nat) : Expr → Bool
  | .var j => i == j
  | .param _ => false
  | .const _ => false
  | .bin _ a b => mentionsVar i a || mentionsVar i b
  | .un _ a => mentionsVar i a
  | .ifElse c t e => mentionsVar i c || mentionsVar i t || mentionsVar i e
  | .ineq b _ _ => mentionsVar i b

/-- what the zoo rows must be, given only (tank?, leak_status, isolated, mode, topology); rows compared semantically
(`Norm.rowSem`): the order of the link terms of a balance, `inequality(h, ub=elev)` vs `inequality(h-elev, ub=0)`, the order of
the factors of `Cd*A*(2g(h-elev))**0.5` do not matter; a sign, a constant, a bound, a leaf does -/
def LeakZoo.ok (z : LeakZoo) (delta slope twoG : Rat) : Bool :=
  let demandLeaf : Expr := if z.demandIsVar then .var z.demand else .param z.demand
  -- mass balance: junctions only, absent when isolated; mentions leak_rate iff leak_status
  (if z.tank || z.isolated then z.mb == none
   else Norm.rowSemOpt z.mb (some (mbRow demandLeaf z.inlets z.outlets (if z.leakStatus then some z.rate else none)))) &&
  (z.demandIsVar == z.pdd) &&
  -- leak row exists iff leak_status ∧ ¬ isolated
  (if z.leakStatus && !z.isolated then
     Norm.rowSemOpt z.leakCon
       (some (leakRowG (leakCond1 z.tank z.h z.elev) z.h z.elev z.rate z.a z.b z.c z.d z.area z.cd delta slope twoG))
   else z.leakCon == none)

section value
variable {α : Type} (O : Ops α)

/-- leak discharge at gauge pressure `p` (three branches of the row) -/
def leakRate (cd area delta slope twoG : α) (co : α × α × α × α) (p : α) : α :=
  if O.le p (O.ofRat 0) then O.mul slope p
  else if O.le p delta then cubic O co p
  else O.mul (O.mul cd area) (O.pow (O.mul twoG p) (O.ofRat (1/2)))

end value

/-- `store_results_in_network`: the leak demand reported for a junction / tank -/
def storedLeak {α : Type} (zero : α) (tank leakStatus isolated : Bool) (rate : α) : α :=
  if !tank && isolated then zero else if leakStatus then rate else zero

/-- `store_results_in_network`: tank demand = inflow − outflow − leak demand -/
def storedTankDemand {α : Type} (sub : α → α → α) (inflow outflow leak : α) : α := sub (sub inflow outflow) leak

end Wntr.Rows

/-! ### the ModelUpdater registrations (`wntr/sim/models/utils.py`) for junction / tank rows and parameters

`updater.add(node, attr, Definition.update)` makes `ModelUpdater.update(m, wn, node, attr)` re-run `Definition.build` for that
one node from its CURRENT attributes; `update_model_for_controls` calls it for every `(node, attr)` the change tracker reports,
`update_model_for_isolated_junctions_and_links` for every node whose `_is_isolated` flipped.  A Definition therefore shows the
current configuration iff every attribute its `build` READS is registered for it. -/
namespace Wntr.Rows

/-- what `create_hydraulic_model` registered for one node of the zoo: `(attribute, Definition class)` pairs -/
structure NodeRegs where
  name : String
  tank : Bool
  regs : List (String × String)
  deriving Repr, DecidableEq, Inhabited

/-- which node attributes (of the vocabulary a control can change) the `build` of a Definition reads, recorded at run time on a
junction (`tank = false`) or a tank -/
structure DefReads where
  cls : String
  tank : Bool
  reads : List String
  deriving Repr, DecidableEq, Inhabited

def subsetB (a b : List (String × String)) : Bool := a.all (fun x => b.contains x)

/-- PDD: what decides a junction's `m.pdd[j]` row and the parameters it mentions -/
def pddDeps : List (String × String) :=
  [("_is_isolated", "pdd_constraint"), ("pressure_exponent", "pdd_constraint"),
   ("minimum_pressure", "pmin_param"), ("required_pressure", "pnom_param"),
   ("minimum_pressure", "pdd_poly_coeffs_param"), ("required_pressure", "pdd_poly_coeffs_param"),
   ("pressure_exponent", "pdd_poly_coeffs_param"), ("elevation", "elevation_param")]

/-- what decides a node's leak row and its parameters -/
def leakDeps (tank : Bool) : List (String × String) :=
  [("leak_status", "leak_constraint"), ("_is_isolated", "leak_constraint"),
   ("leak_area", "leak_area_param"), ("leak_discharge_coeff", "leak_coeff_param"),
   ("leak_area", "leak_poly_coeffs_param"), ("leak_discharge_coeff", "leak_poly_coeffs_param")] ++
  (if tank then [] else [("elevation", "elevation_param")])

/-- what decides a junction's mass-balance row -/
def balanceDeps (pdd : Bool) : List (String × String) :=
  let cls := if pdd then "pdd_mass_balance_constraint" else "mass_balance_constraint"
  [("leak_status", cls), ("_is_isolated", cls)]

/-- reads that are deliberately NOT registered: a tank's elevation is a constant of its leak row (`elev = node.elevation`,
"a tank's head is a parameter of the model and its elevation is fixed") -/
def unregisteredByDesign : List (String × Bool × String) := [("leak_constraint", true, "elevation")]

/-- every attribute a Definition reads on a node of kind `tank` is registered for that Definition on zoo node `n` -/
def readsRegistered (reads : List DefReads) (n : NodeRegs) : Bool :=
  reads.all fun d =>
    d.tank != n.tank || !(n.regs.any fun r => r.2 == d.cls) ||
    d.reads.all fun a => n.regs.contains (a, d.cls) || unregisteredByDesign.contains (d.cls, d.tank, a)

/-- abstract attribute values of one node -/
abbrev Attrs := String → Int

/-- the attributes (of vocabulary `vocab`) in which two configurations differ: what the change tracker / the isolation diff
report between two model updates -/
def changedAttrs (vocab : List String) (old cur : Attrs) : List String := vocab.filter (fun a => old a != cur a)

/-- `update_model_for_controls` + `update_model_for_isolated_junctions_and_links` for ONE Definition of one node: it stays as
built from `built` unless a changed attribute is registered for it; then it is rebuilt from the CURRENT attributes -/
def updateDef (regs : List (String × String)) (cls : String) (vocab : List String) (built cur : Attrs) : Attrs :=
  if (changedAttrs vocab built cur).any (fun a => regs.contains (a, cls)) then cur else built

end Wntr.Rows

/-! ### C08: `add_leak` / `remove_leak` / the two time controls, as a state machine on one node
(mirrors `Junction/Tank.add_leak`, `add_leak` (REPAIRED: refuses before changing anything), `remove_leak` (REPAIRED: also resets `_leak_status`), `ControlAction(node,'leak_status',b)`,
`WaterNetworkModel.add_control` raising ValueError on a duplicate name) -/
namespace Wntr.Rows

structure LeakState where
  leak : Bool := false
  status : Bool := false
  area : Rat := 0
  cd : Rat := 0
  startCtl : Option Int := none     -- threshold of control `<kind><name>start_leak_control`, if registered
  endCtl : Option Int := none
  deriving Repr, DecidableEq, Inhabited

inductive LeakOp where
  | add (area cd : Rat) (start stop : Option Int)
  | remove
  | fireStart     -- the start control's action runs (presolve, sim_time = start)
  | fireEnd
  deriving Repr, DecidableEq, Inhabited

inductive Outcome where
  | ok | valueError
  deriving Repr, DecidableEq, Inhabited

def LeakState.step (s : LeakState) : LeakOp → LeakState × Outcome
  | .add area cd start stop =>
    -- REPAIRED (/repo 943c6495): both control names are checked before anything is changed
    if (start.isSome && s.startCtl.isSome) || (stop.isSome && s.endCtl.isSome) then (s, .valueError)
    else
      let s1 := { s with leak := true, area := area, cd := cd }
      let s2 := match start with
        | some t => { s1 with startCtl := some t }
        | none => s1
      let s3 := match stop with
        | some u => { s2 with endCtl := some u }
        | none => s2
      (s3, .ok)
  | .remove => ({ s with leak := false, status := false, startCtl := none, endCtl := none }, .ok)
  | .fireStart => (if s.startCtl.isSome then { s with status := true } else s, .ok)
  | .fireEnd => (if s.endCtl.isSome then { s with status := false } else s, .ok)

def LeakState.run (s : LeakState) : List LeakOp → LeakState
  | [] => s
  | op :: rest => ((s.step op).1).run rest

end Wntr.Rows
