/-
M6 `Expr` — the expression language of `wntr.sim.aml` (shared by C01, C02, C07, C08, C15).

* `Expr` is the tree an `aml` expression denotes (leaves: variables, parameters, float constants).
* `Ops α` bundles the value-level operations so that one `eval` serves `Float` (driver, differential
  runs), `Rat` (exact polynomial fragment) and `ℝ` (theorems; instance built from Mathlib in Lemmas/).
* Conditions (`ineq`) evaluate to `one`/`zero` as in the C++ evaluator; `ifElse` tests `== one`.
This file is import-free.
-/
namespace Wntr.Aml

inductive Bin where
  | add | sub | mul | div | pow
  deriving Repr, DecidableEq, Inhabited

inductive Un where
  | neg | abs | sign | exp | log | sin | cos | tan | asin | acos | atan
  deriving Repr, DecidableEq, Inhabited

inductive Expr where
  | var (i : Nat)
  | param (i : Nat)
  | const (q : Rat)
  | bin (op : Bin) (a b : Expr)
  | un (op : Un) (a : Expr)
  | ifElse (c t e : Expr)
  | ineq (body : Expr) (lb ub : Option Rat)   -- lb ≤ body ≤ ub, closed; `none` = the ∓inf float Python stores
  deriving Repr, DecidableEq, Inhabited

/-- the operations a value type must supply -/
structure Ops (α : Type) where
  ofRat : Rat → α
  add : α → α → α
  sub : α → α → α
  mul : α → α → α
  div : α → α → α
  pow : α → α → α
  neg : α → α
  abs : α → α
  sign : α → α          -- Python/C++: 1 if x ≥ 0 else −1
  exp : α → α
  log : α → α
  sin : α → α
  cos : α → α
  tan : α → α
  asin : α → α
  acos : α → α
  atan : α → α
  le : α → α → Bool
  isOne : α → Bool     -- the `== 1` test of if_else

structure Env (α : Type) where
  var : Nat → α
  param : Nat → α

def Ops.bin (O : Ops α) : Bin → α → α → α
  | .add => O.add | .sub => O.sub | .mul => O.mul | .div => O.div | .pow => O.pow

def Ops.un (O : Ops α) : Un → α → α
  | .neg => O.neg | .abs => O.abs | .sign => O.sign | .exp => O.exp | .log => O.log
  | .sin => O.sin | .cos => O.cos | .tan => O.tan | .asin => O.asin | .acos => O.acos | .atan => O.atan

def Ops.ofBool (O : Ops α) (b : Bool) : α := if b then O.ofRat 1 else O.ofRat 0

def eval (O : Ops α) (env : Env α) : Expr → α
  | .var i => env.var i
  | .param i => env.param i
  | .const q => O.ofRat q
  | .bin op a b => O.bin op (eval O env a) (eval O env b)
  | .un op a => O.un op (eval O env a)
  | .ifElse c t e => if O.isOne (eval O env c) then eval O env t else eval O env e
  | .ineq b lb ub =>
    let v := eval O env b
    O.ofBool ((match lb with | none => true | some l => O.le (O.ofRat l) v) &&
              (match ub with | none => true | some u => O.le v (O.ofRat u)))

/-- a `ConditionalExpression`: first branch whose condition is true (last condition is the constant 1) -/
def condExpr : List (Expr × Expr) → Expr
  | [] => .const 0
  | [(_, e)] => e
  | (c, e) :: rest => .ifElse c e (condExpr rest)

/-! ### Float instance (used by drivers only) -/

def ratToFloat (q : Rat) : Float :=
  Float.ofInt q.num / Float.ofNat q.den

def floatOps : Ops Float where
  ofRat := ratToFloat
  add := (· + ·)
  sub := (· - ·)
  mul := (· * ·)
  div := (· / ·)
  pow := Float.pow
  neg := fun x => -x
  abs := Float.abs
  sign := fun x => if x >= 0 then 1 else -1
  exp := Float.exp
  log := Float.log
  sin := Float.sin
  cos := Float.cos
  tan := Float.tan
  asin := Float.asin
  acos := Float.acos
  atan := Float.atan
  le := fun a b => a <= b
  isOne := fun x => x == 1

end Wntr.Aml
