/-
M1 `Units` — the shape of EPANET<->SI conversions as WNTR performs them.

`wntr/epanet/util.py` converts a value by a short chain of multiplications/divisions by
floating-point constants that depends on (parameter, flow unit, mass unit, reaction order,
Darcy-Weisbach flag).  The chain that the CURRENT code performs is recorded by the translator
(`harness/props/c17.py`, symbolic tracing of `_to_si/_from_si`) in `Gen/Units.lean` as a table of
`Entry`s; constants are the exact rational values of the doubles the code multiplies by.
This file is import-free so that the driver can use it.
-/
namespace Wntr.Units

inductive Step where
  | mul (c : Rat)
  | div (c : Rat)
  deriving Repr, DecidableEq

def Step.apply (s : Step) (x : Rat) : Rat :=
  match s with
  | .mul c => x * c
  | .div c => x / c

/-- the chain applied left to right, exactly as `data = data * c` statements execute -/
def applySteps (l : List Step) (x : Rat) : Rat := l.foldl (fun acc s => s.apply acc) x

def Step.factor : Step → Rat
  | .mul c => c
  | .div c => 1 / c

def factor (l : List Step) : Rat := l.foldl (fun f s => f * s.factor) 1

def Step.nz : Step → Bool
  | .mul c => c != 0
  | .div c => c != 0

/-- one row of the traced table.  `hyd`: HydParam (true) or QualParam (false); `param`: the enum's
integer value; `unit`: FlowUnits EN id (0..9, 11 = SI); `mass`: MassUnits id (1 mg, 2 ug, 3 g, 4 kg;
0 for HydParam); `order`: reaction order; `dw`: Darcy-Weisbach flag. -/
structure Entry where
  hyd : Bool
  param : Nat
  unit : Nat
  mass : Nat
  order : Nat
  dw : Bool
  toSteps : List Step
  fromSteps : List Step
  deriving Repr

def Entry.toSI (e : Entry) (x : Rat) : Rat := applySteps e.toSteps x
def Entry.fromSI (e : Entry) (x : Rat) : Rat := applySteps e.fromSteps x

def Entry.sameKey (e : Entry) (hyd : Bool) (param unit mass order : Nat) (dw : Bool) : Bool :=
  e.hyd == hyd && e.param == param && e.unit == unit && e.mass == mass && e.order == order && e.dw == dw

def lookup (t : List Entry) (hyd : Bool) (param unit mass order : Nat) (dw : Bool) : Option Entry :=
  t.find? (fun e => e.sameKey hyd param unit mass order dw)

end Wntr.Units
