/-
M3 `Registry` — the element registries of `wntr.network.WaterNetworkModel` and their bookkeeping.

Mirrors, line by line (Python exceptions become `Out`, the state returned is the state the object is
really left in):
  wntr/network/base.py     Registry.__delitem__/add_usage/remove_usage, Link.__init__, start/end node setters
  wntr/network/model.py    NodeRegistry/LinkRegistry/CurveRegistry/SourceRegistry __setitem__/__delitem__,
                           add_junction/tank/reservoir/pipe/pump/valve/pattern/curve/source/control, remove_*
  wntr/network/elements.py Junction.add_demand, Tank.vol_curve_name, Reservoir.head_pattern_name,
                           Pump.speed_pattern_name, HeadPump.pump_curve_name, GPValve.headloss_curve_name, Source

The model is parametrised by a `Variant`: `coded` is the pinned tree before the C14 repairs, `repaired` is
the code after fixes/C14-*.patch.  Each flag is one repair.

Names are natural numbers (the harness interns the strings); Python's "falsy key" (`None`, `''`) is
`Option.none`.  Modelling assumptions (stated in harness/props/c14.py):
  * no element is named `''`, no pattern is named like `options.hydraulic.pattern` (the default '1');
  * patterns have at least one multiplier (a `Pattern` object is truthy);
  * `_link_reg._usage` and `_sources._usage` are never written by any code path and are omitted.
-/
namespace Wntr.Registry

abbrev Name := Nat

inductive NodeKind | junction | tank | reservoir
  deriving DecidableEq, Repr

inductive LinkKind | pipe | headPump | powerPump | prv | psv | pbv | tcv | fcv | gpv
  deriving DecidableEq, Repr

/-- the type string in a usage tuple `(name, typestr)` -/
inductive UKind | pipe | pump | valve | source | junction | reservoir | tank
  deriving DecidableEq, Repr

inductive CurveType | head | headloss | volume | efficiency
  deriving DecidableEq, Repr

/-- the typed `OrderedSet`s of NodeRegistry, LinkRegistry and CurveRegistry -/
inductive TSet
  | junctions | tanks | reservoirs
  | pipes | pumps | headPumps | powerPumps | prvs | psvs | pbvs | tcvs | fcvs | gpvs | valves
  | pumpCurves | effCurves | headlossCurves | volCurves
  deriving DecidableEq, Repr

/-- which registry's `_usage` map; `patternObj` = records of the pattern registry that are keyed by a
`Pattern` *object* instead of its name (written by `Source.__init__` as coded) -/
inductive RegId | node | pattern | curve | patternObj
  deriving DecidableEq, Repr

inductive Out | ok | refused | error
  deriving DecidableEq, Repr

abbrev User := Name × UKind

structure NodeInfo where
  kind : NodeKind
  pat : Option Name      -- junction: demand pattern; reservoir: head pattern
  curve : Option Name    -- tank: volume curve
  demands : List (Option Name × Bool)   -- junction: the pattern name of every entry of demand_timeseries_list, in order
                         -- (`none` = default pattern), and whether the entry has category 'Fire_Flow'
  uid : Nat              -- object identity (controls refer to objects, not names)
  deriving DecidableEq, Repr

structure LinkInfo where
  kind : LinkKind
  start : Name
  end_ : Name
  pat : Option Name      -- pump: speed pattern
  curve : Option Name    -- head pump: pump curve; GPV: headloss curve
  uid : Nat
  deriving DecidableEq, Repr

structure SourceInfo where
  node : Name
  pat : Option Name
  deriving DecidableEq, Repr

/-- one repair per flag (see fixes/C14-*.md) -/
structure Variant where
  delPatternReg : Bool        -- __delitem__ of nodes/links releases pattern usage in the PATTERN registry, by name
  linkInitResolveFirst : Bool -- Link.__init__ looks up both end nodes before registering usage
  curveDelTyped : Bool        -- CurveRegistry.__delitem__ cleans the typed curve sets
  sourceUsageByName : Bool    -- Source.__init__ registers pattern usage under the pattern NAME
  tolerantRemove : Bool       -- Registry.remove_usage does nothing when the key has no usage record
  setterKeepsSharedEnd : Bool -- start/end node setters keep the record of a node that is still the other end
  rejectDuplicates : Bool     -- add_junction/tank/reservoir/pipe/pump/valve/source refuse an existing name
  curveTypeNeedsKey : Bool    -- set_curve_type ignores names that are not curves
  controlsAfter : Bool        -- remove_node/remove_link(with_control) drop the controls after the element
  demandUsageByName : Bool    -- Junction.add_demand registers a Pattern OBJECT under the pattern's name
  delNodeSweeps : Bool        -- NodeRegistry.__delitem__ releases the junction from EVERY pattern record
  fireKeepsShared : Bool      -- remove_fire_fighting_demand keeps usage / pattern that something else still refers to
  leakChecksFirst : Bool      -- add_leak tests both control names before it adds the first control
  sourceNodeMoves : Bool      -- the Source.node_name setter moves the node usage record
  assignRegisters : Bool      -- assign_demand registers the usage of the pattern it creates (through add_demand)
  renameMoves : Bool          -- the Source.name setter moves the registry entry and the usage records
  demandsSync : Bool          -- Demands (insert/append/__setitem__/__delitem__/clear) keeps the junction's pattern usage in step
  deriving DecidableEq, Repr

def coded : Variant := ⟨false, false, false, false, false, false, false, false, false, false, false, false, false, false, false, false, false⟩
def repaired : Variant := ⟨true, true, true, true, true, true, true, true, true, true, true, true, true, true, true, true, true⟩
/-- the tree with the repairs of rounds 1-3 but without those of round 4 -/
def round3 : Variant := ⟨true, true, true, true, true, true, true, true, true, true, true, true, false, false, false, false, false⟩
/-- the tree with the repairs of rounds 1-5 (assign_demand registers), before the source rename repair -/
def round5 : Variant := ⟨true, true, true, true, true, true, true, true, true, true, true, true, true, true, true, false, false⟩
/-- the tree with every repair but fixes/C14-demands-keep-pattern-usage-in-step -/
def round6 : Variant := ⟨true, true, true, true, true, true, true, true, true, true, true, true, true, true, true, true, false⟩
/-- the tree with the repairs of rounds 1-4 -/
def round4 : Variant := ⟨true, true, true, true, true, true, true, true, true, true, true, true, true, true, false, false, false⟩
/-- the tree with the first nine repairs (round 1) but without the three of round 2 -/
def round1 : Variant := ⟨true, true, true, true, true, true, true, true, true, false, false, false, false, false, false, false, false⟩

/-! ### association lists (OrderedDict) and ordered sets -/

namespace AL
variable {α : Type}

def get? : List (Name × α) → Name → Option α
  | [], _ => none
  | (k, v) :: t, x => if k = x then some v else get? t x

/-- `d[x] = v`: replaces in place, appends when new -/
def set : List (Name × α) → Name → α → List (Name × α)
  | [], x, v => [(x, v)]
  | (k, w) :: t, x, v => if k = x then (k, v) :: t else (k, w) :: set t x v

/-- `d.pop(x, None)` -/
def del : List (Name × α) → Name → List (Name × α)
  | [], _ => []
  | (k, w) :: t, x => if k = x then del t x else (k, w) :: del t x

def keys (l : List (Name × α)) : List Name := l.map Prod.fst

def has (l : List (Name × α)) (x : Name) : Bool := (get? l x).isSome
end AL

namespace OSet
variable {β : Type} [DecidableEq β]
def add (l : List β) (x : β) : List β := if x ∈ l then l else l ++ [x]
def discard (l : List β) (x : β) : List β := l.filter (fun y => y ≠ x)
end OSet

/-! ### the state -/

structure Reg where
  nodes : List (Name × NodeInfo)
  links : List (Name × LinkInfo)
  patterns : List Name
  curves : List Name
  sources : List (Name × SourceInfo)
  controls : List (Name × List Nat)          -- name ↦ uids of the required nodes/links
  usage : RegId → List (Name × List User)
  typed : TSet → List Name
  nextUid : Nat

def init : Reg :=
  { nodes := [], links := [], patterns := [], curves := [], sources := [], controls := [],
    usage := fun _ => [], typed := fun _ => [], nextUid := 0 }

def users (s : Reg) (r : RegId) (k : Name) : List User := (AL.get? (s.usage r) k).getD []

def setUsage (s : Reg) (r : RegId) (m : List (Name × List User)) : Reg :=
  { s with usage := fun r' => if r' = r then m else s.usage r' }

def setTyped (s : Reg) (t : TSet) (l : List Name) : Reg :=
  { s with typed := fun t' => if t' = t then l else s.typed t' }

/-- `Registry.add_usage(key, arg)` -/
def addUsage (s : Reg) (r : RegId) (k : Name) (u : User) : Reg :=
  setUsage s r (AL.set (s.usage r) k (OSet.add (users s r k) u))

/-- `add_usage` with a possibly falsy key (`if not key: return`) -/
def addUsage? (s : Reg) (r : RegId) (k : Option Name) (u : User) : Reg :=
  match k with
  | none => s
  | some k => addUsage s r k u

/-- `Registry.remove_usage(key, arg)` when `key` has a record: discard, pop the record when it became empty -/
def removeUsageT (s : Reg) (r : RegId) (k : Name) (u : User) : Reg :=
  if (OSet.discard (users s r k) u).isEmpty then setUsage s r (AL.del (s.usage r) k)
  else setUsage s r (AL.set (s.usage r) k (OSet.discard (users s r k) u))

/-- `Registry.remove_usage(key, arg)`; `none` = `KeyError` (raised before anything was changed) -/
def removeUsage (v : Variant) (s : Reg) (r : RegId) (k : Name) (u : User) : Option Reg :=
  match AL.get? (s.usage r) k with
  | none => if v.tolerantRemove then some s else none
  | some _ => some (removeUsageT s r k u)

/-- `for k in list(registry._usage): registry.remove_usage(k, u)` — release `u` from every record -/
def removeUserAll (s : Reg) (r : RegId) (u : User) : Reg :=
  (AL.keys (s.usage r)).foldl (fun acc k => removeUsageT acc r k u) s

/-- `remove_usage` with a possibly falsy key where the record is known to be tolerated (repaired code only) -/
def removeUsage?T (s : Reg) (r : RegId) (k : Option Name) (u : User) : Reg :=
  match k with
  | none => s
  | some k => removeUsageT s r k u

/-- `for p in names: registry.remove_usage(p, u)` -/
def releaseAll (s : Reg) (r : RegId) (ks : List Name) (u : User) : Reg :=
  ks.foldl (fun acc k => removeUsageT acc r k u) s

def removeUsage? (v : Variant) (s : Reg) (r : RegId) (k : Option Name) (u : User) : Option Reg :=
  match k with
  | none => some s
  | some k => removeUsage v s r k u

def typedAdd (s : Reg) (t : TSet) (k : Name) : Reg := setTyped s t (OSet.add (s.typed t) k)
def typedDiscard (s : Reg) (t : TSet) (k : Name) : Reg := setTyped s t (OSet.discard (s.typed t) k)

def typedAddAll (s : Reg) : List TSet → Name → Reg
  | [], _ => s
  | t :: ts, k => typedAddAll (typedAdd s t k) ts k

def typedDiscardAll (s : Reg) : List TSet → Name → Reg
  | [], _ => s
  | t :: ts, k => typedDiscardAll (typedDiscard s t k) ts k

/-! ### classification tables (the `isinstance` chains of `__setitem__`) -/

def nodeSet : NodeKind → TSet
  | .junction => .junctions
  | .tank => .tanks
  | .reservoir => .reservoirs

/-- order of the `discard`s in `NodeRegistry.__delitem__` -/
def nodeSets : List TSet := [.junctions, .reservoirs, .tanks]

/-- the sets `LinkRegistry.__setitem__` adds the key to, in that order -/
def linkSets : LinkKind → List TSet
  | .pipe => [.pipes]
  | .headPump => [.pumps, .headPumps]
  | .powerPump => [.pumps, .powerPumps]
  | .prv => [.valves, .prvs]
  | .psv => [.valves, .psvs]
  | .pbv => [.valves, .pbvs]
  | .tcv => [.valves, .tcvs]
  | .fcv => [.valves, .fcvs]
  | .gpv => [.valves, .gpvs]

/-- `LinkRegistry.__subsets` -/
def allLinkSets : List TSet :=
  [.pipes, .pumps, .headPumps, .powerPumps, .prvs, .psvs, .pbvs, .tcvs, .fcvs, .gpvs, .valves]

def curveSets : List TSet := [.pumpCurves, .effCurves, .headlossCurves, .volCurves]

def curveSet : CurveType → TSet
  | .head => .pumpCurves
  | .headloss => .headlossCurves
  | .volume => .volCurves
  | .efficiency => .effCurves

/-- `link.link_type` -/
def ltype : LinkKind → UKind
  | .pipe => .pipe
  | .headPump | .powerPump => .pump
  | .prv | .psv | .pbv | .tcv | .fcv | .gpv => .valve

def isPump : LinkKind → Bool
  | .headPump | .powerPump => true
  | _ => false

/-- the typestr a node registers in the pattern registry -/
def nodePatUser : NodeKind → Option UKind
  | .junction => some .junction
  | .reservoir => some .reservoir
  | .tank => none

/-! ### the call sites of `add_usage` / `remove_usage` / `set_curve_type` in the code

Every usage-bookkeeping call the operations below make names its call site; WHICH registry the call goes to is read off `siteReg`.
`expectedUsageCalls` is the same table with the source text of each call; the translator harness/translate/c14_registry_calls.py
regenerates `Gen/RegistryCalls.lean` from the source on every run and Props/C14.lean proves the two equal (`decide`): a call that
moves to another registry, a new or a dropped call, or a changed key expression breaks that theorem. -/

inductive Site
  | linkInitStart | linkInitEnd | startSetRemove | startSetAdd | endSetRemove | endSetAdd
  | addSourcePat | addSourceNode | removeSourcePat | removeSourceNode | curveSetitemType
  | srcDelPat | srcDelNode | nodeDelJunction | nodeDelReservoir | nodeDelTank
  | linkDelStart | linkDelEnd | linkDelHeadloss | linkDelSpeed | linkDelPumpCurve
  | addDemand | addFire | removeFire | demandsRemove | demandsAdd | volCurveRemove | volCurveAdd | headPatRemove | headPatAdd | speedPatRemove | speedPatAdd
  | pumpCurveRemove | pumpCurveAdd | pumpCurveType | powerRemove | headlossRemove | headlossAdd | headlossType
  | sourceInitPat | sourceInitNode | srcRenamePatRemove | srcRenamePatAdd | srcRenameNodeRemove | srcRenameNodeAdd
  | sourceNodeRemove | sourceNodeAdd
  deriving DecidableEq, Repr

/-- the registry a call site talks to -/
@[reducible] def siteReg : Site → RegId
  | .linkInitStart | .linkInitEnd | .startSetRemove | .startSetAdd | .endSetRemove | .endSetAdd => .node
  | .addSourceNode | .removeSourceNode | .srcDelNode | .linkDelStart | .linkDelEnd | .sourceInitNode | .sourceNodeRemove
  | .sourceNodeAdd | .srcRenameNodeRemove | .srcRenameNodeAdd => .node
  | .addSourcePat | .removeSourcePat | .srcDelPat | .nodeDelJunction | .nodeDelReservoir | .linkDelSpeed | .addDemand | .addFire
  | .removeFire | .demandsRemove | .demandsAdd | .headPatRemove | .headPatAdd | .speedPatRemove | .speedPatAdd | .sourceInitPat | .srcRenamePatRemove
  | .srcRenamePatAdd => .pattern
  | .curveSetitemType | .nodeDelTank | .linkDelHeadloss | .linkDelPumpCurve | .volCurveRemove | .volCurveAdd | .pumpCurveRemove
  | .pumpCurveAdd | .pumpCurveType | .powerRemove | .headlossRemove | .headlossAdd | .headlossType => .curve

def regS : RegId → String | .node => "node" | .pattern => "pattern" | .curve => "curve" | .patternObj => "pattern-object"

/-- (site in the source, method called, key expression, user expression) -/
def siteInfo : Site → String × String × String × String
  | .linkInitStart => ("Link.__init__", "add_usage", "start_node_name", "(link_name, self.link_type)")
  | .linkInitEnd => ("Link.__init__", "add_usage", "end_node_name", "(link_name, self.link_type)")
  | .startSetRemove => ("Link.start_node.setter", "remove_usage", "self.start_node_name", "(self._link_name, self.link_type)")
  | .startSetAdd => ("Link.start_node.setter", "add_usage", "node.name", "(self._link_name, self.link_type)")
  | .endSetRemove => ("Link.end_node.setter", "remove_usage", "self.end_node_name", "(self._link_name, self.link_type)")
  | .endSetAdd => ("Link.end_node.setter", "add_usage", "node.name", "(self._link_name, self.link_type)")
  | .addSourcePat => ("WaterNetworkModel.add_source", "add_usage", "source.strength_timeseries.pattern_name", "(source.name, 'Source')")
  | .addSourceNode => ("WaterNetworkModel.add_source", "add_usage", "source.node_name", "(source.name, 'Source')")
  | .removeSourcePat => ("WaterNetworkModel.remove_source", "remove_usage", "source.strength_timeseries.pattern_name", "(source.name, 'Source')")
  | .removeSourceNode => ("WaterNetworkModel.remove_source", "remove_usage", "source.node_name", "(source.name, 'Source')")
  | .curveSetitemType => ("CurveRegistry.__setitem__", "set_curve_type", "key", "value.curve_type")
  | .srcDelPat => ("SourceRegistry.__delitem__", "remove_usage", "source.strength_timeseries.pattern_name", "(source.name, 'Source')")
  | .srcDelNode => ("SourceRegistry.__delitem__", "remove_usage", "source.node_name", "(source.name, 'Source')")
  | .nodeDelJunction => ("NodeRegistry.__delitem__", "remove_usage", "pat_name", "(node.name, 'Junction')")
  | .nodeDelReservoir => ("NodeRegistry.__delitem__", "remove_usage", "node.head_pattern_name", "(node.name, 'Reservoir')")
  | .nodeDelTank => ("NodeRegistry.__delitem__", "remove_usage", "node.vol_curve_name", "(node.name, 'Tank')")
  | .linkDelStart => ("LinkRegistry.__delitem__", "remove_usage", "link.start_node_name", "(link.name, link.link_type)")
  | .linkDelEnd => ("LinkRegistry.__delitem__", "remove_usage", "link.end_node_name", "(link.name, link.link_type)")
  | .linkDelHeadloss => ("LinkRegistry.__delitem__", "remove_usage", "link.headloss_curve_name", "(link.name, 'Valve')")
  | .linkDelSpeed => ("LinkRegistry.__delitem__", "remove_usage", "link.speed_pattern_name", "(link.name, 'Pump')")
  | .linkDelPumpCurve => ("LinkRegistry.__delitem__", "remove_usage", "link.pump_curve_name", "(link.name, 'Pump')")
  | .addDemand => ("Junction.add_demand", "add_usage", "key", "(self.name, 'Junction')")
  | .addFire => ("Junction.add_fire_fighting_demand", "add_usage", "pattern_name", "(self.name, 'Junction')")
  | .removeFire => ("Junction.remove_fire_fighting_demand", "remove_usage", "pattern_name", "(self.name, 'Junction')")
  | .demandsRemove => ("Demands._edit", "remove_usage", "p", "self._user")
  | .demandsAdd => ("Demands._edit", "add_usage", "p", "self._user")
  | .volCurveRemove => ("Tank.vol_curve_name.setter", "remove_usage", "self._vol_curve_name", "(self._name, 'Tank')")
  | .volCurveAdd => ("Tank.vol_curve_name.setter", "add_usage", "name", "(self._name, 'Tank')")
  | .headPatRemove => ("Reservoir.head_pattern_name.setter", "remove_usage", "self._head_timeseries.pattern_name", "(self.name, 'Reservoir')")
  | .headPatAdd => ("Reservoir.head_pattern_name.setter", "add_usage", "name", "(self.name, 'Reservoir')")
  | .speedPatRemove => ("Pump.speed_pattern_name.setter", "remove_usage", "self._speed_timeseries.pattern_name", "(self.name, 'Pump')")
  | .speedPatAdd => ("Pump.speed_pattern_name.setter", "add_usage", "name", "(self.name, 'Pump')")
  | .pumpCurveRemove => ("HeadPump.pump_curve_name.setter", "remove_usage", "self._pump_curve_name", "(self._link_name, 'Pump')")
  | .pumpCurveAdd => ("HeadPump.pump_curve_name.setter", "add_usage", "name", "(self._link_name, 'Pump')")
  | .pumpCurveType => ("HeadPump.pump_curve_name.setter", "set_curve_type", "name", "'HEAD'")
  | .powerRemove => ("PowerPump.power.setter", "remove_usage", "self._pump_curve_name", "(self._link_name, 'Pump')")   -- key is always None
  | .headlossRemove => ("GPValve.headloss_curve_name.setter", "remove_usage", "self._headloss_curve_name", "(self._link_name, 'Valve')")
  | .headlossAdd => ("GPValve.headloss_curve_name.setter", "add_usage", "name", "(self._link_name, 'Valve')")
  | .headlossType => ("GPValve.headloss_curve_name.setter", "set_curve_type", "name", "'HEADLOSS'")
  | .sourceInitPat => ("Source.__init__", "add_usage", "self._strength_timeseries.pattern_name", "(name, 'Source')")
  | .sourceInitNode => ("Source.__init__", "add_usage", "node_name", "(name, 'Source')")
  | .srcRenamePatRemove => ("Source.name.setter", "remove_usage", "pat", "(self._name, 'Source')")
  | .srcRenamePatAdd => ("Source.name.setter", "add_usage", "pat", "(value, 'Source')")
  | .srcRenameNodeRemove => ("Source.name.setter", "remove_usage", "self._node_name", "(self._name, 'Source')")
  | .srcRenameNodeAdd => ("Source.name.setter", "add_usage", "self._node_name", "(value, 'Source')")
  | .sourceNodeRemove => ("Source.node_name.setter", "remove_usage", "self._node_name", "(self._name, 'Source')")
  | .sourceNodeAdd => ("Source.node_name.setter", "add_usage", "value", "(self._name, 'Source')")

/-- in the order the translator emits them (files base.py, model.py, elements.py; source order) -/
def allSites : List Site :=
  [.linkInitStart, .linkInitEnd, .startSetRemove, .startSetAdd, .endSetRemove, .endSetAdd,
   .addSourcePat, .addSourceNode, .removeSourcePat, .removeSourceNode, .curveSetitemType, .srcDelPat, .srcDelNode,
   .nodeDelJunction, .nodeDelReservoir, .nodeDelTank, .linkDelStart, .linkDelEnd, .linkDelHeadloss, .linkDelSpeed, .linkDelPumpCurve,
   .addDemand, .addFire, .removeFire, .volCurveRemove, .volCurveAdd, .headPatRemove, .headPatAdd, .speedPatRemove, .speedPatAdd,
   .pumpCurveRemove, .pumpCurveAdd, .pumpCurveType, .powerRemove, .headlossRemove, .headlossAdd, .headlossType,
   .demandsRemove, .demandsAdd, .sourceInitPat, .sourceInitNode, .srcRenamePatRemove, .srcRenamePatAdd, .srcRenameNodeRemove, .srcRenameNodeAdd,
   .sourceNodeRemove, .sourceNodeAdd]

def siteRow (st : Site) : String × String × String × String × String :=
  ((siteInfo st).1, (siteInfo st).2.1, regS (siteReg st), (siteInfo st).2.2.1, (siteInfo st).2.2.2)

def expectedUsageCalls : List (String × String × String × String × String) :=
  allSites.map fun st => ((siteInfo st).1, (siteInfo st).2.1, regS (siteReg st), (siteInfo st).2.2.1, (siteInfo st).2.2.2)

def tsetAttr : TSet → String
  | .junctions => "_junctions" | .tanks => "_tanks" | .reservoirs => "_reservoirs" | .pipes => "_pipes" | .pumps => "_pumps"
  | .headPumps => "_head_pumps" | .powerPumps => "_power_pumps" | .prvs => "_prvs" | .psvs => "_psvs" | .pbvs => "_pbvs"
  | .tcvs => "_tcvs" | .fcvs => "_fcvs" | .gpvs => "_gpvs" | .valves => "_valves" | .pumpCurves => "_pump_curves"
  | .effCurves => "_efficiency_curves" | .headlossCurves => "_headloss_curves" | .volCurves => "_volume_curves"

/-- the tables the typed-set operations of the model are defined from, in the translator's format -/
def expectedTypedAdds : List (String × List String) :=
  [("Junction", [tsetAttr (nodeSet .junction)]), ("Tank", [tsetAttr (nodeSet .tank)]), ("Reservoir", [tsetAttr (nodeSet .reservoir)]),
   ("Pipe", (linkSets .pipe).map tsetAttr), ("HeadPump", (linkSets .headPump).map tsetAttr), ("PowerPump", (linkSets .powerPump).map tsetAttr),
   ("PRValve", (linkSets .prv).map tsetAttr), ("PSValve", (linkSets .psv).map tsetAttr), ("PBValve", (linkSets .pbv).map tsetAttr),
   ("TCValve", (linkSets .tcv).map tsetAttr), ("FCValve", (linkSets .fcv).map tsetAttr), ("GPValve", (linkSets .gpv).map tsetAttr)]

def expectedTypedDiscards : List (String × List String) :=
  [("NodeRegistry", nodeSets.map tsetAttr), ("LinkRegistry", allLinkSets.map tsetAttr), ("CurveRegistry", curveSets.map tsetAttr)]

def expectedCurveTypeSets : List (String × List String) :=
  [("HEAD", [tsetAttr (curveSet .head)]), ("HEADLOSS", [tsetAttr (curveSet .headloss)]), ("VOLUME", [tsetAttr (curveSet .volume)]),
   ("EFFICIENCY", [tsetAttr (curveSet .efficiency)])]

/-! ### registry `__setitem__` -/

def setNode (s : Reg) (k : Name) (i : NodeInfo) : Reg :=
  typedAdd { s with nodes := AL.set s.nodes k i } (nodeSet i.kind) k

def setLink (s : Reg) (k : Name) (i : LinkInfo) : Reg :=
  typedAddAll { s with links := AL.set s.links k i } (linkSets i.kind) k

/-- `CurveRegistry.set_curve_type(key, type)` -/
def setCurveType (v : Variant) (s : Reg) (k : Name) (t : CurveType) : Reg :=
  if v.curveTypeNeedsKey && !(s.curves.contains k) then s else typedAdd s (curveSet t) k

def setCurveType? (v : Variant) (s : Reg) (k : Option Name) (t : CurveType) : Reg :=
  match k with
  | none => s
  | some k => setCurveType v s k t

def bumpUid (s : Reg) : Reg := { s with nextUid := s.nextUid + 1 }

/-! ### operations -/

inductive PumpSpec | head (curve : Name) | power
  deriving DecidableEq, Repr

inductive Op
  | addJunction (name : Name) (pat : Option Name) (obj : Bool)   -- obj: the pattern is passed as a Pattern object
  | addDemand (node : Name) (pat : Option Name) (obj : Bool)    -- junction.add_demand(base, pattern)
  | delDemand (node : Name) (idx : Nat)                         -- del junction.demand_timeseries_list[idx]
  | addFire (node pat : Name)                                   -- junction.add_fire_fighting_demand(wn, ..., pattern_name)
  | removeFire (node : Name)                                    -- junction.remove_fire_fighting_demand(wn)
  | addLeak (node : Name) (start end_ : Bool)                   -- node.add_leak(wn, area, start_time?, end_time?)
  | removeLeak (node : Name)                                    -- node.remove_leak(wn)
  | setSourceNode (src node : Name)                             -- wn.get_source(src).node_name = node
  | renameSource (src new : Name)                               -- wn.get_source(src).name = new
  | insertDemand (node : Name) (idx : Nat) (pat : Option Name)  -- junction.demand_timeseries_list.insert(idx, (base, pat))
  | clearDemands (node : Name)                                  -- wn.get_node(node).demand_timeseries_list.clear()
  | assignDemand (node pat : Name)                              -- wn.assign_demand(DataFrame({node: ...}), prefix): pat = prefix + node
  | addTank (name : Name) (curve : Option Name)
  | addReservoir (name : Name) (pat : Option Name)
  | addPipe (name a b : Name)
  | addPump (name a b : Name) (spec : PumpSpec) (pat : Option Name)
  | addValve (name a b : Name) (kind : LinkKind) (curve : Option Name)   -- kind must be a valve kind
  | addPattern (name : Name)
  | addCurve (name : Name) (t : Option CurveType)
  | addSource (name node : Name) (pat : Option Name)
  | addControl (name : Name) (nodes links : List Name)
  | updateControl (name : Name) (nodes links : List Name)   -- `rule.update_then_actions(...)`: new required set
  | removeNode (name : Name) (withControl force : Bool)
  | removeLink (name : Name) (withControl force : Bool)
  | removePattern (name : Name)
  | removeCurve (name : Name)
  | removeSource (name : Name)
  | removeControl (name : Name)
  | setStart (link node : Name)
  | setEnd (link node : Name)
  | setSpeedPattern (link : Name) (pat : Option Name)
  | setPumpCurve (link : Name) (curve : Name)
  | setHeadPattern (node : Name) (pat : Option Name)
  | setVolCurve (node : Name) (curve : Option Name)
  | setHeadlossCurve (link : Name) (curve : Name)
  deriving DecidableEq, Repr

def isValveKind : LinkKind → Bool
  | .prv | .psv | .pbv | .tcv | .fcv | .gpv => true
  | _ => false

/-- `Link.__init__`: look the end nodes up and register the link in their usage records.
`.error s'` = `KeyError` with the state it leaves behind. -/
def linkInit (v : Variant) (s : Reg) (name a b : Name) (ty : UKind) : Except Reg Reg :=
  if !(AL.has s.nodes a) then .error s
  else if v.linkInitResolveFirst then
    if !(AL.has s.nodes b) then .error s
    else .ok (addUsage (addUsage s (siteReg .linkInitStart) a (name, ty)) (siteReg .linkInitEnd) b (name, ty))
  else
    let s1 := addUsage s (siteReg .linkInitStart) a (name, ty)
    if !(AL.has s.nodes b) then .error s1
    else .ok (addUsage s1 (siteReg .linkInitEnd) b (name, ty))

/-- the registry key `Junction.add_demand` registers the pattern under: its name, or (as coded) the Pattern object itself -/
def demandReg (v : Variant) (obj : Bool) : RegId := if obj && !v.demandUsageByName then .patternObj else siteReg .addDemand

def addJunction (v : Variant) (s : Reg) (name : Name) (pat : Option Name) (obj : Bool) : Reg × Out :=
  if v.rejectDuplicates && AL.has s.nodes name then (s, .error)
  else
    -- Junction.add_demand registers the pattern, then `self[name] = junction`
    let s1 := addUsage? s (demandReg v obj) pat (name, .junction)
    (bumpUid (setNode s1 name ⟨.junction, none, none, [(pat, false)], s.nextUid⟩), .ok)

/-- `wn.get_node(n).add_demand(base, pattern)` (the harness refuses nodes that are no junctions) -/
def addDemand (v : Variant) (s : Reg) (n : Name) (pat : Option Name) (obj : Bool) : Reg × Out :=
  match AL.get? s.nodes n with
  | none => (s, .error)
  | some i =>
    if i.kind ≠ .junction then (s, .error)
    else
      let s1 := addUsage? s (demandReg v obj) pat (n, .junction)
      ({ s1 with nodes := AL.set s1.nodes n { i with demands := i.demands ++ [(pat, false)] } }, .ok)

/-- the pattern names of the entries of a demand list, in order -/
def demandNames (l : List (Option Name × Bool)) : List Name := l.filterMap (·.1)

/-- the pattern a junction stops naming when the entry `idx` goes -/
def droppedPat (l : List (Option Name × Bool)) (idx : Nat) : Option Name :=
  match (l[idx]?).bind (·.1) with
  | some p => if (l.eraseIdx idx).any (fun d => d.1 = some p) then none else some p
  | none => none

/-- `del wn.get_node(n).demand_timeseries_list[idx]`: repaired, `Demands._edit` releases a pattern that no entry names any more;
before, plain list deletion -/
def delDemand (v : Variant) (s : Reg) (n : Name) (idx : Nat) : Reg × Out :=
  match AL.get? s.nodes n with
  | none => (s, .error)
  | some i =>
    if i.kind ≠ .junction || idx ≥ i.demands.length then (s, .error)
    else
      let s1 := if v.demandsSync then removeUsage?T s (siteReg .demandsRemove) (droppedPat i.demands idx) (n, .junction) else s
      ({ s1 with nodes := AL.set s1.nodes n { i with demands := i.demands.eraseIdx idx } }, .ok)

/-- `junction.demand_timeseries_list.insert(idx, (base, pat))` (repaired: registers the pattern) -/
def insertDemand (v : Variant) (s : Reg) (n : Name) (idx : Nat) (pat : Option Name) : Reg × Out :=
  match AL.get? s.nodes n with
  | none => (s, .error)
  | some i =>
    if i.kind ≠ .junction then (s, .error)
    else
      let s1 := if v.demandsSync then addUsage? s (siteReg .demandsAdd) pat (n, .junction) else s
      ({ s1 with nodes := AL.set s1.nodes n { i with demands := (i.demands.take idx) ++ [(pat, false)] ++ (i.demands.drop idx) } }, .ok)

def hasFire (i : NodeInfo) : Bool := i.demands.any (·.2)
def firePat (i : NodeInfo) : Option Name := ((i.demands.find? (·.2)).map (·.1)).join

/-- `junction.add_fire_fighting_demand(wn, q, start, end, pattern_name)`: a new pattern, its usage, a 'Fire_Flow' entry -/
def addFire (s : Reg) (n p : Name) : Reg × Out :=
  match AL.get? s.nodes n with
  | none => (s, .error)
  | some i =>
    if i.kind ≠ .junction || hasFire i || s.patterns.contains p then (s, .error)
    else
      let s1 := { s with patterns := s.patterns ++ [p] }
      let s2 := addUsage s1 (siteReg .addFire) p (n, .junction)
      ({ s2 with nodes := AL.set s2.nodes n { i with demands := i.demands ++ [(some p, true)] } }, .ok)

def addTank (v : Variant) (s : Reg) (name : Name) (curve : Option Name) : Reg × Out :=
  if v.rejectDuplicates && AL.has s.nodes name then (s, .error)
  else
    let valid := match curve with
      | none => true
      -- `vol_curve in self._curve_reg.volume_curve_names`, then `self._curve_reg[vol_curve].points`
      | some c => (s.typed .volCurves).contains c && s.curves.contains c
    if !valid then (s, .error)
    else
      let s1 := addUsage? s (siteReg .volCurveAdd) curve (name, .tank)
      (bumpUid (setNode s1 name ⟨.tank, none, curve, [], s.nextUid⟩), .ok)

def addReservoir (v : Variant) (s : Reg) (name : Name) (pat : Option Name) : Reg × Out :=
  if v.rejectDuplicates && AL.has s.nodes name then (s, .error)
  else
    let s1 := addUsage? s (siteReg .headPatAdd) pat (name, .reservoir)
    (bumpUid (setNode s1 name ⟨.reservoir, pat, none, [], s.nextUid⟩), .ok)

def addPipe (v : Variant) (s : Reg) (name a b : Name) : Reg × Out :=
  if v.rejectDuplicates && AL.has s.links name then (s, .error)
  else match linkInit v s name a b .pipe with
    | .error s' => (s', .error)
    | .ok s1 => (bumpUid (setLink s1 name ⟨.pipe, a, b, none, none, s.nextUid⟩), .ok)

def addPump (v : Variant) (s : Reg) (name a b : Name) (spec : PumpSpec) (pat : Option Name) : Reg × Out :=
  if v.rejectDuplicates && AL.has s.links name then (s, .error)
  else match linkInit v s name a b .pump with
    | .error s' => (s', .error)
    | .ok s1 =>
      match spec with
      | .power =>
        let s2 := addUsage? s1 (siteReg .speedPatAdd) pat (name, .pump)
        (bumpUid (setLink s2 name ⟨.powerPump, a, b, pat, none, s.nextUid⟩), .ok)
      | .head c =>
        -- pump.pump_curve_name = c
        let s2 := setCurveType v (addUsage s1 (siteReg .pumpCurveAdd) c (name, .pump)) c .head
        -- pump.speed_pattern_name = pat
        let s3 := addUsage? s2 (siteReg .speedPatAdd) pat (name, .pump)
        (bumpUid (setLink s3 name ⟨.headPump, a, b, pat, some c, s.nextUid⟩), .ok)

def nodeKind? (s : Reg) (n : Name) : Option NodeKind := (AL.get? s.nodes n).map (·.kind)

def addValve (v : Variant) (s : Reg) (name a b : Name) (kind : LinkKind) (curve : Option Name) : Reg × Out :=
  if !(isValveKind kind) then (s, .error)
  else if v.rejectDuplicates && AL.has s.links name then (s, .error)
  else match nodeKind? s a, nodeKind? s b with
    | some ka, some kb =>
      -- a PRV, PSV or FCV cannot be directly connected to a tank or reservoir (RuntimeError)
      if (kind = .prv || kind = .psv || kind = .fcv) && (ka ≠ .junction || kb ≠ .junction) then (s, .error)
      else match linkInit v s name a b .valve with
        | .error s' => (s', .error)
        | .ok s1 =>
          -- `if valve_type == 'GPV': valve.headloss_curve_name = initial_setting` (a falsy setting registers nothing)
          let c' := if kind = .gpv then curve else none
          let s2 := setCurveType? v (addUsage? s1 (siteReg .headlossAdd) c' (name, .valve)) c' .headloss
          (bumpUid (setLink s2 name ⟨kind, a, b, none, c', s.nextUid⟩), .ok)
    | _, _ => (s, .error)

def addPattern (s : Reg) (name : Name) : Reg × Out :=
  if s.patterns.contains name then (s, .error)
  else ({ s with patterns := s.patterns ++ [name] }, .ok)

def addCurve (v : Variant) (s : Reg) (name : Name) (t : Option CurveType) : Reg × Out :=
  let s1 := { s with curves := OSet.add s.curves name }
  match t with
  | none => (s1, .ok)
  | some t => (setCurveType v s1 name t, .ok)

/-- `pattern = self.get_pattern(pattern)`: `None` when there is no such pattern -/
def srcPat (s : Reg) (pat : Option Name) : Option Name :=
  match pat with
  | some p => if s.patterns.contains p then some p else none
  | none => none

def addSource (v : Variant) (s : Reg) (name node : Name) (pat : Option Name) : Reg × Out :=
  if v.rejectDuplicates && AL.has s.sources name then (s, .error)
  else
    let pat' := srcPat s pat
    -- Source.__init__
    let s1 := addUsage? s (if v.sourceUsageByName then siteReg .sourceInitPat else .patternObj) pat' (name, .source)
    let s2 := addUsage s1 (siteReg .sourceInitNode) node (name, .source)
    let s3 := { s2 with sources := AL.set s2.sources name ⟨node, pat'⟩ }
    let s4 := addUsage? s3 (siteReg .addSourcePat) pat' (name, .source)
    (addUsage s4 (siteReg .addSourceNode) node (name, .source), .ok)

def uidsOf (s : Reg) (nodes links : List Name) : Option (List Nat) :=
  let ns := nodes.map (fun n => (AL.get? s.nodes n).map (·.uid))
  let ls := links.map (fun l => (AL.get? s.links l).map (·.uid))
  if (ns ++ ls).all Option.isSome then some ((ns ++ ls).filterMap id) else none

def addControl (s : Reg) (name : Name) (nodes links : List Name) : Reg × Out :=
  match uidsOf s nodes links with
  | none => (s, .error)
  | some us =>
    if AL.has s.controls name then (s, .error)
    else ({ s with controls := AL.set s.controls name us }, .ok)

/-- `wn.get_control(name).update_then_actions([...])` (harness op): the control keeps its condition (over `nodes`) and gets
actions on `links`; `KeyError` when the control or one of the elements does not exist -/
def updateControl (s : Reg) (name : Name) (nodes links : List Name) : Reg × Out :=
  match uidsOf s nodes links with
  | none => (s, .error)
  | some us =>
    if AL.has s.controls name then ({ s with controls := AL.set s.controls name us }, .ok) else (s, .error)

/-- `wn.assign_demand(demand, prefix)` for one junction column: a new pattern `prefix + name` (ValueError when it exists), the
demand list is cleared and gets ONE entry over that pattern; as coded the entry is appended directly (no usage is registered) -/
def assignDemand (v : Variant) (s : Reg) (n p : Name) : Reg × Out :=
  match AL.get? s.nodes n with
  | none => (s, .error)
  | some i =>
    if i.kind ≠ .junction || s.patterns.contains p then (s, .error)
    else
      let s0 := { s with patterns := s.patterns ++ [p] }
      let s1 := if v.demandsSync then releaseAll s0 (siteReg .demandsRemove) (demandNames i.demands) (n, .junction) else s0
      let s2 := if v.assignRegisters then addUsage s1 (siteReg .addDemand) p (n, .junction) else s1
      ({ s2 with nodes := AL.set s2.nodes n { i with demands := [(some p, false)] } }, .ok)

/-- `wn.get_source(old).name = new` (repaired: refuses a name that is taken, moves the usage records and the registry entry;
before the repair only the attribute changed, which the model does not carry) -/
def renameSource (v : Variant) (s : Reg) (old new : Name) : Reg × Out :=
  match AL.get? s.sources old with
  | none => (s, .error)
  | some si =>
    if !v.renameMoves || new = old then (s, .ok)
    else if AL.has s.sources new then (s, .error)
    else
      let s1 := addUsage? (removeUsage?T s (siteReg .srcRenamePatRemove) si.pat (old, .source)) (siteReg .srcRenamePatAdd) si.pat (new, .source)
      let s2 := addUsage (removeUsageT s1 (siteReg .srcRenameNodeRemove) si.node (old, .source)) (siteReg .srcRenameNodeAdd) si.node (new, .source)
      ({ s2 with sources := AL.set (AL.del s2.sources old) new si }, .ok)

/-- `junction.demand_timeseries_list.clear()` (repaired: every named pattern is released) -/
def clearDemands (v : Variant) (s : Reg) (n : Name) : Reg × Out :=
  match AL.get? s.nodes n with
  | none => (s, .error)
  | some i =>
    if i.kind ≠ .junction then (s, .error)
    else
      let s1 := if v.demandsSync then releaseAll s (siteReg .demandsRemove) (demandNames i.demands) (n, .junction) else s
      ({ s1 with nodes := AL.set s1.nodes n { i with demands := [] } }, .ok)

/-- `junction.demand_timeseries_list.insert(idx, (base, pat))`: a plain list operation, no registry is told (NOT part of `Op`) -/
def insertDemandRaw (s : Reg) (n : Name) (idx : Nat) (pat : Option Name) : Reg × Out :=
  match AL.get? s.nodes n with
  | none => (s, .error)
  | some i =>
    if i.kind ≠ .junction then (s, .error)
    else ({ s with nodes := AL.set s.nodes n { i with demands := (i.demands.take idx) ++ [(pat, false)] ++ (i.demands.drop idx) } }, .ok)

def leakCtl (n : Name) (isStart : Bool) : Name := 1000000 + 2 * n + (if isStart then 0 else 1)

/-- the control list after `add_leak`: up to two time controls that require the node; `add_control` raises ValueError for a
name that exists — the second one possibly after the first was added (the list returned says so) -/
def leakControls (v : Variant) (c : List (Name × List Nat)) (n uid : Nat) (st en : Bool) : List (Name × List Nat) × Out :=
  if v.leakChecksFirst && ((st && AL.has c (leakCtl n true)) || (en && AL.has c (leakCtl n false))) then (c, .error) else
  let add (c : List (Name × List Nat)) (isStart : Bool) : List (Name × List Nat) × Out :=
    if AL.has c (leakCtl n isStart) then (c, .error) else (AL.set c (leakCtl n isStart) [uid], .ok)
  let r1 := if st then add c true else (c, .ok)
  if r1.2 ≠ .ok then r1 else if en then add r1.1 false else r1

/-- `node.add_leak(wn, area, start_time, end_time)` -/
def addLeak (v : Variant) (s : Reg) (n : Name) (st en : Bool) : Reg × Out :=
  match AL.get? s.nodes n with
  | none => (s, .error)
  | some i =>
    if i.kind = .reservoir then (s, .error)
    else ({ s with controls := (leakControls v s.controls n i.uid st en).1 }, (leakControls v s.controls n i.uid st en).2)

/-- `node.remove_leak(wn)`: both controls are discarded (no error when absent) -/
def removeLeak (s : Reg) (n : Name) : Reg × Out :=
  match AL.get? s.nodes n with
  | none => (s, .error)
  | some i =>
    if i.kind = .reservoir then (s, .error)
    else ({ s with controls := AL.del (AL.del s.controls (leakCtl n true)) (leakCtl n false) }, .ok)

/-- `Registry.__delitem__` prologue: `RuntimeError` when the usage record is non-empty, else pop the record -/
def inUse (s : Reg) (r : RegId) (k : Name) : Bool := !(users s r k).isEmpty

def popUsageKey (s : Reg) (r : RegId) (k : Name) : Reg := setUsage s r (AL.del (s.usage r) k)

/-- continue with `k` unless the call raised `KeyError` (swallowed by `except KeyError: return`) -/
def tryStep (s : Reg) (f : Reg → Option Reg) (k : Reg → Reg) : Reg :=
  match f s with
  | none => s
  | some s' => k s'

/-- `NodeRegistry.__delitem__(key)` after the in-use test -/
def delNode (v : Variant) (s : Reg) (key : Name) (i : NodeInfo) : Reg :=
  let s0 := popUsageKey s .node key
  let s1 := { s0 with nodes := AL.del s0.nodes key }
  let s2 := typedDiscardAll s1 nodeSets key
  match i.kind with
  | .junction =>
    if v.delNodeSweeps then removeUserAll s2 (siteReg .nodeDelJunction) (key, .junction)
    else if v.delPatternReg then
      -- `for demand in node.demand_timeseries_list: if demand.pattern_name: _pattern_reg.remove_usage(...)`
      i.demands.foldl (fun acc d => match d.1 with | some p => removeUsageT acc .pattern p (key, .junction) | none => acc) s2
    else s2   -- as coded: `_curve_reg.remove_usage(<Pattern object>, ...)` raises KeyError or is skipped
  | .reservoir =>
    tryStep s2 (removeUsage? v · (if v.delPatternReg then siteReg .nodeDelReservoir else .curve) i.pat (key, .reservoir)) id
  | .tank => tryStep s2 (removeUsage? v · (siteReg .nodeDelTank) i.curve (key, .tank)) id

/-- `LinkRegistry.__delitem__(key)` (the link registry's own usage map is always empty) -/
def delLink (v : Variant) (s : Reg) (key : Name) (i : LinkInfo) : Reg :=
  let s0 := { s with links := AL.del s.links key }
  tryStep s0 (removeUsage v · (siteReg .linkDelStart) i.start (key, ltype i.kind)) fun s1 =>
  tryStep s1 (removeUsage v · (siteReg .linkDelEnd) i.end_ (key, ltype i.kind)) fun s2 =>
  tryStep s2 (fun s => if i.kind = .gpv then removeUsage? v s (siteReg .linkDelHeadloss) i.curve (key, .valve) else some s) fun s3 =>
  tryStep s3 (fun s => if isPump i.kind then
      removeUsage? v s (if v.delPatternReg then siteReg .linkDelSpeed else .curve) i.pat (key, .pump) else some s) fun s4 =>
  tryStep s4 (fun s => if i.kind = .headPump then removeUsage? v s (siteReg .linkDelPumpCurve) i.curve (key, .pump) else some s) fun s5 =>
  typedDiscardAll s5 allLinkSets key

def dropControls (s : Reg) (uid : Nat) : Reg :=
  { s with controls := s.controls.filter (fun c => !(c.2.contains uid)) }

def requiredBy (s : Reg) (uid : Nat) : Bool := s.controls.any (fun c => c.2.contains uid)

def removeNode (v : Variant) (s : Reg) (name : Name) (wc force : Bool) : Reg × Out :=
  match AL.get? s.nodes name with
  | none => (s, .error)
  | some i =>
    if !force && !wc && requiredBy s i.uid then (s, .refused)
    else
      let drop := !force && wc
      let s1 := if drop && !v.controlsAfter then dropControls s i.uid else s
      if inUse s1 .node name then (s1, .refused)
      else
        let s2 := delNode v s1 name i
        (if drop && v.controlsAfter then dropControls s2 i.uid else s2, .ok)

def removeLink (v : Variant) (s : Reg) (name : Name) (wc force : Bool) : Reg × Out :=
  match AL.get? s.links name with
  | none => (s, .error)
  | some i =>
    if !force && !wc && requiredBy s i.uid then (s, .refused)
    else
      let drop := !force && wc
      let s1 := if drop && !v.controlsAfter then dropControls s i.uid else s
      let s2 := delLink v s1 name i
      (if drop && v.controlsAfter then dropControls s2 i.uid else s2, .ok)

def removePattern (s : Reg) (name : Name) : Reg × Out :=
  if inUse s .pattern name then (s, .refused)
  else
    let s0 := popUsageKey s .pattern name
    ({ s0 with patterns := OSet.discard s0.patterns name }, .ok)

/-- `junction.remove_fire_fighting_demand(wn)` (`fireDrop` + `remove_pattern`): release the usage, drop the 'Fire_Flow' entries, remove the pattern.
As coded the usage is released even when another entry of the junction names the pattern, and `wn.remove_pattern` raises
(after the entry is gone) when the pattern is still used; repaired: both are kept when still referred to. -/
def fireDrop (v : Variant) (s : Reg) (n p : Name) (i : NodeInfo) : Reg :=
  let rest := i.demands.filter (fun d => !d.2)
  let s1 := if v.fireKeepsShared && rest.any (fun d => d.1 = some p) then s else removeUsageT s (siteReg .removeFire) p (n, .junction)
  { s1 with nodes := AL.set s1.nodes n { i with demands := rest } }

def removeFire (v : Variant) (s : Reg) (n : Name) : Reg × Out :=
  match AL.get? s.nodes n with
  | none => (s, .error)
  | some i =>
    if i.kind ≠ .junction then (s, .error)
    else match firePat i with
      | none => (s, if hasFire i then .error else .ok)   -- a 'Fire_Flow' entry whose pattern was set to None: AttributeError
      | some p =>
        if inUse (fireDrop v s n p i) .pattern p then (fireDrop v s n p i, if v.fireKeepsShared then .ok else .refused)
        else ((removePattern (fireDrop v s n p i) p).1, .ok)

def removeCurve (v : Variant) (s : Reg) (name : Name) : Reg × Out :=
  if inUse s .curve name then (s, .refused)
  else
    let s0 := popUsageKey s .curve name
    let s1 := { s0 with curves := OSet.discard s0.curves name }
    (if v.curveDelTyped then typedDiscardAll s1 curveSets name else s1, .ok)

def removeSource (v : Variant) (s : Reg) (name : Name) : Reg × Out :=
  match AL.get? s.sources name with
  | none => (s, .error)
  | some si =>
    -- WaterNetworkModel.remove_source: a KeyError of remove_usage propagates
    match removeUsage? v s (siteReg .removeSourcePat) si.pat (name, .source) with
    | none => (s, .error)
    | some s1 =>
      match removeUsage v s1 (siteReg .removeSourceNode) si.node (name, .source) with
      | none => (s1, .error)
      | some s2 =>
        -- SourceRegistry.__delitem__ (its own usage map is always empty)
        let s3 := { s2 with sources := AL.del s2.sources name }
        let s4 := tryStep s3 (removeUsage? v · (siteReg .srcDelPat) si.pat (name, .source)) fun s =>
          tryStep s (removeUsage v · (siteReg .srcDelNode) si.node (name, .source)) id
        (s4, .ok)

/-- `wn.get_source(name).node_name = node` -/
def setSourceNode (v : Variant) (s : Reg) (name node : Name) : Reg × Out :=
  match AL.get? s.sources name with
  | none => (s, .error)
  | some si =>
    let s1 := if v.sourceNodeMoves then addUsage (removeUsageT s (siteReg .sourceNodeRemove) si.node (name, .source)) (siteReg .sourceNodeAdd) node (name, .source) else s
    ({ s1 with sources := AL.set s1.sources name { si with node := node } }, .ok)

/-! Operations that bypass the registries (`TimeSeries.pattern_name = ...` on a demand entry / on a source's strength): the
timeseries knows the pattern registry but not who owns it, so no usage record is moved.  They are NOT part of `Op`: the
invariant does not survive them (Props/C14.lean, `raw_*`), which is recorded as a known finding. -/

/-- `wn.get_node(n).demand_timeseries_list[idx].pattern_name = pat` -/
def setDemandPatternRaw (s : Reg) (n : Name) (idx : Nat) (pat : Option Name) : Reg × Out :=
  match AL.get? s.nodes n with
  | none => (s, .error)
  | some i =>
    if i.kind ≠ .junction || idx ≥ i.demands.length then (s, .error)
    else ({ s with nodes := AL.set s.nodes n { i with demands := i.demands.modify idx (fun d => (pat, d.2)) } }, .ok)

/-- `wn.get_source(name).strength_timeseries.pattern_name = pat` -/
def setSourcePatternRaw (s : Reg) (name : Name) (pat : Option Name) : Reg × Out :=
  match AL.get? s.sources name with
  | none => (s, .error)
  | some si => ({ s with sources := AL.set s.sources name { si with pat := pat } }, .ok)

def removeControl (s : Reg) (name : Name) : Reg × Out :=
  if AL.has s.controls name then ({ s with controls := AL.del s.controls name }, .ok) else (s, .error)

/-- `link.start_node = node` / `link.end_node = node` -/
def setEndNode (v : Variant) (s : Reg) (l n : Name) (isStart : Bool) : Reg × Out :=
  match AL.get? s.links l with
  | none => (s, .error)
  | some i =>
    if !(AL.has s.nodes n) then (s, .error)
    else
      let old := if isStart then i.start else i.end_
      let other := if isStart then i.end_ else i.start
      let u : User := (l, ltype i.kind)
      let r := if v.setterKeepsSharedEnd && old = other then some s else removeUsage v s (siteReg (if isStart then .startSetRemove else .endSetRemove)) old u
      match r with
      | none => (s, .error)
      | some s1 =>
        let s2 := addUsage s1 (siteReg (if isStart then .startSetAdd else .endSetAdd)) n u
        let i' := if isStart then { i with start := n } else { i with end_ := n }
        ({ s2 with links := AL.set s2.links l i' }, .ok)

def setSpeedPattern (v : Variant) (s : Reg) (l : Name) (pat : Option Name) : Reg × Out :=
  match AL.get? s.links l with
  | none => (s, .error)
  | some i =>
    if !(isPump i.kind) then (s, .error)
    else match removeUsage? v s (siteReg .speedPatRemove) i.pat (l, .pump) with
      | none => (s, .error)
      | some s1 =>
        let s2 := addUsage? s1 (siteReg .speedPatAdd) pat (l, .pump)
        ({ s2 with links := AL.set s2.links l { i with pat := pat } }, .ok)

def setPumpCurve (v : Variant) (s : Reg) (l c : Name) : Reg × Out :=
  match AL.get? s.links l with
  | none => (s, .error)
  | some i =>
    if i.kind ≠ .headPump then (s, .error)
    else match removeUsage? v s (siteReg .pumpCurveRemove) i.curve (l, .pump) with
      | none => (s, .error)
      | some s1 =>
        let s2 := setCurveType v (addUsage s1 (siteReg .pumpCurveAdd) c (l, .pump)) c .head
        ({ s2 with links := AL.set s2.links l { i with curve := some c } }, .ok)

def setHeadlossCurve (v : Variant) (s : Reg) (l c : Name) : Reg × Out :=
  match AL.get? s.links l with
  | none => (s, .error)
  | some i =>
    if i.kind ≠ .gpv then (s, .error)
    else match removeUsage? v s (siteReg .headlossRemove) i.curve (l, .valve) with
      | none => (s, .error)
      | some s1 =>
        let s2 := setCurveType v (addUsage s1 (siteReg .headlossAdd) c (l, .valve)) c .headloss
        ({ s2 with links := AL.set s2.links l { i with curve := some c } }, .ok)

def setHeadPattern (v : Variant) (s : Reg) (n : Name) (pat : Option Name) : Reg × Out :=
  match AL.get? s.nodes n with
  | none => (s, .error)
  | some i =>
    if i.kind ≠ .reservoir then (s, .error)
    else match removeUsage? v s (siteReg .headPatRemove) i.pat (n, .reservoir) with
      | none => (s, .error)
      | some s1 =>
        let s2 := addUsage? s1 (siteReg .headPatAdd) pat (n, .reservoir)
        ({ s2 with nodes := AL.set s2.nodes n { i with pat := pat } }, .ok)

def setVolCurve (v : Variant) (s : Reg) (n : Name) (curve : Option Name) : Reg × Out :=
  match AL.get? s.nodes n with
  | none => (s, .error)
  | some i =>
    if i.kind ≠ .tank then (s, .error)
    else match removeUsage? v s (siteReg .volCurveRemove) i.curve (n, .tank) with
      | none => (s, .error)
      | some s1 =>
        let s2 := addUsage? s1 (siteReg .volCurveAdd) curve (n, .tank)
        ({ s2 with nodes := AL.set s2.nodes n { i with curve := curve } }, .ok)

def step (v : Variant) (s : Reg) : Op → Reg × Out
  | .addJunction n p o => addJunction v s n p o
  | .addDemand n p o => addDemand v s n p o
  | .delDemand n i => delDemand v s n i
  | .insertDemand n i p => insertDemand v s n i p
  | .addFire n p => addFire s n p
  | .removeFire n => removeFire v s n
  | .addLeak n a b => addLeak v s n a b
  | .removeLeak n => removeLeak s n
  | .setSourceNode n nd => setSourceNode v s n nd
  | .assignDemand n p => assignDemand v s n p
  | .renameSource a b => renameSource v s a b
  | .clearDemands n => clearDemands v s n
  | .addTank n c => addTank v s n c
  | .addReservoir n p => addReservoir v s n p
  | .addPipe n a b => addPipe v s n a b
  | .addPump n a b sp p => addPump v s n a b sp p
  | .addValve n a b k c => addValve v s n a b k c
  | .addPattern n => addPattern s n
  | .addCurve n t => addCurve v s n t
  | .addSource n nd p => addSource v s n nd p
  | .addControl n ns ls => addControl s n ns ls
  | .updateControl n ns ls => updateControl s n ns ls
  | .removeNode n wc f => removeNode v s n wc f
  | .removeLink n wc f => removeLink v s n wc f
  | .removePattern n => removePattern s n
  | .removeCurve n => removeCurve v s n
  | .removeSource n => removeSource v s n
  | .removeControl n => removeControl s n
  | .setStart l n => setEndNode v s l n true
  | .setEnd l n => setEndNode v s l n false
  | .setSpeedPattern l p => setSpeedPattern v s l p
  | .setPumpCurve l c => setPumpCurve v s l c
  | .setHeadPattern n p => setHeadPattern v s n p
  | .setVolCurve n c => setVolCurve v s n c
  | .setHeadlossCurve l c => setHeadlossCurve v s l c

def run (v : Variant) (s : Reg) : List Op → Reg
  | [] => s
  | op :: ops => run v (step v s op).1 ops

/-! ### derived views (as the code computes them) -/

/-- a typed iterator (`wn.junctions()`, `wn.pumps()`, `wn.curves.pump_curves()` …): yields
`name, self._data[name]` for every name of the typed set; `none` = it raises `KeyError` -/
def typedIter (s : Reg) (t : TSet) : Option (List Name) :=
  let data : List Name :=
    if t ∈ nodeSets then AL.keys s.nodes else if t ∈ allLinkSets then AL.keys s.links else s.curves
  if (s.typed t).all (data.contains ·) then some (s.typed t) else none

inductive Flag | all | inlet | outlet
  deriving DecidableEq, Repr

def isLinkType : UKind → Bool
  | .pipe | .pump | .valve => true
  | _ => false

/-- `wn.get_links_for_node(n, flag)`; `none` = `KeyError` from `self.get_link(link_name)` -/
def linksForNode (s : Reg) (n : Name) (flag : Flag) : Option (List Name) :=
  let rec go : List User → Option (List Name)
    | [] => some []
    | (l, ty) :: rest =>
      if !(isLinkType ty) then go rest
      else match AL.get? s.links l with
        | none => none
        | some i =>
          let keep := match flag with
            | .all => i.start = n || i.end_ = n
            | .inlet => i.end_ = n
            | .outlet => i.start = n
          (go rest).map (fun r => if keep then l :: r else r)
  go (users s .node n)

/-- `to_graph`: networkx adds the end nodes of an edge when they are missing -/
def graphNodes (s : Reg) : List Name :=
  s.links.foldl (fun acc kv => OSet.add (OSet.add acc kv.2.start) kv.2.end_) (AL.keys s.nodes)

def graphEdges (s : Reg) : List (Name × Name × Name) := s.links.map (fun kv => (kv.2.start, kv.2.end_, kv.1))

def dataKeys (s : Reg) : RegId → List Name
  | .node => AL.keys s.nodes
  | .pattern => s.patterns
  | .curve => s.curves
  | .patternObj => []      -- a `Pattern` object is never a key of `_data`

/-- `registry.orphaned()`: usage keys that are not defined -/
def orphaned (s : Reg) (r : RegId) : List Name :=
  (AL.keys (s.usage r)).filter (fun k => !((dataKeys s r).contains k))

/-- `registry.unused()`: defined names without a usage record -/
def unused (s : Reg) (r : RegId) : List Name :=
  (dataKeys s r).filter (fun k => !((AL.keys (s.usage r)).contains k))

/-! ### the invariant: all views agree (decidable, so that the driver can evaluate it on observed states) -/

def OAny {α : Type} (o : Option α) (P : α → Prop) : Prop := ∃ a, o = some a ∧ P a
def OAll {α : Type} (o : Option α) (P : α → Prop) : Prop := ∀ a, o = some a → P a

instance {α : Type} (o : Option α) (P : α → Prop) [DecidablePred P] : Decidable (OAny o P) :=
  match o with
  | none => isFalse (fun ⟨_, h, _⟩ => by cases h)
  | some a => if h : P a then isTrue ⟨a, rfl, h⟩ else isFalse (fun ⟨b, hb, hp⟩ => by cases hb; exact h hp)

instance {α : Type} (o : Option α) (P : α → Prop) [DecidablePred P] : Decidable (OAll o P) :=
  match o with
  | none => isTrue (fun _ h => by cases h)
  | some a => if h : P a then isTrue (fun b hb => by cases hb; exact h) else isFalse (fun hp => h (hp a rfl))

/-- for every key of the dictionary and the value stored under it -/
def AL.Forall {α : Type} (l : List (Name × α)) (P : Name → α → Prop) : Prop :=
  ∀ k ∈ AL.keys l, OAll (AL.get? l k) (P k)

instance {α : Type} (l : List (Name × α)) (P : Name → α → Prop) [∀ k, DecidablePred (P k)] :
    Decidable (AL.Forall l P) := by unfold AL.Forall; infer_instance

/-- for every usage record of registry `r` and every user in it -/
def UForall (s : Reg) (r : RegId) (P : Name → User → Prop) : Prop :=
  ∀ k ∈ AL.keys (s.usage r), ∀ u ∈ users s r k, P k u

instance (s : Reg) (r : RegId) (P : Name → User → Prop) [∀ k, DecidablePred (P k)] :
    Decidable (UForall s r P) := by unfold UForall; infer_instance

/-- a user recorded for node `n` is an existing link of that type with an end at `n`, or an existing source at `n` -/
def nodeUserOk (s : Reg) (n : Name) (u : User) : Prop :=
  (isLinkType u.2 = true ∧ OAny (AL.get? s.links u.1) (fun i => ltype i.kind = u.2 ∧ (i.start = n ∨ i.end_ = n))) ∨
  (u.2 = .source ∧ OAny (AL.get? s.sources u.1) (fun si => si.node = n))

/-- a user recorded for pattern `p` is an existing reservoir / pump / source that refers to `p`, or an existing junction (an
entry of a junction's demand list can be deleted or re-pointed without the registry being told, so the record of an EXISTING
junction may outlive the reference; it must not outlive the junction) -/
def patUserOk (s : Reg) (p : Name) (u : User) : Prop :=
  (u.2 = .junction ∧ OAny (AL.get? s.nodes u.1) (fun i => i.kind = .junction)) ∨
  (u.2 = .reservoir ∧ OAny (AL.get? s.nodes u.1) (fun i => i.kind = .reservoir ∧ i.pat = some p)) ∨
  (u.2 = .pump ∧ OAny (AL.get? s.links u.1) (fun i => isPump i.kind = true ∧ i.pat = some p)) ∨
  (u.2 = .source ∧ OAny (AL.get? s.sources u.1) (fun si => si.pat = some p))

/-- a user recorded for curve `c` is an existing tank / head pump / GPV that refers to `c` -/
def curveUserOk (s : Reg) (c : Name) (u : User) : Prop :=
  (u.2 = .tank ∧ OAny (AL.get? s.nodes u.1) (fun i => i.kind = .tank ∧ i.curve = some c)) ∨
  (u.2 = .pump ∧ OAny (AL.get? s.links u.1) (fun i => i.kind = .headPump ∧ i.curve = some c)) ∨
  (u.2 = .valve ∧ OAny (AL.get? s.links u.1) (fun i => i.kind = .gpv ∧ i.curve = some c))

/-- a record keyed by a `Pattern` object: its users are existing sources that use that pattern -/
def objUserOk (s : Reg) (p : Name) (u : User) : Prop :=
  u.2 = .source ∧ OAny (AL.get? s.sources u.1) (fun si => si.pat = some p)

/-- the pattern of a reservoir and the pattern of every demand entry of a junction have the node in their usage record -/
def patNodeOk (s : Reg) (k : Name) (i : NodeInfo) : Prop :=
  (i.kind = .reservoir → OAll i.pat (fun p => (k, UKind.reservoir) ∈ users s .pattern p)) ∧
  (i.kind = .junction → ∀ d ∈ i.demands, OAll d.1 (fun p => (k, UKind.junction) ∈ users s .pattern p))

instance (s : Reg) (k : Name) : DecidablePred (patNodeOk s k) := fun i => by
  unfold patNodeOk
  have : ∀ d : Option Name × Bool, Decidable (OAll d.1 (fun p => (k, UKind.junction) ∈ users s .pattern p)) := fun d => inferInstance
  infer_instance

instance (s : Reg) (n : Name) : DecidablePred (nodeUserOk s n) := fun u => by unfold nodeUserOk; infer_instance
instance (s : Reg) (n : Name) : DecidablePred (patUserOk s n) := fun u => by unfold patUserOk; infer_instance
instance (s : Reg) (n : Name) : DecidablePred (curveUserOk s n) := fun u => by unfold curveUserOk; infer_instance
instance (s : Reg) (n : Name) : DecidablePred (objUserOk s n) := fun u => by unfold objUserOk; infer_instance

def allTSets : List TSet := nodeSets ++ allLinkSets ++ curveSets

namespace Clause
/-- name lists / counts: no name is listed twice -/
def nodup (s : Reg) : Prop :=
  (AL.keys s.nodes).Nodup ∧ (AL.keys s.links).Nodup ∧ s.patterns.Nodup ∧ s.curves.Nodup ∧
  (AL.keys s.sources).Nodup ∧ ∀ t ∈ allTSets, (s.typed t).Nodup
/-- typed node sets hold exactly the existing nodes of their class -/
def typedNodeSound (s : Reg) : Prop :=
  ∀ t ∈ nodeSets, ∀ k ∈ s.typed t, OAny (AL.get? s.nodes k) (fun i => nodeSet i.kind = t)
def typedNodeComplete (s : Reg) : Prop := AL.Forall s.nodes (fun k i => k ∈ s.typed (nodeSet i.kind))
/-- typed link sets hold exactly the existing links of their class -/
def typedLinkSound (s : Reg) : Prop :=
  ∀ t ∈ allLinkSets, ∀ k ∈ s.typed t, OAny (AL.get? s.links k) (fun i => t ∈ linkSets i.kind)
def typedLinkComplete (s : Reg) : Prop := AL.Forall s.links (fun k i => ∀ t ∈ linkSets i.kind, k ∈ s.typed t)
/-- typed curve sets name existing curves only -/
def typedCurveSound (s : Reg) : Prop := ∀ t ∈ curveSets, ∀ k ∈ s.typed t, k ∈ s.curves
/-- every link's end nodes exist -/
def endsExist (s : Reg) : Prop :=
  AL.Forall s.links (fun _ i => AL.has s.nodes i.start = true ∧ AL.has s.nodes i.end_ = true)
def usageNodeSound (s : Reg) : Prop := UForall s .node (nodeUserOk s)
def usageNodeLinks (s : Reg) : Prop :=
  AL.Forall s.links (fun k i => (k, ltype i.kind) ∈ users s .node i.start ∧ (k, ltype i.kind) ∈ users s .node i.end_)
def usageNodeSources (s : Reg) : Prop := AL.Forall s.sources (fun k si => (k, UKind.source) ∈ users s .node si.node)
def usagePatSound (s : Reg) : Prop := UForall s .pattern (patUserOk s)
def usagePatNodes (s : Reg) : Prop := AL.Forall s.nodes (patNodeOk s)
def usagePatLinks (s : Reg) : Prop :=
  AL.Forall s.links (fun k i => isPump i.kind = true → OAll i.pat (fun p => (k, UKind.pump) ∈ users s .pattern p))
def usagePatSources (s : Reg) : Prop :=
  AL.Forall s.sources (fun k si => OAll si.pat (fun p => (k, UKind.source) ∈ users s .pattern p))
def usageCurveSound (s : Reg) : Prop := UForall s .curve (curveUserOk s)
def usageCurveNodes (s : Reg) : Prop :=
  AL.Forall s.nodes (fun k i => i.kind = .tank → OAll i.curve (fun c => (k, UKind.tank) ∈ users s .curve c))
def usageCurveLinks (s : Reg) : Prop :=
  AL.Forall s.links (fun k i =>
    (i.kind = .headPump → OAll i.curve (fun c => (k, UKind.pump) ∈ users s .curve c)) ∧
    (i.kind = .gpv → OAll i.curve (fun c => (k, UKind.valve) ∈ users s .curve c)))
def usageObjSound (s : Reg) : Prop := UForall s .patternObj (objUserOk s)
end Clause

/-- **all views of the model agree** -/
structure Inv (s : Reg) : Prop where
  nodup : Clause.nodup s
  typedNodeSound : Clause.typedNodeSound s
  typedNodeComplete : Clause.typedNodeComplete s
  typedLinkSound : Clause.typedLinkSound s
  typedLinkComplete : Clause.typedLinkComplete s
  typedCurveSound : Clause.typedCurveSound s
  endsExist : Clause.endsExist s
  usageNodeSound : Clause.usageNodeSound s
  usageNodeLinks : Clause.usageNodeLinks s
  usageNodeSources : Clause.usageNodeSources s
  usagePatSound : Clause.usagePatSound s
  usagePatNodes : Clause.usagePatNodes s
  usagePatLinks : Clause.usagePatLinks s
  usagePatSources : Clause.usagePatSources s
  usageCurveSound : Clause.usageCurveSound s
  usageCurveNodes : Clause.usageCurveNodes s
  usageCurveLinks : Clause.usageCurveLinks s
  usageObjSound : Clause.usageObjSound s

section
open Clause
instance (s : Reg) : Decidable (Clause.nodup s) := by unfold Clause.nodup; infer_instance
instance (s : Reg) : Decidable (typedNodeSound s) := by unfold typedNodeSound; infer_instance
instance (s : Reg) : Decidable (typedNodeComplete s) := by unfold typedNodeComplete; infer_instance
instance (s : Reg) : Decidable (typedLinkSound s) := by unfold typedLinkSound; infer_instance
instance (s : Reg) : Decidable (typedLinkComplete s) := by unfold typedLinkComplete; infer_instance
instance (s : Reg) : Decidable (typedCurveSound s) := by unfold typedCurveSound; infer_instance
instance (s : Reg) : Decidable (endsExist s) := by unfold endsExist; infer_instance
instance (s : Reg) : Decidable (usageNodeSound s) := by unfold usageNodeSound; infer_instance
instance (s : Reg) : Decidable (usageNodeLinks s) := by unfold usageNodeLinks; infer_instance
instance (s : Reg) : Decidable (usageNodeSources s) := by unfold usageNodeSources; infer_instance
instance (s : Reg) : Decidable (usagePatSound s) := by unfold usagePatSound; infer_instance
instance (s : Reg) : Decidable (usagePatNodes s) := by unfold usagePatNodes; infer_instance
instance (s : Reg) : Decidable (usagePatLinks s) := by unfold usagePatLinks; infer_instance
instance (s : Reg) : Decidable (usagePatSources s) := by unfold usagePatSources; infer_instance
instance (s : Reg) : Decidable (usageCurveSound s) := by unfold usageCurveSound; infer_instance
instance (s : Reg) : Decidable (usageCurveNodes s) := by unfold usageCurveNodes; infer_instance
instance (s : Reg) : Decidable (usageCurveLinks s) := by unfold usageCurveLinks; infer_instance
instance (s : Reg) : Decidable (usageObjSound s) := by unfold usageObjSound; infer_instance
end

/-- the clauses by name, evaluated (what the driver prints) -/
def clauseTable (s : Reg) : List (String × Bool) :=
  [("nodup", decide (Clause.nodup s)),
   ("typedNodeSound", decide (Clause.typedNodeSound s)),
   ("typedNodeComplete", decide (Clause.typedNodeComplete s)),
   ("typedLinkSound", decide (Clause.typedLinkSound s)),
   ("typedLinkComplete", decide (Clause.typedLinkComplete s)),
   ("typedCurveSound", decide (Clause.typedCurveSound s)),
   ("endsExist", decide (Clause.endsExist s)),
   ("usageNodeSound", decide (Clause.usageNodeSound s)),
   ("usageNodeLinks", decide (Clause.usageNodeLinks s)),
   ("usageNodeSources", decide (Clause.usageNodeSources s)),
   ("usagePatSound", decide (Clause.usagePatSound s)),
   ("usagePatNodes", decide (Clause.usagePatNodes s)),
   ("usagePatLinks", decide (Clause.usagePatLinks s)),
   ("usagePatSources", decide (Clause.usagePatSources s)),
   ("usageCurveSound", decide (Clause.usageCurveSound s)),
   ("usageCurveNodes", decide (Clause.usageCurveNodes s)),
   ("usageCurveLinks", decide (Clause.usageCurveLinks s)),
   ("usageObjSound", decide (Clause.usageObjSound s))]

/-- executable form of `Inv` -/
def invB (s : Reg) : Bool := (clauseTable s).all (·.2)

/-! ### the derived views and what they must show -/

structure Views where
  iters : List (TSet × Option (List Name))                                        -- typed iterators
  linksFor : List (Name × Option (List Name) × Option (List Name) × Option (List Name))  -- node ↦ ALL, INLET, OUTLET
  gnodes : List Name
  gedges : List (Name × Name × Name)

/-- the views as the code computes them from its bookkeeping -/
def views (s : Reg) : Views :=
  { iters := allTSets.map (fun t => (t, typedIter s t)),
    linksFor := (AL.keys s.nodes).map (fun n => (n, linksForNode s n .all, linksForNode s n .inlet, linksForNode s n .outlet)),
    gnodes := graphNodes s,
    gedges := graphEdges s }

/-- `a` lists exactly the members of `b`, each once -/
def sameSet {β : Type} [DecidableEq β] (a b : List β) : Bool :=
  a.all (b.contains ·) && b.all (a.contains ·) && decide a.Nodup

def namesOfSet (s : Reg) (t : TSet) : List Name :=
  if t ∈ nodeSets then (s.nodes.filter (fun kv => nodeSet kv.2.kind = t)).map Prod.fst
  else (s.links.filter (fun kv => t ∈ linkSets kv.2.kind)).map Prod.fst

def incident (s : Reg) (n : Name) (f : Flag) : List Name :=
  (s.links.filter (fun kv => match f with
    | .all => kv.2.start = n || kv.2.end_ = n
    | .inlet => kv.2.end_ = n
    | .outlet => kv.2.start = n)).map Prod.fst

def iterOk (s : Reg) (t : TSet) (r : Option (List Name)) : Bool :=
  match r with
  | none => false
  | some l => if t ∈ curveSets then l.all (s.curves.contains ·) && decide l.Nodup else sameSet l (namesOfSet s t)

def optSame (r : Option (List Name)) (e : List Name) : Bool :=
  match r with
  | none => false
  | some l => sameSet l e

/-- the specification of the derived views in terms of the primary stores only: typed iterators do not
raise and enumerate exactly the elements of their class, `get_links_for_node` is the incidence relation,
the graph has exactly the nodes and links of the model -/
def viewsOk (s : Reg) (w : Views) : Bool :=
  w.iters.all (fun p => iterOk s p.1 p.2) &&
  w.linksFor.all (fun p => optSame p.2.1 (incident s p.1 .all) && optSame p.2.2.1 (incident s p.1 .inlet) &&
    optSame p.2.2.2 (incident s p.1 .outlet)) &&
  sameSet w.gnodes (AL.keys s.nodes) && sameSet w.gedges (graphEdges s)

end Wntr.Registry
