/-
M5-frame (C11) — "simulating never alters the model definition; reset and rerun reproduce results" as a FRAME argument.

The Python objects of a `WaterNetworkModel` are a store: a value for every location `(element, slot)`, a slot being
`(class name, underlying storage field)` — e.g. `("Tank", "_head")`, `("HeadPump", "_speed_timeseries.base_value")`,
`("WaterNetworkModel", "sim_time")`.  What the code does with the store is DATA that the translator
(`harness/props/c11.py`) regenerates from /repo's current source into `Gen/FrameC11.lean`:

* `written`      slots a simulator run can assign (control actions, internal control actions, `store_results_in_network`,
                 the time loop of `wntr/sim/core.py`, isolation flags, `EpanetSimulator.run_sim`);
* `toDictReads`  slots `to_dict` reads (public attribute → property → storage field, by reflection on populated instances);
* `resetAssigns` slots `reset_initial_values` re-assigns.

Here: a run is ANY finite sequence of writes to slots drawn from a write-set `W` (so every theorem holds for every control
set, every number of time steps, every solver outcome); `to_dict` is ANY function of the store that only looks at slots of
a read-set `R`; `reset_initial_values` overwrites the slots of `A` with values computed from slots outside `W`.
Import-free.
-/
namespace Wntr.Frame

structure Slot where
  cls : String
  field : String
  deriving Repr, DecidableEq, Inhabited

structure Loc where
  elem : Nat
  slot : Slot
  deriving Repr, DecidableEq, Inhabited

abbrev State (V : Type) := Loc → V

def State.write (s : State V) (l : Loc) (v : V) : State V := fun l' => if l' = l then v else s l'

/-- the writes of one run, in order -/
abbrev Trace (V : Type) := List (Loc × V)

def run (s : State V) : Trace V → State V
  | [] => s
  | p :: t => run (s.write p.1 p.2) t

/-- every write of the trace goes to a slot of `W` -/
def Trace.within (W : List Slot) (t : Trace V) : Prop := ∀ p ∈ t, p.1.slot ∈ W

/-- two stores agree on the slots of `R` -/
def AgreeOn (R : List Slot) (s s' : State V) : Prop := ∀ l : Loc, l.slot ∈ R → s l = s' l

/-- a function of the store that only looks at the slots of `R` (`to_dict`, or "what a simulation reads") -/
def ReadsOnly (R : List Slot) (f : State V → D) : Prop := ∀ s s', AgreeOn R s s' → f s = f s'

/-- the elements of a model: (element index, class name) -/
abbrev Elems := List (Nat × String)

/-- the canonical `to_dict`: for every element the value of every read slot of its class -/
def toDict (R : List Slot) (E : Elems) (s : State V) : List (Loc × V) :=
  E.flatMap fun e => (R.filter fun sl => sl.cls == e.2).map fun sl => (⟨e.1, sl⟩, s ⟨e.1, sl⟩)

/-- slots of `W` that are also in `R` -/
def overlap (W R : List Slot) : List Slot := W.filter fun w => decide (w ∈ R)

/-- slots of `W` that are not in `A` -/
def missing (W A : List Slot) : List Slot := W.filter fun w => !decide (w ∈ A)

/-- `reset_initial_values`: the slots of `A` get `init s l`, everything else is kept -/
def reset (A : List Slot) (init : State V → Loc → V) (s : State V) : State V :=
  fun l => if l.slot ∈ A then init s l else s l

/-- one simulator: from the store it finds, the writes it performs and the results it reports -/
structure Sim (V Res : Type) where
  trace : State V → Trace V
  results : State V → Res

/-- a cycle of `n` consecutive (run; reset) pairs from store `s`: the results of every run -/
def cycles (A : List Slot) (init : State V → Loc → V) (sim : Sim V Res) : Nat → State V → List Res
  | 0, _ => []
  | n + 1, s => sim.results s :: cycles A init sim n (reset A init (run s (sim.trace s)))

end Wntr.Frame
