/-
`UnitsNames` — the STRING forms of the unit enums of wntr/epanet/util.py and the INP `UNITS` keyword, and the shape of the
containers `to_si` / `from_si` accept.

* `UnitName` / `ParamName`: one row per enum member, filled in by reflection (`FlowUnits[name]`, `FlowUnits[name.lower()]`,
  `FlowUnits(id)`, `HydParam['Flow']` …) and, for the INP keyword, by `ast` of wntr/epanet/io.py (`_read_options` assigns
  `FlowUnits[words[1].upper()]`, `_write_options` prints `self.flow_units.name`) -- `Gen/UnitsNames.lean`.
* `Data`: scalar / list / dict / Series / DataFrame / ndarray with labels; a conversion is `Data.map` of "multiply by the
  factor of the table row", with NaN and the infinities passed through (all factors are positive).
Import-free.
-/
import WntrModel.Model.Units

namespace Wntr.Units

structure UnitName where
  name : String
  id : Nat
  traditional : Bool
  metric : Bool
  byName : Option Nat       -- int(FlowUnits[name])
  byLower : Option Nat      -- int(FlowUnits[name.lower()])
  byId : Option Nat         -- int(FlowUnits(id))
  inpRead : Option Nat      -- `UNITS <name>` read by InpFile._read_options
  inpReadLower : Option Nat -- `UNITS <name.lower()>`
  inpWrite : String         -- what InpFile._write_options prints after UNITS
  deriving Repr, DecidableEq

structure ParamName where
  hyd : Bool
  name : String
  value : Nat
  byName : Option Nat
  byUpper : Option Nat
  byLower : Option Nat
  deriving Repr, DecidableEq

structure MassName where
  name : String
  id : Nat
  byName : Option Nat
  byLower : Option Nat
  deriving Repr, DecidableEq

/-- how the code treats a reaction order given in some form (`1.5`, `1.0`, `numpy.int64(1)`, `True`, `'1'`): `toRows` = the integer
orders 0 / 1 / 2 whose traced conversion chains (all flow units, all mass units) are the chains `_to_si` performs for this order;
`fromRows` the same for `_from_si`.  Filled in by symbolic tracing on every run. -/
structure OrderProbe where
  label : String
  value : Option Rat
  param : Nat
  toRows : List Nat
  fromRows : List Nat
  deriving Repr, DecidableEq

/-- the branch structure on `reaction_order` of `QualParam._to_si` / `_from_si`, read by `ast`: the statements that re-assign
the order (a normalisation such as `int(float(order))`) and the comparisons made on it, in source order -/
structure OrderBranching where
  normTo : List String
  normFrom : List String
  testsTo : List String
  testsFrom : List String
  deriving Repr, DecidableEq

/-- the row of the traced table both directions use for an ARBITRARY order: `== 1`, `== 0`, anything else converts like order 2
(no order-specific factor) -/
def orderRow (o : Rat) : Nat := if o = 1 then 1 else if o = 0 then 0 else 2

/-- the ten flow-unit keywords of an EPANET INP file -/
def epanetKeywords : List String := ["CFS", "GPM", "MGD", "IMGD", "AFD", "LPS", "LPM", "MLD", "CMH", "CMD"]
def usKeywords : List String := ["CFS", "GPM", "MGD", "IMGD", "AFD"]
def metricKeywords : List String := ["LPS", "LPM", "MLD", "CMH", "CMD"]

/-! ### containers -/

/-- a float as the containers hold it: finite (exact rational of the double), NaN, +inf, -inf -/
inductive XVal where
  | fin (q : Rat)
  | nan
  | pinf
  | ninf
  deriving Repr, DecidableEq

/-- IEEE multiplication by a finite non-zero factor `f` (sign rule for the infinities; NaN stays NaN) -/
def XVal.scale (f : Rat) : XVal → XVal
  | .fin q => .fin (q * f)
  | .nan => .nan
  | .pinf => if 0 < f then .pinf else if f < 0 then .ninf else .nan
  | .ninf => if 0 < f then .ninf else if f < 0 then .pinf else .nan

/-- what `to_si` / `from_si` accept: the labels (dict keys, Series index and name, DataFrame index and columns, array shape) and the values -/
inductive Data where
  | scalar (x : XVal)
  | list (xs : List XVal)
  | dict (keys : List String) (xs : List XVal)
  | series (index : List String) (name : String) (xs : List XVal)
  | frame (index cols : List String) (rows : List (List XVal))
  | array (shape : List Nat) (xs : List XVal)
  deriving Repr, DecidableEq

def Data.map (g : XVal → XVal) : Data → Data
  | .scalar x => .scalar (g x)
  | .list xs => .list (xs.map g)
  | .dict ks xs => .dict ks (xs.map g)
  | .series ix nm xs => .series ix nm (xs.map g)
  | .frame ix cs rows => .frame ix cs (rows.map fun r => r.map g)
  | .array sh xs => .array sh (xs.map g)

/-- kind, labels and sizes of a container -/
def Data.labels : Data → String × List String × List String × List Nat
  | .scalar _ => ("scalar", [], [], [])
  | .list xs => ("list", [], [], [xs.length])
  | .dict ks xs => ("dict", ks, [], [xs.length])
  | .series ix nm xs => ("series", ix, [nm], [xs.length])
  | .frame ix cs rows => ("frame", ix, cs, rows.map List.length)
  | .array sh xs => ("array", [], [], sh ++ [xs.length])

def Data.values : Data → List XVal
  | .scalar x => [x]
  | .list xs => xs
  | .dict _ xs => xs
  | .series _ _ xs => xs
  | .frame _ _ rows => rows.flatten
  | .array _ xs => xs

def Entry.toSIData (e : Entry) (d : Data) : Data := d.map (XVal.scale (factor e.toSteps))
def Entry.fromSIData (e : Entry) (d : Data) : Data := d.map (XVal.scale (factor e.fromSteps))

end Wntr.Units
