/-
M5b `Controls` — the control passes of `WNTRSimulator.run_sim` that decide C05, hydraulics abstracted away.

  * `Link`, `write`            the three private attributes controls write (`_user_status`, `_internal_status`, `_setting`)
                               and `ControlAction.run_control_action` / `_InternalControlAction.run_control_action`.
  * `changed`                  `ControlChangeTracker.changes_made(ref)`: some registered `(obj, 'status'|'setting')` differs
                               from its value at the reference point (the tracker's incremental set equals this diff
                               because every write notifies it).
  * `runPass` / `postsolve`    `_run_postsolve_controls`: `check()` (conditions evaluated on the solved state),
                               stable sort by priority, actions in that order.
  * `presolve`                 `_compute_next_timestep_and_run_presolve_controls_and_rules` for a model WITHOUT rules
                               (C05 is about simple controls): check, sort by priority, stable sort by backtrack descending,
                               first step ⇒ backtracks zeroed, groups of equal backtrack run until one changes something,
                               `sim_time -= backtrack`.  (The interleaving with rule timesteps is M5 `Sched`, property C04;
                               without rules the three branches of the loop act identically.)
  * `consistentAt`             the C05 oracle on one reported step of the REAL simulator.
Conditions are an abstract truth assignment here (`holds : Ctl → Bool`): a post-solve condition's truth value is a function
of the solved state only (`TankLevelCondition._last_value` influences `_backtrack`, never the returned state) — see M7 `Tank`.
Import-free apart from M7.
-/
import WntrModel.Model.Tank
namespace Wntr.Controls
open Wntr.Tank

inductive Field where
  | user | internal | setting | speed
  deriving Repr, DecidableEq, Inhabited

structure Link where
  kind : Kind
  user : Rat
  internal : Rat
  setting : Rat
  /-- `base_speed` (pumps) -/
  speed : Rat := 1
  deriving Repr, Inhabited

abbrev Links := List Link

def Link.get (l : Link) : Field → Rat
  | .user => l.user | .internal => l.internal | .setting => l.setting | .speed => l.speed

def Link.set (l : Link) (f : Field) (v : Rat) : Link :=
  match f with
  | .user => { l with user := v } | .internal => { l with internal := v } | .setting => { l with setting := v }
  | .speed => { l with speed := v }

/-- the `status` property -/
def Link.status (l : Link) : Rat := Tank.status l.kind l.user l.internal

/-- `setattr(target, private_attribute, value)` -/
structure Act where
  link : Nat
  field : Field
  value : Rat
  deriving Repr, Inhabited, BEq

def modifyAt (f : Link → Link) : Nat → Links → Links
  | _, [] => []
  | 0, l :: ls => f l :: ls
  | n + 1, l :: ls => l :: modifyAt f n ls

def write (ls : Links) (a : Act) : Links := modifyAt (fun l => l.set a.field a.value) a.link ls

def fieldAt (ls : Links) (i : Nat) (f : Field) : Option Rat := (ls[i]?).map (·.get f)

/-- what the change tracker looks at: `action.target()` is `(obj, 'status')` for status writes (user or internal)
and `(obj, 'setting')` for setting writes -/
inductive Watch where
  | status | setting | speed
  deriving Repr, DecidableEq, Inhabited

def Field.watch : Field → Watch
  | .setting => .setting | .speed => .speed | _ => .status

def observe (ls : Links) (w : Nat × Watch) : Option Rat :=
  (ls[w.1]?).map fun l => match w.2 with | .status => l.status | .setting => l.setting | .speed => l.speed

/-- `changes_made(ref)` over the registered targets -/
def changed (tracked : List (Nat × Watch)) (ref cur : Links) : Bool :=
  tracked.any fun w => observe ref w != observe cur w

/-- a simple control as the passes see it: priority and its single then-action -/
structure Ctl where
  id : Nat
  prio : Nat
  act : Act
  deriving Repr, Inhabited, BEq

/-- insert `x` (which preceded every element of the list in the original order) before the first element whose key is
not smaller: equal keys keep their original order -/
def insertBy {α : Type} (key : α → Int) (x : α) : List α → List α
  | [] => [x]
  | y :: ys => if key x ≤ key y then x :: y :: ys else y :: insertBy key x ys

/-- stable insertion sort, ascending in `key` (Python's `list.sort(key=...)` is stable) -/
def sortBy {α : Type} (key : α → Int) : List α → List α
  | [] => []
  | x :: xs => insertBy key x (sortBy key xs)

def sortPrio (l : List Ctl) : List Ctl := sortBy (fun c => (c.prio : Int)) l

/-- the actions of the triggered controls in priority order (lowest first, so the highest priority writes last) -/
def runPass (due : List Ctl) (ls : Links) : Links := (sortPrio due).foldl (fun s c => write s c.act) ls

/-- `_run_postsolve_controls` with the conditions' truth values given by `holds` -/
def postsolve (holds : Ctl → Bool) (cs : List Ctl) (ls : Links) : Links := runPass (cs.filter holds) ls

/-! ### the control list the simulator really runs: user controls + companions -/

/-- what a user control's action targets: `ControlAction(link, 'status' | 'setting' | 'base_speed', value)` -/
inductive UAttr where
  | status | setting | baseSpeed
  deriving Repr, DecidableEq, Inhabited

structure UCtl where
  id : Nat
  prio : Nat
  link : Nat
  kind : Kind
  attr : UAttr
  value : Rat
  deriving Repr, Inhabited

/-- the control itself: the private attribute `ControlAction` writes -/
def UCtl.ctl (u : UCtl) : Ctl :=
  ⟨u.id, u.prio, ⟨u.link, (match u.attr with | .status => .user | .setting => .setting | .baseSpeed => .speed), u.value⟩⟩

/-- `_get_pump_controls`, first loop: a control on a pump's `base_speed` gets a COMPANION with the same condition and the same
priority that puts the pump back in service (`status := Open`).  `none` = the `ValueError` for a non-pump target. -/
def pumpCompanion (idBase : Nat) (u : UCtl) : Option (Option Ctl) :=
  match u.attr with
  | .baseSpeed => if u.kind == .pump then some (some ⟨idBase + u.id, u.prio, ⟨u.link, .user, 1⟩⟩) else none
  | _ => some none

/-- `_get_valve_controls`, first loop: a control on a `setting` gets a companion `status := Active` (same condition, same
priority); settings on pumps / pipes raise `ValueError` -/
def valveCompanion (idBase : Nat) (u : UCtl) : Option (Option Ctl) :=
  match u.attr with
  | .setting => if u.kind == .valve then some (some ⟨idBase + u.id, u.prio, ⟨u.link, .user, 2⟩⟩) else none
  | _ => some none

def companionsOf (f : UCtl → Option (Option Ctl)) (us : List UCtl) : List Ctl :=
  us.filterMap fun u => (f u).getD none

/-- registration order of `_get_control_managers`: the model's controls, the tank-limit controls, the CV controls, the pump
companions + internal pump controls, the valve companions + internal valve controls -/
def simulatorControls (idBase : Nat) (us : List UCtl) (tankC cvC pumpC valveC : List Ctl) : List Ctl :=
  us.map (·.ctl) ++ tankC ++ cvC ++ companionsOf (pumpCompanion idBase) us ++ pumpC
    ++ companionsOf (valveCompanion (2 * idBase)) us ++ valveC

/-- the control whose companion `c` is (companions share the CONDITION of their control: triggered together) -/
def companionSource (idBase : Nat) (us : List UCtl) (c : Ctl) : Option UCtl :=
  us.find? fun u => (pumpCompanion idBase u).getD none == some c || (valveCompanion (2 * idBase) u).getD none == some c

/-! ### presolve (no rules) -/

structure Due where
  ctl : Ctl
  back : Int
  deriving Repr, Inhabited

/-- `.sort(key=priority)`, then `.sort(key=backtrack, reverse=True)` — both stable -/
def sortDue (l : List Due) : List Due :=
  sortBy (fun d => - d.back) (sortBy (fun d => (d.ctl.prio : Int)) l)

/-- run the leading entries whose backtrack equals `back` -/
def runGroup (back : Int) : List Due → Links → Links × List Due
  | [], ls => (ls, [])
  | d :: rest, ls => if d.back == back then runGroup back rest (write ls d.ctl.act) else (ls, d :: rest)

def presolveLoop (tracked : List (Nat × Watch)) (ref : Links) : Nat → List Due → Links → Int → Links × Int
  | 0, _, ls, t => (ls, t)
  | _, [], ls, t => (ls, t)
  | fuel + 1, d :: rest, ls, t =>
    let r := runGroup d.back rest (write ls d.ctl.act)
    if changed tracked ref r.1 then (r.1, t - d.back) else presolveLoop tracked ref fuel r.2 r.1 t

/-- the presolve pass: returns the link state before the solve and the accepted `sim_time` -/
def presolve (tracked : List (Nat × Watch)) (firstStep : Bool) (due : List Due) (ls : Links) (t : Int) : Links × Int :=
  let sorted := sortDue due
  let sorted := if firstStep then sorted.map (fun d => { d with back := 0 }) else sorted
  presolveLoop tracked ls sorted.length sorted ls t

/-! ### presolve WITH rules (the rule grid inside the presolve loop) -/

/-- the `while` loop of `_compute_next_timestep_and_run_presolve_controls_and_rules` with rules: `ruleAt r ls` is the link state
after the rules triggered at rule instant `r` ran (in priority order; the tank heads are updated to `r` before they are evaluated —
supplied by the caller: M5c `TankRun.ruleAt`, or the observed table in the correspondence).  `ri` is `_rule_iter`, `rule` the rule
timestep.  The three branches compare the control's instant `t − backtrack` with the next rule instant `ri·rule`.
Returns link state, accepted time, `_rule_iter`. -/
def presolveRulesLoop (tracked : List (Nat × Watch)) (ref : Links) (rule : Int) (ruleAt : Int → Links → Links) :
    Nat → List Due → Links → Int → Int → Links × Int × Int
  | 0, _, ls, t, ri => (ls, t, ri)
  | fuel + 1, due, ls, t, ri =>
    if !due.isEmpty || decide (ri * rule ≤ t) then
      match due with
      | [] =>
        let ls1 := ruleAt (ri * rule) ls
        if changed tracked ref ls1 then (ls1, ri * rule, ri + 1)
        else presolveRulesLoop tracked ref rule ruleAt fuel [] ls1 t (ri + 1)
      | d :: rest =>
        if t - d.back < ri * rule then
          let r := runGroup d.back rest (write ls d.ctl.act)
          if changed tracked ref r.1 then (r.1, t - d.back, ri)
          else presolveRulesLoop tracked ref rule ruleAt fuel r.2 r.1 t ri
        else if t - d.back == ri * rule then
          let ls1 := ruleAt (t - d.back) ls
          let r := runGroup d.back rest (write ls1 d.ctl.act)
          if changed tracked ref r.1 then (r.1, t - d.back, ri + 1)
          else presolveRulesLoop tracked ref rule ruleAt fuel r.2 r.1 t (ri + 1)
        else
          let ls1 := ruleAt (ri * rule) ls
          if changed tracked ref ls1 then (ls1, ri * rule, ri + 1)
          else presolveRulesLoop tracked ref rule ruleAt fuel (d :: rest) ls1 t (ri + 1)
    else (ls, t, ri)

/-- the presolve pass with rules; fuel: every iteration consumes a due control or advances `_rule_iter` -/
def presolveRules (tracked : List (Nat × Watch)) (firstStep : Bool) (due : List Due) (ls : Links) (t : Int) (rule ri : Int)
    (ruleAt : Int → Links → Links) : Links × Int × Int :=
  let sorted := sortDue due
  let sorted := if firstStep then sorted.map (fun d => { d with back := 0 }) else sorted
  presolveRulesLoop tracked ls rule ruleAt (sorted.length + (t / rule - ri + 3).toNat + 2) sorted ls t ri

/-! ### the C05 oracle on a reported step -/

/-- a simple control evaluated on one reported step -/
structure RCtl where
  id : Nat
  prio : Nat
  holds : Bool
  link : Nat
  watch : Watch
  value : Rat
  deriving Repr, Inhabited

/-- a link on one reported step; `excused` = own check valve, pump (shut-off rule), or adjacent tank at a level limit -/
structure RLink where
  status : Rat
  setting : Rat
  excused : Bool
  deriving Repr, Inhabited

inductive Verdict where
  | ok | excused | conflict | bad
  deriving Repr, DecidableEq, Inhabited

def RLink.get (l : RLink) : Watch → Rat
  | .status => l.status | .setting => l.setting | .speed => 1

/-- verdict for control `c`: its condition holds ⇒ the target shows the commanded value; commanded closed admits no
excuse; commanded open/active may be held closed by CV / pump shut-off / tank limit; otherwise only a triggered control of
equal or higher priority on the same target commanding something else excuses it. -/
def verdict (cs : List RCtl) (ls : List RLink) (c : RCtl) : Verdict :=
  if !c.holds then .ok else
  match ls[c.link]? with
  | none => .bad
  | some l =>
    if l.get c.watch == c.value then .ok
    else if cs.any (fun d => d.holds && d.id != c.id && d.link == c.link && d.watch == c.watch
                              && decide (c.prio ≤ d.prio) && d.value != c.value) then .conflict
    else if c.watch == .status && c.value != 0 && l.status == 0 && l.excused then .excused
    else .bad

def consistentAt (cs : List RCtl) (ls : List RLink) : List (Nat × Verdict) :=
  cs.map fun c => (c.id, verdict cs ls c)

/-- tank within `band` of one of its level limits (the hysteresis band of the internal limit controls is Htol) -/
def atLimit (t : Tank) (head band : Rat) : Bool :=
  let lvl := level t head
  lvl ≤ t.minLevel + band || t.maxLevel - band ≤ lvl

end Wntr.Controls
