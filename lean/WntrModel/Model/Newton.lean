/-
M5c Newton — `NewtonSolver.solve` (wntr/sim/solvers.py) as it is, and `_solver_helper`'s mapping to what `run_sim` sees.

The arithmetic is abstract: `X` = vectors of variable values, `D` = Newton directions.  A `World` gives
  norm   : the infinity norm of the residual `np.max(abs(model.evaluate_residuals()))` at a model state; `none` = NaN
           (every comparison with NaN is False, as in Python)
  lin    : `-spsolve(J, r)` with `J`, `r` taken at the current model state, at outer iteration `k`;
           `none` = `MatrixRankWarning` (turned into an exception by the filter installed in solvers.py)
  move   : `x + alpha * d`.  The last argument is a ghost tag (the number of residual evaluations made so far) which
           real arithmetic ignores; the trace world of the driver uses it to name the points.
  timeUp : `time.time() - t0 >= self.time_limit` when tested at the top of outer iteration `k`
The solver does not return `x`: its result is the state the MODEL is left in (`loaded`, the argument of the last
`model.load_var_values_from_x`), next to the local `x`.  (Since fix 14495b3c the loop variables are bound before the loops,
so `MAXITER = 0` / `BT_MAXITER = 0` are reported failures, not UnboundLocalErrors.)
-/
namespace Wntr.Newton

structure Opts where
  maxiter : Nat       -- MAXITER (3000)
  tol : Rat           -- TOL (1e-6)
  rho : Rat           -- BT_RHO (0.5)
  btMaxiter : Nat     -- BT_MAXITER (100)
  bt : Bool           -- BACKTRACKING (True)
  btStartIter : Nat   -- BT_START_ITER (0)
  /-- the constant `0.0001` of the sufficient-decrease test, as the double it is -/
  c1 : Rat
  deriving Repr, Inhabited

inductive Status where
  | converged   -- SolverStatus.converged = 1
  | error       -- SolverStatus.error = 0
  deriving DecidableEq, Repr, Inhabited

inductive Msg where
  | noVars      -- "No variables or constraints"
  | solved      -- "Solved Successfully"
  | timeLimit   -- "Time limit exceeded"
  | singular    -- "Jacobian is singular at iteration k"
  | lineSearch  -- "Line search failed at iteration k"
  | maxIter     -- "Reached maximum number of iterations: k"
  deriving DecidableEq, Repr, Inhabited

/-- the returned tuple `(status, message, iter_count)` -/
inductive Outcome where
  | ret (st : Status) (msg : Msg) (iter : Nat)
  deriving DecidableEq, Repr, Inhabited

structure World (X D : Type) where
  norm : X → Option Rat
  lin : X → Nat → Option D
  move : X → D → Rat → Nat → X
  timeUp : Nat → Bool

/-- Python `a < b` on floats that may be NaN -/
def ltO : Option Rat → Option Rat → Bool
  | some a, some b => a < b
  | _, _ => false

/-- Python `c * r` with `r` possibly NaN -/
def mulO (c : Rat) : Option Rat → Option Rat
  | some r => some (c * r)
  | none => none

structure St (X : Type) where
  /-- the local `x` -/
  x : X
  /-- the values the model holds (last `load_var_values_from_x`, initially the model's own) -/
  loaded : X
  useR : Bool
  /-- the local `new_norm` (norm of `r_`) -/
  newNorm : Option Rat
  /-- number of `model.evaluate_residuals()` calls so far -/
  nEval : Nat

variable {X D : Type}

/-- result of the `for iter_bt in range(self.bt_maxiter)` loop -/
structure LS (X : Type) where
  /-- left through `break` -/
  accepted : Bool
  /-- last value of `iter_bt` (`-1` when the loop body never ran) -/
  iterBt : Int
  st : St X

/-- the backtracking loop from `iter_bt = i` with `n` passes left; `base` is the local `x` the trials start from -/
def lsLoop (wd : World X D) (o : Opts) (base : X) (d : D) (rNorm : Option Rat) :
    Nat → Nat → Rat → St X → LS X
  | i, 0, _, s => { accepted := false, iterBt := (i : Int) - 1, st := s }
  | i, n + 1, alpha, s =>
    let x_ := wd.move base d alpha s.nEval            -- x_ = x + alpha * d
    let nn := wd.norm x_                              -- load x_; r_ = evaluate_residuals(); new_norm = max|r_|
    let s1 : St X := { s with loaded := x_, newNorm := nn, nEval := s.nEval + 1 }
    if ltO nn (mulO (1 - o.c1 * alpha) rNorm) then
      { accepted := true, iterBt := (i : Int), st := { s1 with x := x_ } }   -- x = x_; break
    else lsLoop wd o base d rNorm (i + 1) n (alpha * o.rho) s1        -- alpha = alpha * rho

/-- `r`, `r_norm` at the top of a pass: the stored trial residual, or a fresh evaluation at the model's state -/
def fresh (wd : World X D) (s : St X) : St X × Option Rat :=
  if s.useR then (s, s.newNorm) else ({ s with nEval := s.nEval + 1 }, wd.norm s.loaded)

/-- how one pass of the main loop ends -/
inductive Step (X : Type) where
  | done (out : Outcome) (s : St X)   -- `return ...`
  | next (s : St X)                   -- falls through to the next `outer_iter`

/-- the `if self.bt and outer_iter >= self.bt_start_iter:` branch -/
def btPass (wd : World X D) (o : Opts) (i : Nat) (s1 : St X) (rNorm : Option Rat) (d : D) : Step X :=
  let s2 : St X := { s1 with useR := true }
  let ls := lsLoop wd o s2.x d rNorm 0 o.btMaxiter 1 s2     -- `iter_bt = -1`, then the loop
  if ls.iterBt + 1 ≥ (o.btMaxiter : Int) then .done (.ret .error .lineSearch i) ls.st
  else .next ls.st

/-- the `else:` branch: `x += d; model.load_var_values_from_x(x)` -/
def plainPass (wd : World X D) (s1 : St X) (d : D) : Step X :=
  let x' := wd.move s1.x d 1 s1.nEval
  .next { s1 with x := x', loaded := x' }

/-- one pass of `for outer_iter in range(self.maxiter)` at `outer_iter = i` -/
def pass (wd : World X D) (o : Opts) (i : Nat) (s : St X) : Step X :=
  if wd.timeUp i then .done (.ret .error .timeLimit i) s
  else if ltO (fresh wd s).2 (some o.tol) then .done (.ret .converged .solved i) (fresh wd s).1
  else
    match wd.lin (fresh wd s).1.loaded i with
    | none => .done (.ret .error .singular i) (fresh wd s).1
    | some d =>
      if o.bt && decide (i ≥ o.btStartIter) then btPass wd o i (fresh wd s).1 (fresh wd s).2 d
      else plainPass wd (fresh wd s).1 d

/-- the main loop from `outer_iter = i` with `n` passes left -/
def outer (wd : World X D) (o : Opts) : Nat → Nat → St X → Outcome × St X
  | i, 0, s => (.ret .error .maxIter (i - 1), s)     -- `outer_iter` = its last value (0 when the body never ran)
  | i, n + 1, s =>
    match pass wd o i s with
    | .done out s' => (out, s')
    | .next s' => outer wd o (i + 1) n s'

/-- `NewtonSolver(options).solve(model)`; `empty` = `len(model.get_x()) == 0` -/
def solve (wd : World X D) (o : Opts) (empty : Bool) (x0 : X) : Outcome × St X :=
  let s0 : St X := { x := x0, loaded := x0, useR := false, newNorm := none, nEval := 0 }
  if empty then (.ret .converged .noVars 0, s0) else outer wd o 0 o.maxiter s0

/-- how `NewtonSolver.__init__` reads one option -/
structure OptRead where
  key : String
  attr : String
  /-- `if KEY not in self._options: default else: self._options[KEY]` -- the value given by the caller is used whenever the key is
  present, also when it is falsy (`0`, `False`) -/
  presentKeyWins : Bool
  deriving DecidableEq, Repr

def refOptionReads : List OptRead := [
  ⟨"LOG_PROGRESS", "log_progress", true⟩, ⟨"LOG_LEVEL", "log_level", true⟩, ⟨"TIME_LIMIT", "time_limit", true⟩,
  ⟨"MAXITER", "maxiter", true⟩, ⟨"TOL", "tol", true⟩, ⟨"BT_RHO", "rho", true⟩, ⟨"BT_MAXITER", "bt_maxiter", true⟩,
  ⟨"BACKTRACKING", "bt", true⟩, ⟨"BT_START_ITER", "bt_start_iter", true⟩]

/-- the value an option gets: the caller's, if the key is present (`presentKeyWins`), else the default.  The variant
`get(key) or default` (`presentKeyWins = false`) loses falsy values. -/
def readOpt (r : OptRead) (given : Option Nat) (default : Nat) : Nat :=
  match given with
  | some v => if r.presentKeyWins || v != 0 then v else default
  | none => default

/-! ### `_solver_helper` and what `run_sim` looks at -/

/-- which branch of `_solver_helper` -/
inductive SolverKind where
  | newton        -- `solver is NewtonSolver`
  | fsolve        -- `scipy.optimize.fsolve` (full_output): `ier`
  | scipyOther    -- newton_krylov, anderson, broyden1/2, excitingmixing, linearmixing, diagbroyden: exception or not
  | unknown       -- anything else: ValueError('Solver not recognized.')
  deriving DecidableEq, Repr

/-- how a call of a scipy solver (and the `load_var_values_from_x` after it) ends -/
inductive ScipyResult where
  | ok                      -- fsolve: `ier == 1`; the others: returned
  | notConverged            -- fsolve: `ier != 1`; the others: `scipy.optimize.NoConvergence`
  | otherException          -- anything else (ValueError 'array must not contain infs or NaNs', shape errors, FloatingPointError ...)
  deriving DecidableEq, Repr

/-- the `except` clause around the scipy nonlinear solvers -/
inductive Catch where
  | all                          -- bare `except:`
  | only (names : List String)   -- `except A:` / `except (A, B):`
  deriving DecidableEq, Repr

/-- the branch structure of `_solver_helper`, regenerated by the translator -/
structure HelperShape where
  /-- `if solver is NewtonSolver: sol = NewtonSolver(solver_options).solve(model)` -/
  newtonFirst : Bool
  /-- `elif solver is scipy.optimize.fsolve:` with `if ier != 1: error else: load; converged` -/
  fsolveByIer : Bool
  /-- the `except` clause around the fsolve branch, if it is inside a `try` (fix C16-fsolve-exception) -/
  fsolveCatch : Option Catch
  /-- the scipy.optimize functions of the third branch -/
  scipySolvers : List String
  scipyCatch : Catch
  /-- `else: raise ValueError('Solver not recognized.')` -/
  elseRaises : Bool
  deriving DecidableEq, Repr

/-- the reference shape; the one variant point is whether the fsolve branch is wrapped -/
def refHelperShape (fsolveCatch : Option Catch) : HelperShape :=
  { newtonFirst := true, fsolveByIer := true, fsolveCatch := fsolveCatch,
    scipySolvers := ["newton_krylov", "anderson", "broyden1", "broyden2", "excitingmixing", "linearmixing", "diagbroyden"],
    scipyCatch := .all, elseRaises := true }

/-- the triple `_solver_helper` returns (`iter_count` is None for the scipy solvers), or the exception it lets through -/
inductive Helper where
  | ret (status : Nat) (iter : Option Nat)
  | valueError
  | escaped        -- an exception of the scipy solver that the `except` clause does not name
  deriving DecidableEq, Repr

def Catch.catches : Catch → ScipyResult → Bool
  | .all, _ => true
  | .only names, .notConverged => names.contains "NoConvergence"
  | .only _, _ => false

def helper (sh : HelperShape) (kind : SolverKind) (newton : Outcome) (sci : ScipyResult) : Helper :=
  match kind with
  | .newton =>
    match newton with
    | .ret .converged _ k => .ret 1 (some k)
    | .ret .error _ k => .ret 0 (some k)
  | .fsolve =>
    match sci with
    | .ok => .ret 1 none
    | .notConverged => .ret 0 none
    | .otherException =>
      match sh.fsolveCatch with
      | some c => if c.catches .otherException then .ret 0 none else .escaped
      | none => .escaped                -- no `try` in this branch
  | .scipyOther =>
    match sci with
    | .ok => .ret 1 none
    | r => if sh.scipyCatch.catches r then .ret 0 none else .escaped
  | .unknown => .valueError

/-- `solver_status == 0` in `run_sim` -/
def Helper.failed : Helper → Bool
  | .ret 0 _ => true
  | _ => false

/-! ### the skeleton of `solve` as DATA (regenerated by the translator into `Gen/NewtonShape.lean`) -/

inductive NCond where
  | emptyX        -- `len(x) == 0`
  | timeUp        -- `time.time() - t0 >= self.time_limit`
  | useR          -- `use_r_`
  | normLtTol     -- `r_norm < self.tol`
  | btEnabled     -- `self.bt and outer_iter >= self.bt_start_iter`
  | decrease      -- `new_norm < (1.0 - 0.0001 * alpha) * r_norm`
  | lsExhausted   -- `iter_bt + 1 >= self.bt_maxiter`
  deriving DecidableEq, Repr

inductive NAct where
  | getX          -- `x = model.get_x()`
  | setUseR (b : Bool)
  | useStored     -- `r = r_`, `r_norm = new_norm`
  | evalResidual  -- `r = model.evaluate_residuals()`, `r_norm = np.max(abs(r))`
  | evalJacobian  -- `J = model.evaluate_jacobian(x=None)`
  | linSolve      -- `d = -sp.linalg.spsolve(J, r, permc_spec='COLAMD', use_umfpack=False)`
  | alphaInit     -- `alpha = 1.0`
  | trial         -- `x_ = x + alpha * d`
  | loadTrial     -- `model.load_var_values_from_x(x_)`
  | evalTrial     -- `r_ = model.evaluate_residuals()`, `new_norm = np.max(abs(r_))`
  | accept        -- `x = x_`
  | shrink        -- `alpha = alpha * self.rho`
  | plainStep     -- `x += d`
  | loadX         -- `model.load_var_values_from_x(x)`
  | initOuterIter -- `outer_iter = 0`
  | initIterBt    -- `iter_bt = -1`
  deriving DecidableEq, Repr

inductive Range where
  | maxiter       -- `for outer_iter in range(self.maxiter)`
  | btMaxiter     -- `for iter_bt in range(self.bt_maxiter)`
  deriving DecidableEq, Repr

inductive NStmt where
  | skip
  | act (a : NAct)
  | seq (s t : NStmt)
  | ite (c : NCond) (t e : NStmt)
  | forRange (r : Range) (body : NStmt)
  | tryLin (body : NStmt) (handler : NStmt)   -- `try: ... except sp.linalg.MatrixRankWarning: ...`
  | ret (st : Status) (msg : Msg)             -- `return (status, message, outer_iter)` (`0` for `noVars`)
  | brk
  deriving DecidableEq, Repr

def nblock : List NStmt → NStmt
  | [] => .skip
  | s :: r => .seq s (nblock r)

/-- the skeleton `lsLoop` / `outer` / `solve` were written from, in source order -/
def refSolve : NStmt := nblock [
  .act .getX,
  .ite .emptyX (.ret .converged .noVars) .skip,
  .act (.setUseR false),
  .act .initOuterIter,
  .forRange .maxiter (nblock [
    .ite .timeUp (.ret .error .timeLimit) .skip,
    .ite .useR (.act .useStored) (.act .evalResidual),
    .ite .normLtTol (.ret .converged .solved) .skip,
    .act .evalJacobian,
    .tryLin (.act .linSolve) (.ret .error .singular),
    .act .alphaInit,
    .ite .btEnabled (nblock [
        .act (.setUseR true),
        .act .initIterBt,
        .forRange .btMaxiter (nblock [
          .act .trial,
          .act .loadTrial,
          .act .evalTrial,
          .ite .decrease (nblock [.act .accept, .brk]) (.act .shrink)]),
        .ite .lsExhausted (.ret .error .lineSearch) .skip])
      (nblock [.act .plainStep, .act .loadX])]),
  .ret .error .maxIter]

/-! ### interpreter of the skeleton

`solveS prog` executes a skeleton on the same world: locals of `solve` that are not in `St` live in `NM`.  `Lemmas/NewtonShape.lean`
proves `solveS refSolve = solve`; with `generated_newton_shape_is_ref` the theorems are about the generated program. -/

inductive NFlow where
  | normal
  | broke                    -- `break`
  | returned (out : Outcome) -- `return (...)`
  | raisedLin                -- MatrixRankWarning propagating to the enclosing `try`
  deriving DecidableEq, Repr

structure NM (X D : Type) where
  s : St X
  rNorm : Option Rat       -- `r_norm`
  d : Option D             -- `d`
  alpha : Rat
  xTrial : X               -- `x_`
  outerIter : Nat
  iterBt : Int
  flow : NFlow

def evalNCond (wd : World X D) (o : Opts) (empty : Bool) (m : NM X D) : NCond → Bool
  | .emptyX => empty
  | .timeUp => wd.timeUp m.outerIter
  | .useR => m.s.useR
  | .normLtTol => ltO m.rNorm (some o.tol)
  | .btEnabled => o.bt && decide (m.outerIter ≥ o.btStartIter)
  | .decrease => ltO m.s.newNorm (mulO (1 - o.c1 * m.alpha) m.rNorm)
  | .lsExhausted => decide (m.iterBt + 1 ≥ (o.btMaxiter : Int))

def doNAct (wd : World X D) (o : Opts) (m : NM X D) : NAct → NM X D
  | .getX => m
  | .setUseR b => { m with s := { m.s with useR := b } }
  | .useStored => { m with rNorm := m.s.newNorm }
  | .evalResidual => { m with rNorm := wd.norm m.s.loaded, s := { m.s with nEval := m.s.nEval + 1 } }
  | .evalJacobian => m
  | .linSolve =>
    match wd.lin m.s.loaded m.outerIter with
    | none => { m with flow := .raisedLin }
    | some d => { m with d := some d }
  | .alphaInit => { m with alpha := 1 }
  | .trial =>
    match m.d with
    | some d => { m with xTrial := wd.move m.s.x d m.alpha m.s.nEval }
    | none => m
  | .loadTrial => { m with s := { m.s with loaded := m.xTrial } }
  | .evalTrial => { m with s := { m.s with newNorm := wd.norm m.s.loaded, nEval := m.s.nEval + 1 } }
  | .accept => { m with s := { m.s with x := m.xTrial } }
  | .shrink => { m with alpha := m.alpha * o.rho }
  | .plainStep =>
    match m.d with
    | some d => { m with s := { m.s with x := wd.move m.s.x d 1 m.s.nEval } }
    | none => m
  | .loadX => { m with s := { m.s with loaded := m.s.x } }
  | .initOuterIter => { m with outerIter := 0 }
  | .initIterBt => { m with iterBt := -1 }

def setLoopVar (r : Range) (i : Nat) (m : NM X D) : NM X D :=
  match r with
  | .maxiter => { m with outerIter := i }
  | .btMaxiter => { m with iterBt := (i : Int) }

def rangeLen (o : Opts) : Range → Nat
  | .maxiter => o.maxiter
  | .btMaxiter => o.btMaxiter

/-- `for v in range(n): body` from `v = i` with `n` passes left -/
def loopN (body : NM X D → NM X D) (setVar : Nat → NM X D → NM X D) : Nat → Nat → NM X D → NM X D
  | _, 0, m => m
  | i, n + 1, m =>
    let m1 := body (setVar i m)
    match m1.flow with
    | .normal => loopN body setVar (i + 1) n m1
    | .broke => { m1 with flow := .normal }
    | _ => m1

def execN (wd : World X D) (o : Opts) (empty : Bool) : NStmt → NM X D → NM X D
  | .skip, m => m
  | .act a, m => doNAct wd o m a
  | .seq s t, m =>
    let m1 := execN wd o empty s m
    match m1.flow with
    | .normal => execN wd o empty t m1
    | _ => m1
  | .ite c t e, m => if evalNCond wd o empty m c then execN wd o empty t m else execN wd o empty e m
  | .forRange r body, m => loopN (execN wd o empty body) (setLoopVar r) 0 (rangeLen o r) m
  | .tryLin body handler, m =>
    let m1 := execN wd o empty body m
    match m1.flow with
    | .raisedLin => execN wd o empty handler { m1 with flow := .normal }
    | _ => m1
  | .ret st msg, m => { m with flow := .returned (.ret st msg (if msg = .noVars then 0 else m.outerIter)) }
  | .brk, m => { m with flow := .broke }

/-- `solve` as the interpretation of a skeleton (`none`: the program fell off its end or let an exception through) -/
def solveS (prog : NStmt) (wd : World X D) (o : Opts) (empty : Bool) (x0 : X) : Option Outcome × St X :=
  let m0 : NM X D :=
    { s := { x := x0, loaded := x0, useR := false, newNorm := none, nEval := 0 }, rNorm := none, d := none, alpha := 1,
      xTrial := x0, outerIter := 0, iterBt := -1, flow := .normal }
  let m := execN wd o empty prog m0
  (match m.flow with | .returned out => some out | _ => none, m.s)

/-! ### the trace world used by the correspondence driver: points are named by the evaluation index -/

structure NTrace where
  /-- observed norms in evaluation order (`none` = NaN) -/
  norms : List (Option Rat)
  /-- per outer iteration: did `spsolve` succeed -/
  linOk : List Bool
  /-- outer iteration at which the time limit test fires, if any -/
  timeAt : Option Nat

def traceWorld (t : NTrace) : World Nat Nat where
  norm := fun x => (t.norms[x]?).join
  lin := fun _ i => if t.linOk.getD i true then some i else none
  move := fun _ _ _ tag => tag
  timeUp := fun i => t.timeAt == some i

end Wntr.Newton
