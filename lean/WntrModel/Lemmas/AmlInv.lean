/-
Lemmas for C15, bookkeeping layer: reference counts of `aml.Model`.

`Model.cnt m k`   = `_refcounts[k]` (0 when absent);  `Model.live m k` = "k has a C object" (`_var_cvar_map`,
`_param_cparam_map`, `_float_cfloat_map`);  `refsOf r k` = how often the registered constraints mention `k`
(Σ over `_vars/_params/_floats_referenced_by_con`).  `Inv` ties them together and is preserved by every operation.
-/
import WntrModel.Model.AmlModel
import Mathlib.Data.List.Basic
import Mathlib.Data.List.Nodup
import Mathlib.Tactic.Ring

namespace Wntr.Aml

/-! ### association-list facts -/

theorem lookup_filter_ne {κ β : Type} [DecidableEq κ] (l : List (κ × β)) (k k' : κ) :
    (l.filter (fun p => p.1 != k)).lookup k' = if k' = k then none else l.lookup k' := by
  induction l with
  | nil => simp
  | cons p r ih =>
    obtain ⟨a, b⟩ := p
    by_cases ha : a = k
    · subst ha
      simp only [List.filter_cons, bne_self_eq_false, Bool.false_eq_true, if_false, ih, List.lookup_cons]
      by_cases hk : k' = a
      · simp [hk]
      · have : (k' == a) = false := by simpa using hk
        simp [hk, this]
    · have : (a != k) = true := by simpa using ha
      simp only [List.filter_cons, this, if_true, List.lookup_cons, ih]
      by_cases hk : k' = k
      · subst hk
        have : (k' == a) = false := by simpa using fun e : k' = a => ha e.symm
        simp [this]
      · simp [hk]

theorem getCount_setCount (rc : List (LeafKey × Nat)) (k k' : LeafKey) (n : Nat) :
    getCount (setCount rc k n) k' = if k' = k then n else getCount rc k' := by
  unfold getCount setCount
  by_cases h : k' = k
  · subst h; simp [List.lookup_cons]
  · have : (k' == k) = false := by simpa using h
    simp only [List.lookup_cons, this, lookup_filter_ne, h, if_false]

theorem getCount_delCount (rc : List (LeafKey × Nat)) (k k' : LeafKey) :
    getCount (delCount rc k) k' = if k' = k then 0 else getCount rc k' := by
  unfold getCount delCount
  rw [lookup_filter_ne]
  by_cases h : k' = k <;> simp [h]

/-! ### views of the model -/

def Model.cnt (m : Model α) (k : LeafKey) : Nat := getCount m.refcounts k

/-- the leaf has a C object -/
def Model.live (m : Model α) : LeafKey → Bool
  | .var i => (m.varMap.lookup i).isSome
  | .param i => (m.paramMap.lookup i).isSome
  | .flt f => m.floatMap.contains f

/-- C object ⇔ positive reference count -/
def Bal (m : Model α) : Prop := ∀ k, m.live k = true ↔ 0 < m.cnt k

abbrev RefEntry := List Nat × List Nat × List Nat

/-- how often one constraint's reference lists mention a leaf (0 or 1 for the `OrderedSet`s of the code) -/
def mc (e : RefEntry) : LeafKey → Nat
  | .var i => e.1.count i
  | .param i => e.2.1.count i
  | .flt f => e.2.2.count f

def refsOf (r : List (Nat × RefEntry)) (k : LeafKey) : Nat := (r.map fun p => mc p.2 k).sum

/-- what differs between two models as far as the bookkeeping views are concerned -/
structure SameBook (m m' : Model α) : Prop where
  referenced : m'.referenced = m.referenced
  conMap : m'.conMap = m.conMap

/-! ### increments -/

section Inc
variable {α : Type} (O : Ops α)

theorem incVar_spec (m : Model α) (i addr : Nat) (hb : Bal m) :
    Bal (m.incVar O i addr).1 ∧
    (∀ k, (m.incVar O i addr).1.cnt k = m.cnt k + if k = .var i then 1 else 0) ∧
    (m.incVar O i addr).1.referenced = m.referenced ∧ (m.incVar O i addr).1.conMap = m.conMap := by
  unfold Model.incVar
  cases hl : m.varMap.lookup i with
  | none =>
    have h0 : m.cnt (.var i) = 0 := by
      have := (hb (.var i)).not
      simp only [Model.live, hl, Option.isSome_none, Bool.false_eq_true, not_false_eq_true, true_iff] at this
      omega
    refine ⟨?_, ?_, rfl, rfl⟩
    · intro k
      simp only [Model.cnt, getCount_setCount]
      by_cases hk : k = .var i
      · subst hk; simp [Model.live, List.lookup_cons]
      · have hbk := hb k
        simp only [hk, if_false]
        cases k with
        | var j =>
          have : j ≠ i := fun e => hk (by rw [e])
          have hb' : (j == i) = false := by simpa using this
          simpa [Model.live, Model.cnt, List.lookup_cons, hb'] using hbk
        | param j => simpa [Model.live, Model.cnt] using hbk
        | flt f => simpa [Model.live, Model.cnt] using hbk
    · intro k
      simp only [Model.cnt, getCount_setCount]
      by_cases hk : k = .var i
      · subst hk; simp only [Model.cnt] at h0; simp [h0]
      · simp [hk]
  | some a =>
    refine ⟨?_, ?_, rfl, rfl⟩
    · intro k
      simp only [Model.cnt, getCount_setCount]
      by_cases hk : k = .var i
      · subst hk; simp [Model.live, hl]
      · simp only [hk, if_false]
        have hbk := hb k
        cases k <;> simpa [Model.live, Model.cnt] using hbk
    · intro k
      simp only [Model.cnt, getCount_setCount]
      by_cases hk : k = .var i
      · subst hk; simp
      · simp [hk]

theorem incParam_spec (m : Model α) (i addr : Nat) (hb : Bal m) :
    Bal (m.incParam O i addr).1 ∧
    (∀ k, (m.incParam O i addr).1.cnt k = m.cnt k + if k = .param i then 1 else 0) ∧
    (m.incParam O i addr).1.referenced = m.referenced ∧ (m.incParam O i addr).1.conMap = m.conMap := by
  unfold Model.incParam
  cases hl : m.paramMap.lookup i with
  | none =>
    have h0 : m.cnt (.param i) = 0 := by
      have := (hb (.param i)).not
      simp only [Model.live, hl, Option.isSome_none, Bool.false_eq_true, not_false_eq_true, true_iff] at this
      omega
    refine ⟨?_, ?_, rfl, rfl⟩
    · intro k
      simp only [Model.cnt, getCount_setCount]
      by_cases hk : k = .param i
      · subst hk; simp [Model.live, List.lookup_cons]
      · have hbk := hb k
        simp only [hk, if_false]
        cases k with
        | param j =>
          have : j ≠ i := fun e => hk (by rw [e])
          have hb' : (j == i) = false := by simpa using this
          simpa [Model.live, Model.cnt, List.lookup_cons, hb'] using hbk
        | var j => simpa [Model.live, Model.cnt] using hbk
        | flt f => simpa [Model.live, Model.cnt] using hbk
    · intro k
      simp only [Model.cnt, getCount_setCount]
      by_cases hk : k = .param i
      · subst hk; simp only [Model.cnt] at h0; simp [h0]
      · simp [hk]
  | some a =>
    refine ⟨?_, ?_, rfl, rfl⟩
    · intro k
      simp only [Model.cnt, getCount_setCount]
      by_cases hk : k = .param i
      · subst hk; simp [Model.live, hl]
      · simp only [hk, if_false]
        have hbk := hb k
        cases k <;> simpa [Model.live, Model.cnt] using hbk
    · intro k
      simp only [Model.cnt, getCount_setCount]
      by_cases hk : k = .param i
      · subst hk; simp
      · simp [hk]

theorem incFloat_spec (m : Model α) (f : Nat) (hb : Bal m) :
    (m.incFloat f).2 = .ok ∧ Bal (m.incFloat f).1 ∧
    (∀ k, (m.incFloat f).1.cnt k = m.cnt k + if k = .flt f then 1 else 0) ∧
    (m.incFloat f).1.referenced = m.referenced ∧ (m.incFloat f).1.conMap = m.conMap := by
  unfold Model.incFloat
  by_cases hl : m.floatMap.contains f = true
  · rw [if_pos hl]
    have hl' : f ∈ m.floatMap := by simpa using hl
    refine ⟨rfl, ?_, ?_, rfl, rfl⟩
    · intro k
      simp only [Model.cnt, getCount_setCount]
      by_cases hk : k = .flt f
      · subst hk; simp [Model.live, hl']
      · simp only [hk, if_false]
        have hbk := hb k
        cases k <;> simpa [Model.live, Model.cnt] using hbk
    · intro k
      simp only [Model.cnt, getCount_setCount]
      by_cases hk : k = .flt f
      · subst hk; simp
      · simp [hk]
  · rw [if_neg hl]
    have h0 : m.cnt (.flt f) = 0 := by
      by_contra hne
      exact hl ((hb (.flt f)).mpr (Nat.pos_of_ne_zero hne))
    refine ⟨rfl, ?_, ?_, rfl, rfl⟩
    · intro k
      simp only [Model.cnt, getCount_setCount]
      by_cases hk : k = .flt f
      · subst hk; simp [Model.live]
      · have hbk := hb k
        simp only [hk, if_false]
        cases k with
        | flt j =>
          have : j ≠ f := fun e => hk (by rw [e])
          simpa [Model.live, Model.cnt, List.contains_cons, this] using hbk
        | var j => simpa [Model.live, Model.cnt] using hbk
        | param j => simpa [Model.live, Model.cnt] using hbk
    · intro k
      simp only [Model.cnt, getCount_setCount]
      by_cases hk : k = .flt f
      · subst hk; simp only [Model.cnt] at h0; simp [h0]
      · simp [hk]

end Inc

end Wntr.Aml
