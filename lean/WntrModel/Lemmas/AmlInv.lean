/-
Lemmas for C15, bookkeeping layer: reference counts of `aml.Model`.

`Model.cnt m k`   = `_refcounts[k]` (0 when absent);  `Model.live m k` = "k has a C object" (`_var_cvar_map`,
`_param_cparam_map`, `_float_cfloat_map`);  `refsOf r k` = how often the registered constraints mention `k`
(Σ over `_vars/_params/_floats_referenced_by_con`).  `Inv` ties them together and is preserved by every operation.
-/
import WntrModel.Model.AmlModel
import Mathlib.Data.List.Basic
import Mathlib.Data.List.Nodup
import Mathlib.Tactic.Ring

namespace Wntr.Aml

/-! ### association-list facts -/

theorem lookup_filter_ne {κ β : Type} [DecidableEq κ] (l : List (κ × β)) (k k' : κ) :
    (l.filter (fun p => p.1 != k)).lookup k' = if k' = k then none else l.lookup k' := by
  induction l with
  | nil => simp
  | cons p r ih =>
    obtain ⟨a, b⟩ := p
    by_cases ha : a = k
    · subst ha
      simp only [List.filter_cons, bne_self_eq_false, Bool.false_eq_true, if_false, ih, List.lookup_cons]
      by_cases hk : k' = a
      · simp [hk]
      · have : (k' == a) = false := by simpa using hk
        simp [hk, this]
    · have : (a != k) = true := by simpa using ha
      simp only [List.filter_cons, this, if_true, List.lookup_cons, ih]
      by_cases hk : k' = k
      · subst hk
        have : (k' == a) = false := by simpa using fun e : k' = a => ha e.symm
        simp [this]
      · simp [hk]

theorem getCount_setCount (rc : List (LeafKey × Nat)) (k k' : LeafKey) (n : Nat) :
    getCount (setCount rc k n) k' = if k' = k then n else getCount rc k' := by
  unfold getCount setCount
  by_cases h : k' = k
  · subst h; simp [List.lookup_cons]
  · have : (k' == k) = false := by simpa using h
    simp only [List.lookup_cons, this, lookup_filter_ne, h, if_false]

theorem getCount_delCount (rc : List (LeafKey × Nat)) (k k' : LeafKey) :
    getCount (delCount rc k) k' = if k' = k then 0 else getCount rc k' := by
  unfold getCount delCount
  rw [lookup_filter_ne]
  by_cases h : k' = k <;> simp [h]

/-! ### views of the model -/

def Model.cnt (m : Model α) (k : LeafKey) : Nat := getCount m.refcounts k

/-- the leaf has a C object -/
def Model.live (m : Model α) : LeafKey → Bool
  | .var i => (m.varMap.lookup i).isSome
  | .param i => (m.paramMap.lookup i).isSome
  | .flt f => m.floatMap.contains f

/-- C object ⇔ positive reference count -/
def Bal (m : Model α) : Prop := ∀ k, m.live k = true ↔ 0 < m.cnt k

abbrev RefEntry := List Nat × List Nat × List Nat

/-- the leaves a constraint references, as keys -/
def refKeys (e : RefEntry) : List LeafKey := e.1.map .var ++ e.2.1.map .param ++ e.2.2.map .flt

/-- how often one constraint's reference lists mention a leaf (0 or 1 for the `OrderedSet`s of the code) -/
def mc (e : RefEntry) (k : LeafKey) : Nat := (refKeys e).count k

def refsOf (r : List (Nat × RefEntry)) (k : LeafKey) : Nat := (r.map fun p => mc p.2 k).sum

/-- what differs between two models as far as the bookkeeping views are concerned -/
structure SameBook (m m' : Model α) : Prop where
  referenced : m'.referenced = m.referenced
  conMap : m'.conMap = m.conMap

/-! ### increments -/

section Inc
variable {α : Type} (O : Ops α)

theorem incVar_spec (m : Model α) (i addr : Nat) (hb : Bal m) :
    Bal (m.incVar O i addr).1 ∧
    (∀ k, (m.incVar O i addr).1.cnt k = m.cnt k + if k = .var i then 1 else 0) ∧
    (m.incVar O i addr).1.referenced = m.referenced ∧ (m.incVar O i addr).1.conMap = m.conMap := by
  unfold Model.incVar
  cases hl : m.varMap.lookup i with
  | none =>
    have h0 : m.cnt (.var i) = 0 := by
      have := (hb (.var i)).not
      simp only [Model.live, hl, Option.isSome_none, Bool.false_eq_true, not_false_eq_true, true_iff] at this
      omega
    refine ⟨?_, ?_, rfl, rfl⟩
    · intro k
      simp only [Model.cnt, getCount_setCount]
      by_cases hk : k = .var i
      · subst hk; simp [Model.live, List.lookup_cons]
      · have hbk := hb k
        simp only [hk, if_false]
        cases k with
        | var j =>
          have : j ≠ i := fun e => hk (by rw [e])
          have hb' : (j == i) = false := by simpa using this
          simpa [Model.live, Model.cnt, List.lookup_cons, hb'] using hbk
        | param j => simpa [Model.live, Model.cnt] using hbk
        | flt f => simpa [Model.live, Model.cnt] using hbk
    · intro k
      simp only [Model.cnt, getCount_setCount]
      by_cases hk : k = .var i
      · subst hk; simp only [Model.cnt] at h0; simp [h0]
      · simp [hk]
  | some a =>
    refine ⟨?_, ?_, rfl, rfl⟩
    · intro k
      simp only [Model.cnt, getCount_setCount]
      by_cases hk : k = .var i
      · subst hk; simp [Model.live, hl]
      · simp only [hk, if_false]
        have hbk := hb k
        cases k <;> simpa [Model.live, Model.cnt] using hbk
    · intro k
      simp only [Model.cnt, getCount_setCount]
      by_cases hk : k = .var i
      · subst hk; simp
      · simp [hk]

theorem incParam_spec (m : Model α) (i addr : Nat) (hb : Bal m) :
    Bal (m.incParam O i addr).1 ∧
    (∀ k, (m.incParam O i addr).1.cnt k = m.cnt k + if k = .param i then 1 else 0) ∧
    (m.incParam O i addr).1.referenced = m.referenced ∧ (m.incParam O i addr).1.conMap = m.conMap := by
  unfold Model.incParam
  cases hl : m.paramMap.lookup i with
  | none =>
    have h0 : m.cnt (.param i) = 0 := by
      have := (hb (.param i)).not
      simp only [Model.live, hl, Option.isSome_none, Bool.false_eq_true, not_false_eq_true, true_iff] at this
      omega
    refine ⟨?_, ?_, rfl, rfl⟩
    · intro k
      simp only [Model.cnt, getCount_setCount]
      by_cases hk : k = .param i
      · subst hk; simp [Model.live, List.lookup_cons]
      · have hbk := hb k
        simp only [hk, if_false]
        cases k with
        | param j =>
          have : j ≠ i := fun e => hk (by rw [e])
          have hb' : (j == i) = false := by simpa using this
          simpa [Model.live, Model.cnt, List.lookup_cons, hb'] using hbk
        | var j => simpa [Model.live, Model.cnt] using hbk
        | flt f => simpa [Model.live, Model.cnt] using hbk
    · intro k
      simp only [Model.cnt, getCount_setCount]
      by_cases hk : k = .param i
      · subst hk; simp only [Model.cnt] at h0; simp [h0]
      · simp [hk]
  | some a =>
    refine ⟨?_, ?_, rfl, rfl⟩
    · intro k
      simp only [Model.cnt, getCount_setCount]
      by_cases hk : k = .param i
      · subst hk; simp [Model.live, hl]
      · simp only [hk, if_false]
        have hbk := hb k
        cases k <;> simpa [Model.live, Model.cnt] using hbk
    · intro k
      simp only [Model.cnt, getCount_setCount]
      by_cases hk : k = .param i
      · subst hk; simp
      · simp [hk]

theorem incFloat_spec (m : Model α) (f : Nat) (hb : Bal m) :
    (m.incFloat f).2 = .ok ∧ Bal (m.incFloat f).1 ∧
    (∀ k, (m.incFloat f).1.cnt k = m.cnt k + if k = .flt f then 1 else 0) ∧
    (m.incFloat f).1.referenced = m.referenced ∧ (m.incFloat f).1.conMap = m.conMap := by
  unfold Model.incFloat
  by_cases hl : m.floatMap.contains f = true
  · rw [if_pos hl]
    have hl' : f ∈ m.floatMap := by simpa using hl
    refine ⟨rfl, ?_, ?_, rfl, rfl⟩
    · intro k
      simp only [Model.cnt, getCount_setCount]
      by_cases hk : k = .flt f
      · subst hk; simp [Model.live, hl']
      · simp only [hk, if_false]
        have hbk := hb k
        cases k <;> simpa [Model.live, Model.cnt] using hbk
    · intro k
      simp only [Model.cnt, getCount_setCount]
      by_cases hk : k = .flt f
      · subst hk; simp
      · simp [hk]
  · rw [if_neg hl]
    have h0 : m.cnt (.flt f) = 0 := by
      by_contra hne
      exact hl ((hb (.flt f)).mpr (Nat.pos_of_ne_zero hne))
    refine ⟨rfl, ?_, ?_, rfl, rfl⟩
    · intro k
      simp only [Model.cnt, getCount_setCount]
      by_cases hk : k = .flt f
      · subst hk; simp [Model.live]
      · have hbk := hb k
        simp only [hk, if_false]
        cases k with
        | flt j =>
          have : j ≠ f := fun e => hk (by rw [e])
          simpa [Model.live, Model.cnt, List.contains_cons, this] using hbk
        | var j => simpa [Model.live, Model.cnt] using hbk
        | param j => simpa [Model.live, Model.cnt] using hbk
    · intro k
      simp only [Model.cnt, getCount_setCount]
      by_cases hk : k = .flt f
      · subst hk; simp only [Model.cnt] at h0; simp [h0]
      · simp [hk]

end Inc


/-! ### decrements -/

section Dec
variable {α : Type} (O : Ops α)

theorem decVar_spec (m : Model α) (i : Nat) (hb : Bal m) (h1 : 1 ≤ m.cnt (.var i)) :
    Bal (m.decVar O i) ∧ (∀ k, (m.decVar O i).cnt k = m.cnt k - if k = .var i then 1 else 0) ∧
    (m.decVar O i).referenced = m.referenced ∧ (m.decVar O i).conMap = m.conMap := by
  have hlive : (m.varMap.lookup i).isSome = true := (hb (.var i)).mpr h1
  obtain ⟨a, hl⟩ := Option.isSome_iff_exists.mp hlive
  simp only [Model.decVar, hl]
  by_cases hn : getCount m.refcounts (.var i) - 1 = 0
  · rw [if_pos hn]
    have hc1 : m.cnt (.var i) = 1 := by simp only [Model.cnt] at h1 ⊢; omega
    refine ⟨?_, ?_, rfl, rfl⟩
    · intro k
      simp only [Model.cnt, getCount_delCount]
      by_cases hk : k = .var i
      · subst hk; simp [Model.live, lookup_filter_ne]
      · simp only [hk, if_false]
        have hbk := hb k
        cases k with
        | var j =>
          have : j ≠ i := fun e => hk (by rw [e])
          simpa [Model.live, Model.cnt, lookup_filter_ne, this] using hbk
        | param j => simpa [Model.live, Model.cnt] using hbk
        | flt f => simpa [Model.live, Model.cnt] using hbk
    · intro k
      simp only [Model.cnt, getCount_delCount]
      by_cases hk : k = .var i
      · subst hk; simp only [Model.cnt] at hc1; simp [hc1]
      · simp [hk]
  · rw [if_neg hn]
    refine ⟨?_, ?_, rfl, rfl⟩
    · intro k
      simp only [Model.cnt, getCount_setCount]
      by_cases hk : k = .var i
      · subst hk
        simp only [Model.live, hl, Option.isSome_some, if_true, true_iff]
        omega
      · simp only [hk, if_false]
        have hbk := hb k
        cases k <;> simpa [Model.live, Model.cnt] using hbk
    · intro k
      simp only [Model.cnt, getCount_setCount]
      by_cases hk : k = .var i
      · subst hk; simp
      · simp [hk]

theorem decParam_spec (m : Model α) (i : Nat) (hb : Bal m) (h1 : 1 ≤ m.cnt (.param i)) :
    Bal (m.decParam O i) ∧ (∀ k, (m.decParam O i).cnt k = m.cnt k - if k = .param i then 1 else 0) ∧
    (m.decParam O i).referenced = m.referenced ∧ (m.decParam O i).conMap = m.conMap := by
  have hlive : (m.paramMap.lookup i).isSome = true := (hb (.param i)).mpr h1
  obtain ⟨a, hl⟩ := Option.isSome_iff_exists.mp hlive
  simp only [Model.decParam, hl]
  by_cases hn : getCount m.refcounts (.param i) - 1 = 0
  · rw [if_pos hn]
    have hc1 : m.cnt (.param i) = 1 := by simp only [Model.cnt] at h1 ⊢; omega
    refine ⟨?_, ?_, rfl, rfl⟩
    · intro k
      simp only [Model.cnt, getCount_delCount]
      by_cases hk : k = .param i
      · subst hk; simp [Model.live, lookup_filter_ne]
      · simp only [hk, if_false]
        have hbk := hb k
        cases k with
        | param j =>
          have : j ≠ i := fun e => hk (by rw [e])
          simpa [Model.live, Model.cnt, lookup_filter_ne, this] using hbk
        | var j => simpa [Model.live, Model.cnt] using hbk
        | flt f => simpa [Model.live, Model.cnt] using hbk
    · intro k
      simp only [Model.cnt, getCount_delCount]
      by_cases hk : k = .param i
      · subst hk; simp only [Model.cnt] at hc1; simp [hc1]
      · simp [hk]
  · rw [if_neg hn]
    refine ⟨?_, ?_, rfl, rfl⟩
    · intro k
      simp only [Model.cnt, getCount_setCount]
      by_cases hk : k = .param i
      · subst hk
        simp only [Model.live, hl, Option.isSome_some, if_true, true_iff]
        omega
      · simp only [hk, if_false]
        have hbk := hb k
        cases k <;> simpa [Model.live, Model.cnt] using hbk
    · intro k
      simp only [Model.cnt, getCount_setCount]
      by_cases hk : k = .param i
      · subst hk; simp
      · simp [hk]

theorem decFloat_spec (m : Model α) (f : Nat) (hb : Bal m) (h1 : 1 ≤ m.cnt (.flt f)) :
    Bal (m.decFloat f) ∧ (∀ k, (m.decFloat f).cnt k = m.cnt k - if k = .flt f then 1 else 0) ∧
    (m.decFloat f).referenced = m.referenced ∧ (m.decFloat f).conMap = m.conMap := by
  have hlive : m.floatMap.contains f = true := (hb (.flt f)).mpr h1
  have hlive' : f ∈ m.floatMap := by simpa using hlive
  simp only [Model.decFloat]
  by_cases hn : getCount m.refcounts (.flt f) - 1 = 0
  · rw [if_pos hn]
    have hc1 : m.cnt (.flt f) = 1 := by simp only [Model.cnt] at h1 ⊢; omega
    refine ⟨?_, ?_, rfl, rfl⟩
    · intro k
      simp only [Model.cnt, getCount_delCount]
      by_cases hk : k = .flt f
      · subst hk; simp [Model.live]
      · simp only [hk, if_false]
        have hbk := hb k
        cases k with
        | flt j =>
          have : j ≠ f := fun e => hk (by rw [e])
          simpa [Model.live, Model.cnt, this] using hbk
        | var j => simpa [Model.live, Model.cnt] using hbk
        | param j => simpa [Model.live, Model.cnt] using hbk
    · intro k
      simp only [Model.cnt, getCount_delCount]
      by_cases hk : k = .flt f
      · subst hk; simp only [Model.cnt] at hc1; simp [hc1]
      · simp [hk]
  · rw [if_neg hn]
    refine ⟨?_, ?_, rfl, rfl⟩
    · intro k
      simp only [Model.cnt, getCount_setCount]
      by_cases hk : k = .flt f
      · subst hk
        simp only [Model.live, hlive, if_true, true_iff]
        omega
      · simp only [hk, if_false]
        have hbk := hb k
        cases k <;> simpa [Model.live, Model.cnt] using hbk
    · intro k
      simp only [Model.cnt, getCount_setCount]
      by_cases hk : k = .flt f
      · subst hk; simp
      · simp [hk]

/-- a run of decrements over a list of leaves of one kind (`K` = `.var`, `.param` or `.flt`) -/
theorem foldl_dec (K : Nat → LeafKey) (g : Model α → Nat → Model α)
    (hg : ∀ m i, Bal m → 1 ≤ m.cnt (K i) →
      Bal (g m i) ∧ (∀ k, (g m i).cnt k = m.cnt k - if k = K i then 1 else 0) ∧
      (g m i).referenced = m.referenced ∧ (g m i).conMap = m.conMap)
    (vs : List Nat) (m : Model α) (hb : Bal m) (hc : ∀ k, (vs.map K).count k ≤ m.cnt k) :
    Bal (vs.foldl g m) ∧ (∀ k, (vs.foldl g m).cnt k = m.cnt k - (vs.map K).count k) ∧
    (vs.foldl g m).referenced = m.referenced ∧ (vs.foldl g m).conMap = m.conMap := by
  induction vs generalizing m with
  | nil => exact ⟨hb, by simp, rfl, rfl⟩
  | cons x rest ih =>
    have h1 : 1 ≤ m.cnt (K x) := by
      have := hc (K x); simp only [List.map_cons, List.count_cons_self] at this; omega
    obtain ⟨hb1, hc1, hr1, hm1⟩ := hg m x hb h1
    have hc' : ∀ k, (rest.map K).count k ≤ (g m x).cnt k := by
      intro k
      have := hc k
      rw [hc1 k]
      simp only [List.map_cons, List.count_cons] at this
      by_cases hk : k = K x
      · subst hk; simp at this ⊢; omega
      · have : (K x == k) = false := by simpa using fun e : K x = k => hk e.symm
        simp_all
    obtain ⟨hb2, hc2, hr2, hm2⟩ := ih (g m x) hb1 hc'
    refine ⟨hb2, ?_, hr2.trans hr1, hm2.trans hm1⟩
    intro k
    rw [List.foldl_cons, hc2 k, hc1 k]
    simp only [List.map_cons, List.count_cons]
    by_cases hk : k = K x
    · subst hk; simp; omega
    · have : (K x == k) = false := by simpa using fun e : K x = k => hk e.symm
      simp [hk, this]

end Dec


/-! ### the increment loops of `_register_constraint` -/

section IncLoops
variable {α : Type} (O : Ops α)

theorem incVars_spec (vs addrs : List Nat) (m : Model α) (hb : Bal m) :
    Bal (incVars O m vs addrs) ∧ (∀ k, (incVars O m vs addrs).cnt k = m.cnt k + (vs.map LeafKey.var).count k) ∧
    (incVars O m vs addrs).referenced = m.referenced ∧ (incVars O m vs addrs).conMap = m.conMap := by
  induction vs generalizing m addrs with
  | nil => cases addrs <;> exact ⟨hb, by simp [incVars], rfl, rfl⟩
  | cons x rest ih =>
    have step : ∀ a, Bal (incVars O (m.incVar O x a).1 rest addrs.tail) ∧
        (∀ k, (incVars O (m.incVar O x a).1 rest addrs.tail).cnt k = m.cnt k + ((x :: rest).map LeafKey.var).count k) ∧
        (incVars O (m.incVar O x a).1 rest addrs.tail).referenced = m.referenced ∧
        (incVars O (m.incVar O x a).1 rest addrs.tail).conMap = m.conMap := by
      intro a
      obtain ⟨hb1, hc1, hr1, hm1⟩ := incVar_spec O m x a hb
      obtain ⟨hb2, hc2, hr2, hm2⟩ := ih addrs.tail _ hb1
      refine ⟨hb2, ?_, hr2.trans hr1, hm2.trans hm1⟩
      intro k
      rw [hc2 k, hc1 k]
      simp only [List.map_cons, List.count_cons]
      by_cases hk : k = .var x
      · subst hk; simp; omega
      · have : (LeafKey.var x == k) = false := by simpa using fun e : LeafKey.var x = k => hk e.symm
        simp [hk, this]
    cases addrs with
    | nil => simpa [incVars] using step 0
    | cons a as => simpa [incVars] using step a

theorem incParams_spec (vs addrs : List Nat) (m : Model α) (hb : Bal m) :
    Bal (incParams O m vs addrs) ∧
    (∀ k, (incParams O m vs addrs).cnt k = m.cnt k + (vs.map LeafKey.param).count k) ∧
    (incParams O m vs addrs).referenced = m.referenced ∧ (incParams O m vs addrs).conMap = m.conMap := by
  induction vs generalizing m addrs with
  | nil => cases addrs <;> exact ⟨hb, by simp [incParams], rfl, rfl⟩
  | cons x rest ih =>
    have step : ∀ a, Bal (incParams O (m.incParam O x a).1 rest addrs.tail) ∧
        (∀ k, (incParams O (m.incParam O x a).1 rest addrs.tail).cnt k =
          m.cnt k + ((x :: rest).map LeafKey.param).count k) ∧
        (incParams O (m.incParam O x a).1 rest addrs.tail).referenced = m.referenced ∧
        (incParams O (m.incParam O x a).1 rest addrs.tail).conMap = m.conMap := by
      intro a
      obtain ⟨hb1, hc1, hr1, hm1⟩ := incParam_spec O m x a hb
      obtain ⟨hb2, hc2, hr2, hm2⟩ := ih addrs.tail _ hb1
      refine ⟨hb2, ?_, hr2.trans hr1, hm2.trans hm1⟩
      intro k
      rw [hc2 k, hc1 k]
      simp only [List.map_cons, List.count_cons]
      by_cases hk : k = .param x
      · subst hk; simp; omega
      · have : (LeafKey.param x == k) = false := by simpa using fun e : LeafKey.param x = k => hk e.symm
        simp [hk, this]
    cases addrs with
    | nil => simpa [incParams] using step 0
    | cons a as => simpa [incParams] using step a

theorem incFloats_spec (fs : List Nat) (m : Model α) (hb : Bal m) :
    (incFloats Model.incFloat m fs).2 = .ok ∧ Bal (incFloats Model.incFloat m fs).1 ∧
    (∀ k, (incFloats Model.incFloat m fs).1.cnt k = m.cnt k + (fs.map LeafKey.flt).count k) ∧
    (incFloats Model.incFloat m fs).1.referenced = m.referenced ∧
    (incFloats Model.incFloat m fs).1.conMap = m.conMap := by
  induction fs generalizing m with
  | nil => exact ⟨rfl, hb, by simp [incFloats], rfl, rfl⟩
  | cons x rest ih =>
    obtain ⟨ho, hb1, hc1, hr1, hm1⟩ := incFloat_spec m x hb
    obtain ⟨ho2, hb2, hc2, hr2, hm2⟩ := ih _ hb1
    have hstep : incFloats Model.incFloat m (x :: rest) = incFloats Model.incFloat (m.incFloat x).1 rest := by
      have : m.incFloat x = ((m.incFloat x).1, Out.ok) := Prod.ext rfl ho
      rw [incFloats, this]
    rw [hstep]
    refine ⟨ho2, hb2, ?_, hr2.trans hr1, hm2.trans hm1⟩
    intro k
    rw [hc2 k, hc1 k]
    simp only [List.map_cons, List.count_cons]
    by_cases hk : k = .flt x
    · subst hk; simp; omega
    · have : (LeafKey.flt x == k) = false := by simpa using fun e : LeafKey.flt x = k => hk e.symm
      simp [hk, this]

end IncLoops

/-! ### the invariant -/

theorem refsOf_cons (id : Nat) (e : RefEntry) (r : List (Nat × RefEntry)) (k : LeafKey) :
    refsOf ((id, e) :: r) k = mc e k + refsOf r k := by
  simp [refsOf]

theorem filter_ne_of_not_mem (r : List (Nat × RefEntry)) (id : Nat) (h : id ∉ r.map (·.1)) :
    r.filter (fun p => p.1 != id) = r := by
  induction r with
  | nil => rfl
  | cons p r ih =>
    simp only [List.map_cons, List.mem_cons, not_or] at h
    have : (p.1 != id) = true := by simpa using fun e : p.1 = id => h.1 e.symm
    simp [List.filter_cons, this, ih h.2]

theorem refsOf_filter (r : List (Nat × RefEntry)) (id : Nat) (e : RefEntry) (hnd : (r.map (·.1)).Nodup)
    (hl : r.lookup id = some e) (k : LeafKey) :
    refsOf (r.filter (fun p => p.1 != id)) k + mc e k = refsOf r k := by
  induction r with
  | nil => simp at hl
  | cons p r ih =>
    obtain ⟨a, e'⟩ := p
    simp only [List.map_cons, List.nodup_cons] at hnd
    by_cases ha : a = id
    · subst ha
      simp only [List.lookup_cons, beq_self_eq_true, Option.some.injEq] at hl
      subst hl
      simp only [List.filter_cons, bne_self_eq_false, Bool.false_eq_true, if_false]
      rw [filter_ne_of_not_mem r a hnd.1, refsOf_cons]
      omega
    · have hb : (id == a) = false := by simpa using fun e : id = a => ha e.symm
      have hb' : (a != id) = true := by simpa using ha
      simp only [List.lookup_cons, hb] at hl
      simp only [List.filter_cons, hb', if_true, refsOf_cons]
      have := ih hnd.2 hl
      omega

/-- reference counts = number of mentions by registered constraints; C object ⇔ positive count; constraint identities
are distinct -/
structure Inv (m : Model α) : Prop where
  bal : Bal m
  counts : ∀ k, m.cnt k = refsOf m.referenced k
  ids : (m.referenced.map (·.1)).Nodup

theorem Inv.empty : Inv ({} : Model α) where
  bal := by intro k; cases k <;> simp [Model.live, Model.cnt, getCount]
  counts := by intro k; simp [Model.cnt, getCount, refsOf]
  ids := by simp

section Ops
variable {α : Type} (O : Ops α)

theorem register_spec (m : Model α) (c : ConSpec) (conAddr : Nat) (varAddrs paramAddrs : List Nat) (hb : Bal m) :
    (m.register O Model.incFloat c conAddr varAddrs paramAddrs).2 = .ok ∧
    Bal (m.register O Model.incFloat c conAddr varAddrs paramAddrs).1 ∧
    (∀ k, (m.register O Model.incFloat c conAddr varAddrs paramAddrs).1.cnt k =
      m.cnt k + mc (c.vars, c.params, c.floats) k) ∧
    (m.register O Model.incFloat c conAddr varAddrs paramAddrs).1.referenced =
      (c.id, (c.vars, c.params, c.floats)) :: m.referenced := by
  let m0 : Model α := { m with conMap := (c.id, (conAddr, c.conditional)) :: m.conMap }
  have hb0 : Bal m0 := hb
  obtain ⟨hb1, hc1, hr1, _⟩ := incVars_spec O c.vars varAddrs m0 hb0
  obtain ⟨hb2, hc2, hr2, _⟩ := incParams_spec O c.params paramAddrs _ hb1
  obtain ⟨ho3, hb3, hc3, hr3, _⟩ := incFloats_spec c.floats _ hb2
  have hpair : incFloats Model.incFloat (incParams O (incVars O m0 c.vars varAddrs) c.params paramAddrs) c.floats =
      ((incFloats Model.incFloat (incParams O (incVars O m0 c.vars varAddrs) c.params paramAddrs) c.floats).1,
        Out.ok) := Prod.ext rfl ho3
  have hcnt : ∀ k, (incFloats Model.incFloat (incParams O (incVars O m0 c.vars varAddrs) c.params paramAddrs)
      c.floats).1.cnt k = m.cnt k + mc (c.vars, c.params, c.floats) k := by
    intro k
    rw [hc3 k, hc2 k, hc1 k]
    simp only [mc, refKeys, List.count_append]
    show m.cnt k + _ + _ + _ = _
    omega
  simp only [Model.register]
  rw [hpair]
  refine ⟨rfl, hb3, hcnt, ?_⟩
  show (c.id, (c.vars, c.params, c.floats)) :: _ = _
  rw [hr3, hr2, hr1]

theorem remove_inv (m : Model α) (id : Nat) (hi : Inv m) : Inv (m.remove O id).1 := by
  unfold Model.remove
  cases hl : m.conMap.lookup id with
  | none => exact hi
  | some p =>
    obtain ⟨addr, isIf⟩ := p
    simp only
    cases hr : m.referenced.lookup id with
    | none => exact ⟨hi.bal, hi.counts, hi.ids⟩
    | some e =>
      obtain ⟨vs, ps, fs⟩ := e
      simp only
      -- the model after the evaluator / conMap update has the same bookkeeping views
      let m0 : Model α := { m with ev := if isIf then m.ev.removeIfCon addr else m.ev.removeCon addr,
                                   conMap := m.conMap.filter (fun p => p.1 != id) }
      have hb0 : Bal m0 := hi.bal
      have hle : ∀ k, mc (vs, ps, fs) k ≤ m.cnt k := by
        intro k
        have := refsOf_filter m.referenced id (vs, ps, fs) hi.ids hr k
        rw [hi.counts k]; omega
      have hmc : ∀ k, mc (vs, ps, fs) k = (vs.map LeafKey.var).count k + (ps.map LeafKey.param).count k +
          (fs.map LeafKey.flt).count k := by
        intro k; simp only [mc, refKeys, List.count_append]
      let m1 : Model α := vs.foldl (fun m v => m.decVar O v) m0
      let m2 : Model α := ps.foldl (fun m v => m.decParam O v) m1
      let m3 : Model α := fs.foldl (fun m v => m.decFloat v) m2
      have hcnt0 : ∀ k, m0.cnt k = m.cnt k := fun _ => rfl
      obtain ⟨hb1, hc1, hr1, _⟩ := foldl_dec LeafKey.var (fun m v => m.decVar O v)
        (fun m i => decVar_spec O m i) vs m0 hb0 (fun k => by
          have := hle k; rw [hmc k] at this; rw [hcnt0 k]; omega)
      obtain ⟨hb2, hc2, hr2, _⟩ := foldl_dec LeafKey.param (fun m v => m.decParam O v)
        (fun m i => decParam_spec O m i) ps m1 hb1 (fun k => by
          have := hle k; rw [hmc k] at this; rw [hc1 k, hcnt0 k]; omega)
      obtain ⟨hb3, hc3, hr3, _⟩ := foldl_dec LeafKey.flt (fun m v => m.decFloat v)
        (fun m i => decFloat_spec m i) fs m2 hb2 (fun k => by
          have := hle k; rw [hmc k] at this; rw [hc2 k, hc1 k, hcnt0 k]; omega)
      have hrefd : m3.referenced = m.referenced := by rw [hr3, hr2, hr1]
      refine ⟨hb3, ?_, ?_⟩
      · intro k
        change m3.cnt k = refsOf (m3.referenced.filter (fun p => p.1 != id)) k
        rw [hc3 k, hc2 k, hc1 k, hcnt0 k, hrefd]
        have h1 := refsOf_filter m.referenced id (vs, ps, fs) hi.ids hr k
        have h2 := hi.counts k
        have h3 := hmc k
        omega
      · change ((m3.referenced.filter (fun p => p.1 != id)).map (·.1)).Nodup
        rw [hrefd]
        exact hi.ids.sublist ((List.filter_sublist).map _)

end Ops

end Wntr.Aml
