/-
Lemmas for C15, bookkeeping layer: `set_structure` numbering and value preservation across registration / removal.
-/
import WntrModel.Model.AmlModel
import WntrModel.Lemmas.AmlInv
import Mathlib.Data.List.Basic
import Mathlib.Data.List.Range

namespace Wntr.Aml

/-! ### numbering -/

theorem numberVars_index (vs : List (CLeaf α)) (k : Nat) :
    (numberVars vs k).map (·.index) = List.range' k vs.length := by
  induction vs generalizing k with
  | nil => rfl
  | cons v r ih => simp [numberVars, ih, List.range'_succ]

theorem numberVars_addr (vs : List (CLeaf α)) (k : Nat) : (numberVars vs k).map (·.addr) = vs.map (·.addr) := by
  induction vs generalizing k with
  | nil => rfl
  | cons v r ih => simp [numberVars, ih]

theorem numberVars_value (vs : List (CLeaf α)) (k : Nat) : (numberVars vs k).map (·.value) = vs.map (·.value) := by
  induction vs generalizing k with
  | nil => rfl
  | cons v r ih => simp [numberVars, ih]

theorem structCons_index (vars : List (CLeaf α)) (cs : List CCon) (ndx : Nat) (s : Structure) :
    (structCons vars cs ndx s).1.map (·.index) = List.range' ndx cs.length ∧
    (structCons vars cs ndx s).1.map (·.addr) = cs.map (·.addr) ∧
    (structCons vars cs ndx s).2.1 = ndx + cs.length := by
  induction cs generalizing ndx s with
  | nil => simp [structCons]
  | cons c r ih =>
    obtain ⟨h1, h2, h3⟩ := ih (ndx + 1) { s with
      leaves := s.leaves ++ [c.leaves]
      fnRpn := s.fnRpn ++ [c.fnRpn]
      rowNnz := s.rowNnz ++ [s.rowNnz.getD ndx 0 + c.jacRpn.length]
      colNdx := s.colNdx ++ c.jacRpn.map (fun p => varIndex vars p.1)
      jacRpn := s.jacRpn ++ c.jacRpn.map (·.2) }
    simp only [structCons]
    refine ⟨?_, ?_, ?_⟩
    · simp only [List.map_cons, h1, List.length_cons, List.range'_succ]
    · simp only [List.map_cons, h2]
    · simp only [h3, List.length_cons]; omega

theorem structIfCons_index (vars : List (CLeaf α)) (cs cs' : List CIfCon) (ndx : Nat) (s s' : Structure)
    (h : structIfCons vars cs ndx s = some (cs', s')) :
    cs'.map (·.index) = List.range' ndx cs.length ∧ cs'.map (·.addr) = cs.map (·.addr) := by
  induction cs generalizing ndx s cs' s' with
  | nil => simp only [structIfCons, Option.some.injEq, Prod.mk.injEq] at h; obtain ⟨rfl, _⟩ := h; simp
  | cons c r ih =>
    simp only [structIfCons] at h
    split at h
    · cases h
    · rename_i s2 _
      split at h
      · cases h
      · rename_i r' s3 hrec
        simp only [Option.some.injEq, Prod.mk.injEq] at h
        obtain ⟨rfl, _⟩ := h
        obtain ⟨h1, h2⟩ := ih _ _ _ _ hrec
        exact ⟨by simp [h1, List.range'_succ], by simp [h2]⟩

/-- **`set_structure` numbers variables 0..n−1 and constraints 0..m−1 (plain constraints first, then the conditional
ones), each in address order; nothing is added, dropped or reordered.** -/
theorem setStructure_indices (e e' : Evaluator α) (h : e.setStructure = some e') :
    e'.vars.map (·.index) = List.range' 0 e.vars.length ∧
    e'.vars.map (·.addr) = e.vars.map (·.addr) ∧
    e'.vars.map (·.value) = e.vars.map (·.value) ∧
    e'.cons.map (·.index) = List.range' 0 e.cons.length ∧
    e'.cons.map (·.addr) = e.cons.map (·.addr) ∧
    e'.ifCons.map (·.index) = List.range' e.cons.length e.ifCons.length ∧
    e'.ifCons.map (·.addr) = e.ifCons.map (·.addr) ∧
    e'.structureSet = true := by
  unfold Evaluator.setStructure at h
  simp only at h
  split at h
  · cases h
  · rename_i ifCons s2 hif
    simp only [Option.some.injEq] at h
    subst h
    obtain ⟨c1, c2, c3⟩ := structCons_index (numberVars e.vars 0) e.cons 0
      { varVector := (numberVars e.vars 0).map (·.addr) }
    rw [c3] at hif
    obtain ⟨i1, i2⟩ := structIfCons_index _ _ _ _ _ _ hif
    refine ⟨numberVars_index _ _, numberVars_addr _ _, numberVars_value _ _, c1, c2, ?_, i2, rfl⟩
    simpa using i1

/-- indices handed out by `set_structure` are pairwise distinct -/
theorem setStructure_unique (e e' : Evaluator α) (h : e.setStructure = some e') :
    (e'.vars.map (·.index)).Nodup ∧ ((e'.cons.map (·.index)) ++ (e'.ifCons.map (·.index))).Nodup := by
  obtain ⟨h1, _, _, h4, _, h6, _, _⟩ := setStructure_indices e e' h
  rw [h1, h4, h6]
  refine ⟨List.nodup_range', ?_⟩
  rw [List.nodup_append]
  refine ⟨List.nodup_range', List.nodup_range', ?_⟩
  intro a ha b hb
  simp only [List.mem_range'_1] at ha hb
  omega

/-! ### values survive removal and re-registration -/

section Values
variable {α : Type} (O : Ops α)

/-- `_decrement_var`: when the last reference goes, the C++ value is copied back into `_value` -/
theorem decVar_value (m : Model α) (i : Nat) : (m.decVar O i).varValue O i = m.varValue O i := by
  simp only [Model.decVar]
  split
  · cases hl : m.varMap.lookup i with
    | none => rfl
    | some a =>
      simp only
      have : (m.varMap.filter (fun p => p.1 != i)).lookup i = none := by
        rw [lookup_filter_ne]; simp
      simp only [Model.varValue, this, pyValueOf, List.lookup_cons, beq_self_eq_true, Option.getD_some]
  · rfl

theorem decParam_value (m : Model α) (i : Nat) : (m.decParam O i).paramValue O i = m.paramValue O i := by
  simp only [Model.decParam]
  split
  · cases hl : m.paramMap.lookup i with
    | none => rfl
    | some a =>
      simp only
      have : (m.paramMap.filter (fun p => p.1 != i)).lookup i = none := by
        rw [lookup_filter_ne]; simp
      simp only [Model.paramValue, this, pyValueOf, List.lookup_cons, beq_self_eq_true, Option.getD_some]
  · rfl

theorem findBy_insertBy_self (key : β → Nat) (x : β) (l : List β) (h : findBy key (key x) l = none) :
    findBy key (key x) (insertBy key x l) = some x := by
  induction l with
  | nil => simp [insertBy, findBy]
  | cons y ys ih =>
    simp only [findBy] at h
    split at h
    · cases h
    · rename_i hy
      simp only [insertBy]
      split
      · simp [findBy]
      · simp only [findBy, hy, if_false]
        exact ih h

/-- `_increment_var` on a variable without C object: the new C++ `Var` (at a fresh address) starts with the variable's
current value, so `var.value` is unchanged by registration -/
theorem incVar_value (m : Model α) (i addr : Nat) (hfresh : findBy CLeaf.addr addr m.ev.vars = none) :
    (m.incVar O i addr).1.varValue O i = m.varValue O i := by
  unfold Model.incVar
  cases hl : m.varMap.lookup i with
  | some a => simp only [Model.varValue, hl]
  | none =>
    simp only
    have hf := findBy_insertBy_self CLeaf.addr (⟨addr, m.varValue O i, 0⟩ : CLeaf α) m.ev.vars hfresh
    simp only [Model.varValue, List.lookup_cons, beq_self_eq_true, Evaluator.addVar, Evaluator.touch] at hf ⊢
    rw [hf]

end Values


/-! ### `leaf.value = x` always overwrites the current value -/

theorem findBy_setCValue_self {α : Type} (a : Nat) (x : α) (vs : List (CLeaf α)) (c : CLeaf α)
    (h : findBy CLeaf.addr a vs = some c) :
    findBy CLeaf.addr a (setCValue a x vs) = some { c with value := x } := by
  induction vs with
  | nil => simp [findBy] at h
  | cons y ys ih =>
    simp only [findBy] at h
    by_cases hy : y.addr = a
    · simp only [hy, if_true, Option.some.injEq] at h
      subst h
      simp [setCValue, hy, findBy]
    · simp only [hy, if_false] at h
      simp [setCValue, hy, findBy, ih h]

theorem findBy_setCValue_none {α : Type} (a : Nat) (x : α) (vs : List (CLeaf α))
    (h : findBy CLeaf.addr a vs = none) : findBy CLeaf.addr a (setCValue a x vs) = none := by
  induction vs with
  | nil => rfl
  | cons y ys ih =>
    simp only [findBy] at h
    by_cases hy : y.addr = a
    · simp [hy] at h
    · simp only [hy, if_false] at h
      simp [setCValue, hy, findBy, ih h]

section SetValue
variable {α : Type} (O : Ops α)

/-- `var.value = x` (the setter writes `_value` AND the C++ object, unconditionally): afterwards `var.value` reads `x`,
whatever the Python-side `_value` or the C++ value were before — no dependence on a cached copy -/
theorem setVar_overwrites (m : Model α) (i : Nat) (x : α) : (m.setVar i x).varValue O i = x := by
  unfold Model.setVar
  cases hl : m.varMap.lookup i with
  | none => simp [Model.varValue, hl, pyValueOf]
  | some a =>
    simp only [Model.varValue, hl]
    cases hf : findBy CLeaf.addr a m.ev.vars with
    | none => simp [findBy_setCValue_none a x _ hf, pyValueOf]
    | some c => simp [findBy_setCValue_self a x _ c hf]

theorem setParam_overwrites (m : Model α) (i : Nat) (x : α) : (m.setParam i x).paramValue O i = x := by
  unfold Model.setParam
  cases hl : m.paramMap.lookup i with
  | none => simp [Model.paramValue, hl, pyValueOf]
  | some a =>
    simp only [Model.paramValue, hl]
    cases hf : findBy CLeaf.addr a m.ev.params with
    | none => simp [findBy_setCValue_none a x _ hf, pyValueOf]
    | some c => simp [findBy_setCValue_self a x _ c hf]

/-- and the C++ object (what `get_x`, `evaluate`, `evaluate_csr_jacobian` read) holds `x` too -/
theorem setVar_cvalue (m : Model α) (i a : Nat) (x : α) (c : CLeaf α) (hl : m.varMap.lookup i = some a)
    (hf : findBy CLeaf.addr a m.ev.vars = some c) :
    findBy CLeaf.addr a (m.setVar i x).ev.vars = some { c with value := x } := by
  simp only [Model.setVar, hl]
  exact findBy_setCValue_self a x _ c hf

end SetValue

end Wntr.Aml
