/- The interpretation of the reference Newton skeleton IS the hand-written `solve` (used by Props/C16Newton). -/
import WntrModel.Lemmas.Newton

namespace Wntr.Newton

variable {X D : Type} (wd : World X D) (o : Opts) (empty : Bool)

def btBody : NStmt := nblock [
  .act .trial,
  .act .loadTrial,
  .act .evalTrial,
  .ite .decrease (nblock [.act .accept, .brk]) (.act .shrink)]

def outerBody : NStmt := nblock [
  .ite .timeUp (.ret .error .timeLimit) .skip,
  .ite .useR (.act .useStored) (.act .evalResidual),
  .ite .normLtTol (.ret .converged .solved) .skip,
  .act .evalJacobian,
  .tryLin (.act .linSolve) (.ret .error .singular),
  .act .alphaInit,
  .ite .btEnabled (nblock [
      .act (.setUseR true),
      .act .initIterBt,
      .forRange .btMaxiter btBody,
      .ite .lsExhausted (.ret .error .lineSearch) .skip])
    (nblock [.act .plainStep, .act .loadX])]

theorem refSolve_eq : refSolve = nblock [
    .act .getX,
    .ite .emptyX (.ret .converged .noVars) .skip,
    .act (.setUseR false),
    .act .initOuterIter,
    .forRange .maxiter outerBody,
    .ret .error .maxIter] := by decide

/-- the backtracking loop of the interpreter is `lsLoop` -/
theorem bt_loop (dd : D) (n : Nat) :
    ∀ (i : Nat) (m : NM X D), m.flow = .normal → m.d = some dd →
      ∃ m', loopN (execN wd o empty btBody) (setLoopVar .btMaxiter) i n m = m' ∧
        m'.s = (lsLoop wd o m.s.x dd m.rNorm i n m.alpha m.s).st ∧ m'.flow = .normal ∧
        m'.outerIter = m.outerIter ∧
        m'.iterBt = (if n = 0 then m.iterBt else (lsLoop wd o m.s.x dd m.rNorm i n m.alpha m.s).iterBt) := by
  induction n with
  | zero => intro i m hf _; exact ⟨m, rfl, rfl, hf, rfl, by simp⟩
  | succ n ih =>
    intro i m hf hd
    by_cases hdec : ltO (wd.norm (wd.move m.s.x dd m.alpha m.s.nEval)) (mulO (1 - o.c1 * m.alpha) m.rNorm) = true
    · refine ⟨_, rfl, ?_, ?_, ?_, ?_⟩ <;>
        simp [loopN, btBody, nblock, execN, doNAct, evalNCond, setLoopVar, lsLoop, hf, hd, hdec]
    · obtain ⟨m', h1, h2, h3, h4, h5⟩ := ih (i + 1)
        { m with s := { m.s with loaded := wd.move m.s.x dd m.alpha m.s.nEval,
                                 newNorm := wd.norm (wd.move m.s.x dd m.alpha m.s.nEval), nEval := m.s.nEval + 1 },
                 xTrial := wd.move m.s.x dd m.alpha m.s.nEval, alpha := m.alpha * o.rho, iterBt := (i : Int) } hf hd
      refine ⟨m', ?_, ?_, h3, ?_, ?_⟩
      · rw [← h1]
        simp [loopN, btBody, nblock, execN, doNAct, evalNCond, setLoopVar, hf, hd, hdec]
      · rw [h2]; simp [lsLoop, hdec]
      · rw [h4]
      · rw [h5]
        by_cases hn : n = 0
        · subst hn; simp [lsLoop, hdec]
        · simp [hn, lsLoop, hdec]

theorem execN_nblock_append (a b : List NStmt) (m : NM X D) (hf : m.flow = .normal) :
    execN wd o empty (nblock (a ++ b)) m =
      match (execN wd o empty (nblock a) m).flow with
      | .normal => execN wd o empty (nblock b) (execN wd o empty (nblock a) m)
      | _ => execN wd o empty (nblock a) m := by
  induction a generalizing m with
  | nil => simp [nblock, execN, hf]
  | cons x a ih =>
    simp only [List.cons_append, nblock, execN]
    cases hx : (execN wd o empty x m).flow with
    | normal => simp only; exact ih _ hx
    | broke => simp [hx]
    | returned out => simp [hx]
    | raisedLin => simp [hx]

def sec1 : List NStmt := [
  .ite .timeUp (.ret .error .timeLimit) .skip,
  .ite .useR (.act .useStored) (.act .evalResidual),
  .ite .normLtTol (.ret .converged .solved) .skip,
  .act .evalJacobian,
  .tryLin (.act .linSolve) (.ret .error .singular),
  .act .alphaInit]

def btBranch : NStmt := nblock [
  .act (.setUseR true),
  .act .initIterBt,
  .forRange .btMaxiter btBody,
  .ite .lsExhausted (.ret .error .lineSearch) .skip]

def sec2 : List NStmt := [.ite .btEnabled btBranch (nblock [.act .plainStep, .act .loadX])]

theorem outerBody_eq : outerBody = nblock (sec1 ++ sec2) := by decide

/-- the part of a pass up to the step computation -/
theorem exec_sec1 (i : Nat) (m : NM X D) (hf : m.flow = .normal) :
    execN wd o empty (nblock sec1) (setLoopVar .maxiter i m) =
      if wd.timeUp i then { m with outerIter := i, flow := .returned (.ret .error .timeLimit i) }
      else if ltO (fresh wd m.s).2 (some o.tol) then
        { m with outerIter := i, s := (fresh wd m.s).1, rNorm := (fresh wd m.s).2, flow := .returned (.ret .converged .solved i) }
      else match wd.lin (fresh wd m.s).1.loaded i with
        | none => { m with outerIter := i, s := (fresh wd m.s).1, rNorm := (fresh wd m.s).2,
                           flow := .returned (.ret .error .singular i) }
        | some d => { m with outerIter := i, s := (fresh wd m.s).1, rNorm := (fresh wd m.s).2, d := some d, alpha := 1,
                             flow := .normal } := by
  by_cases ht : wd.timeUp i = true
  · simp [sec1, nblock, execN, evalNCond, setLoopVar, ht]
  · cases hu : m.s.useR with
    | true =>
      by_cases hlt : ltO m.s.newNorm (some o.tol) = true
      · simp [sec1, nblock, execN, doNAct, evalNCond, setLoopVar, fresh, ht, hu, hlt, hf]
      · cases hl : wd.lin m.s.loaded i <;>
          simp [sec1, nblock, execN, doNAct, evalNCond, setLoopVar, fresh, ht, hu, hlt, hf, hl]
    | false =>
      by_cases hlt : ltO (wd.norm m.s.loaded) (some o.tol) = true
      · simp [sec1, nblock, execN, doNAct, evalNCond, setLoopVar, fresh, ht, hu, hlt, hf]
      · cases hl : wd.lin m.s.loaded i <;>
          simp [sec1, nblock, execN, doNAct, evalNCond, setLoopVar, fresh, ht, hu, hlt, hf, hl]

theorem lsLoop_iterBt_zero (base : X) (dd : D) (r : Option Rat) (a : Rat) (s : St X) :
    (lsLoop wd o base dd r 0 0 a s).iterBt = -1 := by simp [lsLoop]

theorem exec_btBranch (i : Nat) (m : NM X D) (dd : D) (hf : m.flow = .normal) (hd : m.d = some dd) (ha : m.alpha = 1)
    (hi : m.outerIter = i) :
    match btPass wd o i m.s m.rNorm dd with
    | .done out s' => ∃ m', execN wd o empty btBranch m = m' ∧ m'.flow = .returned out ∧ m'.s = s'
    | .next s' => ∃ m', execN wd o empty btBranch m = m' ∧ m'.flow = .normal ∧ m'.s = s' ∧ m'.outerIter = i := by
  obtain ⟨m', h1, h2, h3, h4, h5⟩ := bt_loop wd o empty dd o.btMaxiter 0
    ⟨⟨m.s.x, m.s.loaded, true, m.s.newNorm, m.s.nEval⟩, m.rNorm, m.d, m.alpha, m.xTrial, m.outerIter, -1, .normal⟩ rfl hd
  dsimp only at h1 h2 h4 h5
  simp only [ha] at h2 h5
  have h5' : m'.iterBt = (lsLoop wd o m.s.x dd m.rNorm 0 o.btMaxiter 1 { m.s with useR := true }).iterBt := by
    rw [h5]
    by_cases hn : o.btMaxiter = 0
    · simp [hn, lsLoop]
    · simp [hn]
  have e : execN wd o empty btBranch m =
      if m'.iterBt + 1 ≥ (o.btMaxiter : Int) then { m' with flow := .returned (.ret .error .lineSearch m'.outerIter) } else m' := by
    simp [btBranch, nblock, execN, doNAct, evalNCond, rangeLen, hf, h1, h3]
    by_cases hex : (o.btMaxiter : Int) ≤ m'.iterBt + 1 <;> simp [hex, h3]
  unfold btPass
  simp only
  rw [← h5']
  by_cases hex : m'.iterBt + 1 ≥ (o.btMaxiter : Int)
  · simp only [hex, if_true] at e ⊢
    exact ⟨_, e, by simp [h4, hi], h2⟩
  · simp only [hex, if_false] at e ⊢
    exact ⟨_, e, h3, h2, by rw [h4]; exact hi⟩

/-- one pass of the interpreter's main loop is `pass` -/
theorem pass_interp (i : Nat) (m : NM X D) (hf : m.flow = .normal) :
    match pass wd o i m.s with
    | .done out s' => ∃ m', execN wd o empty outerBody (setLoopVar .maxiter i m) = m' ∧ m'.flow = .returned out ∧ m'.s = s'
    | .next s' => ∃ m', execN wd o empty outerBody (setLoopVar .maxiter i m) = m' ∧ m'.flow = .normal ∧ m'.s = s' ∧
        m'.outerIter = i := by
  have hM : (setLoopVar Range.maxiter i m).flow = .normal := by simp [setLoopVar, hf]
  rw [outerBody_eq, execN_nblock_append wd o empty _ _ _ hM, exec_sec1 wd o empty i m hf]
  unfold pass
  by_cases ht : wd.timeUp i = true
  · simp only [ht, if_true]; exact ⟨_, rfl, rfl, rfl⟩
  · simp only [ht]
    by_cases hlt : ltO (fresh wd m.s).2 (some o.tol) = true
    · simp only [hlt, if_true]; exact ⟨_, rfl, rfl, rfl⟩
    · simp only [hlt]
      cases hl : wd.lin (fresh wd m.s).1.loaded i with
      | none => simp only; exact ⟨_, rfl, rfl, rfl⟩
      | some dd =>
        simp only [Bool.false_eq_true, if_false]
        by_cases hbt : (o.bt && decide (i ≥ o.btStartIter)) = true
        · simp only [hbt, if_true]
          have e : execN wd o empty (nblock sec2)
              { m with outerIter := i, s := (fresh wd m.s).1, rNorm := (fresh wd m.s).2, d := some dd, alpha := 1, flow := .normal } =
              execN wd o empty btBranch
              { m with outerIter := i, s := (fresh wd m.s).1, rNorm := (fresh wd m.s).2, d := some dd, alpha := 1, flow := .normal } := by
            simp only [sec2, nblock, execN, evalNCond, hbt, if_true]
            split <;> rfl
          rw [e]
          exact exec_btBranch wd o empty i
            { m with outerIter := i, s := (fresh wd m.s).1, rNorm := (fresh wd m.s).2, d := some dd, alpha := 1, flow := .normal } dd rfl rfl rfl rfl
        · simp only [hbt]
          refine ⟨_, rfl, ?_, ?_, ?_⟩ <;>
            simp [sec2, nblock, execN, doNAct, evalNCond, hbt]

/-- the interpreter's main loop is `outer` -/
theorem outer_interp (n : Nat) :
    ∀ (i : Nat) (m : NM X D), m.flow = .normal →
      ∃ m', loopN (execN wd o empty outerBody) (setLoopVar .maxiter) i n m = m' ∧ m'.s = (outer wd o i n m.s).2 ∧
        (m'.flow = .returned (outer wd o i n m.s).1 ∨
         (m'.flow = .normal ∧ (outer wd o i n m.s).1 = .ret .error .maxIter (i + n - 1) ∧
           m'.outerIter = if n = 0 then m.outerIter else i + n - 1)) := by
  induction n with
  | zero => intro i m hf; exact ⟨m, rfl, rfl, Or.inr ⟨hf, by simp [outer], by simp⟩⟩
  | succ n ih =>
    intro i m hf
    have hp := pass_interp wd o empty i m hf
    simp only [loopN, outer]
    cases hpass : pass wd o i m.s with
    | done out s' =>
      rw [hpass] at hp
      obtain ⟨m1, e, f, g⟩ := hp
      refine ⟨m1, ?_, g, Or.inl f⟩
      rw [e]; simp [f]
    | next s' =>
      rw [hpass] at hp
      obtain ⟨m1, e, f, g, hi⟩ := hp
      obtain ⟨m2, e2, g2, h2⟩ := ih (i + 1) m1 f
      refine ⟨m2, ?_, ?_, ?_⟩
      · rw [e]; simp only [f]; exact e2
      · rw [g2, g]
      · rw [g] at h2
        rcases h2 with h2 | ⟨a, b, c⟩
        · exact Or.inl h2
        · refine Or.inr ⟨a, ?_, ?_⟩
          · rw [b]; congr 1; omega
          · rw [c, hi]
            by_cases hn : n = 0
            · subst hn; simp
            · simp [hn]

/-- **the interpreter on the reference skeleton is `solve`** -/
theorem solveS_ref (x0 : X) : solveS refSolve wd o empty x0 = ((some (solve wd o empty x0).1), (solve wd o empty x0).2) := by
  unfold solveS solve
  rw [refSolve_eq]
  cases empty with
  | true => simp [nblock, execN, doNAct, evalNCond]
  | false =>
    obtain ⟨m', h1, h2, h3⟩ := outer_interp wd o false o.maxiter 0
      ⟨⟨x0, x0, false, none, 0⟩, none, none, 1, x0, 0, -1, .normal⟩ rfl
    dsimp only at h1 h2 h3
    have e : execN wd o false (nblock [.act .getX, .ite .emptyX (.ret .converged .noVars) .skip, .act (.setUseR false),
        .act .initOuterIter, .forRange .maxiter outerBody, .ret .error .maxIter])
        ⟨⟨x0, x0, false, none, 0⟩, none, none, 1, x0, 0, -1, .normal⟩ =
        match m'.flow with
        | .normal => { m' with flow := .returned (.ret .error .maxIter m'.outerIter) }
        | _ => m' := by
      simp [nblock, execN, doNAct, evalNCond, rangeLen, h1]
      cases hfl : m'.flow <;> simp
    simp only [Bool.false_eq_true, if_false]
    rw [e]
    rcases h3 with h3 | ⟨a, b, c⟩
    · simp [h3, h2]
    · simp only [a]
      rw [b]
      by_cases hn : o.maxiter = 0
      · simp [hn] at c ⊢; simp [c, h2, hn]
      · simp [hn] at c ⊢; simp [c, h2]

end Wntr.Newton
