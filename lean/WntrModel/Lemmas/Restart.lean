/- Lemmas for M5r `Restart`: flag bookkeeping of `_get_isolated_junctions_and_links`, validity of a simulator state
   for a network, and the split of a run at a pause. -/
import WntrModel.Model.Restart
import Mathlib.Tactic.Linarith

namespace Wntr.Restart
open Wntr.Isolation (setAll)

theorem setAll_length (f : List Bool) (ids : List Nat) (b : Bool) : (setAll f ids b).length = f.length := by
  unfold setAll
  induction ids generalizing f with
  | nil => rfl
  | cons a as ih => simp only [List.foldl_cons]; rw [ih]; simp

theorem setAll_getD (f : List Bool) (ids : List Nat) (b : Bool) (i : Nat) :
    (setAll f ids b).getD i false = if i ∈ ids ∧ i < f.length then b else f.getD i false := by
  unfold setAll
  induction ids generalizing f with
  | nil => simp
  | cons a as ih =>
    simp only [List.foldl_cons]
    rw [ih]
    simp only [List.length_set, List.mem_cons, List.getD_eq_getElem?_getD, List.getElem?_set]
    by_cases h1 : i ∈ as ∧ i < f.length
    · simp [h1]
    · by_cases h2 : a = i
      · subst h2
        by_cases h3 : a < f.length
        · simp [h1, h3]
        · have : f[a]? = none := List.getElem?_eq_none (by omega)
          simp [h1, h3, this]
      · have h2' : ¬ i = a := fun e => h2 e.symm
        simp [h1, h2, h2']

theorem list_ext_getD (a b : List Bool) (hl : a.length = b.length) (h : ∀ i, a.getD i false = b.getD i false) : a = b := by
  apply List.ext_getElem hl
  intro i h1 h2
  have := h i
  simp only [List.getD_eq_getElem?_getD, List.getElem?_eq_getElem h1, List.getElem?_eq_getElem h2, Option.getD_some] at this
  exact this

/-- the flags are exactly the remembered previous sets -/
def FlagsMatch (f : List Bool) (prev : List Nat) : Prop := ∀ i, f.getD i false = true ↔ (i ∈ prev ∧ i < f.length)

theorem flagged_match (f : List Bool) : FlagsMatch f (flagged f) := by
  intro i
  unfold flagged
  simp only [List.mem_filter, List.mem_range]
  constructor
  · intro h
    have hlt : i < f.length := by
      by_contra hge
      rw [List.getD_eq_getElem?_getD, List.getElem?_eq_none (by omega)] at h
      simp at h
    exact ⟨⟨hlt, h⟩, hlt⟩
  · rintro ⟨⟨_, h⟩, _⟩; exact h

/-- clearing the flags of ANY list that matches them gives the all-clear list: the order and multiplicity of
`_prev_isolated_*` do not matter -/
theorem clear_eq_of_match (f : List Bool) (p1 p2 : List Nat) (h1 : FlagsMatch f p1) (h2 : FlagsMatch f p2) :
    setAll f p1 false = setAll f p2 false := by
  apply list_ext_getD _ _ (by rw [setAll_length, setAll_length])
  intro i
  rw [setAll_getD, setAll_getD]
  by_cases ht : f.getD i false = true
  · rw [if_pos ((h1 i).1 ht), if_pos ((h2 i).1 ht)]
  · have hf : f.getD i false = false := by simpa using ht
    have n1 : ¬ (i ∈ p1 ∧ i < f.length) := fun h => ht ((h1 i).2 h)
    have n2 : ¬ (i ∈ p2 ∧ i < f.length) := fun h => ht ((h2 i).2 h)
    rw [if_neg n1, if_neg n2]

/-- after `_get_isolated_junctions_and_links` the flags match the new sets again -/
theorem match_after (f : List Bool) (prev ids : List Nat) (h : FlagsMatch f prev) :
    FlagsMatch (setAll (setAll f prev false) ids true) ids := by
  intro i
  simp only [setAll_getD, setAll_length]
  by_cases hi : i ∈ ids ∧ i < f.length
  · simp [hi]
  · rw [if_neg hi]
    by_cases hp : i ∈ prev ∧ i < f.length
    · rw [if_pos hp]; simp; exact fun a => by have := hp.2; exact absurd ⟨a, this⟩ hi
    · rw [if_neg hp]
      have : ¬ f.getD i false = true := fun ht => hp ((h i).1 ht)
      constructor
      · intro ht; exact absurd ht this
      · intro hh; exact absurd hh hi

section Split
variable {C R : Type} (p : Pass C R)

/-- `s` is a simulator-object state that the uninterrupted run can be in when the network is `w` -/
structure Valid (good : C → Prop) (w : Net C) (s : SimState) : Prop where
  good : good w.core
  iter : s.ruleIter = p.ruleIterOf w.core
  fj : FlagsMatch w.isoJ s.prevIsoJ
  fl : FlagsMatch w.isoL s.prevIsoL

/-- the contract of the un-modelled parts: on good networks, after a pass the rule iterator is the one the prologue
of a new `run_sim` would compute from the network (proved for the time-stepping model `Sched` in Props/C04:
`presolve_lands_on_instant`, `Stepped.iter`), and goodness is kept -/
def Contract (good : C → Prop) : Prop :=
  ∀ c fj fl, good c →
    let r := p.pre c (p.ruleIterOf c)
    good (p.post r.1 fj fl).1 ∧ r.2 = p.ruleIterOf (p.post r.1 fj fl).1

theorem derive_valid (good : C → Prop) (w : Net C) (hg : good w.core) : Valid p good w (derive p w) :=
  ⟨hg, rfl, flagged_match _, flagged_match _⟩

/-- **one pass does not depend on which valid simulator state it starts from** (network and rows equal), and the
state it leaves is valid again -/
theorem step_valid (good : C → Prop) (hc : Contract p good) (w : Net C) (s1 s2 : SimState)
    (h1 : Valid p good w s1) (h2 : Valid p good w s2) :
    (step p w s1).1 = (step p w s2).1 ∧ (step p w s1).2.2 = (step p w s2).2.2 ∧
      Valid p good (step p w s1).1 (step p w s1).2.1 := by
  have hit : s1.ruleIter = s2.ruleIter := by rw [h1.iter, h2.iter]
  have hj := clear_eq_of_match w.isoJ s1.prevIsoJ s2.prevIsoJ h1.fj h2.fj
  have hl := clear_eq_of_match w.isoL s1.prevIsoL s2.prevIsoL h1.fl h2.fl
  have hcon := hc w.core
    (setAll (setAll w.isoJ s1.prevIsoJ false) (p.isolated (p.pre w.core s1.ruleIter).1).1 true)
    (setAll (setAll w.isoL s1.prevIsoL false) (p.isolated (p.pre w.core s1.ruleIter).1).2 true) h1.good
  simp only at hcon
  rw [← h1.iter] at hcon
  refine ⟨?_, ?_, ?_⟩
  · simp only [step, hit, hj, hl]
  · simp only [step, hit, hj, hl]
  · simp only [step]
    exact ⟨hcon.1, hcon.2, match_after _ _ _ h1.fj, match_after _ _ _ h1.fl⟩

/-- `k` passes from two valid states: same network, same rows, valid again -/
theorem iter_valid (good : C → Prop) (hc : Contract p good) :
    ∀ (k : Nat) (w : Net C) (s1 s2 : SimState) (l : List R), Valid p good w s1 → Valid p good w s2 →
      (iter p k (w, s1, l)).1 = (iter p k (w, s2, l)).1 ∧ (iter p k (w, s1, l)).2.2 = (iter p k (w, s2, l)).2.2 ∧
        Valid p good (iter p k (w, s1, l)).1 (iter p k (w, s1, l)).2.1 := by
  intro k
  induction k with
  | zero => intro w s1 s2 l h1 _; exact ⟨rfl, rfl, h1⟩
  | succ k ih =>
    intro w s1 s2 l h1 h2
    obtain ⟨e1, e2, v1⟩ := step_valid p good hc w s1 s2 h1 h2
    obtain ⟨_, _, v2⟩ := step_valid p good hc w s2 s1 h2 h1
    simp only [iter]
    rw [← e1, ← e2]
    exact ih _ _ _ _ v1 (e1 ▸ v2)

theorem iter_add (a b : Nat) (x : Net C × SimState × List R) : iter p (a + b) x = iter p b (iter p a x) := by
  induction a generalizing x with
  | zero => simp [iter]
  | succ a ih =>
    obtain ⟨w, s, l⟩ := x
    rw [Nat.succ_add]
    simp only [iter]
    exact ih _

/-- the rows only grow at the end -/
theorem iter_log (k : Nat) (w : Net C) (s : SimState) (l0 l : List R) :
    iter p k (w, s, l0 ++ l) = ((iter p k (w, s, l)).1, (iter p k (w, s, l)).2.1, l0 ++ (iter p k (w, s, l)).2.2) := by
  induction k generalizing w s l with
  | zero => rfl
  | succ k ih =>
    simp only [iter]
    rw [List.append_assoc]
    exact ih _ _ _

/-- **`run_split` with the hydraulic state**: let the uninterrupted run from a good network `w` (simulator state built
by the prologue) execute `k1 + k2` passes, the first `k1` of them being the run to the pause.  Then a NEW simulator
(`derive` of the network the first part left, empty results) that executes `k2` passes ends with the same network and
the concatenated rows are those of the uninterrupted run -/
theorem run_split_state (good : C → Prop) (hc : Contract p good) (w : Net C) (hg : good w.core) (k1 k2 : Nat) :
    let full := iter p (k1 + k2) (w, derive p w, [])
    let p1 := iter p k1 (w, derive p w, [])
    let p2 := iter p k2 (p1.1, derive p p1.1, [])
    full.1 = p2.1 ∧ full.2.2 = p1.2.2 ++ p2.2.2 := by
  simp only
  rw [iter_add]
  have v0 := derive_valid p good w hg
  obtain ⟨_, _, v1⟩ := iter_valid p good hc k1 w _ _ [] v0 v0
  generalize iter p k1 (w, derive p w, []) = x at *
  obtain ⟨w1, s1, l1⟩ := x
  simp only at v1 ⊢
  have hl : l1 = l1 ++ [] := by simp
  rw [hl, iter_log]
  obtain ⟨e1, e2, _⟩ := iter_valid p good hc k2 w1 s1 (derive p w1) [] v1 (derive_valid p good w1 v1.good)
  simp only [List.append_nil]
  exact ⟨e1, by rw [e2]⟩

/-- the pass counts fit: if the run to `t1` stops after `k1` passes and the run to `T ≥ t1` after `k` passes, then
`k1 ≤ k`, and when `k1 < k` the continuation (new simulator) stops after exactly `k - k1` passes -/
theorem stops_split (good : C → Prop) (hc : Contract p good) (w : Net C) (hg : good w.core) (t1 T : Int) (ht : t1 ≤ T)
    (k1 k : Nat) (h1 : StopsAt p t1 k1 (w, derive p w, [])) (h2 : StopsAt p T k (w, derive p w, [])) :
    k1 ≤ k ∧ (k1 < k → StopsAt p T (k - k1) ((iter p k1 (w, derive p w, [])).1, derive p (iter p k1 (w, derive p w, [])).1, [])) := by
  have hle : k1 ≤ k := by
    by_contra hlt
    have := h1.2.2 k h2.1 (by omega)
    have := h2.2.1
    omega
  refine ⟨hle, fun hlt => ?_⟩
  have v0 := derive_valid p good w hg
  obtain ⟨_, _, v1⟩ := iter_valid p good hc k1 w _ _ [] v0 v0
  -- passes of the continuation = passes k1+j of the uninterrupted run, on the network component
  have key : ∀ j, (iter p j ((iter p k1 (w, derive p w, [])).1, derive p (iter p k1 (w, derive p w, [])).1, [])).1 =
      (iter p (k1 + j) (w, derive p w, [])).1 := by
    intro j
    rw [iter_add]
    generalize iter p k1 (w, derive p w, []) = x at *
    obtain ⟨w1, s1, l1⟩ := x
    simp only at v1 ⊢
    have hl : l1 = l1 ++ [] := by simp
    rw [hl, iter_log]
    exact ((iter_valid p good hc j w1 s1 (derive p w1) [] v1 (derive_valid p good w1 v1.good)).1).symm
  refine ⟨by omega, ?_, ?_⟩
  · rw [key, show k1 + (k - k1) = k by omega]; exact h2.2.1
  · intro j hj1 hj2
    rw [key]
    exact h2.2.2 (k1 + j) (by omega) (by omega)

end Split

end Wntr.Restart
