/- The token tree regenerated from `_compute_next_timestep_and_run_presolve_controls_and_rules` (Gen/PresolveShape.lean),
   interpreted (Model/PresolveProg.lean), IS the hand-written scheduler of Model/Sched.lean: prologue = `presolveDue`,
   one pass of the loop = `loopStep`. -/
import WntrModel.Gen.PresolveShape
import WntrModel.Lemmas.Sched

namespace Wntr.PresolveProg
open Wntr.Sched Wntr.Gen.PresolveShape

/-- the clamp of /repo 7d8c4ce1 is the identity on a backtrack that already lies inside the step -/
theorem clamp_id_of_inside (b sim prev : Int) (h0 : 0 ≤ b) (h1 : b < sim - prev) :
    min (max b 0) (max (sim - prev - 1) 0) = b := by omega

/-- the list built before the loop is `presolveDue` (two stable sorts, first-step override; on later steps every
backtrack is clamped into the step, which is the identity for time conditions by `backtrack_inside_step`) -/
theorem generated_prologue_is_presolveDue (cfg : Cfg) (first : Bool) (s : St) (hlt : s.prevTime < s.simTime) :
    runPrologue cfg first s prologue = presolveDue cfg first s := by
  unfold runPrologue prologue presolveDue
  cases first with
  | true => rfl
  | false =>
    simp only [List.foldl_cons, List.foldl_nil, Pro.run, Bool.false_eq_true, if_false]
    show List.map _ (sortDue (check cfg.startClock s.prevTime s.simTime cfg.presolve)) = _
    conv_rhs => rw [← List.map_id (sortDue (check cfg.startClock s.prevTime s.simTime cfg.presolve))]
    apply List.map_congr_left
    intro d hd
    have := check_mem hlt (mem_sortDue.1 hd)
    have hb := clamp_id_of_inside d.back s.simTime s.prevTime this.2.1 this.2.2
    cases d; simp only at hb ⊢; rw [hb]; rfl

/-- what one pass of the generated loop leaves: `break` = done, else next iteration -/
def stepOf (p : PS) : StepRes := if p.broke then .done p.s else .cont p.cnt p.s

/-- one evaluation of the `while` condition and, if it holds, of the generated body -/
def interpStep (cfg : Cfg) (ref : Vals) (due : List Due) (first : Bool) (cnt : Nat) (s : St) : StepRes :=
  if loopCond.holds cfg due cnt s then stepOf (execBlock cfg ref due first body { s := s, cnt := cnt }) else .done s

theorem runGroup_first (due : List Due) (cnt : Nat) (d : Due) (v : Vals) (n : Nat) (h : due[cnt]? = some d) :
    runGroup due cnt d.back v (n + 1) = runGroup due (cnt + 1) d.back (d.run v) n := by
  rw [runGroup]; simp [h]

/-- **the generated loop body is `loopStep`** — for every configuration, reference values, due list, counter, state and
both values of `first_step` (which only guards `update_tank_heads`) -/
theorem generated_body_is_loopStep (cfg : Cfg) (ref : Vals) (due : List Due) (first : Bool) (cnt : Nat) (s : St) :
    interpStep cfg ref due first cnt s = loopStep cfg ref due cnt s := by
  unfold interpStep loopStep
  by_cases hc : cnt < due.length ∨ s.ruleIter * cfg.rule ≤ s.simTime
  · simp only [LoopCond.holds, hc, decide_true, if_true]
    cases hd : due[cnt]? with
    | none =>
      have hlen : due.length ≤ cnt := List.getElem?_eq_none_iff.1 hd
      have hA : decide (cnt ≥ due.length) = true := by simpa using hlen
      cases hch : changed ref (evalRulesAt cfg (s.ruleIter * cfg.rule) s).vals with
      | true =>
        have hch' : changed ref (List.foldl (fun v d => d.run v) s.vals
            (sortBy (fun a b => decide (a.ctl.prio ≤ b.ctl.prio))
              (check cfg.startClock (ruleWindowLo cfg (s.ruleIter * cfg.rule)) (s.ruleIter * cfg.rule) cfg.rules))) = true := hch
        cases first <;>
          simp [body, execBlock, execStmt, Act.run, Cond.holds, stepOf, hA, hch', evalRulesAt, runRules]
      | false =>
        have hch' : changed ref (List.foldl (fun v d => d.run v) s.vals
            (sortBy (fun a b => decide (a.ctl.prio ≤ b.ctl.prio))
              (check cfg.startClock (ruleWindowLo cfg (s.ruleIter * cfg.rule)) (s.ruleIter * cfg.rule) cfg.rules))) = false := hch
        cases first <;>
          simp [body, execBlock, execStmt, Act.run, Cond.holds, stepOf, hA, hch', evalRulesAt, runRules]
    | some d =>
      have hlt : cnt < due.length := (List.getElem?_eq_some_iff.1 hd).1
      have hA : decide (cnt ≥ due.length) = false := by simpa using hlt
      simp only
      by_cases h1 : s.simTime - d.back < s.ruleIter * cfg.rule
      · rw [if_pos h1, runGroup_first due cnt d s.vals due.length hd]
        cases hch : changed ref (runGroup due (cnt + 1) d.back (d.run s.vals) due.length).1 <;>
          cases first <;>
          simp [body, execBlock, execStmt, Act.run, Cond.holds, stepOf, hA, hd, h1, hch]
      · rw [if_neg h1]
        by_cases h2 : s.simTime - d.back = s.ruleIter * cfg.rule
        · rw [if_pos h2, runGroup_first due cnt d _ due.length hd, h2]
          cases hch : changed ref (runGroup due (cnt + 1) d.back (d.run (evalRulesAt cfg (s.ruleIter * cfg.rule) s).vals) due.length).1 with
          | true =>
            have hch' : changed ref (runGroup due (cnt + 1) d.back (d.run (List.foldl (fun v d => d.run v) s.vals
              (sortBy (fun a b => decide (a.ctl.prio ≤ b.ctl.prio))
                (check cfg.startClock (ruleWindowLo cfg (s.ruleIter * cfg.rule)) (s.ruleIter * cfg.rule) cfg.rules)))) due.length).1 = true := hch
            cases first <;>
              simp [body, execBlock, execStmt, Act.run, Cond.holds, stepOf, hA, hd, h1, h2, hch', evalRulesAt, runRules]
          | false =>
            have hch' : changed ref (runGroup due (cnt + 1) d.back (d.run (List.foldl (fun v d => d.run v) s.vals
              (sortBy (fun a b => decide (a.ctl.prio ≤ b.ctl.prio))
                (check cfg.startClock (ruleWindowLo cfg (s.ruleIter * cfg.rule)) (s.ruleIter * cfg.rule) cfg.rules)))) due.length).1 = false := hch
            cases first <;>
              simp [body, execBlock, execStmt, Act.run, Cond.holds, stepOf, hA, hd, h1, h2, hch', evalRulesAt, runRules]
        · rw [if_neg h2]
          cases hch : changed ref (evalRulesAt cfg (s.ruleIter * cfg.rule) s).vals with
          | true =>
            have hch' : changed ref (List.foldl (fun v d => d.run v) s.vals
                (sortBy (fun a b => decide (a.ctl.prio ≤ b.ctl.prio))
                  (check cfg.startClock (ruleWindowLo cfg (s.ruleIter * cfg.rule)) (s.ruleIter * cfg.rule) cfg.rules))) = true := hch
            cases first <;>
              simp [body, execBlock, execStmt, Act.run, Cond.holds, stepOf, hA, hd, h1, h2, hch', evalRulesAt, runRules]
          | false =>
            have hch' : changed ref (List.foldl (fun v d => d.run v) s.vals
                (sortBy (fun a b => decide (a.ctl.prio ≤ b.ctl.prio))
                  (check cfg.startClock (ruleWindowLo cfg (s.ruleIter * cfg.rule)) (s.ruleIter * cfg.rule) cfg.rules))) = false := hch
            cases first <;>
              simp [body, execBlock, execStmt, Act.run, Cond.holds, stepOf, hA, hd, h1, h2, hch', evalRulesAt, runRules]
  · simp [LoopCond.holds, hc]

/-- the generated `while` loop with fuel -/
def interpLoop (cfg : Cfg) (ref : Vals) (due : List Due) (first : Bool) : Nat → Nat → St → St
  | 0, _, s => s
  | n + 1, cnt, s =>
    match interpStep cfg ref due first cnt s with
    | .done s' => s'
    | .cont c s' => interpLoop cfg ref due first n c s'

theorem generated_loop_is_presolveLoop (cfg : Cfg) (ref : Vals) (due : List Due) (first : Bool) :
    ∀ (n cnt : Nat) (s : St), interpLoop cfg ref due first n cnt s = presolveLoop cfg ref due n cnt s := by
  intro n
  induction n with
  | zero => intro cnt s; rfl
  | succ n ih =>
    intro cnt s
    rw [presolveLoop_succ, interpLoop, generated_body_is_loopStep]
    cases loopStep cfg ref due cnt s with
    | done s' => rfl
    | cont c s' => exact ih c s'

/-- **the whole method as regenerated from the source is the hand-written `presolve`**: generated prologue, then the
generated loop with the reference point taken at entry -/
theorem generated_method_is_presolve (cfg : Cfg) (first : Bool) (s : St) (hlt : s.prevTime < s.simTime) :
    interpLoop cfg s.vals (runPrologue cfg first s prologue) first
        (presolveFuel cfg (runPrologue cfg first s prologue) s) 0 s = presolve cfg first s := by
  rw [generated_loop_is_presolveLoop, generated_prologue_is_presolveDue cfg first s hlt, presolve_eq]

end Wntr.PresolveProg
