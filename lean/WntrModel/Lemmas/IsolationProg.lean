/-
Lemmas for C09, source level: the reference program `Prog.refSearch` (the statement skeleton the translator must find in
network_isolation.cpp) means `checkIsolated`, for every input; and the fuel of the `while` loop is never what ends it.
-/
import WntrModel.Model.IsolationProg
import WntrModel.Lemmas.IsolationDfs
import WntrModel.Lemmas.IsolationSim
set_option linter.unusedSimpArgs false
namespace Wntr.Isolation.Prog
open Wntr.Isolation

theorem toNat_cast_add (a b : Nat) : ((a : Int) + (b : Int)).toNat = a + b := by omega

/-- the optional column the inner loop visits at offset `k` of node `u` -/
def colAt (g : Csr) (u k : Nat) : Option Nat :=
  if g.data.getD (g.base u + k) 0 = 1 then some (g.indices.getD (g.base u + k) 0) else none

theorem cols_eq (g : Csr) (u : Nat) : g.cols u = (List.range (g.nconn.getD u 0)).filterMap (colAt g u) := rfl

/-- one iteration of the inner `for` -/
theorem inner_step (env : Env) (st : St) (u k : Nat) (hndx : st.vars .ndx = (env.g.base u : Nat)) :
    let st' := exec env refInner (st.set .i (0 + (k : Nat)))
    (st'.ind, st'.work) = (match colAt env.g u k with | some c => visit (st.ind, st.work) c | none => (st.ind, st.work)) ∧
    st'.vars .ndx = st.vars .ndx := by
  intro st'
  unfold colAt
  simp only [st', refInner, block, exec, eval, evalC, cmp, arr, St.set, hndx, Int.zero_add, toNat_cast_add,
    reduceCtorEq, if_false, if_true, ite_true, ite_false]
  by_cases hd : env.g.data.getD (env.g.base u + k) 0 = 1
  · simp only [hd, if_true, BEq.rfl, exec, eval, evalC, cmp, arr, St.set, Int.toNat_natCast, reduceCtorEq, if_false, if_true]
    unfold visit
    by_cases hi : st.ind.getD (env.g.indices.getD (env.g.base u + k) 0) 0 = 1
    · simp only [hi, exec, eval, St.set, Int.toNat_natCast, BEq.rfl, if_true, reduceCtorEq, if_false, hndx, and_self]
    · simp only [hi, exec, beq_iff_eq, if_false, reduceCtorEq, hndx, and_self]
  · simp only [hd, exec, beq_iff_eq, if_false, reduceCtorEq, hndx, and_self]

theorem inner_fold (env : Env) (u : Nat) (ks : List Nat) (st : St) (hndx : st.vars .ndx = (env.g.base u : Nat)) :
    ((ks.foldl (fun st k => exec env refInner (st.set .i (0 + (k : Nat)))) st).ind,
     (ks.foldl (fun st k => exec env refInner (st.set .i (0 + (k : Nat)))) st).work) =
      (ks.filterMap (colAt env.g u)).foldl visit (st.ind, st.work) ∧
    (ks.foldl (fun st k => exec env refInner (st.set .i (0 + (k : Nat)))) st).vars .ndx = st.vars .ndx := by
  induction ks generalizing st with
  | nil => exact ⟨rfl, rfl⟩
  | cons k ks ih =>
    obtain ⟨h1, h2⟩ := inner_step env st u k hndx
    obtain ⟨i1, i2⟩ := ih (exec env refInner (st.set .i (0 + (k : Nat)))) (h2.trans hndx)
    rw [List.foldl_cons]
    refine ⟨?_, i2.trans h2⟩
    rw [i1, h1, List.filterMap_cons]
    cases colAt env.g u k with
    | none => rfl
    | some c => rfl

theorem while_body (env : Env) (st : St) (u : Nat) (rest : List Nat) (hp : popMax st.work = some (u, rest)) :
    ((exec env refWhileBody st).ind, (exec env refWhileBody st).work) = (env.g.cols u).foldl visit (st.ind, rest) := by
  have key := inner_fold env u (List.range (env.g.nconn.getD u 0))
    { vars := fun w => if w = Var.ncon then ((env.g.nconn.getD u 0 : Nat) : Int) else
                if w = Var.ndx then ((env.g.indptr.getD u 0 : Nat) : Int) else
                if w = Var.node then (u : Int) else st.vars w,
      ind := st.ind, work := rest } (by simp only [reduceCtorEq, if_false, if_true]; rfl)
  rw [cols_eq, ← key.1]
  simp only [refWhileBody, block, exec, eval, arr, St.set, hp, reduceCtorEq, if_false, if_true, Int.toNat_natCast,
    Int.sub_zero]


theorem loop_explore (env : Env) (f : Nat) (st : St) :
    ((loopN (fun st : St => !st.work.isEmpty) (exec env refWhileBody) f st).ind,
     (loopN (fun st : St => !st.work.isEmpty) (exec env refWhileBody) f st).work) = explore env.g f st.ind st.work := by
  induction f generalizing st with
  | zero => rfl
  | succ f ih =>
    unfold loopN explore
    cases hp : popMax st.work with
    | none =>
      have hw := popMax_none hp
      simp only [hw, List.isEmpty_nil, Bool.not_true, Bool.false_eq_true, if_false]
    | some p =>
      obtain ⟨u, rest⟩ := p
      have hne : st.work.isEmpty = false := by
        cases hw : st.work with
        | nil => rw [hw] at hp; cases hp
        | cons a b => rfl
      simp only [hne, Bool.not_false, if_true]
      rw [ih (exec env refWhileBody st)]
      have hb := while_body env st u rest hp
      have e1 : (exec env refWhileBody st).ind = ((env.g.cols u).foldl visit (st.ind, rest)).1 := by rw [← hb]
      have e2 : (exec env refWhileBody st).work = ((env.g.cols u).foldl visit (st.ind, rest)).2 := by rw [← hb]
      rw [e1, e2]

theorem source_step (env : Env) (st : St) (k : Nat) :
    (exec env refSourceBody (st.set .sourceCntr (0 + (k : Nat)))).ind = sourceStep env.g st.ind (env.sources.getD k 0) := by
  unfold sourceStep
  simp only [refSourceBody, block, exec, eval, evalC, cmp, arr, St.set, reduceCtorEq, if_false, if_true, Int.zero_add,
    Int.toNat_natCast, beq_iff_eq]
  by_cases h1 : st.ind.getD (env.sources.getD k 0) 0 = 1
  · rw [if_pos h1, if_pos h1]
    have := loop_explore env (st.ind.set (env.sources.getD k 0) 0).length
      { vars := fun w => if w = Var.sourceId then ((env.sources.getD k 0 : Nat) : Int) else
                  if w = Var.sourceCntr then (k : Int) else st.vars w,
        ind := st.ind.set (env.sources.getD k 0) 0, work := setInsert (env.sources.getD k 0) [] }
    have e := congrArg Prod.fst this
    simp only [List.length_set] at e
    simp only [exec, List.length_set]
    rw [e]
    rfl
  · rw [if_neg h1, if_neg h1]

theorem outer_fold (env : Env) (l : List Nat) (o : Nat) (st : St)
    (h : ∀ k, k < l.length → env.sources.getD (o + k) 0 = l.getD k 0) :
    ((List.range' o l.length).foldl (fun st k => exec env refSourceBody (st.set .sourceCntr (0 + (k : Nat)))) st).ind =
      l.foldl (sourceStep env.g) st.ind := by
  induction l generalizing o st with
  | nil => rfl
  | cons a l ih =>
    rw [List.length_cons, List.range'_succ, List.foldl_cons, List.foldl_cons]
    rw [ih (o + 1)]
    · rw [source_step]
      have := h 0 (Nat.zero_lt_succ _)
      rw [Nat.add_zero] at this
      rw [this]
      rfl
    · intro k hk
      have := h (k + 1) (Nat.succ_lt_succ hk)
      have e : o + 1 + k = o + (k + 1) := by omega
      rw [e, this]
      rfl

/-- **the program text means `checkIsolated`** -/
theorem exec_ref (g : Csr) (srcs : List Nat) (st : St) :
    (exec { sources := srcs, g := g } refSearch st).ind = checkIsolated g srcs st.ind := by
  unfold refSearch checkIsolated
  simp only [exec, eval, arrLen, Int.sub_zero, Int.toNat_natCast, List.range_eq_range']
  exact outer_fold { sources := srcs, g := g } srcs 0 st (fun k _ => by rw [Nat.zero_add])


/-- with fuel ≥ (number of live nodes + size of the set) the `while` loop ends because the set is empty -/
theorem explore_work_nil (g : Csr) (f : Nat) (ind : List Int) (work : List Nat) (hm : meas ind work ≤ f) :
    (explore g f ind work).2 = [] := by
  induction f generalizing ind work with
  | zero =>
    unfold meas at hm
    have : work = [] := List.eq_nil_of_length_eq_zero (by omega)
    subst this; rfl
  | succ f ih =>
    unfold explore
    cases hp : popMax work with
    | none => exact popMax_none hp
    | some p =>
      obtain ⟨u, rest⟩ := p
      obtain ⟨hu, hrest⟩ := popMax_some hp
      have hlen : rest.length + 1 = work.length := by
        rw [hrest, List.length_erase_of_mem hu]
        have : 0 < work.length := List.length_pos_of_mem hu
        omega
      have hm' := visit_fold_meas (g.cols u) ind rest
      apply ih
      unfold meas at hm hm' ⊢
      omega

theorem search_fuel_suffices_aux (g : Csr) (s : Nat) (ind : List Int) (h : ind.getD s 0 = 1) :
    (explore g ind.length (ind.set s 0) [s]).2 = [] := by
  apply explore_work_nil
  unfold meas
  have h1 := count_set_zero ind s h
  have h2 : ind.count 1 ≤ ind.length := List.count_le_length
  simp only [List.length_cons, List.length_nil]
  omega

/-! ### `_update_internal_graph` -/

/-- body of the change loop -/
def chBody : PStmt := blockP [.ifStatusAttr (blockP [.ifObjClosed (blockP [.write0]) (blockP [.write1])])]

theorem chBody_step (s : Sim) (st : PSt) (k : Nat) :
    execP s chBody { st with cur := k } =
      { st with cur := k, data := writeLink s.ndx st.data k (openVal (s.status k)) } := by
  unfold chBody openVal
  simp only [blockP, execP]
  by_cases h : s.status k = 0
  · simp only [h, if_true]
  · simp only [h, if_false]

theorem ch_fold (s : Sim) (ks : List Nat) (st : PSt) :
    (ks.foldl (fun st k => execP s chBody { st with cur := k }) st).data =
      ks.foldl (fun d k => writeLink s.ndx d k (openVal (s.status k))) st.data ∧
    (ks.foldl (fun st k => execP s chBody { st with cur := k }) st).reset = st.reset := by
  induction ks generalizing st with
  | nil => exact ⟨rfl, rfl⟩
  | cons k ks ih =>
    rw [List.foldl_cons, List.foldl_cons, chBody_step]
    exact ih _

def llBody : PStmt := blockP [.ifLinkNotClosed (blockP [.write1])]

theorem ll_fold (s : Sim) (ls : List Nat) (st : PSt) :
    (ls.foldl (fun st l => execP s llBody { st with cur := l }) st).data = setOpenLinks s.ndx s.status st.data ls ∧
    (ls.foldl (fun st l => execP s llBody { st with cur := l }) st).reset = st.reset := by
  unfold setOpenLinks
  induction ls generalizing st with
  | nil => exact ⟨rfl, rfl⟩
  | cons l ls ih =>
    rw [List.foldl_cons, List.foldl_cons]
    have e : execP s llBody { st with cur := l } =
        { st with cur := l, data := if s.status l ≠ 0 then writeLink s.ndx st.data l 1 else st.data } := by
      unfold llBody
      simp only [blockP, execP]
      by_cases h : s.status l = 0
      · simp only [h, ne_eq, not_true_eq_false, if_false]
      · simp only [h, ne_eq, not_false_eq_true, if_true]
    rw [e]
    exact ih _

def muBody : PStmt := blockP [.firstLink, .write0, .forLinkList llBody]

theorem mu_step (s : Sim) (st : PSt) (e : (Nat × Nat) × List Nat) (hne : e.2 ≠ []) :
    (execP s muBody { st with lst := e.2 }).data = multiStep s.ndx s.status st.data e ∧
    (execP s muBody { st with lst := e.2 }).reset = st.reset := by
  unfold muBody multiStep
  cases h : e.2 with
  | nil => exact absurd h hne
  | cons f tl =>
    simp only [blockP, execP, List.headD_cons]
    have := ll_fold s (f :: tl) { data := writeLink s.ndx st.data f 0, cur := f, lst := f :: tl, reset := st.reset }
    exact this

theorem mu_fold (s : Sim) (es : List ((Nat × Nat) × List Nat)) (st : PSt) (hne : ∀ e ∈ es, e.2 ≠ []) :
    (es.foldl (fun st e => execP s muBody { st with lst := e.2 }) st).data = es.foldl (multiStep s.ndx s.status) st.data ∧
    (es.foldl (fun st e => execP s muBody { st with lst := e.2 }) st).reset = st.reset := by
  induction es generalizing st with
  | nil => exact ⟨rfl, rfl⟩
  | cons e es ih =>
    rw [List.foldl_cons, List.foldl_cons]
    obtain ⟨a, b⟩ := mu_step s st e (hne e List.mem_cons_self)
    obtain ⟨c, d⟩ := ih (execP s muBody { st with lst := e.2 }) (fun x hx => hne x (List.mem_cons_of_mem _ hx))
    exact ⟨by rw [c, a], by rw [d, b]⟩

/-- **the program text of `_update_internal_graph` means `updateGraph`** (lists of parallel links are never empty: `multiOk`) -/
theorem execP_ref (s : Sim) (cur : Nat) (lst : List Nat) (hne : ∀ e ∈ s.multi, e.2 ≠ []) :
    applyP s (execP s refUpdate { data := s.g.data, cur := cur, lst := lst, reset := false }) = updateGraph s := by
  have e : refUpdate = blockP [.forChanges chBody, .forMulti muBody, .resetReference] := rfl
  rw [e]
  simp only [blockP, execP]
  obtain ⟨a, b⟩ := ch_fold s s.changed { data := s.g.data, cur := cur, lst := lst, reset := false }
  obtain ⟨c, d⟩ := mu_fold s s.multi (s.changed.foldl (fun st k => execP s chBody { st with cur := k })
    { data := s.g.data, cur := cur, lst := lst, reset := false }) hne
  unfold applyP updateGraph
  simp only [if_true]
  rw [c, a]

/-! ### `_get_isolated_junctions_and_links` -/

theorem visit_length (st : List Int × List Nat) (c : Nat) : (visit st c).1.length = st.1.length := by
  unfold visit; split
  · simp only [List.length_set]
  · rfl

theorem visit_fold_length (cs : List Nat) (st : List Int × List Nat) : (cs.foldl visit st).1.length = st.1.length := by
  induction cs generalizing st with
  | nil => rfl
  | cons c cs ih => rw [List.foldl_cons, ih, visit_length]

theorem explore_length (g : Csr) (f : Nat) (ind : List Int) (work : List Nat) : (explore g f ind work).1.length = ind.length := by
  induction f generalizing ind work with
  | zero => rfl
  | succ f ih =>
    unfold explore
    cases popMax work with
    | none => rfl
    | some p => simp only; rw [ih, visit_fold_length]

theorem checkIsolated_length (g : Csr) (srcs : List Nat) (ind : List Int) : (checkIsolated g srcs ind).length = ind.length := by
  unfold checkIsolated
  induction srcs generalizing ind with
  | nil => rfl
  | cons a l ih =>
    rw [List.foldl_cons, ih]
    unfold sourceStep
    split
    · rw [explore_length, List.length_set]
    · rfl

theorem set_self_of_getD {l : List Bool} {x : Nat} {b : Bool} (h : x < l.length → l.getD x false = b) : l.set x b = l := by
  by_cases hx : x < l.length
  · have hb := h hx
    have e : l[x] = b := by
      simp only [List.getD_eq_getElem?_getD, List.getElem?_eq_getElem hx, Option.getD_some] at hb
      exact hb
    rw [← e]; exact List.set_getElem_self hx
  · exact List.set_eq_of_length_le (Nat.le_of_not_lt hx)

theorem setAll_append (f : List Bool) (a b : List Nat) (v : Bool) : setAll f (a ++ b) v = setAll (setAll f a v) b v := by
  unfold setAll; rw [List.foldl_append]

theorem setAll_cons (f : List Bool) (x : Nat) (xs : List Nat) (v : Bool) : setAll f (x :: xs) v = setAll (f.set x v) xs v := rfl

/-- setting flags for `xs` after `acc` = setting them for the ordered-set union -/
theorem setAll_addAll (f : List Bool) (acc xs : List Nat) :
    setAll (setAll f acc true) xs true = setAll f (addAll acc xs) true := by
  induction xs generalizing acc with
  | nil => rfl
  | cons x xs ih =>
    rw [setAll_cons]
    unfold addAll
    rw [List.foldl_cons]
    by_cases hx : x ∈ acc
    · rw [if_pos hx]
      have : (setAll f acc true).set x true = setAll f acc true := by
        apply set_self_of_getD
        intro hlt
        rw [getD_setAll, if_pos ⟨hx, by rw [setAll_length] at hlt; exact hlt⟩]
      rw [this]
      exact ih acc
    · rw [if_neg hx]
      have : (setAll f acc true).set x true = setAll f (acc ++ [x]) true := by
        rw [setAll_append]; rfl
      rw [this]
      exact ih (acc ++ [x])

theorem osAdd_fold (acc xs : List Nat) : xs.foldl osAdd acc = addAll acc xs := rfl

theorem addAll_nodup (acc xs : List Nat) (hd : xs.Nodup) (hn : ∀ x ∈ xs, x ∉ acc) : addAll acc xs = acc ++ xs := by
  induction xs generalizing acc with
  | nil => simp [addAll]
  | cons x xs ih =>
    unfold addAll
    rw [List.foldl_cons, if_neg (hn x List.mem_cons_self)]
    have := ih (acc ++ [x]) (List.nodup_cons.mp hd).2 (by
      intro y hy hm
      rcases List.mem_append.mp hm with h | h
      · exact hn y (List.mem_cons_of_mem _ hy) h
      · have : y = x := List.mem_singleton.mp h
        subst this
        exact (List.nodup_cons.mp hd).1 hy)
    unfold addAll at this
    rw [this, List.append_assoc]; rfl

/-- the two clearing loops (bodies as `simp only [blockI, execI]` leaves them) -/
theorem clearJ_fold (js : List Nat) (st : ISt) :
    js.foldl (fun (st : ISt) j => { st with curJ := j, isoJ := st.isoJ.set j false }) st =
      { st with isoJ := setAll st.isoJ js false, curJ := js.getLastD st.curJ } := by
  induction js generalizing st with
  | nil => rfl
  | cons j js ih =>
    rw [List.foldl_cons, ih]
    simp only [setAll_cons, List.getLastD_cons]

theorem clearL_fold (ls : List Nat) (st : ISt) :
    ls.foldl (fun (st : ISt) l => { st with curL := l, isoL := st.isoL.set l false }) st =
      { st with isoL := setAll st.isoL ls false, curL := ls.getLastD st.curL } := by
  induction ls generalizing st with
  | nil => rfl
  | cons l ls ih =>
    rw [List.foldl_cons, ih]
    simp only [setAll_cons, List.getLastD_cons]

/-- inner loop over the links of one isolated junction -/
theorem conn_fold (s : Sim) (ls : List Nat) (st : ISt) :
    (ls.foldl (fun st l => execI s (blockI [.flagL, .addL]) { st with curL := l }) st).isoL = setAll st.isoL ls true ∧
    (ls.foldl (fun st l => execI s (blockI [.flagL, .addL]) { st with curL := l }) st).newL = addAll st.newL ls ∧
    (ls.foldl (fun st l => execI s (blockI [.flagL, .addL]) { st with curL := l }) st).isoJ = st.isoJ ∧
    (ls.foldl (fun st l => execI s (blockI [.flagL, .addL]) { st with curL := l }) st).newJ = st.newJ ∧
    (ls.foldl (fun st l => execI s (blockI [.flagL, .addL]) { st with curL := l }) st).prevJ = st.prevJ ∧
    (ls.foldl (fun st l => execI s (blockI [.flagL, .addL]) { st with curL := l }) st).prevL = st.prevL := by
  induction ls generalizing st with
  | nil => exact ⟨rfl, rfl, rfl, rfl, rfl, rfl⟩
  | cons l ls ih =>
    rw [List.foldl_cons]
    simp only [blockI, execI]
    obtain ⟨a, b, c, d, e, f⟩ := ih { st with curL := l, isoL := st.isoL.set l true, newL := osAdd st.newL l }
    exact ⟨a, b, c, d, e, f⟩

def idBody : IStmt := blockI [.flagJ, .addJ, .linksOfNode, .forConnected (blockI [.flagL, .addL])]

theorem ids_fold (s : Sim) (ids : List Nat) (st : ISt) (acc : List Nat) (f : List Bool) (hL : st.isoL = setAll f acc true)
    (hacc : st.newL = acc) :
    (ids.foldl (fun st j => execI s idBody { st with curJ := j }) st).isoJ = setAll st.isoJ ids true ∧
    (ids.foldl (fun st j => execI s idBody { st with curJ := j }) st).newJ = addAll st.newJ ids ∧
    (ids.foldl (fun st j => execI s idBody { st with curJ := j }) st).newL =
      ids.foldl (fun a j => addAll a (s.net.linksOf j)) acc ∧
    (ids.foldl (fun st j => execI s idBody { st with curJ := j }) st).isoL =
      setAll f (ids.foldl (fun a j => addAll a (s.net.linksOf j)) acc) true ∧
    (ids.foldl (fun st j => execI s idBody { st with curJ := j }) st).prevJ = st.prevJ ∧
    (ids.foldl (fun st j => execI s idBody { st with curJ := j }) st).prevL = st.prevL := by
  induction ids generalizing st acc with
  | nil => exact ⟨rfl, rfl, hacc, hL, rfl, rfl⟩
  | cons j ids ih =>
    rw [List.foldl_cons, List.foldl_cons]
    have hb : execI s idBody { st with curJ := j } =
        (s.net.linksOf j).foldl (fun st l => execI s (blockI [.flagL, .addL]) { st with curL := l })
          { st with curJ := j, isoJ := st.isoJ.set j true, newJ := osAdd st.newJ j, links := s.net.linksOf j } := by
      unfold idBody
      simp only [blockI, execI]
    obtain ⟨c1, c2, c3, c4, c5, c6⟩ := conn_fold s (s.net.linksOf j)
      { st with curJ := j, isoJ := st.isoJ.set j true, newJ := osAdd st.newJ j, links := s.net.linksOf j }
    obtain ⟨i1, i2, i3, i4, i5, i6⟩ := ih (execI s idBody { st with curJ := j }) (addAll acc (s.net.linksOf j))
      (by rw [hb, c1]; simp only; rw [hL, setAll_addAll])
      (by rw [hb, c2]; simp only; rw [hacc])
    refine ⟨?_, ?_, i3, i4, ?_, ?_⟩
    · rw [i1, hb, c3]; rfl
    · rw [i2, hb, c4]; rfl
    · rw [i5, hb, c5]
    · rw [i6, hb, c6]

theorem isolatedIds_nodup (s : Sim) : (isolatedIds s).Nodup := by
  unfold isolatedIds
  exact List.Nodup.sublist List.filter_sublist List.nodup_range

/-- **the program text of `_get_isolated_junctions_and_links` means `getIsolated`** -/
theorem execI_ref (s : Sim) : applyI s (execI s refIsolated (ISt.ofSim s)) = getIsolated s := by
  have e : refIsolated = blockI [.forPrevJ (blockI [.clearJ]), .forPrevL (blockI [.clearL]), .onesIndicator, .callSearch,
      .idsWhereOne, .newSets, .forIds idBody, .updateModel, .keepJ, .keepL, .returnCounts] := rfl
  rw [e]
  simp only [blockI, execI, ISt.ofSim]
  rw [clearJ_fold, clearL_fold]
  simp only [checkIsolated_length, List.length_replicate]
  have hids : (List.filter (fun i => (checkIsolated s.g s.net.sources (List.replicate s.net.n 1)).getD i 0 == 1)
      (List.range s.net.n)) = isolatedIds s := rfl
  rw [hids]
  obtain ⟨a, b, c, d, _, _⟩ := ids_fold s (isolatedIds s)
    { isoJ := setAll s.isoJ s.prevIsoJ false, isoL := setAll s.isoL s.prevIsoL false,
      ind := checkIsolated s.g s.net.sources (List.replicate s.net.n 1), ids := isolatedIds s, newJ := [], newL := [],
      curJ := s.prevIsoJ.getLastD 0, curL := s.prevIsoL.getLastD 0, links := [], prevJ := s.prevIsoJ, prevL := s.prevIsoL,
      handed := none } [] (setAll s.isoL s.prevIsoL false) rfl rfl
  unfold applyI getIsolated
  simp only
  rw [a, b, c, d, addAll_nodup [] (isolatedIds s) (isolatedIds_nodup s) (fun _ _ h => by cases h), List.nil_append]

/-- the model updater is handed exactly (the sets of the previous solve, the sets just computed) -/
theorem execI_ref_handed (s : Sim) :
    (execI s refIsolated (ISt.ofSim s)).handed =
      some ((s.prevIsoJ, s.prevIsoL), ((getIsolated s).prevIsoJ, (getIsolated s).prevIsoL)) := by
  have e : refIsolated = blockI [.forPrevJ (blockI [.clearJ]), .forPrevL (blockI [.clearL]), .onesIndicator, .callSearch,
      .idsWhereOne, .newSets, .forIds idBody, .updateModel, .keepJ, .keepL, .returnCounts] := rfl
  rw [e]
  simp only [blockI, execI, ISt.ofSim]
  rw [clearJ_fold, clearL_fold]
  simp only [checkIsolated_length, List.length_replicate]
  have hids : (List.filter (fun i => (checkIsolated s.g s.net.sources (List.replicate s.net.n 1)).getD i 0 == 1)
      (List.range s.net.n)) = isolatedIds s := rfl
  rw [hids]
  obtain ⟨_, b, c, _, p1, p2⟩ := ids_fold s (isolatedIds s)
    { isoJ := setAll s.isoJ s.prevIsoJ false, isoL := setAll s.isoL s.prevIsoL false,
      ind := checkIsolated s.g s.net.sources (List.replicate s.net.n 1), ids := isolatedIds s, newJ := [], newL := [],
      curJ := s.prevIsoJ.getLastD 0, curL := s.prevIsoL.getLastD 0, links := [], prevJ := s.prevIsoJ, prevL := s.prevIsoL,
      handed := none } [] (setAll s.isoL s.prevIsoL false) rfl rfl
  unfold getIsolated
  simp only
  rw [b, c, p1, p2, addAll_nodup [] (isolatedIds s) (isolatedIds_nodup s) (fun _ _ h => by cases h), List.nil_append]

end Wntr.Isolation.Prog
