/-
Lemmas for C15, C++ `Evaluator`: conditional (`IfElseConstraint`) rows.

`set_structure` flattens every conditional constraint `c` with `k` conditions into `k` consecutive entries of
`if_else_condition_rpn` / `if_else_fn_rpn` and `k` consecutive BLOCKS of `nnz(c)` programs of `if_else_jac_rpn`
(block `i` = the derivative programs of branch `i`, one per referenced variable in address order).
`evaluate` / `evaluate_csr_jacobian` walk these vectors with `condition_ndx` / `jac_ndx`; the strides
(`condition_ndx += n_conditions − i`, `jac_ndx += nnz` per failed condition, `+= (n_conditions − i − 1)·nnz` after the
selected block) make each constraint read exactly its own entries: the function program and the derivative block of the
FIRST branch whose condition evaluates to 1.
-/
import WntrModel.Model.AmlModel
import WntrModel.Lemmas.AmlCsr
import Mathlib.Data.List.Basic
import Mathlib.Tactic.Ring

namespace Wntr.Aml

/-! ### list plumbing -/

theorem getD_append_right' {β : Type} (l x : List β) (j : Nat) (d : β) :
    (l ++ x).getD (l.length + j) d = x.getD j d := by
  simp [List.getD_eq_getElem?_getD, List.getElem?_append_right]

theorem getD_drop' {β : Type} (l : List β) (n j : Nat) (d : β) : (l.drop n).getD j d = l.getD (n + j) d := by
  simp [List.getD_eq_getElem?_getD, List.getElem?_drop]

/-- blocks of equal length: the `j`-th block of a flattened list of blocks -/
theorem block_get {β : Type} (bs : List (List β)) (tail : List β) (n : Nat) (hlen : ∀ b ∈ bs, b.length = n)
    (j : Nat) (hj : j < bs.length) : ((bs.flatten ++ tail).drop (j * n)).take n = bs.getD j [] := by
  induction bs generalizing j with
  | nil => simp at hj
  | cons b r ih =>
    have hb : b.length = n := hlen b (by simp)
    cases j with
    | zero =>
      simp only [Nat.zero_mul, List.drop_zero, List.flatten_cons, List.append_assoc, List.getD_cons_zero]
      exact List.take_left' hb
    | succ j =>
      have : (j + 1) * n = b.length + j * n := by rw [hb]; ring
      rw [this, List.flatten_cons, List.append_assoc, ← List.drop_drop, List.drop_left,
        ih (fun x hx => hlen x (by simp [hx])) j (by simpa using hj)]
      simp

theorem blocks_length {β : Type} (bs : List (List β)) (n : Nat) (hlen : ∀ b ∈ bs, b.length = n) :
    bs.flatten.length = bs.length * n := by
  induction bs with
  | nil => simp
  | cons b r ih =>
    rw [List.flatten_cons, List.length_append, ih (fun x hx => hlen x (by simp [hx])), hlen b (by simp),
      List.length_cons]
    ring

theorem sums_append (b : Nat) (xs ys : List Nat) :
    sums b (xs ++ ys) = sums b xs ++ sums ((b :: sums b xs).getD xs.length 0) ys := by
  induction xs generalizing b with
  | nil => simp [sums]
  | cons x r ih => simp [sums, ih]

theorem map_getD_range {β : Type} (l : List β) (d : β) : (List.range l.length).map (fun i => l.getD i d) = l := by
  apply List.ext_getElem
  · simp
  · intro i h1 h2
    simp [List.getD_eq_getElem?_getD, List.getElem?_eq_getElem (by simpa using h2)]

/-! ### what `set_structure` appends for the conditional constraints -/

/-- the derivative programs of one conditional constraint: block `i` holds branch `i`'s program for every referenced
variable (address order) -/
def jacBlocks (c : CIfCon) : List (List (List Int)) :=
  (List.range c.condRpn.length).map fun i => c.jacRpn.map fun p => p.2.getD i []

def fnBlock (c : CIfCon) : List (List Int) :=
  (List.range c.condRpn.length).map fun i => c.fnRpn.getD i []

theorem ifConRows_struct (vars : List (CLeaf α)) (c : CIfCon) (k fuel : Nat) (s s' : Structure) (hf : fuel ≤ k)
    (h : ifConRows vars c k fuel s = some s') :
    s'.ifCondRpn = s.ifCondRpn ++ (List.range' (k - fuel) fuel).map (fun i => c.condRpn.getD i []) ∧
    s'.ifFnRpn = s.ifFnRpn ++ (List.range' (k - fuel) fuel).map (fun i => c.fnRpn.getD i []) ∧
    s'.ifJacRpn = s.ifJacRpn ++
      (List.range' (k - fuel) fuel).flatMap (fun i => c.jacRpn.map fun p => p.2.getD i []) ∧
    s'.colNdx = s.colNdx ++
      (if k - fuel = 0 ∧ 0 < fuel then c.jacRpn.map (fun p => varIndex vars p.1) else []) ∧
    s'.leaves = s.leaves ∧ s'.rowNnz = s.rowNnz ∧ s'.nConditions = s.nConditions ∧ s'.fnRpn = s.fnRpn ∧
    s'.jacRpn = s.jacRpn := by
  induction fuel generalizing s with
  | zero =>
    simp only [ifConRows, Option.some.injEq] at h; subst h
    simp
  | succ f ih =>
    simp only [ifConRows] at h
    split at h
    · obtain ⟨h1, h2, h3, h4, h5, h6, h7, h8, h9⟩ := ih _ (by omega) h
      have hk : k - f = (k - (f + 1)) + 1 := by omega
      simp only at h1 h2 h3 h4 h5 h6 h7 h8 h9
      refine ⟨?_, ?_, ?_, ?_, h5, h6, h7, h8, h9⟩
      · rw [h1, hk, List.range'_succ, List.map_cons, List.append_assoc]; rfl
      · rw [h2, hk, List.range'_succ, List.map_cons, List.append_assoc]; rfl
      · rw [h3, hk, List.range'_succ, List.flatMap_cons, List.append_assoc]
      · rw [h4]
        by_cases h0 : k - (f + 1) = 0
        · have : ¬ (k - f = 0 ∧ 0 < f) := by omega
          simp [h0, this]
        · have : ¬ (k - f = 0 ∧ 0 < f) := by omega
          simp [h0, this]
    · cases h

/-- closed form of `structIfCons` (every constraint has at least one condition) -/
theorem structIfCons_struct (vars : List (CLeaf α)) (cs cs' : List CIfCon) (ndx : Nat) (s s' : Structure)
    (hlen : s.rowNnz.length = ndx + 1) (hk : ∀ c ∈ cs, 0 < c.condRpn.length)
    (h : structIfCons vars cs ndx s = some (cs', s')) :
    s'.nConditions = s.nConditions ++ cs.map (·.condRpn.length) ∧
    s'.leaves = s.leaves ++ cs.map (·.leaves) ∧
    s'.rowNnz = s.rowNnz ++ sums (s.rowNnz.getD ndx 0) (cs.map (·.jacRpn.length)) ∧
    s'.colNdx = s.colNdx ++ cs.flatMap (fun c => c.jacRpn.map fun p => varIndex vars p.1) ∧
    s'.ifCondRpn = s.ifCondRpn ++ cs.flatMap (·.condRpn) ∧
    s'.ifFnRpn = s.ifFnRpn ++ cs.flatMap fnBlock ∧
    s'.ifJacRpn = s.ifJacRpn ++ cs.flatMap (fun c => (jacBlocks c).flatten) ∧
    s'.fnRpn = s.fnRpn ∧ s'.jacRpn = s.jacRpn := by
  induction cs generalizing ndx s cs' s' with
  | nil =>
    simp only [structIfCons, Option.some.injEq, Prod.mk.injEq] at h
    obtain ⟨_, rfl⟩ := h
    simp [sums]
  | cons c r ih =>
    simp only [structIfCons] at h
    split at h
    · cases h
    · rename_i s2 hrows
      split at h
      · cases h
      · rename_i r' s3 hrec
        simp only [Option.some.injEq, Prod.mk.injEq] at h
        obtain ⟨_, rfl⟩ := h
        have hpos := hk c (by simp)
        obtain ⟨a1, a2, a3, a4, a5, a6, a7, a8, a9⟩ :=
          ifConRows_struct vars c c.condRpn.length c.condRpn.length _ s2 (le_refl _) hrows
        simp only [Nat.sub_self] at a1 a2 a3 a4 a5 a6 a7 a8 a9
        have hlast : (s.rowNnz ++ [s.rowNnz.getD ndx 0 + c.jacRpn.length]).getD (ndx + 1) 0 =
            s.rowNnz.getD ndx 0 + c.jacRpn.length := by
          rw [List.getD_eq_getElem?_getD, List.getElem?_append_right (by omega)]
          simp [hlen]
        obtain ⟨b1, b2, b3, b4, b5, b6, b7, b8, b9⟩ := ih _ (ndx + 1) s2 _
          (by rw [a6]; simp [hlen]) (fun x hx => hk x (by simp [hx])) hrec
        rw [a6, hlast] at b3
        have hrange : List.range' 0 c.condRpn.length = List.range c.condRpn.length := by
          rw [List.range_eq_range']
        refine ⟨?_, ?_, ?_, ?_, ?_, ?_, ?_, ?_, ?_⟩
        · rw [b1, a7]; simp
        · rw [b2, a5]; simp
        · rw [b3]; simp [sums]
        · rw [b4, a4]; simp [hpos]
        · rw [b5, a1, hrange, map_getD_range]; simp
        · rw [b6, a2, hrange]; simp [fnBlock]
        · rw [b7, a3, hrange]; simp [jacBlocks, List.flatMap]
        · rw [b8, a8]
        · rw [b9, a9]


/-! ### the `while (!found)` loop -/

section Walk
variable {α : Type} (O : Ops α) (I : InfVals α)

/-- index of the first condition that holds (an empty program counts as true, as in the C++); `none` when a program
fails or no condition holds -/
def firstTrue (vals : Nat → α) : List (List Int) → Option Nat
  | [] => none
  | r :: rs =>
    if r.isEmpty then some 0 else
      match evalRpn O vals r with
      | none => none
      | some v => if O.isOne v then some 0 else (firstTrue vals rs).map (· + 1)

theorem firstTrue_lt (vals : Nat → α) (rs : List (List Int)) (j : Nat) (h : firstTrue O vals rs = some j) :
    j < rs.length := by
  induction rs generalizing j with
  | nil => simp [firstTrue] at h
  | cons r rest ih =>
    simp only [firstTrue] at h
    split at h
    · simp only [Option.some.injEq] at h; subst h; simp
    · split at h
      · cases h
      · split at h
        · simp only [Option.some.injEq] at h; subst h; simp
        · simp only [Option.map_eq_some_iff] at h
          obtain ⟨j', hj', rfl⟩ := h
          have := ih j' hj'
          simp; omega

/-- the loop finds the first true condition of the constraint's own block and leaves `condition_ndx` at the end of the
block -/
theorem findBranch_spec (vals : Nat → α) (G : List (List Int)) (nCond : Nat) (rs : List (List Int))
    (condNdx i : Nat) (tail : List (List Int)) (hG : G.drop condNdx = rs ++ tail) (hn : nCond - i = rs.length)
    (j : Nat) (hj : firstTrue O vals rs = some j) :
    findBranch O vals G nCond (rs.length + 1) condNdx i = some (condNdx + j, condNdx + rs.length) := by
  induction rs generalizing condNdx i j with
  | nil => simp [firstTrue] at hj
  | cons r rest ih =>
    have hr : G.getD condNdx [] = r := by
      have := getD_drop' G condNdx 0 ([] : List Int)
      rw [hG] at this
      simpa using this.symm
    have hn' : nCond - i = rest.length + 1 := by simpa using hn
    rw [show (r :: rest).length + 1 = (rest.length + 1) + 1 from rfl, findBranch]
    simp only [hr]
    simp only [firstTrue] at hj
    by_cases he : r.isEmpty = true
    · simp only [he, if_true, Option.some.injEq] at hj ⊢
      subst hj
      simp [hn']
    · simp only [he, Bool.false_eq_true, if_false] at hj ⊢
      cases hv : evalRpn O vals r with
      | none => simp [hv] at hj
      | some x =>
        simp only [hv, Option.map_some] at hj ⊢
        by_cases h1 : O.isOne x = true
        · simp only [h1, if_true, Option.some.injEq] at hj ⊢
          subst hj
          simp [hn']
        · simp only [h1, Bool.false_eq_true, if_false, Option.map_eq_some_iff] at hj
          obtain ⟨j', hj', rfl⟩ := hj
          have hb : O.isOne x = false := by simpa using h1
          simp only [hb]
          have hG' : G.drop (condNdx + 1) = rest ++ tail := by
            rw [← List.drop_drop, hG]; simp
          have := ih (condNdx + 1) (i + 1) hG' (by omega) j' hj'
          rw [this]
          simp only [List.length_cons, Option.some.injEq, Prod.mk.injEq]
          constructor <;> omega

/-- residual of one conditional constraint: the function program of the first true branch -/
def ifRowRes (e : Evaluator α) (c : CIfCon) : Option α := do
  let j ← firstTrue O (leafValues O I e c.leaves) c.condRpn
  evalRpn O (leafValues O I e c.leaves) (c.fnRpn.getD j [])

/-- CSR values of one conditional constraint: the derivative programs of the first true branch, one per referenced
variable in address order -/
def ifRowJac (e : Evaluator α) (c : CIfCon) : Option (List α) := do
  let j ← firstTrue O (leafValues O I e c.leaves) c.condRpn
  evalRpnList O (leafValues O I e c.leaves) (c.jacRpn.map fun p => p.2.getD j [])

def ifJacRowsOf (e : Evaluator α) : List CIfCon → Option (List α)
  | [] => some []
  | c :: r => do
    let row ← ifRowJac O I e c
    let rest ← ifJacRowsOf e r
    pure (row ++ rest)

theorem evalIfRows_spec (e : Evaluator α) (cs : List CIfCon) (conNdx condNdx : Nat) (tc tf : List (List Int))
    (hleaves : ∀ j, j < cs.length → e.st.leaves.getD (conNdx + j) [] = (cs.map (·.leaves)).getD j [])
    (hcond : e.st.ifCondRpn.drop condNdx = cs.flatMap (·.condRpn) ++ tc)
    (hfn : e.st.ifFnRpn.drop condNdx = cs.flatMap fnBlock ++ tf)
    (hsel : ∀ c ∈ cs, (firstTrue O (leafValues O I e c.leaves) c.condRpn).isSome = true) :
    evalIfRows O I e (cs.map (·.condRpn.length)) conNdx condNdx = seqOpt (cs.map (ifRowRes O I e)) := by
  induction cs generalizing conNdx condNdx with
  | nil => rfl
  | cons c r ih =>
    have h0 := hleaves 0 (by simp)
    simp only [Nat.add_zero, List.map_cons, List.getD_cons_zero] at h0
    obtain ⟨j, hj⟩ := Option.isSome_iff_exists.mp (hsel c (by simp))
    have hjlt := firstTrue_lt O _ _ j hj
    have hfb := findBranch_spec O (leafValues O I e c.leaves) e.st.ifCondRpn c.condRpn.length c.condRpn condNdx 0
      (r.flatMap (·.condRpn) ++ tc) (by rw [hcond, List.flatMap_cons, List.append_assoc]) (by simp) j hj
    have hfnj : e.st.ifFnRpn.getD (condNdx + j) [] = c.fnRpn.getD j [] := by
      rw [← getD_drop', hfn, List.flatMap_cons, List.append_assoc,
        getD_append_left' _ _ _ _ (by simpa [fnBlock] using hjlt)]
      simp [fnBlock, List.getD_eq_getElem?_getD, hjlt]
    have hr : ∀ q, q < r.length → e.st.leaves.getD (conNdx + 1 + q) [] = (r.map (·.leaves)).getD q [] := by
      intro q hq
      have := hleaves (q + 1) (by simp; omega)
      simpa [Nat.add_assoc, Nat.add_comm 1 q] using this
    have hcond' : e.st.ifCondRpn.drop (condNdx + c.condRpn.length) = r.flatMap (·.condRpn) ++ tc := by
      rw [← List.drop_drop, hcond, List.flatMap_cons, List.append_assoc]; simp
    have hfn' : e.st.ifFnRpn.drop (condNdx + c.condRpn.length) = r.flatMap fnBlock ++ tf := by
      rw [← List.drop_drop, hfn, List.flatMap_cons, List.append_assoc]
      exact List.drop_left' (by simp [fnBlock])
    simp only [List.map_cons, evalIfRows, h0, hfb, seqOpt, ifRowRes, hj, hfnj, bind, Option.bind_some]
    rw [ih (conNdx + 1) (condNdx + c.condRpn.length) hr hcond' hfn' (fun x hx => hsel x (by simp [hx]))]

theorem jacIfRows_spec (e : Evaluator α) (cs : List CIfCon) (conNdx condNdx jacNdx : Nat)
    (tc : List (List Int)) (tj : List (List Int))
    (hleaves : ∀ j, j < cs.length → e.st.leaves.getD (conNdx + j) [] = (cs.map (·.leaves)).getD j [])
    (hnnz : ∀ j, j < cs.length →
      e.st.rowNnz.getD (conNdx + j + 1) 0 - e.st.rowNnz.getD (conNdx + j) 0 = (cs.map (·.jacRpn.length)).getD j 0)
    (hcond : e.st.ifCondRpn.drop condNdx = cs.flatMap (·.condRpn) ++ tc)
    (hjac : e.st.ifJacRpn.drop jacNdx = cs.flatMap (fun c => (jacBlocks c).flatten) ++ tj)
    (hsel : ∀ c ∈ cs, (firstTrue O (leafValues O I e c.leaves) c.condRpn).isSome = true) :
    jacIfRows O I e (cs.map (·.condRpn.length)) conNdx condNdx jacNdx = ifJacRowsOf O I e cs := by
  induction cs generalizing conNdx condNdx jacNdx with
  | nil => rfl
  | cons c r ih =>
    have h0 := hleaves 0 (by simp)
    have n0 := hnnz 0 (by simp)
    simp only [Nat.add_zero, List.map_cons, List.getD_cons_zero] at h0 n0
    obtain ⟨j, hj⟩ := Option.isSome_iff_exists.mp (hsel c (by simp))
    have hjlt := firstTrue_lt O _ _ j hj
    have hfb := findBranch_spec O (leafValues O I e c.leaves) e.st.ifCondRpn c.condRpn.length c.condRpn condNdx 0
      (r.flatMap (·.condRpn) ++ tc) (by rw [hcond, List.flatMap_cons, List.append_assoc]) (by simp) j hj
    have hblen : ∀ b ∈ jacBlocks c, b.length = c.jacRpn.length := by
      intro b hb
      simp only [jacBlocks, List.mem_map] at hb
      obtain ⟨_, _, rfl⟩ := hb
      simp
    have hnb : (jacBlocks c).length = c.condRpn.length := by simp [jacBlocks]
    have hblock : (e.st.ifJacRpn.drop (jacNdx + j * c.jacRpn.length)).take c.jacRpn.length =
        c.jacRpn.map fun p => p.2.getD j [] := by
      rw [← List.drop_drop, hjac, List.flatMap_cons, List.append_assoc,
        block_get (jacBlocks c) _ c.jacRpn.length hblen j (by rw [hnb]; exact hjlt)]
      simp [jacBlocks, List.getD_eq_getElem?_getD, hjlt]
    have hnext : jacNdx + j * c.jacRpn.length + c.jacRpn.length + (c.condRpn.length - j - 1) * c.jacRpn.length =
        jacNdx + (jacBlocks c).flatten.length := by
      rw [blocks_length _ _ hblen, hnb]
      obtain ⟨m, hm⟩ : ∃ m, c.condRpn.length = j + 1 + m := ⟨c.condRpn.length - j - 1, by omega⟩
      rw [hm]
      have : j + 1 + m - j - 1 = m := by omega
      rw [this]; ring
    have hr : ∀ q, q < r.length → e.st.leaves.getD (conNdx + 1 + q) [] = (r.map (·.leaves)).getD q [] := by
      intro q hq
      have := hleaves (q + 1) (by simp; omega)
      simpa [Nat.add_assoc, Nat.add_comm 1 q] using this
    have hn : ∀ q, q < r.length → e.st.rowNnz.getD (conNdx + 1 + q + 1) 0 - e.st.rowNnz.getD (conNdx + 1 + q) 0 =
        (r.map (·.jacRpn.length)).getD q 0 := by
      intro q hq
      have := hnnz (q + 1) (by simp; omega)
      simpa [Nat.add_assoc, Nat.add_comm 1 q] using this
    have hcond' : e.st.ifCondRpn.drop (condNdx + c.condRpn.length) = r.flatMap (·.condRpn) ++ tc := by
      rw [← List.drop_drop, hcond, List.flatMap_cons, List.append_assoc]; simp
    have hjac' : e.st.ifJacRpn.drop (jacNdx + (jacBlocks c).flatten.length) =
        r.flatMap (fun c => (jacBlocks c).flatten) ++ tj := by
      rw [← List.drop_drop, hjac, List.flatMap_cons, List.append_assoc]; simp
    simp only [List.map_cons, jacIfRows, n0, h0, hfb, Nat.add_sub_cancel_left, hblock, hnext, ifJacRowsOf, ifRowJac, hj,
      bind, Option.bind_some]
    rw [ih (conNdx + 1) (condNdx + c.condRpn.length) (jacNdx + (jacBlocks c).flatten.length) hr hn hcond' hjac'
      (fun x hx => hsel x (by simp [hx]))]

end Walk


/-! ### `set_structure` followed by `evaluate` / `evaluate_csr_jacobian`, conditional constraints -/

/-- **After `set_structure`, for every conditional constraint (numbered after the plain ones, in address order): the
residual entry is the function program of the FIRST branch whose condition evaluates to 1, run on the constraint's own
leaves; the CSR row consists of that branch's derivative programs, one per referenced variable in address order, with
`col_ndx` those variables' `index` and `row_nnz` the prefix sums over ALL constraints.** Hypotheses: every conditional
constraint has at least one condition and some condition holds (true of registered constraints: the last condition is
`Float(1)`); otherwise the C++ loop runs past the constraint's block (undefined behaviour). -/
theorem setStructure_if_rows {α : Type} (O : Ops α) (I : InfVals α) (e e' : Evaluator α)
    (h : e.setStructure = some e') (hk : ∀ c ∈ e.ifCons, 0 < c.condRpn.length)
    (hsel : ∀ c ∈ e.ifCons, (firstTrue O (leafValues O I e' c.leaves) c.condRpn).isSome = true) :
    evalIfRows O I e' e'.st.nConditions e'.cons.length 0 = seqOpt (e.ifCons.map (ifRowRes O I e')) ∧
    jacIfRows O I e' e'.st.nConditions e'.cons.length 0 0 = ifJacRowsOf O I e' e.ifCons ∧
    e'.st.colNdx = e.cons.flatMap (fun c => c.jacRpn.map fun p => varIndex e'.vars p.1) ++
      e.ifCons.flatMap (fun c => c.jacRpn.map fun p => varIndex e'.vars p.1) ∧
    e'.st.rowNnz = 0 :: sums 0 (e.cons.map (·.jacRpn.length) ++ e.ifCons.map (·.jacRpn.length)) := by
  have hlenc : e'.cons.length = e.cons.length := by
    have := (setStructure_indices e e' h).2.2.2.2.1
    simpa using congrArg List.length this
  unfold Evaluator.setStructure at h
  simp only at h
  split at h
  · cases h
  · rename_i ifCons s2 hif
    simp only [Option.some.injEq] at h
    obtain ⟨c1, c2, c3, c4, c5, c6, c7, c8, c9, _⟩ := structCons_struct (numberVars e.vars 0) e.cons 0
      { varVector := (numberVars e.vars 0).map (·.addr) } rfl
    have hndx := (structCons_index (numberVars e.vars 0) e.cons 0
      { varVector := (numberVars e.vars 0).map (·.addr) }).2.2
    rw [hndx, Nat.zero_add] at hif
    have c3' : (structCons (numberVars e.vars 0) e.cons 0
        { varVector := (numberVars e.vars 0).map (·.addr) }).2.2.rowNnz =
        0 :: sums 0 (e.cons.map (·.jacRpn.length)) := by rw [c3]; rfl
    obtain ⟨d1, d2, d3, d4, d5, d6, d7, _, _⟩ := structIfCons_struct _ e.ifCons ifCons e.cons.length _ s2
      (by rw [c3']; simp [sums_length]) hk hif
    simp only [List.nil_append] at c1 c4
    rw [c6] at d1; rw [c1] at d2; rw [c3'] at d3; rw [c4] at d4; rw [c7] at d5; rw [c8] at d6; rw [c9] at d7
    simp only [List.nil_append] at d1 d5 d6 d7
    have hnc : e'.st.nConditions = e.ifCons.map (·.condRpn.length) := by rw [← h]; exact d1
    have hleaves : e'.st.leaves = e.cons.map (·.leaves) ++ e.ifCons.map (·.leaves) := by rw [← h]; exact d2
    have hrow : e'.st.rowNnz = 0 :: sums 0 (e.cons.map (·.jacRpn.length) ++ e.ifCons.map (·.jacRpn.length)) := by
      rw [← h]; simp only; rw [d3, sums_append]; simp
    have hcol : e'.st.colNdx = e.cons.flatMap (fun c => c.jacRpn.map fun p => varIndex e'.vars p.1) ++
        e.ifCons.flatMap (fun c => c.jacRpn.map fun p => varIndex e'.vars p.1) := by rw [← h]; exact d4
    have hcond : e'.st.ifCondRpn = e.ifCons.flatMap (·.condRpn) := by rw [← h]; exact d5
    have hfn : e'.st.ifFnRpn = e.ifCons.flatMap fnBlock := by rw [← h]; exact d6
    have hjac : e'.st.ifJacRpn = e.ifCons.flatMap (fun c => (jacBlocks c).flatten) := by rw [← h]; exact d7
    have hl : ∀ j, j < e.ifCons.length →
        e'.st.leaves.getD (e.cons.length + j) [] = (e.ifCons.map (·.leaves)).getD j [] := by
      intro j _
      rw [hleaves]
      have := getD_append_right' (e.cons.map (·.leaves)) (e.ifCons.map (·.leaves)) j ([] : List LeafRef)
      simpa using this
    have hn : ∀ j, j < e.ifCons.length →
        e'.st.rowNnz.getD (e.cons.length + j + 1) 0 - e'.st.rowNnz.getD (e.cons.length + j) 0 =
          (e.ifCons.map (·.jacRpn.length)).getD j 0 := by
      intro j hj
      rw [hrow, sums_diff 0 _ (e.cons.length + j) (by simp; omega)]
      have := getD_append_right' (e.cons.map (·.jacRpn.length)) (e.ifCons.map (·.jacRpn.length)) j 0
      simpa using this
    refine ⟨?_, ?_, hcol, hrow⟩
    · rw [hnc, hlenc]
      exact evalIfRows_spec O I e' e.ifCons e.cons.length 0 [] [] hl (by rw [hcond]; simp) (by rw [hfn]; simp) hsel
    · rw [hnc, hlenc]
      exact jacIfRows_spec O I e' e.ifCons e.cons.length 0 0 [] [] hl hn (by rw [hcond]; simp) (by rw [hjac]; simp)
        hsel


/-! ### what `firstTrue` returns -/

section First
variable {α : Type} (O : Ops α)

/-- a condition program "holds": empty, or it evaluates to a value that `== 1` -/
def condHolds (vals : Nat → α) (r : List Int) : Prop := r.isEmpty = true ∨ ∃ v, evalRpn O vals r = some v ∧ O.isOne v = true

/-- a condition program evaluates and does not hold -/
def condFails (vals : Nat → α) (r : List Int) : Prop := r.isEmpty = false ∧ ∃ v, evalRpn O vals r = some v ∧ O.isOne v = false

/-- `firstTrue = some j` iff condition `j` holds and every earlier condition evaluates and fails -/
theorem firstTrue_spec (vals : Nat → α) (rs : List (List Int)) (j : Nat) (h : firstTrue O vals rs = some j) :
    condHolds O vals (rs.getD j []) ∧ ∀ i, i < j → condFails O vals (rs.getD i []) := by
  induction rs generalizing j with
  | nil => simp [firstTrue] at h
  | cons r rest ih =>
    simp only [firstTrue] at h
    by_cases he : r.isEmpty = true
    · simp only [he, if_true, Option.some.injEq] at h; subst h
      exact ⟨Or.inl (by simpa using he), fun i hi => absurd hi (by omega)⟩
    · simp only [he, Bool.false_eq_true, if_false] at h
      cases hv : evalRpn O vals r with
      | none => simp [hv] at h
      | some x =>
        simp only [hv] at h
        by_cases h1 : O.isOne x = true
        · simp only [h1, if_true, Option.some.injEq] at h; subst h
          exact ⟨Or.inr ⟨x, by simpa using hv, h1⟩, fun i hi => absurd hi (by omega)⟩
        · simp only [h1, Bool.false_eq_true, if_false, Option.map_eq_some_iff] at h
          obtain ⟨j', hj', rfl⟩ := h
          obtain ⟨a, b⟩ := ih j' hj'
          refine ⟨by simpa using a, ?_⟩
          intro i hi
          cases i with
          | zero => exact ⟨by simpa using he, x, by simpa using hv, by simpa using h1⟩
          | succ i' => simpa using b i' (by omega)

/-- when every condition evaluates and the LAST one holds (`Float(1)`), some branch is selected -/
theorem firstTrue_isSome (vals : Nat → α) (rs : List (List Int))
    (hall : ∀ r ∈ rs, r.isEmpty = true ∨ ∃ v, evalRpn O vals r = some v)
    (r : List Int) (hlast : rs.getLast? = some r) (hr : condHolds O vals r) :
    (firstTrue O vals rs).isSome = true := by
  induction rs with
  | nil => simp at hlast
  | cons a rest ih =>
    simp only [firstTrue]
    by_cases he : a.isEmpty = true
    · simp [he]
    · simp only [he, Bool.false_eq_true, if_false]
      rcases hall a (by simp) with h | ⟨v, hv⟩
      · exact absurd h he
      · simp only [hv]
        by_cases h1 : O.isOne v = true
        · simp [h1]
        · simp only [h1, Bool.false_eq_true, if_false, Option.isSome_map]
          cases rest with
          | nil =>
            simp only [List.getLast?_singleton, Option.some.injEq] at hlast
            subst hlast
            rcases hr with h | ⟨w, hw, hw1⟩
            · exact absurd h he
            · rw [hv] at hw; cases hw; exact absurd hw1 h1
          | cons b rest' =>
            exact ih (fun x hx => hall x (by simp [hx])) (by simpa [List.getLast?_cons_cons] using hlast)

end First


/-! ### no hidden memory: the evaluations are functions of the frozen structure and the CURRENT leaf values -/

section NoMemory
variable {α : Type} (O : Ops α) (I : InfVals α)

theorem jacPlainRows_congr (e1 e2 : Evaluator α) (hst : e1.st = e2.st)
    (hv : leafValues O I e1 = leafValues O I e2) (fuel conNdx nnzNdx : Nat) :
    jacPlainRows O I e1 fuel conNdx nnzNdx = jacPlainRows O I e2 fuel conNdx nnzNdx := by
  induction fuel generalizing conNdx nnzNdx with
  | zero => rfl
  | succ f ih => simp only [jacPlainRows, hst, hv, ih]

theorem jacIfRows_congr (e1 e2 : Evaluator α) (hst : e1.st = e2.st)
    (hv : leafValues O I e1 = leafValues O I e2) (ks : List Nat) (conNdx condNdx jacNdx : Nat) :
    jacIfRows O I e1 ks conNdx condNdx jacNdx = jacIfRows O I e2 ks conNdx condNdx jacNdx := by
  induction ks generalizing conNdx condNdx jacNdx with
  | nil => rfl
  | cons k r ih => simp only [jacIfRows, hst, hv, ih]

theorem evalPlainRows_congr (e1 e2 : Evaluator α) (hst : e1.st = e2.st)
    (hv : leafValues O I e1 = leafValues O I e2) (rs : List (List Int)) (conNdx : Nat) :
    evalPlainRows O I e1 rs conNdx = evalPlainRows O I e2 rs conNdx := by
  induction rs generalizing conNdx with
  | nil => rfl
  | cons r t ih => simp only [evalPlainRows, hst, hv, ih]

theorem evalIfRows_congr (e1 e2 : Evaluator α) (hst : e1.st = e2.st)
    (hv : leafValues O I e1 = leafValues O I e2) (ks : List Nat) (conNdx condNdx : Nat) :
    evalIfRows O I e1 ks conNdx condNdx = evalIfRows O I e2 ks conNdx condNdx := by
  induction ks generalizing conNdx condNdx with
  | nil => rfl
  | cons k r ih => simp only [evalIfRows, hst, hv, ih]

/-- two evaluator states with the same frozen structure, the same number of plain constraints and the same current leaf
values give the same Jacobian and the same residuals — whatever was evaluated before -/
theorem evaluate_no_memory (e1 e2 : Evaluator α) (hst : e1.st = e2.st) (hss : e1.structureSet = e2.structureSet)
    (hn : e1.cons.length = e2.cons.length) (hv : leafValues O I e1 = leafValues O I e2) :
    e1.evaluateCsr O I = e2.evaluateCsr O I ∧ e1.evaluate O I = e2.evaluate O I := by
  constructor
  · simp only [Evaluator.evaluateCsr, hss, hn, hst, jacPlainRows_congr O I e1 e2 hst hv,
      jacIfRows_congr O I e1 e2 hst hv]
  · simp only [Evaluator.evaluate, hss, hn, hst, evalPlainRows_congr O I e1 e2 hst hv,
      evalIfRows_congr O I e1 e2 hst hv]

end NoMemory

end Wntr.Aml
