/-
The skeletons REGENERATED from the Python source (Gen/TankShape.lean), interpreted (Model/TankShape.lean), ARE the hand-written
models: `update_tank_heads` = `Tank.updateHead`, `_interp_extrapolate` = `Tank.interpX`, `Tank.get_volume` = `Tank.getVolume`,
`_run_postsolve_controls` = `Controls.runPass`; and the table of `_internal_status` writers.
-/
import WntrModel.Model.TankShape
import WntrModel.Gen.TankShape
import Mathlib.Tactic.Ring
import Mathlib.Tactic.Linarith
import Mathlib.Tactic.FieldSimp
import Mathlib.Algebra.Order.Field.Rat
namespace Wntr.TankShape
open Wntr.Tank Wntr.Controls

/-- the attributes `update_tank_heads` reads; `tank.level` is `head − elevation` -/
def updEnv (pi : Rat) (t : Tank) (prev head demand simT prevT : Rat) : Env := fun v =>
  match v with
  | .simTime => simT | .prevSimTime => prevT | .demand => demand | .diameter => t.diam | .mathPi => pi
  | .head => head | .prevHead => prev | .tankLevel => head - t.elev | .elevation => t.elev | _ => 0

/-- `update_shape_is_model`: the regenerated body of `update_tank_heads` computes `Tank.updateHead` (extrapolating lookup, the code
as it is since 53f21792) — for every tank, head history, demand and pair of times -/
theorem update_shape_is_model (pi : Rat) (t : Tank) (hx : t.extrap = true) (prev head demand simT prevT : Rat) :
    (Gen.updateShape.run t [] .level (updEnv pi t prev head demand simT prevT)) .newHead
      = updateHead pi t prev head demand (simT - prevT) := by
  cases hc : t.curve with
  | none =>
    simp [Gen.updateShape, sblock, S.run, E.eval, C.eval, Env.set, updEnv, updateHead, hc]
  | some c =>
    by_cases hh : head = prev
    · subst hh
      simp [Gen.updateShape, sblock, S.run, E.eval, C.eval, Env.set, updEnv, updateHead, curLevel, level, hc, hx, cinterp]
    · have hb : (head == prev) = false := by simpa using hh
      simp [Gen.updateShape, sblock, S.run, E.eval, C.eval, Env.set, updEnv, updateHead, curLevel, level, hc, hx, cinterp, hb]

@[simp] theorem Env.set_same (env : Env) (v : N) (q : Rat) : (env.set v q) v = q := by simp [Env.set]

@[simp] theorem Env.set_ne (env : Env) (v w : N) (q : Rat) (h : w ≠ v) : (env.set v q) w = env w := by simp [Env.set, h]

theorem lastPair_eq (x0 y0 : Rat) (rest : List (Rat × Rat)) : lastPair (x0, y0) rest = (lastX x0 rest, lastY y0 rest) := by
  induction rest generalizing x0 y0 with
  | nil => rfl
  | cons p r ih => obtain ⟨x1, y1⟩ := p; simpa [lastPair, lastX, lastY] using ih x1 y1

theorem slopeLast_eq (x0 y0 : Rat) (rest : List (Rat × Rat)) (hne : rest ≠ []) :
    slopeLastFrom x0 y0 rest
      = (lastY y0 rest - (secondLastPair (x0, y0) rest).2) / (lastX x0 rest - (secondLastPair (x0, y0) rest).1) := by
  induction rest generalizing x0 y0 with
  | nil => exact absurd rfl hne
  | cons p r ih =>
    obtain ⟨x1, y1⟩ := p
    cases r with
    | nil => simp [slopeLastFrom, secondLastPair, lastX, lastY]
    | cons q r2 =>
      have := ih x1 y1 (by simp)
      simpa [slopeLastFrom, secondLastPair, lastX, lastY] using this

/-- `interp_extrap_shape_is_model`: the regenerated `_interp_extrapolate` is `Tank.interpX` on curves with at least two points
and plain `np.interp` on a single point -/
theorem interp_extrap_shape_is_model (t : Tank) (x0 y0 : Rat) (rest : List (Rat × Rat)) (x : Rat) (env : Env) (hxv : env .x = x) :
    (Gen.interpExtrapShape.run t ((x0, y0) :: rest) .level env) .y = interpX x ((x0, y0) :: rest) := by
  cases rest with
  | nil =>
    simp [Gen.interpExtrapShape, sblock, S.run, E.eval, C.eval, Env.set, hxv, interpX, slopeFirst, slopeLastFrom]
  | cons p r =>
    obtain ⟨x1, y1⟩ := p
    have hs := slopeLast_eq x0 y0 ((x1, y1) :: r) (by simp)
    have hl := lastPair_eq x0 y0 ((x1, y1) :: r)
    simp [Gen.interpExtrapShape, sblock, S.run, E.eval, C.eval, hxv, interpX, slopeFirst, ixGet, hl, hs]
    split_ifs <;> ring

/-- `get_volume_shape_is_model` -/
theorem get_volume_shape_is_model (pi : Rat) (t : Tank) (hx : t.extrap = true) (lvl : Rat) (env : Env)
    (h1 : env .level = lvl) (h2 : env .mathPi = pi) (h3 : env .diameter = t.diam) :
    (Gen.getVolumeShape.run t [] .level env) .vol = getVolume pi t lvl := by
  cases hc : t.curve with
  | none => simp [Gen.getVolumeShape, sblock, S.run, E.eval, C.eval, Env.set, getVolume, area, hc, h1, h2, h3]
  | some c => simp [Gen.getVolumeShape, sblock, S.run, E.eval, C.eval, Env.set, getVolume, hc, hx, cinterp, h1]

/-- what the backtrack block of `TankLevelCondition.evaluate` reads -/
def evEnv (pi : Rat) (t : Tank) (cur thr q : Rat) : Env := fun v =>
  match v with
  | .curValue => cur | .threshValue => thr | .mathPi => pi | .diameter => t.diam | .demand => q | .elevation => t.elev | _ => 0

/-- `backtrack_shape_is_model`: at a crossing with a usable demand, the regenerated backtrack block of
`TankLevelCondition.evaluate` raises exactly when `Tank.evalLevel` does (pressure condition on a volume-curve tank) and otherwise
leaves `_backtrack` = `Tank.evalLevel`'s: floor (not ceil, not truncation), the sign of `cur − thr`, division by the stored demand,
area from the diameter, `get_volume` at LEVELS (head thresholds reduced by the elevation) -/
theorem backtrack_shape_is_model (pi : Rat) (t : Tank) (hx : t.extrap = true) (c : LevelCond) (head q last : Rat) (hq : q ≠ 0)
    (h1 : (foldRel c.rel).holds (attrValue t head c.attr) c.thr = true) (h2 : (foldRel c.rel).holds last c.thr = false) :
    ((evalLevel pi t c head (some q) last).raised = ((Gen.backtrackShape.run t [] c.attr (evEnv pi t (attrValue t head c.attr) c.thr q)) .raised == 1))
    ∧ ((evalLevel pi t c head (some q) last).raised = false →
        (Gen.backtrackShape.run t [] c.attr (evEnv pi t (attrValue t head c.attr) c.thr q)) .backtrack
          = ((evalLevel pi t c head (some q) last).back : Rat)) := by
  have hq' : (q == 0) = false := by simpa using hq
  cases hc : t.curve with
  | none =>
    simp [Gen.backtrackShape, sblock, S.run, E.eval, C.eval, evEnv, evalLevel, h1, h2, hc, hq']
  | some crv =>
    cases ha : c.attr with
    | pressure =>
      rw [ha] at h1
      simp [Gen.backtrackShape, sblock, S.run, E.eval, C.eval, evEnv, evalLevel, h1, h2, hc, hq', ha]
    | head =>
      rw [ha] at h1
      simp only [attrValue] at h1
      simp [Gen.backtrackShape, sblock, S.run, E.eval, C.eval, evEnv, evalLevel, h1, h2, hc, hq', ha, getVolume, hx, attrValue]
    | level =>
      rw [ha] at h1
      simp only [attrValue] at h1
      simp [Gen.backtrackShape, sblock, S.run, E.eval, C.eval, evEnv, evalLevel, h1, h2, hc, hq', ha, getVolume, hx, attrValue]

/-- `postsolve_shape_is_model`: check, stable ascending priority sort, run every triggered control — `Controls.runPass` -/
theorem postsolve_shape_is_model (due : List Ctl) (ls : Links) : runPTok Gen.postsolveShape due ls = some (runPass due ls) := by
  rfl

theorem valve_loop_list (idBase : Nat) (us : List UCtl) (h : ∀ u ∈ us, (valveCompanion idBase u).isNone = false) :
    (us.filter (fun u => u.attr == UAttr.setting)).map (fun u => (⟨idBase + u.id, u.prio, ⟨u.link, .user, 2⟩⟩ : Ctl))
      = companionsOf (valveCompanion idBase) us := by
  unfold companionsOf
  induction us with
  | nil => rfl
  | cons u r ih =>
    have hu := h u List.mem_cons_self
    have ih' := ih (fun x hx => h x (List.mem_cons_of_mem _ hx))
    simp only [List.filter_cons, List.filterMap_cons]
    cases ha : u.attr <;> cases hk : u.kind <;>
      first
      | (exfalso; simp [valveCompanion, ha, hk] at hu; done)
      | (have e : (valveCompanion idBase u).getD none = none := by simp [valveCompanion, ha, hk]
         rw [e]; simpa [ha] using ih')
      | (have e : (valveCompanion idBase u).getD none = some ⟨idBase + u.id, u.prio, ⟨u.link, .user, 2⟩⟩ := by
           simp [valveCompanion, ha, hk]
         rw [e]; simpa [ha] using ih')

theorem pump_loop_list (idBase : Nat) (us : List UCtl) (h : ∀ u ∈ us, (pumpCompanion idBase u).isNone = false) :
    (us.filter (fun u => u.attr == UAttr.baseSpeed)).map (fun u => (⟨idBase + u.id, u.prio, ⟨u.link, .user, 1⟩⟩ : Ctl))
      = companionsOf (pumpCompanion idBase) us := by
  unfold companionsOf
  induction us with
  | nil => rfl
  | cons u r ih =>
    have hu := h u List.mem_cons_self
    have ih' := ih (fun x hx => h x (List.mem_cons_of_mem _ hx))
    simp only [List.filter_cons, List.filterMap_cons]
    cases ha : u.attr <;> cases hk : u.kind <;>
      first
      | (exfalso; simp [pumpCompanion, ha, hk] at hu; done)
      | (have e : (pumpCompanion idBase u).getD none = none := by simp [pumpCompanion, ha, hk]
         rw [e]; simpa [ha] using ih')
      | (have e : (pumpCompanion idBase u).getD none = some ⟨idBase + u.id, u.prio, ⟨u.link, .user, 1⟩⟩ := by
           simp [pumpCompanion, ha, hk]
         rw [e]; simpa [ha] using ih')

/-- `companion_loops_are_model`: the regenerated companion loops build exactly `Controls.companionsOf`: ONE companion per setting /
base_speed action of EVERY control (no seen-set, no `continue`), same priority, same condition, status Active / Open -/
theorem valve_companion_loop_is_model (idBase : Nat) (us : List UCtl) :
    Gen.valveCompLoop = ⟨.setting, .valve, 2, true, true, true⟩
    ∧ (runCompLoop idBase Gen.valveCompLoop us =
        if us.any (fun u => (valveCompanion idBase u).isNone) then none else some (companionsOf (valveCompanion idBase) us)) := by
  refine ⟨by decide, ?_⟩
  simp only [runCompLoop, Gen.valveCompLoop, if_true]
  have h1 : us.any (fun u => u.attr == UAttr.setting && u.kind != Kind.valve) = us.any (fun u => (valveCompanion idBase u).isNone) := by
    congr 1; funext u
    unfold valveCompanion
    cases u.attr <;> cases u.kind <;> simp
  rw [h1]
  split
  · rfl
  · rename_i hne
    rw [valve_loop_list idBase us (by
      intro u hu
      by_contra hc
      exact hne (List.any_eq_true.mpr ⟨u, hu, by simpa using hc⟩))]

theorem pump_companion_loop_is_model (idBase : Nat) (us : List UCtl) :
    Gen.pumpCompLoop = ⟨.baseSpeed, .pump, 1, true, true, true⟩
    ∧ (runCompLoop idBase Gen.pumpCompLoop us =
        if us.any (fun u => (pumpCompanion idBase u).isNone) then none else some (companionsOf (pumpCompanion idBase) us)) := by
  refine ⟨by decide, ?_⟩
  simp only [runCompLoop, Gen.pumpCompLoop, if_true]
  have h1 : us.any (fun u => u.attr == UAttr.baseSpeed && u.kind != Kind.pump) = us.any (fun u => (pumpCompanion idBase u).isNone) := by
    congr 1; funext u
    unfold pumpCompanion
    cases u.attr <;> cases u.kind <;> simp
  rw [h1]
  split
  · rfl
  · rename_i hne
    rw [pump_loop_list idBase us (by
      intro u hu
      by_contra hc
      exact hne (List.any_eq_true.mpr ⟨u, hu, by simpa using hc⟩))]

/-- who may write `_internal_status`: a PIPE gets an internal writer only through its check valve or a tank at one of its
ends; pumps always have one (shut-off), valves through their valve-type logic or a tank -/
theorem internal_writers_of_pipe : ∀ w ∈ Gen.internalWriters, w.kind = .pipe → w.guard = "cv" ∨ w.guard = "tank" := by
  decide

theorem internal_writers_builders : (Gen.internalWriters.map (·.builder)).eraseDups
    = ["_get_all_tank_controls", "_get_cv_controls", "_get_pump_controls", "_get_valve_controls"] := by
  decide

end Wntr.TankShape
