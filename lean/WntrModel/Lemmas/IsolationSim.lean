/-
Lemmas for C09, part 3: the invariant `Good` of one simulator object and its preservation by every operation;
the flagged set equals the cut-off set; `_initialize_internal_graph` helper facts.
-/
import WntrModel.Lemmas.IsolationDfs
import WntrModel.Lemmas.IsolationGraph

namespace Wntr.Isolation

/-- **dfs_reaches_exactly**: for every flat CSR input, source list and initial indicator, the search clears exactly the
live nodes reachable from a live source through entries with `data = 1` (soundness by the invariant "every cleared node has a
path", completeness by fuel sufficiency + "empty work set ⇒ closed set"); every other entry of the indicator is unchanged. -/
theorem dfs_reaches_exactly_aux (g : Csr) (srcs : List Nat) (ind0 : List Int) (v : Nat) :
    (Reached g srcs ind0 v → (checkIsolated g srcs ind0).getD v 0 = 0) ∧
    (¬ Reached g srcs ind0 v → (checkIsolated g srcs ind0).getD v 0 = ind0.getD v 0) := by
  obtain ⟨hI, hsrc⟩ := checkIsolated_spec g srcs ind0
  constructor
  · rintro ⟨s, hs, hs1, hp⟩
    suffices h : ind0.getD v 0 = 1 ∧ (checkIsolated g srcs ind0).getD v 0 = 0 from h.2
    induction hp with
    | refl => exact ⟨hs1, hsrc s hs hs1⟩
    | tail _ hstep ih =>
      obtain ⟨hE, hv0⟩ := hstep
      refine ⟨hv0, ?_⟩
      rcases hI.closed _ ih.1 ih.2 (by simp) _ hE hv0 with h | ⟨_, h⟩
      · exact h
      · cases h
  · intro hn
    rcases hI.mono v with e | ⟨e1, e2⟩
    · exact e
    · exact absurd (hI.sound v e1 e2) hn

/-- adjacency by a non-closed link under the status assignment `st` -/
def Adj (net : Net) (st : Nat → Nat) (u v : Nat) : Prop :=
  ∃ k, k < net.nl ∧ (net.linkEnds k = (u, v) ∨ net.linkEnds k = (v, u)) ∧ st k ≠ 0

/-- `v` has a path of non-closed links to a tank or reservoir -/
def Connected (net : Net) (st : Nat → Nat) (v : Nat) : Prop :=
  ∃ s, s ∈ net.sources ∧ Relation.ReflTransGen (Adj net st) s v

/-- the invariant of one simulator object between any two operations -/
structure Good (s : Sim) : Prop where
  static : s.Static
  dlen : s.g.data.length = s.g.indices.length
  /-- the data reflects the statuses recorded at the tracker's reference point 'graph' -/
  data : DataOk s.net s.ndx (fun k => s.prev.getD k 0) s.g.data
  /-- the tracker reports every link whose status differs from the reference -/
  track : ∀ k, k < s.net.nl → s.status k ≠ s.prev.getD k 0 → k ∈ s.changed
  chLt : ∀ c ∈ s.changed, c < s.net.nl
  /-- every raised `_is_isolated` flag is remembered in `_prev_isolated_*` (false across a restart: see C10) -/
  flagsJ : s.isoJ.length = s.net.n ∧ ∀ v, s.isoJ.getD v false = true → v ∈ s.prevIsoJ
  flagsL : s.isoL.length = s.net.nl ∧ ∀ l, s.isoL.getD l false = true → l ∈ s.prevIsoL
  /-- tanks and reservoirs are never flagged (what lets `run_sim` seed `_prev_isolated_junctions` from `wn.junctions()` only) -/
  srcOk : ∀ v ∈ s.net.sources, s.isoJ.getD v false = false

/-- `_initialize_internal_graph` succeeds on this topology and builds a structure that meets the static contract; the link list
is a permutation of pipes ++ pumps ++ valves.  None of this depends on the statuses (`initOk_indep`). -/
def InitOk (net : Net) : Prop :=
  (initGraph net [] []).1 = Outcome.ok ∧ (initGraph net [] []).2.Static ∧ net.initOrder.Perm (List.range net.nl)

instance (net : Net) : Decidable (InitOk net) := by unfold InitOk; infer_instance

theorem initOk_indep (net : Net) (user internal : List Nat) :
    ((initGraph net user internal).1 = Outcome.ok ↔ (initGraph net [] []).1 = Outcome.ok) ∧
    ((initGraph net user internal).2.Static ↔ (initGraph net [] []).2.Static) := ⟨Iff.rfl, Iff.rfl⟩

/-- the data reflects the CURRENT statuses (true right after `_update_internal_graph`) -/
def Synced (s : Sim) : Prop := DataOk s.net s.ndx s.status s.g.data

def OpOk (net : Net) : Op → Prop
  | .act _ k _ => k < net.nl
  | .restart => InitOk net
  | _ => True

theorem getD_set_gen {α} (l : List α) (i j : Nat) (v d : α) :
    (l.set i v).getD j d = if i = j ∧ i < l.length then v else l.getD j d := by
  simp only [List.getD_eq_getElem?_getD, List.getElem?_set]
  by_cases h : i = j
  · subst h
    by_cases hl : i < l.length <;> simp [hl]
  · simp [h]

theorem getD_default_of_le {α} (l : List α) (d : α) (i : Nat) (h : l.length ≤ i) : l.getD i d = d := by
  simp [List.getD_eq_getElem?_getD, List.getElem?_eq_none h]

theorem statusOf_act_ne (s : Sim) (u : Bool) (k v k' : Nat) (h : k' ≠ k) : (act s u k v).status k' = s.status k' := by
  have e1 : ∀ (l : List Nat) (d : Nat), (l.set k v).getD k' d = l.getD k' d := by
    intro l d; rw [getD_set_gen, if_neg (fun hh => h hh.1.symm)]
  unfold act Sim.status
  cases u <;> simp only [Bool.false_eq_true, if_false, if_true] <;> split <;> simp only [e1]

theorem act_frame (s : Sim) (u : Bool) (k v : Nat) :
    (act s u k v).net = s.net ∧ (act s u k v).g = s.g ∧ (act s u k v).ndx = s.ndx ∧ (act s u k v).multi = s.multi ∧
    (act s u k v).prev = s.prev ∧ (act s u k v).isoJ = s.isoJ ∧ (act s u k v).isoL = s.isoL ∧
    (act s u k v).prevIsoJ = s.prevIsoJ ∧ (act s u k v).prevIsoL = s.prevIsoL := by
  unfold act
  cases u <;> simp only [Bool.false_eq_true, if_false, if_true] <;> split <;> simp

theorem act_changed (s : Sim) (u : Bool) (k v : Nat) :
    ((act s u k v).status k ≠ s.prev.getD k 0 → k ∈ (act s u k v).changed) ∧
    (∀ c ∈ (act s u k v).changed, c ∈ s.changed ∨ c = k) ∧
    (∀ c ∈ s.changed, c ≠ k → c ∈ (act s u k v).changed) := by
  unfold act
  cases u <;> simp only [Bool.false_eq_true, if_false, if_true] <;> split
  all_goals (rename_i hval; refine ⟨?_, ?_, ?_⟩)
  all_goals first
    | (intro h; exact absurd hval h)
    | (intro c hc; left; exact List.mem_of_mem_erase hc)
    | (intro c hc hne; exact (List.mem_erase_of_ne hne).mpr hc)
    | (intro _; dsimp only; split
       · assumption
       · exact List.mem_append_right _ (List.mem_singleton.mpr rfl))
    | (intro c hc; dsimp only at hc; split at hc
       · left; exact hc
       · rcases List.mem_append.mp hc with h | h
         · left; exact h
         · right; exact List.mem_singleton.mp h)
    | (intro c hc _; dsimp only; split
       · exact hc
       · exact List.mem_append_left _ hc)

theorem good_act {s : Sim} (h : Good s) (u : Bool) (k v : Nat) (hk : k < s.net.nl) : Good (act s u k v) := by
  obtain ⟨f1, f2, f3, f4, f5, f6, f7, f8, f9⟩ := act_frame s u k v
  obtain ⟨c1, c2, c3⟩ := act_changed s u k v
  refine ⟨?_, ?_, ?_, ?_, ?_, ?_, ?_, ?_⟩
  · unfold Sim.Static; rw [f1, f2, f3, f4]; exact h.static
  · rw [f2]; exact h.dlen
  · rw [f1, f2, f3, f5]; exact h.data
  · intro k' hk' hne
    rw [f5] at hne
    by_cases e : k' = k
    · subst e; exact c1 hne
    · rw [statusOf_act_ne s u k v k' e] at hne
      rw [f1] at hk'
      exact c3 k' (h.track k' hk' hne) e
  · intro c hc
    rw [f1]
    rcases c2 c hc with h' | h'
    · exact h.chLt c h'
    · rw [h']; exact hk
  · rw [f6, f1, f8]; exact h.flagsJ
  · rw [f7, f1, f9]; exact h.flagsL
  · rw [f6, f1]; exact h.srcOk

theorem getD_map_range (f : Nat → Nat) (n k : Nat) (hk : k < n) : ((List.range n).map f).getD k 0 = f k := by
  simp [List.getD_eq_getElem?_getD, hk]

theorem foldl_writeLink_length (ndx : List (Nat × Nat)) (f : Nat → Int) (cs : List Nat) (d : List Int) :
    (cs.foldl (fun d k => writeLink ndx d k (f k)) d).length = d.length := by
  induction cs generalizing d with
  | nil => rfl
  | cons c cs ih => rw [List.foldl_cons, ih, writeLink_length]

theorem foldl_multiStep_length (ndx : List (Nat × Nat)) (st : Nat → Nat) (es : List ((Nat × Nat) × List Nat)) (d : List Int) :
    (es.foldl (multiStep ndx st) d).length = d.length := by
  induction es generalizing d with
  | nil => rfl
  | cons e es ih => rw [List.foldl_cons, ih, multiStep_length]

theorem update_status (s : Sim) (k : Nat) : (updateGraph s).status k = s.status k := rfl

/-- `_update_internal_graph` keeps the invariant and makes the data reflect the current statuses -/
theorem good_update {s : Sim} (h : Good s) : Good (updateGraph s) ∧ Synced (updateGraph s) := by
  obtain ⟨_, hb, hpos, _, _, hmulti⟩ := h.static
  have hd := update_data_ok hpos hmulti hb (fun k => s.prev.getD k 0) s.status s.changed s.g.data h.dlen h.data h.chLt h.track
  have hsync : Synced (updateGraph s) := hd
  refine ⟨⟨h.static, ?_, ?_, ?_, ?_, h.flagsJ, h.flagsL, h.srcOk⟩, hsync⟩
  · show (s.multi.foldl (multiStep s.ndx s.status) _).length = _
    rw [foldl_multiStep_length, foldl_writeLink_length]; exact h.dlen
  · apply DataOk_congr _ hd
    intro k hk
    exact (getD_map_range s.status _ k hk).symm
  · intro k hk hne
    exfalso; apply hne
    exact (getD_map_range s.status _ k hk).symm
  · intro c hc; cases hc

theorem getD_setAll (f : List Bool) (ids : List Nat) (b : Bool) (i : Nat) :
    (setAll f ids b).getD i false = if i ∈ ids ∧ i < f.length then b else f.getD i false := by
  unfold setAll
  induction ids generalizing f with
  | nil => simp
  | cons a ids ih =>
    rw [List.foldl_cons, ih, List.length_set, getD_set_gen]
    by_cases h1 : i ∈ ids ∧ i < f.length
    · rw [if_pos h1, if_pos ⟨List.mem_cons_of_mem _ h1.1, h1.2⟩]
    · rw [if_neg h1]
      by_cases h2 : a = i ∧ a < f.length
      · rw [if_pos h2, if_pos ⟨by rw [h2.1]; exact List.mem_cons_self, by rw [← h2.1]; exact h2.2⟩]
      · rw [if_neg h2]
        rw [if_neg]
        rintro ⟨h3, h4⟩
        rcases List.mem_cons.mp h3 with e | e
        · exact h2 ⟨e.symm, by rw [← e]; exact h4⟩
        · exact h1 ⟨e, h4⟩

theorem setAll_length (f : List Bool) (ids : List Nat) (b : Bool) : (setAll f ids b).length = f.length := by
  unfold setAll
  induction ids generalizing f with
  | nil => rfl
  | cons a ids ih => rw [List.foldl_cons, ih, List.length_set]

theorem mem_addAll (acc xs : List Nat) (x : Nat) : x ∈ addAll acc xs ↔ x ∈ acc ∨ x ∈ xs := by
  unfold addAll
  induction xs generalizing acc with
  | nil => simp
  | cons a xs ih =>
    rw [List.foldl_cons, ih]
    by_cases h : a ∈ acc
    · rw [if_pos h]
      constructor
      · rintro (h' | h')
        · left; exact h'
        · right; exact List.mem_cons_of_mem _ h'
      · rintro (h' | h')
        · left; exact h'
        · rcases List.mem_cons.mp h' with e | e
          · left; rw [e]; exact h
          · right; exact e
    · rw [if_neg h]
      constructor
      · rintro (h' | h')
        · rcases List.mem_append.mp h' with h'' | h''
          · left; exact h''
          · right; rw [List.mem_singleton.mp h'']; exact List.mem_cons_self
        · right; exact List.mem_cons_of_mem _ h'
      · rintro (h' | h')
        · left; exact List.mem_append_left _ h'
        · rcases List.mem_cons.mp h' with e | e
          · left; exact List.mem_append_right _ (List.mem_singleton.mpr e)
          · right; exact e

theorem mem_foldl_addAll (f : Nat → List Nat) (ids acc : List Nat) (x : Nat) :
    x ∈ ids.foldl (fun acc j => addAll acc (f j)) acc ↔ x ∈ acc ∨ ∃ j ∈ ids, x ∈ f j := by
  induction ids generalizing acc with
  | nil => simp
  | cons a ids ih =>
    rw [List.foldl_cons, ih, mem_addAll]
    constructor
    · rintro ((h | h) | ⟨j, hj, h⟩)
      · left; exact h
      · right; exact ⟨a, List.mem_cons_self, h⟩
      · right; exact ⟨j, List.mem_cons_of_mem _ hj, h⟩
    · rintro (h | ⟨j, hj, h⟩)
      · left; left; exact h
      · rcases List.mem_cons.mp hj with e | e
        · left; right; rw [← e]; exact h
        · right; exact ⟨j, e, h⟩

/-- under the static contract and with data that reflects the current statuses, the edge relation the C++ loop sees is
exactly "joined by a non-closed link" -/
theorem E_iff_adj {s : Sim} (hs : s.Static) (hd : Synced s) (u v : Nat) : s.g.E u v ↔ Adj s.net s.status u v := by
  obtain ⟨_, _, hpos, hin, hout, _⟩ := hs
  constructor
  · rintro ⟨i, hi, hdat, hidx⟩
    have hu : u < s.g.nconn.length := by
      apply Classical.byContradiction
      intro hn
      rw [getD_default_of_le _ _ _ (Nat.le_of_not_lt hn)] at hi
      exact Nat.not_lt_zero _ hi
    obtain ⟨k, hk, hkk⟩ := hout u hu i hi
    unfold Csr.base at hdat hidx
    rw [hidx] at hkk
    have hopen : pairOpen s.net s.status k := by
      apply Classical.byContradiction
      intro hno
      rcases hkk with ⟨_, hp⟩ | ⟨_, hp⟩
      · have := (hd k hk _ (Or.inl rfl)).2 hno
        rw [hp, hdat] at this; cases this
      · have := (hd k hk _ (Or.inr rfl)).2 hno
        rw [hp, hdat] at this; cases this
    obtain ⟨k', hk', hsp, ho⟩ := hopen
    refine ⟨k', hk', ?_, ho⟩
    unfold samePair at hsp
    rcases hkk with ⟨he, _⟩ | ⟨he, _⟩ <;> rw [he] at hsp <;> rcases hsp with h | h
    · left; exact h.symm
    · right
      have h1 := congrArg Prod.fst h
      have h2 := congrArg Prod.snd h
      simp only at h1 h2
      exact Prod.ext h2.symm h1.symm
    · right; exact h.symm
    · left
      have h1 := congrArg Prod.fst h
      have h2 := congrArg Prod.snd h
      simp only at h1 h2
      exact Prod.ext h2.symm h1.symm
  · rintro ⟨k, hk, hj, ho⟩
    have hopen : pairOpen s.net s.status k := ⟨k, hk, samePair_refl _ _, ho⟩
    obtain ⟨⟨i, hi, hpi, hci⟩, ⟨j, hjj, hpj, hcj⟩⟩ := hin k hk
    rcases hj with he | he
    · rw [he] at hi hpi hci
      refine ⟨i, hi, ?_, ?_⟩
      · unfold Csr.base; rw [hpi]; exact (hd k hk _ (Or.inl rfl)).1 hopen
      · unfold Csr.base; rw [hpi]; exact hci
    · rw [he] at hjj hpj hcj
      refine ⟨j, hjj, ?_, ?_⟩
      · unfold Csr.base; rw [hpj]; exact (hd k hk _ (Or.inr rfl)).1 hopen
      · unfold Csr.base; rw [hpj]; exact hcj

theorem getD_replicate_one (n v : Nat) : (List.replicate n (1 : Int)).getD v 0 = 1 ↔ v < n := by
  simp only [List.getD_eq_getElem?_getD, List.getElem?_replicate]
  by_cases h : v < n <;> simp [h]

theorem adj_lt {s : Sim} (hs : s.Static) {u v : Nat} (h : Adj s.net s.status u v) : u < s.net.n ∧ v < s.net.n := by
  obtain ⟨⟨he, _⟩, _⟩ := hs
  obtain ⟨k, hk, hj, _⟩ := h
  obtain ⟨a, b, _⟩ := he k hk
  rcases hj with e | e <;> rw [e] at a b
  · exact ⟨a, b⟩
  · exact ⟨b, a⟩

theorem rtg_mono {α} {r p : α → α → Prop} (h : ∀ a b, r a b → p a b) {a b : α}
    (hp : Relation.ReflTransGen r a b) : Relation.ReflTransGen p a b := by
  induction hp with
  | refl => exact Relation.ReflTransGen.refl
  | tail _ hs ih => exact ih.tail (h _ _ hs)

/-- the search started from an all-ones indicator reaches exactly the connected nodes -/
theorem reached_iff_connected {s : Sim} (hs : s.Static) (hd : Synced s) (v : Nat) :
    Reached s.g s.net.sources (List.replicate s.net.n 1) v ↔ Connected s.net s.status v := by
  have hsrc := hs.1.2
  constructor
  · rintro ⟨x, hx, _, hp⟩
    exact ⟨x, hx, rtg_mono (fun a b hab => (E_iff_adj hs hd a b).mp hab.1) hp⟩
  · rintro ⟨x, hx, hp⟩
    exact ⟨x, hx, (getD_replicate_one _ _).mpr (hsrc x hx), rtg_mono
      (fun a b hab => ⟨(E_iff_adj hs hd a b).mpr hab, (getD_replicate_one _ _).mpr (adj_lt hs hab).2⟩) hp⟩

theorem mem_isolatedIds {s : Sim} (hs : s.Static) (hd : Synced s) (v : Nat) :
    v ∈ isolatedIds s ↔ v < s.net.n ∧ ¬ Connected s.net s.status v := by
  unfold isolatedIds
  simp only [List.mem_filter, List.mem_range, beq_iff_eq]
  obtain ⟨d1, d2⟩ := dfs_reaches_exactly_aux s.g s.net.sources (List.replicate s.net.n 1) v
  rw [← reached_iff_connected hs hd v]
  constructor
  · rintro ⟨hv, h1⟩
    refine ⟨hv, fun hr => ?_⟩
    rw [d1 hr] at h1; cases h1
  · rintro ⟨hv, hn⟩
    exact ⟨hv, by rw [d2 hn]; exact (getD_replicate_one _ _).mpr hv⟩

/-- a tank / reservoir is never among the ids the search leaves at 1 (whatever the data) -/
theorem source_not_isolated (s : Sim) (v : Nat) (hv : v ∈ s.net.sources) : v ∉ isolatedIds s := by
  intro hm
  unfold isolatedIds at hm
  obtain ⟨hr, h1⟩ := List.mem_filter.mp hm
  have hlt : v < s.net.n := List.mem_range.mp hr
  have h0 := (dfs_reaches_exactly_aux s.g s.net.sources (List.replicate s.net.n 1) v).1
    ⟨v, hv, (getD_replicate_one _ _).mpr hlt, Relation.ReflTransGen.refl⟩
  rw [h0] at h1
  exact absurd h1 (by decide)

theorem getIsolated_src {s : Sim} (h : ∀ v ∈ s.net.sources, s.isoJ.getD v false = false) :
    ∀ v ∈ (getIsolated s).net.sources, (getIsolated s).isoJ.getD v false = false := by
  intro v hv
  show (setAll (setAll s.isoJ s.prevIsoJ false) (isolatedIds s) true).getD v false = false
  rw [getD_setAll, if_neg (fun c => source_not_isolated s v hv c.1), getD_setAll]
  split
  · rfl
  · exact h v hv

/-- `_get_isolated_junctions_and_links` on a synced graph: flags = exactly the cut-off nodes and their links,
stale flags are cleared, and the invariant is kept -/
theorem good_isolated {s : Sim} (h : Good s) (hd : Synced s) :
    Good (getIsolated s) ∧ Synced (getIsolated s) ∧
    (∀ v, (getIsolated s).isoJ.getD v false = true ↔ v < s.net.n ∧ ¬ Connected s.net s.status v) ∧
    (∀ l, (getIsolated s).isoL.getD l false = true ↔
      l < s.net.nl ∧ ∃ j, j < s.net.n ∧ ¬ Connected s.net s.status j ∧ l ∈ s.net.linksOf j) := by
  have hJ : ∀ v, (getIsolated s).isoJ.getD v false = true ↔ v ∈ isolatedIds s ∧ v < s.net.n := by
    intro v
    show (setAll (setAll s.isoJ s.prevIsoJ false) (isolatedIds s) true).getD v false = true ↔ _
    rw [getD_setAll, setAll_length, h.flagsJ.1]
    by_cases c : v ∈ isolatedIds s ∧ v < s.net.n
    · rw [if_pos c]; exact ⟨fun _ => c, fun _ => rfl⟩
    · rw [if_neg c, getD_setAll]
      by_cases c2 : v ∈ s.prevIsoJ ∧ v < s.isoJ.length
      · rw [if_pos c2]; exact ⟨fun h' => (by cases h'), fun h' => absurd h' c⟩
      · rw [if_neg c2]
        constructor
        · intro h'
          exfalso
          have hm := h.flagsJ.2 v h'
          apply c2
          refine ⟨hm, ?_⟩
          apply Classical.byContradiction
          intro hlt
          rw [getD_default_of_le _ _ _ (Nat.le_of_not_lt hlt)] at h'
          cases h'
        · intro h'; exact absurd h' c
  have hL : ∀ l, (getIsolated s).isoL.getD l false = true ↔
      l ∈ (isolatedIds s).foldl (fun acc j => addAll acc (s.net.linksOf j)) [] ∧ l < s.net.nl := by
    intro l
    show (setAll (setAll s.isoL s.prevIsoL false) _ true).getD l false = true ↔ _
    rw [getD_setAll, setAll_length, h.flagsL.1]
    generalize (isolatedIds s).foldl (fun acc j => addAll acc (s.net.linksOf j)) [] = lks
    by_cases c : l ∈ lks ∧ l < s.net.nl
    · rw [if_pos c]; exact ⟨fun _ => c, fun _ => rfl⟩
    · rw [if_neg c, getD_setAll]
      by_cases c2 : l ∈ s.prevIsoL ∧ l < s.isoL.length
      · rw [if_pos c2]; exact ⟨fun h' => (by cases h'), fun h' => absurd h' c⟩
      · rw [if_neg c2]
        constructor
        · intro h'
          exfalso
          have hm := h.flagsL.2 l h'
          apply c2
          refine ⟨hm, ?_⟩
          apply Classical.byContradiction
          intro hlt
          rw [getD_default_of_le _ _ _ (Nat.le_of_not_lt hlt)] at h'
          cases h'
        · intro h'; exact absurd h' c
  refine ⟨⟨h.static, h.dlen, h.data, h.track, h.chLt, ⟨?_, ?_⟩, ⟨?_, ?_⟩, getIsolated_src h.srcOk⟩, hd, ?_, ?_⟩
  · show (setAll (setAll s.isoJ s.prevIsoJ false) (isolatedIds s) true).length = _
    rw [setAll_length, setAll_length]; exact h.flagsJ.1
  · intro v hv; exact ((hJ v).mp hv).1
  · show (setAll (setAll s.isoL s.prevIsoL false) _ true).length = _
    rw [setAll_length, setAll_length]; exact h.flagsL.1
  · intro l hl; exact ((hL l).mp hl).1
  · intro v
    rw [hJ v, mem_isolatedIds h.static hd]
    exact ⟨fun h' => h'.1, fun h' => ⟨h', h'.1⟩⟩
  · intro l
    rw [hL l, mem_foldl_addAll]
    constructor
    · rintro ⟨h1 | ⟨j, hj, hl⟩, h2⟩
      · cases h1
      · obtain ⟨a, b⟩ := (mem_isolatedIds h.static hd j).mp hj
        exact ⟨h2, j, a, b, hl⟩
    · rintro ⟨h2, j, a, b, hl⟩
      exact ⟨Or.inr ⟨j, (mem_isolatedIds h.static hd j).mpr ⟨a, b⟩, hl⟩, h2⟩

theorem getD_addAt (d : List Int) (q p : Nat) (v : Int) :
    (addAt d q v).getD p 0 = if q = p ∧ q < d.length then d.getD p 0 + v else d.getD p 0 := by
  unfold addAt
  rw [getD_set_int]
  by_cases h : q = p ∧ q < d.length
  · rw [if_pos h, if_pos h, h.1]
  · rw [if_neg h, if_neg h]

theorem addAt_length (d : List Int) (q : Nat) (v : Int) : (addAt d q v).length = d.length := by
  unfold addAt; simp

/-- scipy's summation of duplicate entries, read at a position of a link that is alone in its node pair -/
theorem accumulate_single {net : Net} {ndx} (hpos : posOk net ndx) (dlen : Nat) (hb : boundOk net ndx dlen) (f : Nat → Int)
    (k : Nat) (hk : k < net.nl) (hs : single net k) (hne : pos1 ndx k ≠ pos2 ndx k) (p : Nat) (hp : inPs ndx k p) :
    ∀ (cs : List Nat) (d : List Int), cs.Nodup → (∀ c ∈ cs, c < net.nl) → d.length = dlen →
      (cs.foldl (fun d c => addAt (addAt d (ndx.getD c (0, 0)).1 (f c)) (ndx.getD c (0, 0)).2 (f c)) d).getD p 0
        = d.getD p 0 + (if k ∈ cs then f k else 0) := by
  intro cs
  induction cs with
  | nil => intro d _ _ _; simp
  | cons c cs ih =>
    intro d hnd hlt hlen
    rw [List.foldl_cons]
    have hc : c < net.nl := hlt c List.mem_cons_self
    rw [ih _ (List.nodup_cons.mp hnd).2 (fun c' hc' => hlt c' (List.mem_cons_of_mem _ hc'))
      (by rw [addAt_length, addAt_length]; exact hlen)]
    rw [getD_addAt, getD_addAt, addAt_length]
    by_cases e : c = k
    · subst e
      have hnotin : c ∉ cs := (List.nodup_cons.mp hnd).1
      rw [if_neg hnotin, if_pos List.mem_cons_self]
      have b1 : pos1 ndx c < d.length := by rw [hlen]; exact (hb c hc).1
      have b2 : pos2 ndx c < d.length := by rw [hlen]; exact (hb c hc).2
      unfold pos1 at b1 hne; unfold pos2 at b2 hne
      unfold inPs pos1 pos2 at hp
      rcases hp with hp | hp
      · rw [if_neg (fun h => hne (h.1.trans hp).symm), if_pos ⟨hp.symm, b1⟩]; omega
      · rw [if_pos ⟨hp.symm, b2⟩, if_neg (fun h => hne (hp ▸ h.1))]; omega
    · have hns : ¬ samePair net k c := fun hsp => e (hs c hc hsp)
      have hnp : ¬ inPs ndx c p := fun hcp => (not_inPs_of_not_samePair hpos hk hc hns p hcp) hp
      unfold inPs pos1 pos2 at hnp
      rw [if_neg (fun h => hnp (Or.inr h.1.symm)), if_neg (fun h => hnp (Or.inl h.1.symm))]
      have : (k ∈ c :: cs) ↔ k ∈ cs := by
        constructor
        · intro h; rcases List.mem_cons.mp h with e' | e'
          · exact absurd e'.symm e
          · exact e'
        · exact List.mem_cons_of_mem _
      by_cases hm : k ∈ cs
      · rw [if_pos hm, if_pos (this.mpr hm)]
      · rw [if_neg hm, if_neg (fun h => hm (this.mp h))]

theorem foldl_addAt_length (ndx : List (Nat × Nat)) (f : Nat → Int) (cs : List Nat) (d : List Int) :
    (cs.foldl (fun d c => addAt (addAt d (ndx.getD c (0, 0)).1 (f c)) (ndx.getD c (0, 0)).2 (f c)) d).length = d.length := by
  induction cs generalizing d with
  | nil => rfl
  | cons c cs ih => rw [List.foldl_cons, ih, addAt_length, addAt_length]

theorem setOpt_length (d : List Int) (o : Option Nat) (v : Int) : (setOpt d o v).length = d.length := by
  unfold setOpt; cases o <;> simp

theorem initStep_length (g0 : Csr) (ndx : List (Nat × Nat)) (st : Nat → Nat) (d : List Int) (e : (Nat × Nat) × List Nat) :
    (initStep g0 ndx st d e).length = d.length := by
  unfold initStep
  rw [setOpenLinks_length, setOpt_length, setOpt_length]

/-- what `initGraph` computes, named -/
def initG0 (net : Net) : Csr := buildCsr net.n (net.initOrder.flatMap fun k => [(net.linkEnds k), ((net.linkEnds k).2, (net.linkEnds k).1)])

theorem init_fields (net : Net) (user internal : List Nat) :
    let s0 := (initGraph net user internal).2
    s0.net = net ∧ s0.user = user ∧ s0.internal = internal ∧ s0.multi = multiTable net ∧ s0.changed = [] ∧
    s0.isoJ = List.replicate net.n false ∧ s0.isoL = List.replicate net.links.length false ∧
    s0.prev = (List.range net.links.length).map s0.status ∧
    s0.g.indices = (initG0 net).indices ∧ s0.g.indptr = (initG0 net).indptr ∧
    s0.ndx = net.links.map (fun e => ((getCsrDataIndex (initG0 net) e.1 e.2).getD 0, (getCsrDataIndex (initG0 net) e.2 e.1).getD 0)) ∧
    s0.g.data = (multiTable net).foldl (initStep (initG0 net) s0.ndx s0.status)
      (net.initOrder.foldl (fun d c => addAt (addAt d (s0.ndx.getD c (0, 0)).1 (openVal (s0.status c))) (s0.ndx.getD c (0, 0)).2 (openVal (s0.status c)))
        (List.replicate (initG0 net).indices.length 0)) ∧
    ((initGraph net user internal).1 = Outcome.ok →
      ∀ e ∈ net.links, (getCsrDataIndex (initG0 net) e.1 e.2).isSome ∧ (getCsrDataIndex (initG0 net) e.2 e.1).isSome) := by
  intro s0
  refine ⟨rfl, rfl, rfl, rfl, rfl, rfl, rfl, rfl, rfl, rfl, ?_, ?_, ?_⟩
  · show List.map _ (List.map _ net.links) = _
    rw [List.map_map]; rfl
  · rfl
  · intro hok e he
    have : (net.links.map fun (x : Nat × Nat) => (getCsrDataIndex (initG0 net) x.1 x.2, getCsrDataIndex (initG0 net) x.2 x.1)).all
        (fun p => p.1.isSome && p.2.isSome) = true := by
      apply Classical.byContradiction
      intro hne
      have : (initGraph net user internal).1 = Outcome.runtimeError := by
        show (if _ then Outcome.ok else Outcome.runtimeError) = _
        rw [if_neg]
        exact hne
      rw [this] at hok; cases hok
    rw [List.all_eq_true] at this
    have := this _ (List.mem_map_of_mem (f := fun (x : Nat × Nat) => (getCsrDataIndex (initG0 net) x.1 x.2, getCsrDataIndex (initG0 net) x.2 x.1)) he)
    simpa using this

theorem getD_map_lt {α β} (f : α → β) (l : List α) (k : Nat) (hk : k < l.length) (da : α) (db : β) :
    (l.map f).getD k db = f (l.getD k da) := by
  simp [List.getD_eq_getElem?_getD, List.getElem?_eq_getElem hk]

theorem getD_mem_lt {α} (l : List α) (k : Nat) (hk : k < l.length) (d : α) : l.getD k d ∈ l := by
  simp [List.getD_eq_getElem?_getD, List.getElem?_eq_getElem hk]

theorem setOpt2_read (d : List Int) (x y q : Nat) (hx : x < d.length) (hy : y < d.length) :
    (setOpt (setOpt d (some x) 0) (some y) 0).getD q 0 = if q = x ∨ q = y then 0 else d.getD q 0 := by
  unfold setOpt
  simp only [getD_set_int, List.length_set]
  by_cases e2 : y = q
  · rw [if_pos ⟨e2, hy⟩, if_pos (Or.inr e2.symm)]
  · rw [if_neg (fun h => e2 h.1)]
    by_cases e1 : x = q
    · rw [if_pos ⟨e1, hx⟩, if_pos (Or.inl e1.symm)]
    · rw [if_neg (fun h => e1 h.1), if_neg]
      rintro (h | h)
      · exact e1 h.symm
      · exact e2 h.symm

theorem init_good (net : Net) (user internal : List Nat)
    (hok : (initGraph net user internal).1 = Outcome.ok)
    (hst : (initGraph net user internal).2.Static)
    (hperm : net.initOrder.Perm (List.range net.nl)) :
    Good (initGraph net user internal).2 ∧ Synced (initGraph net user internal).2 := by
  obtain ⟨_, _, _, fmulti, fch, fJ, fL, fprev, findices, _, fndx, fdata, fsome⟩ := init_fields net user internal
  have fsome := fsome hok
  generalize hs0 : (initGraph net user internal).2 = s0 at *
  have hnet : s0.net = net := by rw [← hs0]; rfl
  obtain ⟨hends, hb, hpos, hin, hout, hmulti⟩ := hst
  rw [hnet] at hends hb hpos hin hout hmulti
  have hlen0 : (initG0 net).indices.length = s0.g.indices.length := by rw [findices]
  -- positions of a link in terms of the index search
  have hposk : ∀ k, k < net.nl →
      getCsrDataIndex (initG0 net) (net.linkEnds k).1 (net.linkEnds k).2 = some (pos1 s0.ndx k) ∧
      getCsrDataIndex (initG0 net) (net.linkEnds k).2 (net.linkEnds k).1 = some (pos2 s0.ndx k) := by
    intro k hk
    have hk' : k < net.links.length := hk
    obtain ⟨a, b⟩ := fsome (net.links.getD k (0, 0)) (getD_mem_lt _ _ hk' _)
    unfold pos1 pos2
    rw [fndx, getD_map_lt _ net.links k hk' (0, 0) (0, 0)]
    unfold Net.linkEnds
    constructor
    · cases h : getCsrDataIndex (initG0 net) (net.links.getD k (0, 0)).1 (net.links.getD k (0, 0)).2 with
      | none => rw [h] at a; cases a
      | some x => rfl
    · cases h : getCsrDataIndex (initG0 net) (net.links.getD k (0, 0)).2 (net.links.getD k (0, 0)).1 with
      | none => rw [h] at b; cases b
      | some x => rfl
  have hsync : DataOk net s0.ndx s0.status s0.g.data := by
    intro k hk p hp
    rw [fdata]
    apply pass_fold s0.status s0.g.indices.length (initStep (initG0 net) s0.ndx s0.status)
      (initStep_length (initG0 net) s0.ndx s0.status) k p (multiTable net)
    · intro e he d hdlen
      have he' : e ∈ s0.multi := by rw [fmulti]; exact he
      have hE := entryOk_of_multiOk hmulti e he'
      obtain ⟨k0, hk0, hkey, hall, _⟩ := hmulti.1 e he'
      have hk0lt := (hall k0 hk0).1
      obtain ⟨q1, q2⟩ := hposk k0 hk0lt
      have b1 : pos1 s0.ndx k0 < d.length := by rw [hdlen]; exact (hb k0 hk0lt).1
      have b2 : pos2 s0.ndx k0 < d.length := by rw [hdlen]; exact (hb k0 hk0lt).2
      -- the two zeroed positions are the two positions of k0
      have hz : ∀ q, (setOpt (setOpt d (getCsrDataIndex (initG0 net) e.1.1 e.1.2) 0) (getCsrDataIndex (initG0 net) e.1.2 e.1.1) 0).getD q 0
          = if inPs s0.ndx k0 q then 0 else d.getD q 0 := by
        intro q
        rcases hkey with hkey | hkey
        · rw [← hkey, q1, q2, setOpt2_read d _ _ q b1 b2]; rfl
        · have e1 : e.1.1 = (net.linkEnds k0).2 := by rw [hkey]
          have e2 : e.1.2 = (net.linkEnds k0).1 := by rw [hkey]
          rw [e1, e2, q1, q2, setOpt2_read d _ _ q b2 b1]
          by_cases c : inPs s0.ndx k0 q
          · rw [if_pos c, if_pos (Or.symm c)]
          · rw [if_neg c, if_neg (fun h => c (Or.symm h))]
      have := pass_step hpos s0.g.indices.length hb s0.status e.2 hE
        (setOpt (setOpt d (getCsrDataIndex (initG0 net) e.1.1 e.1.2) 0) (getCsrDataIndex (initG0 net) e.1.2 e.1.1) 0) d
        (by rw [setOpt_length, setOpt_length]; exact hdlen)
        (by
          intro first tl hl q
          have hf : first ∈ e.2 := by rw [hl]; exact List.mem_cons_self
          obtain ⟨hflt, hsp⟩ := hall first hf
          have hiff := inPs_iff_of_samePair hpos hk0lt hflt hsp q
          rw [hz q]
          constructor
          · intro h; rw [if_pos (hiff.mpr h)]
          · intro h; rw [if_neg (fun h' => h (hiff.mp h'))])
        k hk p hp
      exact this
    · rw [foldl_addAt_length, List.length_replicate, hlen0]
    · intro hno
      have hs : single net k := by
        apply Classical.byContradiction
        intro hns
        obtain ⟨e, he, hke⟩ := not_single_inMulti hmulti hk hns
        rw [fmulti] at he
        exact hno e he hke
      have hne : pos1 s0.ndx k ≠ pos2 s0.ndx k := by
        intro heq
        obtain ⟨⟨_, _, _, c1⟩, ⟨_, _, _, c2⟩⟩ := hin k hk
        rw [heq] at c1
        exact (hends.1 k hk).2.2 (c2.symm.trans c1)
      rw [accumulate_single hpos s0.g.indices.length hb (fun c => openVal (s0.status c)) k hk hs hne p hp net.initOrder _
        (hperm.nodup_iff.mpr List.nodup_range) (fun c hc => List.mem_range.mp (hperm.mem_iff.mp hc))
        (by rw [List.length_replicate, hlen0])]
      have hin' : k ∈ net.initOrder := hperm.mem_iff.mpr (List.mem_range.mpr hk)
      rw [if_pos hin']
      have : (List.replicate (initG0 net).indices.length (0 : Int)).getD p 0 = 0 := by
        simp only [List.getD_eq_getElem?_getD, List.getElem?_replicate]
        split <;> rfl
      rw [this, Int.zero_add]
      exact okAt_openVal_single hk hs
  have hprev : ∀ k, k < net.nl → s0.status k = s0.prev.getD k 0 := by
    intro k hk
    rw [fprev]
    exact (getD_map_range s0.status _ k hk).symm
  have hfalse : ∀ (n v : Nat), (List.replicate n false).getD v false = true → False := by
    intro n v h
    simp only [List.getD_eq_getElem?_getD, List.getElem?_replicate] at h
    split at h <;> cases h
  refine ⟨⟨?_, ?_, ?_, ?_, ?_, ⟨?_, ?_⟩, ⟨?_, ?_⟩, ?_⟩, ?_⟩
  · unfold Sim.Static; rw [hnet]; exact ⟨hends, hb, hpos, hin, hout, hmulti⟩
  · rw [fdata]
    have : ∀ (es : List ((Nat × Nat) × List Nat)) (d : List Int),
        (es.foldl (initStep (initG0 net) s0.ndx s0.status) d).length = d.length := by
      intro es
      induction es with
      | nil => intro d; rfl
      | cons e es ih => intro d; rw [List.foldl_cons, ih, initStep_length]
    rw [this, foldl_addAt_length, List.length_replicate, hlen0]
  · rw [hnet]; exact DataOk_congr hprev hsync
  · intro k hk hne
    rw [hnet] at hk
    exact absurd (hprev k hk) hne
  · intro c hc; rw [fch] at hc; cases hc
  · rw [fJ, hnet, List.length_replicate]
  · intro v hv; rw [fJ] at hv; exact (hfalse _ _ hv).elim
  · rw [fL, hnet, List.length_replicate]; rfl
  · intro l hl; rw [fL] at hl; exact (hfalse _ _ hl).elim
  · intro v _
    rw [fJ]
    cases hb : (List.replicate net.n false).getD v false with
    | false => rfl
    | true => exact (hfalse _ _ hb).elim
  · unfold Synced; rw [hnet]; exact hsync


/-- the head of `run_sim` on a network that may still carry flags (a continued run, possibly with a NEW simulator object):
because the previously-isolated sets are seeded from the flags of ALL junctions and ALL links, the invariant holds again -/
theorem good_restart {s : Sim} (hJ : s.isoJ.length = s.net.n) (hL : s.isoL.length = s.net.nl)
    (hsrc : ∀ v ∈ s.net.sources, s.isoJ.getD v false = false) (hinit : InitOk s.net) :
    Good (startRun s).2 ∧ Synced (startRun s).2 := by
  obtain ⟨hok, hst, hperm⟩ := hinit
  obtain ⟨g, hsync⟩ := init_good s.net s.user s.internal hok hst hperm
  have hnet : (initGraph s.net s.user s.internal).2.net = s.net := rfl
  refine ⟨⟨g.static, g.dlen, g.data, g.track, g.chLt, ⟨?_, ?_⟩, ⟨?_, ?_⟩, ?_⟩, hsync⟩
  · exact hJ
  · intro v hv
    show v ∈ s.net.junctions.filter fun v => s.isoJ.getD v false
    have hlt : v < s.net.n := by
      apply Classical.byContradiction
      intro hn
      have hv' : s.isoJ.getD v false = true := hv
      rw [getD_default_of_le _ _ _ (by rw [hJ]; exact Nat.le_of_not_lt hn)] at hv'
      cases hv'
    refine List.mem_filter.mpr ⟨List.mem_filter.mpr ⟨List.mem_range.mpr hlt, ?_⟩, hv⟩
    cases hc : s.net.sources.contains v with
    | false => rfl
    | true =>
      have hm : v ∈ s.net.sources := List.contains_iff_mem.mp hc
      have hv' : s.isoJ.getD v false = true := hv
      rw [hsrc v hm] at hv'
      cases hv'
  · exact hL
  · intro l hl
    show l ∈ (List.range s.net.links.length).filter fun l => s.isoL.getD l false
    have hlt : l < s.net.links.length := by
      apply Classical.byContradiction
      intro hn
      have hl' : s.isoL.getD l false = true := hl
      rw [getD_default_of_le _ _ _ (by rw [hL]; exact Nat.le_of_not_lt hn)] at hl'
      cases hl'
    exact List.mem_filter.mpr ⟨List.mem_range.mpr hlt, hl⟩
  · exact hsrc

theorem good_step {s : Sim} (h : Good s) (op : Op) (hop : OpOk s.net op) : Good (step s op) := by
  cases op with
  | act u k v => exact good_act h u k v hop
  | update => exact (good_update h).1
  | isolated =>
    -- without a preceding update the flags may be computed from stale data, but the invariant is kept:
    -- only the flag clauses change, and they hold for any id list
    refine ⟨h.static, h.dlen, h.data, h.track, h.chLt, ⟨?_, ?_⟩, ⟨?_, ?_⟩, getIsolated_src h.srcOk⟩
    · show (setAll (setAll s.isoJ s.prevIsoJ false) (isolatedIds s) true).length = _
      rw [setAll_length, setAll_length]; exact h.flagsJ.1
    · intro v hv
      have hv' : (setAll (setAll s.isoJ s.prevIsoJ false) (isolatedIds s) true).getD v false = true := hv
      rw [getD_setAll] at hv'
      by_cases c : v ∈ isolatedIds s ∧ v < (setAll s.isoJ s.prevIsoJ false).length
      · exact c.1
      · rw [if_neg c, getD_setAll] at hv'
        by_cases c2 : v ∈ s.prevIsoJ ∧ v < s.isoJ.length
        · rw [if_pos c2] at hv'; cases hv'
        · rw [if_neg c2] at hv'
          exfalso; apply c2
          refine ⟨h.flagsJ.2 v hv', ?_⟩
          apply Classical.byContradiction
          intro hlt
          rw [getD_default_of_le _ _ _ (Nat.le_of_not_lt hlt)] at hv'
          cases hv'
    · show (setAll (setAll s.isoL s.prevIsoL false) _ true).length = _
      rw [setAll_length, setAll_length]; exact h.flagsL.1
    · intro l hl
      have hl' : (setAll (setAll s.isoL s.prevIsoL false)
          ((isolatedIds s).foldl (fun acc j => addAll acc (s.net.linksOf j)) []) true).getD l false = true := hl
      show l ∈ (isolatedIds s).foldl (fun acc j => addAll acc (s.net.linksOf j)) []
      generalize (isolatedIds s).foldl (fun acc j => addAll acc (s.net.linksOf j)) [] = lks at hl' ⊢
      rw [getD_setAll] at hl'
      by_cases c : l ∈ lks ∧ l < (setAll s.isoL s.prevIsoL false).length
      · exact c.1
      · rw [if_neg c, getD_setAll] at hl'
        by_cases c2 : l ∈ s.prevIsoL ∧ l < s.isoL.length
        · rw [if_pos c2] at hl'; cases hl'
        · rw [if_neg c2] at hl'
          exfalso; apply c2
          refine ⟨h.flagsL.2 l hl', ?_⟩
          apply Classical.byContradiction
          intro hlt
          rw [getD_default_of_le _ _ _ (Nat.le_of_not_lt hlt)] at hl'
          cases hl'
  | prepare =>
    obtain ⟨g1, g2⟩ := good_update h
    exact (good_isolated g1 g2).1
  | restart => exact (good_restart h.flagsJ.1 h.flagsL.1 h.srcOk hop).1

theorem step_net (s : Sim) (op : Op) : (step s op).net = s.net := by
  cases op with
  | act u k v => exact (act_frame s u k v).1
  | update => rfl
  | isolated => rfl
  | prepare => rfl
  | restart => rfl

theorem run_net (s : Sim) (ops : List Op) : (run s ops).net = s.net := by
  unfold run
  induction ops generalizing s with
  | nil => rfl
  | cons op ops ih => rw [List.foldl_cons, ih, step_net]

end Wntr.Isolation
