/-
Lemmas about the association lists (`AL`, an `OrderedDict`) and ordered sets (`OSet`) of the registry model M3,
in "lookup form": what `get?` / membership return after `set` / `del` / `add` / `discard`.
-/
import WntrModel.Model.Registry
import Mathlib.Data.List.Basic
import Mathlib.Data.List.Nodup

namespace Wntr.Registry

namespace AL
variable {α : Type}

@[simp] theorem get?_nil (x : Name) : get? ([] : List (Name × α)) x = none := rfl

theorem get?_cons (k : Name) (v : α) (t : List (Name × α)) (x : Name) :
    get? ((k, v) :: t) x = if k = x then some v else get? t x := rfl

@[simp] theorem get?_set (l : List (Name × α)) (k x : Name) (v : α) :
    get? (set l k v) x = if k = x then some v else get? l x := by
  induction l with
  | nil => simp [set, get?_cons]
  | cons h t ih =>
    obtain ⟨a, w⟩ := h
    simp only [set]
    by_cases hak : a = k
    · subst hak; simp only [if_true, get?_cons]; split <;> simp_all
    · simp only [hak, if_false, get?_cons, ih]
      by_cases hax : a = x
      · subst hax; simp [Ne.symm hak]
      · simp [hax]

@[simp] theorem get?_del (l : List (Name × α)) (k x : Name) :
    get? (del l k) x = if k = x then none else get? l x := by
  induction l with
  | nil => simp [del]
  | cons h t ih =>
    obtain ⟨a, w⟩ := h
    simp only [del]
    by_cases hak : a = k
    · subst hak; simp only [if_true, ih, get?_cons]; split <;> simp_all
    · simp only [hak, if_false, get?_cons, ih]
      by_cases hax : a = x
      · subst hax; simp [Ne.symm hak]
      · simp [hax]

theorem mem_keys (l : List (Name × α)) (x : Name) : x ∈ keys l ↔ (get? l x).isSome = true := by
  induction l with
  | nil => simp [keys]
  | cons h t ih =>
    obtain ⟨a, w⟩ := h
    simp only [keys, List.map_cons, List.mem_cons, get?_cons] at ih ⊢
    by_cases hax : a = x
    · simp [hax]
    · simp [hax, Ne.symm hax, ih]

theorem mem_keys_iff (l : List (Name × α)) (x : Name) : x ∈ keys l ↔ ∃ v, get? l x = some v := by
  rw [mem_keys, Option.isSome_iff_exists]

theorem not_mem_keys (l : List (Name × α)) (x : Name) : x ∉ keys l ↔ get? l x = none := by
  rw [mem_keys]; cases get? l x <;> simp

@[simp] theorem has_eq (l : List (Name × α)) (x : Name) : has l x = (get? l x).isSome := rfl

theorem keys_del (l : List (Name × α)) (k : Name) : keys (del l k) = (keys l).filter (fun y => y ≠ k) := by
  induction l with
  | nil => simp [del, keys]
  | cons h t ih =>
    obtain ⟨a, w⟩ := h
    simp only [del, keys, List.map_cons] at ih ⊢
    by_cases hak : a = k
    · simp [hak, ih]
    · simp [hak, ih]

theorem keys_set (l : List (Name × α)) (k : Name) (v : α) :
    keys (set l k v) = if k ∈ keys l then keys l else keys l ++ [k] := by
  induction l with
  | nil => simp [set, keys]
  | cons h t ih =>
    obtain ⟨a, w⟩ := h
    simp only [set, keys, List.map_cons, List.mem_cons] at ih ⊢
    by_cases hak : a = k
    · simp [hak]
    · simp only [hak, if_false, List.map_cons, ih, Ne.symm hak, false_or]
      split <;> simp_all

theorem nodup_keys_del (l : List (Name × α)) (k : Name) (h : (keys l).Nodup) : (keys (del l k)).Nodup := by
  rw [keys_del]; exact h.filter _

theorem nodup_keys_set (l : List (Name × α)) (k : Name) (v : α) (h : (keys l).Nodup) :
    (keys (set l k v)).Nodup := by
  rw [keys_set]
  split
  · exact h
  · rename_i hk
    exact List.Nodup.append h (List.nodup_singleton k) (by simpa using hk)

/-- `AL.Forall` in lookup form -/
theorem forall_iff (l : List (Name × α)) (P : Name → α → Prop) :
    AL.Forall l P ↔ ∀ k v, get? l k = some v → P k v := by
  unfold AL.Forall OAll
  constructor
  · intro h k v hk
    exact h k ((mem_keys_iff l k).2 ⟨v, hk⟩) v hk
  · intro h k _ v hk
    exact h k v hk

theorem del_of_get?_none (l : List (Name × α)) (k : Name) (h : get? l k = none) : del l k = l := by
  induction l with
  | nil => rfl
  | cons hd t ih =>
    obtain ⟨a, w⟩ := hd
    simp only [get?_cons] at h
    by_cases hak : a = k
    · simp [hak] at h
    · simp only [hak, if_false] at h
      simp [del, hak, ih h]

end AL

namespace OSet
variable {β : Type} [DecidableEq β]

@[simp] theorem mem_add (l : List β) (u x : β) : x ∈ add l u ↔ x ∈ l ∨ x = u := by
  unfold add
  split
  · constructor
    · exact Or.inl
    · rintro (h | h)
      · exact h
      · subst h; assumption
  · simp

@[simp] theorem mem_discard (l : List β) (u x : β) : x ∈ discard l u ↔ x ∈ l ∧ x ≠ u := by
  unfold discard; simp

theorem nodup_add (l : List β) (u : β) (h : l.Nodup) : (add l u).Nodup := by
  unfold add
  split
  · exact h
  · rename_i hu
    exact List.Nodup.append h (List.nodup_singleton u) (by simpa using hu)

theorem nodup_discard (l : List β) (u : β) (h : l.Nodup) : (discard l u).Nodup := h.filter _

@[simp] theorem discard_nil (u : β) : discard ([] : List β) u = [] := rfl

theorem discard_isEmpty (l : List β) (u : β) : (discard l u).isEmpty = true ↔ discard l u = [] := by
  simp [List.isEmpty_iff]
end OSet

/-! ### usage lookup -/

/-- the usage record of `k` in a usage map (empty when there is none) -/
def ulook (m : List (Name × List User)) (k : Name) : List User := (AL.get? m k).getD []

theorem users_eq (s : Reg) (r : RegId) (k : Name) : users s r k = ulook (s.usage r) k := rfl

@[simp] theorem ulook_nil (k : Name) : ulook [] k = [] := rfl

@[simp] theorem ulook_set (m : List (Name × List User)) (k x : Name) (v : List User) :
    ulook (AL.set m k v) x = if k = x then v else ulook m x := by
  unfold ulook; rw [AL.get?_set]; split <;> rfl

@[simp] theorem ulook_del (m : List (Name × List User)) (k x : Name) :
    ulook (AL.del m k) x = if k = x then [] else ulook m x := by
  unfold ulook; rw [AL.get?_del]; split <;> rfl

/-- `UForall` in lookup form: the keys are irrelevant, a name without a record has no users -/
theorem uforall_iff (s : Reg) (r : RegId) (P : Name → User → Prop) :
    UForall s r P ↔ ∀ k u, u ∈ ulook (s.usage r) k → P k u := by
  unfold UForall
  constructor
  · intro h k u hu
    by_cases hk : k ∈ AL.keys (s.usage r)
    · exact h k hk u hu
    · rw [AL.not_mem_keys] at hk
      simp [ulook, hk] at hu
  · intro h k _ u hu
    exact h k u hu

end Wntr.Registry
