/-
Lemmas for C15, expression layer (core Lean only):
* stack discipline of the C++ `_evaluate` machine (`run_append`) and one lemma per opcode class;
* `run_toRpn`: the RPN of a tree evaluates to the tree's value;
* a relational induction principle for the pass `for oper in operators(): …` (`foldAlg_rel`, `runAlg_rel`);
* `pyEvaluate = eval ∘ denote`, `getRpn` evaluates to `eval ∘ denote` for EVERY well-formed operator list
  (repeats allowed), totality of the passes on well-formed lists.
-/
import WntrModel.Model.Rpn
namespace Wntr.Aml

/-! ### stack machine -/

theorem run_append (O : Ops α) (vals : Nat → α) (r₁ r₂ : List Int) (s : List α) :
    run O vals (r₁ ++ r₂) s = (run O vals r₁ s).bind (run O vals r₂) := by
  induction r₁ generalizing s with
  | nil => simp [run]
  | cons t ts ih =>
    simp only [List.cons_append, run]
    cases step O vals s t with
    | none => simp
    | some s' => simp [ih]

theorem step_leaf (O : Ops α) (vals : Nat → α) (s : List α) (n : Nat) :
    step O vals s (n : Int) = some (vals n :: s) := by
  simp [step]

theorem step_bin (O : Ops α) (vals : Nat → α) (op : Bin) (a1 a2 : α) (r : List α) :
    step O vals (a2 :: a1 :: r) op.code = some (O.bin op a1 a2 :: r) := by
  cases op <;> simp [step, Bin.code, decodeBin]

theorem step_un (O : Ops α) (vals : Nat → α) (op : Un) (a : α) (r : List α) :
    step O vals (a :: r) op.code = some (O.un op a :: r) := by
  cases op <;> simp [step, Un.code, decodeBin, decodeUn]

theorem step_ifElse (O : Ops α) (vals : Nat → α) (a a1 a2 : α) (r : List α) :
    step O vals (a2 :: a1 :: a :: r) codeIfElse = some ((if O.isOne a then a1 else a2) :: r) := by
  simp [step, codeIfElse, decodeBin, decodeUn]

theorem step_ineq (O : Ops α) (vals : Nat → α) (a a1 a2 : α) (r : List α) :
    step O vals (a2 :: a1 :: a :: r) codeIneq = some (O.ofBool (O.le a1 a && O.le a a2) :: r) := by
  simp [step, codeIneq, codeIfElse, decodeBin, decodeUn]

theorem run_single (O : Ops α) (vals : Nat → α) (t : Int) (s : List α) :
    run O vals [t] s = step O vals s t := by
  simp only [run]
  cases step O vals s t <;> simp

/-- "a piece of RPN `r` pushes the value `v`" -/
def Pushes (O : Ops α) (vals : Nat → α) (r : List Int) (v : α) : Prop :=
  ∀ s, run O vals r s = some (v :: s)

theorem pushes_leaf (O : Ops α) (vals : Nat → α) (n : Nat) : Pushes O vals [(n : Int)] (vals n) := by
  intro s; rw [run_single, step_leaf]

theorem pushes_bin {O : Ops α} {vals : Nat → α} {ra rb : List Int} {x y : α} (op : Bin)
    (ha : Pushes O vals ra x) (hb : Pushes O vals rb y) :
    Pushes O vals (ra ++ rb ++ [op.code]) (O.bin op x y) := by
  intro s
  rw [run_append, run_append, ha s]
  simp only [Option.bind_some]
  rw [hb (x :: s)]
  simp only [Option.bind_some]
  rw [run_single, step_bin]

theorem pushes_un {O : Ops α} {vals : Nat → α} {ra : List Int} {x : α} (op : Un)
    (ha : Pushes O vals ra x) : Pushes O vals (ra ++ [op.code]) (O.un op x) := by
  intro s
  rw [run_append, ha s]
  simp only [Option.bind_some]
  rw [run_single, step_un]

theorem pushes_ifElse {O : Ops α} {vals : Nat → α} {rc rt re : List Int} {c t e : α}
    (hc : Pushes O vals rc c) (ht : Pushes O vals rt t) (he : Pushes O vals re e) :
    Pushes O vals (rc ++ rt ++ re ++ [codeIfElse]) (if O.isOne c then t else e) := by
  intro s
  rw [run_append, run_append, run_append, hc s]
  simp only [Option.bind_some]
  rw [ht (c :: s)]
  simp only [Option.bind_some]
  rw [he (t :: c :: s)]
  simp only [Option.bind_some]
  rw [run_single, step_ifElse]

theorem pushes_ineq {O : Ops α} {vals : Nat → α} {rb : List Int} {v : α} (nl nu : Nat)
    (hb : Pushes O vals rb v) :
    Pushes O vals (rb ++ [(nl : Int), (nu : Int), codeIneq])
      (O.ofBool (O.le (vals nl) v && O.le v (vals nu))) := by
  intro s
  rw [run_append, hb s]
  simp only [Option.bind_some]
  simp only [run, step_leaf, Option.bind_some, step_ineq]

/-- the laws of the two infinite doubles that the bounds of a one-sided inequality rely on
(true of IEEE doubles for every non-NaN `v`) -/
structure InfLaws (O : Ops α) (I : InfVals α) : Prop where
  le_negInf : ∀ v, O.le I.negInf v = true
  le_posInf : ∀ v, O.le v I.posInf = true

theorem ineq_value (O : Ops α) (I : InfVals α) (env : Env α) (hI : InfLaws O I) (v : α) (lb ub : Option Rat) :
    O.ofBool (O.le (leafVal O I env (lbLeaf lb)) v && O.le v (leafVal O I env (ubLeaf ub))) =
    O.ofBool ((match lb with | none => true | some l => O.le (O.ofRat l) v) &&
              (match ub with | none => true | some u => O.le v (O.ofRat u))) := by
  cases lb <;> cases ub <;> simp [lbLeaf, ubLeaf, leafVal, hI.le_negInf, hI.le_posInf]

/-- RPN of a tree pushes the tree's value, whatever is below it on the stack -/
theorem run_toRpn (O : Ops α) (I : InfVals α) (hI : InfLaws O I) (env : Env α) (vals : Nat → α) (ndx : TLeaf → Nat)
    (hv : ∀ l, vals (ndx l) = leafVal O I env l) (e : Expr) :
    Pushes O vals (toRpn ndx e) (eval O env e) := by
  induction e with
  | var i => have := pushes_leaf O vals (ndx (.var i)); rw [hv] at this; exact this
  | param i => have := pushes_leaf O vals (ndx (.param i)); rw [hv] at this; exact this
  | const q => have := pushes_leaf O vals (ndx (.const q)); rw [hv] at this; exact this
  | bin op a b iha ihb => exact pushes_bin op iha ihb
  | un op a iha => exact pushes_un op iha
  | ifElse c t e ihc iht ihe => exact pushes_ifElse ihc iht ihe
  | ineq b lb ub ihb =>
    have := pushes_ineq (ndx (lbLeaf lb)) (ndx (ubLeaf ub)) ihb
    rw [hv, hv, ineq_value O I env hI] at this
    exact this

/-! ### relational induction over the operator-list pass -/

inductive ORel (R : β → γ → Prop) : Option β → Option γ → Prop
  | none : ORel R none none
  | some {x : β} {y : γ} : R x y → ORel R (some x) (some y)

theorem ORel.bind {R : β → γ → Prop} {S : β' → γ' → Prop} {a : Option β} {b : Option γ}
    {f : β → Option β'} {g : γ → Option γ'}
    (h : ORel R a b) (hf : ∀ x y, R x y → ORel S (f x) (g y)) : ORel S (a.bind f) (b.bind g) := by
  cases h with
  | none => exact .none
  | some hxy => exact hf _ _ hxy

def MapRel (R : β → γ → Prop) : List (Nat × β) → List (Nat × γ) → Prop
  | [], [] => True
  | p :: m, q :: m' => p.1 = q.1 ∧ R p.2 q.2 ∧ MapRel R m m'
  | _, _ => False

theorem MapRel.lookup {R : β → γ → Prop} {m : List (Nat × β)} {m' : List (Nat × γ)} (h : MapRel R m m') (k : Nat) :
    ORel R (m.lookup k) (m'.lookup k) := by
  induction m generalizing m' with
  | nil => cases m' with
    | nil => exact .none
    | cons q m' => exact absurd h (by simp [MapRel])
  | cons p m ih => cases m' with
    | nil => exact absurd h (by simp [MapRel])
    | cons q m' =>
      obtain ⟨k1, x⟩ := p
      obtain ⟨k2, y⟩ := q
      obtain ⟨hk, hr, hm⟩ := h
      simp only at hk
      subst hk
      simp only [List.lookup_cons]
      cases k == k1 with
      | true => exact .some hr
      | false => exact ih hm

/-- preservation of a relation by two passes; `Q` restricts the leaf operands, `P` the bounds of inequality nodes -/
structure AlgRel (R : β → γ → Prop) (Q : PLeaf → Prop) (P : PLeaf → PLeaf → Prop) (A : Alg β) (B : Alg γ) : Prop where
  leaf : ∀ l, Q l → R (A.leaf l) (B.leaf l)
  bin : ∀ op x x' y y', R x x' → R y y' → R (A.bin op x y) (B.bin op x' y')
  un : ∀ op x x', R x x' → R (A.un op x) (B.un op x')
  ifElse : ∀ c c' t t' e e', R c c' → R t t' → R e e' → R (A.ifElse c t e) (B.ifElse c' t' e')
  ineq : ∀ x x' lb ub, P lb ub → R x x' → R (A.ineq x lb ub) (B.ineq x' lb ub)

def Operand.ok (Q : PLeaf → Prop) : Operand → Prop
  | .leaf l => Q l
  | .op _ => True

def PyOp.ok (Q : PLeaf → Prop) (P : PLeaf → PLeaf → Prop) : PyOp → Prop
  | .bin _ a b => a.ok Q ∧ b.ok Q
  | .un _ a => a.ok Q
  | .ifElse c t e => c.ok Q ∧ t.ok Q ∧ e.ok Q
  | .ineq b lb ub => b.ok Q ∧ P lb ub

theorem AlgRel.operand {R : β → γ → Prop} {Q P} {A : Alg β} {B : Alg γ} (h : AlgRel R Q P A B)
    {m : List (Nat × β)} {m' : List (Nat × γ)} (hm : MapRel R m m') (o : Operand) (ho : o.ok Q) :
    ORel R (A.operand m o) (B.operand m' o) := by
  cases o with
  | leaf l => exact .some (h.leaf l ho)
  | op i => exact hm.lookup i

theorem AlgRel.node {R : β → γ → Prop} {Q P} {A : Alg β} {B : Alg γ} (h : AlgRel R Q P A B)
    {m : List (Nat × β)} {m' : List (Nat × γ)} (hm : MapRel R m m') (op : PyOp) (hp : op.ok Q P) :
    ORel R (A.node m op) (B.node m' op) := by
  cases op with
  | bin o a b =>
    exact (h.operand hm a hp.1).bind fun x x' hx => (h.operand hm b hp.2).bind fun y y' hy =>
      .some (h.bin o x x' y y' hx hy)
  | un o a => exact (h.operand hm a hp).bind fun x x' hx => .some (h.un o x x' hx)
  | ifElse c t e =>
    exact (h.operand hm c hp.1).bind fun x x' hx => (h.operand hm t hp.2.1).bind fun y y' hy =>
      (h.operand hm e hp.2.2).bind fun z z' hz => .some (h.ifElse x x' y y' z z' hx hy hz)
  | ineq b lb ub => exact (h.operand hm b hp.1).bind fun x x' hx => .some (h.ineq x x' lb ub hp.2 hx)

theorem foldAlg_rel {R : β → γ → Prop} {Q P} {A : Alg β} {B : Alg γ} (h : AlgRel R Q P A B) (ops : OpList)
    (hp : ∀ n ∈ ops, n.op.ok Q P) {m : List (Nat × β)} {m' : List (Nat × γ)} (hm : MapRel R m m') :
    ORel (MapRel R) (foldAlg A ops m) (foldAlg B ops m') := by
  induction ops generalizing m m' with
  | nil => exact .some hm
  | cons n rest ih =>
    simp only [foldAlg]
    refine (h.node hm n.op (hp n (by simp))).bind fun x y hxy => ?_
    exact ih (fun k hk => hp k (by simp [hk])) ⟨rfl, hxy, hm⟩

theorem runAlg_rel {R : β → γ → Prop} {Q P} {A : Alg β} {B : Alg γ} (h : AlgRel R Q P A B) (ops : OpList)
    (hp : ∀ n ∈ ops, n.op.ok Q P) : ORel R (runAlg A ops) (runAlg B ops) := by
  unfold runAlg
  refine (foldAlg_rel h ops hp (m := []) (m' := []) trivial).bind fun m m' hm => ?_
  cases ops.getLast? with
  | none => exact .none
  | some n => exact hm.lookup n.id

theorem PyOp.ok_trivial (op : PyOp) : op.ok (fun _ => True) (fun _ _ => True) := by
  cases op with
  | bin o a b => cases a <;> cases b <;> simp [PyOp.ok, Operand.ok]
  | un o a => cases a <;> simp [PyOp.ok, Operand.ok]
  | ifElse c t e => cases c <;> cases t <;> cases e <;> simp [PyOp.ok, Operand.ok]
  | ineq b lb ub => cases b <;> simp [PyOp.ok, Operand.ok]

/-! ### `expression.evaluate()` is `eval` of the denoted tree -/

theorem algRel_tree_eval (O : Ops α) (env : Env α) :
    AlgRel (fun t v => eval O env t = v) (fun _ => True) (fun _ _ => True) algTree (algEval O env) where
  leaf := fun _ _ => rfl
  bin := by intro op x x' y y' hx hy; subst hx; subst hy; rfl
  un := by intro op x x' hx; subst hx; rfl
  ifElse := by intro c c' t t' e e' hc ht he; subst hc; subst ht; subst he; rfl
  ineq := by intro x x' lb ub _ hx; subst hx; rfl

theorem pyEvaluate_eq_eval_denote (O : Ops α) (env : Env α) (ops : OpList) :
    pyEvaluate O env ops = (denote ops).map (eval O env) := by
  have h := runAlg_rel (algRel_tree_eval O env) ops (fun n _ => n.op.ok_trivial)
  unfold pyEvaluate denote
  generalize runAlg algTree ops = a at h ⊢
  generalize runAlg (algEval O env) ops = b at h ⊢
  cases h with
  | none => rfl
  | some hxy => simp [hxy]

/-! ### repaired `get_rpn` -/

def pleafVal (O : Ops α) (I : InfVals α) (env : Env α) (l : PLeaf) : α := leafVal O I env l.toTLeaf

/-- the bounds of an inequality are `Float` leaves, the lower one finite or −inf, the upper one finite or +inf -/
def boundsP : PLeaf → PLeaf → Prop
  | .flt _ (.fin _), .flt _ (.fin _) => True
  | .flt _ .negInf, .flt _ (.fin _) => True
  | .flt _ (.fin _), .flt _ .posInf => True
  | .flt _ .negInf, .flt _ .posInf => True
  | _, _ => False

/-- ordinary operands are finite: an infinite `Float` only occurs as a bound -/
def PLeaf.finite : PLeaf → Prop
  | .flt _ .negInf => False
  | .flt _ .posInf => False
  | _ => True

theorem pleafVal_finite (O : Ops α) (I : InfVals α) (env : Env α) (l : PLeaf) (h : l.finite) :
    pleafVal O I env l = eval O env l.toExpr := by
  cases l with
  | var i => rfl
  | param i => rfl
  | flt id v => cases v <;> first | rfl | exact absurd h (by simp [PLeaf.finite])

theorem ineq_pvalue (O : Ops α) (I : InfVals α) (hI : InfLaws O I) (env : Env α) (v : α) (lb ub : PLeaf)
    (h : boundsP lb ub) :
    O.ofBool (O.le (pleafVal O I env lb) v && O.le v (pleafVal O I env ub)) =
    O.ofBool ((match lb.bound with | none => true | some l => O.le (O.ofRat l) v) &&
              (match ub.bound with | none => true | some u => O.le v (O.ofRat u))) := by
  cases lb with
  | var i => exact absurd h (by simp [boundsP])
  | param i => exact absurd h (by simp [boundsP])
  | flt i1 v1 =>
    cases ub with
    | var i => exact absurd h (by cases v1 <;> simp [boundsP])
    | param i => exact absurd h (by cases v1 <;> simp [boundsP])
    | flt i2 v2 =>
      cases v1 <;> cases v2 <;>
        first
        | (exfalso; simp [boundsP] at h; done)
        | simp [pleafVal, PLeaf.toTLeaf, leafVal, PLeaf.bound, FVal.bound, hI.le_negInf, hI.le_posInf]

theorem algRel_rpn_eval (O : Ops α) (I : InfVals α) (hI : InfLaws O I) (env : Env α) (vals : Nat → α)
    (ndx : PLeaf → Nat) (hv : ∀ l, vals (ndx l) = pleafVal O I env l) :
    AlgRel (fun r v => Pushes O vals r v) PLeaf.finite boundsP (algRpn ndx) (algEval O env) where
  leaf := by
    intro l hl
    have := pushes_leaf O vals (ndx l)
    rw [hv, pleafVal_finite O I env l hl] at this
    exact this
  bin := fun op _ _ _ _ hx hy => pushes_bin op hx hy
  un := fun op _ _ hx => pushes_un op hx
  ifElse := fun _ _ _ _ _ _ hc ht he => pushes_ifElse hc ht he
  ineq := by
    intro x x' lb ub hP hx
    have := pushes_ineq (ndx lb) (ndx ub) hx
    rw [hv, hv, ineq_pvalue O I hI env x' lb ub hP] at this
    exact this

/-- well-formedness the harness' reflection guarantees for lists built by the overloads -/
def OpList.ok (ops : OpList) : Prop := ∀ n ∈ ops, n.op.ok PLeaf.finite boundsP

/-- **the repaired `get_rpn` is right for every operator list, with or without repeated operators**:
whenever it returns, `expression.evaluate()` returns too, and the RPN run by the C++ machine pushes that value. -/
theorem getRpn_pushes (O : Ops α) (I : InfVals α) (hI : InfLaws O I) (env : Env α) (vals : Nat → α)
    (ndx : PLeaf → Nat) (hv : ∀ l, vals (ndx l) = pleafVal O I env l) (ops : OpList) (hok : ops.ok)
    (r : List Int) (hr : getRpn ndx ops = some r) :
    ∃ e, denote ops = some e ∧ pyEvaluate O env ops = some (eval O env e) ∧
      evalRpn O vals r = some (eval O env e) := by
  have h := runAlg_rel (algRel_rpn_eval O I hI env vals ndx hv) ops hok
  unfold getRpn at hr
  rw [hr] at h
  cases hev : runAlg (algEval O env) ops with
  | none => rw [hev] at h; cases h
  | some v =>
    rw [hev] at h
    cases h with
    | some hp =>
      have hpe := pyEvaluate_eq_eval_denote O env ops
      unfold pyEvaluate at hpe
      rw [hev] at hpe
      cases hd : denote ops with
      | none => rw [hd] at hpe; simp at hpe
      | some e =>
        rw [hd] at hpe
        simp only [Option.map_some, Option.some.injEq] at hpe
        refine ⟨e, rfl, ?_, ?_⟩
        · unfold pyEvaluate; rw [hev, hpe]
        · unfold evalRpn; rw [hp []]; simp [hpe]

/-! ### the passes never raise KeyError on a well-formed list -/

theorem Alg.operand_isSome (A : Alg β) (m : List (Nat × β)) (seen : List Nat)
    (hseen : ∀ i ∈ seen, (m.lookup i).isSome) (o : Operand) (ho : operandOk seen o = true) :
    ∃ x, A.operand m o = some x := by
  cases o with
  | leaf l => exact ⟨_, rfl⟩
  | op i =>
    have : i ∈ seen := by simpa [operandOk] using ho
    have := hseen i this
    exact Option.isSome_iff_exists.mp this

theorem Alg.node_isSome (A : Alg β) (m : List (Nat × β)) (seen : List Nat)
    (hseen : ∀ i ∈ seen, (m.lookup i).isSome) (op : PyOp) (ho : op.operands.all (operandOk seen) = true) :
    ∃ x, A.node m op = some x := by
  cases op with
  | bin o a b =>
    simp only [PyOp.operands, List.all_cons, List.all_nil, Bool.and_true, Bool.and_eq_true] at ho
    obtain ⟨x, hx⟩ := A.operand_isSome m seen hseen a ho.1
    obtain ⟨y, hy⟩ := A.operand_isSome m seen hseen b ho.2
    exact ⟨A.bin o x y, by simp [Alg.node, hx, hy]⟩
  | un o a =>
    simp only [PyOp.operands, List.all_cons, List.all_nil, Bool.and_true] at ho
    obtain ⟨x, hx⟩ := A.operand_isSome m seen hseen a ho
    exact ⟨A.un o x, by simp [Alg.node, hx]⟩
  | ifElse c t e =>
    simp only [PyOp.operands, List.all_cons, List.all_nil, Bool.and_true, Bool.and_eq_true] at ho
    obtain ⟨x, hx⟩ := A.operand_isSome m seen hseen c ho.1
    obtain ⟨y, hy⟩ := A.operand_isSome m seen hseen t ho.2.1
    obtain ⟨z, hz⟩ := A.operand_isSome m seen hseen e ho.2.2
    exact ⟨A.ifElse x y z, by simp [Alg.node, hx, hy, hz]⟩
  | ineq b lb ub =>
    simp only [PyOp.operands, List.all_cons, List.all_nil, Bool.and_true] at ho
    obtain ⟨x, hx⟩ := A.operand_isSome m seen hseen b ho
    exact ⟨A.ineq x lb ub, by simp [Alg.node, hx]⟩

theorem foldAlg_isSome (A : Alg β) (ops : OpList) (m : List (Nat × β)) (seen : List Nat)
    (hseen : ∀ i ∈ seen, (m.lookup i).isSome) (hwf : wellFormedFrom seen ops = true) :
    ∃ m', foldAlg A ops m = some m' ∧ ∀ n ∈ ops, (m'.lookup n.id).isSome := by
  induction ops generalizing m seen with
  | nil => exact ⟨m, rfl, by simp⟩
  | cons n rest ih =>
    simp only [wellFormedFrom, Bool.and_eq_true] at hwf
    obtain ⟨x, hx⟩ := A.node_isSome m seen hseen n.op hwf.1
    have hseen' : ∀ i ∈ n.id :: seen, (((n.id, x) :: m).lookup i).isSome := by
      intro i hi
      simp only [List.lookup_cons]
      cases h : i == n.id with
      | true => rfl
      | false =>
        have : i ≠ n.id := by simpa using h
        have : i ∈ seen := by
          cases List.mem_cons.mp hi with
          | inl h' => exact absurd h' this
          | inr h' => exact h'
        exact hseen i this
    obtain ⟨m', hm', hall⟩ := ih ((n.id, x) :: m) (n.id :: seen) hseen' hwf.2
    refine ⟨m', by simp [foldAlg, hx, hm'], ?_⟩
    intro k hk
    cases List.mem_cons.mp hk with
    | inl h' =>
      subst h'
      -- the entry of the head survives (possibly shadowed by a later occurrence of the same object)
      exact foldAlg_keeps A rest _ m' hm' k.id (by simp)
    | inr h' => exact hall k h'
where
  foldAlg_keeps (A : Alg β) (ops : OpList) (m m' : List (Nat × β)) (h : foldAlg A ops m = some m') (i : Nat)
      (hi : (m.lookup i).isSome) : (m'.lookup i).isSome := by
    induction ops generalizing m with
    | nil => simp only [foldAlg, Option.some.injEq] at h; subst h; exact hi
    | cons n rest ih =>
      simp only [foldAlg] at h
      cases hx : A.node m n.op with
      | none => simp [hx] at h
      | some x =>
        simp only [hx, Option.bind_some] at h
        refine ih _ h ?_
        simp only [List.lookup_cons]
        cases i == n.id <;> simp [hi]

/-- no `KeyError`: on a non-empty well-formed operator list every pass returns a value -/
theorem runAlg_isSome (A : Alg β) (ops : OpList) (hne : ops ≠ []) (hwf : wellFormed ops = true) :
    ∃ x, runAlg A ops = some x := by
  obtain ⟨m', hm', hall⟩ := foldAlg_isSome A ops [] [] (by simp) hwf
  unfold runAlg
  rw [hm']
  simp only [Option.bind_some]
  cases hl : ops.getLast? with
  | none => exact absurd (List.getLast?_eq_none_iff.mp hl) hne
  | some n =>
    have : n ∈ ops := List.mem_of_getLast? hl
    exact Option.isSome_iff_exists.mp (hall n this)

end Wntr.Aml
