/-
Lemmas for C15: the operator overloads of `expr.py` (the shortcuts `x+0`, `x*1`, `x*0`, `x**0`, `x**1`, `0/x`, `0-x`,
`1**x`, `0**x`, Float∘Float folding, reflected operators) preserve the value of the expression.

Values live in a field `α`; `LawfulOps` says that the `Ops` record is that field's arithmetic plus the handful of facts
about `pow`, `abs`, `sign`, `≤`, `== 1` on rational constants that the shortcuts use. Total-function semantics: `x*0 = 0`
and `0/x = 0` hold for every `x`, so the DOMAIN CAVEAT of the code (`0*x`, `x**0`, `0/x` are folded even where `x` is
undefined, i.e. NaN/inf in IEEE arithmetic) is invisible here and is recorded in the statement of `0**x` only, where the
value really depends on `x`.
-/
import WntrModel.Model.Rpn
import Mathlib.Tactic.Ring
import Mathlib.Algebra.Field.Basic
namespace Wntr.Aml

structure LawfulOps {α : Type} [Field α] (O : Ops α) : Prop where
  add_eq : ∀ x y, O.add x y = x + y
  sub_eq : ∀ x y, O.sub x y = x - y
  mul_eq : ∀ x y, O.mul x y = x * y
  div_eq : ∀ x y, O.div x y = x / y
  neg_eq : ∀ x, O.neg x = -x
  ofRat_zero : O.ofRat 0 = 0
  ofRat_one : O.ofRat 1 = 1
  ofRat_add : ∀ p q, O.ofRat (p + q) = O.ofRat p + O.ofRat q
  ofRat_sub : ∀ p q, O.ofRat (p - q) = O.ofRat p - O.ofRat q
  ofRat_mul : ∀ p q, O.ofRat (p * q) = O.ofRat p * O.ofRat q
  ofRat_neg : ∀ p, O.ofRat (-p) = -O.ofRat p
  ofRat_div : ∀ p q, q ≠ 0 → O.ofRat (p / q) = O.ofRat p / O.ofRat q
  pow_zero : ∀ x, O.pow x 0 = 1                 -- Python and C: x ** 0 == 1 for every x
  pow_one : ∀ x, O.pow x 1 = x
  one_pow : ∀ y, O.pow 1 y = 1
  pow_nat : ∀ (x : Rat) (n : Nat), O.pow (O.ofRat x) (O.ofRat n) = O.ofRat (ratNatPow x n)
  abs_ofRat : ∀ x : Rat, O.abs (O.ofRat x) = O.ofRat (if 0 ≤ x then x else -x)
  sign_ofRat : ∀ x : Rat, O.sign (O.ofRat x) = O.ofRat (if 0 ≤ x then 1 else -1)
  le_ofRat : ∀ p q : Rat, O.le (O.ofRat p) (O.ofRat q) = decide (p ≤ q)
  isOne_ofRat : ∀ q : Rat, O.isOne (O.ofRat q) = decide (q = 1)

set_option linter.unusedSectionVars false
variable {α : Type} [Field α] {O : Ops α}

/-- value of a Python-level value (`num q` is the native number `q`) -/
def evalS (O : Ops α) (env : Env α) (s : SVal) : α := eval O env s.toExpr

@[simp] theorem evalS_num (env : Env α) (q : Rat) : evalS O env (.num q) = O.ofRat q := rfl
@[simp] theorem evalS_ex (env : Env α) (e : Expr) : evalS O env (.ex e) = eval O env e := rfl
@[simp] theorem eval_const (env : Env α) (q : Rat) : eval O env (.const q) = O.ofRat q := rfl
@[simp] theorem eval_bin (env : Env α) (op : Bin) (a b : Expr) :
    eval O env (.bin op a b) = O.bin op (eval O env a) (eval O env b) := rfl
@[simp] theorem eval_un (env : Env α) (op : Un) (a : Expr) : eval O env (.un op a) = O.un op (eval O env a) := rfl

theorem ratPowNat_ok (y : Rat) (h : y.den = 1 ∧ 0 ≤ y.num) : ((y.num.toNat : Nat) : Rat) = y := by
  obtain ⟨hd, hn⟩ := h
  have h1 : ((y.num.toNat : Nat) : Int) = y.num := Int.toNat_of_nonneg hn
  have h2 : (y.num : Rat) = y := by
    have := Rat.num_div_den y
    rw [hd] at this
    simpa using this
  rw [← h2]
  exact_mod_cast congrArg (fun z : Int => (z : Rat)) h1

/-- folding of two native numbers / Float objects computes the operation on the constants -/
theorem ratBin_sound (L : LawfulOps O) (op : Bin) (x y r : Rat) (h : ratBin op x y = some r) :
    O.ofRat r = O.bin op (O.ofRat x) (O.ofRat y) := by
  cases op with
  | add => simp only [ratBin, Option.some.injEq] at h; subst h; simp [Ops.bin, L.ofRat_add, L.add_eq]
  | sub => simp only [ratBin, Option.some.injEq] at h; subst h; simp [Ops.bin, L.ofRat_sub, L.sub_eq]
  | mul => simp only [ratBin, Option.some.injEq] at h; subst h; simp [Ops.bin, L.ofRat_mul, L.mul_eq]
  | div =>
    simp only [ratBin] at h
    split at h
    · simp at h
    · rename_i hy
      simp only [Option.some.injEq] at h; subst h
      simp [Ops.bin, L.ofRat_div _ _ hy, L.div_eq]
  | pow =>
    simp only [ratBin] at h
    split at h
    · rename_i hy
      simp only [Option.some.injEq] at h; subst h
      have := L.pow_nat x y.num.toNat
      rw [ratPowNat_ok y hy] at this
      simp [Ops.bin, this]
    · simp at h

theorem sNumNum_sound (L : LawfulOps O) (env : Env α) (op : Bin) (x y : Rat) :
    evalS O env (sNumNum op x y) = O.bin op (O.ofRat x) (O.ofRat y) := by
  unfold sNumNum
  cases h : ratBin op x y with
  | none => simp
  | some r => simp [ratBin_sound L op x y r h]

theorem sBinObj_sound (L : LawfulOps O) (env : Env α) (op : Bin) (a b : Expr) :
    evalS O env (sBinObj op a b) = O.bin op (eval O env a) (eval O env b) := by
  unfold sBinObj
  split
  · rename_i x y
    cases h : ratBin op x y with
    | none => simp
    | some r => simp [ratBin_sound L op x y r h]
  · simp

theorem sBinObjNum_sound (L : LawfulOps O) (env : Env α) (op : Bin) (a : Expr) (y : Rat) :
    evalS O env (sBinObjNum op a y) = O.bin op (eval O env a) (O.ofRat y) := by
  unfold sBinObjNum
  split
  · rename_i x
    cases h : ratBin op x y with
    | none => simp
    | some r => simp [ratBin_sound L op x y r h]
  · simp

theorem sAdd_sound (L : LawfulOps O) (env : Env α) (a b : SVal) :
    evalS O env (sAdd a b) = evalS O env a + evalS O env b := by
  cases a <;> cases b <;> simp only [sAdd]
  · simp [sNumNum_sound L, Ops.bin, L.add_eq]
  · split
    · rename_i h; subst h; simp [L.ofRat_zero]
    · simp [sBinObj_sound L, Ops.bin, L.add_eq]
  · split
    · rename_i h; subst h; simp [L.ofRat_zero]
    · simp [sBinObjNum_sound L, Ops.bin, L.add_eq]
  · simp [sBinObj_sound L, Ops.bin, L.add_eq]

theorem sNeg_sound (L : LawfulOps O) (env : Env α) (a : SVal) :
    evalS O env (sNeg a) = -evalS O env a := by
  cases a with
  | num x => simp [sNeg, L.ofRat_neg]
  | ex e => cases e <;> simp [sNeg, L.ofRat_neg, Ops.un, L.neg_eq]

theorem sSub_sound (L : LawfulOps O) (env : Env α) (a b : SVal) :
    evalS O env (sSub a b) = evalS O env a - evalS O env b := by
  cases a <;> cases b <;> simp only [sSub]
  · simp [sNumNum_sound L, Ops.bin, L.sub_eq]
  · split
    · rename_i h; subst h; rw [sNeg_sound L]; simp [L.ofRat_zero]
    · simp [sBinObj_sound L, Ops.bin, L.sub_eq]
  · split
    · rename_i h; subst h; simp [L.ofRat_zero]
    · simp [sBinObjNum_sound L, Ops.bin, L.sub_eq]
  · simp [sBinObj_sound L, Ops.bin, L.sub_eq]

theorem sMul_sound (L : LawfulOps O) (env : Env α) (a b : SVal) :
    evalS O env (sMul a b) = evalS O env a * evalS O env b := by
  cases a <;> cases b <;> simp only [sMul]
  · simp [sNumNum_sound L, Ops.bin, L.mul_eq]
  · split
    · rename_i h; subst h; simp [L.ofRat_zero]
    · split
      · rename_i h; subst h; simp [L.ofRat_one]
      · simp [sBinObj_sound L, Ops.bin, L.mul_eq]
  · split
    · rename_i h; subst h; simp [L.ofRat_zero]
    · split
      · rename_i h; subst h; simp [L.ofRat_one]
      · simp [sBinObjNum_sound L, Ops.bin, L.mul_eq]
  · simp [sBinObj_sound L, Ops.bin, L.mul_eq]

theorem sDiv_sound (L : LawfulOps O) (env : Env α) (a b r : SVal) (h : sDiv a b = some r) :
    evalS O env r = evalS O env a / evalS O env b := by
  cases a <;> cases b <;> simp only [sDiv] at h
  · split at h
    · simp at h
    · simp only [Option.some.injEq] at h; subst h; simp [sNumNum_sound L, Ops.bin, L.div_eq]
  · split at h
    · rename_i h0; subst h0; simp only [Option.some.injEq] at h; subst h; simp [L.ofRat_zero]
    · split at h
      · split at h
        · simp at h
        · simp only [Option.some.injEq] at h; subst h; simp [sNumNum_sound L, Ops.bin, L.div_eq]
      · simp only [Option.some.injEq] at h; subst h; simp [Ops.bin, L.div_eq]
  · split at h
    · simp at h
    · split at h
      · rename_i h1; subst h1; simp only [Option.some.injEq] at h; subst h; simp [L.ofRat_one]
      · split at h
        · simp only [Option.some.injEq] at h; subst h; simp [sNumNum_sound L, Ops.bin, L.div_eq]
        · simp only [Option.some.injEq] at h; subst h; simp [Ops.bin, L.div_eq]
  · split at h
    · split at h
      · simp at h
      · simp only [Option.some.injEq] at h; subst h; simp [sNumNum_sound L, Ops.bin, L.div_eq]
    · simp only [Option.some.injEq] at h; subst h; simp [Ops.bin, L.div_eq]

/-- `**`: the shortcut `0 ** x → 0` is sound only where `pow 0 x = 0` (x > 0): that is the hypothesis `h0` -/
theorem sPow_sound (L : LawfulOps O) (env : Env α) (a b : SVal)
    (h0 : ∀ e, a = .num 0 → b = .ex e → O.pow 0 (eval O env e) = 0) :
    evalS O env (sPow a b) = O.pow (evalS O env a) (evalS O env b) := by
  cases a <;> cases b <;> simp only [sPow]
  · simp [sNumNum_sound L, Ops.bin]
  · split
    · rename_i h; subst h
      rename_i e
      simp [L.ofRat_zero, h0 e rfl rfl]
    · split
      · rename_i h; subst h; simp [L.ofRat_one, L.one_pow]
      · simp [sBinObj_sound L, Ops.bin]
  · split
    · rename_i h; subst h; simp [L.ofRat_zero, L.ofRat_one, L.pow_zero]
    · split
      · rename_i h; subst h; simp [L.ofRat_one, L.pow_one]
      · simp [sBinObjNum_sound L, Ops.bin]
  · simp [sBinObj_sound L, Ops.bin]

theorem ratUn_sound (L : LawfulOps O) (op : Un) (x r : Rat) (h : ratUn op x = some r) :
    O.ofRat r = O.un op (O.ofRat x) := by
  cases op <;> simp only [ratUn, Option.some.injEq] at h <;> first | (subst h) | (exact absurd h (by simp))
  · simp [Ops.un, L.neg_eq, L.ofRat_neg]
  · simp [Ops.un, L.abs_ofRat]
  · simp [Ops.un, L.sign_ofRat]

theorem sUn_sound (L : LawfulOps O) (env : Env α) (op : Un) (a : SVal) :
    evalS O env (sUn op a) = O.un op (evalS O env a) := by
  cases a with
  | num x =>
    simp only [sUn]
    cases h : ratUn op x with
    | none => simp
    | some r => simp [ratUn_sound L op x r h]
  | ex e =>
    cases e <;> simp only [sUn] <;> try simp
    rename_i x
    cases h : ratUn op x with
    | none => simp
    | some r => simp [ratUn_sound L op x r h]

theorem sIneq_sound (L : LawfulOps O) (env : Env α) (b : SVal) (lb ub : Option Rat) :
    evalS O env (sIneq b lb ub) = eval O env (.ineq b.toExpr lb ub) := by
  cases b with
  | ex e => rfl
  | num x =>
    simp only [sIneq, evalS_num, SVal.toExpr, eval, eval_const]
    cases lb <;> cases ub <;> simp [Ops.ofBool, L.le_ofRat] <;> split <;> simp_all [L.ofRat_one, L.ofRat_zero]

/-- `if_else`: a native condition is a truth value (0 or 1; anything else is not a valid condition) -/
theorem sIfElse_sound (L : LawfulOps O) (env : Env α) (c t e : SVal)
    (hc : ∀ x, c = .num x → x = 0 ∨ x = 1) :
    evalS O env (sIfElse c t e) = if O.isOne (evalS O env c) then evalS O env t else evalS O env e := by
  cases c with
  | ex ce => rfl
  | num x =>
    simp only [sIfElse, evalS_num, L.isOne_ofRat]
    cases hc x rfl with
    | inl h => subst h; simp
    | inr h => subst h; simp

end Wntr.Aml
