/-
Cubic Hermite facts used by C07 / C08: the polynomial `cubic_spline` returns, written in Hermite form, its
interpolation properties, and a sufficient condition for monotonicity (Fritsch–Carlson box: both end slopes
between 0 and 3·(secant slope)).
-/
import WntrModel.Lemmas.RowsReal

namespace Wntr.Rows

/-- `a·x³ + b·x² + c·x + d` -/
def poly3 (a b c d x : ℝ) : ℝ := a * x ^ 3 + b * x ^ 2 + c * x + d
/-- its derivative -/
def dpoly3 (a b c x : ℝ) : ℝ := 3 * a * x ^ 2 + 2 * b * x + c

theorem cubic_real (co : ℝ × ℝ × ℝ × ℝ) (x : ℝ) :
    cubic realOps co x = poly3 co.1 co.2.1 co.2.2.1 co.2.2.2 x := by
  simp only [cubic, poly3, realOps_add, realOps_mul, realOps_pow, realOps_ofRat, rpow_three, rpow_two]

/-- Hermite basis form on `[x1, x2]` -/
noncomputable def hermite (x1 x2 f1 f2 m1 m2 x : ℝ) : ℝ :=
  let h := x2 - x1
  let t := (x - x1) / h
  f1 + h * m1 * (t ^ 3 - 2 * t ^ 2 + t) + (f2 - f1) * (3 * t ^ 2 - 2 * t ^ 3) + h * m2 * (t ^ 3 - t ^ 2)

theorem hermite_unit_mono {A B F t u : ℝ} (hA0 : 0 ≤ A) (hA : A ≤ 3 * F) (hB0 : 0 ≤ B) (hB : B ≤ 3 * F)
    (ht : 0 ≤ t) (htu : t ≤ u) (hu : u ≤ 1) :
    A * (t ^ 3 - 2 * t ^ 2 + t) + F * (3 * t ^ 2 - 2 * t ^ 3) + B * (t ^ 3 - t ^ 2) ≤
    A * (u ^ 3 - 2 * u ^ 2 + u) + F * (3 * u ^ 2 - 2 * u ^ 3) + B * (u ^ 3 - u ^ 2) := by
  have hF : 0 ≤ F := by linarith
  have hu0 : 0 ≤ u := le_trans ht htu
  have ht1 : t ≤ 1 := le_trans htu hu
  obtain ⟨q10, hq10⟩ : ∃ q, q = (u ^ 2 + u * t + t ^ 2) - 2 * (u + t) + 1 := ⟨_, rfl⟩
  obtain ⟨q01, hq01⟩ : ∃ q, q = 3 * (u + t) - 2 * (u ^ 2 + u * t + t ^ 2) := ⟨_, rfl⟩
  obtain ⟨q11, hq11⟩ : ∃ q, q = (u ^ 2 + u * t + t ^ 2) - (u + t) := ⟨_, rfl⟩
  have c00 : 0 ≤ q01 := by
    rw [hq01]; nlinarith [mul_nonneg hu0 (sub_nonneg.2 hu), mul_nonneg ht (sub_nonneg.2 ht1),
      mul_nonneg hu0 (sub_nonneg.2 ht1), mul_nonneg ht (sub_nonneg.2 hu)]
  have c10 : 0 ≤ 3 * q10 + q01 := by
    rw [hq10, hq01]; nlinarith [sq_nonneg (1 - u), sq_nonneg (1 - t), mul_nonneg (sub_nonneg.2 hu) (sub_nonneg.2 ht1)]
  have c01 : 0 ≤ q01 + 3 * q11 := by
    rw [hq01, hq11]; nlinarith [sq_nonneg u, sq_nonneg t, mul_nonneg hu0 ht]
  have c11 : 0 ≤ 3 * q10 + q01 + 3 * q11 := by
    rw [hq10, hq01, hq11]; nlinarith [sq_nonneg (u + t - 1), sq_nonneg (u - t)]
  have key : 0 ≤ A * q10 + F * q01 + B * q11 := by
    rcases le_total 0 q10 with h1 | h1 <;> rcases le_total 0 q11 with h2 | h2
    · nlinarith [mul_nonneg hA0 h1, mul_nonneg hF c00, mul_nonneg hB0 h2]
    · nlinarith [mul_nonneg hA0 h1, mul_nonneg hF c01, mul_nonneg (sub_nonneg.2 hB) (neg_nonneg.2 h2)]
    · nlinarith [mul_nonneg hB0 h2, mul_nonneg hF c10, mul_nonneg (sub_nonneg.2 hA) (neg_nonneg.2 h1)]
    · nlinarith [mul_nonneg hF c11, mul_nonneg (sub_nonneg.2 hA) (neg_nonneg.2 h1),
        mul_nonneg (sub_nonneg.2 hB) (neg_nonneg.2 h2)]
  have := mul_nonneg (sub_nonneg.2 htu) key
  rw [hq10, hq01, hq11] at this
  nlinarith [this]

/-- a Hermite cubic whose end slopes lie in `[0, 3·(f2−f1)/(x2−x1)]` is non-decreasing on `[x1, x2]` -/
theorem hermite_mono {x1 x2 f1 f2 m1 m2 : ℝ} (hx : x1 < x2)
    (h1 : 0 ≤ m1) (h1' : (x2 - x1) * m1 ≤ 3 * (f2 - f1)) (h2 : 0 ≤ m2) (h2' : (x2 - x1) * m2 ≤ 3 * (f2 - f1))
    {x y : ℝ} (hx1 : x1 ≤ x) (hxy : x ≤ y) (hy2 : y ≤ x2) :
    hermite x1 x2 f1 f2 m1 m2 x ≤ hermite x1 x2 f1 f2 m1 m2 y := by
  have hh : 0 < x2 - x1 := sub_pos.2 hx
  have ht : 0 ≤ (x - x1) / (x2 - x1) := div_nonneg (sub_nonneg.2 hx1) hh.le
  have htu : (x - x1) / (x2 - x1) ≤ (y - x1) / (x2 - x1) := by
    apply div_le_div_of_nonneg_right _ hh.le; linarith
  have hu : (y - x1) / (x2 - x1) ≤ 1 := by rw [div_le_one hh]; linarith
  have := hermite_unit_mono (A := (x2 - x1) * m1) (B := (x2 - x1) * m2) (F := f2 - f1)
    (mul_nonneg hh.le h1) h1' (mul_nonneg hh.le h2) h2' ht htu hu
  simp only [hermite]
  linarith

theorem hermite_left (x1 x2 f1 f2 m1 m2 : ℝ) : hermite x1 x2 f1 f2 m1 m2 x1 = f1 := by
  simp [hermite]

theorem hermite_right {x1 x2 : ℝ} (hne : x1 ≠ x2) (f1 f2 m1 m2 : ℝ) : hermite x1 x2 f1 f2 m1 m2 x2 = f2 := by
  have : x2 - x1 ≠ 0 := sub_ne_zero.2 hne.symm
  simp only [hermite, div_self this]; ring

end Wntr.Rows
