/-
Lemmas about `Wntr.Tank.interp` (numpy.interp with clamping) on curves that increase strictly in both coordinates:
range, monotone position, and the inverse-lookup identity the volume-curve Euler step relies on.
-/
import WntrModel.Model.Tank
import Mathlib.Tactic.Ring
import Mathlib.Tactic.Linarith
import Mathlib.Tactic.FieldSimp
import Mathlib.Algebra.Order.Field.Rat
namespace Wntr.Tank

/-- the breakpoints after `(x0, y0)` increase strictly in both coordinates -/
def Incr : Rat → Rat → List (Rat × Rat) → Prop
  | _, _, [] => True
  | x0, y0, (x1, y1) :: rest => x0 < x1 ∧ y0 < y1 ∧ Incr x1 y1 rest

def curveLoX : List (Rat × Rat) → Rat
  | [] => 0
  | (x0, _) :: _ => x0

def curveHiX : List (Rat × Rat) → Rat
  | [] => 0
  | (x0, _) :: rest => lastX x0 rest

def curveLoY : List (Rat × Rat) → Rat
  | [] => 0
  | (_, y0) :: _ => y0

def curveHiY : List (Rat × Rat) → Rat
  | [] => 0
  | (_, y0) :: rest => lastY y0 rest

/-- a whole curve increases strictly -/
def IncrCurve : List (Rat × Rat) → Prop
  | [] => False
  | (x0, y0) :: rest => Incr x0 y0 rest

@[simp] theorem swapPts_nil : swapPts [] = [] := rfl
@[simp] theorem swapPts_cons (x y : Rat) (r : List (Rat × Rat)) : swapPts ((x, y) :: r) = (y, x) :: swapPts r := rfl

theorem swapPts_swapPts (c : List (Rat × Rat)) : swapPts (swapPts c) = c := by
  induction c with
  | nil => rfl
  | cons p r ih => obtain ⟨x, y⟩ := p; simp [ih]

theorem Incr.swap {x0 y0 : Rat} {rest : List (Rat × Rat)} (h : Incr x0 y0 rest) : Incr y0 x0 (swapPts rest) := by
  induction rest generalizing x0 y0 with
  | nil => trivial
  | cons p r ih =>
    obtain ⟨x1, y1⟩ := p
    obtain ⟨hx, hy, hr⟩ := h
    exact ⟨hy, hx, ih hr⟩

theorem lastX_swap (x0 y0 : Rat) (rest : List (Rat × Rat)) : lastX y0 (swapPts rest) = lastY y0 rest := by
  induction rest generalizing x0 y0 with
  | nil => rfl
  | cons p r ih => obtain ⟨x1, y1⟩ := p; simpa [lastX, lastY] using ih x1 y1

theorem lastY_swap (x0 y0 : Rat) (rest : List (Rat × Rat)) : lastY x0 (swapPts rest) = lastX x0 rest := by
  induction rest generalizing x0 y0 with
  | nil => rfl
  | cons p r ih => obtain ⟨x1, y1⟩ := p; simpa [lastX, lastY] using ih x1 y1

theorem seg_lt {x0 y0 x1 y1 x : Rat} (hx : x0 < x1) (hy : y0 < y1) (h1 : x < x1) :
    y0 + (y1 - y0) / (x1 - x0) * (x - x0) < y1 := by
  have ha : 0 < x1 - x0 := by linarith
  have hb : 0 < y1 - y0 := by linarith
  have : (y1 - y0) / (x1 - x0) * (x - x0) < y1 - y0 := by
    rw [div_mul_eq_mul_div, div_lt_iff₀ ha]
    nlinarith
  linarith

theorem seg_ge {x0 y0 x1 y1 x : Rat} (hx : x0 < x1) (hy : y0 < y1) (h0 : x0 ≤ x) :
    y0 ≤ y0 + (y1 - y0) / (x1 - x0) * (x - x0) := by
  have ha : 0 < x1 - x0 := by linarith
  have hb : 0 < y1 - y0 := by linarith
  have : 0 ≤ (y1 - y0) / (x1 - x0) * (x - x0) := by
    apply mul_nonneg (le_of_lt (div_pos hb ha)); linarith
  linarith

theorem interpFrom_ge {x x0 y0 : Rat} {rest : List (Rat × Rat)} (h : Incr x0 y0 rest) (hx : x0 ≤ x) :
    y0 ≤ interpFrom x x0 y0 rest := by
  induction rest generalizing x0 y0 with
  | nil => simp [interpFrom]
  | cons p r ih =>
    obtain ⟨x1, y1⟩ := p
    obtain ⟨hx1, hy1, hr⟩ := h
    unfold interpFrom
    split
    · exact seg_ge hx1 hy1 hx
    · rename_i hn
      have : x1 ≤ x := not_lt.mp hn
      exact le_trans (le_of_lt hy1) (ih hr this)

theorem le_lastY {x0 y0 : Rat} {rest : List (Rat × Rat)} (h : Incr x0 y0 rest) : y0 ≤ lastY y0 rest := by
  induction rest generalizing x0 y0 with
  | nil => simp [lastY]
  | cons p r ih =>
    obtain ⟨x1, y1⟩ := p
    obtain ⟨_, hy1, hr⟩ := h
    simpa [lastY] using le_trans (le_of_lt hy1) (ih hr)

theorem interpFrom_le_last {x x0 y0 : Rat} {rest : List (Rat × Rat)} (h : Incr x0 y0 rest) (hx : x0 ≤ x) :
    interpFrom x x0 y0 rest ≤ lastY y0 rest := by
  induction rest generalizing x0 y0 with
  | nil => simp [interpFrom, lastY]
  | cons p r ih =>
    obtain ⟨x1, y1⟩ := p
    obtain ⟨hx1, hy1, hr⟩ := h
    unfold interpFrom
    have hl : y1 ≤ lastY y1 r := le_lastY hr
    split
    · rename_i hlt
      exact le_trans (le_of_lt (seg_lt hx1 hy1 hlt)) (by simpa [lastY] using hl)
    · rename_i hn
      simpa [lastY] using ih hr (not_lt.mp hn)

/-- strictly right of the first breakpoint the value is strictly above the first ordinate -/
theorem interpFrom_gt {x x0 y0 : Rat} {rest : List (Rat × Rat)} (h : Incr x0 y0 rest) (hx : x0 < x)
    (hl : x ≤ lastX x0 rest) : y0 < interpFrom x x0 y0 rest := by
  cases rest with
  | nil => simp [lastX] at hl; linarith
  | cons p r =>
    obtain ⟨x1, y1⟩ := p
    obtain ⟨hx1, hy1, hr⟩ := h
    unfold interpFrom
    split
    · have ha : 0 < x1 - x0 := by linarith
      have hb : 0 < y1 - y0 := by linarith
      have : 0 < (y1 - y0) / (x1 - x0) * (x - x0) := mul_pos (div_pos hb ha) (by linarith)
      linarith
    · rename_i hn
      exact lt_of_lt_of_le hy1 (interpFrom_ge hr (not_lt.mp hn))

/-- looking the interpolated value up in the swapped curve returns the abscissa (inside the curve) -/
theorem interpFrom_inverse {x x0 y0 : Rat} {rest : List (Rat × Rat)} (h : Incr x0 y0 rest) (hx0 : x0 ≤ x)
    (hx1 : x ≤ lastX x0 rest) :
    interpFrom (interpFrom x x0 y0 rest) y0 x0 (swapPts rest) = x := by
  induction rest generalizing x0 y0 with
  | nil =>
    simp [lastX] at hx1
    simp [interpFrom]; linarith
  | cons p r ih =>
    obtain ⟨x1, y1⟩ := p
    obtain ⟨hxx, hyy, hr⟩ := h
    by_cases hlt : x < x1
    · have hy : y0 + (y1 - y0) / (x1 - x0) * (x - x0) < y1 := seg_lt hxx hyy hlt
      simp only [interpFrom, hlt, if_true, swapPts_cons, hy]
      have ha : x1 - x0 ≠ 0 := by linarith
      have hb : y1 - y0 ≠ 0 := by linarith
      field_simp
      ring
    · have hge : x1 ≤ x := not_lt.mp hlt
      have hy : ¬ interpFrom x x1 y1 r < y1 := not_lt.mpr (interpFrom_ge hr hge)
      simp only [interpFrom, hlt, if_false, swapPts_cons, hy]
      exact ih hr hge (by simpa [lastX] using hx1)

/-- `interp_inverse`: for a strictly increasing curve and `x` inside its range, `interp (interp x c) (swap c) = x` -/
theorem interp_inverse_aux {x x0 y0 : Rat} {rest : List (Rat × Rat)} (h : Incr x0 y0 rest) (hx0 : x0 ≤ x)
    (hx1 : x ≤ lastX x0 rest) :
    interp (interp x ((x0, y0) :: rest)) (swapPts ((x0, y0) :: rest)) = x := by
  by_cases he : x ≤ x0
  · have : x = x0 := le_antisymm he hx0
    subst this
    simp [interp]
  · have hgt : x0 < x := not_le.mp he
    have hy : ¬ interpFrom x x0 y0 rest ≤ y0 := not_le.mpr (interpFrom_gt h hgt hx1)
    simp only [interp, he, if_false, swapPts_cons, hy]
    exact interpFrom_inverse h hx0 hx1

/-- range of `interp` on a strictly increasing curve, for `x` at or right of the first breakpoint -/
theorem interp_range {x x0 y0 : Rat} {rest : List (Rat × Rat)} (h : Incr x0 y0 rest) (hx0 : x0 ≤ x) :
    y0 ≤ interp x ((x0, y0) :: rest) ∧ interp x ((x0, y0) :: rest) ≤ lastY y0 rest := by
  have hl : y0 ≤ lastY y0 rest := le_lastY h
  by_cases he : x ≤ x0
  · simp [interp, he, hl]
  · simp only [interp, he, if_false]
    exact ⟨interpFrom_ge h hx0, interpFrom_le_last h hx0⟩

/-! ### the extrapolating lookup of the proposed repair -/

theorem le_lastX {x0 y0 : Rat} {rest : List (Rat × Rat)} (h : Incr x0 y0 rest) : x0 ≤ lastX x0 rest := by
  induction rest generalizing x0 y0 with
  | nil => simp [lastX]
  | cons p r ih =>
    obtain ⟨x1, y1⟩ := p
    obtain ⟨hx1, _, hr⟩ := h
    simpa [lastX] using le_trans (le_of_lt hx1) (ih hr)

theorem interpFrom_above {x x0 y0 : Rat} {rest : List (Rat × Rat)} (h : Incr x0 y0 rest) (hx : lastX x0 rest ≤ x) :
    interpFrom x x0 y0 rest = lastY y0 rest := by
  induction rest generalizing x0 y0 with
  | nil => simp [interpFrom, lastY]
  | cons p r ih =>
    obtain ⟨x1, y1⟩ := p
    obtain ⟨_, _, hr⟩ := h
    have h1 : x1 ≤ x := le_trans (le_lastX hr) (by simpa [lastX] using hx)
    have : ¬ x < x1 := not_lt.mpr h1
    simp only [interpFrom, this, if_false, lastY]
    exact ih hr (by simpa [lastX] using hx)

theorem interp_above {x x0 y0 : Rat} {rest : List (Rat × Rat)} (h : Incr x0 y0 rest) (hx : lastX x0 rest ≤ x) :
    interp x ((x0, y0) :: rest) = lastY y0 rest := by
  by_cases he : x ≤ x0
  · have e : lastX x0 rest = x0 := le_antisymm (le_trans hx he) (le_lastX h)
    have hx' : x = x0 := le_antisymm he (e ▸ hx)
    subst hx'
    simp only [interp, le_refl, if_true]
    have := interpFrom_above (x := x) h (le_of_eq e)
    cases rest with
    | nil => rfl
    | cons p r =>
      obtain ⟨x1, y1⟩ := p
      obtain ⟨hx1, _, hr⟩ := h
      have : x1 ≤ x := by rw [← e]; simpa [lastX] using le_lastX hr
      linarith
  · simp only [interp, he, if_false]
    exact interpFrom_above h hx

theorem slopeFirst_mul_swap {x0 y0 : Rat} {rest : List (Rat × Rat)} (h : Incr x0 y0 rest) (hne : rest ≠ []) :
    slopeFirst ((x0, y0) :: rest) * slopeFirst (swapPts ((x0, y0) :: rest)) = 1 := by
  cases rest with
  | nil => exact absurd rfl hne
  | cons p r =>
    obtain ⟨x1, y1⟩ := p
    obtain ⟨hx1, hy1, _⟩ := h
    have ha : x1 - x0 ≠ 0 := by linarith
    have hb : y1 - y0 ≠ 0 := by linarith
    simp only [slopeFirst, swapPts_cons]
    field_simp

theorem slopeLast_mul_swap {x0 y0 : Rat} {rest : List (Rat × Rat)} (h : Incr x0 y0 rest) (hne : rest ≠ []) :
    slopeLastFrom x0 y0 rest * slopeLastFrom y0 x0 (swapPts rest) = 1 := by
  induction rest generalizing x0 y0 with
  | nil => exact absurd rfl hne
  | cons p r ih =>
    obtain ⟨x1, y1⟩ := p
    obtain ⟨hx1, hy1, hr⟩ := h
    cases r with
    | nil =>
      have ha : x1 - x0 ≠ 0 := by linarith
      have hb : y1 - y0 ≠ 0 := by linarith
      simp only [slopeLastFrom, swapPts_cons, swapPts_nil]
      field_simp
    | cons p2 r2 =>
      obtain ⟨x2, y2⟩ := p2
      have := ih (x0 := x1) (y0 := y1) hr (by simp)
      simpa [slopeLastFrom] using this

theorem slopeLast_pos {x0 y0 : Rat} {rest : List (Rat × Rat)} (h : Incr x0 y0 rest) (hne : rest ≠ []) :
    0 < slopeLastFrom x0 y0 rest := by
  induction rest generalizing x0 y0 with
  | nil => exact absurd rfl hne
  | cons p r ih =>
    obtain ⟨x1, y1⟩ := p
    obtain ⟨hx1, hy1, hr⟩ := h
    cases r with
    | nil => simp only [slopeLastFrom]; exact div_pos (by linarith) (by linarith)
    | cons p2 r2 => simp only [slopeLastFrom]; exact ih hr (by simp)

/-- `interpX_inverse`: with the end segments continued, the lookup is a bijection — for EVERY abscissa, inside or outside
the curve, `interpX (interpX x c) (swap c) = x` (curve with at least two points, strictly increasing) -/
theorem interpX_inverse_aux {x0 y0 : Rat} {rest : List (Rat × Rat)} (h : Incr x0 y0 rest) (hne : rest ≠ []) (x : Rat) :
    interpX (interpX x ((x0, y0) :: rest)) (swapPts ((x0, y0) :: rest)) = x := by
  have hs : Incr y0 x0 (swapPts rest) := Incr.swap h
  have hxl : x0 ≤ lastX x0 rest := le_lastX h
  have hyl : y0 ≤ lastY y0 rest := le_lastY h
  have eLX : lastX y0 (swapPts rest) = lastY y0 rest := lastX_swap x0 y0 rest
  have eLY : lastY x0 (swapPts rest) = lastX x0 rest := lastY_swap x0 y0 rest
  have s0 := slopeFirst_mul_swap h hne
  have sl := slopeLast_mul_swap h hne
  rcases lt_trichotomy x x0 with hlt | heq | hgt
  · -- left of the curve
    have e1 : interp x ((x0, y0) :: rest) = y0 := by simp [interp, le_of_lt hlt]
    have c1 : x - x0 < 0 := by linarith
    have c2 : ¬ (0 < x - lastX x0 rest) := by linarith
    have hy : interpX x ((x0, y0) :: rest) = y0 + (x - x0) * slopeFirst ((x0, y0) :: rest) := by
      simp only [interpX, e1, c1, c2, if_true, if_false]; ring
    have spos : 0 < slopeFirst ((x0, y0) :: rest) := by
      cases rest with
      | nil => exact absurd rfl hne
      | cons p r =>
        obtain ⟨x1, y1⟩ := p
        obtain ⟨hx1, hy1, _⟩ := h
        simp only [slopeFirst]
        exact div_pos (by linarith) (by linarith)
    have ylt : interpX x ((x0, y0) :: rest) < y0 := by rw [hy]; nlinarith
    set y := interpX x ((x0, y0) :: rest) with hyd
    have e2 : interp y (swapPts ((x0, y0) :: rest)) = x0 := by simp [interp, le_of_lt ylt]
    have c3 : y - y0 < 0 := by linarith
    have c4 : ¬ (0 < y - lastX y0 (swapPts rest)) := by rw [eLX]; linarith
    simp only [swapPts_cons] at e2 s0 ⊢
    simp only [interpX, e2, c3, c4, if_true, if_false]
    rw [hy]
    have : (y0 + (x - x0) * slopeFirst ((x0, y0) :: rest) - y0) * slopeFirst ((y0, x0) :: swapPts rest)
        = (x - x0) * (slopeFirst ((x0, y0) :: rest) * slopeFirst ((y0, x0) :: swapPts rest)) := by ring
    rw [this, s0]; ring
  · subst heq
    have e1 : interpX x ((x, y0) :: rest) = y0 := by
      have c2 : ¬ (0 < x - lastX x rest) := by linarith
      simp [interpX, interp, c2]
    rw [e1]
    have c4 : ¬ (0 < y0 - lastX y0 (swapPts rest)) := by rw [eLX]; linarith
    simp [interpX, interp, c4]
  · by_cases hin : x ≤ lastX x0 rest
    · -- inside
      have c1 : ¬ (x - x0 < 0) := by linarith
      have c2 : ¬ (0 < x - lastX x0 rest) := by linarith
      have hy : interpX x ((x0, y0) :: rest) = interp x ((x0, y0) :: rest) := by
        simp only [interpX, c1, c2, if_false]; ring
      obtain ⟨r0, r1⟩ := interp_range h (le_of_lt hgt)
      rw [hy]
      have c3 : ¬ (interp x ((x0, y0) :: rest) - y0 < 0) := by linarith
      have c4 : ¬ (0 < interp x ((x0, y0) :: rest) - lastX y0 (swapPts rest)) := by rw [eLX]; linarith
      have inv := interp_inverse_aux h (le_of_lt hgt) hin
      simp only [swapPts_cons] at inv ⊢
      simp only [interpX, c3, c4, if_false]
      rw [inv]; ring
    · -- right of the curve
      have hgt2 : lastX x0 rest < x := not_le.mp hin
      have e1 : interp x ((x0, y0) :: rest) = lastY y0 rest := interp_above h (le_of_lt hgt2)
      have c1 : ¬ (x - x0 < 0) := by linarith
      have c2 : 0 < x - lastX x0 rest := by linarith
      have hy : interpX x ((x0, y0) :: rest) = lastY y0 rest + (x - lastX x0 rest) * slopeLastFrom x0 y0 rest := by
        simp only [interpX, e1, c1, c2, if_true, if_false]; ring
      have spos : 0 < slopeLastFrom x0 y0 rest := slopeLast_pos h hne
      have ygt : lastY y0 rest < interpX x ((x0, y0) :: rest) := by rw [hy]; nlinarith
      set y := interpX x ((x0, y0) :: rest) with hyd
      have e2 : interp y (swapPts ((x0, y0) :: rest)) = lastX x0 rest := by
        have := interp_above (x := y) hs (by rw [eLX]; exact le_of_lt ygt)
        rw [eLY] at this
        simpa using this
      have c3 : ¬ (y - y0 < 0) := by linarith
      have c4 : 0 < y - lastX y0 (swapPts rest) := by rw [eLX]; linarith
      simp only [swapPts_cons] at e2 ⊢
      simp only [interpX, e2, c3, c4, if_true, if_false]
      rw [eLX, hy]
      have : (lastY y0 rest + (x - lastX x0 rest) * slopeLastFrom x0 y0 rest - lastY y0 rest) * slopeLastFrom y0 x0 (swapPts rest)
          = (x - lastX x0 rest) * (slopeLastFrom x0 y0 rest * slopeLastFrom y0 x0 (swapPts rest)) := by ring
      rw [this, sl]; ring

theorem two_points_of_range {c : List (Rat × Rat)} (h : curveLoX c < curveHiX c) :
    ∃ x0 y0 rest, c = (x0, y0) :: rest ∧ rest ≠ [] := by
  cases c with
  | nil => simp [curveLoX, curveHiX] at h
  | cons p rest =>
    obtain ⟨x0, y0⟩ := p
    refine ⟨x0, y0, rest, rfl, ?_⟩
    intro e; subst e; simp [curveLoX, curveHiX, lastX] at h

/-- `interpX_inverse`: the extrapolating lookups level→volume and volume→level are inverse to each other EVERYWHERE -/
theorem interpX_inverse {c : List (Rat × Rat)} (hI : IncrCurve c) (h2 : curveLoX c < curveHiX c) (v : Rat) :
    interpX (interpX v (swapPts c)) c = v := by
  obtain ⟨x0, y0, rest, e, hne⟩ := two_points_of_range h2
  subst e
  have hs : Incr y0 x0 (swapPts rest) := Incr.swap hI
  have hne' : swapPts rest ≠ [] := by
    cases rest with
    | nil => exact absurd rfl hne
    | cons p r => simp [swapPts]
  have := interpX_inverse_aux hs hne' v
  simpa [swapPts_swapPts] using this

/-- `vol(level(V)) = V` for `V` inside the volume range of a strictly increasing curve -/
theorem interp_inverse {c : List (Rat × Rat)} (hI : IncrCurve c) {v : Rat} (h0 : curveLoY c ≤ v) (h1 : v ≤ curveHiY c) :
    interp (interp v (swapPts c)) c = v := by
  cases c with
  | nil => exact absurd hI (by simp [IncrCurve])
  | cons p rest =>
    obtain ⟨x0, y0⟩ := p
    have hs : Incr y0 x0 (swapPts rest) := Incr.swap hI
    have := interp_inverse_aux (x := v) hs (by simpa [curveLoY] using h0)
      (by rw [lastX_swap x0 y0 rest]; simpa [curveHiY] using h1)
    simpa [swapPts_swapPts] using this

/-- `level(vol(l)) = l` for `l` inside the level range -/
theorem interp_inverse' {c : List (Rat × Rat)} (hI : IncrCurve c) {l : Rat} (h0 : curveLoX c ≤ l) (h1 : l ≤ curveHiX c) :
    interp (interp l c) (swapPts c) = l := by
  cases c with
  | nil => exact absurd hI (by simp [IncrCurve])
  | cons p rest =>
    obtain ⟨x0, y0⟩ := p
    exact interp_inverse_aux hI (by simpa [curveLoX] using h0) (by simpa [curveHiX] using h1)

end Wntr.Tank
