/-
Lemmas about `Wntr.Tank.interp` (numpy.interp with clamping) on curves that increase strictly in both coordinates:
range, monotone position, and the inverse-lookup identity the volume-curve Euler step relies on.
-/
import WntrModel.Model.Tank
import Mathlib.Tactic.Ring
import Mathlib.Tactic.Linarith
import Mathlib.Tactic.FieldSimp
import Mathlib.Algebra.Order.Field.Rat
namespace Wntr.Tank

/-- the breakpoints after `(x0, y0)` increase strictly in both coordinates -/
def Incr : Rat → Rat → List (Rat × Rat) → Prop
  | _, _, [] => True
  | x0, y0, (x1, y1) :: rest => x0 < x1 ∧ y0 < y1 ∧ Incr x1 y1 rest

def lastX : Rat → List (Rat × Rat) → Rat
  | x0, [] => x0
  | _, (x1, _) :: rest => lastX x1 rest

def lastY : Rat → List (Rat × Rat) → Rat
  | y0, [] => y0
  | _, (_, y1) :: rest => lastY y1 rest

def curveLoX : List (Rat × Rat) → Rat
  | [] => 0
  | (x0, _) :: _ => x0

def curveHiX : List (Rat × Rat) → Rat
  | [] => 0
  | (x0, _) :: rest => lastX x0 rest

def curveLoY : List (Rat × Rat) → Rat
  | [] => 0
  | (_, y0) :: _ => y0

def curveHiY : List (Rat × Rat) → Rat
  | [] => 0
  | (_, y0) :: rest => lastY y0 rest

/-- a whole curve increases strictly -/
def IncrCurve : List (Rat × Rat) → Prop
  | [] => False
  | (x0, y0) :: rest => Incr x0 y0 rest

@[simp] theorem swapPts_nil : swapPts [] = [] := rfl
@[simp] theorem swapPts_cons (x y : Rat) (r : List (Rat × Rat)) : swapPts ((x, y) :: r) = (y, x) :: swapPts r := rfl

theorem swapPts_swapPts (c : List (Rat × Rat)) : swapPts (swapPts c) = c := by
  induction c with
  | nil => rfl
  | cons p r ih => obtain ⟨x, y⟩ := p; simp [ih]

theorem Incr.swap {x0 y0 : Rat} {rest : List (Rat × Rat)} (h : Incr x0 y0 rest) : Incr y0 x0 (swapPts rest) := by
  induction rest generalizing x0 y0 with
  | nil => trivial
  | cons p r ih =>
    obtain ⟨x1, y1⟩ := p
    obtain ⟨hx, hy, hr⟩ := h
    exact ⟨hy, hx, ih hr⟩

theorem lastX_swap (x0 y0 : Rat) (rest : List (Rat × Rat)) : lastX y0 (swapPts rest) = lastY y0 rest := by
  induction rest generalizing x0 y0 with
  | nil => rfl
  | cons p r ih => obtain ⟨x1, y1⟩ := p; simpa [lastX, lastY] using ih x1 y1

theorem lastY_swap (x0 y0 : Rat) (rest : List (Rat × Rat)) : lastY x0 (swapPts rest) = lastX x0 rest := by
  induction rest generalizing x0 y0 with
  | nil => rfl
  | cons p r ih => obtain ⟨x1, y1⟩ := p; simpa [lastX, lastY] using ih x1 y1

theorem seg_lt {x0 y0 x1 y1 x : Rat} (hx : x0 < x1) (hy : y0 < y1) (h1 : x < x1) :
    y0 + (y1 - y0) / (x1 - x0) * (x - x0) < y1 := by
  have ha : 0 < x1 - x0 := by linarith
  have hb : 0 < y1 - y0 := by linarith
  have : (y1 - y0) / (x1 - x0) * (x - x0) < y1 - y0 := by
    rw [div_mul_eq_mul_div, div_lt_iff₀ ha]
    nlinarith
  linarith

theorem seg_ge {x0 y0 x1 y1 x : Rat} (hx : x0 < x1) (hy : y0 < y1) (h0 : x0 ≤ x) :
    y0 ≤ y0 + (y1 - y0) / (x1 - x0) * (x - x0) := by
  have ha : 0 < x1 - x0 := by linarith
  have hb : 0 < y1 - y0 := by linarith
  have : 0 ≤ (y1 - y0) / (x1 - x0) * (x - x0) := by
    apply mul_nonneg (le_of_lt (div_pos hb ha)); linarith
  linarith

theorem interpFrom_ge {x x0 y0 : Rat} {rest : List (Rat × Rat)} (h : Incr x0 y0 rest) (hx : x0 ≤ x) :
    y0 ≤ interpFrom x x0 y0 rest := by
  induction rest generalizing x0 y0 with
  | nil => simp [interpFrom]
  | cons p r ih =>
    obtain ⟨x1, y1⟩ := p
    obtain ⟨hx1, hy1, hr⟩ := h
    unfold interpFrom
    split
    · exact seg_ge hx1 hy1 hx
    · rename_i hn
      have : x1 ≤ x := not_lt.mp hn
      exact le_trans (le_of_lt hy1) (ih hr this)

theorem le_lastY {x0 y0 : Rat} {rest : List (Rat × Rat)} (h : Incr x0 y0 rest) : y0 ≤ lastY y0 rest := by
  induction rest generalizing x0 y0 with
  | nil => simp [lastY]
  | cons p r ih =>
    obtain ⟨x1, y1⟩ := p
    obtain ⟨_, hy1, hr⟩ := h
    simpa [lastY] using le_trans (le_of_lt hy1) (ih hr)

theorem interpFrom_le_last {x x0 y0 : Rat} {rest : List (Rat × Rat)} (h : Incr x0 y0 rest) (hx : x0 ≤ x) :
    interpFrom x x0 y0 rest ≤ lastY y0 rest := by
  induction rest generalizing x0 y0 with
  | nil => simp [interpFrom, lastY]
  | cons p r ih =>
    obtain ⟨x1, y1⟩ := p
    obtain ⟨hx1, hy1, hr⟩ := h
    unfold interpFrom
    have hl : y1 ≤ lastY y1 r := le_lastY hr
    split
    · rename_i hlt
      exact le_trans (le_of_lt (seg_lt hx1 hy1 hlt)) (by simpa [lastY] using hl)
    · rename_i hn
      simpa [lastY] using ih hr (not_lt.mp hn)

/-- strictly right of the first breakpoint the value is strictly above the first ordinate -/
theorem interpFrom_gt {x x0 y0 : Rat} {rest : List (Rat × Rat)} (h : Incr x0 y0 rest) (hx : x0 < x)
    (hl : x ≤ lastX x0 rest) : y0 < interpFrom x x0 y0 rest := by
  cases rest with
  | nil => simp [lastX] at hl; linarith
  | cons p r =>
    obtain ⟨x1, y1⟩ := p
    obtain ⟨hx1, hy1, hr⟩ := h
    unfold interpFrom
    split
    · have ha : 0 < x1 - x0 := by linarith
      have hb : 0 < y1 - y0 := by linarith
      have : 0 < (y1 - y0) / (x1 - x0) * (x - x0) := mul_pos (div_pos hb ha) (by linarith)
      linarith
    · rename_i hn
      exact lt_of_lt_of_le hy1 (interpFrom_ge hr (not_lt.mp hn))

/-- looking the interpolated value up in the swapped curve returns the abscissa (inside the curve) -/
theorem interpFrom_inverse {x x0 y0 : Rat} {rest : List (Rat × Rat)} (h : Incr x0 y0 rest) (hx0 : x0 ≤ x)
    (hx1 : x ≤ lastX x0 rest) :
    interpFrom (interpFrom x x0 y0 rest) y0 x0 (swapPts rest) = x := by
  induction rest generalizing x0 y0 with
  | nil =>
    simp [lastX] at hx1
    simp [interpFrom]; linarith
  | cons p r ih =>
    obtain ⟨x1, y1⟩ := p
    obtain ⟨hxx, hyy, hr⟩ := h
    by_cases hlt : x < x1
    · have hy : y0 + (y1 - y0) / (x1 - x0) * (x - x0) < y1 := seg_lt hxx hyy hlt
      simp only [interpFrom, hlt, if_true, swapPts_cons, hy]
      have ha : x1 - x0 ≠ 0 := by linarith
      have hb : y1 - y0 ≠ 0 := by linarith
      field_simp
      ring
    · have hge : x1 ≤ x := not_lt.mp hlt
      have hy : ¬ interpFrom x x1 y1 r < y1 := not_lt.mpr (interpFrom_ge hr hge)
      simp only [interpFrom, hlt, if_false, swapPts_cons, hy]
      exact ih hr hge (by simpa [lastX] using hx1)

/-- `interp_inverse`: for a strictly increasing curve and `x` inside its range, `interp (interp x c) (swap c) = x` -/
theorem interp_inverse_aux {x x0 y0 : Rat} {rest : List (Rat × Rat)} (h : Incr x0 y0 rest) (hx0 : x0 ≤ x)
    (hx1 : x ≤ lastX x0 rest) :
    interp (interp x ((x0, y0) :: rest)) (swapPts ((x0, y0) :: rest)) = x := by
  by_cases he : x ≤ x0
  · have : x = x0 := le_antisymm he hx0
    subst this
    simp [interp]
  · have hgt : x0 < x := not_le.mp he
    have hy : ¬ interpFrom x x0 y0 rest ≤ y0 := not_le.mpr (interpFrom_gt h hgt hx1)
    simp only [interp, he, if_false, swapPts_cons, hy]
    exact interpFrom_inverse h hx0 hx1

/-- range of `interp` on a strictly increasing curve, for `x` at or right of the first breakpoint -/
theorem interp_range {x x0 y0 : Rat} {rest : List (Rat × Rat)} (h : Incr x0 y0 rest) (hx0 : x0 ≤ x) :
    y0 ≤ interp x ((x0, y0) :: rest) ∧ interp x ((x0, y0) :: rest) ≤ lastY y0 rest := by
  have hl : y0 ≤ lastY y0 rest := le_lastY h
  by_cases he : x ≤ x0
  · simp [interp, he, hl]
  · simp only [interp, he, if_false]
    exact ⟨interpFrom_ge h hx0, interpFrom_le_last h hx0⟩

/-- `vol(level(V)) = V` for `V` inside the volume range of a strictly increasing curve -/
theorem interp_inverse {c : List (Rat × Rat)} (hI : IncrCurve c) {v : Rat} (h0 : curveLoY c ≤ v) (h1 : v ≤ curveHiY c) :
    interp (interp v (swapPts c)) c = v := by
  cases c with
  | nil => exact absurd hI (by simp [IncrCurve])
  | cons p rest =>
    obtain ⟨x0, y0⟩ := p
    have hs : Incr y0 x0 (swapPts rest) := Incr.swap hI
    have := interp_inverse_aux (x := v) hs (by simpa [curveLoY] using h0)
      (by rw [lastX_swap x0 y0 rest]; simpa [curveHiY] using h1)
    simpa [swapPts_swapPts] using this

/-- `level(vol(l)) = l` for `l` inside the level range -/
theorem interp_inverse' {c : List (Rat × Rat)} (hI : IncrCurve c) {l : Rat} (h0 : curveLoX c ≤ l) (h1 : l ≤ curveHiX c) :
    interp (interp l c) (swapPts c) = l := by
  cases c with
  | nil => exact absurd hI (by simp [IncrCurve])
  | cons p rest =>
    obtain ⟨x0, y0⟩ := p
    exact interp_inverse_aux hI (by simpa [curveLoX] using h0) (by simpa [curveHiX] using h1)

end Wntr.Tank
