/-
The presolve pass cuts the step at (or before) the instant a due closing control asks for, provided closing that link is
visible to the change tracker.  Used by Props/C06 `limits_*`.
-/
import WntrModel.Lemmas.ControlsPass
namespace Wntr.Controls
open Wntr.Tank

theorem modifyAt_kinds (f : Link → Link) (hf : ∀ l, (f l).kind = l.kind) (i : Nat) (ls : Links) :
    (modifyAt f i ls).map (·.kind) = ls.map (·.kind) := by
  induction ls generalizing i with
  | nil => cases i <;> rfl
  | cons l r ih => cases i with
    | zero => simp [modifyAt, hf]
    | succ n => simp [modifyAt, ih]

theorem write_kinds (ls : Links) (a : Act) : (write ls a).map (·.kind) = ls.map (·.kind) :=
  modifyAt_kinds _ (fun l => Link.kind_set l _ _) _ _

theorem runList_kinds (l : List Ctl) (ls : Links) : (runList l ls).map (·.kind) = ls.map (·.kind) := by
  induction l generalizing ls with
  | nil => rfl
  | cons c r ih => simp only [runList, List.foldl_cons] at *; rw [ih, write_kinds]

/-- what `runGroup` does: it runs a prefix of entries that all have the group's backtrack and returns the rest -/
theorem runGroup_spec (back : Int) (rest : List Due) (ls : Links) :
    ∃ pre, rest = pre ++ (runGroup back rest ls).2 ∧ (runGroup back rest ls).1 = runList (pre.map (·.ctl)) ls
      ∧ ∀ x ∈ pre, x.back = back := by
  induction rest generalizing ls with
  | nil => exact ⟨[], rfl, rfl, by simp⟩
  | cons d r ih =>
    unfold runGroup
    by_cases h : (d.back == back) = true
    · simp only [h, if_true]
      obtain ⟨pre, e1, e2, e3⟩ := ih (write ls d.ctl.act)
      refine ⟨d :: pre, by simp [← e1], ?_, ?_⟩
      · rw [e2]; simp [runList]
      · intro x hx
        rcases List.mem_cons.mp hx with e | e
        · rw [e]; simpa using h
        · exact e3 x e
    · simp only [h]
      exact ⟨[], rfl, rfl, by simp⟩

/-- closing link `k` (its `_internal_status` = Closed) is visible to the tracker relative to the reference state -/
def Closes (tracked : List (Nat × Watch)) (ref : Links) (k : Nat) : Prop :=
  ∀ ls' : Links, ls'.map (·.kind) = ref.map (·.kind) → fieldAt ls' k .internal = some 0 → changed tracked ref ls' = true

/-- an open, tracked pipe or pump: closing it internally changes its `status` (for a valve whose `_user_status` is Open or
Closed this FAILS — `Valve.status` ignores `_internal_status`: known finding tank-limit-valve-user-open) -/
theorem closes_of_open_nonvalve (tracked : List (Nat × Watch)) (ref : Links) (k : Nat) (l : Link) (hl : ref[k]? = some l)
    (hk : l.kind ≠ .valve) (hopen : l.status ≠ 0) (htr : (k, Watch.status) ∈ tracked) : Closes tracked ref k := by
  intro ls' hkinds hint
  unfold changed
  rw [List.any_eq_true]
  refine ⟨(k, .status), htr, ?_⟩
  unfold fieldAt at hint
  cases hl' : ls'[k]? with
  | none => simp [hl'] at hint
  | some l' =>
    have hi : l'.internal = 0 := by simpa [hl', Link.get] using hint
    have hkk : l'.kind = l.kind := by
      have h1 : (ls'.map (·.kind))[k]? = some l'.kind := by simp [hl']
      have h2 : (ref.map (·.kind))[k]? = some l.kind := by simp [hl]
      rw [hkinds, h2] at h1
      exact (Option.some.inj h1).symm
    have hs' : l'.status = 0 := by
      unfold Link.status Tank.status
      rw [hkk, hi]
      cases hkd : l.kind with
      | valve => exact absurd hkd hk
      | pipe => simp
      | pump => simp
    simp only [observe, hl, hl', Option.map_some, bne_iff_ne, ne_eq, Option.some.injEq]
    rw [hs']
    exact hopen

/-- the presolve loop accepts a time no later than `t − d.back` for a due closing control `d` whose closing the tracker sees -/
theorem presolveLoop_time_le (tracked : List (Nat × Watch)) (ref : Links) (k : Nat) (hcl : Closes tracked ref k) :
    ∀ (fuel : Nat) (sorted : List Due) (ls : Links) (t : Int) (d : Due), sorted.length ≤ fuel →
      sorted.Pairwise (fun a b => b.back ≤ a.back) → d ∈ sorted →
      d.ctl.act.link = k → d.ctl.act.field = .internal → d.ctl.act.value = 0 → k < ls.length →
      ls.map (·.kind) = ref.map (·.kind) →
      (∀ e ∈ sorted, e.ctl.hits k .internal → e.ctl.act.value = 0) →
      (presolveLoop tracked ref fuel sorted ls t).2 ≤ t - d.back := by
  intro fuel
  induction fuel with
  | zero =>
    intro sorted ls t d hlen _ hd
    have : sorted = [] := List.length_eq_zero_iff.mp (by omega)
    subst this; simp at hd
  | succ n ih =>
    intro sorted ls t d hlen hsort hd hk hf hv hlt hkinds hint
    cases sorted with
    | nil => simp at hd
    | cons e rest =>
      rw [List.pairwise_cons] at hsort
      obtain ⟨pre, e1, e2, e3⟩ := runGroup_spec e.back rest (write ls e.ctl.act)
      have hge : d.back ≤ e.back := by
        rcases List.mem_cons.mp hd with h | h
        · rw [h]
        · exact hsort.1 d h
      unfold presolveLoop
      by_cases hch : changed tracked ref (runGroup e.back rest (write ls e.ctl.act)).1 = true
      · simp only [hch, if_true]; omega
      · simp only [hch]
        -- d is not in the group that just ran (else the tracker would have seen the closing)
        have hnot : ¬ (d = e ∨ d ∈ pre) := by
          intro hin
          apply hch
          apply hcl
          · rw [e2, runList_kinds, write_kinds]; exact hkinds
          · have hrun : (runGroup e.back rest (write ls e.ctl.act)).1 = runList ((e :: pre).map (·.ctl)) ls := by
              rw [e2]; simp [runList]
            rw [hrun]
            have hex : ∃ c ∈ (e :: pre).map (·.ctl), c.hits k .internal := by
              refine ⟨d.ctl, ?_, hk, hf⟩
              rcases hin with h | h
              · rw [h]; simp
              · exact List.mem_map.mpr ⟨d, List.mem_cons_of_mem _ h, rfl⟩
            obtain ⟨l1, w, l2, es, hw, hn⟩ := exists_last_writer _ k .internal hex
            have hwm : w ∈ (e :: pre).map (·.ctl) := by rw [es]; simp
            obtain ⟨x, hx, hxw⟩ := List.mem_map.mp hwm
            have hxs : x ∈ e :: rest := by
              rcases List.mem_cons.mp hx with h | h
              · rw [h]; simp
              · exact List.mem_cons_of_mem _ (by rw [e1]; exact List.mem_append_left _ h)
            have hw0 : w.act.value = 0 := by rw [← hxw]; exact hint x hxs (by rw [hxw]; exact hw)
            have := runList_last_writer l1 l2 w ls (by rw [hw.1]; exact hlt) (by rw [hw.1, hw.2]; exact hn)
            rw [hw.1, hw.2, hw0] at this
            rw [es]; exact this
        have hdr : d ∈ (runGroup e.back rest (write ls e.ctl.act)).2 := by
          rcases List.mem_cons.mp hd with h | h
          · exact absurd (Or.inl h) hnot
          · rw [e1] at h
            rcases List.mem_append.mp h with h' | h'
            · exact absurd (Or.inr h') hnot
            · exact h'
        have hsub : ∀ x ∈ (runGroup e.back rest (write ls e.ctl.act)).2, x ∈ rest := by
          intro x hx; rw [e1]; exact List.mem_append_right _ hx
        apply ih _ _ t d
        · have : rest.length = pre.length + (runGroup e.back rest (write ls e.ctl.act)).2.length := by
            conv_lhs => rw [e1]
            simp
          simp at hlen; omega
        · have hs2 := hsort.2
          rw [e1] at hs2
          exact (List.pairwise_append.mp hs2).2.1
        · exact hdr
        · exact hk
        · exact hf
        · exact hv
        · rw [e2, runList_length, write_length]; exact hlt
        · rw [e2, runList_kinds, write_kinds]; exact hkinds
        · intro x hx hh; exact hint x (List.mem_cons_of_mem _ (hsub x hx)) hh

/-- the accepted time is `t` or `t − back` of one of the due entries -/
theorem presolveLoop_time_cases (tracked : List (Nat × Watch)) (ref : Links) :
    ∀ (fuel : Nat) (sorted : List Due) (ls : Links) (t : Int),
      (presolveLoop tracked ref fuel sorted ls t).2 = t ∨ ∃ d ∈ sorted, (presolveLoop tracked ref fuel sorted ls t).2 = t - d.back := by
  intro fuel
  induction fuel with
  | zero => intro sorted ls t; left; simp [presolveLoop]
  | succ n ih =>
    intro sorted ls t
    cases sorted with
    | nil => left; simp [presolveLoop]
    | cons e rest =>
      obtain ⟨pre, e1, _, _⟩ := runGroup_spec e.back rest (write ls e.ctl.act)
      unfold presolveLoop
      by_cases hch : changed tracked ref (runGroup e.back rest (write ls e.ctl.act)).1 = true
      · simp only [hch, if_true]; right; exact ⟨e, List.mem_cons_self, rfl⟩
      · simp only [hch]
        rcases ih (runGroup e.back rest (write ls e.ctl.act)).2 (runGroup e.back rest (write ls e.ctl.act)).1 t with h | ⟨d, hd, h⟩
        · left; exact h
        · right
          exact ⟨d, List.mem_cons_of_mem _ (by rw [e1]; exact List.mem_append_right _ hd), h⟩

/-- with non-negative backtracks the presolve pass never accepts a time AFTER the tentative one -/
theorem presolve_time_le_t (tracked : List (Nat × Watch)) (first : Bool) (due : List Due) (ls : Links) (t : Int)
    (hb : ∀ d ∈ due, 0 ≤ d.back) : (presolve tracked first due ls t).2 ≤ t := by
  unfold presolve
  simp only
  have hperm : ∀ x, x ∈ sortDue due ↔ x ∈ due := fun x => by
    unfold sortDue
    rw [(sortBy_perm _ _).mem_iff, (sortBy_perm _ _).mem_iff]
  rcases presolveLoop_time_cases tracked ls _ _ ls t with h | ⟨d, hd, h⟩
  · rw [h]
  · rw [h]
    cases first with
    | false =>
      simp only [Bool.false_eq_true, if_false] at hd
      have := hb d ((hperm d).mp hd); omega
    | true =>
      simp only [if_true] at hd
      obtain ⟨d', _, e⟩ := List.mem_map.mp hd
      rw [← e]; simp

end Wntr.Controls
