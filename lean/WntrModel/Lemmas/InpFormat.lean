/-
Lemmas about the number-format model of `Model/InpText.lean` (`Wntr.InpFormat`): digits read back, rounding error,
error bound of fixed-point (`{:.kf}`) and significant-digit (`{:.Ng}`) printing.
-/
import WntrModel.Model.InpText
import Mathlib.Data.Rat.Floor
import Mathlib.Tactic.Ring
import Mathlib.Tactic.Linarith
import Mathlib.Tactic.FieldSimp
import Mathlib.Tactic.Positivity
import Mathlib.Algebra.Order.Field.Rat
import Mathlib.Algebra.Order.AbsoluteValue.Basic

namespace Wntr.InpFormat

/-- the decimal digits of a numeral read back give the number -/
theorem ofDigitsRev_digitsRev (n : Nat) : ofDigitsRev (digitsRev n) = n := by
  induction n using Nat.strongRecOn with
  | _ n ih =>
    rw [digitsRev]
    split
    · simp [ofDigitsRev]
    · rename_i h
      simp only [ofDigitsRev]
      rw [ih (n / 10) (by omega)]
      omega

theorem floor_eq (y : Rat) : y.floor = ⌊y⌋ := rfl

/-- rounding to the nearest integer (ties to even) errs by at most one half -/
theorem roundHalfEven_err (y : Rat) : |((roundHalfEven y : Int) : Rat) - y| ≤ 1 / 2 := by
  have h1 : ((y.floor : Int) : Rat) ≤ y := Int.floor_le y
  have h2 : y < ((y.floor : Int) : Rat) + 1 := Int.lt_floor_add_one y
  unfold roundHalfEven
  by_cases ha : y - (y.floor : Rat) < 1 / 2
  · rw [if_pos ha]
    rw [abs_le]; constructor <;> linarith
  · by_cases hb : y - (y.floor : Rat) > 1 / 2
    · rw [if_neg ha, if_pos hb]
      push_cast
      rw [abs_le]; constructor <;> linarith
    · have heq : y - (y.floor : Rat) = 1 / 2 := le_antisymm (not_lt.mp hb) (not_lt.mp ha)
      by_cases hc : y.floor % 2 = 0
      · rw [if_neg ha, if_neg hb, if_pos hc]
        rw [abs_le]; constructor <;> linarith
      · rw [if_neg ha, if_neg hb, if_neg hc]
        push_cast
        rw [abs_le]; constructor <;> linarith

theorem signed_natAbs (n : Int) : (bif decide (n < 0) then (-1 : Rat) else 1) * ((n.natAbs : Nat) : Rat) = (n : Rat) := by
  rw [Nat.cast_natAbs, Int.cast_abs]
  by_cases h : n < 0
  · have h' : (n : Rat) < 0 := by exact_mod_cast h
    simp [h, abs_of_neg h']
  · have h' : (0 : Rat) ≤ (n : Rat) := by exact_mod_cast (not_lt.mp h)
    simp [h, abs_of_nonneg h']

/-- **fixed point**: the value read back from `'{:.kf}'.format(x)` differs from `x` by at most half a unit of the last
printed decimal — for every rational (hence every double) `x` -/
theorem fix_error_bound (k : Nat) (x : Rat) : |(fixWrite k x).value - x| ≤ (1 / 2) / (10 : Rat) ^ k := by
  have hp : (0 : Rat) < (10 : Rat) ^ k := by positivity
  have hr := roundHalfEven_err (x * (10 : Rat) ^ k)
  simp only [fixWrite, Dec.value, ofDigitsRev_digitsRev]
  rw [signed_natAbs]
  have : ((roundHalfEven (x * (10 : Rat) ^ k) : Int) : Rat) / (10 : Rat) ^ k - x
      = (((roundHalfEven (x * (10 : Rat) ^ k) : Int) : Rat) - x * (10 : Rat) ^ k) / (10 : Rat) ^ k := by
    field_simp
  rw [this, abs_div, abs_of_pos hp]
  exact div_le_div_of_nonneg_right hr (le_of_lt hp)

theorem pow10_pos (e : Int) : 0 < pow10 e := by
  unfold pow10
  split_ifs <;> positivity

/-- **significant digits**: when the mantissa is normalised (N digits: `10^(N-1) ≤ |x| / 10^s`), the value read back from
`'{:.Ng}'.format(x)` differs from `x` by at most `0.5·10^(1-N)·|x|` -/
theorem sig_error_bound (N : Nat) (x : Rat) (ms : Int × Int) (h : sigWrite N x = some ms) :
    |sigValue ms - x| ≤ (1 / 2) / (10 : Rat) ^ (N - 1) * |x| := by
  unfold sigWrite at h
  split_ifs at h with hx hn
  · cases h; simp [sigValue, hx]
  · cases h
    have hp := pow10_pos (scaleOf N x)
    have ha : absR x = |x| := by
      unfold absR
      split_ifs with hneg
      · exact (abs_of_neg hneg).symm
      · exact (abs_of_nonneg (not_lt.mp hneg)).symm
    rw [ha] at hn
    have hr := roundHalfEven_err (x / pow10 (scaleOf N x))
    have hN : (0 : Rat) < (10 : Rat) ^ (N - 1) := by positivity
    simp only [sigValue]
    have e1 : ((roundHalfEven (x / pow10 (scaleOf N x)) : Int) : Rat) * pow10 (scaleOf N x) - x
        = (((roundHalfEven (x / pow10 (scaleOf N x)) : Int) : Rat) - x / pow10 (scaleOf N x)) * pow10 (scaleOf N x) := by field_simp
    rw [e1, abs_mul, abs_of_pos hp]
    have hps : pow10 (scaleOf N x) ≤ |x| / (10 : Rat) ^ (N - 1) := by
      rw [le_div_iff₀ hN]
      have := (le_div_iff₀ hp).mp hn
      linarith [this]
    calc |((roundHalfEven (x / pow10 (scaleOf N x)) : Int) : Rat) - x / pow10 (scaleOf N x)| * pow10 (scaleOf N x)
        ≤ (1 / 2) * pow10 (scaleOf N x) := by exact mul_le_mul_of_nonneg_right hr (le_of_lt hp)
      _ ≤ (1 / 2) * (|x| / (10 : Rat) ^ (N - 1)) := by exact mul_le_mul_of_nonneg_left hps (by norm_num)
      _ = (1 / 2) / (10 : Rat) ^ (N - 1) * |x| := by field_simp

/-- a more precise format obeys the bound of a less precise one -/
theorem fix_bound_mono {k k0 : Nat} (h : k0 ≤ k) : (1 / 2) / (10 : Rat) ^ k ≤ (1 / 2) / (10 : Rat) ^ k0 := by
  apply div_le_div_of_nonneg_left (by norm_num) (by positivity)
  exact pow_le_pow_right₀ (by norm_num) h

theorem sig_bound_mono {n n0 : Nat} (h : n0 ≤ n) : (1 / 2) / (10 : Rat) ^ (n - 1) ≤ (1 / 2) / (10 : Rat) ^ (n0 - 1) := by
  apply div_le_div_of_nonneg_left (by norm_num) (by positivity)
  exact pow_le_pow_right₀ (by norm_num) (by omega)

end Wntr.InpFormat
