/-
Lemmas for C09, part 1: the transliterated compiled search `checkIsolated` clears exactly the nodes that are
reachable from a live source through CSR entries with `data = 1` (for EVERY flat CSR input and every initial indicator).
-/
import WntrModel.Model.Isolation
import Mathlib.Logic.Relation

namespace Wntr.Isolation

/-- the edge relation the C++ loop sees: some `i < num_connections[u]` with `data[indptr[u]+i] == 1` and `indices[..] == v` -/
def Csr.E (g : Csr) (u v : Nat) : Prop :=
  ∃ i, i < g.nconn.getD u 0 ∧ g.data.getD (g.base u + i) 0 = 1 ∧ g.indices.getD (g.base u + i) 0 = v

theorem mem_cols (g : Csr) (u v : Nat) : v ∈ g.cols u ↔ g.E u v := by
  unfold Csr.cols Csr.E
  simp only [List.mem_filterMap, List.mem_range]
  constructor
  · rintro ⟨i, hi, h⟩
    by_cases hd : g.data.getD (g.base u + i) 0 = 1
    · rw [if_pos hd] at h
      exact ⟨i, hi, hd, by simpa using h⟩
    · rw [if_neg hd] at h; cases h
  · rintro ⟨i, hi, hd, hv⟩
    exact ⟨i, hi, by rw [if_pos hd, hv]⟩

/-- one search step may go from `u` to `v` when there is an entry and `v` was live (`node_indicator == 1`) at the start -/
def R (g : Csr) (ind0 : List Int) (u v : Nat) : Prop := g.E u v ∧ ind0.getD v 0 = 1

/-- reachable from some live source through live nodes -/
def Reached (g : Csr) (srcs : List Nat) (ind0 : List Int) (v : Nat) : Prop :=
  ∃ s, s ∈ srcs ∧ ind0.getD s 0 = 1 ∧ Relation.ReflTransGen (R g ind0) s v

theorem getD_set_zero (l : List Int) (i j : Nat) : (l.set i 0).getD j 0 = if i = j then 0 else l.getD j 0 := by
  simp only [List.getD_eq_getElem?_getD, List.getElem?_set]
  by_cases h : i = j
  · subst h
    by_cases hl : i < l.length <;> simp [hl]
  · simp [h]

theorem getD_set_zero_self (l : List Int) (i : Nat) : (l.set i 0).getD i 0 = 0 := by
  rw [getD_set_zero, if_pos rfl]

theorem getD_set_zero_of_zero (l : List Int) (i j : Nat) (h : l.getD j 0 = 0) : (l.set i 0).getD j 0 = 0 := by
  rw [getD_set_zero]; split
  · rfl
  · exact h

theorem getD_set_zero_ne (l : List Int) {i j : Nat} (h : i ≠ j) : (l.set i 0).getD j 0 = l.getD j 0 := by
  rw [getD_set_zero, if_neg h]

theorem count_set_zero (l : List Int) (c : Nat) (h : l.getD c 0 = 1) : (l.set c 0).count 1 + 1 = l.count 1 := by
  induction l generalizing c with
  | nil => simp at h
  | cons x xs ih =>
    cases c with
    | zero =>
      simp only [List.getD_cons_zero] at h
      subst h
      simp
    | succ c =>
      simp only [List.getD_cons_succ] at h
      have := ih c h
      simp only [List.set_cons_succ, List.count_cons]
      omega

theorem maxL_mem (m : Nat) (xs : List Nat) : maxL m xs = m ∨ maxL m xs ∈ xs := by
  induction xs generalizing m with
  | nil => left; rfl
  | cons x xs ih =>
    simp only [maxL]
    rcases ih (if m < x then x else m) with h | h
    · by_cases hx : m < x
      · right; rw [h, if_pos hx]; exact List.mem_cons_self
      · left; rw [h, if_neg hx]
    · right; exact List.mem_cons_of_mem _ h

theorem popMax_some {w : List Nat} {u : Nat} {rest : List Nat} (h : popMax w = some (u, rest)) :
    u ∈ w ∧ rest = w.erase u := by
  cases w with
  | nil => simp [popMax] at h
  | cons x xs =>
    simp only [popMax, Option.some.injEq, Prod.mk.injEq] at h
    obtain ⟨h1, h2⟩ := h
    subst h1
    refine ⟨?_, h2.symm⟩
    rcases maxL_mem x xs with h | h
    · rw [h]; exact List.mem_cons_self
    · exact List.mem_cons_of_mem _ h

theorem popMax_none {w : List Nat} (h : popMax w = none) : w = [] := by
  cases w with
  | nil => rfl
  | cons x xs => simp [popMax] at h

/-- the invariant of the search while node `u0` is being expanded and the columns `cs` are still to be looked at
(`cs = []`: between two pops) -/
structure Inv (g : Csr) (srcs : List Nat) (ind0 ind : List Int) (work : List Nat) (u0 : Nat) (cs : List Nat) : Prop where
  mono : ∀ v, ind.getD v 0 = ind0.getD v 0 ∨ (ind0.getD v 0 = 1 ∧ ind.getD v 0 = 0)
  sound : ∀ v, ind0.getD v 0 = 1 → ind.getD v 0 = 0 → Reached g srcs ind0 v
  closed : ∀ u, ind0.getD u 0 = 1 → ind.getD u 0 = 0 → u ∉ work →
    ∀ v, g.E u v → ind0.getD v 0 = 1 → ind.getD v 0 = 0 ∨ (u = u0 ∧ v ∈ cs)
  workOk : ∀ u, u ∈ work → ind0.getD u 0 = 1 ∧ ind.getD u 0 = 0

theorem Inv.closed_nil {g srcs ind0 ind work u0} (h : Inv g srcs ind0 ind work u0 []) (u1 : Nat) :
    ∀ u, ind0.getD u 0 = 1 → ind.getD u 0 = 0 → u ∉ work →
      ∀ v, g.E u v → ind0.getD v 0 = 1 → ind.getD v 0 = 0 ∨ (u = u1 ∧ v ∈ ([] : List Nat)) := by
  intro u a b c v d e
  rcases h.closed u a b c v d e with h | ⟨_, h⟩
  · left; exact h
  · cases h

theorem visit_inv {g srcs ind0 ind work u0 c cs}
    (hu0 : ind0.getD u0 0 = 1 ∧ ind.getD u0 0 = 0) (hc : g.E u0 c)
    (h : Inv g srcs ind0 ind work u0 (c :: cs)) :
    Inv g srcs ind0 (visit (ind, work) c).1 (visit (ind, work) c).2 u0 cs := by
  unfold visit
  by_cases h1 : ind.getD c 0 = 1
  · simp only [h1, if_true]
    have hc0 : ind0.getD c 0 = 1 := by
      rcases h.mono c with e | ⟨_, e⟩
      · rw [← e]; exact h1
      · rw [h1] at e; cases e
    refine ⟨?_, ?_, ?_, ?_⟩
    · intro v
      rw [getD_set_zero]
      by_cases e : c = v
      · subst e; simp only [if_true]; right; exact ⟨hc0, trivial⟩
      · simp only [e, if_false]; exact h.mono v
    · intro v hv0 hv
      rw [getD_set_zero] at hv
      by_cases e : c = v
      · subst e
        obtain ⟨s, hs, hs1, hp⟩ := h.sound u0 hu0.1 hu0.2
        exact ⟨s, hs, hs1, hp.tail ⟨hc, hc0⟩⟩
      · simp only [e, if_false] at hv; exact h.sound v hv0 hv
    · intro u hu0' hu hnw v hE hv0
      have huc : u ≠ c := by
        intro e; apply hnw; subst e; unfold setInsert; split
        · assumption
        · exact List.mem_cons_self
      rw [getD_set_zero] at hu
      simp only [Ne.symm huc, if_false] at hu
      have hnw' : u ∉ work := by
        intro hm; apply hnw; unfold setInsert; split
        · exact hm
        · exact List.mem_cons_of_mem _ hm
      rw [getD_set_zero]
      by_cases e : c = v
      · left; simp [e]
      · simp only [e, if_false]
        rcases h.closed u hu0' hu hnw' v hE hv0 with h' | ⟨h', h''⟩
        · left; exact h'
        · rcases List.mem_cons.mp h'' with e' | e'
          · exact absurd e'.symm e
          · right; exact ⟨h', e'⟩
    · intro u hu
      by_cases e : c = u
      · subst e; exact ⟨hc0, getD_set_zero_self _ _⟩
      · rw [getD_set_zero_ne _ e]
        apply h.workOk
        unfold setInsert at hu; split at hu
        · exact hu
        · rcases List.mem_cons.mp hu with e' | e'
          · exact absurd e'.symm e
          · exact e'
  · simp only [h1, if_false]
    refine ⟨h.mono, h.sound, ?_, h.workOk⟩
    intro u hu0' hu hnw v hE hv0
    rcases h.closed u hu0' hu hnw v hE hv0 with h' | ⟨h', h''⟩
    · left; exact h'
    · rcases List.mem_cons.mp h'' with e' | e'
      · left
        subst e'
        rcases h.mono v with e | ⟨_, e⟩
        · rw [hv0] at e; exact absurd e h1
        · exact e
      · right; exact ⟨h', e'⟩

theorem visit_fold_inv {g srcs ind0 u0} (hu00 : ind0.getD u0 0 = 1) :
    ∀ (cs : List Nat) (ind : List Int) (work : List Nat), (∀ c ∈ cs, g.E u0 c) → ind.getD u0 0 = 0 →
      Inv g srcs ind0 ind work u0 cs →
      Inv g srcs ind0 (cs.foldl visit (ind, work)).1 (cs.foldl visit (ind, work)).2 u0 [] := by
  intro cs
  induction cs with
  | nil => intro ind work _ _ h; exact h
  | cons c cs ih =>
    intro ind work hE hu h
    rw [List.foldl_cons]
    have hv := visit_inv ⟨hu00, hu⟩ (hE c List.mem_cons_self) h
    have hu' : (visit (ind, work) c).1.getD u0 0 = 0 := by
      unfold visit; split
      · exact getD_set_zero_of_zero _ _ _ hu
      · exact hu
    exact ih _ _ (fun c' hc' => hE c' (List.mem_cons_of_mem _ hc')) hu' hv

/-- the measure that bounds the number of remaining pops -/
def meas (ind : List Int) (work : List Nat) : Nat := ind.count 1 + work.length

theorem visit_meas (ind : List Int) (work : List Nat) (c : Nat) :
    meas (visit (ind, work) c).1 (visit (ind, work) c).2 ≤ meas ind work := by
  unfold visit meas
  by_cases h1 : ind.getD c 0 = 1
  · simp only [h1, if_true]
    have := count_set_zero ind c h1
    have hl : (setInsert c work).length ≤ work.length + 1 := by
      unfold setInsert; split <;> simp
    omega
  · simp only [h1, if_false]; exact Nat.le_refl _

theorem visit_fold_meas (cs : List Nat) (ind : List Int) (work : List Nat) :
    meas (cs.foldl visit (ind, work)).1 (cs.foldl visit (ind, work)).2 ≤ meas ind work := by
  induction cs generalizing ind work with
  | nil => exact Nat.le_refl _
  | cons c cs ih =>
    rw [List.foldl_cons]
    exact Nat.le_trans (ih _ _) (visit_meas ind work c)

theorem explore_spec {g srcs ind0} (f : Nat) :
    ∀ (ind : List Int) (work : List Nat) (u0 : Nat), Inv g srcs ind0 ind work u0 [] →
      meas ind work ≤ f →
      Inv g srcs ind0 (explore g f ind work).1 [] u0 [] := by
  induction f with
  | zero =>
    intro ind work u0 h hm
    have : work = [] := by
      unfold meas at hm
      exact List.eq_nil_of_length_eq_zero (by omega)
    subst this
    exact h
  | succ f ih =>
    intro ind work u0 h hm
    unfold explore
    cases hp : popMax work with
    | none =>
      simp only
      have := popMax_none hp; subst this; exact h
    | some p =>
      obtain ⟨u, rest⟩ := p
      simp only
      obtain ⟨hu, hrest⟩ := popMax_some hp
      obtain ⟨hu0, hu1⟩ := h.workOk u hu
      have hlen : rest.length + 1 = work.length := by
        rw [hrest, List.length_erase_of_mem hu]
        have : 0 < work.length := List.length_pos_of_mem hu
        omega
      -- the invariant with `u` taken out of the work set and all its columns pending
      have h' : Inv g srcs ind0 ind rest u (g.cols u) := by
        refine ⟨h.mono, h.sound, ?_, ?_⟩
        · intro x hx0 hx hnr v hE hv0
          by_cases e : x = u
          · subst e
            by_cases hv : ind.getD v 0 = 0
            · left; exact hv
            · right; exact ⟨rfl, (mem_cols g x v).mpr hE⟩
          · have : x ∉ work := by
              intro hm'; apply hnr; rw [hrest]; exact (List.mem_erase_of_ne e).mpr hm'
            rcases h.closed x hx0 hx this v hE hv0 with h'' | ⟨_, h''⟩
            · left; exact h''
            · cases h''
        · intro x hx
          apply h.workOk
          rw [hrest] at hx
          exact List.mem_of_mem_erase hx
      have hf := visit_fold_inv (srcs := srcs) hu0 (g.cols u) ind rest
        (fun c hc => (mem_cols g u c).mp hc) hu1 h'
      have hm' := visit_fold_meas (g.cols u) ind rest
      have hI := ih _ _ u hf (by unfold meas at hm hm' ⊢; omega)
      exact ⟨hI.mono, hI.sound, hI.closed_nil u0, hI.workOk⟩

theorem visit_keeps_zero (ind : List Int) (work : List Nat) (c v : Nat) (h0 : ind.getD v 0 = 0) :
    (visit (ind, work) c).1.getD v 0 = 0 := by
  unfold visit; split
  · exact getD_set_zero_of_zero _ _ _ h0
  · exact h0

theorem visit_fold_keeps_zero (cs : List Nat) (ind : List Int) (work : List Nat) (v : Nat) (h0 : ind.getD v 0 = 0) :
    (cs.foldl visit (ind, work)).1.getD v 0 = 0 := by
  induction cs generalizing ind work with
  | nil => exact h0
  | cons c cs ih =>
    rw [List.foldl_cons]
    exact ih _ _ (visit_keeps_zero ind work c v h0)

theorem explore_keeps_zero (g : Csr) (f : Nat) (ind : List Int) (work : List Nat) (v : Nat) (h0 : ind.getD v 0 = 0) :
    (explore g f ind work).1.getD v 0 = 0 := by
  induction f generalizing ind work with
  | zero => exact h0
  | succ f ih =>
    unfold explore
    cases hp : popMax work with
    | none => exact h0
    | some p =>
      obtain ⟨u, rest⟩ := p
      simp only
      exact ih _ _ (visit_fold_keeps_zero _ _ _ _ h0)

/-- the state between two sources: invariant with an empty work set, and every source processed so far that was live is cleared -/
theorem sourceStep_spec {g srcs ind0 ind} (s : Nat) (hs : s ∈ srcs) (h : Inv g srcs ind0 ind [] 0 []) :
    Inv g srcs ind0 (sourceStep g ind s) [] 0 [] ∧ (ind0.getD s 0 = 1 → (sourceStep g ind s).getD s 0 = 0) := by
  unfold sourceStep
  by_cases h1 : ind.getD s 0 = 1
  · simp only [h1, if_true]
    have hs0 : ind0.getD s 0 = 1 := by
      rcases h.mono s with e | ⟨_, e⟩
      · rw [← e]; exact h1
      · rw [h1] at e; cases e
    have hI : Inv g srcs ind0 (ind.set s 0) [s] 0 [] := by
      refine ⟨?_, ?_, ?_, ?_⟩
      · intro v
        rw [getD_set_zero]
        by_cases e : s = v
        · subst e; rw [if_pos rfl]; right; exact ⟨hs0, rfl⟩
        · simp only [e, if_false]; exact h.mono v
      · intro v hv0 hv
        rw [getD_set_zero] at hv
        by_cases e : s = v
        · subst e; exact ⟨s, hs, hs0, Relation.ReflTransGen.refl⟩
        · simp only [e, if_false] at hv; exact h.sound v hv0 hv
      · intro u hu0 hu hnw v hE hv0
        have hus : u ≠ s := by intro e; apply hnw; simp [e]
        rw [getD_set_zero] at hu
        simp only [Ne.symm hus, if_false] at hu
        rw [getD_set_zero]
        by_cases e : s = v
        · left; simp [e]
        · simp only [e, if_false]
          rcases h.closed u hu0 hu (by simp) v hE hv0 with h' | ⟨_, h'⟩
          · left; exact h'
          · cases h'
      · intro u hu
        simp only [List.mem_singleton] at hu
        subst hu
        exact ⟨hs0, getD_set_zero_self _ _⟩
    have hm : meas (ind.set s 0) [s] ≤ ind.length := by
      unfold meas
      have := count_set_zero ind s h1
      have := List.count_le_length (a := (1 : Int)) (l := ind)
      simp only [List.length_singleton]; omega
    have hE := explore_spec (g := g) (srcs := srcs) (ind0 := ind0) ind.length _ _ 0 hI hm
    refine ⟨hE, fun _ => ?_⟩
    exact explore_keeps_zero g ind.length (ind.set s 0) [s] s (getD_set_zero_self _ _)
  · simp only [h1, if_false]
    refine ⟨h, fun hs0 => ?_⟩
    rcases h.mono s with e | ⟨_, e⟩
    · rw [hs0] at e; exact absurd e h1
    · exact e

theorem checkIsolated_spec (g : Csr) (srcs ind0) :
    Inv g srcs ind0 (checkIsolated g srcs ind0) [] 0 [] ∧
    ∀ s ∈ srcs, ind0.getD s 0 = 1 → (checkIsolated g srcs ind0).getD s 0 = 0 := by
  unfold checkIsolated
  have key : ∀ (l : List Nat) (ind : List Int), (∀ s ∈ l, s ∈ srcs) → Inv g srcs ind0 ind [] 0 [] →
      Inv g srcs ind0 (l.foldl (sourceStep g) ind) [] 0 [] ∧
      ∀ s, (s ∈ l ∨ (ind0.getD s 0 = 1 → ind.getD s 0 = 0)) → ind0.getD s 0 = 1 → (l.foldl (sourceStep g) ind).getD s 0 = 0 := by
    intro l
    induction l with
    | nil =>
      intro ind _ h
      refine ⟨h, fun s hs hs0 => ?_⟩
      rcases hs with hs | hs
      · cases hs
      · exact hs hs0
    | cons a l ih =>
      intro ind hsub h
      rw [List.foldl_cons]
      obtain ⟨h1, h2⟩ := sourceStep_spec a (hsub a List.mem_cons_self) h
      obtain ⟨h3, h4⟩ := ih (sourceStep g ind a) (fun s hs => hsub s (List.mem_cons_of_mem _ hs)) h1
      refine ⟨h3, fun s hs hs0 => ?_⟩
      apply h4 s _ hs0
      rcases hs with hs | hs
      · rcases List.mem_cons.mp hs with e | e
        · right; subst e; exact h2
        · left; exact e
      · right
        intro _
        -- zero entries stay zero under a source step
        have hz := hs hs0
        unfold sourceStep
        split
        · exact explore_keeps_zero g _ _ _ s (getD_set_zero_of_zero _ _ _ hz)
        · exact hz
  have h0 : Inv g srcs ind0 ind0 [] 0 [] := by
    refine ⟨fun v => Or.inl rfl, ?_, ?_, ?_⟩
    · intro v h1 h2; rw [h1] at h2; cases h2
    · intro u h1 h2; rw [h1] at h2; cases h2
    · intro u hu; cases hu
  obtain ⟨h1, h2⟩ := key srcs ind0 (fun s hs => hs) h0
  exact ⟨h1, fun s hs hs0 => h2 s (Or.inl hs) hs0⟩

end Wntr.Isolation
