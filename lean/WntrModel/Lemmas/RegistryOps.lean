/-
The operations of the REPAIRED registry code in normal form: for every operation the state it produces when it
succeeds (`...R`, straight-line code over the primitives) and a `..._cases` lemma: the operation either returns the
state unchanged (error / refused) or it returns `...R` with outcome `ok`, together with the facts that were tested.
-/
import WntrModel.Lemmas.RegistryInv

namespace Wntr.Registry
set_option linter.unusedSimpArgs false
set_option linter.unusedVariables false

/-! ### add_junction / add_tank / add_reservoir -/

def addJunctionR (s : Reg) (n : Name) (p : Option Name) : Reg :=
  bumpUid (setNode (addUsage? s .pattern p (n, .junction)) n ⟨.junction, none, none, [(p, false)], s.nextUid⟩)

theorem addJunction_cases (s : Reg) (n : Name) (p : Option Name) (obj : Bool) :
    addJunction repaired s n p obj = (s, .error) ∨
    (AL.get? s.nodes n = none ∧ addJunction repaired s n p obj = (addJunctionR s n p, .ok)) := by
  unfold addJunction addJunctionR
  cases h : AL.get? s.nodes n <;> simp [h]

/-- `add_leak` of the repaired code: both names are tested first, so it either adds its controls or changes nothing -/
theorem leakControls_repaired (c : List (Name × List Nat)) (n uid : Nat) (a b : Bool) :
    leakControls repaired c n uid a b = (c, .error) ∨ (leakControls repaired c n uid a b).2 = .ok := by
  unfold leakControls
  by_cases hg : (repaired.leakChecksFirst && ((a && AL.has c (leakCtl n true)) || (b && AL.has c (leakCtl n false)))) = true
  · rw [if_pos hg]; exact Or.inl rfl
  · rw [if_neg hg]
    right
    have hg' : (a = true → AL.has c (leakCtl n true) = false) ∧ (b = true → AL.has c (leakCtl n false) = false) := by
      cases a <;> cases b <;> simp_all [repaired]
    have hne : leakCtl n true ≠ leakCtl n false := by unfold leakCtl; simp
    have nf : ∀ x : Bool, x = false → ¬ (x = true) := fun x hx => by rw [hx]; exact Bool.false_ne_true
    cases a <;> cases b
    · rfl
    · show (if AL.has c (leakCtl n false) = true then (c, Out.error) else (AL.set c (leakCtl n false) [uid], Out.ok)).2 = .ok
      rw [if_neg (nf _ (hg'.2 rfl))]
    · show (if (if AL.has c (leakCtl n true) = true then (c, Out.error) else (AL.set c (leakCtl n true) [uid], Out.ok)).2 ≠ .ok
            then (if AL.has c (leakCtl n true) = true then (c, Out.error) else (AL.set c (leakCtl n true) [uid], Out.ok))
            else (if AL.has c (leakCtl n true) = true then (c, Out.error) else (AL.set c (leakCtl n true) [uid], Out.ok))).2 = .ok
      rw [if_neg (nf _ (hg'.1 rfl))]; simp
    · have h1 := hg'.1 rfl; have h2 := hg'.2 rfl
      have h3 : AL.has (AL.set c (leakCtl n true) [uid]) (leakCtl n false) = false := by
        rw [AL.has_eq, AL.get?_set, if_neg hne]; rw [AL.has_eq] at h2; exact h2
      show (if (if AL.has c (leakCtl n true) = true then (c, Out.error) else (AL.set c (leakCtl n true) [uid], Out.ok)).2 ≠ .ok
            then (if AL.has c (leakCtl n true) = true then (c, Out.error) else (AL.set c (leakCtl n true) [uid], Out.ok))
            else (if AL.has (if AL.has c (leakCtl n true) = true then (c, Out.error) else (AL.set c (leakCtl n true) [uid], Out.ok)).1 (leakCtl n false) = true
                  then ((if AL.has c (leakCtl n true) = true then (c, Out.error) else (AL.set c (leakCtl n true) [uid], Out.ok)).1, Out.error)
                  else (AL.set (if AL.has c (leakCtl n true) = true then (c, Out.error) else (AL.set c (leakCtl n true) [uid], Out.ok)).1 (leakCtl n false) [uid], Out.ok))).2 = .ok
      rw [if_neg (nf _ h1)]
      simp only [ne_eq, not_true_eq_false, if_false]
      rw [if_neg (nf _ h3)]

theorem addLeak_cases (s : Reg) (n : Name) (a b : Bool) :
    addLeak repaired s n a b = (s, .error) ∨
    (∃ c, addLeak repaired s n a b = ({ s with controls := c }, .ok)) := by
  unfold addLeak
  split
  · exact Or.inl rfl
  · split
    · exact Or.inl rfl
    · rename_i i _ _
      rcases leakControls_repaired s.controls n i.uid a b with e | e
      · left; rw [e]
      · right; exact ⟨_, by rw [e]⟩

theorem removeLeak_cases (s : Reg) (n : Name) :
    removeLeak s n = (s, .error) ∨
    removeLeak s n = ({ s with controls := AL.del (AL.del s.controls (leakCtl n true)) (leakCtl n false) }, .ok) := by
  unfold removeLeak
  cases AL.get? s.nodes n with
  | none => exact Or.inl rfl
  | some i =>
    simp only
    split
    · exact Or.inl rfl
    · exact Or.inr rfl

def addTankR (s : Reg) (n : Name) (c : Option Name) : Reg :=
  bumpUid (setNode (addUsage? s .curve c (n, .tank)) n ⟨.tank, none, c, [], s.nextUid⟩)

theorem addTank_cases (s : Reg) (n : Name) (c : Option Name) :
    addTank repaired s n c = (s, .error) ∨
    (AL.get? s.nodes n = none ∧ addTank repaired s n c = (addTankR s n c, .ok)) := by
  unfold addTank addTankR
  cases h : AL.get? s.nodes n
  · simp only [repaired_rejectDuplicates, AL.has_eq, h, Option.isSome_none, Bool.and_false, Bool.false_eq_true, if_false, true_and]
    cases c with
    | none => simp
    | some c => simp; by_cases h1 : c ∈ s.typed .volCurves <;> by_cases h2 : c ∈ s.curves <;> simp [h1, h2]
  · simp [h]

def addReservoirR (s : Reg) (n : Name) (p : Option Name) : Reg :=
  bumpUid (setNode (addUsage? s .pattern p (n, .reservoir)) n ⟨.reservoir, p, none, [], s.nextUid⟩)

theorem addReservoir_cases (s : Reg) (n : Name) (p : Option Name) :
    addReservoir repaired s n p = (s, .error) ∨
    (AL.get? s.nodes n = none ∧ addReservoir repaired s n p = (addReservoirR s n p, .ok)) := by
  unfold addReservoir addReservoirR
  cases h : AL.get? s.nodes n <;> simp [h]

/-! ### add_pipe / add_pump / add_valve -/

/-- `Link.__init__` of the repaired code: both nodes are looked up first -/
theorem linkInit_repaired (s : Reg) (n a b : Name) (ty : UKind) :
    linkInit repaired s n a b ty =
      if (AL.get? s.nodes a).isSome = true ∧ (AL.get? s.nodes b).isSome = true then
        .ok (addUsage (addUsage s .node a (n, ty)) .node b (n, ty))
      else .error s := by
  unfold linkInit
  by_cases ha : (AL.get? s.nodes a).isSome = true <;> by_cases hb : (AL.get? s.nodes b).isSome = true <;> simp [ha, hb]

def addPipeR (s : Reg) (n a b : Name) : Reg :=
  bumpUid (setLink (addUsage (addUsage s .node a (n, .pipe)) .node b (n, .pipe)) n ⟨.pipe, a, b, none, none, s.nextUid⟩)

theorem addPipe_cases (s : Reg) (n a b : Name) :
    addPipe repaired s n a b = (s, .error) ∨
    (AL.get? s.links n = none ∧ (∃ ia, AL.get? s.nodes a = some ia) ∧ (∃ ib, AL.get? s.nodes b = some ib) ∧
      addPipe repaired s n a b = (addPipeR s n a b, .ok)) := by
  unfold addPipe addPipeR
  rw [linkInit_repaired]
  cases h : AL.get? s.links n
  · by_cases ha : (AL.get? s.nodes a).isSome = true <;> by_cases hb : (AL.get? s.nodes b).isSome = true <;>
      simp [h, ha, hb, ← Option.isSome_iff_exists]
  · simp [h]

def addPumpR (s : Reg) (n a b : Name) (spec : PumpSpec) (pat : Option Name) : Reg :=
  match spec with
  | .power =>
    bumpUid (setLink (addUsage? (addUsage (addUsage s .node a (n, .pump)) .node b (n, .pump)) .pattern pat (n, .pump)) n
      ⟨.powerPump, a, b, pat, none, s.nextUid⟩)
  | .head c =>
    bumpUid (setLink (addUsage? (setCurveType repaired
        (addUsage (addUsage (addUsage s .node a (n, .pump)) .node b (n, .pump)) .curve c (n, .pump)) c .head)
      .pattern pat (n, .pump)) n ⟨.headPump, a, b, pat, some c, s.nextUid⟩)

theorem addPump_cases (s : Reg) (n a b : Name) (spec : PumpSpec) (pat : Option Name) :
    addPump repaired s n a b spec pat = (s, .error) ∨
    (AL.get? s.links n = none ∧ (∃ ia, AL.get? s.nodes a = some ia) ∧ (∃ ib, AL.get? s.nodes b = some ib) ∧
      addPump repaired s n a b spec pat = (addPumpR s n a b spec pat, .ok)) := by
  unfold addPump addPumpR
  rw [linkInit_repaired]
  cases h : AL.get? s.links n
  · by_cases ha : (AL.get? s.nodes a).isSome = true <;> by_cases hb : (AL.get? s.nodes b).isSome = true <;>
      cases spec <;> simp [h, ha, hb, ← Option.isSome_iff_exists]
  · simp [h]

def addValveR (s : Reg) (n a b : Name) (kind : LinkKind) (curve : Option Name) : Reg :=
  bumpUid (setLink (setCurveType? repaired
      (addUsage? (addUsage (addUsage s .node a (n, .valve)) .node b (n, .valve)) .curve
        (if kind = .gpv then curve else none) (n, .valve))
      (if kind = .gpv then curve else none) .headloss) n
    ⟨kind, a, b, none, if kind = .gpv then curve else none, s.nextUid⟩)

theorem addValve_cases (s : Reg) (n a b : Name) (kind : LinkKind) (curve : Option Name) :
    addValve repaired s n a b kind curve = (s, .error) ∨
    (isValveKind kind = true ∧ AL.get? s.links n = none ∧ (∃ ia, AL.get? s.nodes a = some ia) ∧
      (∃ ib, AL.get? s.nodes b = some ib) ∧
      addValve repaired s n a b kind curve = (addValveR s n a b kind curve, .ok)) := by
  unfold addValve addValveR nodeKind?
  rw [linkInit_repaired]
  by_cases hk : isValveKind kind = true
  · cases h : AL.get? s.links n
    · cases ha : AL.get? s.nodes a <;> cases hb : AL.get? s.nodes b <;>
        simp only [hk, h, ha, hb, Option.map_some, Option.map_none, Bool.not_true, Bool.false_eq_true, if_false,
          repaired_rejectDuplicates, AL.has_eq, Option.isSome_none, Option.isSome_some, Bool.and_false, and_self, if_true, true_and,
          reduceCtorEq, false_and, and_false, or_false, exists_false, Option.some.injEq, exists_eq']
      split
      · exact Or.inl rfl
      · exact Or.inr rfl
    · simp [h, hk]
  · simp [hk]

/-! ### add_pattern / add_curve / add_source / add_control -/

def addPatternR (s : Reg) (n : Name) : Reg := { s with patterns := s.patterns ++ [n] }

theorem addPattern_cases (s : Reg) (n : Name) :
    addPattern s n = (s, .error) ∨ (n ∉ s.patterns ∧ addPattern s n = (addPatternR s n, .ok)) := by
  unfold addPattern addPatternR
  by_cases h : n ∈ s.patterns <;> simp [h]

def addCurveR (s : Reg) (n : Name) (t : Option CurveType) : Reg :=
  match t with
  | none => { s with curves := OSet.add s.curves n }
  | some t => typedAdd { s with curves := OSet.add s.curves n } (curveSet t) n

theorem addCurve_eq (s : Reg) (n : Name) (t : Option CurveType) : addCurve repaired s n t = (addCurveR s n t, .ok) := by
  unfold addCurve addCurveR
  cases t with
  | none => rfl
  | some t => simp [setCurveType_repaired]

def addSourceR (s : Reg) (n node : Name) (pat : Option Name) : Reg :=
  addUsage (addUsage?
    { (addUsage (addUsage? s .pattern (srcPat s pat) (n, .source)) .node node (n, .source)) with
      sources := AL.set s.sources n ⟨node, srcPat s pat⟩ }
    .pattern (srcPat s pat) (n, .source)) .node node (n, .source)

theorem addSource_cases (s : Reg) (n node : Name) (pat : Option Name) :
    addSource repaired s n node pat = (s, .error) ∨
    (AL.get? s.sources n = none ∧ addSource repaired s n node pat = (addSourceR s n node pat, .ok)) := by
  unfold addSource addSourceR
  cases h : AL.get? s.sources n
  · refine Or.inr ⟨rfl, ?_⟩
    simp [h]
  · simp [h]

theorem addControl_cases (s : Reg) (n : Name) (ns ls : List Name) :
    addControl s n ns ls = (s, .error) ∨
    (∃ us, addControl s n ns ls = ({ s with controls := AL.set s.controls n us }, .ok)) := by
  unfold addControl
  split
  · exact Or.inl rfl
  · split
    · exact Or.inl rfl
    · exact Or.inr ⟨_, rfl⟩

theorem updateControl_cases (s : Reg) (n : Name) (ns ls : List Name) :
    updateControl s n ns ls = (s, .error) ∨
    (∃ us, updateControl s n ns ls = ({ s with controls := AL.set s.controls n us }, .ok)) := by
  unfold updateControl
  split
  · exact Or.inl rfl
  · split
    · exact Or.inr ⟨_, rfl⟩
    · exact Or.inl rfl

/-! ### remove_node / remove_link -/

/-- `NodeRegistry.__delitem__` of the repaired code after the in-use test, as straight-line code: a junction is released from
every pattern record, a reservoir from its head pattern, a tank from its volume curve -/
def delNodeR (s : Reg) (key : Name) (i : NodeInfo) : Reg :=
  removeUsageO
    (removeUsageO
      (removeUserAllO
        (typedDiscardAll { (popUsageKey s .node key) with nodes := AL.del s.nodes key } nodeSets key)
        .pattern (if i.kind = .junction then some (key, .junction) else none))
      .pattern (if i.kind = .reservoir then i.pat else none) (key, .reservoir))
    .curve (if i.kind = .tank then i.curve else none) (key, .tank)

theorem delNode_repaired (s : Reg) (key : Name) (i : NodeInfo) : delNode repaired s key i = delNodeR s key i := by
  unfold delNode delNodeR
  cases hk : i.kind <;>
    simp only [repaired_delPatternReg, repaired_delNodeSweeps, if_true, tryStep_removeUsageO, id, reduceCtorEq, if_false,
      removeUsageO, removeUserAllO, popUsageKey_nodes]

theorem removeNode_cases (s : Reg) (n : Name) (wc force : Bool) :
    (AL.get? s.nodes n = none ∧ removeNode repaired s n wc force = (s, .error)) ∨
    removeNode repaired s n wc force = (s, .refused) ∨
    (∃ i, AL.get? s.nodes n = some i ∧ (∀ u, u ∉ ulook (s.usage .node) n) ∧
      removeNode repaired s n wc force =
        (if (!force && wc) = true then dropControls (delNodeR s n i) i.uid else delNodeR s n i, .ok)) := by
  unfold removeNode
  cases h : AL.get? s.nodes n with
  | none => exact Or.inl ⟨rfl, rfl⟩
  | some i =>
    simp only [repaired_controlsAfter, Bool.not_true, Bool.and_false, Bool.false_eq_true, if_false, Bool.and_true,
      delNode_repaired]
    split
    · exact Or.inr (Or.inl rfl)
    · cases hu : inUse s .node n
      · rw [inUse_false] at hu
        exact Or.inr (Or.inr ⟨i, rfl, hu, by simp⟩)
      · exact Or.inr (Or.inl (by simp))

/-- `LinkRegistry.__delitem__` of the repaired code as straight-line code -/
def delLinkR (s : Reg) (key : Name) (i : LinkInfo) : Reg :=
  typedDiscardAll
    (removeUsageO
      (removeUsageO
        (removeUsageO
          (removeUsageT
            (removeUsageT { s with links := AL.del s.links key } .node i.start (key, ltype i.kind))
            .node i.end_ (key, ltype i.kind))
          .curve (if i.kind = .gpv then i.curve else none) (key, .valve))
        .pattern (if isPump i.kind = true then i.pat else none) (key, .pump))
      .curve (if i.kind = .headPump then i.curve else none) (key, .pump))
    allLinkSets key

theorem delLink_repaired (s : Reg) (key : Name) (i : LinkInfo) : delLink repaired s key i = delLinkR s key i := by
  unfold delLink delLinkR
  simp only [tryStep_removeUsage, tryStep_removeUsageO, tryStep_ite_removeUsageO, repaired_delPatternReg, if_true]

theorem removeLink_cases (s : Reg) (n : Name) (wc force : Bool) :
    (AL.get? s.links n = none ∧ removeLink repaired s n wc force = (s, .error)) ∨
    removeLink repaired s n wc force = (s, .refused) ∨
    (∃ i, AL.get? s.links n = some i ∧
      removeLink repaired s n wc force =
        (if (!force && wc) = true then dropControls (delLinkR s n i) i.uid else delLinkR s n i, .ok)) := by
  unfold removeLink
  cases h : AL.get? s.links n with
  | none => exact Or.inl ⟨rfl, rfl⟩
  | some i =>
    simp only [repaired_controlsAfter, Bool.not_true, Bool.and_false, Bool.false_eq_true, if_false, Bool.and_true,
      delLink_repaired]
    split
    · exact Or.inr (Or.inl rfl)
    · exact Or.inr (Or.inr ⟨i, rfl, by simp⟩)

/-! ### remove_pattern / remove_curve / remove_source / remove_control -/

def removePatternR (s : Reg) (n : Name) : Reg :=
  { (popUsageKey s .pattern n) with patterns := OSet.discard s.patterns n }

theorem removePattern_cases (s : Reg) (n : Name) :
    removePattern s n = (s, .refused) ∨
    ((∀ u, u ∉ ulook (s.usage .pattern) n) ∧ removePattern s n = (removePatternR s n, .ok)) := by
  unfold removePattern removePatternR
  cases hu : inUse s .pattern n
  · rw [inUse_false] at hu
    exact Or.inr ⟨hu, by simp⟩
  · exact Or.inl (by simp)

def removeCurveR (s : Reg) (n : Name) : Reg :=
  typedDiscardAll { (popUsageKey s .curve n) with curves := OSet.discard s.curves n } curveSets n

theorem removeCurve_cases (s : Reg) (n : Name) :
    removeCurve repaired s n = (s, .refused) ∨
    ((∀ u, u ∉ ulook (s.usage .curve) n) ∧ removeCurve repaired s n = (removeCurveR s n, .ok)) := by
  unfold removeCurve removeCurveR
  cases hu : inUse s .curve n
  · rw [inUse_false] at hu
    exact Or.inr ⟨hu, by simp⟩
  · exact Or.inl (by simp)

def removeSourceR (s : Reg) (n : Name) (si : SourceInfo) : Reg :=
  removeUsageT (removeUsageO
    { (removeUsageT (removeUsageO s .pattern si.pat (n, .source)) .node si.node (n, .source)) with
      sources := AL.del s.sources n }
    .pattern si.pat (n, .source)) .node si.node (n, .source)

theorem removeSource_cases (s : Reg) (n : Name) :
    removeSource repaired s n = (s, .error) ∨
    (∃ si, AL.get? s.sources n = some si ∧ removeSource repaired s n = (removeSourceR s n si, .ok)) := by
  unfold removeSource removeSourceR
  cases h : AL.get? s.sources n with
  | none => exact Or.inl rfl
  | some si =>
    refine Or.inr ⟨si, rfl, ?_⟩
    simp only [removeUsageO_repaired, removeUsage_repaired, tryStep_fun_some, id,
      removeUsageT_sources, removeUsageO_sources]

/-! ### the demand list of a junction -/

def addDemandR (s : Reg) (n : Name) (p : Option Name) (i : NodeInfo) : Reg :=
  { (addUsage? s .pattern p (n, .junction)) with
    nodes := AL.set s.nodes n { i with demands := i.demands ++ [(p, false)] } }

theorem addDemand_cases (s : Reg) (n : Name) (p : Option Name) (obj : Bool) :
    addDemand repaired s n p obj = (s, .error) ∨
    (∃ i, AL.get? s.nodes n = some i ∧ i.kind = .junction ∧ addDemand repaired s n p obj = (addDemandR s n p i, .ok)) := by
  unfold addDemand addDemandR
  cases h : AL.get? s.nodes n with
  | none => exact Or.inl rfl
  | some i =>
    by_cases hk : i.kind = .junction
    · exact Or.inr ⟨i, rfl, hk, by simp [hk]⟩
    · simp [hk]

def delDemandR (s : Reg) (n : Name) (idx : Nat) (i : NodeInfo) : Reg :=
  { (removeUsageO s .pattern (droppedPat i.demands idx) (n, .junction)) with
    nodes := AL.set s.nodes n { i with demands := i.demands.eraseIdx idx } }

theorem delDemand_cases (s : Reg) (n : Name) (idx : Nat) :
    delDemand repaired s n idx = (s, .error) ∨
    (∃ i, AL.get? s.nodes n = some i ∧ i.kind = .junction ∧ delDemand repaired s n idx = (delDemandR s n idx i, .ok)) := by
  unfold delDemand delDemandR
  cases h : AL.get? s.nodes n with
  | none => exact Or.inl rfl
  | some i =>
    by_cases hk : i.kind = .junction
    · by_cases hl : idx ≥ i.demands.length
      · simp [hk, hl]
      · exact Or.inr ⟨i, rfl, hk, by simp [hk, hl]⟩
    · simp [hk]

def insertDemandR (s : Reg) (n : Name) (idx : Nat) (pat : Option Name) (i : NodeInfo) : Reg :=
  { (addUsage? s .pattern pat (n, .junction)) with
    nodes := AL.set s.nodes n { i with demands := (i.demands.take idx) ++ [(pat, false)] ++ (i.demands.drop idx) } }

theorem insertDemand_cases (s : Reg) (n : Name) (idx : Nat) (pat : Option Name) :
    insertDemand repaired s n idx pat = (s, .error) ∨
    (∃ i, AL.get? s.nodes n = some i ∧ i.kind = .junction ∧
      insertDemand repaired s n idx pat = (insertDemandR s n idx pat i, .ok)) := by
  unfold insertDemand insertDemandR
  cases h : AL.get? s.nodes n with
  | none => exact Or.inl rfl
  | some i =>
    by_cases hk : i.kind = .junction
    · exact Or.inr ⟨i, rfl, hk, by simp [hk]⟩
    · simp [hk]

def addFireR (s : Reg) (n p : Name) (i : NodeInfo) : Reg :=
  { (addUsage { s with patterns := s.patterns ++ [p] } .pattern p (n, .junction)) with
    nodes := AL.set s.nodes n { i with demands := i.demands ++ [(some p, true)] } }

theorem addFire_cases (s : Reg) (n p : Name) :
    addFire s n p = (s, .error) ∨
    (∃ i, AL.get? s.nodes n = some i ∧ i.kind = .junction ∧ p ∉ s.patterns ∧ addFire s n p = (addFireR s n p i, .ok)) := by
  unfold addFire addFireR
  cases h : AL.get? s.nodes n with
  | none => exact Or.inl rfl
  | some i =>
    by_cases hk : i.kind = .junction
    · by_cases hf : hasFire i = true
      · simp [hk, hf]
      · by_cases hp : p ∈ s.patterns
        · simp [hk, hf, hp]
        · exact Or.inr ⟨i, rfl, hk, hp, by simp [hk, hf, hp]⟩
    · simp [hk]

/-- `remove_fire_fighting_demand` of the repaired code before it looks at the pattern: the 'Fire_Flow' entries go, the usage
record goes unless another entry of the junction still names the pattern -/
def removeFireR (s : Reg) (n p : Name) (i : NodeInfo) : Reg :=
  { (removeUsageO s .pattern
      (if (i.demands.filter (fun d => !d.2)).any (fun d => d.1 = some p) = true then none else some p) (n, .junction)) with
    nodes := AL.set s.nodes n { i with demands := i.demands.filter (fun d => !d.2) } }

theorem fireDrop_repaired (s : Reg) (n p : Name) (i : NodeInfo) : fireDrop repaired s n p i = removeFireR s n p i := by
  unfold fireDrop removeFireR
  simp only [repaired_fireKeepsShared, Bool.true_and]
  by_cases h : (i.demands.filter (fun d => !d.2)).any (fun d => decide (d.1 = some p)) = true
  · simp only [h, if_true, removeUsageO]
  · simp only [h, if_false, removeUsageO, Bool.false_eq_true, removeUsageT_nodes]

theorem removeFire_cases (s : Reg) (n : Name) :
    removeFire repaired s n = (s, .error) ∨ removeFire repaired s n = (s, .ok) ∨
    (∃ i p, AL.get? s.nodes n = some i ∧ i.kind = .junction ∧
      (removeFire repaired s n = (removeFireR s n p i, .ok) ∨
       ((∀ u, u ∉ ulook ((removeFireR s n p i).usage .pattern) p) ∧
        removeFire repaired s n = (removePatternR (removeFireR s n p i) p, .ok)))) := by
  unfold removeFire
  cases h : AL.get? s.nodes n with
  | none => exact Or.inl rfl
  | some i =>
    by_cases hk : i.kind = .junction
    · cases hf : firePat i with
      | none =>
        by_cases hh : hasFire i = true
        · exact Or.inl (by simp [hk, hf, hh])
        · exact Or.inr (Or.inl (by simp [hk, hf, hh]))
      | some p =>
        refine Or.inr (Or.inr ⟨i, p, rfl, hk, ?_⟩)
        simp only [hk, hf, ne_eq, not_true_eq_false, if_false, fireDrop_repaired, repaired_fireKeepsShared, if_true]
        rcases removePattern_cases (removeFireR s n p i) p with e | ⟨hu, e⟩
        · left
          have : inUse (removeFireR s n p i) .pattern p = true := by
            unfold removePattern at e
            by_contra hc
            simp only [Bool.not_eq_true] at hc
            simp [hc] at e
          simp [this]
        · right
          have : inUse (removeFireR s n p i) .pattern p = false := (inUse_false _ _ _).2 hu
          exact ⟨hu, by simp [this, e]⟩
    · simp [hk]

def renameSourceR (s : Reg) (old new : Name) (si : SourceInfo) : Reg :=
  { (addUsage (removeUsageT (addUsage? (removeUsageO s .pattern si.pat (old, .source)) .pattern si.pat (new, .source))
      .node si.node (old, .source)) .node si.node (new, .source)) with
    sources := AL.set (AL.del s.sources old) new si }

theorem renameSource_cases (s : Reg) (old new : Name) :
    renameSource repaired s old new = (s, .error) ∨ renameSource repaired s old new = (s, .ok) ∨
    (∃ si, AL.get? s.sources old = some si ∧ AL.get? s.sources new = none ∧ new ≠ old ∧
      renameSource repaired s old new = (renameSourceR s old new si, .ok)) := by
  unfold renameSource renameSourceR
  cases h : AL.get? s.sources old with
  | none => exact Or.inl rfl
  | some si =>
    by_cases hne : new = old
    · exact Or.inr (Or.inl (by simp [hne]))
    · cases hn : AL.get? s.sources new with
      | some x => exact Or.inl (by simp [hne, hn])
      | none => exact Or.inr (Or.inr ⟨si, rfl, rfl, hne, by simp [hne, hn]⟩)

def clearDemandsR (s : Reg) (n : Name) (i : NodeInfo) : Reg :=
  { (releaseAll s .pattern (demandNames i.demands) (n, .junction)) with nodes := AL.set s.nodes n { i with demands := [] } }

theorem clearDemands_cases (s : Reg) (n : Name) :
    clearDemands repaired s n = (s, .error) ∨
    (∃ i, AL.get? s.nodes n = some i ∧ i.kind = .junction ∧ clearDemands repaired s n = (clearDemandsR s n i, .ok)) := by
  unfold clearDemands clearDemandsR
  cases h : AL.get? s.nodes n with
  | none => exact Or.inl rfl
  | some i =>
    by_cases hk : i.kind = .junction
    · exact Or.inr ⟨i, rfl, hk, by simp [hk]⟩
    · simp [hk]

def assignDemandR (s : Reg) (n p : Name) (i : NodeInfo) : Reg :=
  { (addUsage (releaseAll { s with patterns := s.patterns ++ [p] } .pattern (demandNames i.demands) (n, .junction))
      .pattern p (n, .junction)) with
    nodes := AL.set s.nodes n { i with demands := [(some p, false)] } }

theorem assignDemand_cases (s : Reg) (n p : Name) :
    assignDemand repaired s n p = (s, .error) ∨
    (∃ i, AL.get? s.nodes n = some i ∧ i.kind = .junction ∧ p ∉ s.patterns ∧
      assignDemand repaired s n p = (assignDemandR s n p i, .ok)) := by
  unfold assignDemand assignDemandR
  cases h : AL.get? s.nodes n with
  | none => exact Or.inl rfl
  | some i =>
    by_cases hk : i.kind = .junction
    · by_cases hp : p ∈ s.patterns
      · simp [hk, hp]
      · exact Or.inr ⟨i, rfl, hk, hp, by simp [hk, hp]⟩
    · simp [hk]

def setSourceNodeR (s : Reg) (n node : Name) (si : SourceInfo) : Reg :=
  { (addUsage (removeUsageT s .node si.node (n, .source)) .node node (n, .source)) with
    sources := AL.set s.sources n { si with node := node } }

theorem setSourceNode_cases (s : Reg) (n node : Name) :
    setSourceNode repaired s n node = (s, .error) ∨
    (∃ si, AL.get? s.sources n = some si ∧ setSourceNode repaired s n node = (setSourceNodeR s n node si, .ok)) := by
  unfold setSourceNode setSourceNodeR
  cases h : AL.get? s.sources n with
  | none => exact Or.inl rfl
  | some si => exact Or.inr ⟨si, rfl, by simp⟩

theorem removeControl_cases (s : Reg) (n : Name) :
    removeControl s n = (s, .error) ∨ removeControl s n = ({ s with controls := AL.del s.controls n }, .ok) := by
  unfold removeControl
  split
  · exact Or.inr rfl
  · exact Or.inl rfl

/-! ### reassignment of end nodes, patterns and curves -/

def setEndNodeR (s : Reg) (l n : Name) (isStart : Bool) (i : LinkInfo) : Reg :=
  { (addUsage
      (removeUsageO s .node
        (if (if isStart then i.start else i.end_) = (if isStart then i.end_ else i.start) then none
         else some (if isStart then i.start else i.end_)) (l, ltype i.kind))
      .node n (l, ltype i.kind)) with
    links := AL.set s.links l (if isStart then { i with start := n } else { i with end_ := n }) }

theorem setEndNode_cases (s : Reg) (l n : Name) (isStart : Bool) :
    setEndNode repaired s l n isStart = (s, .error) ∨
    (∃ i, AL.get? s.links l = some i ∧ (∃ x, AL.get? s.nodes n = some x) ∧
      setEndNode repaired s l n isStart = (setEndNodeR s l n isStart i, .ok)) := by
  unfold setEndNode setEndNodeR
  cases h : AL.get? s.links l with
  | none => exact Or.inl rfl
  | some i =>
    cases hn : AL.get? s.nodes n with
    | none => simp [hn]
    | some x =>
      refine Or.inr ⟨i, rfl, ⟨x, rfl⟩, ?_⟩
      simp only [AL.has_eq, hn, Option.isSome_some, Bool.not_true, Bool.false_eq_true, if_false,
        repaired_setterKeepsSharedEnd, Bool.true_and, decide_eq_true_eq, removeUsage_repaired]
      by_cases hc : (if isStart = true then i.start else i.end_) = (if isStart = true then i.end_ else i.start)
      · cases isStart <;> simp_all [removeUsageO]
      · cases isStart <;> simp_all [removeUsageO]

def setSpeedPatternR (s : Reg) (l : Name) (pat : Option Name) (i : LinkInfo) : Reg :=
  { (addUsage? (removeUsageO s .pattern i.pat (l, .pump)) .pattern pat (l, .pump)) with
    links := AL.set s.links l { i with pat := pat } }

theorem setSpeedPattern_cases (s : Reg) (l : Name) (pat : Option Name) :
    setSpeedPattern repaired s l pat = (s, .error) ∨
    (∃ i, AL.get? s.links l = some i ∧ isPump i.kind = true ∧
      setSpeedPattern repaired s l pat = (setSpeedPatternR s l pat i, .ok)) := by
  unfold setSpeedPattern setSpeedPatternR
  cases h : AL.get? s.links l with
  | none => exact Or.inl rfl
  | some i =>
    by_cases hp : isPump i.kind = true
    · exact Or.inr ⟨i, rfl, hp, by simp [hp]⟩
    · simp [hp]

def setPumpCurveR (s : Reg) (l c : Name) (i : LinkInfo) : Reg :=
  { (setCurveType repaired (addUsage (removeUsageO s .curve i.curve (l, .pump)) .curve c (l, .pump)) c .head) with
    links := AL.set s.links l { i with curve := some c } }

theorem setPumpCurve_cases (s : Reg) (l c : Name) :
    setPumpCurve repaired s l c = (s, .error) ∨
    (∃ i, AL.get? s.links l = some i ∧ i.kind = .headPump ∧
      setPumpCurve repaired s l c = (setPumpCurveR s l c i, .ok)) := by
  unfold setPumpCurve setPumpCurveR
  cases h : AL.get? s.links l with
  | none => exact Or.inl rfl
  | some i =>
    by_cases hp : i.kind = .headPump
    · exact Or.inr ⟨i, rfl, hp, by simp [hp]⟩
    · simp [hp]

def setHeadlossCurveR (s : Reg) (l c : Name) (i : LinkInfo) : Reg :=
  { (setCurveType repaired (addUsage (removeUsageO s .curve i.curve (l, .valve)) .curve c (l, .valve)) c .headloss) with
    links := AL.set s.links l { i with curve := some c } }

theorem setHeadlossCurve_cases (s : Reg) (l c : Name) :
    setHeadlossCurve repaired s l c = (s, .error) ∨
    (∃ i, AL.get? s.links l = some i ∧ i.kind = .gpv ∧
      setHeadlossCurve repaired s l c = (setHeadlossCurveR s l c i, .ok)) := by
  unfold setHeadlossCurve setHeadlossCurveR
  cases h : AL.get? s.links l with
  | none => exact Or.inl rfl
  | some i =>
    by_cases hp : i.kind = .gpv
    · exact Or.inr ⟨i, rfl, hp, by simp [hp]⟩
    · simp [hp]

def setHeadPatternR (s : Reg) (n : Name) (pat : Option Name) (i : NodeInfo) : Reg :=
  { (addUsage? (removeUsageO s .pattern i.pat (n, .reservoir)) .pattern pat (n, .reservoir)) with
    nodes := AL.set s.nodes n { i with pat := pat } }

theorem setHeadPattern_cases (s : Reg) (n : Name) (pat : Option Name) :
    setHeadPattern repaired s n pat = (s, .error) ∨
    (∃ i, AL.get? s.nodes n = some i ∧ i.kind = .reservoir ∧
      setHeadPattern repaired s n pat = (setHeadPatternR s n pat i, .ok)) := by
  unfold setHeadPattern setHeadPatternR
  cases h : AL.get? s.nodes n with
  | none => exact Or.inl rfl
  | some i =>
    by_cases hp : i.kind = .reservoir
    · exact Or.inr ⟨i, rfl, hp, by simp [hp]⟩
    · simp [hp]

def setVolCurveR (s : Reg) (n : Name) (curve : Option Name) (i : NodeInfo) : Reg :=
  { (addUsage? (removeUsageO s .curve i.curve (n, .tank)) .curve curve (n, .tank)) with
    nodes := AL.set s.nodes n { i with curve := curve } }

theorem setVolCurve_cases (s : Reg) (n : Name) (curve : Option Name) :
    setVolCurve repaired s n curve = (s, .error) ∨
    (∃ i, AL.get? s.nodes n = some i ∧ i.kind = .tank ∧
      setVolCurve repaired s n curve = (setVolCurveR s n curve i, .ok)) := by
  unfold setVolCurve setVolCurveR
  cases h : AL.get? s.nodes n with
  | none => exact Or.inl rfl
  | some i =>
    by_cases hp : i.kind = .tank
    · exact Or.inr ⟨i, rfl, hp, by simp [hp]⟩
    · simp [hp]

end Wntr.Registry
