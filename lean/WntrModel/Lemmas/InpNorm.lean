/-
Idempotence of the normalisation under which C12 compares a model with its re-read copy (`Wntr.InpNorm.norm`), and the
normal form of rule conditions (AND of OR-groups).
-/
import WntrModel.Model.InpText
import Mathlib.Data.List.Basic

namespace Wntr.InpNorm
open Wntr.InpText

variable {α : Type}

theorem normPat_idem (ps : List String) (p : Option String) : normPat ps (normPat ps p) = normPat ps p := by
  cases p with
  | none => rfl
  | some n =>
    by_cases h : n ∈ ps
    · simp [normPat, h]
    · simp [normPat, h]

theorem normDemands_idem (ps : List String) (ds : List Demand) : normDemands ps (normDemands ps ds) = normDemands ps ds := by
  cases ds with
  | nil => simp [normDemands, normPat]
  | cons d t =>
    simp only [normDemands, List.map_cons, List.map_map, List.cons.injEq]
    refine ⟨by simp [normPat_idem], ?_⟩
    apply List.map_congr_left
    intro x _
    simp [normPat_idem]

theorem normPump_idem (p : Pump) : normPump (normPump p) = normPump p := by
  obtain ⟨n, c, s⟩ := p
  cases c <;> simp [normPump]

theorem normSource_idem (ps : List String) (s : Source) : normSource ps (normSource ps s) = normSource ps s := by
  simp [normSource, normPat_idem]

theorem normOpts_idem (ps : List String) (o : Opts) : normOpts ps (normOpts ps o) = normOpts ps o := by
  simp [normOpts, normPat_idem]

theorem ctlNorm_idem (c : CtlCond) : c.norm.norm = c.norm := by
  cases c with
  | time _ => rfl
  | clock _ => rfl
  | node k n e a ab th => cases k <;> simp [CtlCond.norm, NodeKind.attr]

/-! ### rule conditions -/

theorem cnf_foldl_or (t : Cond α) (g : List α) (rest : List α) (h : cnf t = [g]) :
    cnf (rest.foldl (fun t x => Cond.or t (.atom x)) t) = [g ++ rest] := by
  induction rest generalizing t g with
  | nil => simpa using h
  | cons x xs ih =>
    simp only [List.foldl_cons]
    rw [ih (Cond.or t (.atom x)) (g ++ [x]) (by simp [cnf, h])]
    simp

theorem cnf_groupTree [Inhabited α] (g : List α) (hg : g ≠ []) : cnf (groupTree g) = [g] := by
  cases g with
  | nil => exact absurd rfl hg
  | cons a t =>
    simp only [groupTree, orTree, List.headD_cons, List.tail_cons]
    rw [cnf_foldl_or (.atom a) [a] t rfl]
    simp

theorem cnf_foldl_and [Inhabited α] (t : Cond α) (gs : List (List α)) (hne : ∀ g ∈ gs, g ≠ []) :
    cnf ((gs.map groupTree).foldl .and t) = cnf t ++ gs := by
  induction gs generalizing t with
  | nil => simp
  | cons g rest ih =>
    simp only [List.map_cons, List.foldl_cons]
    rw [ih (.and t (groupTree g)) (fun x hx => hne x (List.mem_cons_of_mem _ hx))]
    simp [cnf, cnf_groupTree g (hne g (List.mem_cons_self ..))]

/-- the groups of the canonical tree are the groups it was built from -/
theorem cnf_ofGroups [Inhabited α] (gs : List (List α)) (h0 : gs ≠ []) (hne : ∀ g ∈ gs, g ≠ []) : cnf (ofGroups gs) = gs := by
  cases gs with
  | nil => exact absurd rfl h0
  | cons g rest =>
    simp only [ofGroups, List.headD_cons, List.tail_cons]
    rw [cnf_foldl_and _ rest (fun x hx => hne x (List.mem_cons_of_mem _ hx)), cnf_groupTree g (hne g (List.mem_cons_self ..))]
    simp

theorem cnf_ne_nil (c : Cond α) : cnf c ≠ [] ∧ ∀ g ∈ cnf c, g ≠ [] := by
  induction c with
  | atom a => simp [cnf]
  | and l r ihl ihr =>
    refine ⟨by simp [cnf, ihl.1], ?_⟩
    intro g hg
    simp only [cnf, List.mem_append] at hg
    rcases hg with h | h
    · exact ihl.2 g h
    · exact ihr.2 g h
  | or l r ihl ihr =>
    constructor
    · obtain ⟨a, la, hl⟩ := List.exists_cons_of_ne_nil ihl.1
      obtain ⟨b, lb, hr⟩ := List.exists_cons_of_ne_nil ihr.1
      simp [cnf, hl, hr]
    · intro g hg
      simp only [cnf, List.mem_flatMap, List.mem_map] at hg
      obtain ⟨g1, h1, g2, _, rfl⟩ := hg
      have := ihl.2 g1 h1
      simp [this]

/-- the normal form of a rule condition is stable: normalising again changes nothing -/
theorem condNorm_idem [Inhabited α] (c : Cond α) : ofGroups (cnf (ofGroups (cnf c))) = ofGroups (cnf c) := by
  rw [cnf_ofGroups (cnf c) (cnf_ne_nil c).1 (cnf_ne_nil c).2]

end Wntr.InpNorm
