/-
Idempotence of the normalisation under which C12 compares a model with its re-read copy (`Wntr.InpNorm.norm`), and the
normal form of rule conditions (AND of OR-groups).
-/
import WntrModel.Model.InpText
import Mathlib.Data.List.Basic

namespace Wntr.InpNorm
open Wntr.InpText

variable {α : Type}

theorem normPat_idem (ps : List String) (p : Option String) : normPat ps (normPat ps p) = normPat ps p := by
  cases p with
  | none => rfl
  | some n =>
    by_cases h : n ∈ ps
    · simp [normPat, h]
    · simp [normPat, h]

theorem normDemands_idem (ps : List String) (ds : List Demand) : normDemands ps (normDemands ps ds) = normDemands ps ds := by
  cases ds with
  | nil => simp [normDemands, normPat]
  | cons d t =>
    simp only [normDemands, List.map_cons, List.map_map, List.cons.injEq]
    refine ⟨by simp [normPat_idem], ?_⟩
    apply List.map_congr_left
    intro x _
    simp [normPat_idem]

theorem normPump_idem (p : Pump) : normPump (normPump p) = normPump p := by
  obtain ⟨n, c, s⟩ := p
  cases c <;> simp [normPump]

theorem normSource_idem (ps : List String) (s : Source) : normSource ps (normSource ps s) = normSource ps s := by
  simp [normSource, normPat_idem]

theorem normOpts_idem (ps : List String) (o : Opts) : normOpts ps (normOpts ps o) = normOpts ps o := by
  simp [normOpts, normPat_idem]

theorem ctlNorm_idem (c : CtlCond) : c.norm.norm = c.norm := by
  cases c with
  | time _ => rfl
  | clock _ => rfl
  | node k n e a ab th => cases k <;> simp [CtlCond.norm, NodeKind.attr]

/-! ### rule conditions -/

theorem cnf_foldl_or (t : Cond α) (g : List α) (rest : List α) (h : cnf t = [g]) :
    cnf (rest.foldl (fun t x => Cond.or t (.atom x)) t) = [g ++ rest] := by
  induction rest generalizing t g with
  | nil => simpa using h
  | cons x xs ih =>
    simp only [List.foldl_cons]
    rw [ih (Cond.or t (.atom x)) (g ++ [x]) (by simp [cnf, h])]
    simp

theorem cnf_groupTree [Inhabited α] (g : List α) (hg : g ≠ []) : cnf (groupTree g) = [g] := by
  cases g with
  | nil => exact absurd rfl hg
  | cons a t =>
    simp only [groupTree, orTree, List.headD_cons, List.tail_cons]
    rw [cnf_foldl_or (.atom a) [a] t rfl]
    simp

theorem cnf_foldl_and [Inhabited α] (t : Cond α) (gs : List (List α)) (hne : ∀ g ∈ gs, g ≠ []) :
    cnf ((gs.map groupTree).foldl .and t) = cnf t ++ gs := by
  induction gs generalizing t with
  | nil => simp
  | cons g rest ih =>
    simp only [List.map_cons, List.foldl_cons]
    rw [ih (.and t (groupTree g)) (fun x hx => hne x (List.mem_cons_of_mem _ hx))]
    simp [cnf, cnf_groupTree g (hne g (List.mem_cons_self ..))]

/-- the groups of the canonical tree are the groups it was built from -/
theorem cnf_ofGroups [Inhabited α] (gs : List (List α)) (h0 : gs ≠ []) (hne : ∀ g ∈ gs, g ≠ []) : cnf (ofGroups gs) = gs := by
  cases gs with
  | nil => exact absurd rfl h0
  | cons g rest =>
    simp only [ofGroups, List.headD_cons, List.tail_cons]
    rw [cnf_foldl_and _ rest (fun x hx => hne x (List.mem_cons_of_mem _ hx)), cnf_groupTree g (hne g (List.mem_cons_self ..))]
    simp

theorem cnf_ne_nil (c : Cond α) : cnf c ≠ [] ∧ ∀ g ∈ cnf c, g ≠ [] := by
  induction c with
  | atom a => simp [cnf]
  | and l r ihl ihr =>
    refine ⟨by simp [cnf, ihl.1], ?_⟩
    intro g hg
    simp only [cnf, List.mem_append] at hg
    rcases hg with h | h
    · exact ihl.2 g h
    · exact ihr.2 g h
  | or l r ihl ihr =>
    constructor
    · obtain ⟨a, la, hl⟩ := List.exists_cons_of_ne_nil ihl.1
      obtain ⟨b, lb, hr⟩ := List.exists_cons_of_ne_nil ihr.1
      simp [cnf, hl, hr]
    · intro g hg
      simp only [cnf, List.mem_flatMap, List.mem_map] at hg
      obtain ⟨g1, h1, g2, _, rfl⟩ := hg
      have := ihl.2 g1 h1
      simp [this]

/-! ### the clauses of the canonical tree; semantics -/

theorem flatten_foldl_or (t : Cond α) (rest : List α) (p : Conj) :
    flatten (rest.foldl (fun t x => Cond.or t (.atom x)) t) p = flatten t p ++ rest.map fun x => (Conj.or_, x) := by
  induction rest generalizing t with
  | nil => simp
  | cons x xs ih => simp [ih, flatten, List.append_assoc]

theorem flatten_groupTree [Inhabited α] (g : List α) (hg : g ≠ []) (p : Conj) : flatten (groupTree g) p = groupClauses p g := by
  cases g with
  | nil => exact absurd rfl hg
  | cons a t => simp [groupTree, orTree, flatten_foldl_or, flatten, groupClauses]

theorem flatten_foldl_and [Inhabited α] (t : Cond α) (gs : List (List α)) (hne : ∀ g ∈ gs, g ≠ []) (p : Conj) :
    flatten ((gs.map groupTree).foldl .and t) p = flatten t p ++ gs.flatMap (groupClauses .and_) := by
  induction gs generalizing t with
  | nil => simp
  | cons g rest ih =>
    simp only [List.map_cons, List.foldl_cons]
    rw [ih _ (fun x hx => hne x (List.mem_cons_of_mem _ hx))]
    simp [flatten, flatten_groupTree g (hne g (List.mem_cons_self ..)), List.append_assoc]

/-- writing the canonical tree in order gives exactly the clauses of its groups -/
theorem flatten_ofGroups [Inhabited α] (gs : List (List α)) (h0 : gs ≠ []) (hne : ∀ g ∈ gs, g ≠ []) :
    flatten (ofGroups gs) .if_ = clausesOfGroups gs := by
  cases gs with
  | nil => exact absurd rfl h0
  | cons g rest =>
    simp only [ofGroups, List.headD_cons, List.tail_cons, clausesOfGroups]
    rw [flatten_foldl_and _ rest (fun x hx => hne x (List.mem_cons_of_mem _ hx)), flatten_groupTree g (hne g (List.mem_cons_self ..))]

/-- truth value of a condition under a valuation of its atoms -/
def eval (v : α → Bool) : Cond α → Bool
  | .atom a => v a
  | .and l r => eval v l && eval v r
  | .or l r => eval v l || eval v r

/-- truth value of an AND of OR-groups -/
def evalGroups (v : α → Bool) (gs : List (List α)) : Bool := gs.all fun g => g.any v

theorem evalGroups_cnf (v : α → Bool) (c : Cond α) : evalGroups v (cnf c) = eval v c := by
  induction c with
  | atom a => simp [cnf, evalGroups, eval]
  | and l r ihl ihr => simp only [cnf, eval, ← ihl, ← ihr, evalGroups, List.all_append]
  | or l r ihl ihr =>
    simp only [cnf, eval, ← ihl, ← ihr, evalGroups]
    generalize cnf l = L
    generalize cnf r = R
    induction L with
    | nil => simp
    | cons g1 t ih =>
      simp only [List.flatMap_cons, List.all_append, List.all_cons, List.all_map, ih]
      have : (R.all fun g2 => (g1 ++ g2).any v) = (g1.any v || R.all fun g2 => g2.any v) := by
        induction R with
        | nil => simp
        | cons g2 r2 ih2 =>
          simp only [List.all_cons, List.any_append, ih2]
          cases g1.any v <;> simp
      simp only [Function.comp_def, this]
      cases g1.any v <;> cases (t.all fun g => g.any v) <;> simp

theorem eval_foldl_or (v : α → Bool) (t : Cond α) (rest : List α) :
    eval v (rest.foldl (fun t x => Cond.or t (.atom x)) t) = (eval v t || rest.any v) := by
  induction rest generalizing t with
  | nil => simp
  | cons x xs ih => simp [ih, eval, Bool.or_assoc]

theorem eval_groupTree [Inhabited α] (v : α → Bool) (g : List α) (hg : g ≠ []) : eval v (groupTree g) = g.any v := by
  cases g with
  | nil => exact absurd rfl hg
  | cons a t => simp [groupTree, orTree, eval_foldl_or, eval]

theorem eval_foldl_and [Inhabited α] (v : α → Bool) (t : Cond α) (gs : List (List α)) (hne : ∀ g ∈ gs, g ≠ []) :
    eval v ((gs.map groupTree).foldl .and t) = (eval v t && evalGroups v gs) := by
  induction gs generalizing t with
  | nil => simp [evalGroups]
  | cons g rest ih =>
    simp only [List.map_cons, List.foldl_cons]
    rw [ih _ (fun x hx => hne x (List.mem_cons_of_mem _ hx))]
    simp [eval, evalGroups, eval_groupTree v g (hne g (List.mem_cons_self ..)), Bool.and_assoc]

theorem eval_ofGroups [Inhabited α] (v : α → Bool) (gs : List (List α)) (h0 : gs ≠ []) (hne : ∀ g ∈ gs, g ≠ []) :
    eval v (ofGroups gs) = evalGroups v gs := by
  cases gs with
  | nil => exact absurd rfl h0
  | cons g rest =>
    simp only [ofGroups, List.headD_cons, List.tail_cons]
    rw [eval_foldl_and v _ rest (fun x hx => hne x (List.mem_cons_of_mem _ hx)), eval_groupTree v g (hne g (List.mem_cons_self ..))]
    simp [evalGroups]

/-- the normal form of a rule condition is stable: normalising again changes nothing -/
theorem condNorm_idem [Inhabited α] (c : Cond α) : ofGroups (cnf (ofGroups (cnf c))) = ofGroups (cnf c) := by
  rw [cnf_ofGroups (cnf c) (cnf_ne_nil c).1 (cnf_ne_nil c).2]

end Wntr.InpNorm
